(* C11 -- soundness of the arithmetic primitives: conversions, neg, add, sub, mul (direct and Larger paths),
   abs, for all widths >= 8, both signednesses and every policy with check_overflow. *)
From Coq Require Import ZArith Lia Bool.
Require Import PPLV.gen.Facts_Result PPLV.Checked.Mach PPLV.Checked.Result PPLV.Checked.Int PPLV.Checked.IntBlocks.
Local Open Scope Z_scope.

Lemma range_facts p t : 8 <= bits t ->
  cmin t <= emin p t <= cmin t + 2 /\ cmax t - 3 <= emax p t <= cmax t /\ 127 <= cmax t /\
  (sgn t = true -> cmin t = - cmax t - 1 /\ cmax t - 1 <= emax p t /\ - emax p t - 1 <= emin p t <= - emax p t) /\
  (sgn t = false -> cmin t = 0 /\ emin p t = 0).
Proof. intros Hb. ranges p t. destruct (sgn t), (has_inf p), (has_nan p); repeat split; intros; try discriminate; lia. Qed.

Lemma pow_cmp b c : 1 <= b -> 1 <= c ->
  (b + 2 <= c -> 4 * 2 ^ (b - 1) <= 2 ^ (c - 1)) /\ (b = c -> 2 ^ (b - 1) = 2 ^ (c - 1)).
Proof.
  intros. split; intros; [|subst; reflexivity].
  replace (4 * 2 ^ (b - 1)) with (2 ^ (b + 1)).
  - apply pow_mono; lia.
  - rewrite (pow_half (b + 1)) by lia. replace (b + 1 - 1) with b by lia. rewrite (pow_half b) by lia. lia.
Qed.

(* ranges of two types compared *)
Lemma cmp_ranges t ft : 8 <= bits t -> 8 <= bits ft ->
  (bits t + 2 <= bits ft -> 4 * 2 ^ (bits t - 1) <= 2 ^ (bits ft - 1)) /\
  (bits t = bits ft -> 2 ^ (bits t - 1) = 2 ^ (bits ft - 1)) /\
  (bits ft + 2 <= bits t -> 4 * 2 ^ (bits ft - 1) <= 2 ^ (bits t - 1)).
Proof. intros. pose proof (pow_cmp (bits t) (bits ft)). pose proof (pow_cmp (bits ft) (bits t)). intuition lia. Qed.

Ltac bspec :=
  repeat match goal with
  | |- context [?a <? ?b] => destruct (Z.ltb_spec a b)
  | |- context [?a <=? ?b] => destruct (Z.leb_spec a b)
  | |- context [?a =? ?b] => destruct (Z.eqb_spec a b)
  end.

Section Assign.
Variables (p fp : policy) (t ft : ity).
Hypothesis Hb : 8 <= bits t.
Hypothesis Hbf : 8 <= bits ft.
Hypothesis Hco : check_overflow p = true.
(* C++ integer widths double from one type to the next *)
Hypothesis Hw : bits t = bits ft \/ 2 * bits t <= bits ft \/ 2 * bits ft <= bits t.

(* assign_<s>_int_<s>_int: a finite source value is either copied exactly or classified as an overflow *)
Lemma assign_int_int_ok d from old :
  fin fp ft from ->
  exists sr, assign_int_int p t fp ft d from old = Some sr /\ okx p t d sr (EInt from).
Proof.
  intros F.
  assert (K : forall s, s = from -> fin p t s -> exists sr, (do v <- mach t s; Some (v, V_EQ)) = Some sr /\ okx p t d sr (EInt from)).
  { intros s -> F'. rewrite mach_in by (apply fin_in_range with (p := p); auto).
    eexists; split; [reflexivity|]. apply eq_int; auto. }
  assert (KP : emax p t < from -> exists sr, Some (set_pos_overflow p t d old) = Some sr /\ okx p t d sr (EInt from)).
  { intros. eexists; split; [reflexivity|]. apply pos_ovf_int; auto. }
  assert (KN : from < emin p t -> exists sr, Some (set_neg_overflow p t d old) = Some sr /\ okx p t d sr (EInt from)).
  { intros. eexists; split; [reflexivity|]. apply neg_ovf_int; auto. }
  pose proof (cmp_ranges t ft Hb Hbf) as (C1 & C2 & C3).
  unfold assign_int_int. rewrite Hco. unfold check_p.
  assert (Pt : 128 <= 2 ^ (bits t - 1)) by (apply pow_ge_128; lia).
  assert (Pf : 128 <= 2 ^ (bits ft - 1)) by (apply pow_ge_128; lia).
  destruct (sgn t) eqn:St, (sgn ft) eqn:Sf.
  - (* signed <- signed *)
    destruct ((bits t <? bits ft) || ((bits t =? bits ft) && ((emin fp ft <? emin p t) || (emax p t <? emax fp ft)))) eqn:Cd.
    + assert (bits t <= bits ft).
      { apply orb_true_iff in Cd. destruct Cd as [Cd|Cd]; [apply Z.ltb_lt in Cd; lia|].
        apply andb_true_iff in Cd. destruct Cd as [Cd _]. apply Z.eqb_eq in Cd. lia. }
      assert (R : cmin ft <= emin p t <= cmax ft /\ cmin ft <= emax p t <= cmax ft).
      { unfold fin, emin, emax, cmin, cmax, b2z in *. rewrite St, Sf in *.
        rewrite ?(pow_half (bits t)), ?(pow_half (bits ft)) in * by lia.
        destruct (has_inf p), (has_nan p); lia. }
      rewrite !mach_in by lia.
      destruct (Z.ltb_spec from (emin p t)); [auto|].
      destruct (Z.ltb_spec (emax p t) from); [auto|]. apply K; auto. unfold fin; lia.
    + apply K; auto.
      apply orb_false_iff in Cd. destruct Cd as [Cd1 Cd2]. apply Z.ltb_ge in Cd1.
      unfold fin, emin, emax, cmin, cmax, b2z in *. rewrite St, Sf in *.
      rewrite ?(pow_half (bits t)), ?(pow_half (bits ft)) in * by lia.
      destruct (Z.eqb_spec (bits t) (bits ft)) as [Eb|Eb]; cbn [andb] in Cd2.
      * apply orb_false_iff in Cd2. destruct Cd2 as [Cd2 Cd3]. apply Z.ltb_ge in Cd2, Cd3. lia.
      * destruct (has_inf p), (has_nan p), (has_inf fp), (has_nan fp); lia.
  - (* signed <- unsigned *)
    destruct (Z.leb_spec (bits t) (bits ft)).
    + assert (R : cmin ft <= emax p t <= cmax ft).
      { unfold fin, emin, emax, cmin, cmax, b2z in *. rewrite St, Sf in *.
        rewrite ?(pow_half (bits t)), ?(pow_half (bits ft)) in * by lia.
        destruct (has_inf p), (has_nan p); lia. }
      rewrite !mach_in by lia.
      destruct (Z.ltb_spec (emax p t) from); [auto|]. apply K; auto.
      unfold fin, emin, emax, cmin, cmax, b2z in *. rewrite St, Sf in *.
      rewrite ?(pow_half (bits t)), ?(pow_half (bits ft)) in * by lia.
      destruct (has_inf p), (has_nan p), (has_inf fp), (has_nan fp); lia.
    + apply K; auto.
      unfold fin, emin, emax, cmin, cmax, b2z in *. rewrite St, Sf in *.
      rewrite ?(pow_half (bits t)), ?(pow_half (bits ft)) in * by lia.
      destruct (has_inf p), (has_nan p), (has_inf fp), (has_nan fp); lia.
  - (* unsigned <- signed *)
    assert (E0 : emin p t = 0) by (unfold emin, cmin; rewrite St; lia).
    destruct (Z.ltb_spec from 0); [apply KN; lia|].
    destruct (Z.ltb_spec (bits t) (bits ft)).
    + assert (R : cmin ft <= emax p t <= cmax ft).
      { unfold fin, emin, emax, cmin, cmax, b2z in *. rewrite St, Sf in *.
        rewrite ?(pow_half (bits t)), ?(pow_half (bits ft)) in * by lia.
        destruct (has_inf p), (has_nan p); lia. }
      rewrite !mach_in by lia.
      destruct (Z.ltb_spec (emax p t) from); [auto|]. apply K; auto. unfold fin; lia.
    + apply K; auto.
      unfold fin, emin, emax, cmin, cmax, b2z in *. rewrite St, Sf in *.
      rewrite ?(pow_half (bits t)), ?(pow_half (bits ft)) in * by lia.
      destruct (has_inf p), (has_nan p), (has_inf fp), (has_nan fp); lia.
  - (* unsigned <- unsigned *)
    assert (E0 : emin p t = 0) by (unfold emin, cmin; rewrite St; lia).
    assert (F0 : 0 <= from) by (unfold fin, emin, cmin in F; rewrite Sf in F; lia).
    destruct ((bits t <? bits ft) || ((bits t =? bits ft) && (emax p t <? emax fp ft))) eqn:Cd.
    + assert (bits t <= bits ft).
      { apply orb_true_iff in Cd. destruct Cd as [Cd|Cd]; [apply Z.ltb_lt in Cd; lia|].
        apply andb_true_iff in Cd. destruct Cd as [Cd _]. apply Z.eqb_eq in Cd. lia. }
      assert (R : cmin ft <= emax p t <= cmax ft).
      { unfold fin, emin, emax, cmin, cmax, b2z in *. rewrite St, Sf in *.
        rewrite ?(pow_half (bits t)), ?(pow_half (bits ft)) in * by lia.
        destruct (has_inf p), (has_nan p); lia. }
      rewrite !mach_in by lia.
      destruct (Z.ltb_spec (emax p t) from); [auto|]. apply K; auto. unfold fin; lia.
    + apply K; auto.
      apply orb_false_iff in Cd. destruct Cd as [Cd1 Cd2]. apply Z.ltb_ge in Cd1.
      destruct (Z.eqb_spec (bits t) (bits ft)) as [Eb|Eb]; cbn [andb] in Cd2.
      * apply Z.ltb_ge in Cd2. unfold fin in *. lia.
      * unfold fin, emin, emax, cmin, cmax, b2z in *. rewrite St, Sf in *.
        rewrite ?(pow_half (bits t)), ?(pow_half (bits ft)) in * by lia.
        destruct (has_inf p), (has_nan p), (has_inf fp), (has_nan fp); lia.
Qed.
End Assign.

(* well-formedness of a Larger<T> entry: twice as wide; signed for neg/sub, same signedness for add/mul *)
Definition lg_wf_signed (t : ity) (o : option ity) :=
  match o with None => True | Some lt => 2 * bits t <= bits lt /\ sgn lt = true end.
Definition lg_wf_same (t : ity) (o : option ity) :=
  match o with None => True | Some lt => 2 * bits t <= bits lt /\ sgn lt = sgn t end.
Definition cfg_wf (c : cfg) :=
  8 <= bits (ty c) /\ lg_wf_signed (ty c) (lg_neg c) /\ lg_wf_same (ty c) (lg_add c) /\
  lg_wf_signed (ty c) (lg_sub c) /\ lg_wf_same (ty c) (lg_mul c).

Lemma larger_pow t lt : 8 <= bits t -> 2 * bits t <= bits lt ->
  2 * 2 ^ (bits t - 1) * 2 ^ (bits t - 1) <= 2 ^ (bits lt - 1) /\ 128 <= 2 ^ (bits t - 1).
Proof.
  intros Hb Hl. split; [|apply pow_ge_128; lia].
  replace (2 * 2 ^ (bits t - 1) * 2 ^ (bits t - 1)) with (2 ^ (2 * bits t - 1)).
  - apply pow_mono; lia.
  - replace (2 * bits t - 1) with (1 + (bits t - 1) + (bits t - 1)) by lia.
    rewrite !Z.pow_add_r by lia. reflexivity.
Qed.

Section Arith.
Variable c : cfg.
Let t := ty c.
Let p := pol c.
Hypothesis Hwf : cfg_wf c.
Hypothesis Hco : check_overflow p = true.

Let Hb : 8 <= bits t. Proof. destruct Hwf; auto. Qed.

(* the tail of every Larger path: the exact value l, computed without overflow in the wider type, is assigned *)
Lemma larger_tail lt d l old :
  2 * bits t <= bits lt ->
  - (2 * 2 ^ (bits t - 1) * 2 ^ (bits t - 1)) + 4 <= l <= 4 * 2 ^ (bits t - 1) * 2 ^ (bits t - 1) - 8 ->
  (sgn lt = true -> l <= 2 * 2 ^ (bits t - 1) * 2 ^ (bits t - 1) - 8) ->
  (sgn lt = false -> 0 <= l) ->
  exists sr, assign_int_int p t p lt d l old = Some sr /\ okx p t d sr (EInt l).
Proof.
  intros Hl R Rs Ru. destruct (larger_pow t lt Hb Hl) as [L1 L2].
  apply assign_int_int_ok; auto; try lia.
  unfold fin, emin, emax, cmin, cmax, b2z.
  rewrite (pow_half (bits lt)) by lia.
  destruct (sgn lt) eqn:S; [specialize (Rs eq_refl)|specialize (Ru eq_refl)];
    destruct (has_inf p), (has_nan p); lia.
Qed.

Ltac pose_ranges :=
  pose proof (range_facts p t Hb) as (RF1 & RF2 & RF3 & RF4 & RF5).

Ltac in_larger lt Hl :=
  let L1 := fresh "L1" in let L2 := fresh "L2" in
  change (bits (ty c)) with (bits t) in Hl;
  destruct (larger_pow t lt Hb Hl) as [L1 L2];
  assert ((sgn lt = true -> cmin lt <= - (2 * 2 ^ (bits t - 1) * 2 ^ (bits t - 1))) /\ cmin lt <= 0 /\
          2 * 2 ^ (bits t - 1) * 2 ^ (bits t - 1) - 1 <= cmax lt /\
          (sgn lt = false -> 4 * 2 ^ (bits t - 1) * 2 ^ (bits t - 1) - 1 <= cmax lt))
    by (unfold cmin, cmax; rewrite (pow_half (bits lt)) by lia; destruct (sgn lt); repeat split; intros; try discriminate; lia).

(* ---- neg ---- *)
Theorem neg_int_ok d x old :
  fin p t x -> exists sr, neg_int c d x old = Some sr /\ okx p t d sr (EInt (- x)).
Proof.
  intros F. pose_ranges. unfold neg_int. fold p. rewrite Hco.
  destruct (lg_neg c) as [lt|] eqn:LG.
  - destruct Hwf as (_ & W & _). rewrite LG in W. destruct W as [Hl Hs]. change (ty c) with t in Hs.
    unfold neg_larger. fold t p. in_larger lt Hl.
    assert (X : cmin t <= x <= cmax t) by (unfold fin in F; lia).
    assert (XB : - (2 * 2 ^ (bits t - 1)) <= x <= 2 * 2 ^ (bits t - 1)).
    { unfold cmin, cmax in X. rewrite (pow_half (bits t)) in X by lia. destruct (sgn t); lia. }
    destruct H as (H1 & H2 & H3 & H4). specialize (H1 Hs).
    rewrite !mach_in by nia.
    apply larger_tail; auto; try nia. congruence.
  - unfold neg_direct. fold t p. rewrite Hco. unfold check_p.
    destruct (sgn t) eqn:S.
    + specialize (RF4 eq_refl). unfold fin in F.
      destruct (Z.ltb_spec x (- emax p t)).
      * eexists; split; [reflexivity|]. apply pos_ovf_int; auto; lia.
      * rewrite mach_in by lia. eexists; split; [reflexivity|]. apply eq_int; auto; unfold fin; lia.
    + specialize (RF5 eq_refl). unfold fin in F.
      destruct (Z.eqb_spec x 0); cbn [negb].
      * subst x. eexists; split; [reflexivity|]. apply eq_int; auto; unfold fin; lia.
      * eexists; split; [reflexivity|]. apply neg_ovf_int; auto; lia.
Qed.

(* ---- add ---- *)
Theorem add_int_ok d x y old :
  fin p t x -> fin p t y -> exists sr, add_int c d x y old = Some sr /\ okx p t d sr (EInt (x + y)).
Proof.
  intros Fx Fy. pose_ranges. unfold add_int. fold p. rewrite Hco.
  destruct (lg_add c) as [lt|] eqn:LG.
  - destruct Hwf as (_ & _ & W & _). rewrite LG in W. destruct W as [Hl Hs]. change (ty c) with t in Hs.
    unfold add_larger. fold t p. in_larger lt Hl.
    assert (X : cmin t <= x <= cmax t /\ cmin t <= y <= cmax t) by (unfold fin in *; lia).
    unfold cmin, cmax in X. rewrite (pow_half (bits t)) in X by lia.
    destruct H as (H1 & H2 & H3 & H4). rewrite Hs in H1, H4.
    destruct (sgn t) eqn:S; [specialize (H1 eq_refl)|specialize (H4 eq_refl)].
    + rewrite !mach_in by nia. apply larger_tail; auto; try nia; congruence.
    + rewrite !mach_in by nia. apply larger_tail; auto; try nia; congruence.
  - unfold add_direct. fold t p. rewrite Hco. unfold fin in *.
    destruct (sgn t) eqn:S.
    + specialize (RF4 eq_refl).
      destruct (Z.leb_spec 0 y).
      * rewrite mach_in by lia. destruct (Z.ltb_spec (emax p t - y) x).
        -- eexists; split; [reflexivity|]. apply pos_ovf_int; auto; lia.
        -- rewrite mach_in by lia. eexists; split; [reflexivity|]. apply eq_int; auto; unfold fin; lia.
      * rewrite mach_in by lia. destruct (Z.ltb_spec x (emin p t - y)).
        -- eexists; split; [reflexivity|]. apply neg_ovf_int; auto; lia.
        -- rewrite mach_in by lia. eexists; split; [reflexivity|]. apply eq_int; auto; unfold fin; lia.
    + specialize (RF5 eq_refl).
      rewrite mach_in by lia. destruct (Z.ltb_spec (emax p t - y) x).
      * eexists; split; [reflexivity|]. apply pos_ovf_int; auto; lia.
      * rewrite mach_in by lia. eexists; split; [reflexivity|]. apply eq_int; auto; unfold fin; lia.
Qed.

(* ---- sub ---- *)
Theorem sub_int_ok d x y old :
  fin p t x -> fin p t y -> exists sr, sub_int c d x y old = Some sr /\ okx p t d sr (EInt (x - y)).
Proof.
  intros Fx Fy. pose_ranges. unfold sub_int. fold p. rewrite Hco.
  destruct (lg_sub c) as [lt|] eqn:LG.
  - destruct Hwf as (_ & _ & _ & W & _). rewrite LG in W. destruct W as [Hl Hs]. change (ty c) with t in Hs.
    unfold sub_larger. fold t p. in_larger lt Hl.
    assert (X : cmin t <= x <= cmax t /\ cmin t <= y <= cmax t) by (unfold fin in *; lia).
    unfold cmin, cmax in X. rewrite (pow_half (bits t)) in X by lia.
    destruct H as (H1 & H2 & H3 & H4). specialize (H1 Hs).
    destruct (sgn t) eqn:S; rewrite !mach_in by nia; (apply larger_tail; auto; try nia; congruence).
  - unfold sub_direct. fold t p. rewrite Hco. unfold fin in *.
    destruct (sgn t) eqn:S.
    + specialize (RF4 eq_refl).
      destruct (Z.leb_spec 0 y).
      * rewrite mach_in by lia. destruct (Z.ltb_spec x (emin p t + y)).
        -- eexists; split; [reflexivity|]. apply neg_ovf_int; auto; lia.
        -- rewrite mach_in by lia. eexists; split; [reflexivity|]. apply eq_int; auto; unfold fin; lia.
      * rewrite mach_in by lia. destruct (Z.ltb_spec (emax p t + y) x).
        -- eexists; split; [reflexivity|]. apply pos_ovf_int; auto; lia.
        -- rewrite mach_in by lia. eexists; split; [reflexivity|]. apply eq_int; auto; unfold fin; lia.
    + specialize (RF5 eq_refl).
      rewrite mach_in by lia. destruct (Z.ltb_spec x (emin p t + y)).
      * eexists; split; [reflexivity|]. apply neg_ovf_int; auto; lia.
      * rewrite mach_in by lia. eexists; split; [reflexivity|]. apply eq_int; auto; unfold fin; lia.
Qed.

(* C++ division facts *)
Lemma quot_facts a b : b <> 0 ->
  a = b * (a ÷ b) + Z.rem a b /\ Z.abs (Z.rem a b) < Z.abs b /\
  (0 <= a -> 0 <= Z.rem a b) /\ (a <= 0 -> Z.rem a b <= 0).
Proof.
  intros Hb0. repeat split.
  - apply Z.quot_rem'.
  - apply Z.rem_bound_abs; auto.
  - intros. apply Z.rem_nonneg; auto.
  - intros. apply Z.rem_nonpos; auto.
Qed.

Ltac prep_quot a y Y0 :=
  let Q1 := fresh "Q1" in let Q2 := fresh "Q2" in let Q3 := fresh "Q3" in let Q4 := fresh "Q4" in
  let q := fresh "q" in let r := fresh "r" in
  destruct (quot_facts a y Y0) as (Q1 & Q2 & Q3 & Q4);
  set (q := a ÷ y) in *; set (r := Z.rem a y) in *; clearbody q r;
  try (specialize (Q3 ltac:(lia))); try (specialize (Q4 ltac:(lia)));
  (assert (- Z.abs y < r < Z.abs y) by lia); clear Q2;
  (rewrite ?Z.abs_eq, ?Z.abs_neq in * by lia).

(* ---- mul ---- *)
Theorem mul_int_ok d x y old :
  fin p t x -> fin p t y -> exists sr, mul_int c d x y old = Some sr /\ okx p t d sr (EInt (x * y)).
Proof.
  intros Fx Fy. pose_ranges. unfold mul_int. fold p. rewrite Hco.
  destruct (lg_mul c) as [lt|] eqn:LG.
  - destruct Hwf as (_ & _ & _ & _ & W). rewrite LG in W. destruct W as [Hl Hs]. change (ty c) with t in Hs.
    unfold mul_larger. fold t p. in_larger lt Hl.
    assert (X : cmin t <= x <= cmax t /\ cmin t <= y <= cmax t) by (unfold fin in *; lia).
    unfold cmin, cmax in X. rewrite (pow_half (bits t)) in X by lia.
    destruct H as (H1 & H2 & H3 & H4). rewrite Hs in H1, H4.
    destruct (sgn t) eqn:S; [specialize (H1 eq_refl)|specialize (H4 eq_refl)].
    + rewrite !mach_in by nia. apply larger_tail; auto; try nia; congruence.
    + rewrite !mach_in by nia. apply larger_tail; auto; try nia; congruence.
  - unfold mul_direct. fold t p. rewrite Hco. cbn [negb]. unfold fin in *.
    assert (E0 : x * 0 = 0) by lia.
    destruct (sgn t) eqn:S.
    + specialize (RF4 eq_refl).
      destruct (Z.eqb_spec y 0) as [Y0|Y0].
      { subst y. rewrite E0. eexists; split; [reflexivity|]. apply eq_int; auto; unfold fin; lia. }
      destruct (Z.eqb_spec y (-1)) as [Y1|Y1].
      { subst y. replace (x * -1) with (- x) by lia. apply neg_int_ok. unfold fin; lia. }
      unfold mquot. destruct (Z.eqb_spec y 0); [contradiction|].
      destruct (Z.leb_spec 0 x), (Z.ltb_spec 0 y), (Z.ltb_spec y 0); try lia.
      * prep_quot (emax p t) y Y0.
        assert (0 <= q <= emax p t) by nia.
        rewrite mach_in by lia. destruct (Z.ltb_spec (q) x).
        -- eexists; split; [reflexivity|]. apply pos_ovf_int; auto. nia.
        -- rewrite mach_in by nia. eexists; split; [reflexivity|]. apply eq_int; auto; unfold fin; nia.
      * prep_quot (emin p t) y Y0.
        assert (0 <= q /\ 2 * q <= - emin p t) by nia.
        rewrite mach_in by lia. destruct (Z.ltb_spec (q) x).
        -- eexists; split; [reflexivity|]. apply neg_ovf_int; auto. nia.
        -- rewrite mach_in by nia. eexists; split; [reflexivity|]. apply eq_int; auto; unfold fin; nia.
      * prep_quot (emin p t) y Y0.
        assert (emin p t <= q <= 0) by nia.
        rewrite mach_in by lia. destruct (Z.ltb_spec x (q)).
        -- eexists; split; [reflexivity|]. apply neg_ovf_int; auto. nia.
        -- rewrite mach_in by nia. eexists; split; [reflexivity|]. apply eq_int; auto; unfold fin; nia.
      * prep_quot (emax p t) y Y0.
        assert (- emax p t <= q <= 0) by nia.
        rewrite mach_in by lia. destruct (Z.ltb_spec x (q)).
        -- eexists; split; [reflexivity|]. apply pos_ovf_int; auto. nia.
        -- rewrite mach_in by nia. eexists; split; [reflexivity|]. apply eq_int; auto; unfold fin; nia.
    + specialize (RF5 eq_refl).
      destruct (Z.eqb_spec y 0) as [Y0|Y0].
      { subst y. rewrite E0. eexists; split; [reflexivity|]. apply eq_int; auto; unfold fin; lia. }
      unfold mquot. destruct (Z.eqb_spec y 0); [contradiction|].
      prep_quot (emax p t) y Y0.
      assert (0 <= q <= emax p t) by nia.
      rewrite mach_in by lia. destruct (Z.ltb_spec (q) x).
      * eexists; split; [reflexivity|]. apply pos_ovf_int; auto. nia.
      * rewrite mach_in by nia. eexists; split; [reflexivity|]. apply eq_int; auto; unfold fin; nia.
Qed.

(* ---- add_mul, sub_mul ---- *)
Lemma okx_okn d sr e : okx p t d sr e -> okn p t d sr e.
Proof. intros [A B]. split; auto. Qed.

Theorem add_mul_int_ok d x y z :
  fin p t x -> fin p t y -> fin p t z ->
  exists sr, add_mul_int c d x y z = Some sr /\ okn p t d sr (EInt (z + x * y)).
Proof.
  intros Fx Fy Fz. unfold add_mul_int. fold t p.
  destruct (mul_int_ok d x y 0 Fx Fy) as ([m r] & E & [[Cl _] Cr]). rewrite E. cbn [fst snd] in *.
  destruct Cr as [Cr|Cr].
  - subst r. change (result_overflow V_EQ =? 0) with true. cbn iota.
    revert Cl. unfold claim. decs. cbn. intros (_ & Fm & Em & _). rewrite Em.
    destruct (add_int_ok d z m z Fz Fm) as (sr & E' & O). exists sr. split; auto. apply okx_okn; auto.
  - destruct (Z.eqb_spec (result_overflow r) 0); [contradiction|].
    destruct (result_overflow_cases r) as [K|[K|K]]; [contradiction| |]; rewrite K.
    + pose proof (ovf_neg_claim p t _ _ _ Cl K). change (-1 =? -1) with true. cbn iota.
      destruct (Z.leb_spec z 0).
      * eexists; split; [reflexivity|]. apply okx_okn. apply neg_ovf_int; auto. lia.
      * eexists; split; [reflexivity|]. apply unknown_ok; auto.
    + pose proof (ovf_pos_claim p t _ _ _ Cl K). change (1 =? -1) with false. cbn iota.
      destruct (Z.leb_spec 0 z).
      * eexists; split; [reflexivity|]. apply okx_okn. apply pos_ovf_int; auto. lia.
      * eexists; split; [reflexivity|]. apply unknown_ok; auto.
Qed.

Theorem sub_mul_int_ok d x y z :
  fin p t x -> fin p t y -> fin p t z ->
  exists sr, sub_mul_int c d x y z = Some sr /\ okn p t d sr (EInt (z - x * y)).
Proof.
  intros Fx Fy Fz. unfold sub_mul_int. fold t p.
  destruct (mul_int_ok d x y 0 Fx Fy) as ([m r] & E & [[Cl _] Cr]). rewrite E. cbn [fst snd] in *.
  destruct Cr as [Cr|Cr].
  - subst r. change (result_overflow V_EQ =? 0) with true. cbn iota.
    revert Cl. unfold claim. decs. cbn. intros (_ & Fm & Em & _). rewrite Em.
    destruct (sub_int_ok d z m z Fz Fm) as (sr & E' & O). exists sr. split; auto. apply okx_okn; auto.
  - destruct (Z.eqb_spec (result_overflow r) 0); [contradiction|].
    destruct (result_overflow_cases r) as [K|[K|K]]; [contradiction| |]; rewrite K.
    + pose proof (ovf_neg_claim p t _ _ _ Cl K). change (-1 =? -1) with true. cbn iota.
      destruct (Z.leb_spec 0 z).
      * eexists; split; [reflexivity|]. apply okx_okn. apply pos_ovf_int; auto. pose_ranges. unfold fin in *. destruct (sgn t); [specialize (RF4 eq_refl)|specialize (RF5 eq_refl)]; nia.
      * eexists; split; [reflexivity|]. apply unknown_ok; auto.
    + pose proof (ovf_pos_claim p t _ _ _ Cl K). change (1 =? -1) with false. cbn iota.
      destruct ((z <? 0) || ((z =? 0) && (0 <=? emin p t + emax p t))) eqn:B.
      * eexists; split; [reflexivity|]. apply okx_okn. apply neg_ovf_int; auto.
        pose_ranges. unfold fin in *.
        apply orb_true_iff in B. destruct B as [B|B].
        -- apply Z.ltb_lt in B. destruct (sgn t); [specialize (RF4 eq_refl)|specialize (RF5 eq_refl)]; nia.
        -- apply andb_true_iff in B. destruct B as [B1 B2]. apply Z.eqb_eq in B1. apply Z.leb_le in B2. lia.
      * eexists; split; [reflexivity|]. apply unknown_ok; auto.
Qed.

(* ---- abs ---- *)
Theorem abs_int_ok d x old :
  fin p t x -> exists sr, abs_int c d x old = Some sr /\ okx p t d sr (EInt (Z.abs x)).
Proof.
  intros F. unfold abs_int. fold t p.
  destruct (sgn t && (x <? 0)) eqn:B.
  - apply andb_true_iff in B. destruct B as [_ B]. apply Z.ltb_lt in B.
    replace (Z.abs x) with (- x) by lia. apply neg_int_ok; auto.
  - assert (0 <= x).
    { pose_ranges. apply andb_false_iff in B. destruct B as [B|B].
      - specialize (RF5 B). unfold fin in F. lia.
      - apply Z.ltb_ge in B. lia. }
    replace (Z.abs x) with x by lia. apply assign_int_int_ok; auto.
Qed.
End Arith.
