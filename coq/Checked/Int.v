(* C11 -- transcription of the native-integer primitives of /repo/src/checked_int_inlines.hh
   (and the generic helpers of checked_inlines.hh they use), parametric in

     t  : the C++ integer type (width, signedness)            -- one definition covers char ... long long
     p  : the policy flags (check_overflow, has_nan, has_infinity, check_div_zero, ...)
     the Larger<T> table entry (which of neg/add/sub/mul go through the wider type, and that type).

   A primitive takes the previous content [old] of the destination and returns
       None            -- undefined behaviour / a failed PPL assertion (CHECK_P with a disabled check whose
                          condition holds) / a machine overflow in some sub-expression (see Mach.v)
       Some (s, r)     -- destination now holds s (= old when the code does not write it), result word r.
   Line numbers refer to checked_int_inlines.hh. *)
From Coq Require Import ZArith Lia Bool.
Require Import PPLV.gen.Facts_Result PPLV.Checked.Mach PPLV.Checked.Result.
Local Open Scope Z_scope.

Record cfg := {
  ty : ity; pol : policy;
  lg_neg : option ity; lg_add : option ity; lg_sub : option ity; lg_mul : option ity }.

Definition M := option (Z * Z).

(* CHECK_P(cond, check): ((cond) ? (check) : (assert(!(check)), false)) *)
Definition check_p (c chk : bool) : option bool := if c then Some chk else if chk then None else Some false.

Definition U r := Z.lor r V_UNREPRESENTABLE.

(* :93 set_neg_overflow_int, :109 set_pos_overflow_int *)
Definition set_neg_overflow p t d old : Z * Z :=
  if round_up d then (emin p t, V_LT_INF)
  else if has_inf p then (minf t, V_GT_MINUS_INFINITY) else (old, U V_GT_MINUS_INFINITY).
Definition set_pos_overflow p t d old : Z * Z :=
  if round_down d then (emax p t, V_GT_SUP)
  else if has_inf p then (pinf t, V_LT_PLUS_INFINITY) else (old, U V_LT_PLUS_INFINITY).

(* :125 round_lt_int_no_overflow, :135 round_gt_int_no_overflow *)
Definition round_lt_no (t : ity) d to : M :=
  if round_down d then do v <- mach t (to - 1); Some (v, V_GT) else Some (to, V_LT).
Definition round_gt_no (t : ity) d to : M :=
  if round_up d then do v <- mach t (to + 1); Some (v, V_LT) else Some (to, V_GT).

(* :145 round_lt_int, :164 round_gt_int *)
Definition round_lt_int p t d to : M :=
  if round_down d then
    if to =? emin p t then
      Some (if has_inf p then (minf t, V_GT_MINUS_INFINITY) else (to, U V_GT_MINUS_INFINITY))
    else do v <- mach t (to - 1); Some (v, V_GT)
  else Some (to, V_LT).
Definition round_gt_int p t d to : M :=
  if round_up d then
    if to =? emax p t then
      Some (if has_inf p then (pinf t, V_LT_PLUS_INFINITY) else (to, U V_LT_PLUS_INFINITY))
    else do v <- mach t (to + 1); Some (v, V_LT)
  else Some (to, V_GT).

(* :195 classify_int *)
Definition classify_int p t v (nan inf sign : bool) : Z :=
  if has_nan p && (nan || sign) && (v =? nan_enc p t) then V_NAN
  else if negb inf && negb sign then V_LGE
  else if has_inf p && (v =? minf t) then (if inf then V_EQ_MINUS_INFINITY else V_LT)
  else if has_inf p && (v =? pinf t) then (if inf then V_EQ_PLUS_INFINITY else V_GT)
  else if sign then (if v <? 0 then V_LT else if 0 <? v then V_GT else V_EQ)
  else V_LGE.
Definition is_nan_int p t v := has_nan p && (v =? nan_enc p t).
Definition is_minf_int p t v := has_inf p && (v =? minf t).
Definition is_pinf_int p t v := has_inf p && (v =? pinf t).

(* :312 assign_special_int *)
Definition assign_special p t (c : rclass) d old : Z * Z :=
  match c with
  | CNan => if has_nan p then (nan_enc p t, V_NAN) else (old, U V_NAN)
  | CMinf => if has_inf p then (minf t, V_EQ_MINUS_INFINITY)
             else if round_up d then (emin p t, V_LT_INF) else (old, U V_EQ_MINUS_INFINITY)
  | CPinf => if has_inf p then (pinf t, V_EQ_PLUS_INFINITY)
             else if round_down d then (emax p t, V_GT_SUP) else (old, U V_EQ_PLUS_INFINITY)
  | CNormal => (old, U V_NAN)   (* PPL_UNREACHABLE *)
  end.

(* checked_inlines.hh:646 assign_nan *)
Definition assign_nan p t r old : Z * Z := (fst (assign_special p t CNan ROUND_IGNORE old), r).

(* :361-426 the four assign_<s>_int_<s>_int; (fp, ft) = policy and type of the source *)
Definition assign_int_int p t fp ft d (from old : Z) : M :=
  let co := check_overflow p in
  let plain := do v <- mach t from; Some (v, V_EQ) in
  match sgn t, sgn ft with
  | true, true =>
      if (bits t <? bits ft)
         || ((bits t =? bits ft) && ((emin fp ft <? emin p t) || (emax p t <? emax fp ft))) then
        do lo <- mach ft (emin p t);
        do b <- check_p co (from <? lo);
        if b then Some (set_neg_overflow p t d old) else
        do hi <- mach ft (emax p t);
        do b <- check_p co (hi <? from);
        if b then Some (set_pos_overflow p t d old) else plain
      else plain
  | true, false =>
      if bits t <=? bits ft then
        do hi <- mach ft (emax p t);
        do b <- check_p co (hi <? from);
        if b then Some (set_pos_overflow p t d old) else plain
      else plain
  | false, true =>
      do b <- check_p co (from <? 0);
      if b then Some (set_neg_overflow p t d old) else
      if bits t <? bits ft then
        do hi <- mach ft (emax p t);
        do b <- check_p co (hi <? from);
        if b then Some (set_pos_overflow p t d old) else plain
      else plain
  | false, false =>
      if (bits t <? bits ft) || ((bits t =? bits ft) && (emax p t <? emax fp ft)) then
        do hi <- mach ft (emax p t);
        do b <- check_p co (hi <? from);
        if b then Some (set_pos_overflow p t d old) else plain
      else plain
  end.

Section Ops.
Variable c : cfg.
Let t := ty c.
Let p := pol c.
Let co := check_overflow p.

(* :962-995 the *_int_larger paths: compute in the wider type, then assign<To_Policy,To_Policy> *)
Definition neg_larger lt d x old : M :=
  do l <- mach lt x; do l <- mach lt (- l); assign_int_int p t p lt d l old.
Definition add_larger lt d x y old : M :=
  do l <- mach lt x; do y' <- mach lt y; do l <- mach lt (l + y'); assign_int_int p t p lt d l old.
Definition sub_larger lt d x y old : M :=
  do l <- mach lt x; do y' <- mach lt y; do l <- mach lt (l - y'); assign_int_int p t p lt d l old.
Definition mul_larger lt d x y old : M :=
  do l <- mach lt x; do y' <- mach lt y; do l <- mach lt (l * y'); assign_int_int p t p lt d l old.

(* :997 neg_signed_int, :1011 neg_unsigned_int *)
Definition neg_direct d from old : M :=
  if sgn t then
    do b <- check_p co (from <? - emax p t);
    if b then Some (set_pos_overflow p t d old) else do v <- mach t (- from); Some (v, V_EQ)
  else
    do b <- check_p co (negb (from =? 0));
    if b then Some (set_neg_overflow p t d old) else Some (from, V_EQ).
Definition neg_int d from old : M :=
  match (if co then lg_neg c else None) with Some lt => neg_larger lt d from old | None => neg_direct d from old end.

(* :1024 add_signed_int, :1045 add_unsigned_int *)
Definition add_direct d x y old : M :=
  if sgn t then
    if co then
      if 0 <=? y then
        do m <- mach t (emax p t - y);
        if m <? x then Some (set_pos_overflow p t d old) else do v <- mach t (x + y); Some (v, V_EQ)
      else
        do m <- mach t (emin p t - y);
        if x <? m then Some (set_neg_overflow p t d old) else do v <- mach t (x + y); Some (v, V_EQ)
    else do v <- mach t (x + y); Some (v, V_EQ)
  else
    if co then
      do m <- mach t (emax p t - y);
      if m <? x then Some (set_pos_overflow p t d old) else do v <- mach t (x + y); Some (v, V_EQ)
    else Some (wrap t (x + y), V_EQ).
Definition add_int d x y old : M :=
  match (if co then lg_add c else None) with Some lt => add_larger lt d x y old | None => add_direct d x y old end.

(* :1060 sub_signed_int, :1081 sub_unsigned_int *)
Definition sub_direct d x y old : M :=
  if sgn t then
    if co then
      if 0 <=? y then
        do m <- mach t (emin p t + y);
        if x <? m then Some (set_neg_overflow p t d old) else do v <- mach t (x - y); Some (v, V_EQ)
      else
        do m <- mach t (emax p t + y);
        if m <? x then Some (set_pos_overflow p t d old) else do v <- mach t (x - y); Some (v, V_EQ)
    else do v <- mach t (x - y); Some (v, V_EQ)
  else
    if co then
      do m <- mach t (emin p t + y);
      if x <? m then Some (set_neg_overflow p t d old) else do v <- mach t (x - y); Some (v, V_EQ)
    else Some (wrap t (x - y), V_EQ).
Definition sub_int d x y old : M :=
  match (if co then lg_sub c else None) with Some lt => sub_larger lt d x y old | None => sub_direct d x y old end.

(* :1096 mul_signed_int, :1142 mul_unsigned_int *)
Definition mul_direct d x y old : M :=
  if sgn t then
    if negb co then do v <- mach t (x * y); Some (v, V_EQ)
    else if y =? 0 then Some (0, V_EQ)
    else if y =? -1 then neg_int d x old        (* neg_signed_int, which dispatches on use_for_neg itself *)
    else if 0 <=? x then
      if 0 <? y then
        do m <- mquot t (emax p t) y;
        if m <? x then Some (set_pos_overflow p t d old) else do v <- mach t (x * y); Some (v, V_EQ)
      else
        do m <- mquot t (emin p t) y;
        if m <? x then Some (set_neg_overflow p t d old) else do v <- mach t (x * y); Some (v, V_EQ)
    else
      if y <? 0 then
        do m <- mquot t (emax p t) y;
        if x <? m then Some (set_pos_overflow p t d old) else do v <- mach t (x * y); Some (v, V_EQ)
      else
        do m <- mquot t (emin p t) y;
        if x <? m then Some (set_neg_overflow p t d old) else do v <- mach t (x * y); Some (v, V_EQ)
  else
    if negb co then Some (wrap t (x * y), V_EQ)
    else if y =? 0 then Some (0, V_EQ)
    else
      do m <- mquot t (emax p t) y;
      if m <? x then Some (set_pos_overflow p t d old) else do v <- mach t (x * y); Some (v, V_EQ).
Definition mul_int d x y old : M :=
  match (if co then lg_mul c else None) with Some lt => mul_larger lt d x y old | None => mul_direct d x y old end.

(* :1164 div_signed_int, :1193 div_unsigned_int *)
Definition div_int d x y old : M :=
  do z <- check_p (check_div_zero p) (y =? 0);
  if z then Some (assign_nan p t V_DIV_ZERO old) else
  if sgn t then
    if co && (y =? -1) then neg_int d x old else
    do q <- mquot t x y;
    if round_not_requested d then Some (q, V_LGE) else
    if y =? -1 then Some (q, V_EQ) else
    do m <- mrem t x y;
    (* fixed code: the truncated quotient is above the exact one iff remainder and divisor differ in sign *)
    if negb (m =? 0) && xorb (m <? 0) (y <? 0) then round_lt_no t d q
    else if negb (m =? 0) then round_gt_no t d q else Some (q, V_EQ)
  else
    do q <- mquot t x y;
    if round_not_requested d then Some (q, V_GE) else
    do m <- mrem t x y;
    if m =? 0 then Some (q, V_EQ) else round_gt_int p t d q.

(* :1211 idiv_signed_int, :1225 idiv_unsigned_int *)
Definition idiv_int d x y old : M :=
  do z <- check_p (check_div_zero p) (y =? 0);
  if z then Some (assign_nan p t V_DIV_ZERO old) else
  if sgn t && co && (y =? -1) then neg_int d x old else
  do q <- mquot t x y; Some (q, V_EQ).

(* :1236 rem_signed_int, :1247 rem_unsigned_int *)
Definition rem_int (d : Z) x y old : M :=
  do z <- check_p (check_div_zero p) (y =? 0);
  if z then Some (assign_nan p t V_MOD_ZERO old) else
  if sgn t && (y =? -1) then Some (0, V_EQ) else
  do m <- mrem t x y; Some (m, V_EQ).

(* checked_inlines.hh:286 abs_generic (signed), assign (unsigned) *)
Definition abs_int d from old : M :=
  if sgn t && (from <? 0) then neg_int d from old else assign_int_int p t p t d from old.

(* :1572 add_mul_int, :1597 sub_mul_int  ([to] is both an operand and the destination) *)
Definition add_mul_int d x y to : M :=
  do zr <- mul_int d x y 0;
  let '(z, r) := zr in
  let ov := result_overflow r in
  if ov =? 0 then add_int d to z to
  else if ov =? -1 then
    if to <=? 0 then Some (set_neg_overflow p t d to) else Some (assign_nan p t V_UNKNOWN_NEG_OVERFLOW to)
  else
    if 0 <=? to then Some (set_pos_overflow p t d to) else Some (assign_nan p t V_UNKNOWN_POS_OVERFLOW to).
Definition sub_mul_int d x y to : M :=
  do zr <- mul_int d x y 0;
  let '(z, r) := zr in
  let ov := result_overflow r in
  if ov =? 0 then sub_int d to z to
  else if ov =? -1 then
    if 0 <=? to then Some (set_pos_overflow p t d to) else Some (assign_nan p t V_UNKNOWN_NEG_OVERFLOW to)
  else
    (* fixed code: with to == 0 the overflow is certain only if -(max + 1) < min *)
    if (to <? 0) || ((to =? 0) && (0 <=? emin p t + emax p t))
    then Some (set_neg_overflow p t d to) else Some (assign_nan p t V_UNKNOWN_POS_OVERFLOW to).

(* ---- power-of-two family (:1258-1531); [e] is the unsigned int exponent, ut the unsigned twin of t ---- *)
Let ut := {| bits := bits t; sgn := false |}.
Definition low_mask ty' e : option Z := do one <- mshl ty' 1 e; mach ty' (one - 1).   (* (Type(1) << e) - 1 *)

Definition div_2exp_int d x e (old : Z) : M :=
  if sgn t && (x <? 0) then
    if bits t <=? e then
      if round_not_requested d then Some (0, V_LE) else round_lt_no t d 0
    else
      let ux := wrap ut x in
      let ux := wrap ut (- ux) in
      do sh <- mshr ut ux e;
      (* to = ~Type(~-(ux >> exp)) *)
      let n1 := wrap ut (- sh) in
      let n2 := cmax ut - n1 in
      let n3 := wrap t n2 in
      do q <- mach t (- n3 - 1);
      if round_not_requested d then Some (q, V_LE) else
      do mk <- low_mask ut e;
      if negb (Z.land ux mk =? 0) then round_lt_no t d q else Some (q, V_EQ)
  else
    if bits t - (if sgn t then 1 else 0) <=? e then
      if round_not_requested d then Some (0, V_GE) else
      if x =? 0 then Some (0, V_EQ) else round_gt_no t d 0
    else
      do q <- mshr t x e;
      if round_not_requested d then Some (q, V_GE) else
      do mk <- low_mask t e;
      if negb (Z.land x mk =? 0) then round_gt_no t d q else Some (q, V_EQ).

Definition add_2exp_int d x e old : M :=
  if negb co then do n <- mshl t 1 e; (if sgn t then do v <- mach t (x + n); Some (v, V_EQ) else Some (wrap t (x + n), V_EQ))
  else if bits t <=? e then Some (set_pos_overflow p t d old)
  else if sgn t && (e =? bits t - 1) then
    do h <- mshl t 1 (e - 1); do n <- mach t (-2 * h); sub_int d x n old
  else do n <- mshl t 1 e; add_int d x n old.
Definition sub_2exp_int d x e old : M :=
  if negb co then do n <- mshl t 1 e; (if sgn t then do v <- mach t (x - n); Some (v, V_EQ) else Some (wrap t (x - n), V_EQ))
  else if bits t <=? e then Some (set_neg_overflow p t d old)
  else if sgn t && (e =? bits t - 1) then
    do h <- mshl t 1 (e - 1); do n <- mach t (-2 * h); add_int d x n old
  else do n <- mshl t 1 e; sub_int d x n old.

Definition mul_2exp_int d x e old : M :=
  if sgn t && (x <? 0) then
    if negb co then do n <- mshl t 1 e; do v <- mach t (x * n); Some (v, V_EQ)
    else if bits t <=? e then Some (set_neg_overflow p t d old)
    else
      do k <- mach t (bits t - e - 1);
      let mask := wrap ut (cmax ut * 2 ^ k) in          (* UType(-1) << (bits - exp - 1) *)
      let ux := wrap ut x in
      if negb (Z.land ux mask =? mask) then Some (set_neg_overflow p t d old) else
      let ux := wrap ut (ux * 2 ^ e) in                  (* ux <<= exp *)
      let n2 := cmax ut - ux in                          (* ~ux *)
      let n3 := wrap t n2 in                             (* Type(~ux) *)
      do n <- mach t (- n3 - 1);                         (* ~Type(~ux) *)
      if n <? emin p t then Some (set_neg_overflow p t d old) else Some (n, V_EQ)
  else
    if negb co then do v <- mshl t x e; Some (v, V_EQ)
    else if bits t - (if sgn t then 1 else 0) <=? e then
      if x =? 0 then Some (0, V_EQ) else Some (set_pos_overflow p t d old)
    else
      do m <- mshr t (emax p t) e;
      if m <? x then Some (set_pos_overflow p t d old) else do v <- mshl t x e; Some (v, V_EQ).

Definition smod_2exp_int d x e old : M :=
  if sgn t then
    if bits t <=? e then Some (x, V_EQ)
    else do m <- mshl t 1 (e - 1); do m1 <- mach t (m - 1);
         do v <- mach t (Z.land x m1 - Z.land x m); Some (v, V_EQ)
  else
    if bits t <? e then Some (x, V_EQ)
    else
      do v <- (if e =? bits t then Some x else do mk <- low_mask t e; Some (Z.land x mk));
      do h <- mshl t 1 (e - 1);
      if h <=? v then Some (set_neg_overflow p t d old) else Some (v, V_EQ).

Definition umod_2exp_int d x e old : M :=
  if bits t <=? e then
    if sgn t && (x <? 0) then Some (set_pos_overflow p t d old) else Some (x, V_EQ)
  else do mk <- low_mask t e; Some (Z.land x mk, V_EQ).

(* ---- :1533 isqrt_rem, :1549 sqrt_unsigned_int, :1563 sqrt_signed_int ---- *)
Fixpoint isqrt_loop (n : nat) (q r tt : Z) : option (Z * Z) :=
  match n with
  | O => Some (q, r)
  | S n =>
      if tt =? 0 then Some (q, r) else
      do s <- mach t (q + tt);
      (* fixed code: q = (q >> 1) + t  /  q >>= 1 *)
      do qr <- (if s <=? r then do r' <- mach t (r - s); do q' <- mach t (q / 2 + tt); Some (q', r') else Some (q / 2, r));
      let '(q, r) := qr in
      isqrt_loop n q r (tt / 4)
  end.
Definition isqrt_rem from : option (Z * Z) :=
  do t0 <- mshl t 1 (bits t - 2); isqrt_loop (Z.to_nat (bits t)) 0 from t0.
Definition sqrt_int d from old : M :=
  do ng <- (if sgn t then check_p (check_sqrt_neg p) (from <? 0) else Some false);
  if ng then Some (assign_nan p t V_SQRT_NEG old) else
  do qr <- isqrt_rem from;
  let '(q, r) := qr in
  if round_not_requested d then Some (q, V_GE) else
  if r =? 0 then Some (q, V_EQ) else round_gt_int p t d q.

(* ---- checked_inlines.hh:297 gcd_exact_no_abs / gcd_exact / lcm_gcd_exact; the Euclid loop is bounded by
   2*bits+2 iterations in the model (more than the Fibonacci bound; running out of fuel is a model failure) ---- *)
Fixpoint gcd_loop (n : nat) (wx wy : Z) : option Z :=
  match n with
  | O => None
  | S n =>
      if wy =? 0 then Some wx else
      do mr <- rem_int ROUND_NOT_NEEDED wx wy 0;
      gcd_loop n wy (fst mr)
  end.
Definition gcd_fuel := Z.to_nat (2 * bits t + 2).
Definition gcd_int d x y (old : Z) : M :=
  do g <- gcd_loop gcd_fuel x y; abs_int d g g.
(* fixed code: the absolute values are taken under To_Policy into temporaries initialised with [to]; when one of
   them is not exact the temporary is copied into the destination and its result word returned *)
Definition lcm_int_from (fx fy : Z -> Z -> Z -> M) d x y (old : Z) : M :=
  if (x =? 0) || (y =? 0) then Some (0, V_EQ) else
  do ax <- fx d x old;
  if negb (snd ax =? V_EQ) then Some ax else
  do ay <- fy d y old;
  if negb (snd ay =? V_EQ) then Some ay else
  do g <- gcd_loop gcd_fuel (fst ax) (fst ay);
  do q <- div_int ROUND_NOT_NEEDED (fst ax) g old;
  mul_int d (fst q) (fst ay) (fst q).
Definition lcm_int d x y (old : Z) : M := lcm_int_from abs_int abs_int d x y old.

(* checked_inlines.hh:633 cmp_generic on two values of the same native type; :447 sgn_generic *)
Definition cmp_int x y : Z := if y <? x then VR_GT else if x <? y then VR_LT else VR_EQ.
Definition sgn_int x : Z := if 0 <? x then VR_GT else if x =? 0 then VR_EQ else VR_LT.

End Ops.

(* lcm_assign_r on NATIVE operands: after the fix the operands' policy no longer matters *)
Definition lcm_int_native (c : cfg) d x y old : M := lcm_int c d x y old.
