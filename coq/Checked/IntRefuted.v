(* C11 -- where the faithful model VIOLATES the property: witnesses, checked by computation.
   Each corresponds to a defect reproduced on the real code (known_findings.d/C11.json). *)
From Coq Require Import ZArith Lia Bool.
Require Import PPLV.gen.Facts_Result PPLV.Checked.Mach PPLV.Checked.Result PPLV.Checked.Int PPLV.Checked.IntBlocks
               PPLV.Checked.IntArith.
Local Open Scope Z_scope.

(* signed char with Check_Overflow_Policy<signed char> (no NaN, no infinities), Larger<signed char> as on LP64 *)
Definition pol_plain : policy :=
  {| check_overflow := true; has_nan := false; has_inf := false; check_div_zero := false; check_inf_add_inf := false;
     check_inf_sub_inf := false; check_inf_mul_zero := false; check_inf_div_inf := false; check_inf_mod := false;
     check_sqrt_neg := false |}.
Definition int8 : ity := {| bits := 8; sgn := true |}.
Definition int64 : ity := {| bits := 64; sgn := true |}.
Definition c8 : cfg :=
  {| ty := int8; pol := pol_plain; lg_neg := Some int64; lg_add := Some int64; lg_sub := Some int64; lg_mul := Some int64 |}.
(* long long: every operation on the direct path *)
Definition c64 : cfg := {| ty := int64; pol := pol_plain; lg_neg := None; lg_add := None; lg_sub := None; lg_mul := None |}.

Example c8_wf : cfg_wf c8. Proof. unfold cfg_wf, c8; cbn. repeat split; lia. Qed.
Example c64_wf : cfg_wf c64. Proof. unfold cfg_wf, c64; cbn. repeat split; lia. Qed.

(* div_signed_int (checked_int_inlines.hh:1181): -7 / -2 rounded up stores 3 and says V_LT, i.e. "3.5 < 3" *)
Theorem div_signed_refuted :
  exists c d x y old sr, cfg_wf c /\ check_overflow (pol c) = true /\ fin (pol c) (ty c) x /\ fin (pol c) (ty c) y /\ y <> 0 /\
    div_int c d x y old = Some sr /\ ~ ok (pol c) (ty c) d sr (EFrac x y).
Proof.
  exists c64, ROUND_UP, (-7), (-2), 0, (3, V_LT).
  split; [exact c64_wf|]. split; [reflexivity|]. split; [unfold fin; cbn; lia|]. split; [unfold fin; cbn; lia|].
  split; [lia|]. split; [vm_compute; reflexivity|].
  intros [C _]. unfold claim in C. cbn [fst snd] in C.
  change (class_of V_LT) with CNormal in C. change (rel_of V_LT) with RLt in C. cbn in C. lia.
Qed.

(* sub_mul_int (:1612): 0 - 64*2 = -128 is representable in signed char, yet the result is V_LT_INF ("< -128") *)
Theorem sub_mul_int_refuted :
  exists c d x y z sr, cfg_wf c /\ check_overflow (pol c) = true /\ fin (pol c) (ty c) x /\ fin (pol c) (ty c) y /\
    fin (pol c) (ty c) z /\ sub_mul_int c d x y z = Some sr /\ ~ ok (pol c) (ty c) d sr (EInt (z - x * y)).
Proof.
  exists c8, ROUND_UP, 64, 2, 0, (-128, V_LT_INF).
  split; [exact c8_wf|]. split; [reflexivity|]. split; [unfold fin; cbn; lia|]. split; [unfold fin; cbn; lia|].
  split; [unfold fin; cbn; lia|]. split; [vm_compute; reflexivity|].
  intros [C _]. unfold claim in C. cbn [fst snd] in C.
  change (class_of V_LT_INF) with CNormal in C. change (rel_of V_LT_INF) with RLt in C. cbn in C. lia.
Qed.

(* isqrt_rem (:1533) on a signed type: for from >= 2^(bits-2) the statement q = s + t overflows the type
   (signed char: 64 + 64); the code then stores 0 for sqrt(64) *)
Theorem sqrt_signed_refuted :
  exists c d x old, cfg_wf c /\ check_overflow (pol c) = true /\ fin (pol c) (ty c) x /\ 0 <= x /\ sqrt_int c d x old = None.
Proof.
  exists c8, ROUND_UP, 64, 0.
  split; [exact c8_wf|]. split; [reflexivity|]. split; [unfold fin; cbn; lia|]. split; [lia|]. vm_compute. reflexivity.
Qed.

(* lcm_gcd_exact (checked_inlines.hh:430): abs(min) overflows into a TEMPORARY; with ROUND_DOWN the result word
   V_GT_SUP ("the destination holds max") is returned although the destination was never written *)
Theorem lcm_refuted :
  exists c d x y old sr, cfg_wf c /\ check_overflow (pol c) = true /\ fin (pol c) (ty c) x /\ fin (pol c) (ty c) y /\
    lcm_int c d x y old = Some sr /\ ~ ok (pol c) (ty c) d sr (EInt (Z.lcm x y)).
Proof.
  exists c8, ROUND_DOWN, (-128), 1, 85, (85, V_GT_SUP).
  split; [exact c8_wf|]. split; [reflexivity|]. split; [unfold fin; cbn; lia|]. split; [unfold fin; cbn; lia|].
  split; [vm_compute; reflexivity|].
  intros [C _]. unfold claim in C. cbn [fst snd] in C.
  change (class_of V_GT_SUP) with CNormal in C. change (rel_of V_GT_SUP) with RGt in C.
  change (is_ovf V_GT_SUP) with true in C. destruct C as (_ & _ & _ & C).
  destruct (C eq_refl) as [[C1 _]|[_ C2]]; [discriminate|]. vm_compute in C2. discriminate.
Qed.
