(* C11 -- where the faithful model VIOLATES the property: witnesses, checked by computation.
   Each corresponds to a defect reproduced on the real code (known_findings.d/C11.json). *)
From Coq Require Import ZArith Lia Bool.
Require Import PPLV.gen.Facts_Result PPLV.Checked.Mach PPLV.Checked.Result PPLV.Checked.Int PPLV.Checked.IntBlocks
               PPLV.Checked.IntArith.
Local Open Scope Z_scope.

(* signed char with Check_Overflow_Policy<signed char> (no NaN, no infinities), Larger<signed char> as on LP64 *)
Definition pol_plain : policy :=
  {| check_overflow := true; has_nan := false; has_inf := false; check_div_zero := false; check_inf_add_inf := false;
     check_inf_sub_inf := false; check_inf_mul_zero := false; check_inf_div_inf := false; check_inf_mod := false;
     check_sqrt_neg := false |}.
Definition int8 : ity := {| bits := 8; sgn := true |}.
Definition int64 : ity := {| bits := 64; sgn := true |}.
Definition c8 : cfg :=
  {| ty := int8; pol := pol_plain; lg_neg := Some int64; lg_add := Some int64; lg_sub := Some int64; lg_mul := Some int64 |}.
(* long long: every operation on the direct path *)
Definition c64 : cfg := {| ty := int64; pol := pol_plain; lg_neg := None; lg_add := None; lg_sub := None; lg_mul := None |}.

Example c8_wf : cfg_wf c8. Proof. unfold cfg_wf, c8; cbn. repeat split; lia. Qed.
Example c64_wf : cfg_wf c64. Proof. unfold cfg_wf, c64; cbn. repeat split; lia. Qed.

(* div_signed_int after the fix of the rounding fix-up: the former counterexample -7 / -2 rounded up *)
Example div_signed_fixed_witness : div_int c64 ROUND_UP (-7) (-2) 0 = Some (4, V_LT).
Proof. vm_compute. reflexivity. Qed.

(* sub_mul_int after the fix: 0 - 64*2 = -128 is no longer reported as a negative overflow (the outcome is
   "unknown", which claims nothing false) *)
Example sub_mul_fixed_witness : sub_mul_int c8 ROUND_UP 64 2 0 = Some (0, V_UNKNOWN_POS_OVERFLOW).
Proof. vm_compute. reflexivity. Qed.

(* isqrt_rem after the fix: no overflow on signed types; the former counterexample and the largest operand *)
Example sqrt_signed_fixed_witness :
  sqrt_int c8 ROUND_UP 64 0 = Some (8, V_EQ) /\ sqrt_int c8 ROUND_UP 127 0 = Some (12, V_LT) /\
  sqrt_int c64 ROUND_DOWN (2 ^ 63 - 1) 0 = Some (3037000499, V_GT).
Proof. repeat split; vm_compute; reflexivity. Qed.

(* lcm_gcd_exact after the fix: abs(min) overflows under To_Policy and the destination holds what the result says *)
Example lcm_fixed_witness :
  lcm_int c8 ROUND_DOWN (-128) 1 85 = Some (127, V_GT_SUP) /\ lcm_int_native c8 ROUND_DOWN (-128) 1 85 = Some (127, V_GT_SUP).
Proof. split; vm_compute; reflexivity. Qed.
