(* C11 -- division, integer division and remainder (checked_int_inlines.hh:1164-1256). *)
From Coq Require Import ZArith Lia Bool.
Require Import PPLV.gen.Facts_Result PPLV.Checked.Mach PPLV.Checked.Result PPLV.Checked.Int PPLV.Checked.IntBlocks
               PPLV.Checked.IntArith.
Local Open Scope Z_scope.

(* two descriptions of the same exact number *)
Definition same_exact e e' :=
  ex_real e /\ ex_real e' /\ (forall z, ex_lt e z <-> ex_lt e' z) /\ (forall z, ex_gt e z <-> ex_gt e' z) /\
  (forall z, ex_eq e z <-> ex_eq e' z).

Lemma real_not_special e : ex_real e -> e <> EPinf /\ e <> EMinf /\ e <> EUndef.
Proof. destruct e; cbn; intuition discriminate. Qed.

Lemma ok_same p t d sr e e' : same_exact e e' -> ok p t d sr e -> ok p t d sr e'.
Proof.
  intros (R & R' & L & G & E). destruct sr as [s r]. unfold ok. cbn [fst snd]. intros [C D].
  destruct (real_not_special _ R) as (A1 & A2 & A3).
  destruct (real_not_special _ R') as (B1 & B2 & B3). split.
  - revert C. unfold claim. destruct (class_of r).
    + intros (U & F & H & O). split; [auto|split; [auto|split; [|auto]]].
      revert H. unfold rel_holds. destruct (rel_of r); try tauto; rewrite ?L, ?G, ?E; tauto.
    + intros (S & H). split; auto. destruct (rel_of r); try tauto. rewrite <- L. tauto.
    + intros (S & H). split; auto. destruct (rel_of r); try tauto. rewrite <- G. tauto.
    + intros (N & H). split; auto. intros K. specialize (H K). congruence.
  - revert D. unfold directed. intros D H1 H2. specialize (D H1 H2). destruct D as [D1 D2].
    unfold sv_ge, sv_le in *. destruct (decode p t s); rewrite <- ?L, <- ?G, <- ?E; split; intros K;
      try (specialize (D1 K)); try (specialize (D2 K)); auto; try congruence.
Qed.

Lemma frac_neg1 x : same_exact (EInt (- x)) (EFrac x (-1)).
Proof. unfold same_exact. cbn. repeat split; intros; lia. Qed.

Section Div.
Variable c : cfg.
Let t := ty c.
Let p := pol c.
Hypothesis Hwf : cfg_wf c.
Hypothesis Hco : check_overflow p = true.
Let Hb : 8 <= bits t. Proof. destruct Hwf; auto. Qed.

Lemma check_dz y : y <> 0 -> check_p (check_div_zero p) (y =? 0) = Some false.
Proof. intros. destruct (Z.eqb_spec y 0); [contradiction|]. unfold check_p. destruct (check_div_zero p); reflexivity. Qed.

(* quotient and remainder of in-range operands are in range (y <> -1 or unsigned) *)
Lemma quot_in_range x y : fin p t x -> fin p t y -> y <> 0 -> (sgn t = true -> y <> -1) ->
  fin p t (x ÷ y) /\ cmin t <= Z.rem x y <= cmax t /\ Z.abs (x ÷ y) <= Z.abs x.
Proof.
  intros Fx Fy Y0 Y1. pose proof (range_facts p t Hb) as (RF1 & RF2 & RF3 & RF4 & RF5).
  destruct (quot_facts x y Y0) as (Q1 & Q2 & Q3 & Q4). unfold fin in *.
  set (q := x ÷ y) in *. set (r := Z.rem x y) in *. clearbody q r.
  assert (A : Z.abs q <= Z.abs x) by nia.
  destruct (sgn t) eqn:S; [specialize (RF4 eq_refl)|specialize (RF5 eq_refl)]; repeat split; try lia; try nia.
Qed.

Lemma frac_opp x y : y <> 0 -> same_exact (EFrac x y) (EFrac (- x) (- y)).
Proof.
  intros. unfold same_exact. cbn. repeat split; intros;
  destruct (Z.ltb_spec 0 y), (Z.ltb_spec 0 (- y)); try lia.
Qed.

(* div_signed_int / div_unsigned_int, every non-zero divisor *)
Theorem div_int_ok d x y old :
  fin p t x -> fin p t y -> y <> 0 ->
  exists sr, div_int c d x y old = Some sr /\ ok p t d sr (EFrac x y).
Proof.
  intros Fx Fy Y0. unfold div_int. fold t p. rewrite (check_dz y Y0), Hco. cbn [andb].
  destruct (sgn t) eqn:S.
  - destruct (Z.eqb_spec y (-1)) as [Y1|Y1].
    + subst y. destruct (neg_int_ok c Hwf Hco d x old Fx) as (sr & E & [O _]). exists sr. split; auto.
      eapply ok_same; [apply frac_neg1|exact O].
    + destruct (quot_in_range x y Fx Fy Y0 ltac:(auto)) as (Fq & Rr & Aq).
      unfold mquot, mrem. destruct (Z.eqb_spec y 0); [contradiction|].
      pose proof (fin_in_range p t Hb _ Fq) as Rq.
      rewrite !mach_in by lia. cbn iota.
      destruct (round_not_requested d) eqn:NR.
      { eexists; split; [reflexivity|]. eapply nr_ok; eauto using dec_V_LGE. cbn. exact I. }
      rewrite ?mach_in by lia.
      destruct (quot_facts x y Y0) as (Q1 & Q2 & Q3 & Q4).
      set (q := x ÷ y) in *. set (r := Z.rem x y) in *. clearbody q r.
      pose proof (range_facts p t Hb) as (RF1 & RF2 & RF3 & RF4 & RF5). specialize (RF4 S).
      destruct (Z.eqb_spec r 0) as [R0|R0]; cbn [negb andb].
      { eexists; split; [reflexivity|]. apply eq_ok; auto. cbn. nia. }
      destruct (Z.ltb_spec r 0), (Z.ltb_spec y 0); cbn [xorb]; try lia.
      * (* x < 0, y < -1: quotient positive, truncation below *)
        apply round_gt_no_ok; auto; unfold fin in *; cbn;
          destruct (Z.ltb_spec 0 y); try lia; nia.
      * apply round_lt_no_ok; auto; unfold fin in *; cbn;
          destruct (Z.ltb_spec 0 y); try lia; nia.
      * apply round_lt_no_ok; auto; unfold fin in *; cbn;
          destruct (Z.ltb_spec 0 y); try lia; nia.
      * apply round_gt_no_ok; auto; unfold fin in *; cbn;
          destruct (Z.ltb_spec 0 y); try lia; nia.
  - assert (Yp : 0 < y).
    { pose proof (range_facts p t Hb) as (_ & _ & _ & _ & RF5). specialize (RF5 S). unfold fin in Fy. lia. }
    destruct (quot_in_range x y Fx Fy Y0 ltac:(congruence)) as (Fq & Rr & Aq).
    unfold mquot, mrem. destruct (Z.eqb_spec y 0); [contradiction|].
    pose proof (fin_in_range p t Hb _ Fq) as Rq.
    rewrite !mach_in by lia. cbn iota.
    destruct (round_not_requested d) eqn:NR.
    { eexists; split; [reflexivity|]. eapply nr_ok; eauto using dec_V_GE.
      cbn. apply Z.ltb_lt in Yp. rewrite Yp.
      destruct (quot_facts x y Y0) as (Q1 & Q2 & Q3 & Q4).
      pose proof (range_facts p t Hb) as (_ & _ & _ & _ & RF5). specialize (RF5 S). unfold fin in Fx.
      specialize (Q3 ltac:(lia)). nia. }
    rewrite ?mach_in by lia.
    destruct (quot_facts x y Y0) as (Q1 & Q2 & Q3 & Q4).
    pose proof (range_facts p t Hb) as (_ & _ & _ & _ & RF5). specialize (RF5 S).
    assert (X0 : 0 <= x) by (unfold fin in Fx; lia). specialize (Q3 X0).
    set (q := x ÷ y) in *. set (r := Z.rem x y) in *. clearbody q r.
    assert (Yb : 0 < y) by lia. apply Z.ltb_lt in Yb.
    destruct (Z.eqb_spec r 0).
    + eexists; split; [reflexivity|]. apply eq_ok; auto. cbn. nia.
    + apply round_gt_int_ok; auto; cbn; rewrite ?Yb; nia.
Qed.

Theorem idiv_int_ok d x y old :
  fin p t x -> fin p t y -> y <> 0 ->
  exists sr, idiv_int c d x y old = Some sr /\ okx p t d sr (EInt (x ÷ y)).
Proof.
  intros Fx Fy Y0. unfold idiv_int. fold t p. rewrite (check_dz y Y0), Hco.
  destruct (sgn t && true && (y =? -1)) eqn:B.
  - apply andb_true_iff in B. destruct B as [_ B]. apply Z.eqb_eq in B. subst y.
    assert (QN : x ÷ -1 = - x).
    { pose proof (Z.quot_opp_r x 1 ltac:(lia)) as H. change (- (1)) with (-1) in H. rewrite Z.quot_1_r in H. exact H. }
    rewrite QN.
    apply neg_int_ok; auto.
  - assert (Y1 : sgn t = true -> y <> -1).
    { intros S. rewrite S in B. cbn in B. apply Z.eqb_neq in B. exact B. }
    destruct (quot_in_range x y Fx Fy Y0 Y1) as (Fq & Rr & Aq).
    unfold mquot. destruct (Z.eqb_spec y 0); [contradiction|].
    pose proof (fin_in_range p t Hb _ Fq) as Rq. rewrite mach_in by lia.
    eexists; split; [reflexivity|]. apply eq_int; auto.
Qed.

Theorem rem_int_ok d x y old :
  fin p t x -> fin p t y -> y <> 0 ->
  exists sr, rem_int c d x y old = Some sr /\ okx p t d sr (EInt (Z.rem x y)).
Proof.
  intros Fx Fy Y0. unfold rem_int. fold t p. rewrite (check_dz y Y0).
  pose proof (emin_le_emax p t Hb) as R.
  destruct (sgn t && (y =? -1)) eqn:B.
  - apply andb_true_iff in B. destruct B as [_ B]. apply Z.eqb_eq in B. subst y.
    assert (RN : Z.rem x (-1) = 0).
    { pose proof (Z.rem_opp_r x 1 ltac:(lia)) as H. change (- (1)) with (-1) in H. rewrite Z.rem_1_r in H. exact H. }
    rewrite RN.
    eexists; split; [reflexivity|]. apply eq_int; auto. unfold fin; lia.
  - assert (Y1 : sgn t = true -> y <> -1).
    { intros S. rewrite S in B. cbn in B. apply Z.eqb_neq in B. exact B. }
    destruct (quot_in_range x y Fx Fy Y0 Y1) as (Fq & Rr & Aq).
    unfold mrem. destruct (Z.eqb_spec y 0); [contradiction|].
    pose proof (fin_in_range p t Hb _ Fq) as Rq. rewrite !mach_in by lia.
    eexists; split; [reflexivity|]. apply eq_int; auto.
    (* |rem| < |y| and y finite *)
    destruct (quot_facts x y Y0) as (Q1 & Q2 & Q3 & Q4).
    pose proof (range_facts p t Hb) as (RF1 & RF2 & RF3 & RF4 & RF5). unfold fin in *.
    destruct (sgn t) eqn:S; [specialize (RF4 eq_refl)|specialize (RF5 eq_refl)]; lia.
Qed.
End Div.
