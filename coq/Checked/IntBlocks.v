(* C11 -- soundness of the building blocks (overflow setters, rounders, assign_special, conversions). *)
From Coq Require Import ZArith Lia Bool.
Require Import PPLV.gen.Facts_Result PPLV.Checked.Mach PPLV.Checked.Result PPLV.Checked.Int.
Local Open Scope Z_scope.

Lemma dec_split r a b c d' : dec r = (a, b, c, d') ->
  class_of r = a /\ rel_of r = b /\ is_ovf r = c /\ is_unrep r = d'.
Proof. unfold dec. intros H. inversion H. auto. Qed.

Ltac use_dec H :=
  let E1 := fresh "E" in let E2 := fresh "E" in let E3 := fresh "E" in let E4 := fresh "E" in
  destruct (dec_split _ _ _ _ _ H) as (E1 & E2 & E3 & E4); rewrite ?E1, ?E2, ?E3, ?E4; clear E1 E2 E3 E4.
Ltac decs :=
  unfold U;
  repeat match goal with
  | |- context [class_of V_EQ] => use_dec dec_V_EQ
  | |- context [class_of V_LT] => use_dec dec_V_LT
  | |- context [class_of V_GT] => use_dec dec_V_GT
  | |- context [class_of V_LE] => use_dec dec_V_LE
  | |- context [class_of V_GE] => use_dec dec_V_GE
  | |- context [class_of V_LGE] => use_dec dec_V_LGE
  | |- context [class_of V_LT_INF] => use_dec dec_V_LT_INF
  | |- context [class_of V_GT_SUP] => use_dec dec_V_GT_SUP
  | |- context [class_of V_LT_PLUS_INFINITY] => use_dec dec_V_LT_PINF
  | |- context [class_of V_GT_MINUS_INFINITY] => use_dec dec_V_GT_MINF
  | |- context [class_of V_EQ_PLUS_INFINITY] => use_dec dec_V_EQ_PINF
  | |- context [class_of V_EQ_MINUS_INFINITY] => use_dec dec_V_EQ_MINF
  | |- context [class_of (Z.lor V_LT_PLUS_INFINITY V_UNREPRESENTABLE)] => use_dec dec_V_LT_PINF_U
  | |- context [class_of (Z.lor V_GT_MINUS_INFINITY V_UNREPRESENTABLE)] => use_dec dec_V_GT_MINF_U
  | |- context [class_of (Z.lor V_EQ_PLUS_INFINITY V_UNREPRESENTABLE)] => use_dec dec_V_EQ_PINF_U
  | |- context [class_of (Z.lor V_EQ_MINUS_INFINITY V_UNREPRESENTABLE)] => use_dec dec_V_EQ_MINF_U
  | |- context [class_of V_NAN] => use_dec dec_V_NAN
  | |- context [class_of (Z.lor V_NAN V_UNREPRESENTABLE)] => use_dec dec_V_NAN_U
  end.

Ltac fin_tac := repeat split; intros; auto; try discriminate; try congruence; try (unfold fin in *; lia);
  try (match goal with H : round_up ?d = true |- _ => apply round_up_down in H; congruence end).

Section Blocks.
Variables (p : policy) (t : ity).
Hypothesis Hb : 8 <= bits t.

Lemma emin_le_emax : emin p t <= 0 <= emax p t /\ emin p t < emax p t.
Proof. ranges p t. destruct (sgn t), (has_inf p), (has_nan p); lia. Qed.

Lemma fin_in_range s : fin p t s -> cmin t <= s <= cmax t.
Proof. ranges p t. destruct (sgn t), (has_inf p), (has_nan p); lia. Qed.

Lemma decode_fin s : fin p t s -> decode p t s = SFin s.
Proof.
  intros F. unfold decode.
  assert (A : s <> nan_enc p t \/ has_nan p = false).
  { ranges p t. destruct (sgn t), (has_inf p), (has_nan p); lia. }
  assert (B : (s <> pinf t /\ s <> minf t) \/ has_inf p = false).
  { ranges p t. destruct (sgn t), (has_inf p), (has_nan p); lia. }
  destruct (has_nan p) eqn:N, (has_inf p) eqn:I; cbn [andb];
  repeat match goal with |- context [?a =? ?b] => destruct (Z.eqb_spec a b) end; try reflexivity;
  try (destruct A as [A|A]; [congruence|discriminate]); try (destruct B as [[B1 B2]|B]; [congruence|discriminate]).
Qed.

Lemma decode_pinf : has_inf p = true -> decode p t (pinf t) = SPinf.
Proof.
  intros I. unfold decode. rewrite I, Z.eqb_refl. cbn [andb].
  destruct (has_nan p); cbn [andb]; [|reflexivity].
  destruct (Z.eqb_spec (pinf t) (nan_enc p t)) as [E|E]; [|reflexivity].
  exfalso. revert E. unfold nan_enc. rewrite I. ranges p t. destruct (sgn t); lia.
Qed.

Lemma decode_minf : has_inf p = true -> decode p t (minf t) = SMinf.
Proof.
  intros I. unfold decode. rewrite I, Z.eqb_refl. cbn [andb].
  assert (A : minf t <> nan_enc p t). { unfold nan_enc. rewrite I. ranges p t. destruct (sgn t); lia. }
  assert (B : minf t <> pinf t). { ranges p t. destruct (sgn t); lia. }
  destruct (has_nan p); cbn [andb];
  repeat match goal with |- context [?a =? ?b] => destruct (Z.eqb_spec a b) end; congruence.
Qed.

Lemma ex_gt_not_undef e z : ex_gt e z -> e <> EUndef. Proof. destruct e; cbn; congruence. Qed.
Lemma ex_lt_not_undef e z : ex_lt e z -> e <> EUndef. Proof. destruct e; cbn; congruence. Qed.

(* set_pos_overflow_int / set_neg_overflow_int classify an out-of-range exact result *)
Lemma set_pos_overflow_ok d old e :
  ex_gt e (emax p t) -> e <> EPinf -> ok p t d (set_pos_overflow p t d old) e.
Proof.
  intros G NP. pose proof emin_le_emax as R. unfold set_pos_overflow, ok.
  destruct (round_down d) eqn:RD; [|destruct (has_inf p) eqn:I]; cbn [fst snd]; unfold claim, directed; decs; cbn.
  - repeat split; auto; try (unfold fin; lia).
    + intros RU. apply round_up_down in RU. congruence.
    + intros _. rewrite decode_fin by (unfold fin; lia). cbn. auto.
  - repeat split; auto.
    + intros _. rewrite decode_pinf by auto. cbn. eapply ex_gt_not_undef; eauto.
    + congruence.
  - repeat split; auto; discriminate.
Qed.

Lemma set_neg_overflow_ok d old e :
  ex_lt e (emin p t) -> e <> EMinf -> ok p t d (set_neg_overflow p t d old) e.
Proof.
  intros G NP. pose proof emin_le_emax as R. unfold set_neg_overflow, ok.
  destruct (round_up d) eqn:RU; [|destruct (has_inf p) eqn:I]; cbn [fst snd]; unfold claim, directed; decs; cbn.
  - repeat split; auto; try (unfold fin; lia).
    + intros _. rewrite decode_fin by (unfold fin; lia). cbn. auto.
    + intros RD. apply round_up_down in RU. congruence.
  - repeat split; auto.
    + congruence.
    + intros _. rewrite decode_minf by auto. cbn. eapply ex_lt_not_undef; eauto.
  - repeat split; auto; discriminate.
Qed.

(* an exact, representable result *)
Lemma eq_ok d s e : fin p t s -> ex_eq e s -> ok p t d (s, V_EQ) e.
Proof.
  intros F E. unfold ok, claim, directed; cbn [fst snd]; decs; cbn. rewrite decode_fin by auto. cbn.
  fin_tac.
Qed.

(* round_lt_int_no_overflow: q-1 < exact < q *)
Lemma round_lt_no_ok d q e :
  fin p t q -> emin p t < q -> ex_lt e q -> ex_gt e (q - 1) ->
  exists sr, round_lt_no t d q = Some sr /\ ok p t d sr e.
Proof.
  intros F L LT GT. unfold round_lt_no. pose proof (fin_in_range _ F) as R.
  destruct (round_down d) eqn:RD.
  - assert (F' : fin p t (q - 1)) by (unfold fin in *; lia).
    pose proof (fin_in_range _ F') as R'.
    rewrite mach_in by lia. eexists; split; [reflexivity|].
    unfold ok, claim, directed; cbn [fst snd]; decs; cbn. rewrite decode_fin by auto. cbn.
    fin_tac.
  - eexists; split; [reflexivity|].
    unfold ok, claim, directed; cbn [fst snd]; decs; cbn. rewrite decode_fin by auto. cbn.
    fin_tac.
Qed.

Lemma round_gt_no_ok d q e :
  fin p t q -> q < emax p t -> ex_gt e q -> ex_lt e (q + 1) ->
  exists sr, round_gt_no t d q = Some sr /\ ok p t d sr e.
Proof.
  intros F L GT LT. unfold round_gt_no. pose proof (fin_in_range _ F) as R.
  destruct (round_up d) eqn:RU.
  - assert (F' : fin p t (q + 1)) by (unfold fin in *; lia).
    pose proof (fin_in_range _ F') as R'.
    rewrite mach_in by lia. eexists; split; [reflexivity|].
    unfold ok, claim, directed; cbn [fst snd]; decs; cbn. rewrite decode_fin by auto. cbn.
    fin_tac.
  - eexists; split; [reflexivity|].
    unfold ok, claim, directed; cbn [fst snd]; decs; cbn. rewrite decode_fin by auto. cbn.
    fin_tac.
Qed.

(* round_lt_int / round_gt_int: as above but the step may leave the finite range *)
Lemma round_gt_int_ok d q e :
  fin p t q -> ex_gt e q -> ex_lt e (q + 1) ->
  exists sr, round_gt_int p t d q = Some sr /\ ok p t d sr e.
Proof.
  intros F GT LT. unfold round_gt_int. pose proof (fin_in_range _ F) as R.
  destruct (round_up d) eqn:RU.
  - destruct (Z.eqb_spec q (emax p t)) as [E|E].
    + subst q. eexists; split; [reflexivity|].
      assert (NP : e <> EPinf) by (destruct e; cbn in *; congruence).
      destruct (has_inf p) eqn:I; unfold ok, claim, directed; cbn [fst snd]; decs; cbn; rewrite ?I.
      * rewrite decode_pinf by auto. cbn. pose proof (ex_gt_not_undef _ _ GT). fin_tac.
      * fin_tac.
    + assert (F' : fin p t (q + 1)) by (unfold fin in *; lia).
      pose proof (fin_in_range _ F') as R'.
      rewrite mach_in by lia. eexists; split; [reflexivity|].
      unfold ok, claim, directed; cbn [fst snd]; decs; cbn. rewrite decode_fin by auto. cbn.
      fin_tac.
  - eexists; split; [reflexivity|].
    unfold ok, claim, directed; cbn [fst snd]; decs; cbn. rewrite decode_fin by auto. cbn.
    fin_tac.
Qed.

Lemma round_lt_int_ok d q e :
  fin p t q -> ex_lt e q -> ex_gt e (q - 1) ->
  exists sr, round_lt_int p t d q = Some sr /\ ok p t d sr e.
Proof.
  intros F LT GT. unfold round_lt_int. pose proof (fin_in_range _ F) as R.
  destruct (round_down d) eqn:RD.
  - destruct (Z.eqb_spec q (emin p t)) as [E|E].
    + subst q. eexists; split; [reflexivity|].
      assert (NP : e <> EMinf) by (destruct e; cbn in *; congruence).
      destruct (has_inf p) eqn:I; unfold ok, claim, directed; cbn [fst snd]; decs; cbn; rewrite ?I.
      * rewrite decode_minf by auto. cbn. pose proof (ex_lt_not_undef _ _ LT). fin_tac.
      * fin_tac.
    + assert (F' : fin p t (q - 1)) by (unfold fin in *; lia).
      pose proof (fin_in_range _ F') as R'.
      rewrite mach_in by lia. eexists; split; [reflexivity|].
      unfold ok, claim, directed; cbn [fst snd]; decs; cbn. rewrite decode_fin by auto. cbn.
      fin_tac.
  - eexists; split; [reflexivity|].
    unfold ok, claim, directed; cbn [fst snd]; decs; cbn. rewrite decode_fin by auto. cbn.
    fin_tac.
Qed.

(* results with relation LE / GE / LGE issued when rounding is not requested *)
Lemma nr_ok d s e r rl :
  round_not_requested d = true -> dec r = (CNormal, rl, false, false) ->
  fin p t s -> rel_holds rl e s -> ok p t d (s, r) e.
Proof.
  intros NR D F H. destruct (round_nr_up _ NR) as [RU RD].
  destruct (dec_split _ _ _ _ _ D) as (E1 & E2 & E3 & E4).
  unfold ok, claim, directed; cbn [fst snd]. rewrite E1, E2, E3, E4.
  fin_tac.
Qed.
Lemma ovf_pos_nz d old : result_overflow (snd (set_pos_overflow p t d old)) <> 0.
Proof. unfold set_pos_overflow.
  destruct (round_down d); [|destruct (has_inf p)]; cbn [snd]; discriminate. Qed.
Lemma ovf_neg_nz d old : result_overflow (snd (set_neg_overflow p t d old)) <> 0.
Proof. unfold set_neg_overflow.
  destruct (round_up d); [|destruct (has_inf p)]; cbn [snd]; discriminate. Qed.
Lemma crisp_pos d old : crisp (snd (set_pos_overflow p t d old)).
Proof. right. apply ovf_pos_nz. Qed.
Lemma crisp_neg d old : crisp (snd (set_neg_overflow p t d old)).
Proof. right. apply ovf_neg_nz. Qed.
Lemma pos_ovf_int d old v : emax p t < v -> okx p t d (set_pos_overflow p t d old) (EInt v).
Proof. intros. split; [apply set_pos_overflow_ok; [exact H|discriminate]|apply crisp_pos]. Qed.
Lemma neg_ovf_int d old v : v < emin p t -> okx p t d (set_neg_overflow p t d old) (EInt v).
Proof. intros. split; [apply set_neg_overflow_ok; [exact H|discriminate]|apply crisp_neg]. Qed.
Lemma eq_int d v : fin p t v -> okx p t d (v, V_EQ) (EInt v).
Proof. intros. split; [apply eq_ok; [exact H|reflexivity]|left; reflexivity]. Qed.

(* what a result word with result_overflow = -1 / +1 says about an integer exact value *)
Lemma ovf_neg_claim r v s : claim p t r (EInt v) s -> result_overflow r = -1 -> v < emin p t.
Proof.
  unfold claim, result_overflow. destruct (class_of r) eqn:C.
  - destruct (Z.eqb_spec r V_LT_INF) as [E|E].
    + subst r. intros (_ & F & R & O) _. revert R O. decs. cbn. intros R O.
      destruct (O eq_refl) as [[_ O']|[O' _]]; [lia|discriminate].
    + destruct (r =? V_GT_SUP); discriminate.
  - intros (_ & R) _. destruct (rel_of r); try contradiction; [discriminate|]. destruct R as [R _]. exact R.
  - discriminate.
  - discriminate.
Qed.
Lemma ovf_pos_claim r v s : claim p t r (EInt v) s -> result_overflow r = 1 -> emax p t < v.
Proof.
  unfold claim, result_overflow. destruct (class_of r) eqn:C.
  - destruct (Z.eqb_spec r V_LT_INF) as [E|E]; [discriminate|].
    destruct (Z.eqb_spec r V_GT_SUP) as [E'|E']; [|discriminate].
    subst r. intros (_ & F & R & O) _. revert R O. decs. cbn. intros R O.
    destruct (O eq_refl) as [[O' _]|[_ O']]; [discriminate|lia].
  - discriminate.
  - intros (_ & R) _. destruct (rel_of r); try contradiction; [discriminate|]. destruct R as [R _]. exact R.
  - discriminate.
Qed.
Lemma result_overflow_cases r : result_overflow r = 0 \/ result_overflow r = -1 \/ result_overflow r = 1.
Proof. unfold result_overflow. destruct (class_of r); auto. destruct (r =? V_LT_INF); auto. destruct (r =? V_GT_SUP); auto. Qed.

(* assign_nan with one of the V_UNKNOWN_*_OVERFLOW reasons claims nothing false *)
Lemma unknown_ok d r old e :
  class_of r = CNan -> is_unrep r = false -> unknown_overflow r = true ->
  okn p t d (assign_nan p t r old) e.
Proof.
  intros C Un K. unfold assign_nan, assign_special, okn, ok, claim, directed. cbn [fst snd]. rewrite C, K.
  split; [split|right; reflexivity].
  - split; [|discriminate]. intros N. rewrite N. cbn [fst]. auto.
  - congruence.
Qed.
End Blocks.
