(* C11 -- the per-primitive statements in their final form (op_correct / op_directed / op_exact_or_classified),
   and their proofs from the soundness lemmas. *)
From Coq Require Import ZArith Lia Bool.
Require Import PPLV.gen.Facts_Result PPLV.Checked.Mach PPLV.Checked.Result PPLV.Checked.Int PPLV.Checked.IntBlocks
               PPLV.Checked.IntArith PPLV.Checked.IntDiv PPLV.Checked.IntRefuted PPLV.Checked.Program.
Local Open Scope Z_scope.

(* hypotheses common to all statements: a well-formed Larger<T> entry, width >= 8, a policy that checks overflow *)
Definition pre (c : cfg) := cfg_wf c /\ check_overflow (pol c) = true.
Definition finc (c : cfg) x := fin (pol c) (ty c) x.

(* op_correct: in-range inputs -> no machine overflow / UB / failed assertion in any sub-expression (the model
   returns Some) AND the result word's claim about (exact result, stored value) is true *)
Definition correct (c : cfg) (d : Z) (m : M) (e : exact) :=
  exists s r, m = Some (s, r) /\ claim (pol c) (ty c) r e s.
(* op_directed: ROUND_UP -> stored >= exact, ROUND_DOWN -> stored <= exact *)
Definition honours (c : cfg) (d : Z) (m : M) (e : exact) :=
  exists s r, m = Some (s, r) /\ directed (pol c) (ty c) d r e s.
(* never rounded, never wrapped: exact (V_EQ) or classified as an overflow *)
Definition exact_or_classified (m : M) := exists s r, m = Some (s, r) /\ (r = V_EQ \/ result_overflow r <> 0).

Definition unary_stmt (P : cfg -> Z -> M -> exact -> Prop) (f : cfg -> Z -> Z -> Z -> M) (ex : Z -> exact) :=
  forall c d x old, pre c -> finc c x -> P c d (f c d x old) (ex x).
Definition binary_stmt (P : cfg -> Z -> M -> exact -> Prop) (f : cfg -> Z -> Z -> Z -> Z -> M) (ex : Z -> Z -> exact)
           (side : cfg -> Z -> Z -> Prop) :=
  forall c d x y old, pre c -> finc c x -> finc c y -> side c x y -> P c d (f c d x y old) (ex x y).
Definition ternary_stmt (P : cfg -> Z -> M -> exact -> Prop) (f : cfg -> Z -> Z -> Z -> Z -> M) (ex : Z -> Z -> Z -> exact)
           (side : cfg -> Z -> Z -> Z -> Prop) :=
  forall c d x y z, pre c -> finc c x -> finc c y -> finc c z -> side c x y z -> P c d (f c d x y z) (ex x y z).
Definition no_side (c : cfg) (x y : Z) := True.
Definition no_side3 (c : cfg) (x y z : Z) := True.
Definition nonzero_divisor (c : cfg) (x y : Z) := y <> 0.
Definition divisor_positive_or_m1 (c : cfg) (x y : Z) := y <> 0 /\ (sgn (ty c) = true -> 0 < y \/ y = -1).
Definition not_sub_mul_boundary (c : cfg) (x y z : Z) :=
  ~ (z = 0 /\ x * y = emax (pol c) (ty c) + 1 /\ emin (pol c) (ty c) = - emax (pol c) (ty c) - 1).
Definition crispP (c : cfg) (d : Z) (m : M) (e : exact) := exact_or_classified m.

Lemma proj_correct c d m e : (exists sr, m = Some sr /\ ok (pol c) (ty c) d sr e) -> correct c d m e.
Proof. intros ([s r] & E & [C _]). exists s, r. auto. Qed.
Lemma proj_honours c d m e : (exists sr, m = Some sr /\ ok (pol c) (ty c) d sr e) -> honours c d m e.
Proof. intros ([s r] & E & [_ D]). exists s, r. auto. Qed.
Lemma okx_ok c d m e : (exists sr, m = Some sr /\ okx (pol c) (ty c) d sr e) -> exists sr, m = Some sr /\ ok (pol c) (ty c) d sr e.
Proof. intros (sr & E & [O _]). eauto. Qed.
Lemma okn_ok c d m e : (exists sr, m = Some sr /\ okn (pol c) (ty c) d sr e) -> exists sr, m = Some sr /\ ok (pol c) (ty c) d sr e.
Proof. intros (sr & E & [O _]). eauto. Qed.
Lemma okx_crisp c d m e : (exists sr, m = Some sr /\ okx (pol c) (ty c) d sr e) -> exact_or_classified m.
Proof. intros ([s r] & E & [_ C]). exists s, r. auto. Qed.

Ltac fromx L := intros; unfold pre, finc in *;
  match goal with H : _ /\ _ |- _ => destruct H end; first [apply proj_correct | apply proj_honours | eapply okx_crisp];
  try apply okx_ok; try (apply L; auto).

Definition ex_neg x := EInt (- x).
Definition ex_abs x := EInt (Z.abs x).
Definition ex_id x := EInt x.
Definition ex_add x y := EInt (x + y).
Definition ex_sub x y := EInt (x - y).
Definition ex_mul x y := EInt (x * y).
Definition ex_div x y := EFrac x y.
Definition ex_idiv x y := EInt (x ÷ y).
Definition ex_rem x y := EInt (Z.rem x y).
Definition ex_add_mul x y z := EInt (z + x * y).
Definition ex_sub_mul x y z := EInt (z - x * y).

Lemma neg_correct : unary_stmt correct neg_int ex_neg. Proof. unfold unary_stmt, ex_neg. fromx neg_int_ok. Qed.
Lemma neg_directed : unary_stmt honours neg_int ex_neg. Proof. unfold unary_stmt, ex_neg. fromx neg_int_ok. Qed.
Lemma neg_crisp : unary_stmt crispP neg_int ex_neg. Proof. unfold unary_stmt, ex_neg, crispP. fromx neg_int_ok. Qed.
Lemma abs_correct : unary_stmt correct abs_int ex_abs. Proof. unfold unary_stmt, ex_abs. fromx abs_int_ok. Qed.
Lemma abs_directed : unary_stmt honours abs_int ex_abs. Proof. unfold unary_stmt, ex_abs. fromx abs_int_ok. Qed.
Lemma abs_crisp : unary_stmt crispP abs_int ex_abs. Proof. unfold unary_stmt, ex_abs, crispP. fromx abs_int_ok. Qed.
Lemma add_correct : binary_stmt correct add_int ex_add no_side. Proof. unfold binary_stmt, ex_add. fromx add_int_ok. Qed.
Lemma add_directed : binary_stmt honours add_int ex_add no_side. Proof. unfold binary_stmt, ex_add. fromx add_int_ok. Qed.
Lemma add_crisp : binary_stmt crispP add_int ex_add no_side. Proof. unfold binary_stmt, ex_add, crispP. fromx add_int_ok. Qed.
Lemma sub_correct : binary_stmt correct sub_int ex_sub no_side. Proof. unfold binary_stmt, ex_sub. fromx sub_int_ok. Qed.
Lemma sub_directed : binary_stmt honours sub_int ex_sub no_side. Proof. unfold binary_stmt, ex_sub. fromx sub_int_ok. Qed.
Lemma sub_crisp : binary_stmt crispP sub_int ex_sub no_side. Proof. unfold binary_stmt, ex_sub, crispP. fromx sub_int_ok. Qed.
Lemma mul_correct : binary_stmt correct mul_int ex_mul no_side. Proof. unfold binary_stmt, ex_mul. fromx mul_int_ok. Qed.
Lemma mul_directed : binary_stmt honours mul_int ex_mul no_side. Proof. unfold binary_stmt, ex_mul. fromx mul_int_ok. Qed.
Lemma mul_crisp : binary_stmt crispP mul_int ex_mul no_side. Proof. unfold binary_stmt, ex_mul, crispP. fromx mul_int_ok. Qed.
Lemma idiv_correct : binary_stmt correct idiv_int ex_idiv nonzero_divisor.
Proof. unfold binary_stmt, ex_idiv, nonzero_divisor. fromx idiv_int_ok. Qed.
Lemma idiv_directed : binary_stmt honours idiv_int ex_idiv nonzero_divisor.
Proof. unfold binary_stmt, ex_idiv, nonzero_divisor. fromx idiv_int_ok. Qed.
Lemma rem_correct : binary_stmt correct rem_int ex_rem nonzero_divisor.
Proof. unfold binary_stmt, ex_rem, nonzero_divisor. fromx rem_int_ok. Qed.
Lemma rem_directed : binary_stmt honours rem_int ex_rem nonzero_divisor.
Proof. unfold binary_stmt, ex_rem, nonzero_divisor. fromx rem_int_ok. Qed.

Lemma div_correct : binary_stmt correct div_int ex_div nonzero_divisor.
Proof. unfold binary_stmt, ex_div, nonzero_divisor. intros c d x y old [W C] Fx Fy Y0.
  apply proj_correct. apply div_int_ok; auto. Qed.
Lemma div_directed : binary_stmt honours div_int ex_div nonzero_divisor.
Proof. unfold binary_stmt, ex_div, nonzero_divisor. intros c d x y old [W C] Fx Fy Y0.
  apply proj_honours. apply div_int_ok; auto. Qed.

Lemma add_mul_correct : ternary_stmt correct add_mul_int ex_add_mul no_side3.
Proof. unfold ternary_stmt, ex_add_mul. intros c d x y z [W C] Fx Fy Fz _. apply proj_correct, okn_ok.
  apply add_mul_int_ok; auto. Qed.
Lemma add_mul_directed : ternary_stmt honours add_mul_int ex_add_mul no_side3.
Proof. unfold ternary_stmt, ex_add_mul. intros c d x y z [W C] Fx Fy Fz _. apply proj_honours, okn_ok.
  apply add_mul_int_ok; auto. Qed.
Lemma sub_mul_correct : ternary_stmt correct sub_mul_int ex_sub_mul no_side3.
Proof. unfold ternary_stmt, ex_sub_mul. intros c d x y z [W C] Fx Fy Fz _. apply proj_correct, okn_ok.
  apply sub_mul_int_ok; auto. Qed.
Lemma sub_mul_directed : ternary_stmt honours sub_mul_int ex_sub_mul no_side3.
Proof. unfold ternary_stmt, ex_sub_mul. intros c d x y z [W C] Fx Fy Fz _. apply proj_honours, okn_ok.
  apply sub_mul_int_ok; auto. Qed.

(* conversions between native integer types (the four assign_<s>_int_<s>_int) *)
Definition assign_stmt (P : policy -> ity -> Z -> Z * Z -> exact -> Prop) :=
  forall p fp t ft d from old,
    8 <= bits t -> 8 <= bits ft -> check_overflow p = true ->
    (bits t = bits ft \/ 2 * bits t <= bits ft \/ 2 * bits ft <= bits t) ->
    fin fp ft from ->
    exists sr, assign_int_int p t fp ft d from old = Some sr /\ P p t d sr (EInt from).
Lemma assign_correct : assign_stmt (fun p t d sr e => claim p t (snd sr) e (fst sr)).
Proof. unfold assign_stmt. intros. destruct (assign_int_int_ok p fp t ft H H0 H1 H2 d from old H3) as (sr & E & [[C _] _]). eauto. Qed.
Lemma assign_directed : assign_stmt (fun p t d sr e => directed p t d (snd sr) e (fst sr)).
Proof. unfold assign_stmt. intros. destruct (assign_int_int_ok p fp t ft H H0 H1 H2 d from old H3) as (sr & E & [[_ D] _]). eauto. Qed.
Lemma assign_crisp : assign_stmt (fun p t d sr e => crisp (snd sr)).
Proof. unfold assign_stmt. intros. destruct (assign_int_int_ok p fp t ft H H0 H1 H2 d from old H3) as (sr & E & [_ C]). eauto. Qed.

(* the building blocks, as statements about an arbitrary exact value *)
Definition set_pos_overflow_stmt := forall p t d old e, 8 <= bits t ->
  ex_gt e (emax p t) -> e <> EPinf -> ok p t d (set_pos_overflow p t d old) e.
Definition set_neg_overflow_stmt := forall p t d old e, 8 <= bits t ->
  ex_lt e (emin p t) -> e <> EMinf -> ok p t d (set_neg_overflow p t d old) e.
Definition round_gt_int_stmt := forall p t d q e, 8 <= bits t ->
  fin p t q -> ex_gt e q -> ex_lt e (q + 1) -> exists sr, round_gt_int p t d q = Some sr /\ ok p t d sr e.
Definition round_lt_int_stmt := forall p t d q e, 8 <= bits t ->
  fin p t q -> ex_lt e q -> ex_gt e (q - 1) -> exists sr, round_lt_int p t d q = Some sr /\ ok p t d sr e.
Lemma set_pos_overflow_sound : set_pos_overflow_stmt. Proof. unfold set_pos_overflow_stmt. intros. apply set_pos_overflow_ok; auto. Qed.
Lemma set_neg_overflow_sound : set_neg_overflow_stmt. Proof. unfold set_neg_overflow_stmt. intros. apply set_neg_overflow_ok; auto. Qed.
Lemma round_gt_int_sound : round_gt_int_stmt. Proof. unfold round_gt_int_stmt. intros. apply round_gt_int_ok; auto. Qed.
Lemma round_lt_int_sound : round_lt_int_stmt. Proof. unfold round_lt_int_stmt. intros. apply round_lt_int_ok; auto. Qed.

(* bounded coefficients never lie *)
Definition bounded_never_lies_stmt := forall c d e v, pre c ->
  eval_checked c d e = Value v -> eval_Z e = v /\ finc c v.
Definition bounded_total_stmt := forall c d e, pre c ->
  eval_checked c d e = Overflow \/ eval_checked c d e = Value (eval_Z e).
Lemma bounded_never_lies_proof : bounded_never_lies_stmt.
Proof. unfold bounded_never_lies_stmt, pre, finc. intros c d e v [W C]. apply bounded_never_lies; auto. Qed.
Lemma bounded_total_proof : bounded_total_stmt.
Proof. unfold bounded_total_stmt, pre. intros c d e [W C]. apply bounded_total; auto. Qed.

(* the hypotheses are satisfiable *)
Example pre_sat8 : pre c8. Proof. split; [exact c8_wf|reflexivity]. Qed.
Example pre_sat64 : pre c64. Proof. split; [exact c64_wf|reflexivity]. Qed.
Example finc_sat : finc c8 (-128) /\ finc c8 127 /\ finc c64 (2 ^ 63 - 1). Proof. unfold finc, fin; cbn; lia. Qed.
Example program_sat : eval_checked c8 ROUND_IGNORE (Add (Const 100) (Mul (Const 3) (Const 9))) = Value 127
                   /\ eval_checked c8 ROUND_IGNORE (Add (Const 100) (Mul (Const 4) (Const 7))) = Overflow.
Proof. split; vm_compute; reflexivity. Qed.
