(* Exact comparison of FINITE UNIONS of rational polyhedra (the values of Pointset_Powerset objects):
   is the solution set of a system covered by the union of the solution sets of a list of systems?
   Used by the C13 judge to decide "the two powersets denote the same set" without relying on the
   order, number or redundancy of the disjuncts.  Built on the verified non-emptiness test of
   Base/Sys.v; exact for all inputs ([None] = the dimension given was too small, never an answer). *)
From Coq Require Import List ZArith QArith Lia Lqa Bool.
Require Import PPLV.Base.FM PPLV.Base.Sys.
Import ListNotations.
Local Open Scope Q_scope.

(* a system as a list of inequalities only *)
Definition ineqs_of (s : sys) : list cstr :=
  flat_map (fun e => [ge_of e; le_of e]) (eqs s) ++ ineqs s.

Lemma sat_ineqs_of s p : sat_all (ineqs_of s) p <-> sat_sys s p.
Proof.
  unfold ineqs_of, sat_sys, sat_all, sat_eqs. split.
  - intros H. split.
    + intros e He. apply eq_as_ineqs. split; apply H; apply in_or_app; left; apply in_flat_map; exists e; cbn; auto.
    + intros c Hc. apply H. apply in_or_app. now right.
  - intros [H1 H2] c Hc. apply in_app_or in Hc. destruct Hc as [Hc|Hc]; [|now apply H2].
    apply in_flat_map in Hc. destruct Hc as [e [He Hc]]. specialize (H1 e He). apply eq_as_ineqs in H1.
    destruct H1 as [A B]. cbn in Hc. destruct Hc as [<-|[<-|[]]]; assumption.
Qed.

(* p minus the conjunction cs, as a list of systems (pairwise disjoint pieces) *)
Fixpoint diff_pieces (p : sys) (cs : list cstr) : list sys :=
  match cs with
  | [] => []
  | c :: r => add_ineq (neg_c c) p :: diff_pieces (add_ineq c p) r
  end.

Lemma diff_pieces_spec cs : forall p x,
  (exists q, In q (diff_pieces p cs) /\ sat_sys q x) <-> (sat_sys p x /\ ~ sat_all cs x).
Proof.
  induction cs as [|c r IH]; intros p x; cbn [diff_pieces].
  - split.
    + intros [q [[] _]].
    + intros [_ H]. exfalso. apply H. intros c [].
  - split.
    + intros [q [[<-|Hq] Hs]].
      * apply sat_add_ineq in Hs. destruct Hs as [N Hp]. apply sat_neg in N. split; [exact Hp|].
        intros A. apply N. apply A. now left.
      * destruct (proj1 (IH _ x) (ex_intro _ q (conj Hq Hs))) as [Hp N].
        apply sat_add_ineq in Hp. destruct Hp as [Hc Hp]. split; [exact Hp|].
        intros A. apply N. intros c' Hc'. apply A. now right.
    + intros [Hp N]. destruct (sat_dec c x) as [Hc|Hc].
      * assert (N' : ~ sat_all r x).
        { intros A. apply N. intros c' [<-|Hc']; [exact Hc|now apply A]. }
        destruct (proj2 (IH (add_ineq c p) x)) as [q [Hq Hs]].
        { split; [apply sat_add_ineq; now split|exact N']. }
        exists q. split; [now right|exact Hs].
      * exists (add_ineq (neg_c c) p). split; [now left|]. apply sat_add_ineq. split; [now apply sat_neg|exact Hp].
Qed.

Lemma sat_dec_all cs x : {sat_all cs x} + {~ sat_all cs x}.
Proof.
  induction cs as [|c r IH].
  - left. intros c [].
  - destruct (sat_dec c x) as [A|A].
    + destruct IH as [B|B].
      * left. intros c' [<-|H]; [exact A|now apply B].
      * right. intros H. apply B. intros c' Hc'. apply H. now right.
    + right. intros H. apply A. apply H. now left.
Qed.

(* is  sol(p)  included in the union of the  sol(q), q in qs ? *)
Fixpoint covers (n : nat) (qs : list sys) (p : sys) {struct qs} : option bool :=
  match nonempty_sys n p with
  | None => None
  | Some false => Some true
  | Some true =>
      match qs with
      | [] => Some false
      | q :: r => oall (covers n r) (diff_pieces p (ineqs_of q))
      end
  end.

Definition in_union (qs : list sys) (x : point) : Prop := exists q, In q qs /\ sat_sys q x.

Theorem covers_exact n qs : forall p b,
  covers n qs p = Some b -> (b = true <-> forall x, sat_sys p x -> in_union qs x).
Proof.
  induction qs as [|q r IH]; intros p b; cbn [covers];
    destruct (nonempty_sys n p) as [[|]|] eqn:E; try discriminate;
    pose proof (nonempty_sys_exact _ _ _ E) as X.
  - intros [= <-]. split; [discriminate|]. intros H. exfalso.
    destruct (proj1 X eq_refl) as [x Hx]. destruct (H x Hx) as [q [[] _]].
  - intros [= <-]. split; [|reflexivity]. intros _ x Hx. exfalso.
    assert (false = true) by (apply X; now exists x). discriminate.
  - intros Hb.
    rewrite (oall_spec _ (fun p' => forall x, sat_sys p' x -> in_union r x) _ _ (IH) Hb). split.
    + intros H x Hx. destruct (sat_dec_all (ineqs_of q) x) as [A|A].
      * exists q. split; [now left|]. now apply sat_ineqs_of.
      * destruct (proj2 (diff_pieces_spec (ineqs_of q) p x) (conj Hx A)) as [p' [Hp' Hs]].
        destruct (H p' Hp' x Hs) as [q' [Hq' Hs']]. exists q'. split; [now right|exact Hs'].
    + intros H p' Hp' x Hs.
      destruct (proj1 (diff_pieces_spec (ineqs_of q) p x) (ex_intro _ p' (conj Hp' Hs))) as [Hx N].
      destruct (H x Hx) as [q' [[<-|Hq'] Hs']].
      * exfalso. apply N. now apply sat_ineqs_of.
      * exists q'. now split.
  - intros [= <-]. split; [|reflexivity]. intros _ x Hx. exfalso.
    assert (false = true) by (apply X; now exists x). discriminate.
Qed.

Definition cover_incl (n : nat) (ps qs : list sys) : option bool := oall (covers n qs) ps.

Theorem cover_incl_exact n ps qs b :
  cover_incl n ps qs = Some b -> (b = true <-> forall x, in_union ps x -> in_union qs x).
Proof.
  unfold cover_incl. intros H.
  rewrite (oall_spec _ (fun p => forall x, sat_sys p x -> in_union qs x) _ _ (covers_exact n qs) H). split.
  - intros A x [p [Hp Hs]]. exact (A p Hp x Hs).
  - intros A p Hp x Hs. apply A. exists p. now split.
Qed.

Definition cover_equiv (n : nat) (ps qs : list sys) : option bool :=
  oand (cover_incl n ps qs) (cover_incl n qs ps).

Theorem cover_equiv_exact n ps qs b :
  cover_equiv n ps qs = Some b -> (b = true <-> forall x, in_union ps x <-> in_union qs x).
Proof.
  unfold cover_equiv. destruct (cover_incl n ps qs) as [b1|] eqn:E1; [|discriminate].
  destruct (cover_incl n qs ps) as [b2|] eqn:E2; [|discriminate]. cbn. intros [= <-].
  rewrite andb_true_iff, (cover_incl_exact _ _ _ _ E1), (cover_incl_exact _ _ _ _ E2). split.
  - intros [A B] x. split; auto.
  - intros A. split; intros x; apply A.
Qed.

(* non-vacuity: [0,2] is covered by [0,1] u [1,2] but not by [0,1] alone; the procedure answers *)
Definition seg (a b : Z) : sys :=
  {| eqs := []; ineqs := [ {| coefs := [1%Z]; cst := (- a)%Z; strict := false |};
                          {| coefs := [(-1)%Z]; cst := b; strict := false |} ] |}.
Example cover_yes : cover_equiv 2 [seg 0 2] [seg 0 1; seg 1 2] = Some true.
Proof. vm_compute. reflexivity. Qed.
Example cover_no : cover_equiv 2 [seg 0 2] [seg 0 1] = Some false.
Proof. vm_compute. reflexivity. Qed.
