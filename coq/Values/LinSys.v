(* C13 -- Linear_System: rows own heap storage; a system is the list of the addresses of its rows
   (src/Linear_System_templates.hh:296-345).

     insert(const Linear_System& y)     : Linear_System tmp(y, representation(), With_Pending()); insert(tmp, Recycle_Input());
     insert(Linear_System& y, Recycle)  : ... for (i < y.num_rows()) x.insert_pending(y.rows[i], Recycle_Input());   // swaps rows out of y
                                          y.clear();                                                               // donor left EMPTY

   [recycle_no_sharing]: after the recycling insertion no row address is reachable from both donor and receiver.
   [insert_copy_spec]: the copying insertion only adds FRESH addresses, also when x and y are the same system. *)
From Coq Require Import List Arith Lia Bool.
Require Import PPLV.Values.Store.
Import ListNotations.

Section LS.
Variable R : Type.

Record st := { rows : nat -> list nat; cells : nat -> option R; next : nat }.

Definition vals (s : st) (x : nat) : list (option R) := map (cells s) (rows s x).

(* the receiver takes the donor's rows; the donor is cleared *)
Definition insert_recycled (x y : nat) (s : st) : st :=
  {| rows := upd (upd (rows s) x (rows s x ++ rows s y)) y []; cells := cells s; next := next s |}.

Fixpoint clone_list (l : list nat) (c : nat -> option R) (nx : nat) : list nat * (nat -> option R) * nat :=
  match l with
  | [] => ([], c, nx)
  | a :: r => let '(l', c', n') := clone_list r (upd c nx (c a)) (S nx) in (nx :: l', c', n')
  end.

Definition insert_copy (x y : nat) (s : st) : st :=
  let '(l', c', n') := clone_list (rows s y) (cells s) (next s) in
  {| rows := upd (rows s) x (rows s x ++ l'); cells := c'; next := n' |}.

Lemma clone_spec l : forall c nx, (forall a, In a l -> a < nx) ->
  let '(l', c', n') := clone_list l c nx in
  l' = seq nx (length l) /\ n' = nx + length l /\ (forall b, b < nx -> c' b = c b) /\ map c' l' = map c l.
Proof.
  induction l as [|a r IH]; intros c nx H; cbn [clone_list].
  - cbn. repeat split; auto.
  - specialize (IH (upd c nx (c a)) (S nx) ltac:(intros b Hb; specialize (H b (or_intror Hb)); lia)).
    destruct (clone_list r (upd c nx (c a)) (S nx)) as [[l' c'] n']. destruct IH as [A [B [C D]]].
    split; [cbn; now rewrite A|]. split; [cbn; lia|]. split.
    + intros b Hb. rewrite C by lia. apply upd_other. lia.
    + cbn [map]. rewrite D. f_equal.
      * rewrite C by lia. apply upd_same.
      * apply map_ext_in. intros b Hb. apply upd_other. specialize (H b (or_intror Hb)). lia.
Qed.

Theorem recycle_no_sharing x y s : x <> y -> NoDup (rows s x ++ rows s y) ->
  let s' := insert_recycled x y s in
  (forall a, In a (rows s' x) -> ~ In a (rows s' y)) /\ rows s' y = [] /\
  vals s' x = vals s x ++ vals s y /\ NoDup (rows s' x) /\
  (forall z, z <> x -> z <> y -> rows s' z = rows s z).
Proof.
  intros Hxy ND s'. subst s'. unfold insert_recycled, vals. cbn.
  rewrite upd_same. rewrite upd_other by exact Hxy. rewrite upd_same.
  split; [intros a _ []|]. split; [reflexivity|]. split; [now rewrite map_app|]. split; [exact ND|].
  intros z Hx Hy. now rewrite !upd_other.
Qed.

Definition fresh_from (k : nat) (l : list nat) : Prop := forall a, In a l -> k <= a.

Theorem insert_copy_spec x y s : (forall z a, In a (rows s z) -> a < next s) ->
  let s' := insert_copy x y s in
  vals s' x = vals s x ++ vals s y /\
  (exists l', rows s' x = rows s x ++ l' /\ fresh_from (next s) l') /\
  (forall z, z <> x -> rows s' z = rows s z /\ vals s' z = vals s z).
Proof.
  intros B s'. subst s'. unfold insert_copy.
  pose proof (clone_spec (rows s y) (cells s) (next s) (B y)) as P.
  destruct (clone_list (rows s y) (cells s) (next s)) as [[l' c'] n']. destruct P as [A [N [C D]]].
  unfold vals. cbn. rewrite upd_same. split; [|split].
  - rewrite map_app, D. f_equal. apply map_ext_in. intros a Ha. apply C. exact (B x a Ha).
  - exists l'. split; [reflexivity|]. intros a Ha. rewrite A in Ha. apply in_seq in Ha. lia.
  - intros z Hz. rewrite upd_other by exact Hz. split; [reflexivity|].
    apply map_ext_in. intros a Ha. apply C. exact (B z a Ha).
Qed.

(* x.insert(x) = x.insert(c) for a fresh copy c of x, as far as the values of x go *)
Theorem insert_copy_alias_safe x c s : (forall z a, In a (rows s z) -> a < next s) -> vals s c = vals s x ->
  vals (insert_copy x x s) x = vals (insert_copy x c s) x.
Proof.
  intros B E. destruct (insert_copy_spec x x s B) as [A _]. destruct (insert_copy_spec x c s B) as [A' _].
  cbn in A, A'. rewrite A, A', E. reflexivity.
Qed.

End LS.
