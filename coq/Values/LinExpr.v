(* C13 -- Linear_Expression: a handle owning ONE heap cell (the impl pointer)
   (src/Linear_Expression.cc:82-107, src/Linear_Expression_inlines.hh:32-41,194-197).

     Linear_Expression(const Linear_Expression& e)        { impl = new Impl<rep of e>( *e.impl); }
     Linear_Expression(const Linear_Expression& e, r)     { impl = new Impl<r>( *e.impl); }        (changes representation)
     operator=(const Linear_Expression& e)                { Linear_Expression tmp = e; swap( *this, tmp); return *this; }
     ~Linear_Expression()                                 { delete impl; }
     m_swap(y)                                            { swap(impl, y.impl); }

   Receiver and argument are handle variables that may coincide.  [Owned]: every live handle owns a live cell
   and no cell is owned twice.  Assignment, swap and both copies keep [Owned] and have value semantics also
   when the two variables are the same; the classical wrong order (delete, then clone) is expressible in the
   model and refuted for self-assignment. *)
From Coq Require Import List Arith Lia Bool.
Require Import PPLV.Values.Store.
Import ListNotations.

Section LE.
Variable V : Type.
Variable n : nat.

Record st := { hd : nat -> option nat; heap : nat -> option V; next : nat }.

Definition rd (s : st) (h : nat) : option V :=
  match hd s h with Some a => heap s a | None => None end.

(* copy construction into the dead variable h; [conv] is the change of representation (identity for the plain copy) *)
Definition le_copy (conv : V -> V) (h g : nat) (s : st) : st :=
  match hd s h, rd s g with
  | None, Some v => {| hd := upd (hd s) h (Some (next s)); heap := upd (heap s) (next s) (Some (conv v)); next := S (next s) |}
  | _, _ => s
  end.

Definition le_swap (h g : nat) (s : st) : st :=
  match hd s h, hd s g with
  | Some a, Some b => {| hd := upd (upd (hd s) h (Some b)) g (Some a); heap := heap s; next := next s |}
  | _, _ => s
  end.

Definition le_destroy (h : nat) (s : st) : st :=
  match hd s h with
  | Some a => {| hd := upd (hd s) h None; heap := upd (heap s) a None; next := next s |}
  | None => s
  end.

(* operator= as written: the temporary lives in the scratch variable tmp *)
Definition le_assign (tmp h g : nat) (s : st) : st :=
  le_destroy tmp (le_swap h tmp (le_copy (fun v => v) tmp g s)).

(* the wrong order: delete impl; impl = new Impl( *e.impl); *)
Definition le_assign_naive (h g : nat) (s : st) : st :=
  match hd s h with
  | Some a =>
      let hp := upd (heap s) a None in
      match (match hd s g with Some b => hp b | None => None end) with
      | Some v => {| hd := upd (hd s) h (Some (next s)); heap := upd hp (next s) (Some v); next := S (next s) |}
      | None => {| hd := upd (hd s) h None; heap := hp; next := next s |}
      end
  | None => s
  end.

Record Owned (s : st) : Prop := {
  ow_live : forall h a, hd s h = Some a -> h < n /\ a < next s /\ exists v, heap s a = Some v;
  ow_inj : forall h g a, hd s h = Some a -> hd s g = Some a -> h = g
}.

Ltac crush :=
  unfold upd in *;
  repeat match goal with
  | |- context [Nat.eqb ?x ?y] => destruct (Nat.eqb_spec x y); subst
  | H : context [Nat.eqb ?x ?y] |- _ => destruct (Nat.eqb_spec x y); subst
  end; try congruence; try lia; eauto.

Lemma copy_spec conv s h g v : Owned s -> h < n -> hd s h = None -> rd s g = Some v ->
  let s' := le_copy conv h g s in
  Owned s' /\ rd s' h = Some (conv v) /\ (forall k, k <> h -> rd s' k = rd s k) /\ hd s' h = Some (next s) /\ next s' = S (next s)
  /\ (forall k, k <> h -> hd s' k = hd s k).
Proof.
  intros O Hh E R s'. subst s'. unfold le_copy. rewrite E, R.
  split; [|split; [|split; [|split; [|split]]]].
  - split; cbn.
    + intros k a. unfold upd at 1. destruct (Nat.eqb_spec k h) as [->|Hk].
      * intros [= <-]. split; [exact Hh|]. split; [lia|]. rewrite upd_same. eauto.
      * intros Ek. destruct (ow_live s O k a Ek) as [L [La [w Hw]]]. split; [exact L|]. split; [lia|].
        rewrite upd_other by lia. eauto.
    + intros k k' a. unfold upd. destruct (Nat.eqb_spec k h) as [->|Hk]; destruct (Nat.eqb_spec k' h) as [->|Hk']; try reflexivity.
      * intros [= <-] Ek'. destruct (ow_live s O k' _ Ek'). lia.
      * intros Ek [= <-]. destruct (ow_live s O k _ Ek). lia.
      * apply (ow_inj s O).
  - unfold rd. cbn. now rewrite !upd_same.
  - intros k Hk. unfold rd. cbn. rewrite upd_other by exact Hk. destruct (hd s k) as [a|] eqn:Ek; [|reflexivity].
    destruct (ow_live s O k a Ek) as [_ [La _]]. rewrite upd_other by lia. reflexivity.
  - cbn. now rewrite upd_same.
  - reflexivity.
  - intros k Hk. cbn. now rewrite upd_other.
Qed.

Lemma swap_spec s h g : Owned s -> hd s h <> None -> hd s g <> None ->
  let s' := le_swap h g s in
  Owned s' /\ rd s' h = rd s g /\ rd s' g = rd s h /\ (forall k, k <> h -> k <> g -> rd s' k = rd s k).
Proof.
  intros O Lh Lg s'. subst s'. unfold le_swap.
  destruct (hd s h) as [a|] eqn:Eh; [|congruence]. destruct (hd s g) as [b|] eqn:Eg; [|congruence].
  destruct (ow_live s O h a Eh) as [Hh [La [va Hva]]]. destruct (ow_live s O g b Eg) as [Hg [Lb [vb Hvb]]].
  split; [|split; [|split]].
  - split; cbn.
    + intros k c. unfold upd. destruct (Nat.eqb_spec k g) as [->|]; [intros [= <-]; eauto|].
      destruct (Nat.eqb_spec k h) as [->|]; [intros [= <-]; eauto|]. apply (ow_live s O).
    + intros k k' c.
      set (sg := fun k => if Nat.eqb k g then h else if Nat.eqb k h then g else k).
      assert (P : forall z, upd (upd (hd s) h (Some b)) g (Some a) z = hd s (sg z)).
      { intros z. unfold upd, sg. destruct (Nat.eqb_spec z g) as [->|]; [now rewrite Eh|].
        destruct (Nat.eqb_spec z h) as [->|]; [now rewrite Eg|reflexivity]. }
      rewrite !P. intros E1 E2. pose proof (ow_inj s O _ _ _ E1 E2) as Q. unfold sg in Q.
      destruct (Nat.eqb_spec k g), (Nat.eqb_spec k' g), (Nat.eqb_spec k h), (Nat.eqb_spec k' h); subst; congruence || lia.
  - unfold rd. cbn. unfold upd. destruct (Nat.eqb_spec h g) as [->|]; [|rewrite Nat.eqb_refl]; rewrite ?Eg; congruence.
  - unfold rd. cbn. rewrite upd_same, Eh. reflexivity.
  - intros k K1 K2. unfold rd. cbn. rewrite !upd_other by assumption. reflexivity.
Qed.

Lemma destroy_spec s h : Owned s ->
  let s' := le_destroy h s in
  Owned s' /\ rd s' h = None /\ (forall k, k <> h -> rd s' k = rd s k).
Proof.
  intros O s'. subst s'. unfold le_destroy. destruct (hd s h) as [a|] eqn:E.
  - split; [|split].
    + split; cbn.
      * intros k c. unfold upd at 1. destruct (Nat.eqb_spec k h) as [->|Hk]; [discriminate|].
        intros Ek. destruct (ow_live s O k c Ek) as [L [Lc [v Hv]]]. split; [exact L|]. split; [exact Lc|].
        rewrite upd_other; [eauto|]. intros ->. apply Hk. eapply (ow_inj s O); eassumption.
      * intros k k' c. unfold upd. destruct (Nat.eqb_spec k h); [discriminate|]. destruct (Nat.eqb_spec k' h); [discriminate|]. apply (ow_inj s O).
    + unfold rd. cbn. now rewrite upd_same.
    + intros k Hk. unfold rd. cbn. rewrite upd_other by exact Hk. destruct (hd s k) as [c|] eqn:Ek; [|reflexivity].
      rewrite upd_other; [reflexivity|]. intros ->. apply Hk. eapply (ow_inj s O); eassumption.
  - split; [exact O|]. split; [unfold rd; now rewrite E|reflexivity].
Qed.

(* operator=: value semantics, whether or not h and g are the same variable *)
Theorem assign_spec s tmp h g : Owned s -> tmp < n -> hd s tmp = None -> hd s h <> None -> hd s g <> None ->
  let s' := le_assign tmp h g s in
  Owned s' /\ rd s' h = rd s g /\ (forall k, k <> h -> rd s' k = rd s k).
Proof.
  intros O Ht Et Lh Lg s'. subst s'. unfold le_assign.
  assert (Hth : tmp <> h) by (intros ->; congruence).
  assert (Htg : tmp <> g) by (intros ->; congruence).
  destruct (hd s g) as [b|] eqn:Eg; [|congruence]. destruct (ow_live s O g b Eg) as [_ [_ [v Hv]]].
  assert (Rg : rd s g = Some v) by (unfold rd; now rewrite Eg).
  destruct (copy_spec (fun v => v) s tmp g v O Ht Et Rg) as [O1 [R1 [F1 [H1 [_ K1]]]]].
  set (s1 := le_copy (fun v => v) tmp g s) in *.
  assert (L1h : hd s1 h <> None) by (rewrite K1 by congruence; exact Lh).
  assert (L1t : hd s1 tmp <> None) by (rewrite H1; discriminate).
  destruct (swap_spec s1 h tmp O1 L1h L1t) as [O2 [R2h [R2t F2]]].
  set (s2 := le_swap h tmp s1) in *.
  destruct (destroy_spec s2 tmp O2) as [O3 [R3 F3]].
  split; [exact O3|]. split.
  - rewrite F3 by congruence. rewrite R2h, R1. now rewrite Rg.
  - intros k Hk. destruct (Nat.eq_dec k tmp) as [->|Hkt].
    + rewrite R3. unfold rd. now rewrite Et.
    + rewrite F3 by exact Hkt. rewrite F2 by assumption. now apply F1.
Qed.

Corollary self_assign_harmless s tmp h : Owned s -> tmp < n -> hd s tmp = None -> hd s h <> None ->
  forall k, rd (le_assign tmp h h s) k = rd s k.
Proof.
  intros O Ht Et Lh k. destruct (assign_spec s tmp h h O Ht Et Lh Lh) as [_ [R F]].
  destruct (Nat.eq_dec k h) as [->|Hk]; [exact R|now apply F].
Qed.

Corollary self_swap_harmless s h : Owned s -> hd s h <> None -> forall k, rd (le_swap h h s) k = rd s k.
Proof.
  intros O Lh k. destruct (swap_spec s h h O Lh Lh) as [_ [R [_ F]]].
  destruct (Nat.eq_dec k h) as [->|Hk]; [exact R|now apply F].
Qed.

(* aliased assignment = assignment from a fresh copy (made in the dead variable c) *)
Theorem assign_alias_safe s tmp c h : Owned s -> tmp < n -> c < n -> tmp <> c -> hd s tmp = None -> hd s c = None -> hd s h <> None ->
  forall k, k <> c -> rd (le_assign tmp h h s) k = rd (le_assign tmp h c (le_copy (fun v => v) c h s)) k.
Proof.
  intros O Ht Hc Htc Et Ec Lh k Hk.
  rewrite (self_assign_harmless s tmp h O Ht Et Lh k).
  destruct (hd s h) as [a|] eqn:Eh; [|congruence]. destruct (ow_live s O h a Eh) as [_ [_ [v Hv]]].
  assert (Rh : rd s h = Some v) by (unfold rd; now rewrite Eh).
  assert (Hch : c <> h) by (intros ->; congruence).
  destruct (copy_spec (fun v => v) s c h v O Hc Ec Rh) as [O1 [R1 [F1 [H1 [_ K1]]]]].
  set (s1 := le_copy (fun v => v) c h s) in *.
  assert (E1t : hd s1 tmp = None) by (rewrite K1 by exact Htc; exact Et).
  assert (L1h : hd s1 h <> None) by (rewrite K1 by congruence; rewrite Eh; discriminate).
  assert (L1c : hd s1 c <> None) by (rewrite H1; discriminate).
  destruct (assign_spec s1 tmp h c O1 Ht E1t L1h L1c) as [_ [R2 F2]].
  destruct (Nat.eq_dec k h) as [->|Hkh].
  - rewrite R2, R1. exact Rh.
  - rewrite F2 by exact Hkh. symmetry. now apply F1.
Qed.

End LE.

(* the model can express the bug: delete-then-clone loses the value on self-assignment *)
Example naive_self_assign_refuted :
  let s := {| hd := fun h => if Nat.eqb h 0 then Some 0 else None; heap := fun a => if Nat.eqb a 0 then Some 7 else None; next := 1 |} in
  rd nat s 0 = Some 7 /\ rd nat (le_assign_naive nat 0 0 s) 0 = None /\ rd nat (le_assign nat 1 0 0 s) 0 = Some 7.
Proof. vm_compute. repeat split. Qed.
