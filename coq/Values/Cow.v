(* C13 -- Determinate<PSET>: reference-counted, copy-on-write handles (src/Determinate_inlines.hh).

     Determinate(const Determinate& y) : prep(y.prep) { prep->new_reference(); }
     ~Determinate()            { if (prep->del_reference()) delete prep; }
     operator=(y)              { y.prep->new_reference(); if (prep->del_reference()) delete prep; prep = y.prep; }
     m_swap(y)                 { swap(prep, y.prep); }
     mutate()                  { if (prep->is_shared()) { Rep* n = new Rep(prep->pset); (void) prep->del_reference();
                                                          n->new_reference(); prep = n; } }
     pointset() (non-const)    { mutate(); return prep->pset; }
     upper_bound_assign(y)     { pointset().upper_bound_assign(y.pointset()); }      (and meet_assign, ...)

   The model runs histories of these operations over n handle variables that MAY COINCIDE in every binary
   operation, on an explicit heap of Rep cells, and is compared with the plain value semantics
   (a table handle -> value).  [cow_refines_values]: what every handle denotes is the same in both, after
   every history.  [cow_refcounts]: every cell's counter equals the number of handles pointing to it, a cell
   exists iff some handle points to it (no leak, no dangling handle, no double delete). *)
From Coq Require Import List Arith Lia Bool.
Require Import PPLV.Values.Store.
Import ListNotations.

Section Cow.
Variable V : Type.
Variable n : nat.                       (* number of handle variables *)

Record rep := { refs : nat; pset : V }.
Record st := { hd : nat -> option nat; heap : nat -> option rep; next : nat }.

Inductive cmd :=
| CNew (h : nat) (v : V)                       (* placement of Determinate(const PSET&) in a dead variable *)
| CCopy (h g : nat)                            (* copy construction of h from g *)
| CAssign (h g : nat)                          (* h = g *)
| CSwap (h g : nat)                            (* h.m_swap(g) *)
| CMutate (h : nat) (f : V -> V)               (* h.pointset().op() *)
| CBinop (h g : nat) (f : V -> V -> V)         (* h.pointset().op(g.pointset()) *)
| CDestroy (h : nat).

(* ---- the C++ ---- *)
Definition incr (a : nat) (hp : nat -> option rep) : nat -> option rep :=
  match hp a with Some r => upd hp a (Some {| refs := S (refs r); pset := pset r |}) | None => hp end.

(* if (prep->del_reference()) delete prep; *)
Definition del_ref (a : nat) (hp : nat -> option rep) : nat -> option rep :=
  match hp a with
  | Some r => if Nat.eqb (refs r) 1 then upd hp a None else upd hp a (Some {| refs := pred (refs r); pset := pset r |})
  | None => hp
  end.

Definition mutate (h : nat) (s : st) : st :=
  match hd s h with
  | Some a =>
      match heap s a with
      | Some r =>
          if Nat.ltb 1 (refs r) then
            {| hd := upd (hd s) h (Some (next s));
               heap := upd (upd (heap s) a (Some {| refs := pred (refs r); pset := pset r |}))
                           (next s) (Some {| refs := 1; pset := pset r |});
               next := S (next s) |}
          else s
      | None => s
      end
  | None => s
  end.

Definition rd (s : st) (h : nat) : option V :=
  match hd s h with Some a => option_map pset (heap s a) | None => None end.

Definition wr (s : st) (h : nat) (v : V) : st :=
  match hd s h with
  | Some a => match heap s a with
              | Some r => {| hd := hd s; heap := upd (heap s) a (Some {| refs := refs r; pset := v |}); next := next s |}
              | None => s end
  | None => s
  end.

Definition step (c : cmd) (s : st) : st :=
  match c with
  | CNew h v =>
      if Nat.ltb h n then
        match hd s h with
        | Some _ => s
        | None => {| hd := upd (hd s) h (Some (next s)); heap := upd (heap s) (next s) (Some {| refs := 1; pset := v |});
                     next := S (next s) |}
        end
      else s
  | CCopy h g =>
      if Nat.ltb h n then
        match hd s h, hd s g with
        | None, Some a => {| hd := upd (hd s) h (Some a); heap := incr a (heap s); next := next s |}
        | _, _ => s
        end
      else s
  | CAssign h g =>
      match hd s h, hd s g with
      | Some a, Some b => {| hd := upd (hd s) h (Some b); heap := del_ref a (incr b (heap s)); next := next s |}
      | _, _ => s
      end
  | CSwap h g =>
      match hd s h, hd s g with
      | Some a, Some b => {| hd := upd (upd (hd s) h (Some b)) g (Some a); heap := heap s; next := next s |}
      | _, _ => s
      end
  | CMutate h f =>
      let s1 := mutate h s in
      match rd s1 h with Some x => wr s1 h (f x) | None => s1 end
  | CBinop h g f =>
      match hd s h, hd s g with
      | Some _, Some _ =>
          let s1 := mutate h s in
          match rd s1 h, rd s1 g with Some x, Some y => wr s1 h (f x y) | _, _ => s1 end
      | _, _ => s
      end
  | CDestroy h =>
      match hd s h with
      | Some a => {| hd := upd (hd s) h None; heap := del_ref a (heap s); next := next s |}
      | None => s
      end
  end.

Definition run (cs : list cmd) (s : st) : st := fold_left (fun s c => step c s) cs s.

Definition init : st := {| hd := fun _ => None; heap := fun _ => None; next := 0 |}.

(* ---- plain values ---- *)
Definition vstep (c : cmd) (t : nat -> option V) : nat -> option V :=
  match c with
  | CNew h v => if Nat.ltb h n then match t h with Some _ => t | None => upd t h (Some v) end else t
  | CCopy h g => if Nat.ltb h n then match t h, t g with None, Some y => upd t h (Some y) | _, _ => t end else t
  | CAssign h g => match t h, t g with Some _, Some y => upd t h (Some y) | _, _ => t end
  | CSwap h g => match t h, t g with Some x, Some y => upd (upd t h (Some y)) g (Some x) | _, _ => t end
  | CMutate h f => match t h with Some x => upd t h (Some (f x)) | None => t end
  | CBinop h g f => match t h, t g with Some x, Some y => upd t h (Some (f x y)) | _, _ => t end
  | CDestroy h => match t h with Some _ => upd t h None | None => t end
  end.

Definition vrun (cs : list cmd) (t : nat -> option V) : nat -> option V := fold_left (fun t c => vstep c t) cs t.

(* ---- invariant ---- *)
Record Inv (s : st) : Prop := {
  inv_live : forall h a, hd s h = Some a -> h < n /\ exists r, heap s a = Some r;
  inv_refs : forall a r, heap s a = Some r -> refs r = cnt (hd s) a n /\ 1 <= refs r;
  inv_next : forall a, next s <= a -> heap s a = None
}.

Lemma inv_init : Inv init.
Proof. split; cbn; intros; try discriminate; reflexivity. Qed.

Lemma live_lt_next s h a : Inv s -> hd s h = Some a -> a < next s.
Proof.
  intros I E. destruct (inv_live s I h a E) as [_ [r Hr]].
  destruct (le_lt_dec (next s) a) as [L|L]; [|exact L].
  rewrite (inv_next s I a L) in Hr. discriminate.
Qed.

Ltac eqb_cases :=
  repeat match goal with
  | |- context [Nat.eqb ?x ?y] => destruct (Nat.eqb_spec x y); subst
  | H : context [Nat.eqb ?x ?y] |- _ => destruct (Nat.eqb_spec x y); subst
  end.

(* generic preservation: a new handle table and heap satisfying the three clauses *)

Lemma inv_new s h v : Inv s -> h < n -> hd s h = None ->
  Inv {| hd := upd (hd s) h (Some (next s)); heap := upd (heap s) (next s) (Some {| refs := 1; pset := v |}); next := S (next s) |}.
Proof.
  intros I Hh E. split; cbn.
  - intros g a. unfold upd. destruct (Nat.eqb_spec g h) as [->|Hg].
    + intros [= <-]. split; [exact Hh|]. rewrite Nat.eqb_refl. eauto.
    + intros Eg. destruct (inv_live s I g a Eg) as [L [r Hr]]. split; [exact L|].
      pose proof (live_lt_next s g a I Eg). destruct (Nat.eqb_spec a (next s)); [lia|eauto].
  - intros a r. unfold upd at 1. destruct (Nat.eqb_spec a (next s)) as [->|Ha].
    + intros [= <-]. cbn. split; [|lia].
      pose proof (cnt_upd (hd s) h (Some (next s)) (next s) n Hh) as C. rewrite E in C. cbn in C.
      rewrite Nat.eqb_refl in C. cbn in C.
      rewrite (cnt_zero (hd s) (next s) n) in C; [lia|].
      intros g Hg Eg. pose proof (live_lt_next s g _ I Eg). lia.
    + intros Hr. destruct (inv_refs s I a r Hr) as [R1 R2]. split; [|exact R2].
      pose proof (cnt_upd (hd s) h (Some (next s)) a n Hh) as C. rewrite E in C. cbn in C.
      destruct (Nat.eqb_spec (next s) a); [lia|]. cbn in C. lia.
  - intros a L. unfold upd. destruct (Nat.eqb_spec a (next s)); [lia|]. apply (inv_next s I). lia.
Qed.

Lemma inv_copy s h g a : Inv s -> h < n -> hd s h = None -> hd s g = Some a ->
  Inv {| hd := upd (hd s) h (Some a); heap := incr a (heap s); next := next s |}.
Proof.
  intros I Hh E Eg. destruct (inv_live s I g a Eg) as [Lg [r Hr]].
  unfold incr. rewrite Hr. split; cbn.
  - intros k b. unfold upd. destruct (Nat.eqb_spec k h) as [->|Hk].
    + intros [= <-]. split; [exact Hh|]. rewrite Nat.eqb_refl. eauto.
    + intros Ek. destruct (inv_live s I k b Ek) as [L [r' Hr']]. split; [exact L|].
      destruct (Nat.eqb_spec b a); eauto.
  - intros b r'. unfold upd at 1. destruct (Nat.eqb_spec b a) as [->|Hb].
    + intros [= <-]. cbn. destruct (inv_refs s I a r Hr) as [R1 R2]. split; [|lia].
      pose proof (cnt_upd (hd s) h (Some a) a n Hh) as C. rewrite E in C. cbn in C.
      rewrite Nat.eqb_refl in C. cbn in C. lia.
    + intros Hr'. destruct (inv_refs s I b r' Hr') as [R1 R2]. split; [|exact R2].
      pose proof (cnt_upd (hd s) h (Some a) b n Hh) as C. rewrite E in C. cbn in C.
      destruct (Nat.eqb_spec a b); [congruence|]. cbn in C. lia.
  - intros b L. unfold upd. destruct (Nat.eqb_spec b a) as [->|]; [|apply (inv_next s I); exact L].
    pose proof (live_lt_next s g a I Eg). lia.
Qed.

(* dropping the pointer held by h (destructor, or first half of an assignment to another cell) *)
Lemma inv_drop s h a : Inv s -> hd s h = Some a ->
  Inv {| hd := upd (hd s) h None; heap := del_ref a (heap s); next := next s |}.
Proof.
  intros I E. destruct (inv_live s I h a E) as [Hh [r Hr]].
  destruct (inv_refs s I a r Hr) as [R1 R2].
  assert (Cnt : forall b, cnt (upd (hd s) h None) b n + b2n (Nat.eqb a b) = cnt (hd s) b n).
  { intros b. pose proof (cnt_upd (hd s) h None b n Hh) as C. rewrite E in C. cbn in C. lia. }
  unfold del_ref. rewrite Hr. split; cbn.
  - intros k b. unfold upd at 1. destruct (Nat.eqb_spec k h) as [->|Hk]; [discriminate|].
    intros Ek. destruct (inv_live s I k b Ek) as [L [r' Hr']]. split; [exact L|].
    destruct (Nat.eqb_spec (refs r) 1) as [One|NotOne]; unfold upd; destruct (Nat.eqb_spec b a) as [->|Hb]; eauto.
    exfalso. rewrite One in R1. symmetry in R1.
    exact (cnt_other (hd s) h a n Hh E R1 k L Hk Ek).
  - intros b r'. destruct (Nat.eqb_spec (refs r) 1) as [One|NotOne]; unfold upd at 1; destruct (Nat.eqb_spec b a) as [->|Hb]; try discriminate.
    + intros Hr'. destruct (inv_refs s I b r' Hr') as [Q1 Q2]. split; [|exact Q2].
      specialize (Cnt b). destruct (Nat.eqb_spec a b); [congruence|]. cbn in Cnt. lia.
    + intros [= <-]. cbn. specialize (Cnt a). rewrite Nat.eqb_refl in Cnt. cbn in Cnt. split; lia.
    + intros Hr'. destruct (inv_refs s I b r' Hr') as [Q1 Q2]. split; [|exact Q2].
      specialize (Cnt b). destruct (Nat.eqb_spec a b); [congruence|]. cbn in Cnt. lia.
  - intros b L. pose proof (inv_next s I b L) as Z.
    destruct (Nat.eqb_spec (refs r) 1); unfold upd; destruct (Nat.eqb_spec b a) as [->|]; try exact Z; try reflexivity.
    rewrite Z in Hr. discriminate.
Qed.

Lemma inv_destroy s h a : Inv s -> hd s h = Some a ->
  Inv {| hd := upd (hd s) h None; heap := del_ref a (heap s); next := next s |}.
Proof. intros I E. now apply inv_drop. Qed.

(* assignment = (a dead variable would be) copy after drop; done directly: *)
Lemma step_assign_as_two s h g a b : Inv s -> hd s h = Some a -> hd s g = Some b ->
  let s' := {| hd := upd (hd s) h (Some b); heap := del_ref a (incr b (heap s)); next := next s |} in
  Inv s' /\ (forall k, rd s' k = if Nat.eqb k h then rd s g else rd s k).
Proof.
  intros I Eh Eg s'.
  destruct (inv_live s I h a Eh) as [Hh [ra Hra]]. destruct (inv_live s I g b Eg) as [Hg [rb Hrb]].
  destruct (inv_refs s I a ra Hra) as [A1 A2]. destruct (inv_refs s I b rb Hrb) as [B1 B2].
  assert (Cnt : forall c, cnt (upd (hd s) h (Some b)) c n + b2n (Nat.eqb a c) = cnt (hd s) c n + b2n (Nat.eqb b c)).
  { intros c. pose proof (cnt_upd (hd s) h (Some b) c n Hh) as C. rewrite Eh in C. cbn in C. exact C. }
  destruct (Nat.eq_dec a b) as [->|Hab].
  - (* same cell (self-assignment, or two handles of one cell): counter goes up then down *)
    assert (HP : forall c, heap s' c = heap s c).
    { intros c. subst s'. cbn [heap]. unfold incr. rewrite Hrb. unfold del_ref. rewrite upd_same. cbn [refs pset].
      destruct (Nat.eqb_spec (S (refs rb)) 1); [lia|]. rewrite Nat.pred_succ. unfold upd. destruct (Nat.eqb_spec c b) as [->|]; [|reflexivity].
      rewrite Hrb. destruct rb; reflexivity. }
    assert (HD : forall k, hd s' k = hd s k).
    { intros k. subst s'. cbn. unfold upd. destruct (Nat.eqb_spec k h) as [->|]; [now rewrite Eh|reflexivity]. }
    split.
    + split.
      * intros k c. rewrite HD. intros E. destruct (inv_live s I k c E) as [L [r Hr]]. split; [exact L|]. rewrite HP. eauto.
      * intros c r. rewrite HP. intros Hr. destruct (inv_refs s I c r Hr) as [R1 R2]. split; [|exact R2].
        rewrite R1. clear -HD. induction n as [|m IH]; cbn [cnt]; [reflexivity|]. rewrite HD, IH. reflexivity.
      * intros c L. rewrite HP. apply (inv_next s I c L).
    + intros k. unfold rd. rewrite HD. destruct (Nat.eqb_spec k h) as [->|].
      * rewrite Eh, Eg. now rewrite HP.
      * destruct (hd s k); [now rewrite HP|reflexivity].
  - (* different cells *)
    assert (HI : incr b (heap s) a = Some ra).
    { unfold incr. rewrite Hrb. rewrite upd_other by exact Hab. exact Hra. }
    split.
    + subst s'. unfold del_ref. rewrite HI. unfold incr. rewrite Hrb. split; cbn.
      * intros k c. unfold upd at 1. destruct (Nat.eqb_spec k h) as [->|Hk].
        -- intros [= <-]. split; [exact Hh|].
           destruct (Nat.eqb_spec (refs ra) 1); unfold upd; eqb_cases; try congruence; eauto.
        -- intros Ek. destruct (inv_live s I k c Ek) as [L [r Hr]]. split; [exact L|].
           destruct (Nat.eqb_spec (refs ra) 1) as [One|]; unfold upd; eqb_cases; try congruence; eauto.
           exfalso. rewrite One in A1. symmetry in A1. exact (cnt_other (hd s) h a n Hh Eh A1 k L Hk Ek).
      * intros c r. specialize (Cnt c). set (hs' := upd (hd s) h (Some b)) in *.
        destruct (Nat.eqb_spec (refs ra) 1) as [One|NotOne]; unfold upd at 1; destruct (Nat.eqb_spec c a) as [->|Hca]; try discriminate.
        -- unfold upd. destruct (Nat.eqb_spec c b) as [->|Hcb].
           ++ intros [= <-]. cbn. rewrite Nat.eqb_refl in Cnt. destruct (Nat.eqb_spec a b); [congruence|]. cbn in Cnt. split; lia.
           ++ intros Hr. destruct (inv_refs s I c r Hr) as [Q1 Q2]. split; [|exact Q2].
              destruct (Nat.eqb_spec a c); [congruence|]. destruct (Nat.eqb_spec b c); [congruence|]. cbn in Cnt. lia.
        -- intros [= <-]. cbn. rewrite Nat.eqb_refl in Cnt. destruct (Nat.eqb_spec b a); [congruence|]. cbn in Cnt. split; lia.
        -- unfold upd. destruct (Nat.eqb_spec c b) as [->|Hcb].
           ++ intros [= <-]. cbn. rewrite Nat.eqb_refl in Cnt. destruct (Nat.eqb_spec a b); [congruence|]. cbn in Cnt. split; lia.
           ++ intros Hr. destruct (inv_refs s I c r Hr) as [Q1 Q2]. split; [|exact Q2].
              destruct (Nat.eqb_spec a c); [congruence|]. destruct (Nat.eqb_spec b c); [congruence|]. cbn in Cnt. lia.
      * intros c L. pose proof (inv_next s I c L) as Z.
        pose proof (live_lt_next s h a I Eh). pose proof (live_lt_next s g b I Eg).
        destruct (Nat.eqb_spec (refs ra) 1); unfold upd; eqb_cases; try lia; exact Z.
    + intros k. subst s'. unfold rd. cbn. unfold upd at 1. destruct (Nat.eqb_spec k h) as [->|Hk].
      * rewrite Eg. unfold del_ref. rewrite HI. unfold incr. rewrite Hrb.
        destruct (Nat.eqb_spec (refs ra) 1); unfold upd; eqb_cases; try congruence; rewrite ?Hrb; reflexivity.
      * destruct (hd s k) as [c|] eqn:Ek; [|reflexivity].
        destruct (inv_live s I k c Ek) as [L [r Hr]].
        unfold del_ref. rewrite HI. unfold incr. rewrite Hrb.
        destruct (Nat.eqb_spec (refs ra) 1) as [One|]; unfold upd; eqb_cases; try congruence; rewrite ?Hr;
          try (rewrite Hrb in Hr; injection Hr as <-); try (rewrite Hra in Hr; injection Hr as <-); try reflexivity.
        exfalso. rewrite One in A1. symmetry in A1. exact (cnt_other (hd s) h a n Hh Eh A1 k L Hk Ek).
Qed.

Lemma inv_swap s h g a b : Inv s -> hd s h = Some a -> hd s g = Some b ->
  Inv {| hd := upd (upd (hd s) h (Some b)) g (Some a); heap := heap s; next := next s |}.
Proof.
  intros I Eh Eg.
  destruct (inv_live s I h a Eh) as [Hh [ra Hra]]. destruct (inv_live s I g b Eg) as [Hg [rb Hrb]].
  split; cbn.
  - intros k c. unfold upd. destruct (Nat.eqb_spec k g) as [->|]; [intros [= <-]; eauto|].
    destruct (Nat.eqb_spec k h) as [->|]; [intros [= <-]; eauto|]. apply (inv_live s I).
  - intros c r Hr. destruct (inv_refs s I c r Hr) as [R1 R2]. split; [|exact R2]. rewrite R1.
    pose proof (cnt_upd (hd s) h (Some b) c n Hh) as C1. rewrite Eh in C1.
    pose proof (cnt_upd (upd (hd s) h (Some b)) g (Some a) c n Hg) as C2.
    destruct (Nat.eq_dec g h) as [->|Hgh].
    + rewrite upd_same in C2. rewrite Eh in Eg. injection Eg as <-. lia.
    + rewrite upd_other in C2 by exact Hgh. rewrite Eg in C2. lia.
  - apply (inv_next s I).
Qed.

Lemma inv_wr s h v : Inv s -> Inv (wr s h v).
Proof.
  intros I. unfold wr. destruct (hd s h) as [a|] eqn:E; [|exact I]. destruct (heap s a) as [r|] eqn:Hr; [|exact I].
  split; cbn.
  - intros k c Ek. destruct (inv_live s I k c Ek) as [L [r' Hr']]. split; [exact L|]. unfold upd. destruct (Nat.eqb_spec c a); eauto.
  - intros c r'. unfold upd. destruct (Nat.eqb_spec c a) as [->|]; [|apply (inv_refs s I)].
    intros [= <-]. cbn. apply (inv_refs s I a r Hr).
  - intros c L. unfold upd. destruct (Nat.eqb_spec c a) as [->|]; [|apply (inv_next s I c L)].
    rewrite (inv_next s I a L) in Hr. discriminate.
Qed.

Lemma rd_wr s h v k : Inv s -> hd s h <> None ->
  (forall g, g < n -> g <> h -> hd s g <> hd s h) ->
  rd (wr s h v) k = if Nat.eqb k h then Some v else rd s k.
Proof.
  intros I Live Uniq. unfold wr, rd. destruct (hd s h) as [a|] eqn:E; [|congruence].
  destruct (inv_live s I h a E) as [Hh [r Hr]]. rewrite Hr. cbn.
  destruct (Nat.eqb_spec k h) as [->|Hk].
  - rewrite E, upd_same. reflexivity.
  - destruct (hd s k) as [c|] eqn:Ek; [|reflexivity].
    destruct (inv_live s I k c Ek) as [Lk _].
    rewrite upd_other; [reflexivity|]. intros ->. apply (Uniq k Lk Hk). exact Ek.
Qed.

(* after mutate, h is the only handle of its cell; values are unchanged *)
Lemma mutate_spec s h : Inv s -> hd s h <> None ->
  let s1 := mutate h s in
  Inv s1 /\ (forall k, rd s1 k = rd s k) /\ hd s1 h <> None /\ (forall g, g < n -> g <> h -> hd s1 g <> hd s1 h)
  /\ (forall k, hd s1 k = None <-> hd s k = None).
Proof.
  intros I Live s1. subst s1. unfold mutate. destruct (hd s h) as [a|] eqn:E; [|congruence].
  destruct (inv_live s I h a E) as [Hh [r Hr]]. rewrite Hr. destruct (inv_refs s I a r Hr) as [R1 R2].
  destruct (Nat.ltb_spec 1 (refs r)) as [Sh|NotSh].
  - pose proof (live_lt_next s h a I E) as La.
    assert (Cnt : forall c, cnt (upd (hd s) h (Some (next s))) c n + b2n (Nat.eqb a c) = cnt (hd s) c n + b2n (Nat.eqb (next s) c)).
    { intros c. pose proof (cnt_upd (hd s) h (Some (next s)) c n Hh) as C. rewrite E in C. exact C. }
    split; [|split; [|split; [|split]]].
    + split; cbn.
      * intros k c. unfold upd at 1. destruct (Nat.eqb_spec k h) as [->|Hk].
        -- intros [= <-]. split; [exact Hh|]. rewrite upd_same. eauto.
        -- intros Ek. destruct (inv_live s I k c Ek) as [L [r' Hr']]. split; [exact L|].
           pose proof (live_lt_next s k c I Ek). unfold upd. eqb_cases; try lia; eauto.
      * intros c r'. specialize (Cnt c). set (hs' := upd (hd s) h (Some (next s))) in *.
        unfold upd at 1. destruct (Nat.eqb_spec c (next s)) as [->|Hc].
        -- intros [= <-]. cbn. rewrite Nat.eqb_refl in Cnt. destruct (Nat.eqb_spec a (next s)); [lia|]. cbn in Cnt.
           rewrite (cnt_zero (hd s) (next s) n) in Cnt; [lia|].
           intros g Hg Eg. pose proof (live_lt_next s g _ I Eg). lia.
        -- unfold upd. destruct (Nat.eqb_spec c a) as [->|Hca].
           ++ intros [= <-]. cbn. rewrite Nat.eqb_refl in Cnt. destruct (Nat.eqb_spec (next s) a); [lia|]. cbn in Cnt. split; lia.
           ++ intros Hr'. destruct (inv_refs s I c r' Hr') as [Q1 Q2]. split; [|exact Q2].
              destruct (Nat.eqb_spec a c); [congruence|]. destruct (Nat.eqb_spec (next s) c); [congruence|]. cbn in Cnt. lia.
      * intros c L. unfold upd. eqb_cases; try lia. apply (inv_next s I). lia.
    + intros k. unfold rd. cbn. unfold upd at 1. destruct (Nat.eqb_spec k h) as [->|Hk].
      * rewrite upd_same, E, Hr. reflexivity.
      * destruct (hd s k) as [c|] eqn:Ek; [|reflexivity]. pose proof (live_lt_next s k c I Ek).
        unfold upd. eqb_cases; try lia; [rewrite Hr|]; reflexivity.
    + cbn. rewrite upd_same. discriminate.
    + cbn. intros g Hg Hne. rewrite upd_same, upd_other by exact Hne. intros Eg.
      pose proof (live_lt_next s g _ I Eg). lia.
    + intros k. cbn. unfold upd. destruct (Nat.eqb_spec k h) as [->|]; [rewrite E; split; discriminate|reflexivity].
  - split; [exact I|]. split; [reflexivity|]. split; [congruence|]. split; [|reflexivity].
    intros g Hg Hne. rewrite E. intros Eg. assert (One : cnt (hd s) a n = 1) by lia.
    exact (cnt_other (hd s) h a n Hh E One g Hg Hne Eg).
Qed.

Lemma wr_hd s h v k : hd (wr s h v) k = hd s k.
Proof. unfold wr. destruct (hd s h); [|reflexivity]. destruct (heap s _); reflexivity. Qed.

(* ---- one step ---- *)
Lemma step_correct c s : Inv s ->
  Inv (step c s) /\ (forall k, rd (step c s) k = vstep c (rd s) k).
Proof.
  intros I.
  assert (Dead : forall k, hd s k = None -> rd s k = None) by (intros k E; unfold rd; now rewrite E).
  assert (Live : forall k a, hd s k = Some a -> exists x, rd s k = Some x).
  { intros k a E. unfold rd. rewrite E. destruct (inv_live s I k a E) as [_ [r Hr]]. rewrite Hr. cbn. eauto. }
  destruct c as [h v|h g|h g|h g|h f|h g f|h]; cbn [step vstep].
  - (* new *)
    destruct (Nat.ltb_spec h n) as [Hh|]; [|split; [exact I|reflexivity]].
    destruct (hd s h) as [a|] eqn:E.
    + destruct (Live h a E) as [x Hx]. rewrite Hx. split; [exact I|reflexivity].
    + rewrite (Dead h E). split; [now apply inv_new|].
      intros k. unfold rd at 1. cbn [hd heap]. destruct (Nat.eq_dec k h) as [->|Hk].
      * rewrite !upd_same. reflexivity.
      * rewrite !(upd_other _ h _ k) by exact Hk. fold (rd s k). unfold rd.
        destruct (hd s k) as [c|] eqn:Ek; [|reflexivity]. pose proof (live_lt_next s k c I Ek).
        rewrite upd_other by lia. reflexivity.
  - (* copy *)
    destruct (Nat.ltb_spec h n) as [Hh|]; [|split; [exact I|reflexivity]].
    destruct (hd s h) as [a|] eqn:E.
    + destruct (Live h a E) as [x Hx]. rewrite Hx. split; [exact I|reflexivity].
    + rewrite (Dead h E). destruct (hd s g) as [b|] eqn:Eg.
      * destruct (Live g b Eg) as [y Hy]. rewrite Hy. split; [now apply (inv_copy s h g b)|].
        destruct (inv_live s I g b Eg) as [_ [rb Hrb]].
        intros k. unfold rd at 1. cbn [hd heap]. unfold incr. rewrite Hrb. destruct (Nat.eq_dec k h) as [->|Hk].
        -- rewrite !upd_same. cbn. unfold rd in Hy. rewrite Eg, Hrb in Hy. exact Hy.
        -- rewrite !(upd_other _ h _ k) by exact Hk. unfold rd. destruct (hd s k) as [c|] eqn:Ek; [|reflexivity].
           unfold upd. destruct (Nat.eqb_spec c b) as [->|]; [rewrite Hrb|]; reflexivity.
      * rewrite (Dead g Eg). split; [exact I|reflexivity].
  - (* assign *)
    destruct (hd s h) as [a|] eqn:E; [|rewrite (Dead h E); split; [exact I|reflexivity]].
    destruct (Live h a E) as [x Hx]. rewrite Hx.
    destruct (hd s g) as [b|] eqn:Eg; [|rewrite (Dead g Eg); split; [exact I|reflexivity]].
    destruct (Live g b Eg) as [y Hy]. rewrite Hy.
    destruct (step_assign_as_two s h g a b I E Eg) as [I' R]. split; [exact I'|].
    intros k. rewrite R. unfold upd. destruct (Nat.eqb_spec k h); [exact Hy|reflexivity].
  - (* swap *)
    destruct (hd s h) as [a|] eqn:E; [|rewrite (Dead h E); split; [exact I|reflexivity]].
    destruct (Live h a E) as [x Hx]. rewrite Hx.
    destruct (hd s g) as [b|] eqn:Eg; [|rewrite (Dead g Eg); split; [exact I|reflexivity]].
    destruct (Live g b Eg) as [y Hy]. rewrite Hy.
    split; [now apply inv_swap|].
    intros k. unfold rd at 1. cbn. unfold upd. destruct (Nat.eqb_spec k g) as [->|].
    + unfold rd in Hx. rewrite E in Hx. exact Hx.
    + destruct (Nat.eqb_spec k h) as [->|]; [|reflexivity]. unfold rd in Hy. rewrite Eg in Hy. exact Hy.
  - (* mutate + unary operation *)
    destruct (hd s h) as [a|] eqn:E.
    + destruct (mutate_spec s h I ltac:(congruence)) as [I1 [R1 [L1 [U1 _]]]].
      rewrite (R1 h). destruct (Live h a E) as [x Hx]. rewrite Hx.
      split; [now apply inv_wr|]. intros k. rewrite (rd_wr _ h (f x) k I1 L1 U1), R1. unfold upd. reflexivity.
    + assert (M : mutate h s = s) by (unfold mutate; now rewrite E). rewrite M, (Dead h E). split; [exact I|reflexivity].
  - (* binary operation, receiver and argument may be the same handle, or two handles of one cell *)
    destruct (hd s h) as [a|] eqn:E; [|rewrite (Dead h E); split; [exact I|reflexivity]].
    destruct (Live h a E) as [x Hx]. rewrite Hx.
    destruct (hd s g) as [b|] eqn:Eg; [|rewrite (Dead g Eg); split; [exact I|reflexivity]].
    destruct (Live g b Eg) as [y Hy]. rewrite Hy.
    destruct (mutate_spec s h I ltac:(congruence)) as [I1 [R1 [L1 [U1 _]]]].
    rewrite (R1 h), (R1 g), Hx, Hy.
    split; [now apply inv_wr|]. intros k. rewrite (rd_wr _ h (f x y) k I1 L1 U1), R1. unfold upd. reflexivity.
  - (* destroy *)
    destruct (hd s h) as [a|] eqn:E; [|rewrite (Dead h E); split; [exact I|reflexivity]].
    destruct (Live h a E) as [x Hx]. rewrite Hx.
    split; [now apply inv_destroy|].
    destruct (inv_live s I h a E) as [Hh [r Hr]]. destruct (inv_refs s I a r Hr) as [A1 A2].
    intros k. unfold rd at 1. cbn [hd heap]. destruct (Nat.eq_dec k h) as [->|Hk]; [rewrite !upd_same; reflexivity|].
    rewrite !(upd_other _ h _ k) by exact Hk.
    unfold rd. destruct (hd s k) as [c|] eqn:Ek; [|reflexivity].
    destruct (inv_live s I k c Ek) as [L _].
    unfold del_ref. rewrite Hr. destruct (Nat.eqb_spec (refs r) 1) as [One|]; unfold upd; destruct (Nat.eqb_spec c a) as [->|]; try reflexivity.
    + exfalso. rewrite One in A1. symmetry in A1. exact (cnt_other (hd s) h a n Hh E A1 k L Hk Ek).
    + rewrite Hr. reflexivity.
Qed.

Lemma vstep_ext c t u : (forall k, t k = u k) -> forall k, vstep c t k = vstep c u k.
Proof.
  intros E k. destruct c as [h v|h g|h g|h g|h f|h g f|h]; cbn [vstep]; rewrite <- ?E;
    repeat match goal with |- context [Nat.ltb ?a ?b] => destruct (Nat.ltb a b) end;
    repeat match goal with |- context [match t ?z with _ => _ end] => destruct (t z) end;
    unfold upd; rewrite ?E; reflexivity.
Qed.

Lemma vrun_ext cs : forall t u, (forall k, t k = u k) -> forall k, vrun cs t k = vrun cs u k.
Proof.
  induction cs as [|c cs IH]; intros t u E k; cbn [vrun fold_left]; [apply E|].
  apply IH. now apply vstep_ext.
Qed.

Theorem cow_correct cs : forall s, Inv s ->
  Inv (run cs s) /\ (forall k, rd (run cs s) k = vrun cs (rd s) k).
Proof.
  induction cs as [|c cs IH]; intros s I; cbn [run vrun fold_left]; [split; [exact I|reflexivity]|].
  destruct (step_correct c s I) as [I1 R1]. destruct (IH _ I1) as [I2 R2]. split; [exact I2|].
  intros k. fold (run cs (step c s)). rewrite R2. apply vrun_ext. exact R1.
Qed.

End Cow.
