(* C13 -- the common store used by the models of the places where the C++ shares or reuses storage.

   Objects live at LOCATIONS.  There are two kinds of locations:
     - variables (handles, fields, iterators/references held by a caller): [nat -> option addr]
     - heap cells (what `new` returns): [addr -> option cell], [None] = never allocated or already deleted;
       reading a deleted cell therefore yields nothing, which is how a dangling reference shows up in a model.
   An operation is a small imperative program (a Gallina function on the state) whose receiver and arguments
   are given as locations THAT MAY COINCIDE.  Allocation takes the address [next] and increments it. *)
From Coq Require Import List Arith Lia Bool.
Import ListNotations.

Definition upd {A} (f : nat -> A) (k : nat) (v : A) : nat -> A :=
  fun i => if Nat.eqb i k then v else f i.

Lemma upd_same {A} (f : nat -> A) k v : upd f k v k = v.
Proof. unfold upd. now rewrite Nat.eqb_refl. Qed.

Lemma upd_other {A} (f : nat -> A) k v i : i <> k -> upd f k v i = f i.
Proof. intros H. unfold upd. destruct (Nat.eqb_spec i k); [contradiction|reflexivity]. Qed.

(* does the optional address [o] equal [a] ? *)
Definition eqo (o : option nat) (a : nat) : bool :=
  match o with Some b => Nat.eqb b a | None => false end.

Lemma eqo_true o a : eqo o a = true <-> o = Some a.
Proof.
  destruct o as [b|]; cbn; [|split; discriminate].
  rewrite Nat.eqb_eq. split; [now intros ->|now intros [= ->]].
Qed.

Definition b2n (b : bool) : nat := if b then 1 else 0.

(* number of variables among 0..n-1 that hold the address a *)
Fixpoint cnt (hs : nat -> option nat) (a : nat) (n : nat) : nat :=
  match n with
  | 0 => 0
  | S k => b2n (eqo (hs k) a) + cnt hs a k
  end.

Lemma cnt_upd_out hs h v a n : n <= h -> cnt (upd hs h v) a n = cnt hs a n.
Proof.
  induction n as [|k IH]; intros H; cbn [cnt]; [reflexivity|].
  rewrite IH by lia. rewrite upd_other by lia. reflexivity.
Qed.

Lemma cnt_upd hs h v a n : h < n ->
  cnt (upd hs h v) a n + b2n (eqo (hs h) a) = cnt hs a n + b2n (eqo v a).
Proof.
  induction n as [|k IH]; intros H; [lia|]. cbn [cnt].
  destruct (Nat.eq_dec h k) as [->|Hne].
  - rewrite upd_same. rewrite cnt_upd_out by lia. lia.
  - rewrite upd_other by lia. specialize (IH ltac:(lia)). lia.
Qed.

Lemma cnt_pos hs h a n : h < n -> hs h = Some a -> 1 <= cnt hs a n.
Proof.
  induction n as [|k IH]; intros H E; [lia|]. cbn [cnt].
  destruct (Nat.eq_dec h k) as [->|Hne].
  - rewrite E. cbn. rewrite Nat.eqb_refl. cbn. lia.
  - specialize (IH ltac:(lia) E). lia.
Qed.

Lemma cnt_zero hs a n : (forall h, h < n -> hs h <> Some a) -> cnt hs a n = 0.
Proof.
  induction n as [|k IH]; intros H; [reflexivity|]. cbn [cnt].
  rewrite IH by (intros h Hh; apply H; lia).
  destruct (eqo (hs k) a) eqn:E; [|reflexivity].
  apply eqo_true in E. exfalso. apply (H k); [lia|exact E].
Qed.

Lemma cnt_other hs h a n : h < n -> hs h = Some a -> cnt hs a n = 1 ->
  forall g, g < n -> g <> h -> hs g <> Some a.
Proof.
  induction n as [|k IH]; intros H E C g Hg Hne; [lia|]. cbn [cnt] in C.
  destruct (Nat.eq_dec h k) as [->|Hk].
  - rewrite E in C. cbn in C. rewrite Nat.eqb_refl in C. cbn in C.
    assert (Z : cnt hs a k = 0) by lia.
    intros Eg. assert (1 <= cnt hs a k) by (apply (cnt_pos hs g a k); [lia|exact Eg]). lia.
  - destruct (Nat.eq_dec g k) as [->|Hgk].
    + intros Eg. rewrite Eg in C. cbn in C. rewrite Nat.eqb_refl in C. cbn in C.
      assert (1 <= cnt hs a k) by (apply (cnt_pos hs h a k); [lia|exact E]). lia.
    + apply IH; try lia; try assumption.
      assert (1 <= cnt hs a k) by (apply (cnt_pos hs h a k); [lia|exact E]).
      destruct (eqo (hs k) a); cbn in C; lia.
Qed.
