(* C13 -- the abstract pool the correspondence check compares the library with: locations hold VALUES,
   op dst a b := pool[dst := f (pool a) (pool b)]  (all reads before the write).  In this model copies are independent
   and aliased calls are safe by construction; the theorems state exactly what tools/props/C13.py checks on the real
   library after every step (frame: nobody but the receiver changes; pair: aliased call = call on fresh copies). *)
From Coq Require Import List Arith Lia Bool.
Require Import PPLV.Values.Store.
Import ListNotations.

Section Pool.
Variable V : Type.
Definition pool := nat -> V.

Definition p_copy (dst src : nat) (p : pool) : pool := upd p dst (p src).
Definition p_assign := p_copy.
Definition p_swap (a b : nat) (p : pool) : pool := upd (upd p a (p b)) b (p a).
Definition p_op2 (f : V -> V -> V) (dst a : nat) (p : pool) : pool := upd p dst (f (p dst) (p a)).
Definition p_op3 (f : V -> V -> V -> V) (dst a b : nat) (p : pool) : pool := upd p dst (f (p dst) (p a) (p b)).

Theorem pool_frame2 f dst a p k : k <> dst -> p_op2 f dst a p k = p k.
Proof. intros H. unfold p_op2. now rewrite upd_other. Qed.

Theorem pool_frame3 f dst a b p k : k <> dst -> p_op3 f dst a b p k = p k.
Proof. intros H. unfold p_op3. now rewrite upd_other. Qed.

(* x.op(x) = x.op(c) with c a fresh copy of x *)
Theorem pool_alias_safe2 f x c p : c <> x ->
  p_op2 f x x p x = p_op2 f x c (p_copy c x p) x.
Proof. intros H. unfold p_op2, p_copy. rewrite !upd_same, upd_other by congruence. reflexivity. Qed.

(* every aliasing pattern of a ternary operation: x.op(x,x), x.op(x,z), x.op(y,x), x.op(y,y) *)
Theorem pool_alias_safe3 f x y z c1 c2 p : c1 <> x -> c2 <> x -> c1 <> c2 -> c1 <> z -> c2 <> y -> c1 <> y -> c2 <> z ->
  p_op3 f x y z p x = p_op3 f x c1 c2 (p_copy c2 z (p_copy c1 y p)) x.
Proof.
  intros. unfold p_op3, p_copy. rewrite !upd_same.
  repeat (rewrite upd_other by congruence). rewrite ?upd_same. repeat (rewrite upd_other by congruence). reflexivity.
Qed.

Theorem pool_self_assign x p k : p_assign x x p k = p k.
Proof. unfold p_assign, p_copy, upd. destruct (Nat.eqb_spec k x) as [->|]; reflexivity. Qed.

Theorem pool_self_swap x p k : p_swap x x p k = p k.
Proof. unfold p_swap, upd. destruct (Nat.eqb_spec k x) as [->|]; reflexivity. Qed.

Theorem pool_copy_independent f x c a p : c <> x ->
  p_op2 f x a (p_copy c x p) c = p x.
Proof. intros H. unfold p_op2, p_copy. rewrite upd_other by exact H. now rewrite upd_same. Qed.

End Pool.
