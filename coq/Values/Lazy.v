(* C13 -- the lazy const update pattern: a const member function casts constness away and rewrites the
   representation (minimisation of a polyhedron's systems, shortest-path closure of a BD shape, strong reduction of
   an octagon, omega-reduction of a powerset, reduction of a product) -- Polyhedron_nonpublic.cc const_cast sites,
   BD_Shape::shortest_path_closure_assign() const, Powerset::omega_reduce() const.
   At store level this is a WRITE to a location the caller passed as const.  The model makes the obligation explicit:
   the write is allowed iff it preserves the denotation, and then every observation that factors through the
   denotation is unchanged for every reader of that location (receiver and argument may be the same location). *)
From Coq Require Import List Arith Lia Bool.
Require Import PPLV.Values.Store.
Import ListNotations.

Section Lazy.
Variables (Rep Den : Type) (den : Rep -> Den).

Definition store := nat -> Rep.

(* a normalisation step applied to the representation at location l *)
Definition lazy_update (norm : Rep -> Rep) (l : nat) (s : store) : store := upd s l (norm (s l)).

Definition den_preserving (norm : Rep -> Rep) : Prop := forall r, den (norm r) = den r.

Theorem lazy_update_preserves_den norm l s : den_preserving norm ->
  forall k, den (lazy_update norm l s k) = den (s k).
Proof.
  intros H k. unfold lazy_update, upd. destruct (Nat.eqb_spec k l) as [->|]; [apply H|reflexivity].
Qed.

(* a binary operation whose implementation first normalises its const argument in place (as H79 widening,
   contains, == do), receiver x and argument y possibly the same location; [f] is the operation on representations,
   assumed to compute a function [F] of the denotations *)
Definition op_with_lazy_arg (norm : Rep -> Rep) (f : Rep -> Rep -> Rep) (x y : nat) (s : store) : store :=
  let s1 := lazy_update norm y s in upd s1 x (f (s1 x) (s1 y)).

Theorem op_with_lazy_arg_value norm f (F : Den -> Den -> Den) x y s :
  den_preserving norm -> (forall a b, den (f a b) = F (den a) (den b)) ->
  den (op_with_lazy_arg norm f x y s x) = F (den (s x)) (den (s y)) /\
  (forall k, k <> x -> den (op_with_lazy_arg norm f x y s k) = den (s k)).
Proof.
  intros H HF. unfold op_with_lazy_arg. split.
  - rewrite upd_same, HF, !lazy_update_preserves_den by exact H. reflexivity.
  - intros k Hk. rewrite upd_other by exact Hk. now apply lazy_update_preserves_den.
Qed.

(* aliased call = call on a fresh copy (at location c) of the argument *)
Theorem op_with_lazy_arg_alias_safe norm f F x c s :
  den_preserving norm -> (forall a b, den (f a b) = F (den a) (den b)) -> c <> x ->
  den (op_with_lazy_arg norm f x x s x) = den (op_with_lazy_arg norm f x c (upd s c (s x)) x).
Proof.
  intros H HF Hc.
  rewrite (proj1 (op_with_lazy_arg_value norm f F x x s H HF)).
  rewrite (proj1 (op_with_lazy_arg_value norm f F x c (upd s c (s x)) H HF)).
  rewrite upd_same, upd_other by congruence. reflexivity.
Qed.

End Lazy.

(* the hypothesis is satisfiable and not vacuous: sorting-like normalisation of a list seen as a multiset size *)
Example den_preserving_example : den_preserving (list nat) nat (@length nat) (@rev nat).
Proof. intros r. apply rev_length. Qed.
