(* C13 -- Swapping_Vector<T>::reserve / resize (src/Swapping_Vector_inlines.hh) and, on top of it,
   Linear_System<Row>::insert(const Row&) / insert_pending / insert(..., Recycle_Input) (src/Linear_System_templates.hh:212-345).

     reserve(c): if (impl.capacity() < c) { std::vector<T> new_impl; new_impl.reserve(..); new_impl.resize(impl.size());
                                            for (i = impl.size(); i-- > 0; ) swap(new_impl[i], impl[i]);
                                            swap(impl, new_impl); }            // the old block dies with new_impl
     resize(k) : reserve(k); impl.resize(k);

     insert(const Row& r)            : Row tmp(r, representation()); insert(tmp, Recycle_Input());
     insert_pending_no_ok(Row& r, R) : ... rows.resize(rows.size() + 1); swap(rows.back(), r);
     insert(Linear_System& y, R)     : for (i < y.num_rows()) x.insert_pending(y.rows[i], R); y.clear(); ...

   Elements live in BLOCKS of a heap; a reference to an element is a (block, index) pair; a block that has been
   released reads as nothing, so a reference kept across a reallocation is visibly dangling in the model. *)
From Coq Require Import List Arith Lia Bool.
Require Import PPLV.Values.Store.
Import ListNotations.

Section SV.
Variable T : Type.
Variable d : T.                         (* default-constructed element: what a moved-from / fresh slot holds *)

Fixpoint set_nth (i : nat) (l : list T) (v : T) : list T :=
  match l, i with
  | [], _ => []
  | _ :: r, 0 => v :: r
  | x :: r, S j => x :: set_nth j r v
  end.

Lemma set_nth_length i : forall l v, length (set_nth i l v) = length l.
Proof. induction i as [|j IH]; intros [|x r] v; cbn; auto. Qed.

Lemma nth_set_nth i : forall l v k, nth k (set_nth i l v) d = if Nat.eqb k i then (if Nat.ltb i (length l) then v else nth k l d) else nth k l d.
Proof.
  induction i as [|j IH]; intros [|x r] v k; cbn [set_nth length].
  - destruct (Nat.eqb k 0); reflexivity.
  - destruct k; reflexivity.
  - destruct (Nat.eqb k (S j)); reflexivity.
  - destruct k as [|k]; [reflexivity|]. cbn [nth]. rewrite IH. cbn [Nat.eqb].
    destruct (Nat.eqb k j); [|reflexivity].
    destruct (Nat.ltb_spec j (length r)); destruct (Nat.ltb_spec (S j) (S (length r))); try lia; reflexivity.
Qed.

(* the stealing loop: for (i = k; i-- > 0; ) swap(nw[i], od[i]) *)
Fixpoint steal (k : nat) (nw od : list T) : list T * list T :=
  match k with
  | 0 => (nw, od)
  | S j => steal j (set_nth j nw (nth j od d)) (set_nth j od (nth j nw d))
  end.

Lemma steal_spec k : forall nw od, k <= length nw -> k <= length od ->
  length (fst (steal k nw od)) = length nw /\ length (snd (steal k nw od)) = length od /\
  forall i, nth i (fst (steal k nw od)) d = (if Nat.ltb i k then nth i od d else nth i nw d) /\
            nth i (snd (steal k nw od)) d = (if Nat.ltb i k then nth i nw d else nth i od d).
Proof.
  induction k as [|j IH]; intros nw od L1 L2; cbn [steal].
  - cbn. repeat split; reflexivity.
  - destruct (IH (set_nth j nw (nth j od d)) (set_nth j od (nth j nw d))) as [A [B C]];
      rewrite ?set_nth_length; try lia.
    rewrite set_nth_length in A, B. split; [exact A|]. split; [exact B|].
    intros i. destruct (C i) as [C1 C2]. rewrite C1, C2, !nth_set_nth.
    destruct (Nat.ltb_spec i j); destruct (Nat.ltb_spec i (S j)); destruct (Nat.eqb_spec i j); try lia; try (split; reflexivity).
    subst. destruct (Nat.ltb_spec j (length nw)); destruct (Nat.ltb_spec j (length od)); try lia. split; reflexivity.
Qed.

Lemma nth_ext_d (l1 l2 : list T) : length l1 = length l2 -> (forall i, nth i l1 d = nth i l2 d) -> l1 = l2.
Proof. intros L H. apply (nth_ext l1 l2 d d L). intros i _. apply H. Qed.

Lemma steal_all nw od : length nw = length od ->
  steal (length od) nw od = (od, nw).
Proof.
  intros L. destruct (steal_spec (length od) nw od ltac:(lia) ltac:(lia)) as [A [B C]].
  destruct (steal (length od) nw od) as [x y] eqn:E. cbn [fst snd] in *. f_equal.
  - apply nth_ext_d; [lia|]. intros i. rewrite (proj1 (C i)).
    destruct (Nat.ltb_spec i (length od)); [reflexivity|]. rewrite !nth_overflow by lia. reflexivity.
  - apply nth_ext_d; [lia|]. intros i. rewrite (proj2 (C i)).
    destruct (Nat.ltb_spec i (length od)); [reflexivity|]. rewrite !nth_overflow by lia. reflexivity.
Qed.

(* ---- the vector on a heap of blocks ---- *)
Record st := { blocks : nat -> option (list T); next : nat }.

(* a vector object is the address of its current block *)
Definition content (s : st) (v : nat) : list T := match blocks s v with Some l => l | None => [] end.

(* reserve with reallocation decided by [grow] (capacity is not modelled: both outcomes are covered);
   returns the new state and the new block address of the vector *)
Definition reserve (grow : bool) (v : nat) (s : st) : st * nat :=
  if grow then
    let od := content s v in
    let '(nw', _) := steal (length od) (repeat d (length od)) od in
    ({| blocks := upd (upd (blocks s) v None) (next s) (Some nw'); next := S (next s) |}, next s)
  else (s, v).

(* std::vector::resize on the current block *)
Definition fit (k : nat) (l : list T) : list T := firstn k l ++ repeat d (k - length l).

Definition resize (grow : bool) (k : nat) (v : nat) (s : st) : st * nat :=
  let '(s1, v1) := reserve grow v s in
  ({| blocks := upd (blocks s1) v1 (Some (fit k (content s1 v1))); next := next s1 |}, v1).

(* reading through an element reference (block, index) *)
Definition deref (s : st) (r : nat * nat) : option T :=
  match blocks s (fst r) with Some l => nth_error l (snd r) | None => None end.

Lemma reserve_content grow v s : v < next s -> blocks s v <> None ->
  content (fst (reserve grow v s)) (snd (reserve grow v s)) = content s v.
Proof.
  intros L Hv. unfold reserve. destruct grow; [|reflexivity].
  rewrite steal_all by (now rewrite repeat_length). cbn. unfold content at 1. cbn. now rewrite upd_same.
Qed.

Theorem swap_vector_resize_preserves grow k v s : v < next s -> blocks s v <> None ->
  let '(s', v') := resize grow k v s in
  length (content s' v') = k /\
  (forall i, i < k -> i < length (content s v) -> nth i (content s' v') d = nth i (content s v) d) /\
  (forall i, length (content s v) <= i -> nth i (content s' v') d = d) /\
  (forall b, b <> v -> b < next s -> blocks s' b = blocks s b).
Proof.
  intros L Hv. unfold resize. pose proof (reserve_content grow v s L Hv) as RC.
  destruct (reserve grow v s) as [s1 v1] eqn:E. cbn [fst snd] in RC.
  assert (FR : forall b, b <> v -> b < next s -> b <> v1 /\ blocks s1 b = blocks s b).
  { intros b Hb Lb. unfold reserve in E. destruct grow.
    - rewrite steal_all in E by (now rewrite repeat_length). injection E as <- <-. cbn.
      split; [lia|]. rewrite !upd_other by lia. reflexivity.
    - injection E as <- <-. split; [exact Hb|reflexivity]. }
  assert (CC : content {| blocks := upd (blocks s1) v1 (Some (fit k (content s1 v1))); next := next s1 |} v1 = fit k (content s v)).
  { unfold content at 1. cbn [blocks]. rewrite upd_same. now rewrite RC. }
  rewrite CC. cbn [blocks].
  split; [|split; [|split]].
  - unfold fit. rewrite app_length, firstn_length, repeat_length. lia.
  - intros i Hi Hl. unfold fit. rewrite app_nth1 by (rewrite firstn_length; lia).
    rewrite <- (firstn_skipn k (content s v)) at 2. rewrite app_nth1 by (rewrite firstn_length; lia). reflexivity.
  - intros i Hi. unfold fit. destruct (le_lt_dec (length (firstn k (content s v))) i) as [G|G].
    + rewrite app_nth2 by exact G. destruct (le_lt_dec (k - length (content s v)) (i - length (firstn k (content s v)))) as [Q|Q].
      * rewrite nth_overflow; [reflexivity|]. now rewrite repeat_length.
      * apply nth_repeat.
    + rewrite firstn_length in G. lia.
  - intros b Hb Lb. destruct (FR b Hb Lb) as [N Eq]. rewrite upd_other by exact N. exact Eq.
Qed.

(* a reference into the block that was replaced is dangling *)
Theorem reference_dangles_after_reallocation k v s i : v < next s -> blocks s v <> None ->
  deref (fst (resize true k v s)) (v, i) = None.
Proof.
  intros L Hv. unfold resize, reserve.
  destruct (steal (length (content s v)) (repeat d (length (content s v))) (content s v)) as [nw' od'].
  cbn. unfold deref. cbn. rewrite upd_other by lia. rewrite upd_other by lia. now rewrite upd_same.
Qed.

(* ---- Linear_System::insert(const Row& r): r may refer INTO the system's own rows ---- *)

(* as written: copy first, then resize, then swap the copy into the new last slot *)
Definition insert_row (grow : bool) (v : nat) (r : nat * nat) (s : st) : st * nat :=
  match deref s r with
  | Some tmp =>
      let '(s1, v1) := resize grow (S (length (content s v))) v s in
      ({| blocks := upd (blocks s1) v1 (Some (set_nth (length (content s v)) (content s1 v1) tmp)); next := next s1 |}, v1)
  | None => (s, v)
  end.

(* the order that would be wrong: resize first, read the argument afterwards *)
Definition insert_row_late_read (grow : bool) (v : nat) (r : nat * nat) (s : st) : st * nat :=
  let '(s1, v1) := resize grow (S (length (content s v))) v s in
  match deref s1 r with
  | Some tmp => ({| blocks := upd (blocks s1) v1 (Some (set_nth (length (content s v)) (content s1 v1) tmp)); next := next s1 |}, v1)
  | None => (s1, v1)
  end.

Theorem insert_row_spec grow v r s x : v < next s -> blocks s v <> None -> deref s r = Some x ->
  let '(s', v') := insert_row grow v r s in content s' v' = content s v ++ [x].
Proof.
  intros L Hv D. unfold insert_row. rewrite D.
  pose proof (swap_vector_resize_preserves grow (S (length (content s v))) v s L Hv) as P.
  destruct (resize grow (S (length (content s v))) v s) as [s1 v1]. destruct P as [P1 [P2 [P3 _]]].
  unfold content at 1. cbn. rewrite upd_same.
  apply nth_ext_d.
  - rewrite set_nth_length, app_length, P1. cbn. lia.
  - intros i. rewrite nth_set_nth, P1.
    destruct (Nat.eqb_spec i (length (content s v))) as [->|Hi].
    + destruct (Nat.ltb_spec (length (content s v)) (S (length (content s v)))); [|lia].
      rewrite app_nth2 by lia. now rewrite Nat.sub_diag.
    + destruct (lt_dec i (length (content s v))) as [Q|Q].
      * rewrite app_nth1 by exact Q. apply P2; lia.
      * rewrite P3 by lia. rewrite nth_overflow; [reflexivity|]. rewrite app_length. cbn. lia.
Qed.

(* x.insert(x[k]) gives the same rows as x.insert(c) for a copy c of x[k] held anywhere else *)
Theorem insert_row_alias_safe grow v k c s x : v < next s -> blocks s v <> None ->
  deref s (v, k) = Some x -> deref s c = Some x ->
  content (fst (insert_row grow v (v, k) s)) (snd (insert_row grow v (v, k) s)) =
  content (fst (insert_row grow v c s)) (snd (insert_row grow v c s)).
Proof.
  intros L Hv D1 D2.
  pose proof (insert_row_spec grow v (v, k) s x L Hv D1) as A. pose proof (insert_row_spec grow v c s x L Hv D2) as B.
  destruct (insert_row grow v (v, k) s) as [s1 v1]. destruct (insert_row grow v c s) as [s2 v2]. cbn. now rewrite A, B.
Qed.

End SV.

(* the model can express the bug: reading the argument after the reallocation loses it *)
Example late_read_refuted :
  let s := {| blocks := fun b => if Nat.eqb b 0 then Some [5; 6] else None; next := 1 |} in
  content nat (fst (insert_row nat 0 true 0 (0, 1) s)) (snd (insert_row nat 0 true 0 (0, 1) s)) = [5; 6; 6] /\
  content nat (fst (insert_row_late_read nat 0 true 0 (0, 1) s)) (snd (insert_row_late_read nat 0 true 0 (0, 1) s)) = [5; 6; 0].
Proof. vm_compute. split; reflexivity. Qed.
