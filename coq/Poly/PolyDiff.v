(* poly_difference_assign: the smallest polyhedron (of the receiver's topology) containing the set difference.
   The difference x \ y is a finite union of "pieces" x /\ not c, one for each constraint c of y (an equality
   contributes its two strict sides).  Given generator systems for the non-empty pieces, their concatenation
   generates a set that contains the difference and is contained in every polyhedron containing it; for
   closed polyhedra the relaxed system of that hull is the smallest closed one. *)
From Coq Require Import List QArith ZArith Lia Lqa.
From PPLV Require Import FM Sys Gens PolyOps GensLeast PolyGenOps.
Import ListNotations.
Local Open Scope Q_scope.

Definition diff_pieces (x y : sys) : list sys := map (fun c => add_ineq c x) (neg_pieces y).

Theorem diff_pieces_exact x y p :
  (sat_sys x p /\ ~ sat_sys y p) <-> exists s, In s (diff_pieces x y) /\ sat_sys s p.
Proof.
  unfold diff_pieces. split.
  - intros [Hx Hy]. apply not_sat_sys_piece in Hy. destruct Hy as [c [Hc Sc]].
    exists (add_ineq c x). split; [apply (in_map (fun c0 => add_ineq c0 x)); exact Hc|]. apply sat_add_ineq. now split.
  - intros [s [Hs Ss]]. apply in_map_iff in Hs. destruct Hs as [c [<- Hc]].
    apply sat_add_ineq in Ss. destruct Ss as [Sc Sx]. split; [exact Sx|].
    apply not_sat_sys_piece. now exists c.
Qed.

Lemma in_gens_concat n (Gs : list (list gen)) G p : In G Gs -> in_gens n G p -> in_gens n (concat Gs) p.
Proof.
  induction Gs as [|G' Gs IH]; intros HIn Hp; [destruct HIn|].
  cbn [concat]. destruct HIn as [->|HIn].
  - now apply hull_upper_left.
  - apply hull_upper_right. now apply IH.
Qed.

Definition represents (n : nat) (G : list gen) (s : sys) : Prop := forall p, in_gens n G p <-> sat_sys s p.

(* every non-empty piece has a generator system among Gs  =>  the hull contains the difference *)
Theorem difference_contains n x y Gs p :
  (forall s, In s (diff_pieces x y) -> (exists q, sat_sys s q) -> exists G, In G Gs /\ represents n G s) ->
  sat_sys x p -> ~ sat_sys y p -> in_gens n (concat Gs) p.
Proof.
  intros Hrep Hx Hy.
  destruct (proj1 (diff_pieces_exact x y p) (conj Hx Hy)) as [s [Hs Ss]].
  destruct (Hrep s Hs (ex_intro _ p Ss)) as [G [HG R]].
  apply (in_gens_concat n Gs G p HG). now apply R.
Qed.

Definition hints_ok (n : nat) (x y : sys) (Gs : list (list gen)) : Prop :=
  forall G, In G Gs ->
    wf_gens G /\ (forall g, In g G -> (length (gcoefs g) <= n)%nat) /\ (exists p, in_gens n G p) /\
    exists s, In s (diff_pieces x y) /\ represents n G s.

(* every polyhedron (equalities, strict and non-strict inequalities) containing the difference contains the hull *)
Theorem difference_least n x y Gs (t : sys) :
  hints_ok n x y Gs -> wf_sys_dim n t ->
  (forall p, sat_sys x p -> ~ sat_sys y p -> sat_sys t p) ->
  forall p, in_gens n (concat Gs) p -> sat_sys t p.
Proof.
  intros HG Wt Ht. apply (hull_list_least n Gs t).
  - intros G HIn. destruct (HG G HIn) as [W [L [N _]]]. repeat split; assumption.
  - exact Wt.
  - intros G HIn q Hq. destruct (HG G HIn) as [_ [_ [_ [s [Hs R]]]]].
    apply R in Hq.
    destruct (proj2 (diff_pieces_exact x y q) (ex_intro _ s (conj Hs Hq))) as [A B]. now apply Ht.
Qed.

(* ---------- closed polyhedra ---------- *)
Definition closed_ineqs (t : sys) : Prop := forall c, In c (ineqs t) -> strict c = false.

Lemma relax_least_sys s t :
  (exists p0, sat_sys s p0) -> closed_ineqs t ->
  (forall p, sat_sys s p -> sat_sys t p) -> forall p, sat_sys (relax s) p -> sat_sys t p.
Proof.
  intros NE Ct Hall p Hp. split.
  - intros e He. apply eq_as_ineqs. split.
    + apply (relax_least s (ge_of e) NE eq_refl); [|exact Hp].
      intros q Hq. apply (eq_as_ineqs e q). now apply (proj1 (Hall q Hq)).
    + apply (relax_least s (le_of e) NE eq_refl); [|exact Hp].
      intros q Hq. apply (eq_as_ineqs e q). now apply (proj1 (Hall q Hq)).
  - intros c Hc. apply (relax_least s c NE (Ct c Hc)); [|exact Hp].
    intros q Hq. now apply (proj2 (Hall q Hq)).
Qed.

Theorem difference_closed_contains n x y Gs p :
  (forall s, In s (diff_pieces x y) -> (exists q, sat_sys s q) -> exists G, In G Gs /\ represents n G s) ->
  sat_sys x p -> ~ sat_sys y p -> sat_sys (relax (cons_of_gens n (concat Gs))) p.
Proof.
  intros Hrep Hx Hy. apply relax_superset. apply cons_of_gens_exact. now apply (difference_contains n x y).
Qed.

Theorem difference_closed_least n x y Gs (t : sys) :
  hints_ok n x y Gs -> Gs <> [] -> wf_sys_dim n t -> closed_ineqs t ->
  (forall p, sat_sys x p -> ~ sat_sys y p -> sat_sys t p) ->
  forall p, sat_sys (relax (cons_of_gens n (concat Gs))) p -> sat_sys t p.
Proof.
  intros HG NE Wt Ct Ht. apply relax_least_sys; [|exact Ct|].
  - destruct Gs as [|G Gs]; [now contradiction NE|].
    destruct (HG G (or_introl eq_refl)) as [_ [_ [[p0 Hp0] _]]].
    exists p0. apply cons_of_gens_exact. apply (in_gens_concat n (G :: Gs) G p0 (or_introl eq_refl) Hp0).
  - intros q Hq. apply cons_of_gens_exact in Hq. now apply (difference_least n x y Gs t HG Wt Ht).
Qed.

(* no non-empty piece: the difference is empty *)
Theorem difference_empty x y :
  (forall s, In s (diff_pieces x y) -> ~ exists q, sat_sys s q) -> forall p, sat_sys x p -> sat_sys y p.
Proof.
  intros H p Hx. destruct (sat_sys_dec y p) as [D|D]; [exact D|]. exfalso.
  destruct (proj1 (diff_pieces_exact x y p) (conj Hx D)) as [s [Hs Ss]]. apply (H s Hs). now exists p.
Qed.
