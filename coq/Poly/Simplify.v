(* simplify_using_context_assign: the result is a meet-preserving enlargement of the receiver with respect to the
   context, and the returned flag says whether that meet is non-empty.  The library is free in WHICH enlargement it
   returns (it tries to use few constraints); what the documentation fixes, and what is decided here, is the relation. *)
From Coq Require Import List QArith ZArith Lia Lqa.
From PPLV Require Import FM Sys Gens PolyOps.
Import ListNotations.
Local Open Scope Q_scope.

Definition meet_preserving_enlargement (x y r : sys) : Prop :=
  (forall p, sat_sys x p -> sat_sys r p) /\
  (forall p, sat_sys r p -> sat_sys y p -> sat_sys x p).

Definition suc_check (n : nat) (x y r : sys) : option bool :=
  match incl_sys n x r, incl_sys n (union_sys r y) x with
  | Some a, Some b => Some (a && b)
  | _, _ => None
  end.

Theorem suc_check_exact n x y r b :
  suc_check n x y r = Some b -> (b = true <-> meet_preserving_enlargement x y r).
Proof.
  unfold suc_check.
  destruct (incl_sys n x r) as [a|] eqn:E1; [|discriminate].
  destruct (incl_sys n (union_sys r y) x) as [c|] eqn:E2; [|discriminate]. intros [= <-].
  rewrite andb_true_iff, (incl_sys_exact _ _ _ _ E1), (incl_sys_exact _ _ _ _ E2).
  unfold meet_preserving_enlargement. split.
  - intros [H1 H2]. split; [exact H1|]. intros p Hr Hy. apply H2. apply meet_spec. now split.
  - intros [H1 H2]. split; [exact H1|]. intros p Hp. apply meet_spec in Hp. destruct Hp as [Hr Hy]. now apply H2.
Qed.

(* the meet is preserved as a set *)
Lemma enlargement_meet x y r :
  meet_preserving_enlargement x y r -> forall p, sat_sys (union_sys r y) p <-> sat_sys (union_sys x y) p.
Proof.
  intros [H1 H2] p. rewrite !meet_spec. split.
  - intros [Hr Hy]. split; [now apply H2|exact Hy].
  - intros [Hx Hy]. split; [now apply H1|exact Hy].
Qed.

(* the flag: false iff the receiver and the context are disjoint *)
Definition suc_flag (n : nat) (x y : sys) : option bool := nonempty_sys n (union_sys x y).

Theorem suc_flag_exact n x y b :
  suc_flag n x y = Some b -> (b = true <-> exists p, sat_sys x p /\ sat_sys y p).
Proof.
  unfold suc_flag. intros H. rewrite (nonempty_sys_exact _ _ _ H). split.
  - intros [p Hp]. exists p. now apply meet_spec.
  - intros [p Hp]. exists p. now apply meet_spec.
Qed.
