(* Reference implementations, on constraint systems, of the set-transforming operations of the
   polyhedron interface, each with a theorem stating that it computes exactly the documented
   point set (for every input).  Everything is built from the exact elimination of Base/Sys.v.

   Conventions: n is the space dimension of the receiver; index n is used as a fresh coordinate
   ("the old value of x_v"); [fresh n s] says the system does not mention coordinate n. *)
From Coq Require Import List ZArith QArith Qminmax Lia Lqa Bool Setoid Morphisms.
Require Import PPLV.Base.FM PPLV.Base.Sys PPLV.Base.Gens.
Import ListNotations.
Local Open Scope Q_scope.

(* ---------- vectors ---------- *)
Definition unitv (k : nat) : list Z := repeat 0%Z k ++ [1%Z].

Lemma dot_unitv k p : dot (unitv k) p 0 == p k.
Proof.
  unfold unitv. rewrite dot_app, dot_repeat0, repeat_length. cbn [dot Nat.add].
  change (inject_Z 1) with 1. lra.
Qed.

Lemma nth_unitv k j : nth j (unitv k) 0%Z = if Nat.eqb j k then 1%Z else 0%Z.
Proof.
  unfold unitv. destruct (Nat.eqb_spec j k) as [->|Hne].
  - rewrite app_nth2; rewrite repeat_length; [|lia]. now rewrite Nat.sub_diag.
  - destruct (Nat.lt_ge_cases j k).
    + rewrite app_nth1 by (rewrite repeat_length; lia). apply nth_repeat.
    + rewrite app_nth2; rewrite repeat_length; [|lia].
      destruct (j - k)%nat as [|[|t]] eqn:E; [lia| |]; reflexivity.
Qed.

(* move the coefficient of x_v to position n *)
Definition move_col (v n : nat) (l : list Z) : list Z :=
  let a := nth v l 0%Z in vadd l (vadd (vscale (- a) (unitv v)) (vscale a (unitv n))).

Lemma dot_move_col v n l p :
  dot (move_col v n l) p 0 == dot l p 0 + inject_Z (nth v l 0%Z) * (p n - p v).
Proof.
  unfold move_col. rewrite !dot_vadd, !dot_vscale, !dot_unitv, inject_Z_opp. ring.
Qed.

Definition move_c (v n : nat) (c : cstr) : cstr :=
  {| coefs := move_col v n (coefs c); cst := cst c; strict := strict c |}.
Definition move_e (v n : nat) (e : lin) : lin :=
  {| lcoefs := move_col v n (lcoefs e); lcst := lcst e |}.
Definition move_sys (v n : nat) (s : sys) : sys :=
  {| eqs := map (move_e v n) (eqs s); ineqs := map (move_c v n) (ineqs s) |}.

Lemma eval_move_c v n c p : eval (move_c v n c) p == eval c (upd p v (p n)).
Proof.
  rewrite eval_upd. unfold eval, move_c, coef; cbn [coefs cst]. rewrite dot_move_col. ring.
Qed.

Lemma leval_move_e v n e p : leval (move_e v n e) p == leval e (upd p v (p n)).
Proof.
  rewrite leval_upd. unfold leval, move_e, lcoef; cbn [lcoefs lcst]. rewrite dot_move_col. ring.
Qed.

Lemma sat_move_sys v n s p : sat_sys (move_sys v n s) p <-> sat_sys s (upd p v (p n)).
Proof.
  unfold sat_sys, move_sys, sat_eqs, sat_all; cbn [eqs ineqs]. split.
  - intros [H1 H2]. split.
    + intros e He. rewrite <- leval_move_e. apply H1. now apply in_map.
    + intros c Hc. specialize (H2 _ (in_map (move_c v n) _ _ Hc)). unfold sat in *.
      pose proof (eval_move_c v n c p) as E. change (strict (move_c v n c)) with (strict c) in H2.
      destruct (strict c); lra.
  - intros [H1 H2]. split.
    + intros e He. apply in_map_iff in He. destruct He as [e0 [<- He0]]. rewrite leval_move_e. now apply H1.
    + intros c Hc. apply in_map_iff in Hc. destruct Hc as [c0 [<- Hc0]]. specialize (H2 _ Hc0). unfold sat in *.
      pose proof (eval_move_c v n c0 p) as E. change (strict (move_c v n c0)) with (strict c0).
      destruct (strict c0); lra.
Qed.

(* ---------- freshness ---------- *)
Definition fresh (n : nat) (s : sys) : Prop :=
  (forall e, In e (eqs s) -> lcoef e n = 0%Z) /\ (forall c, In c (ineqs s) -> coef c n = 0%Z).

Definition fresh_b (n : nat) (s : sys) : bool :=
  forallb (fun e => Z.eqb (lcoef e n) 0) (eqs s) && forallb (fun c => Z.eqb (coef c n) 0) (ineqs s).

Lemma fresh_b_ok n s : fresh_b n s = true -> fresh n s.
Proof.
  unfold fresh_b, fresh. rewrite andb_true_iff, !forallb_forall. intros [H1 H2].
  split; intros x Hx; apply Z.eqb_eq; auto.
Qed.

Lemma fresh_indep n s p w : fresh n s -> (sat_sys s (upd p n w) <-> sat_sys s p).
Proof.
  intros [F1 F2]. unfold sat_sys, sat_eqs, sat_all. split; intros [H1 H2]; split.
  - intros e He. rewrite <- (leval_indep e p n w (F1 e He)). now apply H1.
  - intros c Hc. specialize (H2 c Hc). unfold sat in *. pose proof (sat_indep_c c p n w (F2 c Hc)) as E.
    destruct (strict c); lra.
  - intros e He. rewrite (leval_indep e p n w (F1 e He)). now apply H1.
  - intros c Hc. specialize (H2 c Hc). unfold sat in *. pose proof (sat_indep_c c p n w (F2 c Hc)) as E.
    destruct (strict c); lra.
Qed.

Lemma upd_comm p i j a b : i <> j -> peq (upd (upd p i a) j b) (upd (upd p j b) i a).
Proof.
  intros H k. unfold upd. destruct (Nat.eqb_spec k j), (Nat.eqb_spec k i); try reflexivity. lia.
Qed.

Ltac upd_tac :=
  unfold upd;
  repeat match goal with |- context [Nat.eqb ?a ?b] => destruct (Nat.eqb_spec a b) end;
  subst; try reflexivity; try lia.

(* ---------- union of systems = intersection of sets ---------- *)
Definition union_sys (a b : sys) : sys := {| eqs := eqs a ++ eqs b; ineqs := ineqs a ++ ineqs b |}.

Theorem meet_spec a b p : sat_sys (union_sys a b) p <-> sat_sys a p /\ sat_sys b p.
Proof.
  unfold sat_sys, union_sys, sat_eqs, sat_all; cbn [eqs ineqs]. split.
  - intros [H1 H2]. repeat split; intros x Hx; (apply H1 || apply H2); apply in_or_app; auto.
  - intros [[H1 H2] [H3 H4]]. split; intros x Hx; apply in_app_or in Hx; destruct Hx; auto.
Qed.

(* ---------- the "exists an old value of x_v" construction ---------- *)
Definition exists_old (v n : nat) (s rel : sys) : sys := elim_sys n (union_sys (move_sys v n s) rel).

Theorem exists_old_spec v n s rel q :
  fresh n s -> v <> n ->
  (sat_sys (exists_old v n s rel) q <-> exists w, sat_sys s (upd q v w) /\ sat_sys rel (upd q n w)).
Proof.
  intros F Hvn. unfold exists_old. rewrite <- elim_sys_exact.
  assert (X : forall w, sat_sys (move_sys v n s) (upd q n w) <-> sat_sys s (upd q v w)).
  { intros w. rewrite sat_move_sys.
    assert (E : upd q n w n == w) by (unfold upd; now rewrite Nat.eqb_refl).
    split; intros H.
    - apply (fresh_indep n s (upd q v w) w F).
      apply (sat_sys_ext s (upd (upd q n w) v (upd q n w n))); [|exact H].
      intros k. upd_tac.
    - apply (fresh_indep n s (upd q v w) w F) in H.
      apply (sat_sys_ext s (upd (upd q v w) n w)); [|exact H].
      intros k. upd_tac. }
  split; intros [w Hw]; exists w.
  - apply meet_spec in Hw. destruct Hw as [H1 H2]. split; [now apply X|exact H2].
  - apply meet_spec. destruct Hw as [H1 H2]. split; [now apply X|exact H2].
Qed.

(* ---------- relation symbols ---------- *)
Inductive relsym := RLT | RLE | REQ | RGE | RGT.

Definition rel_holds (r : relsym) (x y : Q) : Prop :=
  match r with RLT => x < y | RLE => x <= y | REQ => x == y | RGE => y <= x | RGT => y < x end.

Global Instance rel_holds_proper r : Proper (Qeq ==> Qeq ==> iff) (rel_holds r).
Proof. intros x x' Hx y y' Hy. destruct r; unfold rel_holds; rewrite Hx, Hy; reflexivity. Qed.

Definition flip (r : relsym) : relsym :=
  match r with RLT => RGT | RLE => RGE | REQ => REQ | RGE => RLE | RGT => RLT end.

Definition lneg (l : lin) : lin := {| lcoefs := map Z.opp (lcoefs l); lcst := (- lcst l)%Z |}.
Lemma leval_lneg l p : leval (lneg l) p == - leval l p.
Proof. unfold leval, lneg; cbn [lcoefs lcst]. rewrite dot_opp, inject_Z_opp. ring. Qed.

Definition c_of (l : lin) (st : bool) : cstr := {| coefs := lcoefs l; cst := lcst l; strict := st |}.
Lemma sat_c_of l st p : sat (c_of l st) p <-> if st then 0 < leval l p else 0 <= leval l p.
Proof. unfold sat, c_of, eval, leval; cbn [coefs cst strict]. tauto. Qed.

(* the system  { l  r  0 } *)
Definition rel_sys (r : relsym) (l : lin) : sys :=
  match r with
  | REQ => {| eqs := [l]; ineqs := [] |}
  | RGE => {| eqs := []; ineqs := [c_of l false] |}
  | RGT => {| eqs := []; ineqs := [c_of l true] |}
  | RLE => {| eqs := []; ineqs := [c_of (lneg l) false] |}
  | RLT => {| eqs := []; ineqs := [c_of (lneg l) true] |}
  end.

Lemma sat_one_ineq c p : sat_sys {| eqs := []; ineqs := [c] |} p <-> sat c p.
Proof.
  unfold sat_sys, sat_eqs, sat_all; cbn [eqs ineqs In]. split.
  - intros [_ H]. apply H. now left.
  - intros H. split; [intros e []|]. intros c' [<-|[]]. exact H.
Qed.

Lemma sat_rel_sys r l p : sat_sys (rel_sys r l) p <-> rel_holds r (leval l p) 0.
Proof.
  destruct r; cbn [rel_sys rel_holds].
  - rewrite sat_one_ineq, sat_c_of, leval_lneg. split; intros; lra.
  - rewrite sat_one_ineq, sat_c_of, leval_lneg. split; intros; lra.
  - unfold sat_sys, sat_eqs, sat_all; cbn [eqs ineqs In]. split.
    + intros [H _]. apply H. now left.
    + intros H. split; [|intros c []]. intros e [<-|[]]. exact H.
  - rewrite sat_one_ineq, sat_c_of. tauto.
  - rewrite sat_one_ineq, sat_c_of. tauto.
Qed.

(* linear forms *)
Definition ladd (a b : lin) : lin := {| lcoefs := vadd (lcoefs a) (lcoefs b); lcst := (lcst a + lcst b)%Z |}.
Definition lscale (m : Z) (a : lin) : lin := {| lcoefs := vscale m (lcoefs a); lcst := (m * lcst a)%Z |}.
Definition lvar (k : nat) : lin := {| lcoefs := unitv k; lcst := 0 |}.

Lemma leval_ladd a b p : leval (ladd a b) p == leval a p + leval b p.
Proof. unfold leval, ladd; cbn [lcoefs lcst]. rewrite dot_vadd, inject_Z_plus. ring. Qed.
Lemma leval_lscale m a p : leval (lscale m a) p == inject_Z m * leval a p.
Proof. unfold leval, lscale; cbn [lcoefs lcst]. rewrite dot_vscale, inject_Z_mult. ring. Qed.
Lemma leval_lvar k p : leval (lvar k) p == p k.
Proof. unfold leval, lvar; cbn [lcoefs lcst]. rewrite dot_unitv. change (inject_Z 0) with 0. ring. Qed.

(* d * x_k - e *)
Definition dvar_minus (d : Z) (k : nat) (e : lin) : lin := ladd (lscale d (lvar k)) (lneg e).
Lemma leval_dvar_minus d k e p : leval (dvar_minus d k e) p == inject_Z d * p k - leval e p.
Proof. unfold dvar_minus. rewrite leval_ladd, leval_lscale, leval_lvar, leval_lneg. ring. Qed.

(* ---------- images:  x_v'  r  e(x) / d   (r = REQ: affine image) ---------- *)
(* the relation is stated on d * x_v' versus e(old point), which for d > 0 is the documented one;
   callers normalise the sign of d with [norm_den]. *)
Definition gen_image (v n : nat) (r : relsym) (e : lin) (d : Z) (s : sys) : sys :=
  exists_old v n s (rel_sys r (dvar_minus d v (move_e v n e))).

Theorem gen_image_spec v n r e d s q :
  fresh n s -> lcoef e n = 0%Z -> v <> n ->
  (sat_sys (gen_image v n r e d s) q <->
   exists w, sat_sys s (upd q v w) /\ rel_holds r (inject_Z d * q v) (leval e (upd q v w))).
Proof.
  intros F Fe Hvn. unfold gen_image. rewrite (exists_old_spec v n s _ q F Hvn).
  split; intros [w [H1 H2]]; exists w; (split; [exact H1|]).
  - apply sat_rel_sys in H2. rewrite leval_dvar_minus, leval_move_e in H2.
    assert (E1 : upd q n w v == q v). { unfold upd. destruct (Nat.eqb_spec v n); [lia|reflexivity]. }
    assert (E2 : leval e (upd (upd q n w) v (upd q n w n)) == leval e (upd q v w)).
    { rewrite <- (leval_indep e (upd q v w) n w Fe). apply leval_ext. intros k. upd_tac. }
    rewrite E1, E2 in H2. destruct r; unfold rel_holds in *; lra.
  - apply sat_rel_sys. rewrite leval_dvar_minus, leval_move_e.
    assert (E1 : upd q n w v == q v). { unfold upd. destruct (Nat.eqb_spec v n); [lia|reflexivity]. }
    assert (E2 : leval e (upd (upd q n w) v (upd q n w n)) == leval e (upd q v w)).
    { rewrite <- (leval_indep e (upd q v w) n w Fe). apply leval_ext. intros k. upd_tac. }
    rewrite E1, E2. destruct r; unfold rel_holds in *; lra.
Qed.

(* ---------- preimages:  { q | exists w, s(q[v:=w]) and  w  r  e(q)/d } ---------- *)
Definition gen_preimage (v n : nat) (r : relsym) (e : lin) (d : Z) (s : sys) : sys :=
  exists_old v n s (rel_sys r (dvar_minus d n e)).

Theorem gen_preimage_spec v n r e d s q :
  fresh n s -> lcoef e n = 0%Z -> v <> n ->
  (sat_sys (gen_preimage v n r e d s) q <->
   exists w, sat_sys s (upd q v w) /\ rel_holds r (inject_Z d * w) (leval e q)).
Proof.
  intros F Fe Hvn. unfold gen_preimage. rewrite (exists_old_spec v n s _ q F Hvn).
  assert (E1 : forall w, upd q n w n == w). { intros w. unfold upd. now rewrite Nat.eqb_refl. }
  split; intros [w [H1 H2]]; exists w; (split; [exact H1|]).
  - apply sat_rel_sys in H2. rewrite leval_dvar_minus, (leval_indep e q n w Fe), E1 in H2.
    destruct r; unfold rel_holds in *; lra.
  - apply sat_rel_sys. rewrite leval_dvar_minus, (leval_indep e q n w Fe), E1.
    destruct r; unfold rel_holds in *; lra.
Qed.

(* sign normalisation of the denominator: x r e/d  <->  (d x) r' e  with r' = r or flip r *)
Definition norm_rel (r : relsym) (d : Z) : relsym := if Z.ltb d 0 then flip r else r.

Lemma rel_scaled r d x y : d <> 0%Z ->
  (rel_holds r x (y / inject_Z d) <-> rel_holds (norm_rel r d) (inject_Z d * x) y).
Proof.
  intros Hd. unfold norm_rel. set (D := inject_Z d).
  assert (E : y / D * D == y).
  { field. unfold D. intros H. apply Hd. now apply (proj1 (inject_Z_injective d 0%Z)). }
  set (z := y / D) in *. clearbody z.
  destruct (Z.ltb_spec d 0) as [Hlt|Hge].
  - assert (D < 0) by (apply inj_neg; lia). destruct r; unfold rel_holds, flip; split; intros; nra.
  - assert (0 < D) by (apply inj_pos; lia). destruct r; unfold rel_holds; split; intros; nra.
Qed.

(* the documented affine image / preimage of  x_v := e / d *)
Definition affine_image (v n : nat) (e : lin) (d : Z) (s : sys) : sys := gen_image v n REQ e d s.
Definition affine_preimage (v n : nat) (e : lin) (d : Z) (s : sys) : sys := gen_preimage v n REQ e d s.

Theorem affine_image_spec v n e d s q :
  fresh n s -> lcoef e n = 0%Z -> v <> n -> d <> 0%Z ->
  (sat_sys (affine_image v n e d s) q <->
   exists p, sat_sys s p /\ peq q (upd p v (leval e p / inject_Z d))).
Proof.
  intros F Fe Hvn Hd. unfold affine_image. rewrite (gen_image_spec v n REQ e d s q F Fe Hvn).
  assert (Hne : ~ inject_Z d == 0) by (intros H; apply Hd; now apply (proj1 (inject_Z_injective d 0%Z))).
  split.
  - intros [w [H1 H2]]. exists (upd q v w). split; [exact H1|]. cbn [rel_holds] in H2.
    intros k. unfold upd at 1. destruct (Nat.eqb_spec k v) as [->|Hk].
    + rewrite <- H2. field. exact Hne.
    + unfold upd. destruct (Nat.eqb_spec k v); [lia|reflexivity].
  - intros [p [H1 H2]]. exists (p v). split.
    + apply (sat_sys_ext s p); [|exact H1]. intros k. unfold upd. destruct (Nat.eqb_spec k v) as [->|Hk]; [reflexivity|].
      specialize (H2 k). unfold upd in H2. destruct (Nat.eqb_spec k v); [lia|]. now symmetry.
    + cbn [rel_holds]. assert (E : leval e (upd q v (p v)) == leval e p).
      { apply leval_ext. intros k. unfold upd. destruct (Nat.eqb_spec k v) as [->|Hk]; [reflexivity|].
        specialize (H2 k). unfold upd in H2. destruct (Nat.eqb_spec k v); [lia|]. exact H2. }
      rewrite E. specialize (H2 v). unfold upd in H2. rewrite Nat.eqb_refl in H2. rewrite H2. field. exact Hne.
Qed.

Theorem affine_preimage_spec v n e d s q :
  fresh n s -> lcoef e n = 0%Z -> v <> n -> d <> 0%Z ->
  (sat_sys (affine_preimage v n e d s) q <-> sat_sys s (upd q v (leval e q / inject_Z d))).
Proof.
  intros F Fe Hvn Hd. unfold affine_preimage. rewrite (gen_preimage_spec v n REQ e d s q F Fe Hvn).
  assert (Hne : ~ inject_Z d == 0) by (intros H; apply Hd; now apply (proj1 (inject_Z_injective d 0%Z))).
  split.
  - intros [w [H1 H2]]. cbn [rel_holds] in H2. apply (sat_sys_ext s (upd q v w)); [|exact H1].
    intros k. unfold upd. destruct (Nat.eqb_spec k v); [|reflexivity]. rewrite <- H2. field. exact Hne.
  - intros H. exists (leval e q / inject_Z d). split; [exact H|]. cbn [rel_holds]. field. exact Hne.
Qed.

(* generalized images with the documented relation  x_v' r e/d  (d <> 0) *)
Definition generalized_affine_image (v n : nat) (r : relsym) (e : lin) (d : Z) (s : sys) : sys :=
  gen_image v n (norm_rel r d) e d s.
Definition generalized_affine_preimage (v n : nat) (r : relsym) (e : lin) (d : Z) (s : sys) : sys :=
  gen_preimage v n (norm_rel r d) e d s.

Theorem generalized_affine_image_spec v n r e d s q :
  fresh n s -> lcoef e n = 0%Z -> v <> n -> d <> 0%Z ->
  (sat_sys (generalized_affine_image v n r e d s) q <->
   exists w, sat_sys s (upd q v w) /\ rel_holds r (q v) (leval e (upd q v w) / inject_Z d)).
Proof.
  intros F Fe Hvn Hd. unfold generalized_affine_image. rewrite (gen_image_spec v n _ e d s q F Fe Hvn).
  split; intros [w [H1 H2]]; exists w; (split; [exact H1|]); now apply (rel_scaled r d _ _ Hd).
Qed.

Theorem generalized_affine_preimage_spec v n r e d s q :
  fresh n s -> lcoef e n = 0%Z -> v <> n -> d <> 0%Z ->
  (sat_sys (generalized_affine_preimage v n r e d s) q <->
   exists w, sat_sys s (upd q v w) /\ rel_holds r w (leval e q / inject_Z d)).
Proof.
  intros F Fe Hvn Hd. unfold generalized_affine_preimage. rewrite (gen_preimage_spec v n _ e d s q F Fe Hvn).
  split; intros [w [H1 H2]]; exists w; (split; [exact H1|]); now apply (rel_scaled r d _ _ Hd).
Qed.

(* bounded affine image:  lb/d <= x_v' <= ub/d,  bounds evaluated on the old point *)
Definition bounded_affine_image (v n : nat) (lb ub : lin) (d : Z) (s : sys) : sys :=
  exists_old v n s (union_sys (rel_sys (norm_rel RGE d) (dvar_minus d v (move_e v n lb)))
                              (rel_sys (norm_rel RLE d) (dvar_minus d v (move_e v n ub)))).

Theorem bounded_affine_image_spec v n lb ub d s q :
  fresh n s -> lcoef lb n = 0%Z -> lcoef ub n = 0%Z -> v <> n -> d <> 0%Z ->
  (sat_sys (bounded_affine_image v n lb ub d s) q <->
   exists w, sat_sys s (upd q v w) /\
             leval lb (upd q v w) / inject_Z d <= q v /\ q v <= leval ub (upd q v w) / inject_Z d).
Proof.
  intros F Fl Fu Hvn Hd. unfold bounded_affine_image. rewrite (exists_old_spec v n s _ q F Hvn).
  assert (E1 : forall w, upd q n w v == q v). { intros w. unfold upd. destruct (Nat.eqb_spec v n); [lia|reflexivity]. }
  assert (E2 : forall e w, lcoef e n = 0%Z -> leval e (upd (upd q n w) v (upd q n w n)) == leval e (upd q v w)).
  { intros e w Fe. rewrite <- (leval_indep e (upd q v w) n w Fe). apply leval_ext. intros k. upd_tac. }
  split; intros [w [H1 H2]]; exists w; (split; [exact H1|]).
  - apply meet_spec in H2. destruct H2 as [A B]. apply sat_rel_sys in A, B.
    rewrite leval_dvar_minus, leval_move_e, E1, E2 in A, B by assumption.
    split.
    + apply (rel_scaled RGE d (q v) _ Hd). destruct (norm_rel RGE d); unfold rel_holds in *; lra.
    + apply (rel_scaled RLE d (q v) _ Hd). destruct (norm_rel RLE d); unfold rel_holds in *; lra.
  - destruct H2 as [A B]. apply meet_spec. split; apply sat_rel_sys;
    rewrite leval_dvar_minus, leval_move_e, E1, E2 by assumption.
    + apply (rel_scaled RGE d (q v) _ Hd) in A. destruct (norm_rel RGE d); unfold rel_holds in *; lra.
    + apply (rel_scaled RLE d (q v) _ Hd) in B. destruct (norm_rel RLE d); unfold rel_holds in *; lra.
Qed.

(* bounded affine preimage:  { q | exists w, s(q[v:=w]) and lb(q)/d <= w <= ub(q)/d } *)
Definition bounded_affine_preimage (v n : nat) (lb ub : lin) (d : Z) (s : sys) : sys :=
  exists_old v n s (union_sys (rel_sys (norm_rel RGE d) (dvar_minus d n lb))
                              (rel_sys (norm_rel RLE d) (dvar_minus d n ub))).

Theorem bounded_affine_preimage_spec v n lb ub d s q :
  fresh n s -> lcoef lb n = 0%Z -> lcoef ub n = 0%Z -> v <> n -> d <> 0%Z ->
  (sat_sys (bounded_affine_preimage v n lb ub d s) q <->
   exists w, sat_sys s (upd q v w) /\ leval lb q / inject_Z d <= w /\ w <= leval ub q / inject_Z d).
Proof.
  intros F Fl Fu Hvn Hd. unfold bounded_affine_preimage. rewrite (exists_old_spec v n s _ q F Hvn).
  assert (E1 : forall w, upd q n w n == w). { intros w. unfold upd. now rewrite Nat.eqb_refl. }
  split; intros [w [H1 H2]]; exists w; (split; [exact H1|]).
  - apply meet_spec in H2. destruct H2 as [A B]. apply sat_rel_sys in A, B.
    rewrite leval_dvar_minus, E1 in A, B. rewrite (leval_indep lb q n w Fl) in A. rewrite (leval_indep ub q n w Fu) in B.
    split.
    + apply (rel_scaled RGE d w _ Hd). destruct (norm_rel RGE d); unfold rel_holds in *; lra.
    + apply (rel_scaled RLE d w _ Hd). destruct (norm_rel RLE d); unfold rel_holds in *; lra.
  - destruct H2 as [A B]. apply meet_spec. split; apply sat_rel_sys; rewrite leval_dvar_minus, E1.
    + rewrite (leval_indep lb q n w Fl). apply (rel_scaled RGE d w _ Hd) in A. destruct (norm_rel RGE d); unfold rel_holds in *; lra.
    + rewrite (leval_indep ub q n w Fu). apply (rel_scaled RLE d w _ Hd) in B. destruct (norm_rel RLE d); unfold rel_holds in *; lra.
Qed.

(* ---------- cylindrification and removal of the higher dimensions ---------- *)
Definition unconstrain (v : nat) (s : sys) : sys := elim_sys v s.
Theorem unconstrain_spec v s q : sat_sys (unconstrain v s) q <-> exists w, sat_sys s (upd q v w).
Proof. unfold unconstrain. symmetry. apply elim_sys_exact. Qed.

Definition unconstrain_set (vs : list nat) (s : sys) : sys := elim_set vs s.
Theorem unconstrain_set_spec vs s q :
  sat_sys (unconstrain_set vs s) q <-> exists p, (forall i, ~ In i vs -> p i == q i) /\ sat_sys s p.
Proof. unfold unconstrain_set. symmetry. apply elim_set_exact. Qed.

(* remove_higher_space_dimensions: project on the first k coordinates *)
Definition remove_higher (k n : nat) (s : sys) : sys := elim_set (seq k (n - k)) s.
Theorem remove_higher_spec k n s q :
  sat_sys (remove_higher k n s) q <->
  exists p, (forall i, (i < k \/ n <= i)%nat -> p i == q i) /\ sat_sys s p.
Proof.
  unfold remove_higher. rewrite <- elim_set_exact. split; intros [p [H1 H2]]; exists p; (split; [|exact H2]).
  - intros i Hi. apply H1. rewrite in_seq. lia.
  - intros i Hi. apply H1. rewrite in_seq in Hi. lia.
Qed.

(* add_space_dimensions_and_project: the new coordinates n .. n+m-1 are 0 *)
Definition project_dims (n m : nat) (s : sys) : sys :=
  union_sys s {| eqs := map lvar (seq n m); ineqs := [] |}.
Theorem project_dims_spec n m s q :
  sat_sys (project_dims n m s) q <-> sat_sys s q /\ forall i, (n <= i < n + m)%nat -> q i == 0.
Proof.
  unfold project_dims. rewrite meet_spec. unfold sat_sys at 2, sat_eqs, sat_all; cbn [eqs ineqs]. split.
  - intros [H1 [H2 _]]. split; [exact H1|]. intros i Hi. rewrite <- (leval_lvar i q). apply H2.
    apply in_map. apply in_seq. lia.
  - intros [H1 H2]. split; [exact H1|]. split; [|intros c []].
    intros e He. apply in_map_iff in He. destruct He as [i [<- Hi]]. rewrite leval_lvar. apply H2. apply in_seq in Hi. lia.
Qed.

(* ---------- topological closure of the constraint description ---------- *)
Definition relax_c (c : cstr) : cstr := {| coefs := coefs c; cst := cst c; strict := false |}.
Definition relax (s : sys) : sys := {| eqs := eqs s; ineqs := map relax_c (ineqs s) |}.

Lemma relax_superset s p : sat_sys s p -> sat_sys (relax s) p.
Proof.
  intros [H1 H2]. split; [exact H1|]. intros c Hc. cbn [relax ineqs] in Hc. apply in_map_iff in Hc.
  destruct Hc as [c0 [<- Hc0]]. specialize (H2 _ Hc0). unfold sat, relax_c, eval in *; cbn [coefs cst strict] in *.
  destruct (strict c0); lra.
Qed.

(* segment lemma: from a point of the set towards a point of the relaxed set, every point except
   possibly the far end is in the set *)
Definition mix (t : Q) (p0 p1 : point) : point := fun i => t * p0 i + (1 - t) * p1 i.

Lemma dot_mix l t p0 p1 : forall i, dot l (mix t p0 p1) i == t * dot l p0 i + (1 - t) * dot l p1 i.
Proof. induction l as [|x l IH]; intros i; cbn [dot]; [ring|]. rewrite IH. unfold mix. ring. Qed.

Lemma eval_mix c t p0 p1 : eval c (mix t p0 p1) == t * eval c p0 + (1 - t) * eval c p1.
Proof. unfold eval. rewrite dot_mix. ring. Qed.
Lemma leval_mix e t p0 p1 : leval e (mix t p0 p1) == t * leval e p0 + (1 - t) * leval e p1.
Proof. unfold leval. rewrite dot_mix. ring. Qed.

Theorem segment s p0 p1 t :
  sat_sys s p0 -> sat_sys (relax s) p1 -> 0 < t -> t <= 1 -> sat_sys s (mix t p0 p1).
Proof.
  intros [A1 A2] [B1 B2] Ht0 Ht1. split.
  - intros e He. rewrite leval_mix, (A1 e He). cbn [relax eqs] in B1. rewrite (B1 e He). ring.
  - intros c Hc. specialize (A2 c Hc).
    assert (B : sat (relax_c c) p1) by (apply B2; cbn [relax ineqs]; now apply in_map).
    unfold sat in *. cbn [relax_c strict] in B. change (eval (relax_c c) p1) with (eval c p1) in B.
    pose proof (eval_mix c t p0 p1) as E.
    set (x := eval c p0) in *. set (y := eval c p1) in *. set (z := eval c (mix t p0 p1)) in *. clearbody x y z.
    destruct (strict c); nra.
Qed.

(* consequence: when the set is non-empty, a non-strict constraint valid on the set is valid on the
   relaxed set; hence [relax s] is the least closed polyhedron containing the set *)
Theorem relax_least s d :
  (exists p0, sat_sys s p0) -> strict d = false ->
  (forall p, sat_sys s p -> sat d p) -> forall p, sat_sys (relax s) p -> sat d p.
Proof.
  intros [p0 H0] Hd Hall p1 H1. unfold sat. rewrite Hd.
  destruct (Qlt_le_dec (eval d p1) 0) as [Hneg|]; [|assumption]. exfalso.
  pose proof (Hall p0 H0) as S0. unfold sat in S0. rewrite Hd in S0.
  set (x := eval d p0) in *. set (y := eval d p1) in *.
  (* choose t small enough that t*x + (1-t)*y < 0 :  t = (-y) / (2 (x - y))  *)
  assert (Hxy : 0 < x - y) by lra.
  set (t := (- y) / (2 * (x - y))).
  assert (Et : t * (2 * (x - y)) == - y) by (unfold t; field; lra).
  assert (Ht0 : 0 < t) by nra.
  assert (Ht1 : t <= 1) by nra.
  pose proof (segment s p0 p1 t H0 H1 Ht0 Ht1) as Hm. apply Hall in Hm. unfold sat in Hm. rewrite Hd in Hm.
  pose proof (eval_mix d t p0 p1) as E. fold x y in E.
  set (z := eval d (mix t p0 p1)) in *. clearbody z x y t. nra.
Qed.

(* ---------- renaming of coordinates (map / remove / concatenate / expand) ---------- *)
(* new coefficient list: sum_i l_i * unit(f i) *)
Fixpoint rename_from (f : nat -> nat) (i : nat) (l : list Z) : list Z :=
  match l with
  | [] => []
  | x :: l' => vadd (vscale x (unitv (f i))) (rename_from f (S i) l')
  end.

Lemma dot_rename f l : forall i p, dot (rename_from f i l) p 0 == dot l (fun k => p (f k)) i.
Proof.
  induction l as [|x l IH]; intros i p; cbn [rename_from dot]; [reflexivity|].
  rewrite dot_vadd, dot_vscale, dot_unitv, IH. ring.
Qed.

Definition rename_c (f : nat -> nat) (c : cstr) : cstr :=
  {| coefs := rename_from f 0 (coefs c); cst := cst c; strict := strict c |}.
Definition rename_e (f : nat -> nat) (e : lin) : lin :=
  {| lcoefs := rename_from f 0 (lcoefs e); lcst := lcst e |}.
Definition rename_sys (f : nat -> nat) (s : sys) : sys :=
  {| eqs := map (rename_e f) (eqs s); ineqs := map (rename_c f) (ineqs s) |}.

Theorem rename_sys_spec f s q : sat_sys (rename_sys f s) q <-> sat_sys s (fun k => q (f k)).
Proof.
  unfold sat_sys, rename_sys, sat_eqs, sat_all; cbn [eqs ineqs].
  assert (EE : forall e, leval (rename_e f e) q == leval e (fun k => q (f k))).
  { intros e. unfold leval, rename_e; cbn [lcoefs lcst]. now rewrite dot_rename. }
  assert (EC : forall c, eval (rename_c f c) q == eval c (fun k => q (f k))).
  { intros c. unfold eval, rename_c; cbn [coefs cst]. now rewrite dot_rename. }
  split; intros [H1 H2]; split.
  - intros e He. rewrite <- EE. apply H1. now apply in_map.
  - intros c Hc. specialize (H2 _ (in_map (rename_c f) _ _ Hc)). unfold sat in *.
    pose proof (EC c) as E. change (strict (rename_c f c)) with (strict c) in H2. destruct (strict c); lra.
  - intros e He. apply in_map_iff in He. destruct He as [e0 [<- He0]]. rewrite EE. now apply H1.
  - intros c Hc. apply in_map_iff in Hc. destruct Hc as [c0 [<- Hc0]]. specialize (H2 _ Hc0). unfold sat in *.
    pose proof (EC c0) as E. change (strict (rename_c f c0)) with (strict c0). destruct (strict c0); lra.
Qed.

(* concatenate_assign: the second operand lives on coordinates n .. *)
Definition concatenate (n : nat) (s t : sys) : sys := union_sys s (rename_sys (fun k => (n + k)%nat) t).
Theorem concatenate_spec n s t q :
  sat_sys (concatenate n s t) q <-> sat_sys s q /\ sat_sys t (fun k => q (n + k)%nat).
Proof. unfold concatenate. now rewrite meet_spec, rename_sys_spec. Qed.

(* map_space_dimensions with a partial injective map given as a list (position i -> Some j):
   unmapped dimensions are projected away first, then coordinates are renamed *)
Definition pf_apply (pf : list (option nat)) (junk : nat) (i : nat) : nat :=
  match nth i pf None with Some j => j | None => junk end.
Definition unmapped (pf : list (option nat)) : list nat :=
  filter (fun i => match nth i pf None with Some _ => false | None => true end) (seq 0 (length pf)).
Definition map_dims (pf : list (option nat)) (junk : nat) (s : sys) : sys :=
  rename_sys (pf_apply pf junk) (elim_set (unmapped pf) s).

Theorem map_dims_spec pf junk s q :
  sat_sys (map_dims pf junk s) q <->
  exists p, (forall i, ~ In i (unmapped pf) -> p i == q (pf_apply pf junk i)) /\ sat_sys s p.
Proof. unfold map_dims. rewrite rename_sys_spec. symmetry. apply elim_set_exact. Qed.

(* expand_space_dimension v m: each new coordinate n+j is a copy of x_v *)
Fixpoint expand (v n m : nat) (s : sys) : sys :=
  match m with
  | O => s
  | S m' => union_sys (expand v n m' s)
                      (rename_sys (fun k => if Nat.eqb k v then (n + m')%nat else k) s)
  end.

Theorem expand_spec v n m s q :
  sat_sys (expand v n m s) q <->
  sat_sys s q /\ forall j, (j < m)%nat -> sat_sys s (fun k => if Nat.eqb k v then q (n + j)%nat else q k).
Proof.
  induction m as [|m IH]; cbn [expand].
  - split; [intros H; split; [exact H|intros j Hj; lia]|tauto].
  - rewrite meet_spec, IH, rename_sys_spec. split.
    + intros [[H1 H2] H3]. split; [exact H1|]. intros j Hj. destruct (Nat.eq_dec j m) as [->|Hne].
      * apply (sat_sys_ext s (fun k => q (if Nat.eqb k v then (n + m)%nat else k))); [|exact H3].
        intros k. cbn beta. destruct (Nat.eqb k v); reflexivity.
      * apply H2. lia.
    + intros [H1 H2]. split; [split; [exact H1|intros j Hj; apply H2; lia]|].
      apply (sat_sys_ext s (fun k => if Nat.eqb k v then q (n + m)%nat else q k)); [|exact (H2 m (Nat.lt_succ_diag_r m))].
      intros k. cbn beta. destruct (Nat.eqb k v); reflexivity.
Qed.
