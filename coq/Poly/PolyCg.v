(* Relation of a rational polyhedron with a congruence  e(x) = 0 (mod m), m > 0:
   exact decision of  "some point of P satisfies it"  and  "every point of P satisfies it",
   through the projection of P on z = e(x) (Base/Sup.v) and integer reasoning on the
   one-dimensional system. *)
From Coq Require Import List ZArith QArith Qminmax Lia Lqa Bool Setoid Morphisms.
Require Import PPLV.Base.FM PPLV.Base.Sys PPLV.Base.Gens PPLV.Poly.PolyOps PPLV.Base.Sup.
Import ListNotations.
Local Open Scope Q_scope.

(* an item  a z + b (>=|>) 0  at the integer point z = k*m is an integer inequality *)
Definition item_int (m : Z) (it : item) (k : Z) : Prop :=
  if istrict it then (0 < ia it * (k * m) + ib it)%Z else (0 <= ia it * (k * m) + ib it)%Z.

Lemma item_holds_int m it k : item_holds it (inject_Z (k * m)) <-> item_int m it k.
Proof.
  unfold item_holds, item_int.
  assert (E : inject_Z (ia it) * inject_Z (k * m) + inject_Z (ib it) == inject_Z (ia it * (k * m) + ib it)).
  { rewrite inject_Z_plus, inject_Z_mult. reflexivity. }
  destruct (istrict it).
  - rewrite E. change 0 with (inject_Z 0). rewrite <- Zlt_Qlt. tauto.
  - rewrite E. change 0 with (inject_Z 0). rewrite <- Zle_Qle. tauto.
Qed.

(* integer bounds on k:  c k >= d  with c = a m, d = -b (+1 when strict) *)
Definition need (it : item) : Z := if istrict it then (1 - ib it)%Z else (- ib it)%Z.

Lemma item_int_need m it k : item_int m it k <-> (need it <= (ia it * m) * k)%Z.
Proof. unfold item_int, need. destruct (istrict it); split; intros; nia. Qed.

(* ceil(d / c) for c > 0 *)
Definition cdiv (d c : Z) : Z := (- ((- d) / c))%Z.

Lemma cdiv_spec d c k : (0 < c)%Z -> ((d <= c * k)%Z <-> (cdiv d c <= k)%Z).
Proof.
  intros Hc. unfold cdiv. pose proof (Z.div_mod (- d) c ltac:(lia)) as E.
  pose proof (Z.mod_pos_bound (- d) c Hc) as B. split; intros H; nia.
Qed.

Lemma fdiv_spec d c k : (0 < c)%Z -> ((c * k <= d)%Z <-> (k <= d / c)%Z).
Proof.
  intros Hc. pose proof (Z.div_mod d c ltac:(lia)) as E.
  pose proof (Z.mod_pos_bound d c Hc) as B. split; intros H; nia.
Qed.

(* fold the items into  lo <= k <= hi  (None = unbounded) and a flag for violated constants *)
Record kb := { klo : option Z; khi : option Z; kok : bool }.

Definition omax (a : option Z) (b : Z) : option Z := match a with None => Some b | Some x => Some (Z.max x b) end.
Definition omin (a : option Z) (b : Z) : option Z := match a with None => Some b | Some x => Some (Z.min x b) end.

Definition step_kb (m : Z) (acc : kb) (it : item) : kb :=
  let c := (ia it * m)%Z in
  if Z.ltb 0 c then {| klo := omax (klo acc) (cdiv (need it) c); khi := khi acc; kok := kok acc |}
  else if Z.ltb c 0 then {| klo := klo acc; khi := omin (khi acc) ((- need it) / (- c))%Z; kok := kok acc |}
  else {| klo := klo acc; khi := khi acc; kok := kok acc && Z.leb (need it) 0 |}.

Definition in_kb (b : kb) (k : Z) : Prop :=
  kok b = true /\ (forall l, klo b = Some l -> (l <= k)%Z) /\ (forall h, khi b = Some h -> (k <= h)%Z).

Lemma step_kb_ok m acc it k : in_kb (step_kb m acc it) k <-> in_kb acc k /\ item_int m it k.
Proof.
  rewrite item_int_need. unfold step_kb, in_kb.
  destruct (Z.ltb_spec 0 (ia it * m)) as [Hp|Hnp]; cbn [klo khi kok].
  - rewrite (cdiv_spec (need it) (ia it * m) k Hp). destruct (klo acc) as [x|]; cbn [omax]; split.
    + intros [A [B C]]. specialize (B _ eq_refl). repeat split; auto; try lia. intros l [= <-]. lia.
    + intros [[A [B C]] D]. repeat split; auto. intros l [= <-]. specialize (B _ eq_refl). lia.
    + intros [A [B C]]. specialize (B _ eq_refl). repeat split; auto. intros l H; discriminate.
    + intros [[A [B C]] D]. repeat split; auto. intros l [= <-]. exact D.
  - destruct (Z.ltb_spec (ia it * m) 0) as [Hn|Hnn]; cbn [klo khi kok].
    + assert (Hc : (0 < - (ia it * m))%Z) by lia.
      pose proof (fdiv_spec (- need it) (- (ia it * m)) k Hc) as F.
      assert (G : (need it <= ia it * m * k)%Z <-> (k <= - need it / - (ia it * m))%Z) by (rewrite <- F; split; intros; nia).
      rewrite G. destruct (khi acc) as [x|]; cbn [omin]; split.
      * intros [A [B C]]. specialize (C _ eq_refl). repeat split; auto; try lia. intros h [= <-]. lia.
      * intros [[A [B C]] D]. repeat split; auto. intros h [= <-]. specialize (C _ eq_refl). lia.
      * intros [A [B C]]. specialize (C _ eq_refl). repeat split; auto. intros h H; discriminate.
      * intros [[A [B C]] D]. repeat split; auto. intros h [= <-]. exact D.
    + assert (E0 : (ia it * m = 0)%Z) by lia. rewrite E0. rewrite andb_true_iff, Z.leb_le. split.
      * intros [[A A'] [B C]]. split; [repeat split; auto|lia].
      * intros [[A [B C]] D]. split; [split; [exact A|lia]|split; auto].
Qed.

Definition fold_kb (m : Z) (its : list item) : kb :=
  fold_left (step_kb m) its {| klo := None; khi := None; kok := true |}.

Lemma fold_kb_ok m its : forall acc k,
  in_kb (fold_left (step_kb m) its acc) k <-> in_kb acc k /\ forall it, In it its -> item_int m it k.
Proof.
  induction its as [|it its IH]; intros acc k; cbn [fold_left].
  - split; [intros H; split; [exact H|intros it []]|tauto].
  - rewrite IH, step_kb_ok. split.
    + intros [[A B] C]. split; [exact A|]. intros it' [<-|H]; auto.
    + intros [A B]. split; [split; [exact A|apply B; now left]|]. intros it' H. apply B. now right.
Qed.

Definition kb_nonempty (b : kb) : bool :=
  kok b && match klo b, khi b with Some l, Some h => Z.leb l h | _, _ => true end.

Lemma kb_nonempty_ok b : kb_nonempty b = true <-> exists k, in_kb b k.
Proof.
  unfold kb_nonempty, in_kb. rewrite andb_true_iff. split.
  - intros [A B]. destruct (klo b) as [l|] eqn:L, (khi b) as [h|] eqn:H.
    + apply Z.leb_le in B. exists l. repeat split; auto; intros x [= <-]; lia.
    + exists l. repeat split; auto; [intros x [= <-]; lia|intros x Hx; discriminate].
    + exists h. repeat split; auto; [intros x Hx; discriminate|intros x [= <-]; lia].
    + exists 0%Z. repeat split; auto; intros x Hx; discriminate.
  - intros [k [A [B C]]]. split; [exact A|]. destruct (klo b) as [l|], (khi b) as [h|]; auto.
    apply Z.leb_le. specialize (B _ eq_refl). specialize (C _ eq_refl). lia.
Qed.

(* does the one-dimensional set contain an integer multiple of m ? *)
Definition hits_multiple (m : Z) (its : list item) : bool := kb_nonempty (fold_kb m its).

Theorem hits_multiple_ok m its :
  hits_multiple m its = true <-> exists k : Z, mem1 its (inject_Z (k * m)).
Proof.
  unfold hits_multiple. rewrite kb_nonempty_ok. unfold fold_kb. split; intros [k H]; exists k.
  - apply fold_kb_ok in H. destruct H as [_ H]. intros it Hit. apply item_holds_int. now apply H.
  - apply fold_kb_ok. split; [repeat split; intros x Hx; discriminate|].
    intros it Hit. apply item_holds_int. now apply H.
Qed.

(* ---------- lifted to a polyhedron ---------- *)
(* Some true  iff  some point of the set satisfies  e(x) = k m  for an integer k *)
Definition cg_intersects (n : nat) (e : lin) (m : Z) (s : sys) : option bool :=
  if (fresh_b n s && Z.eqb (lcoef e n) 0)%bool then
    let t := proj_expr n e s in
    if one_dim_b n t then Some (hits_multiple m (items_of n t)) else None
  else None.

Theorem cg_intersects_exact n e m s b :
  cg_intersects n e m s = Some b ->
  (b = true <-> exists p (k : Z), sat_sys s p /\ leval e p == inject_Z (k * m)).
Proof.
  unfold cg_intersects. destruct (fresh_b n s && Z.eqb (lcoef e n) 0)%bool eqn:G; [|discriminate].
  apply andb_true_iff in G. destruct G as [G1 G2]. apply fresh_b_ok in G1. apply Z.eqb_eq in G2.
  destruct (one_dim_b n (proj_expr n e s)) eqn:OD; [|discriminate]. intros [= <-].
  rewrite hits_multiple_ok. split.
  - intros [k H]. apply (proj_values n e s _ G1 G2 OD) in H. destruct H as [p [Hp Ep]]. now exists p, k.
  - intros [p [k [Hp Ep]]]. exists k. apply (proj_values n e s _ G1 G2 OD). now exists p.
Qed.

(* every point of the set satisfies the congruence: the expression is constant on the set
   (supremum = infimum, attained) and the constant is a multiple of m; or the set is empty *)
Definition is_multiple (m : Z) (q : Q) : bool :=
  (* q = num/den is an integer multiple of m:  den | num  and  m | num/den   (m > 0) *)
  let d := Zpos (Qden q) in
  Z.eqb (Qnum q mod d) 0 && Z.eqb ((Qnum q / d) mod m) 0.

Definition cg_included (n : nat) (e : lin) (m : Z) (s : sys) : option bool :=
  match sup_expr n e s, inf_expr n e s with
  | Some SupEmpty, Some _ => Some true
  | Some (SupVal hi true), Some (SupVal lo true) => Some (Qeq_bool hi lo && is_multiple m hi)
  | Some _, Some _ => Some false
  | _, _ => None
  end.

Lemma is_multiple_ok m q : (0 < m)%Z -> (is_multiple m q = true <-> exists k : Z, q == inject_Z (k * m)).
Proof.
  intros Hm. unfold is_multiple. set (d := Zpos (Qden q)). rewrite andb_true_iff, !Z.eqb_eq. split.
  - intros [H1 H2]. exists (Qnum q / d / m)%Z.
    assert (Hd : (0 < d)%Z) by (unfold d; lia).
    assert (E1 : Qnum q = (d * (Qnum q / d))%Z) by (apply Z_div_exact_full_2; [lia|exact H1]).
    assert (E2 : (Qnum q / d = m * (Qnum q / d / m))%Z) by (apply Z_div_exact_full_2; [lia|exact H2]).
    unfold Qeq, inject_Z; cbn [Qnum Qden]. fold d. clearbody d. set (u := (Qnum q / d / m)%Z) in *. set (w := (Qnum q / d)%Z) in *. nia.
  - intros [k Hk]. unfold Qeq, inject_Z in Hk; cbn [Qnum Qden] in Hk. fold d in Hk.
    assert (Hd : (0 < d)%Z) by (unfold d; lia).
    assert (E : Qnum q = (k * m * d)%Z) by (clearbody d; lia). split.
    + rewrite E. apply Z.mod_mul. lia.
    + rewrite E. rewrite Z.div_mul by lia. apply Z.mod_mul. lia.
Qed.

Lemma classic_multiple m z : (0 < m)%Z ->
  (exists k : Z, z == inject_Z (k * m)) \/ ~ (exists k : Z, z == inject_Z (k * m)).
Proof.
  intros Hm. destruct (is_multiple m z) eqn:E.
  - left. now apply is_multiple_ok.
  - right. intros H. apply (is_multiple_ok m z Hm) in H. congruence.
Qed.

(* between two multiples-only values there would be a non-multiple: used for completeness *)
Lemma non_multiple_between (m : Z) (a b : Q) : (0 < m)%Z -> a < b ->
  exists z, a < z /\ z < b /\ ~ exists k : Z, z == inject_Z (k * m).
Proof.
  intros Hm Hab.
  (* two candidates in (a,b) whose difference is not a multiple of m: z1 and z1 + delta with 0 < delta < m;
     they cannot both be multiples *)
  set (M := inject_Z m). assert (HM : 0 < M) by (apply inj_pos; exact Hm).
  set (w := b - a). assert (Hw : 0 < w) by (unfold w; lra).
  set (delta := Qmin (w / 3) (M / 2)).
  assert (Hd0 : 0 < delta).
  { unfold delta. apply Q.min_glb_lt; [apply Qlt_shift_div_l; lra|apply Qlt_shift_div_l; lra]. }
  assert (Hd1 : delta <= w / 3) by apply Q.le_min_l.
  assert (Hd2 : delta <= M / 2) by apply Q.le_min_r.
  assert (Hw3 : w / 3 * 3 == w) by (field).
  assert (HM2 : M / 2 * 2 == M) by (field).
  set (z1 := a + w / 3).
  assert (Hz1 : a < z1 /\ z1 + delta < b).
  { unfold z1. split; [assert (0 < w / 3) by (apply Qlt_shift_div_l; lra); lra|]. unfold w in *. lra. }
  destruct (classic_multiple m z1 Hm) as [[k1 Hk1]|N1].
  - (* z1 is a multiple: then z1 + delta is not *)
    exists (z1 + delta). split; [lra|]. split; [tauto|]. intros [k2 Hk2].
    assert (E : delta == inject_Z ((k2 - k1) * m)).
    { rewrite Z.mul_sub_distr_r, <- Z.add_opp_r, inject_Z_plus, inject_Z_opp, <- Hk2, <- Hk1. ring. }
    rewrite inject_Z_mult in E. fold M in E.
    destruct (Z_lt_le_dec 0 (k2 - k1)) as [Hpos|Hnp].
    + assert (1 <= inject_Z (k2 - k1)) by (change 1 with (inject_Z 1); rewrite <- Zle_Qle; lia). nra.
    + assert (inject_Z (k2 - k1) <= 0) by (change 0 with (inject_Z 0); rewrite <- Zle_Qle; lia). nra.
  - exists z1. split; [tauto|]. split; [lra|exact N1].
Qed.

(* convexity of the solution set *)
Lemma convex s p0 p1 t : sat_sys s p0 -> sat_sys s p1 -> 0 <= t -> t <= 1 -> sat_sys s (mix t p0 p1).
Proof.
  intros [A1 A2] [B1 B2] Ht0 Ht1. split.
  - intros e He. rewrite leval_mix, (A1 e He), (B1 e He). ring.
  - intros c Hc. specialize (A2 c Hc). specialize (B2 c Hc). unfold sat in *.
    pose proof (eval_mix c t p0 p1) as E.
    set (x := eval c p0) in *. set (y := eval c p1) in *. set (z := eval c (mix t p0 p1)) in *. clearbody x y z.
    destruct (strict c).
    + destruct (Qeq_dec t 0) as [T0|T0]; [rewrite T0 in E; lra|]. assert (0 < t) by lra. nra.
    + nra.
Qed.

Lemma two_values_not_all_multiples s e m p0 p1 :
  (0 < m)%Z -> sat_sys s p0 -> sat_sys s p1 -> leval e p0 < leval e p1 ->
  ~ (forall p, sat_sys s p -> exists k : Z, leval e p == inject_Z (k * m)).
Proof.
  intros Hm H0 H1 Hlt Hall.
  destruct (non_multiple_between m _ _ Hm Hlt) as [z [Z1 [Z2 NZ]]].
  set (a := leval e p0) in *. set (b := leval e p1) in *.
  (* t with t a + (1-t) b = z *)
  set (t := (b - z) / (b - a)).
  assert (Et : t * (b - a) == b - z) by (unfold t; field; lra).
  assert (T0 : 0 <= t) by nra. assert (T1 : t <= 1) by nra.
  pose proof (convex s p0 p1 t H0 H1 T0 T1) as Hm'.
  apply NZ. destruct (Hall _ Hm') as [k Hk]. exists k. rewrite <- Hk, leval_mix. fold a b. nra.
Qed.

Theorem cg_included_exact n e m s b :
  (0 < m)%Z -> cg_included n e m s = Some b ->
  (b = true <-> forall p, sat_sys s p -> exists k : Z, leval e p == inject_Z (k * m)).
Proof.
  intros Hm. unfold cg_included.
  destruct (sup_expr n e s) as [rs|] eqn:ES; [|discriminate].
  destruct (inf_expr n e s) as [ri|] eqn:EI; [|destruct rs as [| |? []]; discriminate].
  apply sup_expr_exact in ES. apply inf_expr_exact in EI.
  assert (NEG : forall p0 p1, sat_sys s p0 -> sat_sys s p1 -> leval e p0 < leval e p1 ->
                (false = true <-> forall p, sat_sys s p -> exists k : Z, leval e p == inject_Z (k * m))).
  { intros p0 p1 H0 H1 Hlt. split; [discriminate|]. intros Hall. exfalso.
    exact (two_values_not_all_multiples s e m p0 p1 Hm H0 H1 Hlt Hall). }
  destruct rs as [| |hi ahi]; cbn [sup_spec] in ES.
  - (* empty *) destruct ri; intros [= <-]; (split; [intros _ p Hp; destruct (ES p Hp)|reflexivity]).
  - (* unbounded above: two different values *)
    destruct ES as [[p0 H0] EU]. destruct (EU (leval e p0)) as [p1 [H1 Hlt]].
    destruct ri; intros [= <-]; exact (NEG p0 p1 H0 H1 Hlt).
  - destruct ES as [[p0 H0] [Sle [Satt Snatt]]].
    destruct ahi.
    + (* supremum attained *)
      destruct (Satt eq_refl) as [ph [Hph Eph]].
      destruct ri as [| |lo alo]; cbn [inf_spec] in EI.
      * intros [= <-]. exfalso. exact (EI p0 H0).
      * destruct EI as [_ EU]. destruct (EU (leval e ph)) as [p1 [H1 Hlt]]. intros [= <-]. exact (NEG p1 ph H1 Hph Hlt).
      * destruct EI as [_ [Ile [Iatt Inatt]]]. destruct alo.
        -- (* both attained *)
           destruct (Iatt eq_refl) as [pl [Hpl Epl]]. intros [= <-].
           rewrite andb_true_iff, Qeq_bool_iff, (is_multiple_ok m hi Hm). split.
           ++ intros [Heq [k Hk]] p Hp. exists k. specialize (Sle p Hp). specialize (Ile p Hp). rewrite <- Hk. lra.
           ++ intros Hall. destruct (Qlt_le_dec lo hi) as [Hlt|Hge].
              ** exfalso. apply (two_values_not_all_multiples s e m pl ph Hm Hpl Hph); [lra|exact Hall].
              ** split; [specialize (Sle pl Hpl); lra|]. destruct (Hall ph Hph) as [k Hk]. exists k. rewrite <- Eph. exact Hk.
        -- destruct (Inatt eq_refl) as [T1 _]. specialize (T1 ph Hph).
           (* infimum not attained: some point strictly below ph *)
           destruct (Inatt eq_refl) as [_ T2]. destruct (T2 (leval e ph - lo)) as [p1 [H1 Hl1]]; [lra|].
           intros [= <-]. apply (NEG p1 ph H1 Hph). lra.
    + (* supremum not attained: some point strictly above p0 *)
      destruct (Snatt eq_refl) as [T1 T2]. specialize (T1 p0 H0).
      destruct (T2 (hi - leval e p0)) as [p1 [H1 Hl1]]; [lra|].
      destruct ri; intros [= <-]; apply (NEG p0 p1 H0 H1); lra.
Qed.
