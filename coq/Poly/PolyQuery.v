(* Reference implementations of the queries of the polyhedron interface on constraint systems,
   each proved to return exactly the answer dictated by the denoted point set. *)
From Coq Require Import List ZArith QArith Qminmax Qabs Lia Lqa Bool Setoid Morphisms.
Require Import PPLV.Base.FM PPLV.Base.Sys PPLV.Base.Gens PPLV.Poly.PolyOps PPLV.Base.Sup.
Import ListNotations.
Local Open Scope Q_scope.

Definition onot (a : option bool) : option bool := option_map negb a.

Definition empty_sys : sys := {| eqs := []; ineqs := [] |}.
Lemma sat_empty_sys p : sat_sys empty_sys p.
Proof. split; intros x []. Qed.

(* ---------- emptiness, universe, inclusion ---------- *)
Definition q_is_empty (n : nat) (s : sys) : option bool := onot (nonempty_sys n s).

Theorem q_is_empty_exact n s b : q_is_empty n s = Some b -> (b = true <-> forall p, ~ sat_sys s p).
Proof.
  unfold q_is_empty, onot. destruct (nonempty_sys n s) as [b0|] eqn:E; [|discriminate]. cbn. intros [= <-].
  pose proof (nonempty_sys_exact _ _ _ E) as X. split.
  - intros Hb p Hp. destruct b0; [discriminate|]. assert (false = true) by (apply X; now exists p). discriminate.
  - intros H. destruct b0; [|reflexivity]. destruct (proj1 X eq_refl) as [p Hp]. destruct (H p Hp).
Qed.

Definition q_is_universe (n : nat) (s : sys) : option bool := incl_sys n empty_sys s.

Theorem q_is_universe_exact n s b : q_is_universe n s = Some b -> (b = true <-> forall p, sat_sys s p).
Proof.
  unfold q_is_universe. intros H. rewrite (incl_sys_exact _ _ _ _ H). split.
  - intros X p. apply X. apply sat_empty_sys.
  - intros X p _. apply X.
Qed.

Definition q_contains (n : nat) (x y : sys) : option bool := incl_sys n y x.
Theorem q_contains_exact n x y b :
  q_contains n x y = Some b -> (b = true <-> forall p, sat_sys y p -> sat_sys x p).
Proof. apply incl_sys_exact. Qed.

Definition q_strictly_contains (n : nat) (x y : sys) : option bool :=
  oand (incl_sys n y x) (onot (incl_sys n x y)).
Theorem q_strictly_contains_exact n x y b :
  q_strictly_contains n x y = Some b ->
  (b = true <-> (forall p, sat_sys y p -> sat_sys x p) /\ ~ (forall p, sat_sys x p -> sat_sys y p)).
Proof.
  unfold q_strictly_contains, onot. destruct (incl_sys n y x) as [b1|] eqn:E1; [|discriminate].
  destruct (incl_sys n x y) as [b2|] eqn:E2; [|discriminate]. cbn. intros [= <-].
  rewrite andb_true_iff, (incl_sys_exact _ _ _ _ E1), negb_true_iff.
  pose proof (incl_sys_exact _ _ _ _ E2) as X. split.
  - intros [H1 H2]. split; [exact H1|]. intros H. apply X in H. congruence.
  - intros [H1 H2]. split; [exact H1|]. destruct b2; [|reflexivity]. exfalso. apply H2. now apply X.
Qed.

Definition q_is_disjoint (n : nat) (x y : sys) : option bool := onot (nonempty_sys n (union_sys x y)).
Theorem q_is_disjoint_exact n x y b :
  q_is_disjoint n x y = Some b -> (b = true <-> forall p, ~ (sat_sys x p /\ sat_sys y p)).
Proof.
  intros H. rewrite (q_is_empty_exact n (union_sys x y) b H). split; intros X p Hp; apply (X p); now apply meet_spec.
Qed.

Definition q_equals (n : nat) (x y : sys) : option bool := equiv_sys n x y.
Theorem q_equals_exact n x y b :
  q_equals n x y = Some b -> (b = true <-> forall p, sat_sys x p <-> sat_sys y p).
Proof. apply equiv_sys_exact. Qed.

(* ---------- relation with a constraint ---------- *)
Definition hyperplane (c : con) : con := {| ccoefs := ccoefs c; ccst := ccst c; ckd := EQ |}.

Definition rel_is_disjoint (n : nat) (s : sys) (c : con) : option bool := q_is_disjoint n s (sys_of_cons [c]).
Definition rel_is_included (n : nat) (s : sys) (c : con) : option bool := incl_sys n s (sys_of_cons [c]).
Definition rel_saturates (n : nat) (s : sys) (c : con) : option bool := incl_sys n s (sys_of_cons [hyperplane c]).
Definition rel_strictly_intersects (n : nat) (s : sys) (c : con) : option bool :=
  oand (onot (rel_is_disjoint n s c)) (onot (rel_is_included n s c)).

Lemma sat_single c p : sat_sys (sys_of_cons [c]) p <-> sat_con c p.
Proof. rewrite sys_of_cons_sat. unfold sat_cons. cbn [In]. split; [intros H; apply H; now left|intros H c' [<-|[]]; exact H]. Qed.

Theorem rel_is_disjoint_exact n s c b :
  rel_is_disjoint n s c = Some b -> (b = true <-> forall p, ~ (sat_sys s p /\ sat_con c p)).
Proof.
  intros H. rewrite (q_is_disjoint_exact _ _ _ _ H). split; intros X p [A B]; apply (X p); split; auto; now apply sat_single.
Qed.

Theorem rel_is_included_exact n s c b :
  rel_is_included n s c = Some b -> (b = true <-> forall p, sat_sys s p -> sat_con c p).
Proof.
  intros H. rewrite (incl_sys_exact _ _ _ _ H). split; intros X p Hp; [apply sat_single|apply sat_single]; auto.
Qed.

Theorem rel_saturates_exact n s c b :
  rel_saturates n s c = Some b -> (b = true <-> forall p, sat_sys s p -> ceval c p == 0).
Proof.
  intros H. rewrite (incl_sys_exact _ _ _ _ H). split; intros X p Hp.
  - specialize (X p Hp). apply sat_single in X. exact X.
  - apply sat_single. now apply X.
Qed.

Theorem rel_strictly_intersects_exact n s c b :
  rel_strictly_intersects n s c = Some b ->
  (b = true <-> (exists p, sat_sys s p /\ sat_con c p) /\ ~ (forall p, sat_sys s p -> sat_con c p)).
Proof.
  unfold rel_strictly_intersects, onot.
  destruct (rel_is_disjoint n s c) as [b1|] eqn:E1; [|discriminate].
  destruct (rel_is_included n s c) as [b2|] eqn:E2; [|discriminate]. cbn. intros [= <-].
  rewrite andb_true_iff, !negb_true_iff.
  pose proof (rel_is_included_exact _ _ _ _ E2) as X2.
  unfold rel_is_disjoint, q_is_disjoint, q_is_empty, onot in E1.
  destruct (nonempty_sys n (union_sys s (sys_of_cons [c]))) as [ne|] eqn:N1; [|discriminate]. cbn in E1. injection E1 as <-.
  pose proof (nonempty_sys_exact _ _ _ N1) as Y1. rewrite negb_false_iff, Y1. split.
  - intros [[p Hp] H2]. split.
    + apply meet_spec in Hp. destruct Hp as [A B]. exists p. split; [exact A|now apply sat_single].
    + intros H. apply X2 in H. congruence.
  - intros [[p [A B]] H2]. split.
    + exists p. apply meet_spec. split; [exact A|now apply sat_single].
    + destruct b2; [|reflexivity]. exfalso. apply H2. now apply X2.
Qed.

(* ---------- optimisation, boundedness ---------- *)
Definition q_maximize (n : nat) (e : lin) (s : sys) : option supres := sup_expr n e s.
Definition q_minimize (n : nat) (e : lin) (s : sys) : option supres := inf_expr n e s.

Theorem q_maximize_exact n e s r : q_maximize n e s = Some r -> sup_spec s e r.
Proof. apply sup_expr_exact. Qed.
Theorem q_minimize_exact n e s r : q_minimize n e s = Some r -> inf_spec s e r.
Proof. apply inf_expr_exact. Qed.

Definition is_unbounded_res (r : supres) : bool := match r with SupUnbounded => true | _ => false end.

(* bounds_from_above: true iff the expression is bounded from above on the set (true on the empty set) *)
Definition q_bounds_above (n : nat) (e : lin) (s : sys) : option bool :=
  option_map (fun r => negb (is_unbounded_res r)) (sup_expr n e s).
Definition q_bounds_below (n : nat) (e : lin) (s : sys) : option bool :=
  option_map (fun r => negb (is_unbounded_res r)) (inf_expr n e s).

Theorem q_bounds_above_exact n e s b :
  q_bounds_above n e s = Some b -> (b = true <-> exists B, forall p, sat_sys s p -> leval e p <= B).
Proof.
  unfold q_bounds_above. destruct (sup_expr n e s) as [r|] eqn:E; [|discriminate]. cbn. intros [= <-].
  apply sup_expr_exact in E. destruct r as [| |m att]; cbn [is_unbounded_res negb sup_spec] in *.
  - split; [|reflexivity]. intros _. exists 0. intros p Hp. destruct (E p Hp).
  - split; [discriminate|]. intros [B HB]. destruct E as [_ E]. destruct (E B) as [p [Hp Hl]]. specialize (HB p Hp). lra.
  - split; [|reflexivity]. intros _. exists m. apply E.
Qed.

Theorem q_bounds_below_exact n e s b :
  q_bounds_below n e s = Some b -> (b = true <-> exists B, forall p, sat_sys s p -> B <= leval e p).
Proof.
  unfold q_bounds_below. destruct (inf_expr n e s) as [r|] eqn:E; [|discriminate]. cbn. intros [= <-].
  apply inf_expr_exact in E. destruct r as [| |m att]; cbn [is_unbounded_res negb inf_spec] in *.
  - split; [|reflexivity]. intros _. exists 0. intros p Hp. destruct (E p Hp).
  - split; [discriminate|]. intros [B HB]. destruct E as [_ E]. destruct (E B) as [p [Hp Hl]]. specialize (HB p Hp). lra.
  - split; [|reflexivity]. intros _. exists m. apply E.
Qed.

(* is_bounded: every coordinate is bounded above and below on the set *)
Definition q_is_bounded (n : nat) (s : sys) : option bool :=
  oall (fun i => oand (q_bounds_above n (lvar i) s) (q_bounds_below n (lvar i) s)) (seq 0 n).

Theorem q_is_bounded_exact n s b :
  q_is_bounded n s = Some b ->
  (b = true <-> forall i, (i < n)%nat -> exists B, forall p, sat_sys s p -> - B <= p i <= B).
Proof.
  unfold q_is_bounded. intros H.
  assert (Hf : forall i bi, oand (q_bounds_above n (lvar i) s) (q_bounds_below n (lvar i) s) = Some bi ->
                            (bi = true <-> exists B, forall p, sat_sys s p -> - B <= p i <= B)).
  { intros i bi. destruct (q_bounds_above n (lvar i) s) as [b1|] eqn:E1; [|discriminate].
    destruct (q_bounds_below n (lvar i) s) as [b2|] eqn:E2; [|discriminate]. cbn. intros [= <-].
    rewrite andb_true_iff, (q_bounds_above_exact _ _ _ _ E1), (q_bounds_below_exact _ _ _ _ E2). split.
    + intros [[B1 H1] [B2 H2]]. exists (Qmax (Qabs B1) (Qabs B2)). intros p Hp.
      specialize (H1 p Hp). specialize (H2 p Hp). rewrite leval_lvar in H1, H2.
      pose proof (Q.le_max_l (Qabs B1) (Qabs B2)). pose proof (Q.le_max_r (Qabs B1) (Qabs B2)).
      pose proof (Qle_Qabs B1) as HA1. pose proof (Qle_Qabs (- B2)) as HA2. rewrite Qabs_opp in HA2. lra.
    + intros [B HB]. split; [exists B|exists (- B)]; intros p Hp; rewrite leval_lvar; specialize (HB p Hp); lra. }
  rewrite (oall_spec _ _ _ _ Hf H).
  split; intros X i Hi; apply X; [apply in_seq; lia|apply in_seq in Hi; lia].
Qed.

(* is_topologically_closed: the set is definable with non-strict constraints only *)
Definition nonstrict (s : sys) : Prop := forall c, In c (ineqs s) -> strict c = false.

Definition q_is_closed (n : nat) (s : sys) : option bool :=
  match nonempty_sys n s with
  | Some false => Some true
  | Some true => equiv_sys n s (relax s)
  | None => None
  end.

Definition false_sys : sys := {| eqs := []; ineqs := [{| coefs := []; cst := (-1)%Z; strict := false |}] |}.

Theorem q_is_closed_exact n s b :
  q_is_closed n s = Some b ->
  (b = true <-> exists t, nonstrict t /\ forall p, sat_sys s p <-> sat_sys t p).
Proof.
  unfold q_is_closed. destruct (nonempty_sys n s) as [[|]|] eqn:NE; [| |discriminate].
  - intros H. pose proof (proj1 (nonempty_sys_exact _ _ _ NE) eq_refl) as Hne.
    rewrite (equiv_sys_exact _ _ _ _ H). split.
    + intros X. exists (relax s). split; [|exact X]. intros c Hc. cbn [relax ineqs] in Hc.
      apply in_map_iff in Hc. destruct Hc as [c0 [<- _]]. reflexivity.
    + intros [t [Ht Et]] p. split; [apply relax_superset|]. intros Hr. apply Et. split.
      * intros e He. (* an equality of t is valid on s, hence (as two non-strict halves) on relax s *)
        assert (G : sat (ge_of e) p).
        { apply (relax_least s (ge_of e) Hne eq_refl); [|exact Hr]. intros p' Hp'. apply Et in Hp'.
          destruct Hp' as [A _]. apply (eq_as_ineqs e p'). now apply A. }
        assert (L : sat {| coefs := map Z.opp (lcoefs e); cst := (- lcst e)%Z; strict := false |} p).
        { apply (relax_least s {| coefs := map Z.opp (lcoefs e); cst := (- lcst e)%Z; strict := false |} Hne eq_refl); [|exact Hr]. intros p' Hp'. apply Et in Hp'.
          destruct Hp' as [A _]. specialize (A e He). unfold sat, eval; cbn [coefs cst strict].
          rewrite dot_opp, inject_Z_opp. unfold leval in A. lra. }
        unfold sat, eval, ge_of in G, L; cbn [coefs cst strict] in G, L. rewrite dot_opp, inject_Z_opp in L.
        unfold leval. lra.
      * intros c Hc. apply (relax_least s c Hne (Ht c Hc)); [|exact Hr]. intros p' Hp'. apply Et in Hp'.
        destruct Hp' as [_ B]. now apply B.
  - intros [= <-]. split; [|reflexivity]. intros _. exists false_sys. split.
    + intros c [<-|[]]. reflexivity.
    + intros p. split.
      * intros Hp. exfalso. assert (false = true) by (apply (nonempty_sys_exact _ _ _ NE); now exists p). discriminate.
      * intros [_ H]. specialize (H _ (or_introl eq_refl)). unfold sat, eval in H; cbn [coefs cst strict dot] in H.
        change (inject_Z (-1)) with (-1) in H. lra.
Qed.

(* constrains(v): the set is not a cylinder along x_v (an empty set constrains every variable) *)
Definition q_constrains (n : nat) (v : nat) (s : sys) : option bool :=
  match nonempty_sys n s with
  | Some false => Some true
  | Some true => onot (incl_sys n (elim_sys v s) s)
  | None => None
  end.

Theorem q_constrains_exact n v s b :
  q_constrains n v s = Some b ->
  (b = true <-> (forall p, ~ sat_sys s p) \/ ~ (forall p w, sat_sys s p -> sat_sys s (upd p v w))).
Proof.
  unfold q_constrains, onot. destruct (nonempty_sys n s) as [[|]|] eqn:NE; [| |discriminate].
  - destruct (incl_sys n (elim_sys v s) s) as [b0|] eqn:E; [|discriminate]. cbn. intros [= <-].
    pose proof (incl_sys_exact _ _ _ _ E) as X. pose proof (proj1 (nonempty_sys_exact _ _ _ NE) eq_refl) as [p0 Hp0].
    rewrite negb_true_iff. split.
    + intros Hb. right. intros H. assert (b0 = true); [|congruence]. apply X. intros p Hp.
      apply elim_sys_exact in Hp. destruct Hp as [w Hw]. apply (sat_sys_ext s (upd (upd p v w) v (p v))).
      * intros k. rewrite (upd_upd p v w (p v) k). apply upd_same.
      * now apply H.
    + intros [H|H]; [destruct (H p0 Hp0)|]. destruct b0; [|reflexivity]. exfalso. apply H. intros p w Hp.
      apply (proj1 X eq_refl). apply elim_sys_exact. exists (p v). apply (sat_sys_ext s p); [|exact Hp].
      apply peq_sym. intros k. rewrite (upd_upd p v w (p v) k). apply upd_same.
  - intros [= <-]. split; [|reflexivity]. intros _. left. intros p Hp.
    assert (false = true) by (apply (nonempty_sys_exact _ _ _ NE); now exists p). discriminate.
Qed.

(* frequency (on polyhedra): the expression has a constant value on a non-empty set.
   Some (Some v): non-empty and constantly v;  Some None: empty, or not constant *)
Definition q_constant (n : nat) (e : lin) (s : sys) : option (option Q) :=
  match sup_expr n e s, inf_expr n e s with
  | Some (SupVal m _), Some (SupVal m' _) => Some (if Qeq_bool m m' then Some m else None)
  | Some _, Some _ => Some None
  | _, _ => None
  end.

Definition constant_on (s : sys) (e : lin) (v : Q) : Prop :=
  (exists p, sat_sys s p) /\ forall p, sat_sys s p -> leval e p == v.

Theorem q_constant_exact n e s r :
  q_constant n e s = Some r ->
  match r with
  | Some v => constant_on s e v
  | None => forall v, ~ constant_on s e v
  end.
Proof.
  unfold q_constant.
  destruct (sup_expr n e s) as [rs|] eqn:ES; [|discriminate].
  destruct (inf_expr n e s) as [ri|] eqn:EI; [|destruct rs; discriminate].
  apply sup_expr_exact in ES. apply inf_expr_exact in EI.
  destruct rs as [| |m att]; cbn [sup_spec] in ES.
  - intros [= <-] v [[p Hp] _]. exact (ES p Hp).
  - intros [= <-] v [[p Hp] Hc]. destruct ES as [_ ES]. destruct (ES v) as [q [Hq Hlt]].
    specialize (Hc q Hq). lra.
  - destruct ri as [| |m' att']; cbn [inf_spec] in EI.
    + intros [= <-] v [[p Hp] _]. exact (EI p Hp).
    + intros [= <-] v [[p Hp] Hc]. destruct EI as [_ EI]. destruct (EI v) as [q [Hq Hlt]].
      specialize (Hc q Hq). lra.
    + destruct ES as [NE [SU [SA SN]]]. destruct EI as [_ [IL [IA IN]]].
      destruct (Qeq_bool m m') eqn:Q; intros [= <-].
      * apply Qeq_bool_eq in Q. split; [exact NE|]. intros p Hp.
        specialize (SU p Hp). specialize (IL p Hp). lra.
      * intros v [[p0 Hp0] Hc].
        assert (Em : m == v).
        { destruct att.
          - destruct (SA eq_refl) as [q [Hq Eq]]. rewrite <- Eq. now apply Hc.
          - destruct (SN eq_refl) as [S1 S2]. pose proof (S1 p0 Hp0) as L. rewrite (Hc p0 Hp0) in L.
            destruct (S2 (m - v)) as [q [Hq Hl]]; [lra|]. rewrite (Hc q Hq) in Hl. lra. }
        assert (Em' : m' == v).
        { destruct att'.
          - destruct (IA eq_refl) as [q [Hq Eq]]. rewrite <- Eq. now apply Hc.
          - destruct (IN eq_refl) as [S1 S2]. pose proof (S1 p0 Hp0) as L. rewrite (Hc p0 Hp0) in L.
            destruct (S2 (v - m')) as [q [Hq Hl]]; [lra|]. rewrite (Hc q Hq) in Hl. lra. }
        assert (X : Qeq_bool m m' = true) by (apply Qeq_eq_bool; lra). congruence.
Qed.

(* is_discrete (on polyhedra): the set has at most one point (on the first n coordinates) *)
Definition is_some_b {A} (o : option A) : bool := match o with Some _ => true | None => false end.
Definition q_is_discrete (n : nat) (s : sys) : option bool :=
  match q_is_empty n s with
  | Some true => Some true
  | Some false => oall (fun i => option_map is_some_b (q_constant n (lvar i) s)) (seq 0 n)
  | None => None
  end.

Theorem q_is_discrete_exact n s b :
  q_is_discrete n s = Some b ->
  (b = true <-> forall p q, sat_sys s p -> sat_sys s q -> forall i, (i < n)%nat -> p i == q i).
Proof.
  unfold q_is_discrete. destruct (q_is_empty n s) as [be|] eqn:EE; [|discriminate].
  pose proof (q_is_empty_exact _ _ _ EE) as XE. destruct be.
  - intros [= <-]. split; [|reflexivity]. intros _ p q Hp. exfalso. exact (proj1 XE eq_refl p Hp).
  - intros H.
    assert (NE : exists p0, sat_sys s p0).
    { destruct (nonempty_sys n s) as [b0|] eqn:E0.
      - unfold q_is_empty, onot in EE. rewrite E0 in EE. cbn in EE. injection EE as EE.
        destruct b0; [|discriminate]. exact (proj1 (nonempty_sys_exact _ _ _ E0) eq_refl).
      - unfold q_is_empty, onot in EE. rewrite E0 in EE. discriminate. }
    assert (Hf : forall i bi, option_map is_some_b (q_constant n (lvar i) s) = Some bi ->
                 (bi = true <-> forall p q, sat_sys s p -> sat_sys s q -> p i == q i)).
    { intros i bi. destruct (q_constant n (lvar i) s) as [r|] eqn:EC; [|discriminate]. cbn. intros [= <-].
      pose proof (q_constant_exact _ _ _ _ EC) as XC. destruct r as [v|]; cbn [is_some_b].
      - split; [|reflexivity]. intros _ p q Hp Hq. destruct XC as [_ XC].
        pose proof (XC p Hp) as A. pose proof (XC q Hq) as B. rewrite leval_lvar in A, B. lra.
      - split; [discriminate|]. intros Hall. exfalso. destruct NE as [p0 Hp0].
        apply (XC (p0 i)). split; [now exists p0|]. intros p Hp. rewrite leval_lvar. now apply Hall. }
    rewrite (oall_spec _ _ _ _ Hf H). split.
    + intros X p q Hp Hq i Hi. apply (X i); [apply in_seq; lia|exact Hp|exact Hq].
    + intros X i Hi p q Hp Hq. apply in_seq in Hi. apply X; [exact Hp|exact Hq|lia].
Qed.
