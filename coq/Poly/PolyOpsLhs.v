(* Generalized affine image / preimage with a linear expression on the left-hand side:
   the variables V occurring in lhs take new values, related to the old point by  lhs(new) r rhs(old)
   (image), resp.  lhs(old) r rhs(new)  (preimage), all other coordinates being unchanged. *)
From Coq Require Import List ZArith QArith Qminmax Lia Lqa Bool Setoid Morphisms.
Require Import PPLV.Base.FM PPLV.Base.Sys PPLV.Base.Gens PPLV.Poly.PolyOps.
Import ListNotations.
Local Open Scope Q_scope.

(* z = e1(old point) on the fresh coordinate n; forget the coordinates V; relate z with e2(new point) *)
Definition gen_rel (n : nat) (V : list nat) (e1 e2 : lin) (r : relsym) (s : sys) : sys :=
  elim_sys n (union_sys (elim_set V (union_sys s (rel_sys REQ (dvar_minus 1 n e1))))
                        (rel_sys r (dvar_minus 1 n e2))).

Lemma rel_minus r a b : rel_holds r (a - b) 0 <-> rel_holds r a b.
Proof. destruct r; unfold rel_holds; split; intros; lra. Qed.

Theorem gen_rel_spec n V e1 e2 r s q :
  fresh n s -> lcoef e1 n = 0%Z -> lcoef e2 n = 0%Z -> ~ In n V ->
  (sat_sys (gen_rel n V e1 e2 r s) q <->
   exists p, (forall i, ~ In i V -> i <> n -> p i == q i) /\ sat_sys s p /\ rel_holds r (leval e1 p) (leval e2 q)).
Proof.
  intros F F1 F2 HnV. unfold gen_rel. rewrite <- elim_sys_exact. split.
  - intros [z Hz]. apply meet_spec in Hz. destruct Hz as [A B].
    apply elim_set_exact in A. destruct A as [p [Hp Sp]]. apply meet_spec in Sp. destruct Sp as [Sp Ez].
    apply sat_rel_sys in Ez. cbn [rel_holds] in Ez. rewrite leval_dvar_minus in Ez. change (inject_Z 1) with 1 in Ez.
    apply sat_rel_sys in B. rewrite leval_dvar_minus, (leval_indep e2 q n z F2) in B. change (inject_Z 1) with 1 in B.
    assert (En : p n == z). { rewrite (Hp n HnV). unfold upd. now rewrite Nat.eqb_refl. }
    assert (Eq : upd q n z n == z) by (unfold upd; now rewrite Nat.eqb_refl).
    exists p. split; [|split; [exact Sp|]].
    + intros i Hi Hne. rewrite (Hp i Hi). unfold upd. destruct (Nat.eqb_spec i n); [contradiction|reflexivity].
    + apply rel_minus. rewrite Eq in B. assert (E : leval e1 p == z) by lra. rewrite E.
      destruct r; unfold rel_holds in *; lra.
  - intros [p [Hp [Sp R]]]. exists (leval e1 p). apply meet_spec. split.
    + apply elim_set_exact. exists (upd p n (leval e1 p)). split.
      * intros i Hi. unfold upd. destruct (Nat.eqb_spec i n) as [->|Hne]; [reflexivity|]. now apply Hp.
      * apply meet_spec. split; [now apply fresh_indep|]. apply sat_rel_sys. cbn [rel_holds].
        rewrite leval_dvar_minus, (leval_indep e1 p n _ F1). unfold upd. rewrite Nat.eqb_refl. change (inject_Z 1) with 1. ring.
    + apply sat_rel_sys. rewrite leval_dvar_minus, (leval_indep e2 q n _ F2). unfold upd. rewrite Nat.eqb_refl.
      change (inject_Z 1) with 1. apply rel_minus in R. destruct r; unfold rel_holds in *; lra.
Qed.

(* the variables with a non-zero coefficient in a linear form *)
Definition vars_of (l : lin) : list nat :=
  filter (fun i => negb (Z.eqb (nth i (lcoefs l) 0%Z) 0)) (seq 0 (length (lcoefs l))).

(* image:  lhs(new) r rhs(old) *)
Definition generalized_affine_image_lhs (n : nat) (lhs : lin) (r : relsym) (rhs : lin) (s : sys) : sys :=
  gen_rel n (vars_of lhs) rhs lhs (flip r) s.
(* preimage:  lhs(old) r rhs(new) *)
Definition generalized_affine_preimage_lhs (n : nat) (lhs : lin) (r : relsym) (rhs : lin) (s : sys) : sys :=
  gen_rel n (vars_of lhs) lhs rhs r s.

Lemma flip_holds r a b : rel_holds (flip r) a b <-> rel_holds r b a.
Proof. destruct r; unfold rel_holds, flip; split; intros; lra. Qed.

Theorem generalized_affine_image_lhs_spec n lhs r rhs s q :
  fresh n s -> lcoef lhs n = 0%Z -> lcoef rhs n = 0%Z -> ~ In n (vars_of lhs) ->
  (sat_sys (generalized_affine_image_lhs n lhs r rhs s) q <->
   exists p, (forall i, ~ In i (vars_of lhs) -> i <> n -> p i == q i) /\ sat_sys s p /\
             rel_holds r (leval lhs q) (leval rhs p)).
Proof.
  intros F F1 F2 Hn. unfold generalized_affine_image_lhs. rewrite (gen_rel_spec n _ rhs lhs (flip r) s q F F2 F1 Hn).
  split; intros [p [A [B C]]]; exists p; (split; [exact A|split; [exact B|]]); now apply flip_holds.
Qed.

Theorem generalized_affine_preimage_lhs_spec n lhs r rhs s q :
  fresh n s -> lcoef lhs n = 0%Z -> lcoef rhs n = 0%Z -> ~ In n (vars_of lhs) ->
  (sat_sys (generalized_affine_preimage_lhs n lhs r rhs s) q <->
   exists p, (forall i, ~ In i (vars_of lhs) -> i <> n -> p i == q i) /\ sat_sys s p /\
             rel_holds r (leval lhs p) (leval rhs q)).
Proof. intros F F1 F2 Hn. apply gen_rel_spec; assumption. Qed.
