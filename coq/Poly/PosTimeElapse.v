(* positive_time_elapse_assign:  P ^+ Q = { p + t q | p in P, q in Q, t > 0 }  computed exactly on constraint
   systems: with fresh coordinates z = t q (n of them) and t, the set is the projection on x of
        P(x - z)  /\  Q homogenised at (z, t)  /\  t > 0 ,
   because for t > 0 the point z / t satisfies a constraint of Q iff (z, t) satisfies its homogenisation. *)
From Coq Require Import List ZArith QArith Qminmax Lia Lqa Bool Setoid Morphisms.
Require Import PPLV.Base.FM PPLV.Base.Sys PPLV.Base.Gens PPLV.Poly.PolyOps PPLV.Poly.GensLeast PPLV.Poly.PolyGenOps.
Import ListNotations.
Local Open Scope Q_scope.

(* a.x - a.z + b   with z_k at position n + k *)
Definition diff_coefs (n : nat) (l : list Z) : list Z :=
  vadd l (rename_from (fun k => (n + k)%nat) 0 (map Z.opp l)).
(* a.z + b t  (constant moved onto t, at position 2n) *)
Definition hom_coefs (n : nat) (l : list Z) (b : Z) : list Z :=
  vadd (rename_from (fun k => (n + k)%nat) 0 l) (vscale b (unitv (n + n))).

Definition diff_c n (c : cstr) : cstr := {| coefs := diff_coefs n (coefs c); cst := cst c; strict := strict c |}.
Definition diff_e n (e : lin) : lin := {| lcoefs := diff_coefs n (lcoefs e); lcst := lcst e |}.
Definition hom_c' n (c : cstr) : cstr := {| coefs := hom_coefs n (coefs c) (cst c); cst := 0; strict := strict c |}.
Definition hom_e n (e : lin) : lin := {| lcoefs := hom_coefs n (lcoefs e) (lcst e); lcst := 0 |}.

Definition tpos (n : nat) : cstr := {| coefs := unitv (n + n); cst := 0; strict := true |}.

Definition pte_lift (n : nat) (sP sQ : sys) : sys :=
  {| eqs := map (diff_e n) (eqs sP) ++ map (hom_e n) (eqs sQ);
     ineqs := tpos n :: map (diff_c n) (ineqs sP) ++ map (hom_c' n) (ineqs sQ) |}.

Definition pos_time_elapse (n : nat) (sP sQ : sys) : sys := elim_set (seq n (S n)) (pte_lift n sP sQ).

(* evaluation lemmas *)
Definition zpart (n : nat) (y : point) : point := fun k => y (n + k)%nat.

Lemma dot_diff n l y : dot (diff_coefs n l) y 0 == dot l (fun k => y k - zpart n y k) 0.
Proof.
  unfold diff_coefs. rewrite dot_vadd, dot_rename, dot_opp.
  assert (X : forall l k (u v : point), dot l (fun i => u i - v i) k == dot l u k - dot l v k).
  { induction l0 as [|a l0 IH]; intros k u v; cbn [dot]; [ring|]. rewrite IH. ring. }
  rewrite X. unfold zpart. ring.
Qed.

Lemma dot_hom n l b y : dot (hom_coefs n l b) y 0 == dot l (zpart n y) 0 + inject_Z b * y (n + n)%nat.
Proof. unfold hom_coefs. rewrite dot_vadd, dot_rename, dot_vscale, dot_unitv. unfold zpart. ring. Qed.

Lemma dot_scale_pt l (t : Q) (q : point) : forall k, dot l (fun i => t * q i) k == t * dot l q k.
Proof. induction l as [|a l IH]; intros k; cbn [dot]; [ring|]. rewrite IH. ring. Qed.

Lemma dot_div_pt l (t : Q) (z : point) : ~ t == 0 -> forall k, dot l (fun i => z i / t) k * t == dot l z k.
Proof. intros Ht. induction l as [|a l IH]; intros k; cbn [dot]; [ring|]. rewrite <- IH. field. exact Ht. Qed.

Definition short (n : nat) (s : sys) : Prop := wf_sys_dim n s.

Lemma sat_lift n sP sQ y :
  sat_sys (pte_lift n sP sQ) y <->
  (0 < y (n + n)%nat /\
   sat_sys sP (fun k => y k - zpart n y k) /\
   (forall e, In e (eqs sQ) -> dot (lcoefs e) (zpart n y) 0 + inject_Z (lcst e) * y (n + n)%nat == 0) /\
   (forall c, In c (ineqs sQ) -> let v := dot (coefs c) (zpart n y) 0 + inject_Z (cst c) * y (n + n)%nat in
                                 if strict c then 0 < v else 0 <= v)).
Proof.
  unfold sat_sys, pte_lift, sat_eqs, sat_all; cbn [eqs ineqs].
  assert (ET : eval (tpos n) y == y (n + n)%nat).
  { unfold eval, tpos; cbn [coefs cst]. rewrite dot_unitv. change (inject_Z 0) with 0. ring. }
  split.
  - intros [HE HI]. split; [|split; [split|split]].
    + assert (S : sat (tpos n) y) by (apply HI; now left). unfold sat in S. cbn [tpos strict] in S. fold (tpos n) in S. lra.
    + intros e He. assert (X : leval (diff_e n e) y == 0) by (apply HE; apply in_or_app; left; now apply in_map).
      unfold leval, diff_e in X; cbn [lcoefs lcst] in X. rewrite dot_diff in X. exact X.
    + intros c Hc. assert (X : sat (diff_c n c) y) by (apply HI; right; apply in_or_app; left; now apply in_map).
      unfold sat, eval, diff_c in *; cbn [coefs cst strict] in *. pose proof (dot_diff n (coefs c) y) as D.
      destruct (strict c); lra.
    + intros e He. assert (X : leval (hom_e n e) y == 0) by (apply HE; apply in_or_app; right; now apply in_map).
      unfold leval, hom_e in X; cbn [lcoefs lcst] in X. rewrite dot_hom in X. change (inject_Z 0) with 0 in X. lra.
    + intros c Hc. assert (X : sat (hom_c' n c) y) by (apply HI; right; apply in_or_app; right; now apply in_map).
      unfold sat, eval, hom_c' in X; cbn [coefs cst strict] in X. pose proof (dot_hom n (coefs c) (cst c) y) as D.
      change (inject_Z 0) with 0 in X. cbn zeta. destruct (strict c); lra.
  - intros [Ht [[P1 P2] [Q1 Q2]]]. split.
    + intros e He. apply in_app_or in He. destruct He as [He|He]; apply in_map_iff in He; destruct He as [e0 [<- He0]].
      * unfold leval, diff_e; cbn [lcoefs lcst]. rewrite dot_diff. exact (P1 e0 He0).
      * unfold leval, hom_e; cbn [lcoefs lcst]. rewrite dot_hom. change (inject_Z 0) with 0. specialize (Q1 e0 He0). lra.
    + intros c [<-|Hc]; [unfold sat; cbn [tpos strict]; fold (tpos n); lra|].
      apply in_app_or in Hc. destruct Hc as [Hc|Hc]; apply in_map_iff in Hc; destruct Hc as [c0 [<- Hc0]].
      * specialize (P2 c0 Hc0). unfold sat, eval, diff_c in *; cbn [coefs cst strict] in *.
        pose proof (dot_diff n (coefs c0) y) as D. destruct (strict c0); lra.
      * specialize (Q2 c0 Hc0). cbn zeta in Q2. unfold sat, eval, hom_c'; cbn [coefs cst strict].
        pose proof (dot_hom n (coefs c0) (cst c0) y) as D. change (inject_Z 0) with 0. destruct (strict c0); lra.
Qed.

Theorem pos_time_elapse_spec n sP sQ x :
  short n sP -> short n sQ ->
  (sat_sys (pos_time_elapse n sP sQ) x <->
   exists p q t, 0 < t /\ sat_sys sP p /\ sat_sys sQ q /\ forall i, (i < n)%nat -> x i == p i + t * q i).
Proof.
  intros [SP1 SP2] [SQ1 SQ2]. unfold pos_time_elapse. rewrite <- elim_set_exact. split.
  - intros [y [Hy Hs]]. apply sat_lift in Hs. destruct Hs as [Ht [HP [HQ1 HQ2]]].
    set (t := y (n + n)%nat) in *. assert (Hne : ~ t == 0) by lra.
    exists (fun k => y k - zpart n y k), (fun k => zpart n y k / t), t. split; [exact Ht|]. split; [exact HP|]. split.
    + split.
      * intros e He. specialize (HQ1 e He). unfold leval.
        pose proof (dot_div_pt (lcoefs e) t (zpart n y) Hne 0%nat) as D.
        set (d := dot (lcoefs e) (fun i => zpart n y i / t) 0) in *. set (b := inject_Z (lcst e)) in *.
        assert (E : (d + b) * t == 0) by (rewrite <- HQ1, <- D; ring).
        destruct (Qeq_dec (d + b) 0) as [Z|Z]; [exact Z|]. apply Qmult_integral in E. tauto.
      * intros c Hc. specialize (HQ2 c Hc). cbn zeta in HQ2. unfold sat, eval.
        pose proof (dot_div_pt (coefs c) t (zpart n y) Hne 0%nat) as D.
        set (d := dot (coefs c) (fun i => zpart n y i / t) 0) in *. set (b := inject_Z (cst c)) in *.
        set (dz := dot (coefs c) (zpart n y) 0) in *. clearbody d dz b. destruct (strict c); nra.
    + intros i Hi. rewrite <- (Hy i) by (rewrite in_seq; lia). field. exact Hne.
  - intros [p [q [t [Ht [HP [HQ Hx]]]]]].
    (* y: x on [0,n), t q on [n,2n), t at 2n, x elsewhere *)
    set (y := fun k => if (k <? n)%nat then p k + t * q k
                       else if (k <? n + n)%nat then t * q (k - n)%nat
                       else if Nat.eqb k (n + n) then t else x k).
    assert (Yt : y (n + n)%nat == t).
    { unfold y. destruct (Nat.ltb_spec (n + n) n); [lia|]. destruct (Nat.ltb_spec (n + n) (n + n)); [lia|]. now rewrite Nat.eqb_refl. }
    assert (Yz : forall k, (k < n)%nat -> zpart n y k == t * q k).
    { intros k Hk. unfold zpart, y. destruct (Nat.ltb_spec (n + k) n); [lia|]. destruct (Nat.ltb_spec (n + k) (n + n)); [|lia].
      replace (n + k - n)%nat with k by lia. reflexivity. }
    assert (Yx : forall k, (k < n)%nat -> y k - zpart n y k == p k).
    { intros k Hk. rewrite (Yz k Hk). unfold y. destruct (Nat.ltb_spec k n); [|lia]. ring. }
    exists y. split.
    + intros i Hi. rewrite in_seq in Hi. unfold y. destruct (Nat.ltb_spec i n) as [L|L]; [symmetry; now apply Hx|].
      destruct (Nat.ltb_spec i (n + n)); [lia|]. destruct (Nat.eqb_spec i (n + n)); [lia|reflexivity].
    + apply sat_lift. rewrite Yt. split; [exact Ht|]. destruct HP as [P1 P2]. destruct HQ as [Q1 Q2]. split; [split|split].
      * intros e He. rewrite <- (P1 e He). unfold leval.
        rewrite (dot_prefix (lcoefs e) (fun k => y k - zpart n y k) p 0%nat); [reflexivity|].
        intros i Hi. apply Yx. specialize (SP1 e He). lia.
      * intros c Hc. specialize (P2 c Hc). unfold sat, eval in *.
        assert (D : dot (coefs c) (fun k => y k - zpart n y k) 0 == dot (coefs c) p 0).
        { apply dot_prefix. intros i Hi. apply Yx. specialize (SP2 c Hc). lia. }
        destruct (strict c); lra.
      * intros e He. specialize (Q1 e He). unfold leval in Q1.
        rewrite (dot_prefix (lcoefs e) (zpart n y) (fun k => t * q k) 0%nat) by (intros i Hi; apply Yz; specialize (SQ1 e He); lia).
        rewrite dot_scale_pt. set (d := dot (lcoefs e) q 0) in *. set (b := inject_Z (lcst e)) in *. clearbody d b. nra.
      * intros c Hc. specialize (Q2 c Hc). unfold sat, eval in Q2. cbn zeta.
        assert (D : dot (coefs c) (zpart n y) 0 == t * dot (coefs c) q 0).
        { rewrite (dot_prefix (coefs c) (zpart n y) (fun k => t * q k) 0%nat) by (intros i Hi; apply Yz; specialize (SQ2 c Hc); lia).
          apply dot_scale_pt. }
        set (d := dot (coefs c) q 0) in *. set (b := inject_Z (cst c)) in *. set (dz := dot (coefs c) (zpart n y) 0) in *.
        clearbody d b dz. destruct (strict c); nra.
Qed.
