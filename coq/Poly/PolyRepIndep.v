(* Representation independence of the reference queries: two constraint systems denoting the same point
   set get the same answer from every query (whenever both answers are defined). *)
From Coq Require Import List ZArith QArith Qminmax Qabs Lia Lqa Bool Setoid Morphisms.
Require Import PPLV.Base.FM PPLV.Base.Sys PPLV.Base.Gens PPLV.Poly.PolyOps PPLV.Base.Sup PPLV.Poly.PolyQuery.
Import ListNotations.
Local Open Scope Q_scope.

Definition same_set (s t : sys) : Prop := forall p, sat_sys s p <-> sat_sys t p.

Lemma bool_iff (b b' : bool) (P P' : Prop) : (b = true <-> P) -> (b' = true <-> P') -> (P <-> P') -> b = b'.
Proof. intros H H' E. destruct b, b'; auto; [assert (false = true) by tauto|assert (false = true) by tauto]; discriminate. Qed.

Theorem is_empty_rep_indep n s t b b' : same_set s t -> q_is_empty n s = Some b -> q_is_empty n t = Some b' -> b = b'.
Proof.
  intros E H H'. apply (bool_iff _ _ _ _ (q_is_empty_exact _ _ _ H) (q_is_empty_exact _ _ _ H')).
  split; intros X p Hp; apply (X p); now apply E.
Qed.

Theorem is_universe_rep_indep n s t b b' : same_set s t -> q_is_universe n s = Some b -> q_is_universe n t = Some b' -> b = b'.
Proof.
  intros E H H'. apply (bool_iff _ _ _ _ (q_is_universe_exact _ _ _ H) (q_is_universe_exact _ _ _ H')).
  split; intros X p; apply E, X.
Qed.

Theorem contains_rep_indep n x x' y y' b b' : same_set x x' -> same_set y y' ->
  q_contains n x y = Some b -> q_contains n x' y' = Some b' -> b = b'.
Proof.
  intros Ex Ey H H'. apply (bool_iff _ _ _ _ (q_contains_exact _ _ _ _ H) (q_contains_exact _ _ _ _ H')).
  split; intros X p Hp; apply Ex, X, Ey, Hp.
Qed.

Theorem is_disjoint_rep_indep n x x' y y' b b' : same_set x x' -> same_set y y' ->
  q_is_disjoint n x y = Some b -> q_is_disjoint n x' y' = Some b' -> b = b'.
Proof.
  intros Ex Ey H H'. apply (bool_iff _ _ _ _ (q_is_disjoint_exact _ _ _ _ H) (q_is_disjoint_exact _ _ _ _ H')).
  split; intros X p [A B]; apply (X p); split; (apply Ex || apply Ey); assumption.
Qed.

Theorem equals_rep_indep n x x' y y' b b' : same_set x x' -> same_set y y' ->
  q_equals n x y = Some b -> q_equals n x' y' = Some b' -> b = b'.
Proof.
  intros Ex Ey H H'. apply (bool_iff _ _ _ _ (q_equals_exact _ _ _ _ H) (q_equals_exact _ _ _ _ H')).
  split; intros X p.
  - rewrite <- (Ex p), <- (Ey p). apply X.
  - rewrite (Ex p), (Ey p). apply X.
Qed.

Theorem is_bounded_rep_indep n s t b b' : same_set s t -> q_is_bounded n s = Some b -> q_is_bounded n t = Some b' -> b = b'.
Proof.
  intros E H H'. apply (bool_iff _ _ _ _ (q_is_bounded_exact _ _ _ H) (q_is_bounded_exact _ _ _ H')).
  split; intros X i Hi; destruct (X i Hi) as [B HB]; exists B; intros p Hp; apply HB, E, Hp.
Qed.

Theorem is_closed_rep_indep n s t b b' : same_set s t -> q_is_closed n s = Some b -> q_is_closed n t = Some b' -> b = b'.
Proof.
  intros E H H'. apply (bool_iff _ _ _ _ (q_is_closed_exact _ _ _ H) (q_is_closed_exact _ _ _ H')).
  split; intros [u [Hu Eu]]; exists u; (split; [exact Hu|]); intros p.
  - rewrite <- (E p). exact (Eu p).
  - rewrite (E p). exact (Eu p).
Qed.

Theorem relation_included_rep_indep n s t c b b' : same_set s t ->
  rel_is_included n s c = Some b -> rel_is_included n t c = Some b' -> b = b'.
Proof.
  intros E H H'. apply (bool_iff _ _ _ _ (rel_is_included_exact _ _ _ _ H) (rel_is_included_exact _ _ _ _ H')).
  split; intros X p Hp; apply X, E, Hp.
Qed.

Theorem relation_disjoint_rep_indep n s t c b b' : same_set s t ->
  rel_is_disjoint n s c = Some b -> rel_is_disjoint n t c = Some b' -> b = b'.
Proof.
  intros E H H'. apply (bool_iff _ _ _ _ (rel_is_disjoint_exact _ _ _ _ H) (rel_is_disjoint_exact _ _ _ _ H')).
  split; intros X p [A B]; apply (X p); (split; [apply E; exact A|exact B]).
Qed.

Theorem bounds_above_rep_indep n e s t b b' : same_set s t ->
  q_bounds_above n e s = Some b -> q_bounds_above n e t = Some b' -> b = b'.
Proof.
  intros E H H'. apply (bool_iff _ _ _ _ (q_bounds_above_exact _ _ _ _ H) (q_bounds_above_exact _ _ _ _ H')).
  split; intros [B HB]; exists B; intros p Hp; apply HB, E, Hp.
Qed.

(* optimisation: same kind of answer, same value, same attained flag *)
Definition supres_eq (r r' : supres) : Prop :=
  match r, r' with
  | SupEmpty, SupEmpty => True
  | SupUnbounded, SupUnbounded => True
  | SupVal m a, SupVal m' a' => m == m' /\ a = a'
  | _, _ => False
  end.

Theorem maximize_rep_indep n e s t r r' : same_set s t ->
  q_maximize n e s = Some r -> q_maximize n e t = Some r' -> supres_eq r r'.
Proof.
  intros E H H'. apply q_maximize_exact in H. apply q_maximize_exact in H'.
  destruct r as [| |m a], r' as [| |m' a']; cbn [sup_spec supres_eq] in *; auto.
  - destruct H' as [[p Hp] _]. apply (H p). now apply E.
  - destruct H' as [[p Hp] _]. apply (H p). now apply E.
  - destruct H as [[p Hp] _]. apply (H' p). now apply E.
  - (* unbounded vs finite *)
    destruct H as [_ HU]. destruct H' as [_ [HB _]]. destruct (HU m') as [p [Hp Hl]]. apply E in Hp. specialize (HB p Hp). lra.
  - destruct H as [[p Hp] _]. apply (H' p). now apply E.
  - destruct H' as [_ HU]. destruct H as [_ [HB _]]. destruct (HU m) as [p [Hp Hl]]. apply E in Hp. specialize (HB p Hp). lra.
  - destruct H as [_ [B1 [A1 N1]]]. destruct H' as [_ [B2 [A2 N2]]].
    assert (Em : m == m').
    { destruct (Qlt_le_dec m m') as [L|L1]; [exfalso|destruct (Qlt_le_dec m' m) as [L2|L2]; [exfalso|lra]].
      - (* values of t approach or attain m' > m *)
        destruct a'.
        + destruct (A2 eq_refl) as [p [Hp Ep]]. apply E in Hp. specialize (B1 p Hp). lra.
        + destruct (N2 eq_refl) as [_ AP]. destruct (AP (m' - m)) as [p [Hp Hl]]; [lra|]. apply E in Hp. specialize (B1 p Hp). lra.
      - destruct a.
        + destruct (A1 eq_refl) as [p [Hp Ep]]. apply E in Hp. specialize (B2 p Hp). lra.
        + destruct (N1 eq_refl) as [_ AP]. destruct (AP (m - m')) as [p [Hp Hl]]; [lra|]. apply E in Hp. specialize (B2 p Hp). lra. }
    split; [exact Em|]. destruct a, a'; auto; exfalso.
    + destruct (A1 eq_refl) as [p [Hp Ep]]. apply E in Hp. destruct (N2 eq_refl) as [LT _]. specialize (LT p Hp). lra.
    + destruct (A2 eq_refl) as [p [Hp Ep]]. apply E in Hp. destruct (N1 eq_refl) as [LT _]. specialize (LT p Hp). lra.
Qed.
