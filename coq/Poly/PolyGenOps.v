(* Reference operators defined on generator systems: time-elapse, fold of space dimensions, and the
   exact test "the union of two polyhedra is convex" used by poly_hull_assign_if_exact. *)
From Coq Require Import List ZArith QArith Qminmax Lia Lqa Bool Setoid Morphisms.
Require Import PPLV.Base.FM PPLV.Base.Sys PPLV.Base.Gens PPLV.Poly.PolyOps PPLV.Poly.GensLeast.
Import ListNotations.
Local Open Scope Q_scope.

(* ---------- time elapse:  P ^ Q = { p + t q | p in P, q in Q, t >= 0 } ---------- *)
(* the generators of Q as directions: points and closure points become rays (dropped when null) *)
Definition all_zero_z (l : list Z) : bool := forallb (Z.eqb 0) l.

Definition dir_of (g : gen) : list gen :=
  match gk g with
  | GLine => [g]
  | GRay => [g]
  | GPoint | GClosure => if all_zero_z (gcoefs g) then [] else [{| gk := GRay; gcoefs := gcoefs g; gdiv := 1%Z |}]
  end.

Definition te_gens (G1 G2 : list gen) : list gen := G1 ++ flat_map dir_of G2.

Definition time_elapse_set (n : nat) (G1 G2 : list gen) (x : point) : Prop :=
  exists p q t, in_gens n G1 p /\ in_gens n G2 q /\ 0 <= t /\ forall i, (i < n)%nat -> x i == p i + t * q i.

(* ---------- fold_space_dimensions: each folded variable v contributes a copy of the set with x_dest := x_v ---------- *)
Fixpoint set_nth (l : list Z) (k : nat) (x : Z) : list Z :=
  match k, l with
  | O, [] => [x]
  | O, _ :: l' => x :: l'
  | S k', [] => 0%Z :: set_nth [] k' x
  | S k', y :: l' => y :: set_nth l' k' x
  end.

Definition subst_coord (dest v : nat) (g : gen) : gen :=
  {| gk := gk g; gcoefs := set_nth (gcoefs g) dest (nth v (gcoefs g) 0%Z); gdiv := gdiv g |}.

Definition fold_gens (vs : list nat) (dest : nat) (G : list gen) : list gen :=
  G ++ flat_map (fun v => map (subst_coord dest v) G) vs.

(* ---------- is the union of two constraint-defined sets convex (= equal to the hull H) ? ---------- *)
(* H \ P is covered by Q  iff  for every constraint c of P,  H /\ not c  is included in Q;
   an equality of P contributes its two strict sides *)
Definition neg_pieces (s : sys) : list cstr :=
  map neg_c (ineqs s) ++
  flat_map (fun e => [ {| coefs := lcoefs e; cst := lcst e; strict := true |};
                       {| coefs := map Z.opp (lcoefs e); cst := (- lcst e)%Z; strict := true |} ]) (eqs s).

Definition covered_by_union (n : nat) (h p q : sys) : option bool :=
  oall (fun c => incl_sys n (add_ineq c h) q) (neg_pieces p).

Lemma not_sat_sys_piece s x : ~ sat_sys s x <-> exists c, In c (neg_pieces s) /\ sat c x.
Proof.
  unfold neg_pieces. split.
  - intros H.
    (* search the inequalities, then the equalities *)
    assert (DI : (exists c, In c (ineqs s) /\ ~ sat c x) \/ sat_all (ineqs s) x).
    { unfold sat_all. induction (ineqs s) as [|c l IH]; [right; intros c []|].
      destruct (sat_dec c x) as [Hc|Hc].
      - destruct IH as [[c' [A B]]|IH]; [left; exists c'; split; [now right|exact B]|].
        right. intros c' [<-|Hc']; auto.
      - left. exists c. split; [now left|exact Hc]. }
    destruct DI as [[c [A B]]|DI].
    + exists (neg_c c). split; [apply in_or_app; left; now apply in_map|now apply sat_neg].
    + assert (DE : exists e, In e (eqs s) /\ ~ leval e x == 0).
      { assert (X : (exists e, In e (eqs s) /\ ~ leval e x == 0) \/ sat_eqs (eqs s) x).
        { unfold sat_eqs. induction (eqs s) as [|e l IH]; [right; intros e []|].
          destruct (Qeq_dec (leval e x) 0) as [He|He].
          - destruct IH as [[e' [A B]]|IH]; [left; exists e'; split; [now right|exact B]|].
            right. intros e' [<-|He']; auto.
          - left. exists e. split; [now left|exact He]. }
        destruct X as [X|X]; [exact X|]. exfalso. apply H. split; assumption. }
      destruct DE as [e [A B]].
      destruct (Qlt_le_dec 0 (leval e x)) as [Hp|Hn].
      * exists {| coefs := lcoefs e; cst := lcst e; strict := true |}. split.
        -- apply in_or_app. right. apply in_flat_map. exists e. split; [exact A|now left].
        -- unfold sat, eval; cbn [coefs cst strict]. exact Hp.
      * exists {| coefs := map Z.opp (lcoefs e); cst := (- lcst e)%Z; strict := true |}. split.
        -- apply in_or_app. right. apply in_flat_map. exists e. split; [exact A|right; now left].
        -- unfold sat, eval; cbn [coefs cst strict]. rewrite dot_opp, inject_Z_opp. unfold leval in *. lra.
  - intros [c [Hc Sc]] [HE HI]. apply in_app_or in Hc. destruct Hc as [Hc|Hc].
    + apply in_map_iff in Hc. destruct Hc as [c0 [<- Hc0]]. apply sat_neg in Sc. apply Sc. now apply HI.
    + apply in_flat_map in Hc. destruct Hc as [e [He Hc]]. specialize (HE e He).
      destruct Hc as [<-|[<-|[]]]; unfold sat, eval in Sc; cbn [coefs cst strict] in Sc.
      * unfold leval in HE. lra.
      * rewrite dot_opp, inject_Z_opp in Sc. unfold leval in HE. lra.
Qed.

Lemma sat_sys_dec s x : sat_sys s x \/ ~ sat_sys s x.
Proof.
  assert (DE : sat_eqs (eqs s) x \/ ~ sat_eqs (eqs s) x).
  { unfold sat_eqs. induction (eqs s) as [|e l IH]; [left; intros e []|].
    destruct (Qeq_dec (leval e x) 0) as [He|He].
    - destruct IH as [IH|IH]; [left; intros e' [<-|H]; auto|right; intros H; apply IH; intros e' He'; apply H; now right].
    - right. intros H. apply He. apply H. now left. }
  assert (DI : sat_all (ineqs s) x \/ ~ sat_all (ineqs s) x).
  { unfold sat_all. induction (ineqs s) as [|c l IH]; [left; intros c []|].
    destruct (sat_dec c x) as [Hc|Hc].
    - destruct IH as [IH|IH]; [left; intros c' [<-|H]; auto|right; intros H; apply IH; intros c' Hc'; apply H; now right].
    - right. intros H. apply Hc. apply H. now left. }
  destruct DE as [DE|DE]; [|right; intros [A _]; contradiction].
  destruct DI as [DI|DI]; [left; split; assumption|right; intros [_ B]; contradiction].
Qed.

Theorem covered_by_union_exact n h p q b :
  covered_by_union n h p q = Some b ->
  (b = true <-> forall x, sat_sys h x -> sat_sys p x \/ sat_sys q x).
Proof.
  unfold covered_by_union. intros H.
  rewrite (oall_spec _ (fun c => forall x, sat_sys (add_ineq c h) x -> sat_sys q x) _ _
             (fun c bc Hc => incl_sys_exact n (add_ineq c h) q bc Hc) H).
  split.
  - intros X x Hx.
    destruct (sat_sys_dec p x) as [D|D]; [now left|right].
    apply not_sat_sys_piece in D. destruct D as [c [A B]]. apply (X c A). apply sat_add_ineq. split; assumption.
  - intros X c Hc x Hx. apply sat_add_ineq in Hx. destruct Hx as [Sc Hh].
    destruct (X x Hh) as [Hp|Hq]; [|exact Hq]. exfalso.
    assert (N : ~ sat_sys p x) by (apply not_sat_sys_piece; now exists c). contradiction.
Qed.
