(* Reference operators defined on generator systems: time-elapse, fold of space dimensions, and the
   exact test "the union of two polyhedra is convex" used by poly_hull_assign_if_exact. *)
From Coq Require Import List ZArith QArith Qminmax Lia Lqa Bool Setoid Morphisms.
Require Import PPLV.Base.FM PPLV.Base.Sys PPLV.Base.Gens PPLV.Poly.PolyOps PPLV.Poly.GensLeast.
Import ListNotations.
Local Open Scope Q_scope.

(* ---------- time elapse:  P ^ Q = { p + t q | p in P, q in Q, t >= 0 } ---------- *)
(* the generators of Q as directions: points and closure points become rays (dropped when null) *)
Definition all_zero_z (l : list Z) : bool := forallb (Z.eqb 0) l.

Definition dir_of (g : gen) : list gen :=
  match gk g with
  | GLine => [g]
  | GRay => [g]
  | GPoint | GClosure => if all_zero_z (gcoefs g) then [] else [{| gk := GRay; gcoefs := gcoefs g; gdiv := 1%Z |}]
  end.

Definition te_gens (G1 G2 : list gen) : list gen := G1 ++ flat_map dir_of G2.

Definition time_elapse_set (n : nat) (G1 G2 : list gen) (x : point) : Prop :=
  exists p q t, in_gens n G1 p /\ in_gens n G2 q /\ 0 <= t /\ forall i, (i < n)%nat -> x i == p i + t * q i.

(* ---------- fold_space_dimensions: each folded variable v contributes a copy of the set with x_dest := x_v ---------- *)
Fixpoint set_nth (l : list Z) (k : nat) (x : Z) : list Z :=
  match k, l with
  | O, [] => [x]
  | O, _ :: l' => x :: l'
  | S k', [] => 0%Z :: set_nth [] k' x
  | S k', y :: l' => y :: set_nth l' k' x
  end.

Definition subst_coord (dest v : nat) (g : gen) : gen :=
  {| gk := gk g; gcoefs := set_nth (gcoefs g) dest (nth v (gcoefs g) 0%Z); gdiv := gdiv g |}.

Definition fold_gens (vs : list nat) (dest : nat) (G : list gen) : list gen :=
  G ++ flat_map (fun v => map (subst_coord dest v) G) vs.

(* ---------- is the union of two constraint-defined sets convex (= equal to the hull H) ? ---------- *)
(* H \ P is covered by Q  iff  for every constraint c of P,  H /\ not c  is included in Q;
   an equality of P contributes its two strict sides *)
Definition neg_pieces (s : sys) : list cstr :=
  map neg_c (ineqs s) ++
  flat_map (fun e => [ {| coefs := lcoefs e; cst := lcst e; strict := true |};
                       {| coefs := map Z.opp (lcoefs e); cst := (- lcst e)%Z; strict := true |} ]) (eqs s).

Definition covered_by_union (n : nat) (h p q : sys) : option bool :=
  oall (fun c => incl_sys n (add_ineq c h) q) (neg_pieces p).

Lemma not_sat_sys_piece s x : ~ sat_sys s x <-> exists c, In c (neg_pieces s) /\ sat c x.
Proof.
  unfold neg_pieces. split.
  - intros H.
    (* search the inequalities, then the equalities *)
    assert (DI : (exists c, In c (ineqs s) /\ ~ sat c x) \/ sat_all (ineqs s) x).
    { unfold sat_all. induction (ineqs s) as [|c l IH]; [right; intros c []|].
      destruct (sat_dec c x) as [Hc|Hc].
      - destruct IH as [[c' [A B]]|IH]; [left; exists c'; split; [now right|exact B]|].
        right. intros c' [<-|Hc']; auto.
      - left. exists c. split; [now left|exact Hc]. }
    destruct DI as [[c [A B]]|DI].
    + exists (neg_c c). split; [apply in_or_app; left; now apply in_map|now apply sat_neg].
    + assert (DE : exists e, In e (eqs s) /\ ~ leval e x == 0).
      { assert (X : (exists e, In e (eqs s) /\ ~ leval e x == 0) \/ sat_eqs (eqs s) x).
        { unfold sat_eqs. induction (eqs s) as [|e l IH]; [right; intros e []|].
          destruct (Qeq_dec (leval e x) 0) as [He|He].
          - destruct IH as [[e' [A B]]|IH]; [left; exists e'; split; [now right|exact B]|].
            right. intros e' [<-|He']; auto.
          - left. exists e. split; [now left|exact He]. }
        destruct X as [X|X]; [exact X|]. exfalso. apply H. split; assumption. }
      destruct DE as [e [A B]].
      destruct (Qlt_le_dec 0 (leval e x)) as [Hp|Hn].
      * exists {| coefs := lcoefs e; cst := lcst e; strict := true |}. split.
        -- apply in_or_app. right. apply in_flat_map. exists e. split; [exact A|now left].
        -- unfold sat, eval; cbn [coefs cst strict]. exact Hp.
      * exists {| coefs := map Z.opp (lcoefs e); cst := (- lcst e)%Z; strict := true |}. split.
        -- apply in_or_app. right. apply in_flat_map. exists e. split; [exact A|right; now left].
        -- unfold sat, eval; cbn [coefs cst strict]. rewrite dot_opp, inject_Z_opp. unfold leval in *. lra.
  - intros [c [Hc Sc]] [HE HI]. apply in_app_or in Hc. destruct Hc as [Hc|Hc].
    + apply in_map_iff in Hc. destruct Hc as [c0 [<- Hc0]]. apply sat_neg in Sc. apply Sc. now apply HI.
    + apply in_flat_map in Hc. destruct Hc as [e [He Hc]]. specialize (HE e He).
      destruct Hc as [<-|[<-|[]]]; unfold sat, eval in Sc; cbn [coefs cst strict] in Sc.
      * unfold leval in HE. lra.
      * rewrite dot_opp, inject_Z_opp in Sc. unfold leval in HE. lra.
Qed.

Lemma sat_sys_dec s x : sat_sys s x \/ ~ sat_sys s x.
Proof.
  assert (DE : sat_eqs (eqs s) x \/ ~ sat_eqs (eqs s) x).
  { unfold sat_eqs. induction (eqs s) as [|e l IH]; [left; intros e []|].
    destruct (Qeq_dec (leval e x) 0) as [He|He].
    - destruct IH as [IH|IH]; [left; intros e' [<-|H]; auto|right; intros H; apply IH; intros e' He'; apply H; now right].
    - right. intros H. apply He. apply H. now left. }
  assert (DI : sat_all (ineqs s) x \/ ~ sat_all (ineqs s) x).
  { unfold sat_all. induction (ineqs s) as [|c l IH]; [left; intros c []|].
    destruct (sat_dec c x) as [Hc|Hc].
    - destruct IH as [IH|IH]; [left; intros c' [<-|H]; auto|right; intros H; apply IH; intros c' Hc'; apply H; now right].
    - right. intros H. apply Hc. apply H. now left. }
  destruct DE as [DE|DE]; [|right; intros [A _]; contradiction].
  destruct DI as [DI|DI]; [left; split; assumption|right; intros [_ B]; contradiction].
Qed.

Theorem covered_by_union_exact n h p q b :
  covered_by_union n h p q = Some b ->
  (b = true <-> forall x, sat_sys h x -> sat_sys p x \/ sat_sys q x).
Proof.
  unfold covered_by_union. intros H.
  rewrite (oall_spec _ (fun c => forall x, sat_sys (add_ineq c h) x -> sat_sys q x) _ _
             (fun c bc Hc => incl_sys_exact n (add_ineq c h) q bc Hc) H).
  split.
  - intros X x Hx.
    destruct (sat_sys_dec p x) as [D|D]; [now left|right].
    apply not_sat_sys_piece in D. destruct D as [c [A B]]. apply (X c A). apply sat_add_ineq. split; assumption.
  - intros X c Hc x Hx. apply sat_add_ineq in Hx. destruct Hx as [Sc Hh].
    destruct (X x Hh) as [Hp|Hq]; [|exact Hq]. exfalso.
    assert (N : ~ sat_sys p x) by (apply not_sat_sys_piece; now exists c). contradiction.
Qed.

(* ---------- time elapse: the generated set is the least polyhedron containing { p + t q } ---------- *)
Lemma dot_prefix l : forall (x y : point) k, (forall i, (k <= i < k + length l)%nat -> x i == y i) -> dot l x k == dot l y k.
Proof.
  induction l as [|a l IH]; intros x y k H; cbn [dot]; [reflexivity|].
  rewrite (H k) by (cbn [length]; lia). rewrite (IH x y (S k)) by (intros i Hi; apply H; cbn [length]; lia). reflexivity.
Qed.

Lemma dot_lin l (p q : point) t : forall k, dot l (fun i => p i + t * q i) k == dot l p k + t * dot l q k.
Proof. induction l as [|a l IH]; intros k; cbn [dot]; [ring|]. rewrite IH. ring. Qed.

Definition hom_c (c : cstr) : cstr := {| coefs := coefs c; cst := 0; strict := false |}.

Lemma gF_hom c g : gF (hom_c c) g == hval (coefs c) g.
Proof. unfold gF, hom_c; cbn [coefs cst]. change (inject_Z 0) with 0. ring. Qed.

Lemma wf_dir_of g0 : forall g, In g (dir_of g0) -> match gk g with GPoint | GClosure => (0 < gdiv g)%Z | _ => True end.
Proof.
  intros g Hg. unfold dir_of in Hg. destruct (gk g0) eqn:K.
  - destruct Hg as [<-|[]]. now rewrite K.
  - destruct Hg as [<-|[]]. now rewrite K.
  - destruct (all_zero_z (gcoefs g0)); [destruct Hg|]. destruct Hg as [<-|[]]. exact I.
  - destruct (all_zero_z (gcoefs g0)); [destruct Hg|]. destruct Hg as [<-|[]]. exact I.
Qed.

Lemma wf_te_gens G1 G2 : wf_gens G1 -> wf_gens (te_gens G1 G2).
Proof.
  intros W g Hg. unfold te_gens in Hg. apply in_app_or in Hg. destruct Hg as [Hg|Hg]; [now apply W|].
  apply in_flat_map in Hg. destruct Hg as [g0 [_ Hg]]. now apply (wf_dir_of g0).
Qed.

Lemma gen_ok_dir c g0 : gen_ok (hom_c c) g0 -> forall g, In g (dir_of g0) -> gen_ok c g.
Proof.
  intros H g Hg. pose proof (gF_hom c g0) as E. unfold gen_ok in H. cbn [hom_c strict] in H.
  unfold dir_of in Hg. destruct (gk g0) eqn:K.
  - destruct Hg as [<-|[]]. unfold gen_ok. rewrite K. unfold gF, pc_weight. rewrite K. change (inject_Z 0) with 0. lra.
  - destruct Hg as [<-|[]]. unfold gen_ok. rewrite K. unfold gF, pc_weight. rewrite K. change (inject_Z 0) with 0. lra.
  - destruct (all_zero_z (gcoefs g0)); [destruct Hg|]. destruct Hg as [<-|[]].
    unfold gen_ok, gF, pc_weight; cbn [gk]. change (inject_Z 0) with 0.
    assert (X : hval (coefs c) {| gk := GRay; gcoefs := gcoefs g0; gdiv := 1 |} == hval (coefs c) g0) by reflexivity.
    rewrite X. lra.
  - destruct (all_zero_z (gcoefs g0)); [destruct Hg|]. destruct Hg as [<-|[]].
    unfold gen_ok, gF, pc_weight; cbn [gk]. change (inject_Z 0) with 0.
    assert (X : hval (coefs c) {| gk := GRay; gcoefs := gcoefs g0; gdiv := 1 |} == hval (coefs c) g0) by reflexivity.
    rewrite X. lra.
Qed.

Lemma te_ineq_valid n G1 G2 c :
  wf_gens G1 -> wf_gens G2 -> (length (coefs c) <= n)%nat ->
  (forall g, In g G1 -> (length (gcoefs g) <= n)%nat) -> (forall g, In g G2 -> (length (gcoefs g) <= n)%nat) ->
  (exists p, in_gens n G1 p) -> (exists q, in_gens n G2 q) ->
  (forall x, time_elapse_set n G1 G2 x -> sat c x) ->
  forall x, in_gens n (te_gens G1 G2) x -> sat c x.
Proof.
  intros W1 W2 Lc L1 L2 [p1 Hp1] [q0 Hq0] Hall x Hx.
  (* valid on P *)
  assert (VP : forall p, in_gens n G1 p -> sat c p).
  { intros p Hp. apply Hall. exists p, q0, 0. split; [exact Hp|]. split; [exact Hq0|]. split; [lra|]. intros i _. ring. }
  (* the homogeneous part is non-negative on Q *)
  assert (VQ : forall q, in_gens n G2 q -> sat (hom_c c) q).
  { intros q Hq. unfold sat, eval, hom_c; cbn [coefs cst strict]. change (inject_Z 0) with 0.
    set (h := dot (coefs c) q 0). destruct (Qlt_le_dec h 0) as [Hn|Hp]; [exfalso|lra].
    set (e1 := eval c p1). pose proof (VP p1 Hp1) as S1. unfold sat in S1. fold e1 in S1.
    assert (E1 : 0 <= e1) by (destruct (strict c); lra).
    set (t := (e1 + 1) / - h). assert (Ht : 0 <= t) by (unfold t; apply Qle_shift_div_l; lra).
    assert (Et : t * h == - (e1 + 1)) by (unfold t; field; lra).
    assert (Hin : time_elapse_set n G1 G2 (fun i => p1 i + t * q i)).
    { exists p1, q, t. split; [exact Hp1|]. split; [exact Hq|]. split; [exact Ht|]. intros i _. reflexivity. }
    apply Hall in Hin. unfold sat, eval in Hin. pose proof (dot_lin (coefs c) p1 q t 0%nat) as DL. fold h in DL.
    unfold e1, eval in *. set (d1 := dot (coefs c) p1 0) in *. set (b := inject_Z (cst c)) in *.
    set (z := dot (coefs c) (fun i => p1 i + t * q i) 0) in *.
    clearbody z d1 h t b. destruct (strict c); nra. }
  apply (gens_valid_sound n c (te_gens G1 G2) (wf_te_gens G1 G2 W1) Lc); [|exact Hx].
  intros g Hg. unfold te_gens in Hg. apply in_app_or in Hg. destruct Hg as [Hg|Hg].
  - exact (gens_valid_complete n c G1 W1 Lc L1 (ex_intro _ p1 Hp1) VP g Hg).
  - apply in_flat_map in Hg. destruct Hg as [g0 [Hg0 Hg]].
    apply (gen_ok_dir c g0); [|exact Hg].
    exact (gens_valid_complete n (hom_c c) G2 W2 Lc L2 (ex_intro _ q0 Hq0) VQ g0 Hg0).
Qed.

Theorem time_elapse_least n G1 G2 (t : sys) :
  wf_gens G1 -> wf_gens G2 -> wf_sys_dim n t ->
  (forall g, In g G1 -> (length (gcoefs g) <= n)%nat) -> (forall g, In g G2 -> (length (gcoefs g) <= n)%nat) ->
  (exists p, in_gens n G1 p) -> (exists q, in_gens n G2 q) ->
  (forall x, time_elapse_set n G1 G2 x -> sat_sys t x) ->
  forall x, in_gens n (te_gens G1 G2) x -> sat_sys t x.
Proof.
  intros W1 W2 [Wd1 Wd2] L1 L2 N1 N2 Hall x Hx. split.
  - intros e He. apply eq_as_ineqs.
    assert (Lg : (length (coefs (ge_of e)) <= n)%nat) by (cbn; now apply Wd1).
    assert (Ll : (length (coefs (le_of e)) <= n)%nat) by (unfold le_of, neg_c; cbn [coefs]; rewrite map_length; now apply Wd1).
    split.
    + apply (te_ineq_valid n G1 G2 (ge_of e) W1 W2 Lg L1 L2 N1 N2); [|exact Hx].
      intros y Hy. apply (eq_as_ineqs e y). now apply (proj1 (Hall y Hy)).
    + apply (te_ineq_valid n G1 G2 (le_of e) W1 W2 Ll L1 L2 N1 N2); [|exact Hx].
      intros y Hy. apply (eq_as_ineqs e y). now apply (proj1 (Hall y Hy)).
  - intros c Hc. apply (te_ineq_valid n G1 G2 c W1 W2 (Wd2 c Hc) L1 L2 N1 N2); [|exact Hx].
    intros y Hy. now apply (proj2 (Hall y Hy)).
Qed.

(* ---------- time elapse: the generated set contains { p + t q } ---------- *)
Lemma all_zero_z_gcoord g i : all_zero_z (gcoefs g) = true -> gcoord i g = 0%Z.
Proof.
  unfold all_zero_z, gcoord. rewrite forallb_forall. intros H.
  destruct (nth_in_or_default i (gcoefs g) 0%Z) as [Hin|Hd]; [|exact Hd].
  specialize (H _ Hin). apply Z.eqb_eq in H. now symmetry.
Qed.

Definition vcons (a : Q) (nu : nat -> Q) : nat -> Q := fun j => match j with O => a | S j' => nu j' end.

Lemma dot_vcons l a nu : dot l (vcons a nu) 1 == dot l nu 0.
Proof. apply dot_shift. intros t. reflexivity. Qed.

Lemma dirs_weights t G2 : 0 <= t -> forall (mu : nat -> Q) k,
  (forall j g, nth_error G2 j = Some g -> is_line g = false -> 0 <= mu (k + j)%nat) ->
  exists nu : nat -> Q,
    (forall j g, nth_error (flat_map dir_of G2) j = Some g -> is_line g = false -> 0 <= nu j) /\
    dot (map pc_weight (flat_map dir_of G2)) nu 0 == 0 /\
    dot (map p_weight (flat_map dir_of G2)) nu 0 == 0 /\
    (forall i, dot (map (gcoord i) (flat_map dir_of G2)) nu 0 == t * dot (map (gcoord i) G2) mu k).
Proof.
  intros Ht. induction G2 as [|g G IH]; intros mu k Hmu.
  - exists (fun _ => 0). cbn. repeat split; try reflexivity; [intros j g H; destruct j; discriminate|intros i; ring].
  - destruct (IH mu (S k)) as [nu [N1 [N2 [N3 N4]]]].
    { intros j g' Hj Hl. replace (S k + j)%nat with (k + S j)%nat by lia. now apply (Hmu (S j) g'). }
    cbn [flat_map map dot].
    assert (KEEP : forall r, dir_of g = [r] -> pc_weight r = 0%Z -> p_weight r = 0%Z -> (forall i, gcoord i r = gcoord i g) ->
                   (is_line r = false -> 0 <= mu k) ->
      exists nu0 : nat -> Q,
        (forall j g0, nth_error ([r] ++ flat_map dir_of G) j = Some g0 -> is_line g0 = false -> 0 <= nu0 j) /\
        dot (map pc_weight ([r] ++ flat_map dir_of G)) nu0 0 == 0 /\
        dot (map p_weight ([r] ++ flat_map dir_of G)) nu0 0 == 0 /\
        (forall i, dot (map (gcoord i) ([r] ++ flat_map dir_of G)) nu0 0
                   == t * (inject_Z (gcoord i g) * mu k + dot (map (gcoord i) G) mu (S k)))).
    { intros r _ Hpc Hpw Hco Hsg. exists (vcons (t * mu k) nu). split; [|split; [|split]].
      - intros j g0 Hj Hl. destruct j as [|j]; cbn [app nth_error] in Hj; cbn [vcons].
        + injection Hj as <-. specialize (Hsg Hl). nra.
        + now apply (N1 j g0).
      - cbn [app map dot]. rewrite dot_vcons, N2, Hpc. change (inject_Z 0) with 0. cbn [vcons]. ring.
      - cbn [app map dot]. rewrite dot_vcons, N3, Hpw. change (inject_Z 0) with 0. cbn [vcons]. ring.
      - intros i. cbn [app map dot]. rewrite dot_vcons, N4, Hco. cbn [vcons]. ring. }
    assert (M0 : is_line g = false -> 0 <= mu k).
    { intros Hl. specialize (Hmu 0%nat g eq_refl Hl). now rewrite Nat.add_0_r in Hmu. }
    unfold dir_of in *. destruct (gk g) eqn:K.
    + apply (KEEP g eq_refl); [unfold pc_weight; now rewrite K|unfold p_weight; now rewrite K|reflexivity|exact M0].
    + apply (KEEP g eq_refl); [unfold pc_weight; now rewrite K|unfold p_weight; now rewrite K|reflexivity|exact M0].
    + destruct (all_zero_z (gcoefs g)) eqn:Z.
      * exists nu. cbn [app]. split; [exact N1|]. split; [exact N2|]. split; [exact N3|].
        intros i. rewrite N4, (all_zero_z_gcoord g i Z). change (inject_Z 0) with 0. ring.
      * apply (KEEP _ eq_refl); [reflexivity|reflexivity|reflexivity|]. intros _. apply M0. unfold is_line. now rewrite K.
    + destruct (all_zero_z (gcoefs g)) eqn:Z.
      * exists nu. cbn [app]. split; [exact N1|]. split; [exact N2|]. split; [exact N3|].
        intros i. rewrite N4, (all_zero_z_gcoord g i Z). change (inject_Z 0) with 0. ring.
      * apply (KEEP _ eq_refl); [reflexivity|reflexivity|reflexivity|]. intros _. apply M0. unfold is_line. now rewrite K.
Qed.

Theorem time_elapse_contains n G1 G2 x : time_elapse_set n G1 G2 x -> in_gens n (te_gens G1 G2) x.
Proof.
  intros [p [q [t [[mu1 [A1 [A2 [A3 A4]]]] [[mu2 [B1 [B2 [B3 B4]]]] [Ht Hx]]]]]].
  destruct (dirs_weights t G2 Ht mu2 0%nat) as [nu [N1 [N2 [N3 N4]]]]; [exact B1|].
  set (m := length G1). set (D := flat_map dir_of G2) in *.
  set (mu := fun j => if (j <? m)%nat then mu1 j else nu (j - m)%nat).
  assert (E : forall h : gen -> Z, dot (map h (G1 ++ D)) mu 0 == dot (map h G1) mu1 0 + dot (map h D) nu 0).
  { intros h. rewrite map_app, dot_app, map_length. cbn [Nat.add]. fold m.
    rewrite (dot_prefix (map h G1) mu mu1 0%nat).
    - rewrite (dot_shift (map h D) mu nu m 0%nat); [reflexivity|]. intros j. unfold mu.
      destruct (Nat.ltb_spec (m + j) m); [lia|]. cbn [Nat.add]. replace (m + j - m)%nat with j by lia. reflexivity.
    - intros i Hi. rewrite map_length in Hi. fold m in Hi. unfold mu. destruct (Nat.ltb_spec i m); [reflexivity|lia]. }
  exists mu. unfold te_gens. fold D. split; [|split; [|split]].
  - intros j g Hj Hl. unfold mu. destruct (Nat.ltb_spec j m) as [Hlt|Hge].
    + rewrite nth_error_app1 in Hj by exact Hlt. now apply (A1 j g).
    + rewrite nth_error_app2 in Hj by (fold m; lia). fold m in Hj. now apply (N1 (j - m)%nat g).
  - rewrite E, A2, N2. ring.
  - rewrite E, N3. lra.
  - intros i Hi. rewrite E, N4, <- (A4 i Hi), <- (B4 i Hi). now apply Hx.
Qed.

(* ---------- fold_space_dimensions ---------- *)
Lemma nth_set_nth l : forall k x j, nth j (set_nth l k x) 0%Z = if Nat.eqb j k then x else nth j l 0%Z.
Proof.
  induction l as [|y l IH]; intros k x j.
  - revert j. induction k as [|k IHk]; intros j; cbn [set_nth].
    + destruct j as [|[|j]]; reflexivity.
    + destruct j as [|j]; cbn [nth]; [reflexivity|]. rewrite IHk. cbn [Nat.eqb]. destruct (Nat.eqb j k); [reflexivity|]. now destruct j.
  - destruct k as [|k]; cbn [set_nth].
    + destruct j; reflexivity.
    + destruct j as [|j]; cbn [nth]; [reflexivity|]. rewrite IH. reflexivity.
Qed.

Lemma gcoord_subst dest v g i : gcoord i (subst_coord dest v g) = if Nat.eqb i dest then gcoord v g else gcoord i g.
Proof. unfold gcoord, subst_coord; cbn [gcoefs]. apply nth_set_nth. Qed.

(* the generators with coordinate dest replaced by coordinate v generate the image of x_dest := x_v *)
Theorem subst_gens_image n dest v G q : (dest < n)%nat -> (v < n)%nat ->
  (in_gens n (map (subst_coord dest v) G) q <->
   exists p, in_gens n G p /\ forall i, (i < n)%nat -> q i == (if Nat.eqb i dest then p v else p i)).
Proof.
  intros Hd Hv.
  assert (W : forall (h : gen -> Z) (h' : gen -> Z), (forall g, h' (subst_coord dest v g) = h g) ->
              forall mu k, dot (map h' (map (subst_coord dest v) G)) mu k == dot (map h G) mu k).
  { intros h h' E mu. induction G as [|g G IH]; intros k; cbn [map dot]; [reflexivity|]. now rewrite E, IH. }
  assert (Wpc : forall mu, dot (map pc_weight (map (subst_coord dest v) G)) mu 0 == dot (map pc_weight G) mu 0)
    by (intros mu; apply W; intros g; reflexivity).
  assert (Wp : forall mu, dot (map p_weight (map (subst_coord dest v) G)) mu 0 == dot (map p_weight G) mu 0)
    by (intros mu; apply W; intros g; reflexivity).
  assert (Wc : forall i mu, dot (map (gcoord i) (map (subst_coord dest v) G)) mu 0
                           == dot (map (if Nat.eqb i dest then gcoord v else gcoord i) G) mu 0).
  { intros i mu. apply W. intros g. rewrite gcoord_subst. destruct (Nat.eqb i dest); reflexivity. }
  assert (Wl : forall j g, nth_error (map (subst_coord dest v) G) j = Some g -> exists g0, nth_error G j = Some g0 /\ is_line g = is_line g0).
  { intros j g Hj. rewrite nth_error_map in Hj. destruct (nth_error G j) as [g0|]; [|discriminate].
    injection Hj as <-. exists g0. split; reflexivity. }
  split.
  - intros [mu [H1 [H2 [H3 H4]]]].
    exists (fun i => dot (map (gcoord i) G) mu 0). split.
    + exists mu. split; [|split; [|split]].
      * intros j g0 Hj Hl. apply (H1 j (subst_coord dest v g0)); [|exact Hl]. rewrite nth_error_map, Hj. reflexivity.
      * now rewrite <- Wpc.
      * now rewrite <- Wp.
      * intros i _. reflexivity.
    + intros i Hi. rewrite (H4 i Hi), Wc. destruct (Nat.eqb i dest); reflexivity.
  - intros [p [[mu [H1 [H2 [H3 H4]]]] Hq]]. exists mu. split; [|split; [|split]].
    + intros j g Hj Hl. destruct (Wl j g Hj) as [g0 [Hj0 El]]. rewrite El in Hl. now apply (H1 j g0).
    + now rewrite Wpc.
    + now rewrite Wp.
    + intros i Hi. rewrite Wc, (Hq i Hi). destruct (Nat.eqb i dest); [now apply H4|now apply H4].
Qed.

(* n-ary hull: the concatenation of non-empty generator systems generates the least polyhedron containing all *)
Theorem hull_list_least n (Gs : list (list gen)) (t : sys) :
  (forall G, In G Gs -> wf_gens G /\ (forall g, In g G -> (length (gcoefs g) <= n)%nat) /\ (exists p, in_gens n G p)) ->
  wf_sys_dim n t ->
  (forall G, In G Gs -> forall p, in_gens n G p -> sat_sys t p) ->
  forall p, in_gens n (concat Gs) p -> sat_sys t p.
Proof.
  intros HG [Wd1 Wd2] Hall p Hp.
  assert (WF : wf_gens (concat Gs)).
  { intros g Hg. apply in_concat in Hg. destruct Hg as [G [HGin Hg]]. now apply (proj1 (HG G HGin)). }
  assert (OK : forall c, (length (coefs c) <= n)%nat -> (forall G, In G Gs -> forall q, in_gens n G q -> sat c q) ->
               forall g, In g (concat Gs) -> gen_ok c g).
  { intros c Lc Hc g Hg. apply in_concat in Hg. destruct Hg as [G [HGin Hg]]. destruct (HG G HGin) as [W [L N]].
    exact (gens_valid_complete n c G W Lc L N (Hc G HGin) g Hg). }
  split.
  - intros e He. apply eq_as_ineqs.
    assert (Lg : (length (coefs (ge_of e)) <= n)%nat) by (cbn; now apply Wd1).
    assert (Ll : (length (coefs (le_of e)) <= n)%nat) by (unfold le_of, neg_c; cbn [coefs]; rewrite map_length; now apply Wd1).
    split.
    + apply (gens_valid_sound n (ge_of e) (concat Gs) WF Lg); [|exact Hp]. apply OK; [exact Lg|].
      intros G HGin q Hq. apply (eq_as_ineqs e q). now apply (proj1 (Hall G HGin q Hq)).
    + apply (gens_valid_sound n (le_of e) (concat Gs) WF Ll); [|exact Hp]. apply OK; [exact Ll|].
      intros G HGin q Hq. apply (eq_as_ineqs e q). now apply (proj1 (Hall G HGin q Hq)).
  - intros c Hc. apply (gens_valid_sound n c (concat Gs) WF (Wd2 c Hc)); [|exact Hp]. apply OK; [exact (Wd2 c Hc)|].
    intros G HGin q Hq. now apply (proj2 (Hall G HGin q Hq)).
Qed.

Lemma fold_gens_concat vs dest G : fold_gens vs dest G = concat (G :: map (fun v => map (subst_coord dest v) G) vs).
Proof. unfold fold_gens. cbn [concat]. f_equal. induction vs as [|v vs IH]; cbn [flat_map map concat]; [reflexivity|]. now rewrite IH. Qed.
