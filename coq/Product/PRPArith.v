(* C10 -- the modular arithmetic of shrink_to_congruence_no_check
   (Partially_Reduced_Product_templates.hh:551-630), transcribed on Z with the C++ operators:
   `%` on mpz_class is the truncated remainder (Z.rem), products and sums are exact.

   Inputs as the code has them after the two calls
       d2.maximize(e, max_numer, max_denom, max_included)
       d2.minimize(e, min_numer, min_denom, min_included)
   and cg.modulus().  The three outcomes of the code:
     ShEq denom k  -- "d2 intersects exactly one hyperplane": the constraint denom*e == k is added to d1 and d2
     ShEmpty       -- "d intersects no hyperplanes": both components are replaced by EMPTY, returns false
     ShUnchanged   -- everything else (including maximize/minimize failing, handled by the caller). *)
From Coq Require Import ZArith Lia Bool.
Local Open Scope Z_scope.

Inductive shrink_out := ShUnchanged | ShEq (denom k : Z) | ShEmpty.

Definition shrink_decide (modulus : Z) (mx mn : Z * Z * bool) : shrink_out :=
  let '(max_numer0, max_denom, max_included) := mx in
  let '(min_numer0, min_denom, min_included) := mn in
  let max_numer := max_numer0 * min_denom in           (* max_numer *= min_denom; *)
  let min_numer := min_numer0 * max_denom in           (* min_numer *= max_denom; *)
  let denom := max_denom * min_denom in
  let md := modulus * denom in                          (* mod = cg.modulus() * denom; *)
  let mod2 := 2 * md in
  if (max_numer - min_numer <? mod2)
     || ((max_numer - min_numer =? mod2) && (negb max_included || negb min_included))
  then
    let sa := Z.rem max_numer md in                                      (* shrink_amount = max_numer % mod; *)
    let sa := if negb max_included && (sa =? 0) then md else sa in
    let sa := if sa <? 0 then sa + md else sa in
    let max_decreased := max_numer - sa in
    let sb := Z.rem min_numer md in                                      (* shrink_amount = min_numer % mod; *)
    let sb := if negb min_included && (sb =? 0) then - md else sb in
    let sb := if 0 <? sb then sb - md else sb in
    let min_increased := min_numer - sb in
    if max_decreased =? min_increased then ShEq denom min_increased
    else if max_decreased <? min_increased then ShEmpty
    else ShUnchanged
  else ShUnchanged.

(* The arithmetic fact behind the code, on integers.  X stands for denom * e(p) at a point p of both
   components: it is a multiple j*md of md = modulus*denom (p is on one of the hyperplanes of the
   congruence) and lies between the scaled bounds, strictly where the bound is not attained. *)
Lemma shrink_decide_core modulus max_n0 max_d max_inc min_n0 min_d min_inc j :
  0 < modulus -> 0 < max_d -> 0 < min_d ->
  let md := modulus * (max_d * min_d) in
  let X := j * md in
  X <= max_n0 * min_d -> (max_inc = false -> X < max_n0 * min_d) ->
  min_n0 * max_d <= X -> (min_inc = false -> min_n0 * max_d < X) ->
  match shrink_decide modulus (max_n0, max_d, max_inc) (min_n0, min_d, min_inc) with
  | ShEq dn k => dn = max_d * min_d /\ X = k
  | ShEmpty => False
  | ShUnchanged => True
  end.
Proof.
  intros Hm Hxd Hnd md X Hle Hlt Hge Hgt.
  unfold shrink_decide.
  fold md.
  set (MAXN := max_n0 * min_d) in *. set (MINN := min_n0 * max_d) in *.
  assert (Hmd : 0 < md) by (unfold md; nia).
  destruct ((MAXN - MINN <? 2 * md) || ((MAXN - MINN =? 2 * md) && (negb max_inc || negb min_inc))); [|exact I].
  (* the decreased maximum: a multiple t*md of md with j <= t *)
  pose proof (Z.quot_rem' MAXN md) as Q1.
  pose proof (Z.rem_bound_abs MAXN md ltac:(lia)) as B1.
  set (q1 := MAXN ÷ md) in *. set (r1 := Z.rem MAXN md) in *. clearbody q1 r1.
  set (sa1 := if negb max_inc && (r1 =? 0) then md else r1).
  set (sa := if sa1 <? 0 then sa1 + md else sa1).
  assert (T : exists t, MAXN - sa = t * md /\ j <= t).
  { unfold sa, sa1. destruct max_inc; cbn [negb andb].
    - destruct (r1 <? 0) eqn:E; [apply Z.ltb_lt in E | apply Z.ltb_ge in E].
      + exists (q1 - 1). split; [lia|]. assert (j * md < q1 * md) by lia. nia.
      + exists q1. split; [lia|]. assert (j * md < (q1 + 1) * md) by lia. nia.
    - specialize (Hlt eq_refl).
      destruct (r1 =? 0) eqn:E0; [apply Z.eqb_eq in E0 | apply Z.eqb_neq in E0].
      + destruct (md <? 0) eqn:E; [apply Z.ltb_lt in E; lia|].
        exists (q1 - 1). split; [lia|]. assert (j * md < q1 * md) by lia. nia.
      + destruct (r1 <? 0) eqn:E; [apply Z.ltb_lt in E | apply Z.ltb_ge in E].
        * exists (q1 - 1). split; [lia|]. assert (j * md < q1 * md) by lia. nia.
        * exists q1. split; [lia|]. assert (j * md < (q1 + 1) * md) by lia. nia. }
  (* the increased minimum: a multiple u*md of md with u <= j *)
  pose proof (Z.quot_rem' MINN md) as Q2.
  pose proof (Z.rem_bound_abs MINN md ltac:(lia)) as B2.
  set (q2 := MINN ÷ md) in *. set (r2 := Z.rem MINN md) in *. clearbody q2 r2.
  set (sb1 := if negb min_inc && (r2 =? 0) then - md else r2).
  set (sb := if 0 <? sb1 then sb1 - md else sb1).
  assert (U : exists u, MINN - sb = u * md /\ u <= j).
  { unfold sb, sb1. destruct min_inc; cbn [negb andb].
    - destruct (0 <? r2) eqn:E; [apply Z.ltb_lt in E | apply Z.ltb_ge in E].
      + exists (q2 + 1). split; [lia|]. assert (q2 * md < j * md) by lia. nia.
      + exists q2. split; [lia|]. assert ((q2 - 1) * md < j * md) by lia. nia.
    - specialize (Hgt eq_refl).
      destruct (r2 =? 0) eqn:E0; [apply Z.eqb_eq in E0 | apply Z.eqb_neq in E0].
      + destruct (0 <? - md) eqn:E; [apply Z.ltb_lt in E; lia|].
        exists (q2 + 1). split; [lia|]. assert (q2 * md < j * md) by lia. nia.
      + destruct (0 <? r2) eqn:E; [apply Z.ltb_lt in E | apply Z.ltb_ge in E].
        * exists (q2 + 1). split; [lia|]. assert (q2 * md < j * md) by lia. nia.
        * exists q2. split; [lia|]. assert ((q2 - 1) * md < j * md) by lia. nia. }
  destruct T as [t [Et Ht]]. destruct U as [u [Eu Hu]].
  rewrite Et, Eu.
  destruct (t * md =? u * md) eqn:E1; [apply Z.eqb_eq in E1 | apply Z.eqb_neq in E1].
  - split; [reflexivity|]. unfold X. nia.
  - destruct (t * md <? u * md) eqn:E2; [apply Z.ltb_lt in E2 | exact I]. nia.
Qed.

(* The same outcomes are also COMPLETE in the sense the code comments claim; not needed for soundness, but it
   pins the boundary case of the `2*mod` test: when the test fails at least two hyperplanes meet the range. *)
Lemma shrink_decide_unchanged_two modulus max_n0 max_d min_n0 min_d :
  0 < modulus -> 0 < max_d -> 0 < min_d ->
  let md := modulus * (max_d * min_d) in
  2 * md < max_n0 * min_d - min_n0 * max_d ->
  exists j, min_n0 * max_d < j * md /\ (j + 1) * md < max_n0 * min_d.
Proof.
  intros Hm Hxd Hnd md H.
  assert (Hmd : 0 < md) by (unfold md; nia).
  set (MINN := min_n0 * max_d) in *. set (MAXN := max_n0 * min_d) in *.
  exists (MINN / md + 1).
  pose proof (Z.div_mod MINN md ltac:(lia)) as D. pose proof (Z.mod_pos_bound MINN md Hmd) as B.
  set (q := MINN / md) in *. set (r := MINN mod md) in *. clearbody q r. nia.
Qed.

(* the three outcomes are all reachable (closed and open ends, rational bounds, negative values) *)
Example shrink_eq_closed : shrink_decide 2 (5, 2, true) (3, 2, true) = ShEq 4 8.        (* 3/2 <= e <= 5/2, e = 0 mod 2: e = 2 *)
Proof. vm_compute. reflexivity. Qed.
Example shrink_empty_open : shrink_decide 2 (2, 1, false) (0, 1, false) = ShEmpty.        (* 0 < e < 2 *)
Proof. vm_compute. reflexivity. Qed.
Example shrink_boundary_one_open : shrink_decide 1 (2, 1, false) (0, 1, true) = ShUnchanged. (* 0 <= e < 2, mod 1: e = 0, 1 *)
Proof. vm_compute. reflexivity. Qed.
Example shrink_boundary_both_open : shrink_decide 1 (2, 1, false) (0, 1, false) = ShEq 1 1. (* 0 < e < 2, mod 1: e = 1 *)
Proof. vm_compute. reflexivity. Qed.
Example shrink_negative : shrink_decide 3 (-7, 2, true) (-11, 2, true) = ShEmpty.          (* -11/2 <= e <= -7/2, mod 3 *)
Proof. vm_compute. reflexivity. Qed.
Example shrink_negative_eq : shrink_decide 3 (-5, 2, true) (-7, 2, false) = ShEq 4 (-12).  (* -7/2 < e <= -5/2: e = -3 *)
Proof. vm_compute. reflexivity. Qed.

(* ------------------------------------------------------------------------------------------ *)
(* The boundary clause of the `2*mod` test.  With a range of length exactly 2*mod and only ONE open end the
   range always contains two hyperplanes, so the code's `(!max_included || !min_included)` could equally be
   `&&`: the two programs compute the same outcome on all inputs (an equivalent mutant, proved here so that
   the correspondence check is not expected to tell them apart). *)
Definition max_decreased_of (MAXN md : Z) (inc : bool) : Z :=
  let sa := Z.rem MAXN md in
  let sa := if negb inc && (sa =? 0) then md else sa in
  let sa := if sa <? 0 then sa + md else sa in
  MAXN - sa.
Definition min_increased_of (MINN md : Z) (inc : bool) : Z :=
  let sb := Z.rem MINN md in
  let sb := if negb inc && (sb =? 0) then - md else sb in
  let sb := if 0 <? sb then sb - md else sb in
  MINN - sb.

Lemma max_decreased_spec MAXN md inc : 0 < md ->
  exists t, max_decreased_of MAXN md inc = t * md /\
            (if inc then t * md <= MAXN < (t + 1) * md else t * md < MAXN <= (t + 1) * md).
Proof.
  intros Hmd. unfold max_decreased_of.
  pose proof (Z.quot_rem' MAXN md) as Q1. pose proof (Z.rem_bound_abs MAXN md ltac:(lia)) as B1.
  set (q1 := MAXN ÷ md) in *. set (r1 := Z.rem MAXN md) in *. clearbody q1 r1.
  destruct inc; cbn [negb andb].
  - destruct (r1 <? 0) eqn:E; [apply Z.ltb_lt in E; exists (q1 - 1) | apply Z.ltb_ge in E; exists q1]; split; lia.
  - destruct (r1 =? 0) eqn:E0; [apply Z.eqb_eq in E0 | apply Z.eqb_neq in E0].
    + destruct (md <? 0) eqn:E; [apply Z.ltb_lt in E; lia|]. exists (q1 - 1). split; lia.
    + destruct (r1 <? 0) eqn:E; [apply Z.ltb_lt in E; exists (q1 - 1) | apply Z.ltb_ge in E; exists q1]; split; lia.
Qed.

Lemma min_increased_spec MINN md inc : 0 < md ->
  exists u, min_increased_of MINN md inc = u * md /\
            (if inc then (u - 1) * md < MINN <= u * md else (u - 1) * md <= MINN < u * md).
Proof.
  intros Hmd. unfold min_increased_of.
  pose proof (Z.quot_rem' MINN md) as Q2. pose proof (Z.rem_bound_abs MINN md ltac:(lia)) as B2.
  set (q2 := MINN ÷ md) in *. set (r2 := Z.rem MINN md) in *. clearbody q2 r2.
  destruct inc; cbn [negb andb].
  - destruct (0 <? r2) eqn:E; [apply Z.ltb_lt in E; exists (q2 + 1) | apply Z.ltb_ge in E; exists q2]; split; lia.
  - destruct (r2 =? 0) eqn:E0; [apply Z.eqb_eq in E0 | apply Z.eqb_neq in E0].
    + destruct (0 <? - md) eqn:E; [apply Z.ltb_lt in E; lia|]. exists (q2 + 1). split; lia.
    + destruct (0 <? r2) eqn:E; [apply Z.ltb_lt in E; exists (q2 + 1) | apply Z.ltb_ge in E; exists q2]; split; lia.
Qed.

Definition shrink_decide_and (modulus : Z) (mx mn : Z * Z * bool) : shrink_out :=
  let '(max_numer0, max_denom, max_included) := mx in
  let '(min_numer0, min_denom, min_included) := mn in
  let max_numer := max_numer0 * min_denom in
  let min_numer := min_numer0 * max_denom in
  let denom := max_denom * min_denom in
  let md := modulus * denom in
  let mod2 := 2 * md in
  if (max_numer - min_numer <? mod2)
     || ((max_numer - min_numer =? mod2) && (negb max_included && negb min_included))
  then
    let max_decreased := max_decreased_of max_numer md max_included in
    let min_increased := min_increased_of min_numer md min_included in
    if max_decreased =? min_increased then ShEq denom min_increased
    else if max_decreased <? min_increased then ShEmpty
    else ShUnchanged
  else ShUnchanged.

Theorem boundary_or_and_equivalent modulus mx mn :
  0 < modulus -> 0 < snd (fst mx) -> 0 < snd (fst mn) ->
  shrink_decide modulus mx mn = shrink_decide_and modulus mx mn.
Proof.
  destruct mx as [[xn xd] xi]. destruct mn as [[mn0 md0] mi]. cbn [fst snd]. intros Hm Hxd Hnd.
  unfold shrink_decide, shrink_decide_and.
  set (md := modulus * (xd * md0)). set (MAXN := xn * md0). set (MINN := mn0 * xd).
  assert (Hmd : 0 < md) by (unfold md; nia).
  change (MAXN - (if (if negb xi && (Z.rem MAXN md =? 0) then md else Z.rem MAXN md) <? 0
                  then (if negb xi && (Z.rem MAXN md =? 0) then md else Z.rem MAXN md) + md
                  else (if negb xi && (Z.rem MAXN md =? 0) then md else Z.rem MAXN md)))
    with (max_decreased_of MAXN md xi).
  change (MINN - (if 0 <? (if negb mi && (Z.rem MINN md =? 0) then - md else Z.rem MINN md)
                  then (if negb mi && (Z.rem MINN md =? 0) then - md else Z.rem MINN md) - md
                  else (if negb mi && (Z.rem MINN md =? 0) then - md else Z.rem MINN md)))
    with (min_increased_of MINN md mi).
  destruct (MAXN - MINN <? 2 * md) eqn:E1; [reflexivity|]. cbn [orb].
  destruct (MAXN - MINN =? 2 * md) eqn:E2; [apply Z.eqb_eq in E2|reflexivity]. cbn [andb].
  destruct (max_decreased_spec MAXN md xi Hmd) as [t [Et Ht]].
  destruct (min_increased_spec MINN md mi Hmd) as [u [Eu Hu]].
  destruct xi, mi; cbn [negb orb andb]; try reflexivity; rewrite Et, Eu;
    (assert (u < t) by nia);
    (destruct (t * md =? u * md) eqn:A; [apply Z.eqb_eq in A; nia|]);
    (destruct (t * md <? u * md) eqn:B; [apply Z.ltb_lt in B; nia|reflexivity]).
Qed.
