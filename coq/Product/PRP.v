(* C10 -- Partially_Reduced_Product<D1, D2, R>: the four reduction operators
   (Partially_Reduced_Product_templates.hh:505-759) transcribed over an abstract pair of component
   domains, and the proof that each of them only shrinks the components and never loses a point of
   their intersection.

   A component domain is a type D with a denotation den : D -> point -> Prop and exactly the
   query / refinement interface the reductions call.  The LAWS are soundness laws only (what each
   PPL domain documents): nothing is assumed about precision, so the theorems hold for boxes and
   BD shapes (whose refinements are approximate) as well as for polyhedra and grids. *)
From Coq Require Import List ZArith QArith Lia Lqa Bool.
Require Import PPLV.Base.FM PPLV.Base.Sys PPLV.Product.PRPArith.
Import ListNotations.
Local Open Scope Q_scope.

(* a congruence  e = 0 (mod m);  m = 0 is an equality (Congruence::is_equality) *)
Record pcg := { ge : lin; gm : Z }.
Definition sat_pcg (c : pcg) (p : point) : Prop := exists k : Z, leval (ge c) p == inject_Z (k * gm c).

(* Constraint::expression() as a Linear_Expression (with the inhomogeneous term) *)
Definition lin_of_con (c : con) : lin := {| lcoefs := ccoefs c; lcst := ccst c |}.
Definition con_is_eq (c : con) : bool := match ckd c with EQ => true | _ => false end.

(* Constraint new_c(denom * e == k) *)
Definition eq_con (dn : Z) (e : lin) (k : Z) : con :=
  {| ccoefs := vscale dn (lcoefs e); ccst := (dn * lcst e - k)%Z; ckd := EQ |}.
(* le *= val_d; le -= val_n; le >= 0 *)
Definition ge_con (vd : Z) (e : lin) (vn : Z) : con :=
  {| ccoefs := vscale vd (lcoefs e); ccst := (vd * lcst e - vn)%Z; ckd := GE |}.

Lemma ceval_scaled dn e k kd p :
  ceval {| ccoefs := vscale dn (lcoefs e); ccst := (dn * lcst e - k)%Z; ckd := kd |} p
  == inject_Z dn * leval e p - inject_Z k.
Proof.
  unfold ceval, leval; cbn [ccoefs ccst]. rewrite dot_vscale.
  unfold Zminus. rewrite inject_Z_plus, inject_Z_mult, inject_Z_opp. ring.
Qed.

Record dom_ops (D : Type) := {
  den : D -> point -> Prop;
  mk_empty : D -> D;                       (* D(d.space_dimension(), EMPTY) *)
  is_empty : D -> bool;
  min_cons : D -> list con;                (* minimized_constraints() *)
  min_cgs : D -> list pcg;                 (* minimized_congruences() *)
  refine_cons : D -> list con -> D;        (* refine_with_constraints *)
  refine_con : D -> con -> D;              (* refine_with_constraint *)
  refine_cg : D -> pcg -> D;               (* refine_with_congruence *)
  maximize : D -> lin -> option (Z * Z * bool);   (* (sup_n, sup_d, maximum) *)
  minimize : D -> lin -> option (Z * Z * bool);
  frequency : D -> lin -> option (Z * Z * Z * Z); (* (freq_n, freq_d, val_n, val_d) *)
  (* predicates the product answers component-wise *)
  contains : D -> D -> bool;
  disjoint : D -> D -> bool;
  rel_con : D -> con -> bool * bool * bool;       (* is_disjoint, is_included, saturates *)
  is_bounded : D -> bool;
  is_universe : D -> bool
}.
Arguments den {D}. Arguments mk_empty {D}. Arguments is_empty {D}. Arguments min_cons {D}.
Arguments min_cgs {D}. Arguments refine_cons {D}. Arguments refine_con {D}. Arguments refine_cg {D}.
Arguments maximize {D}. Arguments minimize {D}. Arguments frequency {D}. Arguments contains {D}.
Arguments disjoint {D}. Arguments rel_con {D}. Arguments is_bounded {D}. Arguments is_universe {D}.

(* a set of points is bounded in the first n coordinates *)
Definition bounded_set (n : nat) (S : point -> Prop) : Prop :=
  exists B : Q, forall p, S p -> forall i, (i < n)%nat -> - B <= p i /\ p i <= B.

Record dom_laws {D : Type} (o : dom_ops D) (n : nat) : Prop := {
  L_empty : forall d p, ~ den o (mk_empty o d) p;
  L_is_empty : forall d, is_empty o d = true -> forall p, ~ den o d p;
  L_min_cons : forall d c p, In c (min_cons o d) -> den o d p -> sat_con c p;
  L_min_cgs : forall d c, In c (min_cgs o d) -> (0 <= gm c)%Z /\ forall p, den o d p -> sat_pcg c p;
  L_refine_cons_sub : forall d cs p, den o (refine_cons o d cs) p -> den o d p;
  L_refine_cons_keep : forall d cs p, den o d p -> sat_cons cs p -> den o (refine_cons o d cs) p;
  L_refine_con_sub : forall d c p, den o (refine_con o d c) p -> den o d p;
  L_refine_con_keep : forall d c p, den o d p -> sat_con c p -> den o (refine_con o d c) p;
  L_refine_cg_sub : forall d c p, den o (refine_cg o d c) p -> den o d p;
  L_refine_cg_keep : forall d c p, den o d p -> sat_pcg c p -> den o (refine_cg o d c) p;
  L_maximize : forall d e sn sd mx, maximize o d e = Some (sn, sd, mx) ->
      (0 < sd)%Z /\ forall p, den o d p ->
        leval e p * inject_Z sd <= inject_Z sn /\ (mx = false -> leval e p * inject_Z sd < inject_Z sn);
  L_minimize : forall d e sn sd mn, minimize o d e = Some (sn, sd, mn) ->
      (0 < sd)%Z /\ forall p, den o d p ->
        inject_Z sn <= leval e p * inject_Z sd /\ (mn = false -> inject_Z sn < leval e p * inject_Z sd);
  (* every value of e on d is val + k*freq; freq >= 0; a positive val is below the frequency unless the
     frequency is 0 (e constant on d).  Grid::frequency_no_check reduces val_n by `val_n %= freq_n`. *)
  L_frequency : forall d e fn fd vn vd, frequency o d e = Some (fn, fd, vn, vd) ->
      (0 <= fn)%Z /\ (0 < fd)%Z /\ (0 < vd)%Z /\
      ((0 < vn)%Z -> fn = 0%Z \/ (vn * fd < fn * vd)%Z) /\
      forall p, den o d p -> exists k : Z,
        leval e p == inject_Z vn / inject_Z vd + inject_Z k * (inject_Z fn / inject_Z fd);
  L_contains : forall d d', contains o d d' = true -> forall p, den o d' p -> den o d p;
  L_disjoint : forall d d', disjoint o d d' = true -> forall p, den o d p -> den o d' p -> False;
  L_rel_con : forall d c dj inc sa, rel_con o d c = (dj, inc, sa) ->
      (dj = true -> forall p, den o d p -> ~ sat_con c p) /\
      (inc = true -> forall p, den o d p -> sat_con c p) /\
      (sa = true -> forall p, den o d p -> ceval c p == 0);
  L_is_bounded : forall d, is_bounded o d = true -> bounded_set n (den o d);
  L_is_universe : forall d, is_universe o d = true -> forall p, den o d p
}.

(* ------------------------------------------------------------------------------------------ *)
(* one step of a reduction between two components of arbitrary domains: both only shrink, and no
   common point is lost *)
Definition step_ok {A B} (oa : dom_ops A) (ob : dom_ops B) (a : A) (b : B) (a' : A) (b' : B) : Prop :=
  (forall p, den oa a' p -> den oa a p) /\ (forall p, den ob b' p -> den ob b p) /\
  (forall p, den oa a p -> den ob b p -> den oa a' p /\ den ob b' p).

Lemma step_refl {A B} (oa : dom_ops A) (ob : dom_ops B) a b : step_ok oa ob a b a b.
Proof. repeat split; auto. Qed.

Lemma step_trans {A B} (oa : dom_ops A) (ob : dom_ops B) a b a1 b1 a2 b2 :
  step_ok oa ob a b a1 b1 -> step_ok oa ob a1 b1 a2 b2 -> step_ok oa ob a b a2 b2.
Proof.
  intros [S1 [S2 S3]] [T1 [T2 T3]]. repeat split; auto.
  - intros. destruct (S3 p) as [X Y]; auto. destruct (T3 p); auto.
  - intros. destruct (S3 p) as [X Y]; auto. destruct (T3 p); auto.
Qed.

Lemma step_swap {A B} (oa : dom_ops A) (ob : dom_ops B) a b a' b' :
  step_ok oa ob a b a' b' -> step_ok ob oa b a b' a'.
Proof. intros [S1 [S2 S3]]. repeat split; auto; intros; destruct (S3 p); auto. Qed.


Lemma step_of_empty {A B} (oa : dom_ops A) (ob : dom_ops B) a b a' b' :
  (forall p, den oa a' p -> den oa a p) -> (forall p, den ob b' p -> den ob b p) ->
  (forall p, den oa a p -> den ob b p -> False) -> step_ok oa ob a b a' b'.
Proof. intros H1 H2 H3. split; [exact H1|]. split; [exact H2|]. intros p Ha Hb. exfalso. exact (H3 p Ha Hb). Qed.

(* ------------------------------------------------------------------------------------------ *)
Section Generic.
Context {A B : Type} (oa : dom_ops A) (ob : dom_ops B) (n : nat).
Hypothesis LA : dom_laws oa n.
Hypothesis LB : dom_laws ob n.

(* Smash_Reduction<D1, D2>::product_reduce *)
Definition smash_reduce (a : A) (b : B) : A * B :=
  if is_empty ob b then (if negb (is_empty oa a) then (mk_empty oa a, b) else (a, b))
  else if is_empty oa a then (a, mk_empty ob b)
  else (a, b).

Lemma smash_step a b : step_ok oa ob a b (fst (smash_reduce a b)) (snd (smash_reduce a b)).
Proof.
  unfold smash_reduce. destruct (is_empty ob b) eqn:Eb.
  - destruct (is_empty oa a) eqn:Ea; cbn [negb fst snd]; [apply step_refl|].
    apply step_of_empty; auto.
    + intros p H. exfalso. exact (L_empty oa n LA a p H).
    + intros p _ Hb. exact (L_is_empty ob n LB b Eb p Hb).
  - destruct (is_empty oa a) eqn:Ea; cbn [fst snd]; [|apply step_refl].
    apply step_of_empty; auto.
    + intros p H. exfalso. exact (L_empty ob n LB b p H).
    + intros p Ha _. exact (L_is_empty oa n LA a Ea p Ha).
Qed.

(* Constraints_Reduction<D1, D2>::product_reduce *)
Definition constraints_reduce (a : A) (b : B) : A * B :=
  if is_empty oa a || is_empty ob b then smash_reduce a b
  else
    let a1 := refine_cons oa a (min_cons ob b) in
    if is_empty oa a1 then (a1, mk_empty ob b)
    else
      let b1 := refine_cons ob b (min_cons oa a1) in
      if is_empty ob b1 then (mk_empty oa a1, b1) else (a1, b1).

Lemma constraints_step a b : step_ok oa ob a b (fst (constraints_reduce a b)) (snd (constraints_reduce a b)).
Proof.
  unfold constraints_reduce. destruct (is_empty oa a || is_empty ob b); [apply smash_step|].
  set (a1 := refine_cons oa a (min_cons ob b)).
  assert (S1 : step_ok oa ob a b a1 b).
  { split; [intros p; apply (L_refine_cons_sub oa n LA)|]. split; [auto|]. intros p Ha Hb. split; [|exact Hb].
    apply (L_refine_cons_keep oa n LA); auto. intros c Hc. exact (L_min_cons ob n LB b c p Hc Hb). }
  destruct (is_empty oa a1) eqn:E1; cbn [fst snd].
  - eapply step_trans; [exact S1|]. apply step_of_empty; auto.
    + intros p H. exfalso. exact (L_empty ob n LB b p H).
    + intros p Ha _. exact (L_is_empty oa n LA a1 E1 p Ha).
  - set (b1 := refine_cons ob b (min_cons oa a1)).
    assert (S2 : step_ok oa ob a1 b a1 b1).
    { split; [auto|]. split; [intros p; apply (L_refine_cons_sub ob n LB)|]. intros p Ha Hb. split; [exact Ha|].
      apply (L_refine_cons_keep ob n LB); auto. intros c Hc. exact (L_min_cons oa n LA a1 c p Hc Ha). }
    destruct (is_empty ob b1) eqn:E2; cbn [fst snd].
    + eapply step_trans; [exact S1|]. eapply step_trans; [exact S2|].
      apply step_of_empty; auto.
      * intros p H. exfalso. exact (L_empty oa n LA a1 p H).
      * intros p _ Hb. exact (L_is_empty ob n LB b1 E2 p Hb).
    + eapply step_trans; [exact S1|exact S2].
Qed.

End Generic.

(* ------------------------------------------------------------------------------------------ *)
(* shrink_to_congruence_no_check(d1, d2, cg): written once for an ordered pair of domains, because the
   congruences reduction calls it as (d1, d2, cg1) and as (d2, d1, cg2) *)
Section Shrink.
Context {A B : Type} (oa : dom_ops A) (ob : dom_ops B) (n : nat).
Hypothesis LA : dom_laws oa n.
Hypothesis LB : dom_laws ob n.

Definition shrink_to_congruence (a : A) (b : B) (c : pcg) : A * B * bool :=
  match maximize ob b (ge c) with
  | Some mx =>
      match minimize ob b (ge c) with
      | Some mn =>
          match shrink_decide (gm c) mx mn with
          | ShUnchanged => (a, b, true)
          | ShEq dn k => let nc := eq_con dn (ge c) k in (refine_con oa a nc, refine_con ob b nc, true)
          | ShEmpty => (mk_empty oa a, mk_empty ob b, false)
          end
      | None => (a, b, true)
      end
  | None => (a, b, true)
  end.

(* The arithmetic theorem at the level of points: for a point p of d1 (hence on a hyperplane of cg) that is
   also in d2 (hence between the bounds), the decision of the code is right. *)
Theorem shrink_decide_point (b : B) (c : pcg) mx mn p :
  (0 < gm c)%Z -> maximize ob b (ge c) = Some mx -> minimize ob b (ge c) = Some mn ->
  sat_pcg c p -> den ob b p ->
  match shrink_decide (gm c) mx mn with
  | ShEq dn k => sat_con (eq_con dn (ge c) k) p
  | ShEmpty => False
  | ShUnchanged => True
  end.
Proof.
  intros Hm Emx Emn [j Hj] Hb.
  destruct mx as [[xn xd] xi]. destruct mn as [[mn0 md0] mi].
  destruct (L_maximize ob n LB b _ _ _ _ Emx) as [Hxd HX]. destruct (HX p Hb) as [X1 X2].
  destruct (L_minimize ob n LB b _ _ _ _ Emn) as [Hnd HN]. destruct (HN p Hb) as [N1 N2].
  rewrite Hj in X1, X2, N1, N2. rewrite <- inject_Z_mult in X1, X2, N1, N2.
  rewrite <- Zle_Qle in X1, N1.
  assert (X2' : xi = false -> (j * gm c * xd < xn)%Z) by (intros E; rewrite Zlt_Qlt; auto).
  assert (N2' : mi = false -> (mn0 < j * gm c * md0)%Z) by (intros E; rewrite Zlt_Qlt; auto).
  pose proof (shrink_decide_core (gm c) xn xd xi mn0 md0 mi j Hm Hxd Hnd) as C. cbv zeta in C.
  assert (C' := C ltac:(nia) ltac:(intros E; specialize (X2' E); nia) ltac:(nia) ltac:(intros E; specialize (N2' E); nia)).
  clear C. destruct (shrink_decide (gm c) (xn, xd, xi) (mn0, md0, mi)) as [|dn k|]; auto.
  destruct C' as [-> Ek]. unfold sat_con, eq_con; cbn [ckd]. rewrite ceval_scaled, Hj, <- Ek.
  rewrite !inject_Z_mult. ring.
Qed.

Lemma shrink_step a b c :
  (0 < gm c)%Z -> (forall p, den oa a p -> sat_pcg c p) ->
  let r := shrink_to_congruence a b c in
  step_ok oa ob a b (fst (fst r)) (snd (fst r)) /\
  (snd r = false -> forall p, den oa a p -> den ob b p -> False).
Proof.
  intros Hm Hc. unfold shrink_to_congruence.
  destruct (maximize ob b (ge c)) as [mx|] eqn:Emx; [|cbn; split; [apply step_refl|discriminate]].
  destruct (minimize ob b (ge c)) as [mn|] eqn:Emn; [|cbn; split; [apply step_refl|discriminate]].
  pose proof (fun p Ha Hb => shrink_decide_point b c mx mn p Hm Emx Emn (Hc p Ha) Hb) as P.
  destruct (shrink_decide (gm c) mx mn) as [|dn k|]; cbn [fst snd].
  - split; [apply step_refl|discriminate].
  - split; [|discriminate].
    split; [intros p; apply (L_refine_con_sub oa n LA)|]. split; [intros p; apply (L_refine_con_sub ob n LB)|].
    intros p Ha Hb. split.
    + apply (L_refine_con_keep oa n LA); auto.
    + apply (L_refine_con_keep ob n LB); auto.
  - split; [|intros _ p Ha Hb; exact (P p Ha Hb)].
    apply step_of_empty.
    + intros p H. exfalso. exact (L_empty oa n LA a p H).
    + intros p H. exfalso. exact (L_empty ob n LB b p H).
    + intros p Ha Hb. exact (P p Ha Hb).
Qed.

(* one of the two loops of Congruences_Reduction::product_reduce: the congruences cgs of the (old) first
   component are used to shrink both; `false` = "the product is empty", the caller returns at once *)
Fixpoint cg_loop (cgs : list pcg) (a : A) (b : B) : A * B * bool :=
  match cgs with
  | [] => (a, b, true)
  | c :: rest =>
      if (gm c =? 0)%Z then cg_loop rest a (refine_cg ob b c)        (* cg1.is_equality() *)
      else
        let r := shrink_to_congruence a b c in
        if snd r then cg_loop rest (fst (fst r)) (snd (fst r)) else r
  end.

Lemma cg_loop_step cgs : forall a b,
  (forall c, In c cgs -> (0 <= gm c)%Z /\ forall p, den oa a p -> sat_pcg c p) ->
  step_ok oa ob a b (fst (fst (cg_loop cgs a b))) (snd (fst (cg_loop cgs a b))).
Proof.
  induction cgs as [|c rest IH]; intros a b H; cbn [cg_loop]; [apply step_refl|].
  destruct (H c (or_introl eq_refl)) as [Hm Hc].
  destruct (gm c =? 0)%Z eqn:E0.
  - eapply step_trans; [|apply IH; intros c' Hc'; apply H; now right].
    split; [auto|]. split; [intros p; apply (L_refine_cg_sub ob n LB)|]. intros p Ha Hb. split; [exact Ha|].
    apply (L_refine_cg_keep ob n LB); auto.
  - apply Z.eqb_neq in E0. destruct (shrink_step a b c ltac:(lia) Hc) as [S _]. cbv zeta in S.
    destruct (snd (shrink_to_congruence a b c)); [|exact S].
    eapply step_trans; [exact S|]. apply IH. intros c' Hc'. destruct (H c' (or_intror Hc')) as [M1 M2].
    split; [exact M1|]. intros p Hp. apply M2. destruct S as [S1 _]. auto.
Qed.

End Shrink.

(* ------------------------------------------------------------------------------------------ *)
Section Reductions.
Context {D1 D2 : Type} (o1 : dom_ops D1) (o2 : dom_ops D2) (n : nat).
Hypothesis L1 : dom_laws o1 n.
Hypothesis L2 : dom_laws o2 n.

(* Congruences_Reduction<D1, D2>::product_reduce *)
Definition congruences_reduce (d1 : D1) (d2 : D2) : D1 * D2 :=
  if is_empty o1 d1 || is_empty o2 d2 then smash_reduce o1 o2 d1 d2
  else
    let r := cg_loop o1 o2 (min_cgs o1 d1) d1 d2 in
    if snd r then
      let d1' := fst (fst r) in let d2' := snd (fst r) in
      let s := cg_loop o2 o1 (min_cgs o2 d2') d2' d1' in
      (snd (fst s), fst (fst s))
    else fst r.

Lemma congruences_step d1 d2 :
  step_ok o1 o2 d1 d2 (fst (congruences_reduce d1 d2)) (snd (congruences_reduce d1 d2)).
Proof.
  unfold congruences_reduce. destruct (is_empty o1 d1 || is_empty o2 d2); [apply (smash_step o1 o2 n L1 L2)|].
  pose proof (cg_loop_step o1 o2 n L1 L2 (min_cgs o1 d1) d1 d2 (L_min_cgs o1 n L1 d1)) as S.
  destruct (snd (cg_loop o1 o2 (min_cgs o1 d1) d1 d2)); [|destruct (cg_loop o1 o2 (min_cgs o1 d1) d1 d2) as [[x y] z]; exact S].
  set (d1' := fst (fst (cg_loop o1 o2 (min_cgs o1 d1) d1 d2))) in *.
  set (d2' := snd (fst (cg_loop o1 o2 (min_cgs o1 d1) d1 d2))) in *.
  pose proof (cg_loop_step o2 o1 n L2 L1 (min_cgs o2 d2') d2' d1' (L_min_cgs o2 n L2 d2')) as T.
  cbn [fst snd]. eapply step_trans; [exact S|]. apply step_swap. exact T.
Qed.

(* the refining constraint system built by one loop of Shape_Preserving_Reduction::product_reduce:
   cs are the minimized constraints of the OTHER component, d is the component asked for frequencies *)
Definition sp_refining {D} (o : dom_ops D) (d : D) (cs : list con) : list con :=
  flat_map (fun c =>
    if con_is_eq c then []
    else match frequency o d (lin_of_con c) with
         | None => []
         | Some (fn, fd, vn, vd) =>
             if (vn =? 0)%Z then []
             else let '(vn', vd') := if (vn <? 0)%Z then ((vn * fd + vd * fn)%Z, (vd * fd)%Z) else (vn, vd) in
                  [ge_con vd' (lin_of_con c) vn']
         end) cs.

Lemma sp_refining_sound {D} (o : dom_ops D) (L : dom_laws o n) d cs p :
  den o d p -> sat_cons cs p -> sat_cons (sp_refining o d cs) p.
Proof.
  intros Hd Hcs c' Hc'. unfold sp_refining in Hc'. apply in_flat_map in Hc'. destruct Hc' as [c [Hc Hin]].
  specialize (Hcs c Hc).
  destruct (con_is_eq c) eqn:Eq; [destruct Hin|].
  destruct (frequency o d (lin_of_con c)) as [[[[fn fd] vn] vd]|] eqn:Ef; [|destruct Hin].
  destruct (L_frequency o n L d _ _ _ _ _ Ef) as [Hfn [Hfd [Hvd [Hv Hval]]]].
  destruct (Hval p Hd) as [k Hk].
  (* the constraint c holds at p: its expression is >= 0 there *)
  assert (Hge : 0 <= leval (lin_of_con c) p).
  { unfold sat_con in Hcs. unfold con_is_eq in Eq. unfold leval, lin_of_con; cbn [lcoefs lcst].
    unfold ceval in Hcs. destruct (ckd c); [discriminate| |]; lra. }
  set (x := leval (lin_of_con c) p) in *.
  assert (Pfd : 0 < inject_Z fd) by (change 0 with (inject_Z 0); now rewrite <- Zlt_Qlt).
  assert (Pvd : 0 < inject_Z vd) by (change 0 with (inject_Z 0); now rewrite <- Zlt_Qlt).
  assert (Pfn : 0 <= inject_Z fn) by (change 0 with (inject_Z 0); now rewrite <- Zle_Qle).
  set (F := inject_Z fn / inject_Z fd) in *.
  assert (HF : F * inject_Z fd == inject_Z fn) by (unfold F; field; lra).
  assert (PF : 0 <= F).
  { unfold F. apply Qle_shift_div_l; lra. }
  set (V := inject_Z vn / inject_Z vd) in *.
  assert (HV : V * inject_Z vd == inject_Z vn) by (unfold V; field; lra).
  clearbody F V.
  destruct (vn =? 0)%Z eqn:E0; [destruct Hin|]. apply Z.eqb_neq in E0.
  destruct (vn <? 0)%Z eqn:En; [apply Z.ltb_lt in En | apply Z.ltb_ge in En];
    destruct Hin as [<-|[]]; unfold sat_con, ge_con; cbn [ckd]; rewrite ceval_scaled; fold x; clearbody x.
  - (* val < 0: the bound becomes val + freq *)
    assert (NV : inject_Z vn < 0) by (change 0 with (inject_Z 0); now rewrite <- Zlt_Qlt).
    assert (NV' : V < 0) by nra.
    (* x = V + k F >= 0 > V forces k >= 1 *)
    assert (K : (1 <= k)%Z).
    { destruct (Z_lt_le_dec k 1) as [Hlt|]; [|assumption]. exfalso.
      assert (inject_Z k <= 0) by (change 0 with (inject_Z 0); rewrite <- Zle_Qle; lia). nra. }
    assert (K' : 1 <= inject_Z k) by (change 1 with (inject_Z 1); now rewrite <- Zle_Qle).
    rewrite !inject_Z_plus, !inject_Z_mult.
    (* vd*fd*x - (vn*fd + vd*fn) = vd*fd*(x - V - F) >= 0 *)
    assert (x - V - F >= 0) by nra.
    assert (P2 : 0 <= inject_Z vd * inject_Z fd * (x - V - F)).
    { apply Qmult_le_0_compat; [apply Qmult_le_0_compat; lra|lra]. }
    assert (E : inject_Z vd * inject_Z fd * (x - V - F)
                == inject_Z vd * inject_Z fd * x - (inject_Z vn * inject_Z fd + inject_Z vd * inject_Z fn)).
    { rewrite <- HV, <- HF. ring. }
    lra.
  - (* val > 0 *)
    assert (Hpos : (0 < vn)%Z) by lia.
    assert (PV : 0 < inject_Z vn) by (change 0 with (inject_Z 0); now rewrite <- Zlt_Qlt).
    assert (PV' : 0 < V) by nra.
    assert (x >= V).
    { destruct (Hv Hpos) as [F0|Hlt].
      - assert (F == 0). { rewrite F0 in HF. change (inject_Z 0) with 0 in HF. nra. } nra.
      - assert (VF : V < F).
        { rewrite Zlt_Qlt in Hlt. rewrite !inject_Z_mult in Hlt.
          rewrite <- HV, <- HF in Hlt.
          destruct (Qlt_le_dec V F) as [|Hle]; [assumption|exfalso].
          assert (P2 : 0 <= (V - F) * (inject_Z vd * inject_Z fd)).
          { apply Qmult_le_0_compat; [lra|apply Qmult_le_0_compat; lra]. }
          assert (E : (V - F) * (inject_Z vd * inject_Z fd)
                      == V * inject_Z vd * inject_Z fd - F * inject_Z fd * inject_Z vd) by ring.
          lra. }
        destruct (Z_lt_le_dec k 0) as [Hneg|Hnn].
        + exfalso. assert (inject_Z k <= -1) by (change (-1) with (inject_Z (-1)); rewrite <- Zle_Qle; lia). nra.
        + assert (0 <= inject_Z k) by (change 0 with (inject_Z 0); now rewrite <- Zle_Qle). nra. }
    nra.
Qed.

(* Shape_Preserving_Reduction<D1, D2>::product_reduce *)
Definition shape_preserving_reduce (d1 : D1) (d2 : D2) : D1 * D2 :=
  let r := congruences_reduce d1 d2 in
  let d1 := fst r in let d2 := snd r in
  if is_empty o1 d1 then (d1, d2)
  else
    let d2 := refine_cons o2 d2 (sp_refining o1 d1 (min_cons o2 d2)) in
    let d1 := refine_cons o1 d1 (sp_refining o2 d2 (min_cons o1 d1)) in
    constraints_reduce o1 o2 d1 d2.

Lemma shape_preserving_step d1 d2 :
  step_ok o1 o2 d1 d2 (fst (shape_preserving_reduce d1 d2)) (snd (shape_preserving_reduce d1 d2)).
Proof.
  unfold shape_preserving_reduce.
  pose proof (congruences_step d1 d2) as S0.
  set (e1 := fst (congruences_reduce d1 d2)) in *. set (e2 := snd (congruences_reduce d1 d2)) in *.
  destruct (is_empty o1 e1); [exact S0|].
  set (f2 := refine_cons o2 e2 (sp_refining o1 e1 (min_cons o2 e2))).
  set (f1 := refine_cons o1 e1 (sp_refining o2 f2 (min_cons o1 e1))).
  eapply step_trans; [exact S0|].
  assert (S1 : step_ok o1 o2 e1 e2 e1 f2).
  { split; [auto|]. split; [intros p; apply (L_refine_cons_sub o2 n L2)|]. intros p Ha Hb. split; [exact Ha|].
    apply (L_refine_cons_keep o2 n L2); auto. apply (sp_refining_sound o1 L1); auto.
    intros c Hc. exact (L_min_cons o2 n L2 e2 c p Hc Hb). }
  assert (S2 : step_ok o1 o2 e1 f2 f1 f2).
  { split; [intros p; apply (L_refine_cons_sub o1 n L1)|]. split; [auto|]. intros p Ha Hb. split; [|exact Hb].
    apply (L_refine_cons_keep o1 n L1); auto. apply (sp_refining_sound o2 L2); auto.
    intros c Hc. exact (L_min_cons o1 n L1 e1 c p Hc Ha). }
  eapply step_trans; [exact S1|]. eapply step_trans; [exact S2|].
  apply (constraints_step o1 o2 n L1 L2).
Qed.

(* ------------------------------------------------------------------------------------------ *)
(* the product: two components and the `reduced` flag (Partially_Reduced_Product_defs.hh) *)
Record prod := { c1 : D1; c2 : D2; reduced : bool }.

Definition meet (x : prod) (p : point) : Prop := den o1 (c1 x) p /\ den o2 (c2 x) p.

Inductive policy := NoReduction | Smash | Constraints | Congruences | ShapePreserving.

Definition product_reduce (R : policy) (d1 : D1) (d2 : D2) : D1 * D2 :=
  match R with
  | NoReduction => (d1, d2)
  | Smash => smash_reduce o1 o2 d1 d2
  | Constraints => constraints_reduce o1 o2 d1 d2
  | Congruences => congruences_reduce d1 d2
  | ShapePreserving => shape_preserving_reduce d1 d2
  end.

Lemma product_reduce_step R d1 d2 :
  step_ok o1 o2 d1 d2 (fst (product_reduce R d1 d2)) (snd (product_reduce R d1 d2)).
Proof.
  destruct R; cbn [product_reduce].
  - apply step_refl.
  - apply (smash_step o1 o2 n L1 L2).
  - apply (constraints_step o1 o2 n L1 L2).
  - apply congruences_step.
  - apply shape_preserving_step.
Qed.

(* Partially_Reduced_Product::reduce() (inlines.hh:671-681), clear_reduced_flag, set_reduced_flag *)
Definition reduce (R : policy) (x : prod) : prod :=
  if reduced x then x
  else let r := product_reduce R (c1 x) (c2 x) in {| c1 := fst r; c2 := snd r; reduced := true |}.
Definition clear_flag (x : prod) : prod := {| c1 := c1 x; c2 := c2 x; reduced := false |}.
Definition set_flag (x : prod) : prod := {| c1 := c1 x; c2 := c2 x; reduced := true |}.

Theorem reduce_preserves_meet R x p : meet (reduce R x) p <-> meet x p.
Proof.
  unfold reduce. destruct (reduced x); [reflexivity|].
  destruct (product_reduce_step R (c1 x) (c2 x)) as [S1 [S2 S3]]. unfold meet; cbn [c1 c2]. split.
  - intros [H1 H2]. split; auto.
  - intros [H1 H2]. apply S3; auto.
Qed.

Theorem reduce_shrinks R x :
  (forall p, den o1 (c1 (reduce R x)) p -> den o1 (c1 x) p) /\
  (forall p, den o2 (c2 (reduce R x)) p -> den o2 (c2 x) p).
Proof.
  unfold reduce. destruct (reduced x); [split; auto|].
  destruct (product_reduce_step R (c1 x) (c2 x)) as [S1 [S2 S3]]. cbn [c1 c2]. split; auto.
Qed.

(* flag truth: with the flag set reduce() does nothing; reduce() sets it, so a second reduce() is the identity *)
Theorem flag_set_reduce_identity R x : reduced x = true -> reduce R x = x.
Proof. unfold reduce. now intros ->. Qed.
Theorem reduce_sets_flag R x : reduced (reduce R x) = true.
Proof. unfold reduce. destruct (reduced x) eqn:E; [exact E|reflexivity]. Qed.
Theorem reduce_idempotent R x : reduce R (reduce R x) = reduce R x.
Proof. apply flag_set_reduce_identity, reduce_sets_flag. Qed.

(* ------------------------------------------------------------------------------------------ *)
(* transformers (Partially_Reduced_Product_inlines.hh): every one applies the component operation to
   d1 and to d2; they differ in whether reduce() is called first and whether the flag is cleared.
   [F] is the exact set transformer the operation approximates. *)
Definition pset := point -> Prop.
Definition psub (S T : pset) : Prop := forall p, S p -> T p.

(* unary:  { reduce(); } d1.op(); d2.op(); { clear_reduced_flag(); } *)
Definition unary_op (R : policy) (reduce_first clear : bool) (f1 : D1 -> D1) (f2 : D2 -> D2) (x : prod) : prod :=
  let x := if reduce_first then reduce R x else x in
  {| c1 := f1 (c1 x); c2 := f2 (c2 x); reduced := if clear then false else reduced x |}.

Theorem unary_transformer_sound R rf cl f1 f2 (F : pset -> pset) x :
  (forall S T, psub S T -> psub (F S) (F T)) ->
  (forall d, psub (F (den o1 d)) (den o1 (f1 d))) ->
  (forall d, psub (F (den o2 d)) (den o2 (f2 d))) ->
  psub (F (meet x)) (meet (unary_op R rf cl f1 f2 x)).
Proof.
  intros Mono H1 H2 p Hp. unfold unary_op.
  set (y := if rf then reduce R x else x).
  assert (Hy : psub (meet x) (meet y)).
  { unfold y. destruct rf; [|intros q; auto]. intros q Hq. now apply reduce_preserves_meet. }
  unfold meet; cbn [c1 c2]. split.
  - apply H1. eapply Mono; [|exact Hp]. intros q Hq. apply Hy in Hq. exact (proj1 Hq).
  - apply H2. eapply Mono; [|exact Hp]. intros q Hq. apply Hy in Hq. exact (proj2 Hq).
Qed.

(* binary:  { reduce(); y.reduce(); } d1.op(y.d1); d2.op(y.d2); { clear_reduced_flag(); } *)
Definition binary_op (R : policy) (reduce_first clear : bool) (f1 : D1 -> D1 -> D1) (f2 : D2 -> D2 -> D2)
           (x y : prod) : prod :=
  let x := if reduce_first then reduce R x else x in
  let y := if reduce_first then reduce R y else y in
  {| c1 := f1 (c1 x) (c1 y); c2 := f2 (c2 x) (c2 y); reduced := if clear then false else reduced x |}.

Theorem binary_transformer_sound R rf cl f1 f2 (F : pset -> pset -> pset) x y :
  (forall S T S' T', psub S S' -> psub T T' -> psub (F S T) (F S' T')) ->
  (forall d e, psub (F (den o1 d) (den o1 e)) (den o1 (f1 d e))) ->
  (forall d e, psub (F (den o2 d) (den o2 e)) (den o2 (f2 d e))) ->
  psub (F (meet x) (meet y)) (meet (binary_op R rf cl f1 f2 x y)).
Proof.
  intros Mono H1 H2 p Hp. unfold binary_op.
  set (x' := if rf then reduce R x else x). set (y' := if rf then reduce R y else y).
  assert (Hx : psub (meet x) (meet x')).
  { unfold x'. destruct rf; [|intros q; auto]. intros q Hq. now apply reduce_preserves_meet. }
  assert (Hy : psub (meet y) (meet y')).
  { unfold y'. destruct rf; [|intros q; auto]. intros q Hq. now apply reduce_preserves_meet. }
  unfold meet; cbn [c1 c2]. split.
  - apply H1. eapply Mono; [| |exact Hp]; intros q Hq; [apply Hx in Hq|apply Hy in Hq]; exact (proj1 Hq).
  - apply H2. eapply Mono; [| |exact Hp]; intros q Hq; [apply Hx in Hq|apply Hy in Hq]; exact (proj2 Hq).
Qed.

(* The exact set transformers of the binary operations of the interface.  All but the difference are monotone
   in both arguments, so binary_transformer_sound applies to them. *)
Definition F_inter (S T : pset) : pset := fun p => S p /\ T p.
Definition F_union (S T : pset) : pset := fun p => S p \/ T p.
Definition F_diff (S T : pset) : pset := fun p => S p /\ ~ T p.
Definition F_elapse (S T : pset) : pset :=
  fun p => exists q r t, S q /\ T r /\ 0 <= t /\ forall i, p i == q i + t * r i.

Lemma F_inter_mono S T S' T' : psub S S' -> psub T T' -> psub (F_inter S T) (F_inter S' T').
Proof. intros A B p [H1 H2]. split; auto. Qed.
Lemma F_union_mono S T S' T' : psub S S' -> psub T T' -> psub (F_union S T) (F_union S' T').
Proof. intros A B p [H|H]; [left|right]; auto. Qed.
Lemma F_elapse_mono S T S' T' : psub S S' -> psub T T' -> psub (F_elapse S T) (F_elapse S' T').
Proof. intros A B p [q [r [t [H1 [H2 H3]]]]]. exists q, r, t. auto. Qed.

(* ------------------------------------------------------------------------------------------ *)
(* predicates: the definite answers are true of the meets *)
Definition p_is_empty (R : policy) (x : prod) : bool :=
  let x := reduce R x in is_empty o1 (c1 x) || is_empty o2 (c2 x).
Definition p_contains (R : policy) (x y : prod) : bool :=
  let x := reduce R x in let y := reduce R y in contains o1 (c1 x) (c1 y) && contains o2 (c2 x) (c2 y).
Definition p_is_disjoint_from (R : policy) (x y : prod) : bool :=
  let x := reduce R x in let y := reduce R y in disjoint o1 (c1 x) (c1 y) || disjoint o2 (c2 x) (c2 y).
Definition p_is_bounded (R : policy) (x : prod) : bool :=
  let x := reduce R x in is_bounded o1 (c1 x) || is_bounded o2 (c2 x).
Definition p_is_universe (x : prod) : bool := is_universe o1 (c1 x) && is_universe o2 (c2 x).
(* relation_with(const Constraint&): each of the three flags is reported when either component reports it *)
Definition p_rel_con (R : policy) (x : prod) (c : con) : bool * bool * bool :=
  let x := reduce R x in
  let '(dj1, in1, sa1) := rel_con o1 (c1 x) c in
  let '(dj2, in2, sa2) := rel_con o2 (c2 x) c in
  (dj1 || dj2, in1 || in2, sa1 || sa2).
(* maximize(expr, sup_n, sup_d, maximum): note the comparison `sup2_d * sup1_n >= sup1_d * sup2_n` selects the
   LARGER of the two suprema although the source comment says "use the minimum values" *)
Definition p_maximize (R : policy) (x : prod) (e : lin) : option (Z * Z * bool) :=
  let x := reduce R x in
  if is_empty o1 (c1 x) || is_empty o2 (c2 x) then None
  else match maximize o1 (c1 x) e, maximize o2 (c2 x) e with
       | None, None => None
       | None, Some r2 => Some r2
       | Some r1, None => Some r1
       | Some (n1, d1, m1), Some (n2, d2, m2) =>
           if (d1 * n2 <=? d2 * n1)%Z then Some (n1, d1, m1) else Some (n2, d2, m2)
       end.

Theorem is_empty_sound R x : p_is_empty R x = true -> forall p, ~ meet x p.
Proof.
  unfold p_is_empty. intros H p Hp. apply (reduce_preserves_meet R) in Hp. destruct Hp as [H1 H2].
  apply orb_true_iff in H. destruct H as [H|H].
  - exact (L_is_empty o1 n L1 _ H p H1).
  - exact (L_is_empty o2 n L2 _ H p H2).
Qed.

Theorem contains_sound R x y : p_contains R x y = true -> forall p, meet y p -> meet x p.
Proof.
  unfold p_contains. intros H p Hp. apply andb_true_iff in H. destruct H as [H1 H2].
  apply (reduce_preserves_meet R) in Hp. apply (reduce_preserves_meet R). destruct Hp as [P1 P2]. split.
  - exact (L_contains o1 n L1 _ _ H1 p P1).
  - exact (L_contains o2 n L2 _ _ H2 p P2).
Qed.

Theorem is_disjoint_from_sound R x y : p_is_disjoint_from R x y = true -> forall p, meet x p -> meet y p -> False.
Proof.
  unfold p_is_disjoint_from. intros H p Hx Hy. apply (reduce_preserves_meet R) in Hx, Hy.
  destruct Hx as [X1 X2]. destruct Hy as [Y1 Y2]. apply orb_true_iff in H. destruct H as [H|H].
  - exact (L_disjoint o1 n L1 _ _ H p X1 Y1).
  - exact (L_disjoint o2 n L2 _ _ H p X2 Y2).
Qed.

Theorem is_bounded_sound R x : p_is_bounded R x = true -> bounded_set n (meet x).
Proof.
  unfold p_is_bounded. intros H. apply orb_true_iff in H. destruct H as [H|H].
  - destruct (L_is_bounded o1 n L1 _ H) as [B HB]. exists B. intros p Hp. apply (reduce_preserves_meet R) in Hp.
    apply HB. exact (proj1 Hp).
  - destruct (L_is_bounded o2 n L2 _ H) as [B HB]. exists B. intros p Hp. apply (reduce_preserves_meet R) in Hp.
    apply HB. exact (proj2 Hp).
Qed.

Theorem is_universe_sound x : p_is_universe x = true -> forall p, meet x p.
Proof.
  unfold p_is_universe. intros H p. apply andb_true_iff in H. destruct H as [H1 H2]. split.
  - exact (L_is_universe o1 n L1 _ H1 p).
  - exact (L_is_universe o2 n L2 _ H2 p).
Qed.

Theorem relation_with_constraint_sound R x c dj inc sa : p_rel_con R x c = (dj, inc, sa) ->
  (dj = true -> forall p, meet x p -> ~ sat_con c p) /\
  (inc = true -> forall p, meet x p -> sat_con c p) /\
  (sa = true -> forall p, meet x p -> ceval c p == 0).
Proof.
  unfold p_rel_con.
  destruct (rel_con o1 (c1 (reduce R x)) c) as [[dj1 in1] sa1] eqn:E1.
  destruct (rel_con o2 (c2 (reduce R x)) c) as [[dj2 in2] sa2] eqn:E2.
  intros [= <- <- <-].
  destruct (L_rel_con o1 n L1 _ _ _ _ _ E1) as [A1 [A2 A3]].
  destruct (L_rel_con o2 n L2 _ _ _ _ _ E2) as [B1 [B2 B3]].
  repeat split; intros H p Hp; apply (reduce_preserves_meet R) in Hp; destruct Hp as [P1 P2];
    apply orb_true_iff in H; destruct H as [H|H]; auto.
Qed.

Theorem maximize_sound R x e sn sd mx : p_maximize R x e = Some (sn, sd, mx) ->
  (0 < sd)%Z /\ forall p, meet x p -> leval e p * inject_Z sd <= inject_Z sn.
Proof.
  unfold p_maximize. destruct (is_empty o1 _ || is_empty o2 _); [discriminate|].
  destruct (maximize o1 (c1 (reduce R x)) e) as [[[n1 d1] m1]|] eqn:E1;
    destruct (maximize o2 (c2 (reduce R x)) e) as [[[n2 d2] m2]|] eqn:E2; try discriminate.
  - destruct (L_maximize o1 n L1 _ _ _ _ _ E1) as [A1 A2]. destruct (L_maximize o2 n L2 _ _ _ _ _ E2) as [B1 B2].
    destruct (d1 * n2 <=? d2 * n1)%Z; intros [= <- <- <-].
    + split; [exact A1|]. intros p Hp. apply (reduce_preserves_meet R) in Hp. exact (proj1 (A2 p (proj1 Hp))).
    + split; [exact B1|]. intros p Hp. apply (reduce_preserves_meet R) in Hp. exact (proj1 (B2 p (proj2 Hp))).
  - destruct (L_maximize o1 n L1 _ _ _ _ _ E1) as [A1 A2]. intros [= <- <- <-].
    split; [exact A1|]. intros p Hp. apply (reduce_preserves_meet R) in Hp. exact (proj1 (A2 p (proj1 Hp))).
  - destruct (L_maximize o2 n L2 _ _ _ _ _ E2) as [B1 B2]. intros [= <- <- <-].
    split; [exact B1|]. intros p Hp. apply (reduce_preserves_meet R) in Hp. exact (proj1 (B2 p (proj2 Hp))).
Qed.

End Reductions.
