(* C10 -- concrete component domains: the hypotheses of the theorems of PRP.v (dom_laws) are satisfiable,
   the shrink runs to each of its outcomes on them, and the counter-model for the component-wise
   difference (Partially_Reduced_Product::difference_assign, inlines.hh:226-234). *)
From Coq Require Import List ZArith QArith Lia Lqa Bool.
Require Import PPLV.Base.FM PPLV.Base.Sys PPLV.Product.PRPArith PPLV.Product.PRP.
Import ListNotations.
Local Open Scope Q_scope.

(* ---------- constraint lists: refinement keeps every constraint, all queries are indefinite ---------- *)
Definition false_con : con := {| ccoefs := []; ccst := (-1)%Z; ckd := GE |}.
Lemma false_con_unsat p : ~ sat_con false_con p.
Proof. unfold sat_con, false_con, ceval; cbn. intros H. unfold Qle in H; cbn in H. lia. Qed.

Definition cons_ops : dom_ops (list con) := {|
  den := fun d p => sat_cons d p;
  mk_empty := fun _ => [false_con];
  is_empty := fun _ => false;
  min_cons := fun d => d;
  min_cgs := fun _ => [];
  refine_cons := fun d cs => cs ++ d;
  refine_con := fun d c => c :: d;
  refine_cg := fun d _ => d;
  maximize := fun _ _ => None;
  minimize := fun _ _ => None;
  frequency := fun _ _ => None;
  contains := fun _ _ => false;
  disjoint := fun _ _ => false;
  rel_con := fun _ _ => (false, false, false);
  is_bounded := fun _ => false;
  is_universe := fun _ => false |}.

Lemma cons_laws n : dom_laws cons_ops n.
Proof.
  constructor; cbn; try discriminate; try (intros; discriminate).
  - intros d p H. apply (false_con_unsat p). apply H. now left.
  - intros d c p Hc H. now apply H.
  - intros d c [].
  - intros d cs p H c Hc. apply H. apply in_or_app. now right.
  - intros d cs p H1 H2 c Hc. apply in_app_or in Hc. destruct Hc; auto.
  - intros d c p H c' Hc'. apply H. now right.
  - intros d c p H1 H2 c' [<-|Hc']; auto.
  - auto.
  - auto.
  - intros d c dj inc sa [= <- <- <-]. repeat split; discriminate.
Qed.

(* ---------- congruence lists (a "grid"): equalities and congruences are kept exactly ---------- *)
Definition cg_of_con (c : con) : pcg := {| ge := lin_of_con c; gm := 0 |}.
Definition cgs_ops : dom_ops (list pcg) := {|
  den := fun d p => forall c, In c d -> sat_pcg c p;
  mk_empty := fun _ => [{| ge := {| lcoefs := []; lcst := 1 |}; gm := 0 |}];
  is_empty := fun _ => false;
  min_cons := fun _ => [];
  min_cgs := fun d => filter (fun c => (0 <=? gm c)%Z) d;
  refine_cons := fun d cs => map cg_of_con (filter con_is_eq cs) ++ d;
  refine_con := fun d c => if con_is_eq c then cg_of_con c :: d else d;
  refine_cg := fun d c => c :: d;
  maximize := fun _ _ => None;
  minimize := fun _ _ => None;
  frequency := fun _ _ => None;
  contains := fun _ _ => false;
  disjoint := fun _ _ => false;
  rel_con := fun _ _ => (false, false, false);
  is_bounded := fun _ => false;
  is_universe := fun _ => false |}.

Lemma eq_con_as_cg c p : con_is_eq c = true -> sat_con c p -> sat_pcg (cg_of_con c) p.
Proof.
  unfold con_is_eq, sat_con, sat_pcg, cg_of_con, lin_of_con, leval, ceval; cbn [ge gm lcoefs lcst].
  destruct (ckd c); try discriminate. intros _ H. exists 0%Z. rewrite H. reflexivity.
Qed.

Lemma cgs_laws n : dom_laws cgs_ops n.
Proof.
  constructor; cbn; try discriminate; try (intros; discriminate).
  - intros d p H. destruct (H _ (or_introl eq_refl)) as [k Hk]. unfold leval in Hk; cbn in Hk.
    rewrite Z.mul_0_r in Hk. change (inject_Z 1) with 1 in Hk. change (inject_Z 0) with 0 in Hk. lra.
  - intros d c p [].
  - intros d c Hc. apply filter_In in Hc. destruct Hc as [Hc Hm]. apply Z.leb_le in Hm. split; auto.
  - intros d cs p H c Hc. apply H. apply in_or_app. now right.
  - intros d cs p H1 H2 c Hc. apply in_app_or in Hc. destruct Hc as [Hc|Hc]; auto.
    apply in_map_iff in Hc. destruct Hc as [k [<- Hk]]. apply filter_In in Hk. destruct Hk as [Hk E].
    apply eq_con_as_cg; auto.
  - intros d c p H c' Hc'. destruct (con_is_eq c); apply H; [now right|assumption].
  - intros d c p H1 H2. destruct (con_is_eq c) eqn:E; [|assumption]. intros c' [<-|Hc']; auto. now apply eq_con_as_cg.
  - intros d c p H c' Hc'. apply H. now right.
  - intros d c p H1 H2 c' [<-|Hc']; auto.
  - intros d c dj inc sa [= <- <- <-]. repeat split; discriminate.
Qed.

(* ---------- integer intervals on x0 with exact maximize / minimize of expressions a*x0 + b, a > 0 ---------- *)
Definition itv_ops : dom_ops (Z * Z) := {|
  den := fun d p => inject_Z (fst d) <= p 0%nat /\ p 0%nat <= inject_Z (snd d);
  mk_empty := fun _ => (1, 0)%Z;
  is_empty := fun d => (snd d <? fst d)%Z;
  min_cons := fun _ => [];
  min_cgs := fun _ => [];
  refine_cons := fun d _ => d;
  refine_con := fun d _ => d;
  refine_cg := fun d _ => d;
  maximize := fun d e => match lcoefs e with [a] => if (0 <? a)%Z then Some ((a * snd d + lcst e)%Z, 1%Z, true) else None | _ => None end;
  minimize := fun d e => match lcoefs e with [a] => if (0 <? a)%Z then Some ((a * fst d + lcst e)%Z, 1%Z, true) else None | _ => None end;
  frequency := fun _ _ => None;
  contains := fun _ _ => false;
  disjoint := fun _ _ => false;
  rel_con := fun _ _ => (false, false, false);
  is_bounded := fun _ => false;
  is_universe := fun _ => false |}.

Lemma itv_laws n : dom_laws itv_ops n.
Proof.
  constructor; cbn; try discriminate; try (intros; discriminate); auto.
  - intros d p [H1 H2]. change (inject_Z 1) with 1 in H1. change (inject_Z 0) with 0 in H2. lra.
  - intros d E p [H1 H2]. apply Z.ltb_lt in E. rewrite Zlt_Qlt in E. lra.
  - intros d c p [].
  - intros d c [].
  - intros d e sn sd mx. destruct (lcoefs e) as [|a [|? ?]] eqn:E; try discriminate.
    destruct (0 <? a)%Z eqn:Ea; [|discriminate]. apply Z.ltb_lt in Ea. intros [= <- <- <-]. split; [lia|].
    intros p [H1 H2]. split; [|discriminate]. unfold leval. rewrite E. cbn [dot].
    rewrite inject_Z_plus, inject_Z_mult. change (inject_Z 1) with 1. rewrite Zlt_Qlt in Ea. change (inject_Z 0) with 0 in Ea. nra.
  - intros d e sn sd mx. destruct (lcoefs e) as [|a [|? ?]] eqn:E; try discriminate.
    destruct (0 <? a)%Z eqn:Ea; [|discriminate]. apply Z.ltb_lt in Ea. intros [= <- <- <-]. split; [lia|].
    intros p [H1 H2]. split; [|discriminate]. unfold leval. rewrite E. cbn [dot].
    rewrite inject_Z_plus, inject_Z_mult. change (inject_Z 1) with 1. rewrite Zlt_Qlt in Ea. change (inject_Z 0) with 0 in Ea. nra.
  - intros d c dj inc sa [= <- <- <-]. repeat split; discriminate.
Qed.

(* the shrink on (grid, interval) reaches its three outcomes *)
Definition x0 : lin := {| lcoefs := [1%Z]; lcst := 0 |}.
Definition even : pcg := {| ge := x0; gm := 2 |}.
Example shrink_run_eq :
  shrink_to_congruence cgs_ops itv_ops [even] (1, 2)%Z even
  = ([cg_of_con (eq_con 1 x0 2); even], (1, 2)%Z, true).
Proof. vm_compute. reflexivity. Qed.
Example shrink_run_empty : snd (shrink_to_congruence cgs_ops itv_ops [even] (1, 1)%Z even) = false.
Proof. vm_compute. reflexivity. Qed.
Example shrink_run_two : shrink_to_congruence cgs_ops itv_ops [even] (-2, 0)%Z even = ([even], (-2, 0)%Z, true).
Proof. vm_compute. reflexivity. Qed.
(* and the reductions run on these domains *)
Example congruences_run :
  fst (congruences_reduce cgs_ops itv_ops [even] (-3, -1)%Z) = [cg_of_con (eq_con 1 x0 (-2)); even].
Proof. vm_compute. reflexivity. Qed.

(* ---------- the component-wise difference is NOT an over-approximation of the difference ---------- *)
(* boolean predicates as a domain with an exact difference *)
Definition pred_ops : dom_ops (point -> bool) := {|
  den := fun d p => d p = true;
  mk_empty := fun _ _ => false;
  is_empty := fun _ => false;
  min_cons := fun _ => [];
  min_cgs := fun _ => [];
  refine_cons := fun d _ => d;
  refine_con := fun d _ => d;
  refine_cg := fun d _ => d;
  maximize := fun _ _ => None;
  minimize := fun _ _ => None;
  frequency := fun _ _ => None;
  contains := fun _ _ => false;
  disjoint := fun _ _ => false;
  rel_con := fun _ _ => (false, false, false);
  is_bounded := fun _ => false;
  is_universe := fun _ => false |}.

Lemma pred_laws n : dom_laws pred_ops n.
Proof.
  constructor; cbn; try discriminate; try (intros; discriminate); auto.
  - intros d c p [].
  - intros d c [].
  - intros d c dj inc sa [= <- <- <-]. repeat split; discriminate.
Qed.

Definition pred_diff (d e : point -> bool) : point -> bool := fun p => d p && negb (e p).
Lemma pred_diff_exact d e p : den pred_ops (pred_diff d e) p <-> F_diff (den pred_ops d) (den pred_ops e) p.
Proof.
  unfold F_diff, pred_diff; cbn. rewrite andb_true_iff, negb_true_iff. split; intros [H1 H2]; split; auto.
  - congruence.
  - destruct (e p); [now elim H2|reflexivity].
Qed.

(* what a sound difference_assign would satisfy, for every pair of domains with an exact difference *)
Definition difference_assign_sound_full : Prop :=
  forall (D1 D2 : Type) (o1 : dom_ops D1) (o2 : dom_ops D2) (n : nat), dom_laws o1 n -> dom_laws o2 n ->
  forall (f1 : D1 -> D1 -> D1) (f2 : D2 -> D2 -> D2),
    (forall d e p, den o1 (f1 d e) p <-> F_diff (den o1 d) (den o1 e) p) ->
    (forall d e p, den o2 (f2 d e) p <-> F_diff (den o2 d) (den o2 e) p) ->
  forall R x y, psub (F_diff (meet o1 o2 x) (meet o1 o2 y)) (meet o1 o2 (binary_op o1 o2 R true true f1 f2 x y)).

Definition top : point -> bool := fun _ => true.
Definition nonneg0 : point -> bool := fun p => Qle_bool 0 (p 0%nat).
Definition wx : prod (D1 := point -> bool) (D2 := point -> bool) := {| c1 := top; c2 := top; reduced := true |}.
Definition wy : prod (D1 := point -> bool) (D2 := point -> bool) := {| c1 := nonneg0; c2 := top; reduced := true |}.
Definition wp : point := fun _ => -(1).

(* x = (T, T), y = ({x0 >= 0}, T): the point -1 is in meet(x) \ meet(y), but d2 \ y.d2 = T \ T is empty *)
Theorem difference_assign_refuted : ~ difference_assign_sound_full.
Proof.
  intros H.
  specialize (H _ _ pred_ops pred_ops 0%nat (pred_laws 0) (pred_laws 0) pred_diff pred_diff pred_diff_exact pred_diff_exact
                NoReduction wx wy wp).
  assert (P : F_diff (meet pred_ops pred_ops wx) (meet pred_ops pred_ops wy) wp).
  { split; [split; reflexivity|]. intros [A _]. vm_compute in A. discriminate. }
  destruct (H P) as [_ B]. vm_compute in B. discriminate.
Qed.

(* the monotone transformers do satisfy the hypotheses of binary_transformer_sound on this domain *)
Example intersection_hypotheses_satisfiable :
  forall R x y, psub (F_inter (meet pred_ops pred_ops x) (meet pred_ops pred_ops y))
                     (meet pred_ops pred_ops (binary_op pred_ops pred_ops R false true (fun d e p => d p && e p) (fun d e p => d p && e p) x y)).
Proof.
  intros R x y. apply (binary_transformer_sound pred_ops pred_ops 0 (pred_laws 0) (pred_laws 0)).
  - apply F_inter_mono.
  - intros d e p [H1 H2]; cbn in *. now rewrite H1, H2.
  - intros d e p [H1 H2]; cbn in *. now rewrite H1, H2.
Qed.
