(* C10 -- the executable functions the judge (ocaml/judge_prp.ml) calls, under names of their own so that
   the monolithic extraction cannot confuse them with homonyms of the polyhedron and grid libraries.
   Each is a thin composition of functions proved exact in Base/Sys.v, Base/Sup.v, Poly/PolyOps.v,
   Grid/GridRef.v; the membership tests used for the sampled (grid) part are proved exact here. *)
From Coq Require Import List ZArith QArith Lia Lqa Bool.
Require Import PPLV.Base.FM PPLV.Base.Sys PPLV.Base.Gens PPLV.Base.Sup PPLV.Poly.PolyOps PPLV.Poly.PolyQuery.
Require Import PPLV.Grid.QVec PPLV.Grid.IntLin PPLV.Grid.GridSem PPLV.Grid.GridRef.
Require Import PPLV.Product.PRPArith PPLV.Product.PRP.
Import ListNotations.
Local Open Scope Q_scope.

(* ---------- exact decisions on constraint-only components (polyhedra, boxes, BD shapes) ---------- *)
Definition j_sys (cs : list con) : sys := sys_of_cons cs.
Definition j_false : sys := false_sys.
Definition j_meet (a b : sys) : sys := union_sys a b.
Definition j_nonempty (n : nat) (s : sys) : option bool := nonempty_sys n s.
Definition j_incl (n : nat) (s t : sys) : option bool := incl_sys n s t.
Definition j_equiv (n : nat) (s t : sys) : option bool := equiv_sys n s t.
Definition j_sup (n : nat) (e : lin) (s : sys) : option supres := sup_expr n e s.
Definition j_inf (n : nat) (e : lin) (s : sys) : option supres := inf_expr n e s.
Definition j_relax (s : sys) : sys := relax s.
Definition j_implies_con (n : nat) (s : sys) (c : con) : option bool := incl_sys n s (sys_of_cons [c]).
Definition j_disjoint_con (n : nat) (s : sys) (c : con) : option bool := rel_is_disjoint n s c.
Definition j_saturates (n : nat) (s : sys) (c : con) : option bool := rel_saturates n s c.
Definition j_is_bounded (n : nat) (s : sys) : option bool := q_is_bounded n s.
Definition j_affine_image (v n : nat) (e : lin) (d : Z) (s : sys) : sys := PolyOps.affine_image v n e d s.
Definition j_affine_preimage (v n : nat) (e : lin) (d : Z) (s : sys) : sys := PolyOps.affine_preimage v n e d s.
Definition j_unconstrain (v : nat) (s : sys) : sys := unconstrain v s.
Definition j_remove_higher (k n : nat) (s : sys) : sys := PolyOps.remove_higher k n s.
Definition j_project (n m : nat) (s : sys) : sys := project_dims n m s.
Definition j_concatenate (n : nat) (s t : sys) : sys := concatenate n s t.
(* the remaining reference transformers of Poly/PolyOps.v (each with its exactness theorem there): generalized and bounded
   affine images / preimages, unconstrain of a set, partial injective renaming of dimensions, expansion *)
Definition j_gen_image (v n : nat) (r : relsym) (e : lin) (d : Z) (s : sys) : sys := PolyOps.generalized_affine_image v n r e d s.
Definition j_gen_preimage (v n : nat) (r : relsym) (e : lin) (d : Z) (s : sys) : sys := PolyOps.generalized_affine_preimage v n r e d s.
Definition j_bounded_image (v n : nat) (lb ub : lin) (d : Z) (s : sys) : sys := PolyOps.bounded_affine_image v n lb ub d s.
Definition j_bounded_preimage (v n : nat) (lb ub : lin) (d : Z) (s : sys) : sys := PolyOps.bounded_affine_preimage v n lb ub d s.
Definition j_unconstrain_set (vs : list nat) (s : sys) : sys := PolyOps.unconstrain_set vs s.
Definition j_map_dims (pf : list (option nat)) (junk : nat) (s : sys) : sys := PolyOps.map_dims pf junk s.
Definition j_expand (v n m : nat) (s : sys) : sys := PolyOps.expand v n m s.
(* the pieces of the complement of a constraint: S \ {c} = union of S /\ piece *)
Definition j_neg_con (c : con) : list con :=
  let o := {| ccoefs := map Z.opp (ccoefs c); ccst := (- ccst c)%Z; ckd := GT |} in
  match ckd c with
  | GE => [o]
  | GT => [{| ccoefs := map Z.opp (ccoefs c); ccst := (- ccst c)%Z; ckd := GE |}]
  | EQ => [o; {| ccoefs := ccoefs c; ccst := ccst c; ckd := GT |}]
  end.

Lemma ceval_opp c k p : ceval {| ccoefs := map Z.opp (ccoefs c); ccst := (- ccst c)%Z; ckd := k |} p == - ceval c p.
Proof. unfold ceval; cbn [ccoefs ccst]. rewrite dot_opp, inject_Z_opp. ring. Qed.

Theorem j_neg_con_exact c p : ~ sat_con c p <-> exists c', In c' (j_neg_con c) /\ sat_con c' p.
Proof.
  unfold j_neg_con, sat_con. destruct (ckd c) eqn:K; cbn [In]; split.
  - intros H. destruct (Qlt_le_dec (ceval c p) 0) as [L|L].
    + eexists; split; [left; reflexivity|]. cbn [ckd]. rewrite ceval_opp. lra.
    + eexists; split; [right; left; reflexivity|]. cbn [ckd]. unfold ceval in *; cbn [ccoefs ccst]. lra.
  - intros [c' [[<-|[<-|[]]] H]]; cbn [ckd] in H; [rewrite ceval_opp in H|unfold ceval in *; cbn [ccoefs ccst] in H]; lra.
  - intros H. eexists; split; [left; reflexivity|]. cbn [ckd]. rewrite ceval_opp. lra.
  - intros [c' [[<-|[]] H]]; cbn [ckd] in H; rewrite ceval_opp in H; lra.
  - intros H. eexists; split; [left; reflexivity|]. cbn [ckd]. rewrite ceval_opp. lra.
  - intros [c' [[<-|[]] H]]; cbn [ckd] in H; rewrite ceval_opp in H; lra.
Qed.

(* ---------- membership of a concrete rational point (the sampled part) ---------- *)
Definition pt (l : list Q) : point := fun i => nth i l 0.

Definition mem_con_b (c : con) (l : list Q) : bool :=
  let v := ceval c (pt l) in
  match ckd c with EQ => Qeq_bool v 0 | GE => Qle_bool 0 v | GT => negb (Qle_bool v 0) end.

Theorem mem_con_exact c l : mem_con_b c l = true <-> sat_con c (pt l).
Proof.
  unfold mem_con_b, sat_con. destruct (ckd c).
  - apply Qeq_bool_iff.
  - apply Qle_bool_iff.
  - rewrite negb_true_iff. split.
    + intros H. destruct (Qlt_le_dec 0 (ceval c (pt l))) as [|L]; [assumption|].
      apply Qle_bool_iff in L. congruence.
    + intros H. destruct (Qle_bool (ceval c (pt l)) 0) eqn:E; [|reflexivity]. apply Qle_bool_iff in E. lra.
Qed.

Definition is_int_b (q : Q) : bool := Z.eqb (Qnum q mod Zpos (Qden q)) 0.

Lemma is_int_exact q : is_int_b q = true <-> exists k : Z, q == inject_Z k.
Proof.
  unfold is_int_b. rewrite Z.eqb_eq. destruct q as [a b]; cbn [Qnum Qden]. split.
  - intros H. exists (a / Zpos b)%Z. unfold Qeq, inject_Z; cbn [Qnum Qden].
    pose proof (Z.div_mod a (Zpos b) ltac:(lia)). lia.
  - intros [k Hk]. unfold Qeq, inject_Z in Hk; cbn [Qnum Qden] in Hk.
    replace a with (k * Zpos b)%Z by lia. apply Z.mod_mul. lia.
Qed.

Definition mem_pcg_b (c : pcg) (l : list Q) : bool :=
  let v := leval (ge c) (pt l) in
  if (gm c =? 0)%Z then Qeq_bool v 0 else is_int_b (v / inject_Z (gm c)).

Theorem mem_pcg_exact c l : mem_pcg_b c l = true <-> sat_pcg c (pt l).
Proof.
  unfold mem_pcg_b, sat_pcg. set (v := leval (ge c) (pt l)).
  destruct (gm c =? 0)%Z eqn:E; [apply Z.eqb_eq in E | apply Z.eqb_neq in E].
  - rewrite E, Qeq_bool_iff. split.
    + intros H. exists 0%Z. rewrite H. reflexivity.
    + intros [k H]. rewrite H, Z.mul_0_r. reflexivity.
  - rewrite is_int_exact.
    assert (NZ : ~ inject_Z (gm c) == 0).
    { intros H. apply E. unfold Qeq, inject_Z in H; cbn in H. lia. }
    split; intros [k H]; exists k.
    + rewrite inject_Z_mult, <- H. field. exact NZ.
    + rewrite H, inject_Z_mult. field. exact NZ.
Qed.

(* ---------- grids: exact inclusion of congruence systems through the verified lattice engine ---------- *)
Definition gcg_of (c : pcg) : cg := {| cg_a := lcoefs (ge c); cg_b := lcst (ge c); cg_m := gm c |}.

Definition j_grid_gens (n : nat) (C : list pcg) : option (list qgen) :=
  match cgs_to_gens n (map gcg_of C) with Ans G => Some G | Unk => None end.
Definition j_grid_incl (n : nat) (C1 C2 : list pcg) : option bool :=
  if negb (dims_ok n (map gcg_of C2)) then None
  else match cgs_to_gens n (map gcg_of C1) with
       | Ans G => Some (qgens_sat_cgs n G (map gcg_of C2))
       | Unk => None
       end.
Definition j_grid_empty (n : nat) (C : list pcg) : option bool :=
  match cgs_to_gens n (map gcg_of C) with Ans G => Some (is_empty_b G) | Unk => None end.

Theorem j_grid_incl_exact n C1 C2 b : j_grid_incl n C1 C2 = Some b ->
  (b = true <-> forall x, sat_cgs (map gcg_of C1) x -> sat_cgs (map gcg_of C2) x).
Proof.
  unfold j_grid_incl. destruct (dims_ok n (map gcg_of C2)) eqn:D; [|discriminate]. cbn [negb].
  destruct (cgs_to_gens n (map gcg_of C1)) as [|G] eqn:E; [discriminate|]. intros [= <-].
  rewrite (qgens_sat_cgs_exact n G _ D). split; intros H x Hx.
  - apply H. now apply (cgs_to_gens_exact n _ G E).
  - apply H. now apply (cgs_to_gens_exact n _ G E).
Qed.

(* the two readings of a congruence agree: PRP.sat_pcg (Base dot product) and GridSem.sat_cg (dotf) *)
Lemma dot_dotf l : forall p i, dot l p i == dotf (map inject_Z l) (fun j => p (i + j)%nat).
Proof.
  induction l as [|a l IH]; intros p i; cbn [dot map dotf]; [reflexivity|].
  rewrite IH, Nat.add_0_r. apply Qplus_comp; [reflexivity|]. apply dotf_ext. intros j.
  now rewrite Nat.add_succ_r.
Qed.

Theorem sat_pcg_cg c p : sat_pcg c p <-> sat_cg (gcg_of c) p.
Proof.
  assert (E : dot (lcoefs (ge c)) p 0 == dotf (map inject_Z (lcoefs (ge c))) p).
  { rewrite dot_dotf. apply dotf_ext. intros j. reflexivity. }
  unfold sat_pcg, sat_cg, gcg_of, leval; cbn [cg_a cg_b cg_m].
  split; intros [k H]; exists k; rewrite inject_Z_mult in *; lra.
Qed.

(* rational vectors of the generators, for the enumeration of lattice points (untrusted use) *)
Definition j_qadd (a b : Q) : Q := Qred (a + b).
Definition j_qmul (a b : Q) : Q := Qred (a * b).
Definition j_qmake (a : Z) (b : positive) : Q := Qred (a # b).
