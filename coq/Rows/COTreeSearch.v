(* C16 -- search correctness for the CO_Tree model: go_down (root_search), bisect_in / bisect /
   bisect_near, lower_bound / find / get and hint irrelevance, resolve_hint.
   Everything is stated on the slot array with the three structural hypotheses of [inv]
   (in_range, shape, position-wise sortedness) and then lifted to trees. *)
From Coq Require Import ZArith NArith List Lia Bool FMapPositive Sorted.
Import ListNotations.
Require Import PPLV.gen.Facts_COTree PPLV.Rows.COTree PPLV.Rows.COTreeSpec PPLV.Rows.COTreeBase.
Local Open Scope N_scope.

(* array-level forms of in_range and shape *)
Definition a_in_range (a : arr) (R : N) : Prop := forall i, aget a i <> None -> 1 <= i <= R.
Definition a_shape (a : arr) (R : N) : Prop :=
  forall i j, 1 <= i <= R -> aget a i = None ->
              i - (lowbit i - 1) <= j <= i + (lowbit i - 1) -> aget a j = None.

Lemma in_range_a : forall t, in_range t <-> a_in_range (t_arr t) (t_rsz t).
Proof. intros; reflexivity. Qed.
Lemma shape_a : forall t, shape t <-> a_shape (t_arr t) (t_rsz t).
Proof. intros; reflexivity. Qed.

(* p holds key, or p is the position of the successor / predecessor of key among the used slots *)
Definition near_pos (a : arr) (key p : N) : Prop :=
  aget a p <> None /\
  (key_at a p = key \/
   (key < key_at a p /\ forall q, q < p -> aget a q <> None -> key_at a q < key) \/
   (key_at a p < key /\ forall q, p < q -> aget a q <> None -> key < key_at a q)).

Lemma near_pos_no_key : forall a key p, psorted a -> near_pos a key p -> key_at a p <> key ->
  forall q, aget a q <> None -> key_at a q <> key.
Proof.
  intros a key p Hs [Up [H|[[H1 H2]|[H1 H2]]]] Hne q Uq; [congruence| |].
  - destruct (N.lt_trichotomy q p) as [L|[L|L]].
    + specialize (H2 q L Uq). lia.
    + subst; assumption.
    + specialize (Hs p q L Up Uq). lia.
  - destruct (N.lt_trichotomy q p) as [L|[L|L]].
    + specialize (Hs q p L Uq Up). lia.
    + subst; assumption.
    + specialize (H2 q L Uq). lia.
Qed.

Lemma near_pos_find : forall t key p, in_range t -> sorted (abs_tree t) ->
  near_pos (t_arr t) key p ->
  m_find key (abs_tree t) =
    if key_at (t_arr t) p =? key then Some (dat_at (t_arr t) p) else None.
Proof.
  intros t key p Hr Hs Hn. destruct (key_at (t_arr t) p =? key) eqn:E.
  - apply N.eqb_eq in E. apply m_find_abs_some; try assumption. exists p.
    rewrite <- E. apply aget_key_dat. apply Hn.
  - apply N.eqb_neq in E. apply m_find_abs_none; [assumption|].
    apply (near_pos_no_key _ _ p); try assumption. apply sorted_abs_psorted; assumption.
Qed.

(* ------------------------------------------------------------------ *)
(* go_down_searching_key                                               *)
(* ------------------------------------------------------------------ *)
Definition gd_post (a : arr) (R key : N) (it : titer) : Prop :=
  aget a (fst it) <> None /\ snd it = lowbit (fst it) /\
  (key_at a (fst it) = key \/
   (key < key_at a (fst it) /\
    (forall p, p < fst it -> aget a p <> None -> key_at a p < key) /\
    (it_is_leaf it = true \/
     (1 <= fst (it_left it) <= R /\ aget a (fst (it_left it)) = None))) \/
   (key_at a (fst it) < key /\
    (forall p, fst it < p -> aget a p <> None -> key < key_at a p) /\
    (it_is_leaf it = true \/
     (1 <= fst (it_right it) <= R /\ aget a (fst (it_right it)) = None)))).

Lemma gd_post_near : forall a R key it, gd_post a R key it -> near_pos a key (fst it).
Proof.
  intros a R key it [U [_ H]]. split; [assumption|].
  destruct H as [H|[[H1 [H2 _]]|[H1 [H2 _]]]]; [left|right; left|right; right]; tauto.
Qed.

Section GoDown.
Variables (a : arr) (R : N).
Hypothesis Hrange : a_in_range a R.
Hypothesis Hshape : a_shape a R.
Hypothesis Hsorted : psorted a.

Lemma go_down_inv : forall f h i key, node h i -> (N.to_nat h < f)%nat ->
  aget a i <> None ->
  (forall p, p < i - (2 ^ h - 1) -> aget a p <> None -> key_at a p < key) ->
  (forall p, i + (2 ^ h - 1) < p -> aget a p <> None -> key < key_at a p) ->
  i + (2 ^ h - 1) <= R ->
  gd_post a R key (go_down f a R (i, 2 ^ h) key).
Proof.
  induction f; intros h i key Hn Hf Ui Hlo Hhi HR; [lia|].
  cbn [go_down]. rewrite it_is_leaf_node. cbn [fst].
  destruct (h =? 0) eqn:Eh.
  - apply N.eqb_eq in Eh. subst h. rewrite N.pow_0_r in *.
    split; [assumption|]. split; [cbn [fst snd]; rewrite (node_lowbit _ _ Hn); reflexivity|].
    cbn [fst]. destruct (N.lt_trichotomy key (key_at a i)) as [L|[L|L]].
    + right; left. split; [assumption|]. split; [|left; reflexivity].
      intros p Hp. apply Hlo. lia.
    + left. congruence.
    + right; right. split; [assumption|]. split; [|left; reflexivity].
      intros p Hp. apply Hhi. lia.
  - apply N.eqb_neq in Eh. assert (Hh : h = N.succ (N.pred h)) by (symmetry; apply N.succ_pred; assumption).
    set (h' := N.pred h) in *. clearbody h'. subst h.
    destruct (subtree_split _ _ Hn) as [S1 [S2 [S3 [S4 [S5 S6]]]]].
    pose proof (pow2_pos h') as Hc.
    destruct (key =? key_at a i) eqn:Ek.
    { apply N.eqb_eq in Ek. split; [assumption|].
      split; [cbn [fst snd]; rewrite (node_lowbit _ _ Hn); reflexivity|]. left. cbn [fst]. congruence. }
    apply N.eqb_neq in Ek.
    destruct (key <? key_at a i) eqn:El.
    + apply N.ltb_lt in El. rewrite it_left_node. cbn [fst].
      destruct (unused a R (i - 2 ^ h')) eqn:Eu.
      * apply unused_true_iff in Eu. destruct Eu as [Eu1 Eu2].
        split; [assumption|]. split; [cbn [fst snd]; rewrite (node_lowbit _ _ Hn); reflexivity|].
        right; left. cbn [fst]. split; [assumption|]. split.
        -- intros p Hp Up. destruct (N.lt_ge_cases p (i - (2 ^ N.succ h' - 1))) as [L|L].
           ++ apply Hlo; assumption.
           ++ exfalso. apply Up. apply (Hshape (i - 2 ^ h') p Eu1 Eu2).
              rewrite (node_lowbit _ _ (node_left _ _ Hn)). lia.
        -- right. rewrite it_left_node. cbn [fst]. tauto.
      * apply unused_false_iff in Eu.
        assert (Uc : aget a (i - 2 ^ h') <> None) by (destruct Eu as [Eu|[Eu|Eu]]; [lia|lia|assumption]).
        apply IHf; try assumption.
        -- apply node_left; assumption.
        -- lia.
        -- intros p Hp. apply Hlo. lia.
        -- intros p Hp Up. destruct (N.eq_dec p i) as [->|Hne]; [assumption|].
           assert (key_at a i < key_at a p) by (apply Hsorted; [lia|assumption|assumption]). lia.
        -- lia.
    + apply N.ltb_ge in El. assert (El' : key_at a i < key) by lia. rewrite it_right_node. cbn [fst].
      destruct (unused a R (i + 2 ^ h')) eqn:Eu.
      * apply unused_true_iff in Eu. destruct Eu as [Eu1 Eu2].
        split; [assumption|]. split; [cbn [fst snd]; rewrite (node_lowbit _ _ Hn); reflexivity|].
        right; right. cbn [fst]. split; [assumption|]. split.
        -- intros p Hp Up. destruct (N.lt_ge_cases (i + (2 ^ N.succ h' - 1)) p) as [L|L].
           ++ apply Hhi; assumption.
           ++ exfalso. apply Up. apply (Hshape (i + 2 ^ h') p Eu1 Eu2).
              rewrite (node_lowbit _ _ (node_right _ _ Hn)). lia.
        -- right. rewrite it_right_node. cbn [fst]. tauto.
      * apply unused_false_iff in Eu.
        assert (Uc : aget a (i + 2 ^ h') <> None) by (destruct Eu as [Eu|[Eu|Eu]]; [lia|lia|assumption]).
        apply IHf; try assumption.
        -- apply node_right; assumption.
        -- lia.
        -- intros p Hp Up. destruct (N.eq_dec p i) as [->|Hne]; [assumption|].
           assert (key_at a p < key_at a i) by (apply Hsorted; [lia|assumption|assumption]). lia.
        -- intros p Hp. apply Hhi. lia.
        -- lia.
Qed.

End GoDown.

(* ------------------------------------------------------------------ *)
(* lifting to trees                                                    *)
(* ------------------------------------------------------------------ *)
Lemma inv_nonempty : forall t, inv t -> 0 < t_size t ->
  exists d, t_rsz t = 2 ^ N.succ d - 1 /\ t_depth t = N.succ d /\ 1 <= d.
Proof.
  intros t [_ [_ [_ [Hlen Hd]]]] Hs. destruct Hd as [[H1 H2]|[H1 [H2 H3]]].
  - unfold abs_tree in Hlen. rewrite H1 in Hlen. cbn in Hlen. lia.
  - exists (N.pred (t_depth t)). rewrite N.succ_pred by lia. split; [assumption|]. split; [reflexivity|lia].
Qed.

Lemma fuel_of_depth : forall d, (N.to_nat d < fuel_of (2 ^ N.succ d - 1))%nat.
Proof.
  intros d. unfold fuel_of. pose proof (N.pow_gt_lin_r 2 (N.succ d)). lia.
Qed.

Lemma root_used : forall t d, inv t -> 0 < t_size t -> t_rsz t = 2 ^ N.succ d - 1 ->
  aget (t_arr t) (2 ^ d) <> None.
Proof.
  intros t d [Hr [Hsh [_ [Hlen _]]]] Hs HR C.
  assert (abs_tree t = []).
  { unfold abs_tree. apply used_from_nil. intros j Hj.
    apply (Hsh (2 ^ d) j); [|assumption|].
    - rewrite HR. rewrite N.pow_succ_r'. pose proof (pow2_pos d). lia.
    - rewrite (node_lowbit _ _ (root_node d)). destruct (root_range d) as [E1 E2].
      rewrite E1, E2. rewrite <- HR. lia. }
  rewrite H in Hlen. cbn in Hlen. lia.
Qed.

Theorem go_down_spec : forall t key, inv t -> 0 < t_size t ->
  gd_post (t_arr t) (t_rsz t) key (root_search t key).
Proof.
  intros t key Hinv Hs. destruct (inv_nonempty t Hinv Hs) as [d [HR [Hd Hd1]]].
  pose proof (root_used t d Hinv Hs HR) as Uroot.
  destruct Hinv as [Hr [Hsh [Hso _]]].
  unfold root_search.
  replace (it_root (t_rsz t)) with (2 ^ d, 2 ^ d) by (rewrite HR; symmetry; apply it_root_pow2).
  destruct (root_range d) as [E1 E2].
  apply go_down_inv; try assumption.
  - apply sorted_abs_psorted; assumption.
  - apply root_node.
  - rewrite HR. apply fuel_of_depth.
  - intros p Hp Up. apply Hr in Up. lia.
  - intros p Hp Up. apply Hr in Up. lia.
  - lia.
Qed.

Corollary root_search_in_range : forall t key, inv t -> 0 < t_size t ->
  1 <= fst (root_search t key) <= t_rsz t.
Proof.
  intros t key Hinv Hs. destruct (go_down_spec t key Hinv Hs) as [U _].
  destruct Hinv as [Hr _]. apply Hr. assumption.
Qed.

Corollary root_search_near : forall t key, inv t -> 0 < t_size t ->
  near_pos (t_arr t) key (fst (root_search t key)).
Proof. intros. eapply gd_post_near. apply go_down_spec; assumption. Qed.

(* the search finds the key iff the map holds it *)
Theorem root_search_find : forall t key, inv t -> 0 < t_size t ->
  m_find key (abs_tree t) =
    if key_at (t_arr t) (fst (root_search t key)) =? key
    then Some (dat_at (t_arr t) (fst (root_search t key))) else None.
Proof.
  intros t key Hinv Hs. apply near_pos_find; try apply Hinv. apply root_search_near; assumption.
Qed.

Corollary root_search_found_iff : forall t key, inv t -> 0 < t_size t ->
  (m_find key (abs_tree t) <> None <-> key_at (t_arr t) (fst (root_search t key)) = key).
Proof.
  intros t key Hinv Hs. rewrite (root_search_find t key Hinv Hs).
  destruct (key_at (t_arr t) (fst (root_search t key)) =? key) eqn:E.
  - apply N.eqb_eq in E. split; [intros _; assumption|intros _; discriminate].
  - apply N.eqb_neq in E. split; [intros C; congruence|intros C; congruence].
Qed.

(* ------------------------------------------------------------------ *)
(* bisect_in / near_before / near_after / bisect_near_idx              *)
(* ------------------------------------------------------------------ *)
Section Bisect.
Variables (a : arr) (R : N).
Hypothesis Hrange : a_in_range a R.
Hypothesis Hsorted : psorted a.

Let used (p : N) : Prop := aget a p <> None.

Lemma sorted_le : forall p q, p <= q -> used p -> used q -> key_at a p <= key_at a q.
Proof.
  intros p q H Up Uq. destruct (N.eq_dec p q) as [->|Hne]; [lia|].
  assert (key_at a p < key_at a q) by (apply Hsorted; [lia|assumption|assumption]). lia.
Qed.

(* next used slot at or after i, given that some used slot u >= i exists *)
Lemma scan_up_to_used : forall i u, 1 <= i -> i <= u -> used u ->
  let r := scan_up (fuel_of R) a R i in
  i <= r <= u /\ used r /\ (forall j, i <= j < r -> aget a j = None).
Proof.
  intros i u Hi Hu Uu r. pose proof (Hrange u Uu) as Hur.
  destruct (scan_up_used a R i) as [S1 [S2 S3]]; [lia|]. fold r in S1, S2, S3.
  assert (r <= u).
  { destruct (N.le_gt_cases r u) as [L|L]; [assumption|]. exfalso. apply Uu. apply S3; lia. }
  split; [lia|]. split; [|intros j Hj; apply S3; lia].
  destruct S2 as [S2|[S2|S2]]; [lia|lia|assumption].
Qed.

(* previous used slot at or before i, given that some used slot u <= i exists *)
Lemma scan_down_to_used : forall i u, i <= R -> u <= i -> used u ->
  let r := scan_down (fuel_of R) a R i in
  u <= r <= i /\ used r /\ (forall j, r < j <= i -> aget a j = None).
Proof.
  intros i u Hi Hu Uu r. pose proof (Hrange u Uu) as Hur.
  destruct (scan_down_used a R i) as [S1 [S2 S3]]; [lia|]. fold r in S1, S2, S3.
  assert (u <= r).
  { destruct (N.le_gt_cases u r) as [L|L]; [assumption|]. exfalso. apply Uu. apply S3; lia. }
  split; [lia|]. split; [|assumption].
  destruct S2 as [S2|[S2|S2]]; [lia|lia|assumption].
Qed.

Definition bis_pre (key first last : N) : Prop :=
  used last /\ (first <= last -> used first) /\
  (forall q, q < first -> used q -> key_at a q < key) /\
  (forall q, last < q -> used q -> key < key_at a q).

Lemma bisect_in_spec : forall f first last key,
  (N.to_nat (last - first) < f)%nat -> bis_pre key first last ->
  near_pos a key (bisect_in f (fuel_of R) a R first last key) /\
  N.min first last <= bisect_in f (fuel_of R) a R first last key <= last.
Proof.
  induction f; intros first last key Hf [Ul [Uf [Hlo Hhi]]]; [lia|].
  cbn [bisect_in]. destruct (first <? last) eqn:Efl.
  - apply N.ltb_lt in Efl. specialize (Uf ltac:(lia)).
    pose proof (Hrange first Uf) as Rf. pose proof (Hrange last Ul) as Rl.
    set (half := (first + last) / 2).
    assert (Hhalf : first <= half < last).
    { unfold half. split; [apply N.div_le_lower_bound; lia|apply N.div_lt_upper_bound; lia]. }
    destruct (scan_up_to_used half last) as [U1 [U2 U3]]; [lia|lia|assumption|].
    set (nh := scan_up (fuel_of R) a R half) in *.
    destruct (key_at a nh =? key) eqn:Ek.
    + apply N.eqb_eq in Ek. split; [split; [assumption|left; assumption]|lia].
    + apply N.eqb_neq in Ek. destruct (key <? key_at a nh) eqn:El.
      * apply N.ltb_lt in El.
        destruct (scan_down_to_used half first) as [D1 [D2 D3]]; [lia|lia|assumption|].
        set (l' := scan_down (fuel_of R) a R half) in *.
        destruct (IHf first l' key) as [A1 A2]; [lia| |split; [assumption|lia]].
        split; [assumption|]. split; [intros _; assumption|]. split; [assumption|].
        intros q Hq Uq. destruct (N.le_gt_cases nh q) as [L|L].
        -- pose proof (sorted_le nh q L U2 Uq). lia.
        -- exfalso. apply Uq. destruct (N.le_gt_cases q half) as [L'|L']; [apply D3; lia|apply U3; lia].
      * apply N.ltb_ge in El.
        destruct (scan_up_used a R (nh + 1)) as [S1 [S2 S3]]; [lia|].
        set (f' := scan_up (fuel_of R) a R (nh + 1)) in *.
        destruct (IHf f' last key) as [A1 A2]; [lia| |split; [assumption|lia]].
        split; [assumption|]. split.
        -- intros Hle. destruct S2 as [S2|[S2|S2]]; [lia|lia|assumption].
        -- split; [|assumption]. intros q Hq Uq.
           destruct (N.le_gt_cases q nh) as [L|L].
           ++ pose proof (sorted_le q nh L Uq U2). lia.
           ++ exfalso. apply Uq. apply S3; [lia|]. lia.
  - apply N.ltb_ge in Efl. split; [|lia]. split; [assumption|].
    destruct (N.lt_trichotomy (key_at a last) key) as [L|[L|L]].
    + right; right. split; assumption.
    + left; assumption.
    + right; left. split; [assumption|]. intros q Hq Uq.
      destruct (N.eq_dec first last) as [->|Hne]; [apply Hlo; assumption|].
      assert (key_at a last < key) by (apply Hlo; [lia|assumption]). lia.
Qed.

Definition nb_post (key : N) (res : N + N * N) : Prop :=
  match res with
  | inl p => near_pos a key p
  | inr (h, nh) => used h /\ used nh /\ h < nh /\ key_at a h < key /\ key < key_at a nh
  end.

Lemma pow2_step : forall f, (0 < f)%nat -> 2 ^ N.of_nat f = 2 * 2 ^ N.of_nat (f - 1).
Proof.
  intros f Hf. replace (N.of_nat f) with (N.succ (N.of_nat (f - 1))) by lia. apply N.pow_succ_r'.
Qed.

Lemma near_before_spec : forall f hint offset key, (0 < f)%nat ->
  used hint -> key < key_at a hint -> 1 <= offset ->
  hint <= offset * 2 ^ N.of_nat (f - 1) ->
  nb_post key (near_before f (fuel_of R) a R hint offset key).
Proof.
  induction f; intros hint offset key Hf Uh Hk Ho Hm; [lia|].
  pose proof (Hrange hint Uh) as Rh.
  cbn [near_before]. destruct (hint <=? offset) eqn:E.
  - destruct (scan_up_to_used 1 hint) as [U1 [U2 U3]]; [lia|lia|assumption|].
    set (h := scan_up (fuel_of R) a R 1) in *.
    destruct (key <=? key_at a h) eqn:Ek.
    + apply N.leb_le in Ek. cbn [nb_post]. split; [assumption|].
      destruct (N.eq_dec (key_at a h) key) as [Eq|Ne]; [left; assumption|].
      right; left. split; [lia|]. intros q Hq Uq. exfalso. apply Uq. apply U3.
      pose proof (Hrange q Uq). lia.
    + apply N.leb_gt in Ek. cbn [nb_post]. split; [assumption|]. split; [assumption|].
      split; [|lia]. destruct (N.eq_dec h hint) as [Eq|Ne]; [rewrite Eq in Ek; lia|lia].
  - apply N.leb_gt in E.
    destruct (scan_up_to_used (hint - offset) hint) as [U1 [U2 U3]]; [lia|lia|assumption|].
    set (nh := scan_up (fuel_of R) a R (hint - offset)) in *.
    destruct (key_at a nh =? key) eqn:Ek.
    + apply N.eqb_eq in Ek. cbn [nb_post]. split; [assumption|left; assumption].
    + apply N.eqb_neq in Ek. destruct (key_at a nh <? key) eqn:El.
      * apply N.ltb_lt in El. cbn [nb_post]. split; [assumption|]. split; [assumption|].
        split; [|lia]. destruct (N.eq_dec nh hint) as [Eq|Ne]; [rewrite Eq in El; lia|lia].
      * apply N.ltb_ge in El.
        assert (Hf' : (0 < f)%nat).
        { destruct f; [|lia]. cbn in Hm. lia. }
        apply IHf; try assumption; try lia.
        replace (S f - 1)%nat with f in Hm by lia. rewrite (pow2_step f Hf') in Hm. lia.
Qed.

Lemma near_after_spec : forall f hint offset key, (0 < f)%nat ->
  used hint -> key_at a hint < key -> 1 <= offset ->
  R < hint + offset * 2 ^ N.of_nat (f - 1) ->
  nb_post key (near_after f (fuel_of R) a R hint offset key).
Proof.
  induction f; intros hint offset key Hf Uh Hk Ho Hm; [lia|].
  pose proof (Hrange hint Uh) as Rh.
  cbn [near_after]. destruct (R <? hint + offset) eqn:E.
  - destruct (scan_down_to_used R hint) as [U1 [U2 U3]]; [lia|lia|assumption|].
    set (nh := scan_down (fuel_of R) a R R) in *.
    destruct (key_at a nh <=? key) eqn:Ek.
    + apply N.leb_le in Ek. cbn [nb_post]. split; [assumption|].
      destruct (N.eq_dec (key_at a nh) key) as [Eq|Ne]; [left; assumption|].
      right; right. split; [lia|]. intros q Hq Uq. exfalso. apply Uq. apply U3.
      pose proof (Hrange q Uq). lia.
    + apply N.leb_gt in Ek. cbn [nb_post]. split; [assumption|]. split; [assumption|].
      split; [|lia]. destruct (N.eq_dec nh hint) as [Eq|Ne]; [rewrite Eq in Ek; lia|lia].
  - apply N.ltb_ge in E.
    destruct (scan_down_to_used (hint + offset) hint) as [U1 [U2 U3]]; [lia|lia|assumption|].
    set (nh := scan_down (fuel_of R) a R (hint + offset)) in *.
    destruct (key_at a nh =? key) eqn:Ek.
    + apply N.eqb_eq in Ek. cbn [nb_post]. split; [assumption|left; assumption].
    + apply N.eqb_neq in Ek. destruct (key <? key_at a nh) eqn:El.
      * apply N.ltb_lt in El. cbn [nb_post]. split; [assumption|]. split; [assumption|].
        split; [|lia]. destruct (N.eq_dec nh hint) as [Eq|Ne]; [rewrite <- Eq in Hk; lia|lia].
      * apply N.ltb_ge in El.
        assert (Hf' : (0 < f)%nat).
        { destruct f; [|lia]. cbn in Hm. lia. }
        apply IHf; try assumption; try lia.
        replace (S f - 1)%nat with f in Hm by lia. rewrite (pow2_step f Hf') in Hm. lia.
Qed.

Lemma fuel_of_pow : R < 1 * 2 ^ N.of_nat (fuel_of R - 1).
Proof.
  unfold fuel_of. replace (N.of_nat (N.to_nat (R + 2) - 1)) with (R + 1) by lia.
  pose proof (N.pow_gt_lin_r 2 (R + 1)). lia.
Qed.

Lemma fuel_of_pos : (0 < fuel_of R)%nat.
Proof. unfold fuel_of. lia. Qed.

Theorem bisect_near_idx_spec : forall hint key, used hint ->
  near_pos a key (bisect_near_idx a R hint key).
Proof.
  intros hint key Uh. pose proof (Hrange hint Uh) as Rh. unfold bisect_near_idx.
  destruct (key_at a hint =? key) eqn:E0.
  { apply N.eqb_eq in E0. split; [assumption|left; assumption]. }
  apply N.eqb_neq in E0.
  assert (Hpost : nb_post key (if key <? key_at a hint
                               then near_before (fuel_of R) (fuel_of R) a R hint 1 key
                               else near_after (fuel_of R) (fuel_of R) a R hint 1 key)).
  { pose proof fuel_of_pow. pose proof fuel_of_pos. destruct (key <? key_at a hint) eqn:E1.
    - apply N.ltb_lt in E1. apply near_before_spec; try assumption; lia.
    - apply N.ltb_ge in E1. apply near_after_spec; try assumption; lia. }
  destruct (if key <? key_at a hint
            then near_before (fuel_of R) (fuel_of R) a R hint 1 key
            else near_after (fuel_of R) (fuel_of R) a R hint 1 key) as [p|[h nh]].
  - exact Hpost.
  - cbn [nb_post] in Hpost. destruct Hpost as [Uh' [Unh [Hlt [K1 K2]]]].
    pose proof (Hrange h Uh') as Rh'. pose proof (Hrange nh Unh) as Rnh.
    destruct (scan_up_to_used (h + 1) nh) as [U1 [U2 U3]]; [lia|lia|assumption|].
    set (h2 := scan_up (fuel_of R) a R (h + 1)) in *.
    assert (Hbelow : forall q, q < h2 -> used q -> key_at a q < key).
    { intros q Hq Uq. destruct (N.le_gt_cases q h) as [L|L].
      - pose proof (sorted_le q h L Uq Uh'). lia.
      - exfalso. apply Uq. apply U3. lia. }
    destruct (h2 =? nh) eqn:E2.
    + apply N.eqb_eq in E2. split; [assumption|]. right; left. rewrite E2 in *. split; assumption.
    + apply N.eqb_neq in E2.
      destruct (scan_down_to_used (nh - 1) h2) as [D1 [D2 D3]]; [lia|lia|assumption|].
      set (nh2 := scan_down (fuel_of R) a R (nh - 1)) in *.
      apply bisect_in_spec; [unfold fuel_of; lia|].
      split; [assumption|]. split; [intros _; assumption|]. split; [assumption|].
      intros q Hq Uq. destruct (N.le_gt_cases nh q) as [L|L].
      * pose proof (sorted_le nh q L Unh Uq). lia.
      * exfalso. apply Uq. apply D3. lia.
Qed.

End Bisect.

(* ------------------------------------------------------------------ *)
(* tree level: bisect, bisect_near, lower_bound, find, get, hints      *)
(* ------------------------------------------------------------------ *)
Definition valid_hint (t : tree) (h : N) : Prop := h = t_end t \/ aget (t_arr t) h <> None.

Lemma inv_size0_no_used : forall t, inv t -> t_size t = 0 ->
  t_rsz t = 0 /\ forall p, aget (t_arr t) p = None.
Proof.
  intros t [Hr [_ [_ [_ Hd]]]] Hs. destruct Hd as [[H1 _]|[_ [_ H]]]; [|lia].
  split; [assumption|]. intros p. destruct (aget (t_arr t) p) eqn:E; [|reflexivity].
  assert (1 <= p <= t_rsz t) by (apply Hr; congruence). lia.
Qed.

Lemma inv_exists_used : forall t, inv t -> 0 < t_size t -> exists u, aget (t_arr t) u <> None.
Proof.
  intros t Hinv Hs. destruct (inv_nonempty t Hinv Hs) as [d [HR _]].
  exists (2 ^ d). apply (root_used t d Hinv Hs HR).
Qed.

Theorem bisect_spec : forall t key, inv t -> 0 < t_size t ->
  near_pos (t_arr t) key (bisect t key).
Proof.
  intros t key Hinv Hs. destruct (inv_exists_used t Hinv Hs) as [u Uu].
  destruct Hinv as [Hr [_ [Hso _]]]. pose proof (sorted_abs_psorted t Hr Hso) as Hps.
  pose proof (Hr u Uu) as Ru.
  unfold bisect, t_begin. destruct (t_size t =? 0) eqn:E; [apply N.eqb_eq in E; lia|].
  destruct (scan_up_to_used (t_arr t) (t_rsz t) Hr 1 u) as [U1 [U2 U3]]; [lia|lia|assumption|].
  destruct (scan_down_to_used (t_arr t) (t_rsz t) Hr (t_rsz t) u) as [D1 [D2 D3]]; [lia|lia|assumption|].
  set (lst := scan_down (fuel_of (t_rsz t)) (t_arr t) (t_rsz t) (t_rsz t)) in *.
  set (fst0 := scan_up (fuel_of (t_rsz t)) (t_arr t) (t_rsz t) 1) in *.
  apply bisect_in_spec; try assumption; [clearbody lst fst0; unfold fuel_of; lia|].
  split; [assumption|]. split; [intros _; assumption|]. split.
  - intros q Hq Uq. exfalso. apply Uq. apply U3. pose proof (Hr q Uq). lia.
  - intros q Hq Uq. exfalso. apply Uq. apply D3. pose proof (Hr q Uq). lia.
Qed.

Theorem bisect_near_spec : forall t h key, inv t -> 0 < t_size t -> valid_hint t h ->
  near_pos (t_arr t) key (bisect_near t h key).
Proof.
  intros t h key Hinv Hs Hv. unfold bisect_near. destruct (h =? t_end t) eqn:E.
  - apply bisect_spec; assumption.
  - apply N.eqb_neq in E. destruct Hv as [Hv|Hv]; [congruence|].
    destruct Hinv as [Hr [_ [Hso _]]].
    apply bisect_near_idx_spec; try assumption. apply sorted_abs_psorted; assumption.
Qed.

Lemma bisect_near_size0 : forall t h key, inv t -> t_size t = 0 -> valid_hint t h ->
  bisect_near t h key = t_end t.
Proof.
  intros t h key Hinv Hs Hv. destruct (inv_size0_no_used t Hinv Hs) as [_ Hn].
  destruct Hv as [Hv|Hv]; [|rewrite Hn in Hv; congruence].
  unfold bisect_near. subst h. rewrite N.eqb_refl. unfold bisect. rewrite Hs. reflexivity.
Qed.

(* the position of the first used slot with key >= i, t_end if none *)
Definition lb_pos (t : tree) (i p : N) : Prop :=
  (p = t_end t \/ (aget (t_arr t) p <> None /\ i <= key_at (t_arr t) p)) /\
  (forall q, q < p -> aget (t_arr t) q <> None -> key_at (t_arr t) q < i).

Lemma lb_pos_unique : forall t i p1 p2, in_range t -> lb_pos t i p1 -> lb_pos t i p2 -> p1 = p2.
Proof.
  assert (W : forall t i p1 p2, in_range t -> lb_pos t i p1 -> lb_pos t i p2 -> p1 < p2 -> False).
  { intros t i p1 p2 Hr [A1 A2] [B1 B2] L. unfold t_end in *.
    assert (p2 <= t_rsz t + 1) by (destruct B1 as [->|[U _]]; [lia|apply Hr in U; lia]).
    destruct A1 as [->|[U K]]; [lia|]. specialize (B2 p1 L U). lia. }
  intros t i p1 p2 Hr H1 H2. destruct (N.lt_trichotomy p1 p2) as [L|[L|L]]; [|assumption|].
  - exfalso. apply (W t i p1 p2); assumption.
  - exfalso. apply (W t i p2 p1); assumption.
Qed.

Theorem lower_bound_near_spec : forall t h i, inv t -> valid_hint t h ->
  lb_pos t i (lower_bound_near t h i).
Proof.
  intros t h i Hinv Hv. unfold lower_bound_near.
  destruct (N.eq_dec (t_size t) 0) as [Hs|Hs].
  - rewrite (bisect_near_size0 t h i Hinv Hs Hv). rewrite N.eqb_refl.
    destruct (inv_size0_no_used t Hinv Hs) as [_ Hn].
    split; [left; reflexivity|]. intros q _ Uq. rewrite Hn in Uq. congruence.
  - assert (Hs' : 0 < t_size t) by lia.
    pose proof (bisect_near_spec t h i Hinv Hs' Hv) as Hnp.
    set (p := bisect_near t h i) in *.
    destruct Hinv as [Hr [_ [Hso _]]]. pose proof (sorted_abs_psorted t Hr Hso) as Hps.
    destruct Hnp as [Up Hnp]. pose proof (Hr p Up) as Rp.
    destruct (p =? t_end t) eqn:E; [apply N.eqb_eq in E; unfold t_end in E; lia|].
    destruct (key_at (t_arr t) p <? i) eqn:Ek.
    + apply N.ltb_lt in Ek. unfold next_pos.
      destruct (scan_up_used (t_arr t) (t_rsz t) (p + 1)) as [S1 [S2 S3]]; [lia|].
      set (r := scan_up (fuel_of (t_rsz t)) (t_arr t) (t_rsz t) (p + 1)) in *.
      assert (Habove : forall q, p < q -> aget (t_arr t) q <> None -> i < key_at (t_arr t) q).
      { destruct Hnp as [H|[[H _]|[_ H]]]; [lia|lia|assumption]. }
      split.
      * destruct S2 as [S2|[S2|S2]]; [lia|left; assumption|].
        right. split; [assumption|]. assert (i < key_at (t_arr t) r) by (apply Habove; [lia|assumption]). lia.
      * intros q Hq Uq. destruct (N.le_gt_cases q p) as [L|L].
        -- pose proof (sorted_le (t_arr t) Hps q p L Uq Up). lia.
        -- exfalso. apply Uq. apply S3; lia.
    + apply N.ltb_ge in Ek. split; [right; split; assumption|].
      intros q Hq Uq. destruct Hnp as [H|[[_ H]|[H _]]]; [|apply H; assumption|lia].
      assert (key_at (t_arr t) q < key_at (t_arr t) p) by (apply Hps; assumption). lia.
Qed.

Lemma valid_hint_end : forall t, valid_hint t (t_end t).
Proof. intros t. left. reflexivity. Qed.

Lemma lower_bound_as_near : forall t i, lower_bound t i = lower_bound_near t (t_end t) i.
Proof.
  intros t i. unfold lower_bound, lower_bound_near, bisect_near. rewrite N.eqb_refl. reflexivity.
Qed.

Theorem lower_bound_spec : forall t i, inv t -> lb_pos t i (lower_bound t i).
Proof.
  intros t i Hinv. rewrite lower_bound_as_near. apply lower_bound_near_spec; [assumption|apply valid_hint_end].
Qed.

Theorem lower_bound_hint_irrelevant : forall t h1 h2 i, inv t -> valid_hint t h1 -> valid_hint t h2 ->
  lower_bound_near t h1 i = lower_bound_near t h2 i.
Proof.
  intros t h1 h2 i Hinv H1 H2. apply (lb_pos_unique t i); [apply Hinv| |];
    apply lower_bound_near_spec; assumption.
Qed.

Theorem lower_bound_near_eq : forall t h i, inv t -> valid_hint t h ->
  lower_bound_near t h i = lower_bound t i.
Proof.
  intros t h i Hinv Hv. rewrite lower_bound_as_near.
  apply lower_bound_hint_irrelevant; [assumption|assumption|apply valid_hint_end].
Qed.

(* the position returned by lower_bound, read on the abstract map *)
Theorem lower_bound_refines : forall t i, inv t ->
  m_lower_bound i (abs_tree t) =
    (if lower_bound t i =? t_end t then None else aget (t_arr t) (lower_bound t i)).
Proof.
  intros t i Hinv. pose proof (lower_bound_spec t i Hinv) as [H1 H2].
  set (p := lower_bound t i) in *. clearbody p.
  destruct Hinv as [Hr _]. unfold abs_tree.
  assert (G : forall n s, s + N.of_nat n = t_rsz t + 1 -> 1 <= s -> s <= p ->
              m_lower_bound i (used_from n (t_arr t) s) =
              (if p =? t_end t then None else aget (t_arr t) p)).
  { induction n; intros s Hs Hs1 Hsp.
    - cbn [used_from m_lower_bound]. unfold t_end in *.
      destruct H1 as [->|[U _]]; [rewrite N.eqb_refl; reflexivity|]. apply Hr in U. lia.
    - cbn [used_from]. destruct (N.eq_dec s p) as [->|Hne].
      + destruct H1 as [->|[U K]]; [unfold t_end in *; lia|].
        pose proof (Hr p U) as Rp.
        destruct (aget (t_arr t) p) as [e|] eqn:Ee; [|congruence]. cbn [m_lower_bound].
        assert (fst e = key_at (t_arr t) p) by (unfold key_at; rewrite Ee; destruct e; reflexivity).
        rewrite H. apply N.leb_le in K. rewrite K.
        destruct (p =? t_end t) eqn:E; [apply N.eqb_eq in E; unfold t_end in E; lia|reflexivity].
      + destruct (aget (t_arr t) s) as [e|] eqn:Ee.
        * cbn [m_lower_bound].
          assert (fst e = key_at (t_arr t) s) by (unfold key_at; rewrite Ee; destruct e; reflexivity).
          assert (key_at (t_arr t) s < i) by (apply H2; [lia|congruence]).
          rewrite H. apply N.leb_gt in H0. rewrite H0. apply IHn; lia.
        * apply IHn; lia. }
  apply G; [lia|lia|].
  destruct H1 as [->|[U _]]; [unfold t_end; lia|apply Hr in U; lia].
Qed.

(* find *)
Definition find_pos (t : tree) (i p : N) : Prop :=
  (aget (t_arr t) p <> None /\ key_at (t_arr t) p = i) \/
  (p = t_end t /\ forall q, aget (t_arr t) q <> None -> key_at (t_arr t) q <> i).

Lemma find_pos_unique : forall t i p1 p2, in_range t -> psorted (t_arr t) ->
  find_pos t i p1 -> find_pos t i p2 -> p1 = p2.
Proof.
  intros t i p1 p2 Hr Hps [[U1 K1]|[E1 N1]] [[U2 K2]|[E2 N2]].
  - apply (psorted_inj (t_arr t)); try assumption. congruence.
  - exfalso. apply (N2 p1); assumption.
  - exfalso. apply (N1 p2); assumption.
  - congruence.
Qed.

Theorem find_near_spec : forall t h i, inv t -> valid_hint t h -> find_pos t i (find_near t h i).
Proof.
  intros t h i Hinv Hv. unfold find_near.
  destruct (N.eq_dec (t_size t) 0) as [Hs|Hs].
  - rewrite (bisect_near_size0 t h i Hinv Hs Hv). rewrite N.eqb_refl. cbn [negb andb].
    destruct (inv_size0_no_used t Hinv Hs) as [_ Hn].
    right. split; [reflexivity|]. intros q Uq. rewrite Hn in Uq. congruence.
  - assert (Hs' : 0 < t_size t) by lia.
    pose proof (bisect_near_spec t h i Hinv Hs' Hv) as Hnp.
    set (p := bisect_near t h i) in *.
    destruct Hinv as [Hr [_ [Hso _]]]. pose proof (sorted_abs_psorted t Hr Hso) as Hps.
    pose proof (Hr p (proj1 Hnp)) as Rp.
    destruct (p =? t_end t) eqn:E; [apply N.eqb_eq in E; unfold t_end in E; lia|]. cbn [negb andb].
    destruct (key_at (t_arr t) p =? i) eqn:Ek.
    + apply N.eqb_eq in Ek. left. split; [apply Hnp|assumption].
    + apply N.eqb_neq in Ek. right. split; [reflexivity|].
      apply (near_pos_no_key _ _ p); assumption.
Qed.

Lemma find_as_near : forall t i, find t i = find_near t (t_end t) i.
Proof. intros t i. unfold find, find_near, bisect_near. rewrite N.eqb_refl. reflexivity. Qed.

Theorem find_spec : forall t i, inv t -> find_pos t i (find t i).
Proof. intros t i Hinv. rewrite find_as_near. apply find_near_spec; [assumption|apply valid_hint_end]. Qed.

Theorem find_hint_irrelevant : forall t h1 h2 i, inv t -> valid_hint t h1 -> valid_hint t h2 ->
  find_near t h1 i = find_near t h2 i.
Proof.
  intros t h1 h2 i Hinv H1 H2.
  apply (find_pos_unique t i); try apply find_near_spec; try assumption; [apply Hinv|].
  destruct Hinv as [Hr [_ [Hso _]]]. apply sorted_abs_psorted; assumption.
Qed.

Theorem find_near_eq : forall t h i, inv t -> valid_hint t h -> find_near t h i = find t i.
Proof.
  intros t h i Hinv Hv. rewrite find_as_near.
  apply find_hint_irrelevant; [assumption|assumption|apply valid_hint_end].
Qed.

(* unstored entries read as zero *)
Theorem get_refines : forall t i, inv t ->
  get t i = match m_find i (abs_tree t) with Some v => v | None => 0%Z end.
Proof.
  intros t i Hinv. unfold get. destruct (t_size t =? 0) eqn:E.
  - apply N.eqb_eq in E. destruct (inv_size0_no_used t Hinv E) as [HR _].
    unfold abs_tree. rewrite HR. reflexivity.
  - apply N.eqb_neq in E. assert (Hs : 0 < t_size t) by lia.
    pose proof (bisect_spec t i Hinv Hs) as Hnp.
    destruct Hinv as [Hr [_ [Hso _]]].
    rewrite (near_pos_find t i (bisect t i) Hr Hso Hnp).
    unfold find. set (p := bisect t i) in *.
    pose proof (Hr p (proj1 Hnp)) as Rp.
    destruct (p =? t_end t) eqn:E1; [apply N.eqb_eq in E1; unfold t_end in E1; lia|]. cbn [negb andb].
    destruct (key_at (t_arr t) p =? i); [rewrite E1; reflexivity|rewrite N.eqb_refl; reflexivity].
Qed.

Theorem resolve_hint_valid : forall t raw, valid_hint t (resolve_hint t raw).
Proof.
  intros t raw. unfold resolve_hint. destruct (t_size t =? 0); [left; reflexivity|].
  unfold t_end.
  destruct (scan_up_used (t_arr t) (t_rsz t) (N.max 1 (N.min raw (t_rsz t + 1)))) as [S1 [S2 S3]]; [lia|].
  destruct S2 as [S2|[S2|S2]]; [lia|left; assumption|right; assumption].
Qed.

Corollary lower_bound_resolved_hint : forall t raw i, inv t ->
  lower_bound_near t (resolve_hint t raw) i = lower_bound t i.
Proof. intros. apply lower_bound_near_eq; [assumption|apply resolve_hint_valid]. Qed.

Corollary find_resolved_hint : forall t raw i, inv t ->
  find_near t (resolve_hint t raw) i = find t i.
Proof. intros. apply find_near_eq; [assumption|apply resolve_hint_valid]. Qed.

(* ------------------------------------------------------------------ *)
(* from a "near" position to the lower-bound position                  *)
(* (used by lower_bound, and by erase_key / erase_it for the returned iterator) *)
(* ------------------------------------------------------------------ *)
Lemma near_pos_stored : forall a key p, psorted a -> near_pos a key p ->
  (exists q, aget a q <> None /\ key_at a q = key) -> key_at a p = key.
Proof.
  intros a key p Hs Hn [q [Uq Kq]]. destruct (N.eq_dec (key_at a p) key) as [E|E]; [assumption|].
  exfalso. apply (near_pos_no_key a key p Hs Hn E q Uq Kq).
Qed.

Lemma near_pos_in_range : forall t key p, in_range t -> near_pos (t_arr t) key p -> 1 <= p <= t_rsz t.
Proof. intros t key p Hr [U _]. apply Hr. assumption. Qed.

Theorem near_pos_lb : forall t i p, in_range t -> sorted (abs_tree t) ->
  near_pos (t_arr t) i p ->
  lb_pos t i (if key_at (t_arr t) p <? i then next_pos t p else p).
Proof.
  intros t i p Hr Hso Hnp. pose proof (sorted_abs_psorted t Hr Hso) as Hps.
  destruct Hnp as [Up Hnp]. pose proof (Hr p Up) as Rp.
  destruct (key_at (t_arr t) p <? i) eqn:Ek.
  - apply N.ltb_lt in Ek. unfold next_pos.
    destruct (scan_up_used (t_arr t) (t_rsz t) (p + 1)) as [S1 [S2 S3]]; [lia|].
    set (r := scan_up (fuel_of (t_rsz t)) (t_arr t) (t_rsz t) (p + 1)) in *.
    assert (Habove : forall q, p < q -> aget (t_arr t) q <> None -> i < key_at (t_arr t) q).
    { destruct Hnp as [H|[[H _]|[_ H]]]; [lia|lia|assumption]. }
    split.
    + destruct S2 as [S2|[S2|S2]]; [lia|left; assumption|].
      right. split; [assumption|]. assert (i < key_at (t_arr t) r) by (apply Habove; [lia|assumption]). lia.
    + intros q Hq Uq. destruct (N.le_gt_cases q p) as [L|L].
      * pose proof (sorted_le (t_arr t) Hps q p L Uq Up). lia.
      * exfalso. apply Uq. apply S3; lia.
  - apply N.ltb_ge in Ek. split; [right; split; assumption|].
    intros q Hq Uq. destruct Hnp as [H|[[_ H]|[H _]]]; [|apply H; assumption|lia].
    assert (key_at (t_arr t) q < key_at (t_arr t) p) by (apply Hps; assumption). lia.
Qed.

(* the iterator computed by erase_key when the key is absent is the lower-bound position *)
Corollary root_search_lb : forall t key, inv t -> 0 < t_size t ->
  lb_pos t key (if key_at (t_arr t) (fst (root_search t key)) <? key
                then scan_up (fuel_of (t_rsz t)) (t_arr t) (t_rsz t) (fst (root_search t key) + 1)
                else fst (root_search t key)).
Proof.
  intros t key Hinv Hs. pose proof (root_search_near t key Hinv Hs) as Hn.
  destruct Hinv as [Hr [_ [Hso _]]]. apply (near_pos_lb t key _ Hr Hso Hn).
Qed.

(* lb_pos read as a split of the array: below p keys are < i, from p on keys are >= i *)
Lemma lb_pos_split : forall t i p, in_range t -> psorted (t_arr t) -> lb_pos t i p ->
  forall q, aget (t_arr t) q <> None ->
    (q < p -> key_at (t_arr t) q < i) /\ (p <= q -> i <= key_at (t_arr t) q).
Proof.
  intros t i p Hr Hps [H1 H2] q Uq. split; [intros L; apply H2; assumption|].
  intros L. destruct H1 as [->|[Up K]].
  - apply Hr in Uq. unfold t_end in L. lia.
  - pose proof (sorted_le (t_arr t) Hps p q L Up Uq). lia.
Qed.
