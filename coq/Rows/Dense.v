(* C16 -- Dense_Row / Linear_Expression_Impl<Dense_Row>: a list of coefficients. *)
From Coq Require Import ZArith List Lia Bool Arith.
Import ListNotations.
Require Import PPLV.Rows.Abs.
Local Open Scope Z_scope.

Definition drow := list Z.
Definition abs_d (d : drow) : arow := mkA (length d) (fun i => nth i d 0).

Definition d_zero (n : nat) : drow := repeat 0 n.
Definition d_get (i : nat) (d : drow) : Z := nth i d 0.
Fixpoint d_upd (i : nat) (f : Z -> Z) (d : drow) : drow :=
  match d, i with
  | [], _ => []
  | v :: r, O => f v :: r
  | v :: r, S i' => v :: d_upd i' f r
  end.
Definition d_set (i : nat) (v : Z) (d : drow) : drow := d_upd i (fun _ => v) d.
Definition d_add (i : nat) (v : Z) (d : drow) : drow := d_upd i (fun w => w + v) d.
Definition d_swap (i j : nat) (d : drow) : drow :=
  let vi := d_get i d in let vj := d_get j d in d_set j vi (d_set i vj d).
Definition d_shift (i n : nat) (d : drow) : drow := firstn i d ++ repeat 0 n ++ skipn i d.
Definition d_resize (n : nat) (d : drow) : drow := firstn n d ++ repeat 0 (n - length d).
(* map over the positions of [first,last), position-aware *)
Fixpoint d_mapi_from (k : nat) (f : nat -> Z -> Z) (d : drow) : drow :=
  match d with [] => [] | v :: r => f k v :: d_mapi_from (S k) f r end.
Definition d_map_range (f : Z -> Z) (first last : nat) (d : drow) : drow :=
  d_mapi_from 0 (fun k v => if inr first last k then f v else v) d.
(* Dense_Row::linear_combine(y, c1, c2, start, end); y given by its coefficient function *)
Definition d_combine (c1 c2 : Z) (first last : nat) (d : drow) (y : nat -> Z) : drow :=
  d_mapi_from 0 (fun k v => if inr first last k then c1 * v + c2 * y k else v) d.
(* remove_space_dimensions (Dense specialisation): the kept columns are moved left, then resize *)
Definition d_remove (vars : list nat) (d : drow) : drow :=
  map snd (filter (fun p => negb (existsb (Nat.eqb (fst p)) vars)) (combine (seq 0 (length d)) d)).
Definition d_permute (c : list nat) (d : drow) : drow :=
  fold_left (fun r p => d_swap (fst p) (snd p) r) (cycle_swaps c) d.
Definition d_gcd (first last : nat) (d : drow) : Z :=
  fold_left (fun g i => Z.gcd g (d_get i d)) (seq first (last - first)) 0.
Definition d_normalize (d : drow) : drow :=
  let g := fold_left Z.gcd d 0 in
  if (g =? 0) || (g =? 1) then d else map (fun v => v / g) d.
Definition d_first_nonzero (first last : nat) (d : drow) : nat :=
  match find (fun i => negb (d_get i d =? 0)) (seq first (last - first)) with Some i => i | None => last end.
Definition d_last_nonzero (first last : nat) (d : drow) : nat :=
  match find (fun i => negb (d_get i d =? 0)) (rev (seq first (last - first))) with Some i => i | None => last end.
Definition d_sign_normalize (d : drow) : drow :=
  let i := d_first_nonzero 1 (length d) d in
  if (i <? length d)%nat && (d_get i d <? 0) then map Z.opp d else d.

Definition d_all_zeroes (first last : nat) (d : drow) : bool :=
  forallb (fun i => d_get i d =? 0) (seq first (last - first)).
Definition d_num_zeroes (first last : nat) (d : drow) : nat :=
  length (filter (fun i => d_get i d =? 0) (seq first (last - first))).
Definition d_last_nonzero_all (d : drow) : nat :=
  match find (fun i => negb (d_get i d =? 0)) (rev (seq 0 (length d))) with Some i => i | None => 0%nat end.
Definition d_iter (d : drow) : list (nat * Z) :=
  map (fun i => (i, d_get i d)) (filter (fun i => negb (d_get i d =? 0)) (seq 1 (length d - 1))).
