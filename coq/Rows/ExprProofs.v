(* C16 -- dense/sparse interchangeability of Linear_Expression rows: abstract semantics of the operation
   language, per-operation refinement (DenseProofs.v, SparseProofs.v), congruence under pointwise equality,
   and the simulation by induction over histories. *)
From Coq Require Import ZArith List Lia Bool Arith Sorted.
Import ListNotations.
Require Import PPLV.Rows.Abs PPLV.Rows.Dense PPLV.Rows.Sparse PPLV.Rows.Expr.
Require Import PPLV.Rows.DenseProofs PPLV.Rows.SparseProofs.
Local Open Scope Z_scope.

(* ================================================================== *)
(* PART A -- abstract semantics and the refinement statements          *)
(* (good, a_obs1, a_obs2 are defined in SparseProofs.v)                *)
(* ================================================================== *)
Definition a_uop (u : uop) (x : arow) : arow :=
  match u with
  | USet i v => a_set i v x | UAdd i v => a_add i v x | USwap i j => a_swap i j x
  | UShift i n => a_shift i n x | UResize n => a_resize n x
  | UMulRange c f l => a_map_range (Z.mul c) f l x | UNegRange f l => a_map_range Z.opp f l x
  | UExactDiv c f l => a_map_range (fun v => v / c) f l x
  | URemove vars => a_remove vars x | UPermute c => a_permute c x
  | UNormalize => a_normalize x | USignNormalize => a_sign_normalize x
  | UMulAll c => a_map_range (Z.mul c) 0 (asize x) x
  end.
Definition a_bop (b : bop) (x y : arow) : arow :=
  match b with
  | BCombine c1 c2 f l => a_combine c1 c2 f l x y
  | BCombineAll c1 c2 =>
      a_combine c1 c2 0 (asize y) (if (asize x <? asize y)%nat then a_resize (asize y) x else x) y
  | BLaxScale c1 f l => a_map_range (Z.mul c1) f l x
  | BLaxZero f l => a_map_range (Z.mul 0) f l x
  | BLax0 c2 f l => a_combine 0 c2 f l x y
  end.

(* per-operation refinement facts (proved elsewhere) *)
Definition uop_spec (u : uop) : Prop := forall e, good e -> uop_ok u e = true ->
  good (apply_uop u e) /\ aeq (abs_e (apply_uop u e)) (a_uop u (abs_e e)).
Definition bop_spec (b : bop) : Prop := forall x y, good x -> good y -> bop_ok b x y = true -> bop_unsafe b x y = false ->
  good (apply_bop b x y) /\ aeq (abs_e (apply_bop b x y)) (a_bop b (abs_e x) (abs_e y)).
Definition obs1_spec (o : obs1) : Prop := forall e, good e -> obs1_ok o e = true -> apply_obs1 o e = a_obs1 o (abs_e e).
Definition obs2_spec (o : obs2) : Prop := forall x y, good x -> good y -> obs2_ok o x y = true ->
  apply_obs2 o x y = a_obs2 o (abs_e x) (abs_e y).
Definition copy_spec : Prop := forall sp e, good e -> good (convert sp e) /\ aeq (abs_e (convert sp e)) (abs_e e).
Definition copy_sized_spec : Prop := forall sp n e, good e -> copy_unsafe sp n e = false ->
  good (copy_sized sp n e) /\ aeq (abs_e (copy_sized sp n e)) (a_resize n (abs_e e)).

(* ================================================================== *)
(* PART C.2 -- congruence of the abstract operations                   *)
(* ================================================================== *)

(* extensionality helpers (pointwise) *)
Lemma gl_fold_left_ext {A B : Type} (f g : A -> B -> A) :
  (forall a b, f a b = g a b) -> forall l a, fold_left f l a = fold_left g l a.
Proof.
  intros H l; induction l as [|b l IH]; intro a; cbn [fold_left]; [reflexivity|].
  rewrite H. apply IH.
Qed.
Lemma gl_forallb_ext {A : Type} (f g : A -> bool) :
  (forall a, f a = g a) -> forall l, forallb f l = forallb g l.
Proof.
  intros H l; induction l as [|a l IH]; cbn [forallb]; [reflexivity|].
  rewrite H, IH; reflexivity.
Qed.
Lemma gl_find_ext {A : Type} (f g : A -> bool) :
  (forall a, f a = g a) -> forall l, find f l = find g l.
Proof.
  intros H l; induction l as [|a l IH]; cbn [find]; [reflexivity|].
  rewrite H, IH; reflexivity.
Qed.
Lemma gl_filter_ext {A : Type} (f g : A -> bool) :
  (forall a, f a = g a) -> forall l, filter f l = filter g l.
Proof.
  intros H l; induction l as [|a l IH]; cbn [filter]; [reflexivity|].
  rewrite H, IH; reflexivity.
Qed.
Lemma gl_map_ext {A B : Type} (f g : A -> B) :
  (forall a, f a = g a) -> forall l, map f l = map g l.
Proof.
  intros H l; induction l as [|a l IH]; cbn [map]; [reflexivity|].
  rewrite H, IH; reflexivity.
Qed.

Lemma fold_left_aeq {A : Type} (f : arow -> A -> arow) :
  (forall a x x', aeq x x' -> aeq (f x a) (f x' a)) ->
  forall l x x', aeq x x' -> aeq (fold_left f l x) (fold_left f l x').
Proof.
  intros H l; induction l as [|a l IH]; intros x x' Hx; cbn [fold_left]; [exact Hx|].
  apply IH. apply H. exact Hx.
Qed.

(* the mutators whose result is given coefficient-wise *)
Ltac aeq_pointwise H :=
  let Hs := fresh "Hs" in let Hc := fresh "Hc" in let k := fresh "k" in
  destruct H as [Hs Hc];
  unfold a_set, a_add, a_swap, a_shift, a_delete, a_resize, a_map_range, a_combine;
  split; cbn [asize acoef];
  [ rewrite ?Hs; reflexivity | intro k; rewrite ?Hs, ?Hc; reflexivity ].

Lemma a_set_aeq : forall i v x x', aeq x x' -> aeq (a_set i v x) (a_set i v x').
Proof. intros i v x x' H. aeq_pointwise H. Qed.
Lemma a_add_aeq : forall i v x x', aeq x x' -> aeq (a_add i v x) (a_add i v x').
Proof. intros i v x x' H. aeq_pointwise H. Qed.
Lemma a_swap_aeq : forall i j x x', aeq x x' -> aeq (a_swap i j x) (a_swap i j x').
Proof. intros i j x x' H. aeq_pointwise H. Qed.
Lemma a_shift_aeq : forall i n x x', aeq x x' -> aeq (a_shift i n x) (a_shift i n x').
Proof. intros i n x x' H. aeq_pointwise H. Qed.
Lemma a_delete_aeq : forall i x x', aeq x x' -> aeq (a_delete i x) (a_delete i x').
Proof. intros i x x' H. aeq_pointwise H. Qed.
Lemma a_resize_aeq : forall n x x', aeq x x' -> aeq (a_resize n x) (a_resize n x').
Proof. intros n x x' H. aeq_pointwise H. Qed.
Lemma a_map_range_aeq : forall g f l x x', aeq x x' -> aeq (a_map_range g f l x) (a_map_range g f l x').
Proof. intros g f l x x' H. aeq_pointwise H. Qed.
Lemma a_combine_aeq : forall c1 c2 f l x x' y y', aeq x x' -> aeq y y' ->
  aeq (a_combine c1 c2 f l x y) (a_combine c1 c2 f l x' y').
Proof.
  intros c1 c2 f l x x' y y' H [_ Hcy]. destruct H as [Hs Hc].
  unfold a_combine; split; cbn [asize acoef]; [exact Hs|].
  intro k. rewrite Hc, Hcy. reflexivity.
Qed.

Lemma a_remove_aeq : forall vars x x', aeq x x' -> aeq (a_remove vars x) (a_remove vars x').
Proof.
  intros vars x x' H. unfold a_remove. apply fold_left_aeq; [|exact H].
  intros a z z' Hz. apply a_delete_aeq. exact Hz.
Qed.
Lemma a_permute_aeq : forall c x x', aeq x x' -> aeq (a_permute c x) (a_permute c x').
Proof.
  intros c x x' H. unfold a_permute. apply fold_left_aeq; [|exact H].
  intros a z z' Hz. apply a_swap_aeq. exact Hz.
Qed.

(* observers *)
Lemma a_gcd_aeq : forall f l x x', aeq x x' -> a_gcd f l x = a_gcd f l x'.
Proof.
  intros f l x x' [_ Hc]. unfold a_gcd. apply gl_fold_left_ext.
  intros g i. rewrite Hc. reflexivity.
Qed.
Lemma nz_pred_aeq : forall x x', aeq x x' ->
  forall i, negb (acoef x i =? 0) = negb (acoef x' i =? 0).
Proof. intros x x' [_ Hc] i. rewrite Hc. reflexivity. Qed.
Lemma z_pred_aeq : forall x x', aeq x x' ->
  forall i, (acoef x i =? 0) = (acoef x' i =? 0).
Proof. intros x x' [_ Hc] i. rewrite Hc. reflexivity. Qed.
Lemma a_first_nonzero_aeq : forall f l x x', aeq x x' -> a_first_nonzero f l x = a_first_nonzero f l x'.
Proof.
  intros f l x x' H. unfold a_first_nonzero.
  rewrite (gl_find_ext _ _ (nz_pred_aeq x x' H)). reflexivity.
Qed.
Lemma a_last_nonzero_aeq : forall f l x x', aeq x x' -> a_last_nonzero f l x = a_last_nonzero f l x'.
Proof.
  intros f l x x' H. unfold a_last_nonzero.
  rewrite (gl_find_ext _ _ (nz_pred_aeq x x' H)). reflexivity.
Qed.
Lemma a_last_nonzero_all_aeq : forall x x', aeq x x' -> a_last_nonzero_all x = a_last_nonzero_all x'.
Proof.
  intros x x' H. unfold a_last_nonzero_all.
  rewrite (gl_find_ext _ _ (nz_pred_aeq x x' H)). destruct H as [Hs _]. rewrite Hs. reflexivity.
Qed.
Lemma a_all_zeroes_aeq : forall f l x x', aeq x x' -> a_all_zeroes f l x = a_all_zeroes f l x'.
Proof.
  intros f l x x' H. unfold a_all_zeroes.
  apply gl_forallb_ext. apply z_pred_aeq. exact H.
Qed.
Lemma a_num_zeroes_aeq : forall f l x x', aeq x x' -> a_num_zeroes f l x = a_num_zeroes f l x'.
Proof.
  intros f l x x' H. unfold a_num_zeroes.
  rewrite (gl_filter_ext _ _ (z_pred_aeq x x' H)). reflexivity.
Qed.
Lemma a_iter_aeq : forall x x', aeq x x' -> a_iter x = a_iter x'.
Proof.
  intros x x' H. unfold a_iter.
  rewrite (gl_filter_ext _ _ (nz_pred_aeq x x' H)).
  destruct H as [Hs Hc]. rewrite Hs.
  apply gl_map_ext. intro i. rewrite Hc. reflexivity.
Qed.

Lemma a_normalize_aeq : forall x x', aeq x x' -> aeq (a_normalize x) (a_normalize x').
Proof.
  intros x x' H. unfold a_normalize. cbv zeta.
  pose proof H as [Hs Hc].
  rewrite <- Hs. rewrite <- (a_gcd_aeq 0 (asize x) x x' H).
  destruct ((a_gcd 0 (asize x) x =? 0) || (a_gcd 0 (asize x) x =? 1)); [exact H|].
  split; cbn [asize acoef]; [reflexivity | intro k; rewrite Hc; reflexivity].
Qed.
Lemma a_sign_normalize_aeq : forall x x', aeq x x' -> aeq (a_sign_normalize x) (a_sign_normalize x').
Proof.
  intros x x' H. unfold a_sign_normalize. cbv zeta.
  pose proof H as [Hs Hc].
  rewrite <- Hs. rewrite <- (a_first_nonzero_aeq 1 (asize x) x x' H).
  rewrite <- (Hc (a_first_nonzero 1 (asize x) x)).
  destruct ((a_first_nonzero 1 (asize x) x <? asize x)%nat && (acoef x (a_first_nonzero 1 (asize x) x) <? 0));
    [|exact H].
  split; cbn [asize acoef]; [reflexivity | intro k; rewrite Hc; reflexivity].
Qed.

Lemma a_uop_aeq : forall u x x', aeq x x' -> aeq (a_uop u x) (a_uop u x').
Proof.
  intros u x x' H. destruct u; cbn [a_uop].
  - apply a_set_aeq; exact H.
  - apply a_add_aeq; exact H.
  - apply a_swap_aeq; exact H.
  - apply a_shift_aeq; exact H.
  - apply a_resize_aeq; exact H.
  - apply a_map_range_aeq; exact H.
  - apply a_map_range_aeq; exact H.
  - apply a_map_range_aeq; exact H.
  - apply a_remove_aeq; exact H.
  - apply a_permute_aeq; exact H.
  - apply a_normalize_aeq; exact H.
  - apply a_sign_normalize_aeq; exact H.
  - pose proof H as [Hs _]. rewrite <- Hs. apply a_map_range_aeq; exact H.
Qed.

Lemma a_bop_aeq : forall b x x' y y', aeq x x' -> aeq y y' -> aeq (a_bop b x y) (a_bop b x' y').
Proof.
  intros b x x' y y' Hx Hy. destruct b; cbn [a_bop].
  - apply a_combine_aeq; assumption.
  - pose proof Hx as [Hsx _]. pose proof Hy as [Hsy _]. rewrite <- Hsx, <- Hsy.
    apply a_combine_aeq; [|exact Hy].
    destruct (asize x <? asize y)%nat; [apply a_resize_aeq; exact Hx | exact Hx].
  - apply a_map_range_aeq; exact Hx.
  - apply a_map_range_aeq; exact Hx.
  - apply a_combine_aeq; assumption.
Qed.


Lemma eq_pred_aeq : forall x x' y y', aeq x x' -> aeq y y' ->
  forall i, (acoef x i =? acoef y i) = (acoef x' i =? acoef y' i).
Proof. intros x x' y y' [_ Hcx] [_ Hcy] i. rewrite Hcx, Hcy. reflexivity. Qed.
Lemma neq_pred_aeq : forall x x' y y', aeq x x' -> aeq y y' ->
  forall i, negb (acoef x i =? acoef y i) = negb (acoef x' i =? acoef y' i).
Proof. intros x x' y y' [_ Hcx] [_ Hcy] i. rewrite Hcx, Hcy. reflexivity. Qed.

Lemma a_scalar_product_aeq : forall f l x x' y y', aeq x x' -> aeq y y' ->
  a_scalar_product f l x y = a_scalar_product f l x' y'.
Proof.
  intros f l x x' y y' [_ Hcx] [_ Hcy]. unfold a_scalar_product.
  apply gl_fold_left_ext. intros s i. rewrite Hcx, Hcy. reflexivity.
Qed.
Lemma a_is_equal_aeq : forall x x' y y', aeq x x' -> aeq y y' -> a_is_equal x y = a_is_equal x' y'.
Proof.
  intros x x' y y' Hx Hy. unfold a_is_equal.
  rewrite (gl_forallb_ext _ _ (eq_pred_aeq x x' y y' Hx Hy)).
  destruct Hx as [Hsx _]. destruct Hy as [Hsy _]. rewrite Hsx, Hsy. reflexivity.
Qed.
Lemma a_is_equal_range_aeq : forall f l x x' y y', aeq x x' -> aeq y y' ->
  a_is_equal_range f l x y = a_is_equal_range f l x' y'.
Proof.
  intros f l x x' y y' Hx Hy. unfold a_is_equal_range.
  apply gl_forallb_ext. apply eq_pred_aeq; assumption.
Qed.
Lemma a_compare_aeq : forall x x' y y', aeq x x' -> aeq y y' -> a_compare x y = a_compare x' y'.
Proof.
  intros x x' y y' Hx Hy. unfold a_compare. cbv zeta.
  rewrite (gl_find_ext _ _ (neq_pred_aeq x x' y y' Hx Hy)).
  destruct Hx as [Hsx Hcx]. destruct Hy as [Hsy Hcy]. rewrite Hsx, Hsy.
  destruct (find (fun i : nat => negb (acoef x' i =? acoef y' i))
                 (seq 1 (Nat.max (asize x') (asize y') - 1))) as [i|].
  - rewrite Hcx, Hcy. reflexivity.
  - rewrite Hcx, Hcy. reflexivity.
Qed.


(* ================================================================== *)
(* PART C.3 -- the preconditions only look at the abstraction          *)
(* ================================================================== *)

Lemma divides_range_ext : forall c f l g g', (forall i, g i = g' i) ->
  divides_range c f l g = divides_range c f l g'.
Proof.
  intros c f l g g' H. unfold divides_range. apply gl_forallb_ext.
  intro i. rewrite H. reflexivity.
Qed.

Lemma uop_ok_aeq : forall u e e', aeq (abs_e e) (abs_e e') -> uop_ok u e = uop_ok u e'.
Proof.
  intros u e e' [Hs Hc]. unfold uop_ok, esize, ecoef. cbv zeta.
  destruct u; rewrite ?Hs; try reflexivity.
  rewrite (divides_range_ext c first last _ _ Hc). reflexivity.
Qed.
Lemma bop_ok_aeq : forall b x x' y y', aeq (abs_e x) (abs_e x') -> aeq (abs_e y) (abs_e y') ->
  bop_ok b x y = bop_ok b x' y'.
Proof.
  intros b x x' y y' [Hsx _] [Hsy _]. unfold bop_ok, esize. cbv zeta.
  destruct b; rewrite ?Hsx, ?Hsy; reflexivity.
Qed.
Lemma obs1_ok_aeq : forall o e e', aeq (abs_e e) (abs_e e') -> obs1_ok o e = obs1_ok o e'.
Proof.
  intros o e e' [Hs _]. unfold obs1_ok, esize. cbv zeta.
  destruct o; rewrite ?Hs; reflexivity.
Qed.
Lemma obs2_ok_aeq : forall o x x' y y', aeq (abs_e x) (abs_e x') -> aeq (abs_e y) (abs_e y') ->
  obs2_ok o x y = obs2_ok o x' y'.
Proof.
  intros o x x' y y' [Hsx _] [Hsy _]. unfold obs2_ok, esize.
  destruct o; rewrite ?Hsx, ?Hsy; reflexivity.
Qed.


(* ================================================================== *)
(* PART B -- the per-operation refinement facts                        *)
(* ================================================================== *)

Ltac bools := repeat match goal with
  | H : _ && _ = true |- _ => apply andb_true_iff in H; destruct H
  | H : (_ <? _)%nat = true |- _ => apply Nat.ltb_lt in H
  | H : (_ <=? _)%nat = true |- _ => apply Nat.leb_le in H
  | H : negb _ = true |- _ => apply negb_true_iff in H
  | H : (_ =? _) = false |- _ => apply Z.eqb_neq in H
  end.

Lemma forallb_bound : forall n c, forallb (fun v => (1 <=? v)%nat && (v <? n)%nat) c = true ->
  Forall (fun v => (v < n)%nat) c.
Proof.
  intros n c H. rewrite forallb_forall in H. apply Forall_forall. intros v Hv. specialize (H v Hv).
  apply andb_true_iff in H. destruct H as [_ H]. apply Nat.ltb_lt. exact H.
Qed.

Theorem dense_refines_abs : forall u d, uop_ok u (ED d) = true ->
  aeq (abs_e (apply_uop u (ED d))) (a_uop u (abs_e (ED d))).
Proof.
  intros u d Hok. destruct u; cbn [apply_uop abs_e a_uop]; cbn [uop_ok esize abs_e abs_d asize] in Hok.
  - bools. apply d_set_abs; assumption.
  - bools. apply d_add_abs; assumption.
  - bools. apply d_swap_abs; assumption.
  - bools. apply d_shift_abs; assumption.
  - apply d_resize_abs.
  - bools. apply d_map_range_abs; assumption.
  - bools. apply d_map_range_abs; assumption.
  - apply andb_true_iff in Hok. destruct Hok as [Hok _]. bools. apply d_map_range_abs; assumption.
  - apply d_remove_abs. apply andb_true_iff in Hok. exact Hok.
  - apply andb_true_iff in Hok. destruct Hok as [_ Hok]. apply d_permute_abs, forallb_bound, Hok.
  - apply d_normalize_abs.
  - apply d_sign_normalize_abs.
  - apply d_mul_all_abs.
Qed.

Theorem sparse_refines_abs : forall u s, s_wf s -> s_nz s -> uop_ok u (ES s) = true ->
  (s_wf (match apply_uop u (ES s) with ES t => t | ED _ => s end) /\
   s_nz (match apply_uop u (ES s) with ES t => t | ED _ => s end)) /\
  aeq (abs_e (apply_uop u (ES s))) (a_uop u (abs_e (ES s))).
Proof.
  intros u s Hwf Hnz Hok. destruct u; cbn [apply_uop abs_e a_uop]; cbn [uop_ok esize abs_e abs_s asize] in Hok.
  - bools. split; [split; [apply s_set_wf; assumption|apply s_set_nz; assumption]|apply s_set_abs].
  - bools. split; [split; [apply s_add_wf; assumption|apply s_add_nz; assumption]|apply s_add_abs].
  - bools. split; [split; [apply s_swap_wf; assumption|apply s_swap_nz; assumption]|apply s_swap_abs].
  - split; [split; [apply s_shift_wf; assumption|apply s_shift_nz; assumption]|apply s_shift_abs].
  - split; [split; [apply s_resize_wf; assumption|apply s_resize_nz; assumption]|apply s_resize_abs; assumption].
  - split; [split; [apply s_mul_range_wf; assumption|apply s_mul_range_nz; assumption]|apply s_mul_range_abs].
  - split; [split; [apply s_map_range_wf; assumption|]|apply s_map_range_abs; reflexivity].
    apply s_map_range_nz_simple; [assumption|]. intros v Hv. lia.
  - apply andb_true_iff in Hok. destruct Hok as [Hok Hdiv]. bools.
    split; [split; [apply s_map_range_wf; assumption|]|apply s_map_range_abs; apply Zdiv_0_l].
    apply s_exact_div_nz; assumption.
  - assert (Hv : vars_ok vars (ssize s)) by (apply andb_true_iff in Hok; exact Hok).
    split; [split; [apply s_remove_wf; assumption|apply s_remove_nz; assumption]|apply s_remove_abs; assumption].
  - apply andb_true_iff in Hok. destruct Hok as [_ Hok]. apply forallb_bound in Hok.
    split; [split; [apply s_permute_wf; assumption|apply s_permute_nz; assumption]|apply s_permute_abs].
  - split; [apply s_normalize_good; assumption|apply s_normalize_abs; assumption].
  - split; [apply s_sign_normalize_good; assumption|apply s_sign_normalize_abs; assumption].
  - change (if c =? 0 then mkSR (ssize s) [] else s_map_range (Z.mul c) 0 (ssize s) s) with (s_mul_all c s).
    split; [split; [apply s_mul_all_wf; assumption|apply s_mul_all_nz; assumption]|apply s_mul_all_abs; assumption].
Qed.

Lemma uop_spec_all : forall u, uop_spec u.
Proof.
  intros u [d|s] Hg Hok.
  - split; [destruct u; exact I|apply dense_refines_abs, Hok].
  - destruct Hg as [Hwf Hnz]. destruct (sparse_refines_abs u s Hwf Hnz Hok) as [Hg' Ha]. split; [|exact Ha].
    destruct u; exact Hg'.
Qed.

Lemma combine_e_spec : forall c1 c2 f l x y, good x -> good y -> c1 <> 0 -> c2 <> 0 -> (l <= esize x)%nat ->
  good (combine_e c1 c2 f l x y) /\
  aeq (abs_e (combine_e c1 c2 f l x y)) (a_combine c1 c2 f l (abs_e x) (abs_e y)).
Proof.
  intros c1 c2 f l [d|s] y Hgx Hgy H1 H2 Hl.
  - cbn [combine_e]. split; [exact I|]. unfold ecoef. apply d_combine_abs. exact Hl.
  - destruct Hgx as [Hwx Hnx]. destruct y as [d'|t]; cbn [combine_e good].
    + split; [apply s_combine_sd_good; assumption|]. unfold ecoef. apply s_combine_sd_abs. exact H2.
    + destruct Hgy as [Hwy Hny].
      split; [apply s_combine_ss_good; assumption|apply s_combine_ss_abs; assumption].
Qed.

(* the nonzero entries a row iterator visits are the stored entries of the sparse copy of the row *)
Lemma filter_map_comm : forall (A B : Type) (g : A -> B) (p : B -> bool) (L : list A),
  filter p (map g L) = map g (filter (fun a => p (g a)) L).
Proof.
  intros A B g p L. induction L as [|a r IH]; cbn [map filter]; [reflexivity|].
  destruct (p (g a)); cbn [map]; rewrite IH; reflexivity.
Qed.
Lemma nzlist_coef_ext : forall f l x x', (forall i, acoef x i = acoef x' i) -> nzlist f l x = nzlist f l x'.
Proof.
  intros f l x x' H. unfold nzlist.
  rewrite (filter_ext (fun i => negb (acoef x i =? 0)) (fun i => negb (acoef x' i =? 0)))
    by (intro i; rewrite H; reflexivity).
  apply map_ext. intro i. rewrite H. reflexivity.
Qed.
Lemma filter_nz_nzlist : forall f l x, filter nz_entry (nzlist f l x) = nzlist f l x.
Proof.
  intros f l x. unfold nzlist. rewrite filter_map_comm. f_equal.
  induction (seq f (l - f)) as [|i r IH]; cbn [filter]; [reflexivity|].
  destruct (negb (acoef x i =? 0)) eqn:E; cbn [filter]; [|exact IH].
  unfold nz_entry at 1. cbn [snd]. rewrite E. rewrite IH. reflexivity.
Qed.
Lemma filter_nz_visited : forall f l y, good y ->
  filter nz_entry (visited f l y) = stored_in f l (to_sparse y).
Proof.
  intros f l y Hg. destruct (convert_good true y Hg) as [Hgt Hat]. cbn [convert] in Hgt, Hat.
  destruct Hgt as [Hwt Hnt]. cbn [abs_e] in Hat.
  rewrite (stored_char f l (to_sparse y) Hwt Hnt).
  rewrite (nzlist_coef_ext f l (abs_s (to_sparse y)) (abs_e y)) by (destruct Hat as [_ H]; exact H).
  destruct y as [d|s].
  - cbn [visited]. rewrite filter_map_comm. unfold nzlist. cbn [abs_e abs_d acoef].
    unfold nz_entry. cbn [snd]. reflexivity.
  - cbn [visited]. destruct Hg as [W NZ]. rewrite (stored_char f l s W NZ). apply filter_nz_nzlist.
Qed.

Lemma bop_spec_all : forall b, bop_spec b.
Proof.
  intros b x y Hgx Hgy Hok Hu. destruct b; cbn [apply_bop a_bop]; cbn [bop_ok] in Hok.
  - bools. apply combine_e_spec; assumption.
  - bools.
    set (x' := if (esize x <? esize y)%nat then apply_uop (UResize (esize y)) x else x).
    assert (Hx' : good x' /\ aeq (abs_e x')
              (if (asize (abs_e x) <? asize (abs_e y))%nat then a_resize (asize (abs_e y)) (abs_e x) else abs_e x)).
    { unfold x'. change (asize (abs_e x)) with (esize x). change (asize (abs_e y)) with (esize y).
      destruct (esize x <? esize y)%nat eqn:E; [|split; [exact Hgx|apply aeq_refl]].
      apply Nat.ltb_lt in E. apply (uop_spec_all (UResize (esize y))); [exact Hgx|].
      cbn [uop_ok]. apply Nat.leb_le. lia. }
    destruct Hx' as [Hg' Ha'].
    assert (Hl : (esize y <= esize x')%nat).
    { unfold esize at 2. destruct Ha' as [Hs _]. rewrite Hs. change (asize (abs_e x)) with (esize x).
      change (asize (abs_e y)) with (esize y). destruct (esize x <? esize y)%nat eqn:E; cbn [a_resize asize].
      - lia.
      - apply Nat.ltb_ge in E. exact E. }
    destruct (combine_e_spec c1 c2 0 (esize y) x' y Hg' Hgy H H0 Hl) as [Hg'' Ha''].
    split; [exact Hg''|]. eapply aeq_trans; [exact Ha''|]. apply a_combine_aeq; [exact Ha'|apply aeq_refl].
  - bools. apply (uop_spec_all (UMulRange c1 first last)); [exact Hgx|].
    cbn [uop_ok]. apply andb_true_iff. split; [apply Nat.leb_le|apply Nat.leb_le]; assumption.
  - bools. apply (uop_spec_all (UMulRange 0 first last)); [exact Hgx|].
    cbn [uop_ok]. apply andb_true_iff. split; [apply Nat.leb_le|apply Nat.leb_le]; assumption.
  - bools. destruct x as [d|s].
    + split; [exact I|]. unfold ecoef. apply d_combine_abs. assumption.
    + destruct Hgx as [Hwx Hnx].
      destruct (convert_good true y Hgy) as [Hgt Hat]. cbn [convert] in Hgt, Hat.
      destruct Hgt as [Hwt Hnt]. cbn [abs_e] in Hat.
      rewrite (filter_nz_visited first last y Hgy).
      split; [apply s_lax0_good; assumption|].
      eapply aeq_trans; [apply s_lax0_abs; assumption|].
      apply a_combine_aeq; [apply aeq_refl|exact Hat].
Qed.

Lemma obs1_spec_all : forall o, obs1_spec o.
Proof. intros o e Hg _. apply obs1_refines, Hg. Qed.
Lemma obs2_spec_all : forall o, obs2_spec o.
Proof. intros o x y Hx Hy _. apply obs2_refines; assumption. Qed.
Lemma copy_spec_all : copy_spec.
Proof. intros sp e Hg. apply convert_good, Hg. Qed.
Lemma copy_sized_spec_all : copy_sized_spec.
Proof. intros sp n e Hg Hu. apply copy_sized_good; assumption. Qed.

(* which operations have their refinement fact available: all of them *)
Definition covered_u (u : uop) : bool := true.
Lemma covered_u_ok : forall u, covered_u u = true -> uop_spec u.
Proof. intros u _. apply uop_spec_all. Qed.
Definition covered_b (b : bop) : bool := true.
Lemma covered_b_ok : forall b, covered_b b = true -> bop_spec b.
Proof. intros b _. apply bop_spec_all. Qed.
Definition covered_o1 (o : obs1) : bool := true.
Lemma covered_o1_ok : forall o, covered_o1 o = true -> obs1_spec o.
Proof. intros o _. apply obs1_spec_all. Qed.
Definition covered_o2 (o : obs2) : bool := true.
Lemma covered_o2_ok : forall o, covered_o2 o = true -> obs2_spec o.
Proof. intros o _. apply obs2_spec_all. Qed.
Definition covered_copy : bool := true.
Lemma covered_copy_ok : covered_copy = true -> copy_spec.
Proof. intros _. apply copy_spec_all. Qed.
Definition covered_copy_sized : bool := true.
Lemma covered_copy_sized_ok : covered_copy_sized = true -> copy_sized_spec.
Proof. intros _. apply copy_sized_spec_all. Qed.
Definition covered (o : op) : bool :=
  match o with
  | New _ _ => true | Un _ u => covered_u u | Bin _ _ b => covered_b b
  | Obs1 _ o => covered_o1 o | Obs2 _ _ o => covered_o2 o
  | Copy _ _ => covered_copy | CopySized _ _ _ => covered_copy_sized
  end.

(* the simulation below only uses the six _ok lemmas *)
Opaque covered_u covered_b covered_o1 covered_o2 covered_copy covered_copy_sized.

(* ================================================================== *)
(* PART C.4 -- simulation                                              *)
(* ================================================================== *)

Definition rel (e1 e2 : expr) : Prop := good e1 /\ good e2 /\ aeq (abs_e e1) (abs_e e2).
Definition sim (st1 st2 : state) : Prop := Forall2 rel st1 st2.

Lemma good_s_zero : forall n, good (ES (s_zero n)).
Proof.
  intro n. cbn [good]. unfold s_wf, s_nz, s_sorted, s_zero. cbn [sents ssize].
  split; [split|]; constructor.
Qed.
Lemma abs_s_zero : forall n, aeq (abs_e (ES (s_zero n))) (a_zero n).
Proof.
  intro n. unfold a_zero, s_zero. cbn [abs_e]. unfold abs_s. cbn [sents ssize s_lookup].
  split; cbn [asize acoef]; [reflexivity | intro; reflexivity].
Qed.
Lemma abs_d_zero : forall n, aeq (abs_e (ED (d_zero n))) (a_zero n).
Proof.
  intro n. unfold a_zero, d_zero. cbn [abs_e]. unfold abs_d.
  split; cbn [asize acoef]; [apply repeat_length | intro i; apply nth_repeat].
Qed.
Definition zero_e (sp : bool) (n : nat) : expr := if sp then ES (s_zero n) else ED (d_zero n).
Lemma good_zero_e : forall sp n, good (zero_e sp n).
Proof. intros [|] n; unfold zero_e; [apply good_s_zero | exact I]. Qed.
Lemma abs_zero_e : forall sp n, aeq (abs_e (zero_e sp n)) (a_zero n).
Proof. intros [|] n; unfold zero_e; [apply abs_s_zero | apply abs_d_zero]. Qed.
Lemma rel_zero_e : forall sp1 sp2 n, rel (zero_e sp1 n) (zero_e sp2 n).
Proof.
  intros sp1 sp2 n. split; [apply good_zero_e|]. split; [apply good_zero_e|].
  eapply aeq_trans; [apply abs_zero_e | apply aeq_sym; apply abs_zero_e].
Qed.

(* both sides refine aeq-related abstract values *)
Lemma rel_via : forall e1 e2 a1 a2, good e1 -> good e2 ->
  aeq (abs_e e1) a1 -> aeq (abs_e e2) a2 -> aeq a1 a2 -> rel e1 e2.
Proof.
  intros e1 e2 a1 a2 G1 G2 A1 A2 A. split; [exact G1|]. split; [exact G2|].
  eapply aeq_trans; [exact A1|]. eapply aeq_trans; [exact A|]. apply aeq_sym; exact A2.
Qed.

Lemma sim_init : forall rho1 rho2, sim (init_state rho1) (init_state rho2).
Proof.
  intros rho1 rho2. unfold sim, init_state.
  generalize (seq 0 nregs) as l. intro l; induction l as [|r l IH]; cbn [map]; constructor.
  - apply (rel_zero_e (rho1 r) (rho2 r) 1).
  - exact IH.
Qed.

Lemma rel_default : rel (ED (d_zero 1)) (ED (d_zero 1)).
Proof. split; [exact I|]. split; [exact I|]. apply aeq_refl. Qed.

Lemma sim_getr : forall st1 st2 r, sim st1 st2 -> rel (getr st1 r) (getr st2 r).
Proof.
  intros st1 st2 r H. revert r. unfold getr.
  induction H as [|e1 e2 t1 t2 He Ht IH]; intro r.
  - destruct r; cbn [nth]; apply rel_default.
  - destruct r as [|r]; cbn [nth]; [exact He | apply IH].
Qed.

Lemma sim_setr : forall st1 st2 r e1 e2, sim st1 st2 -> rel e1 e2 -> sim (setr st1 r e1) (setr st2 r e2).
Proof.
  intros st1 st2 r e1 e2 H He. revert r. unfold sim.
  induction H as [|x1 x2 t1 t2 Hx Ht IH]; intro r.
  - cbn [setr]. constructor.
  - destruct r as [|r]; cbn [setr]; constructor; try assumption. apply IH.
Qed.

Lemma triple_inj {A B C : Type} (a a' : A) (b b' : B) (c c' : C) :
  (a, b, c) = (a', b', c') -> a = a' /\ b = b' /\ c = c'.
Proof. intro H. inversion H. auto. Qed.

Lemma step_sim : forall rho1 rho2 st1 st2 o st1' out1 st2' out2,
  covered o = true -> sim st1 st2 ->
  step rho1 st1 o = (st1', out1, false) -> step rho2 st2 o = (st2', out2, false) ->
  sim st1' st2' /\ out1 = out2.
Proof.
  intros rho1 rho2 st1 st2 o st1' out1 st2' out2 Hcov Hsim H1 H2.
  destruct o as [r n | r u | r s b | r o | r s o | r s | r s n]; cbn [covered] in Hcov;
    cbn [step] in H1, H2.
  - (* New *)
    destruct (1 <=? n)%nat.
    + apply triple_inj in H1 as (<- & <- & _). apply triple_inj in H2 as (<- & <- & _).
      split; [|reflexivity]. apply sim_setr; [exact Hsim|].
      apply (rel_zero_e (rho1 r) (rho2 r) n).
    + apply triple_inj in H1 as (<- & <- & _). apply triple_inj in H2 as (<- & <- & _).
      split; [exact Hsim | reflexivity].
  - (* Un *)
    pose proof (covered_u_ok u Hcov) as Hspec.
    pose proof (sim_getr st1 st2 r Hsim) as (G1 & G2 & A).
    rewrite (uop_ok_aeq u _ _ A) in H1.
    destruct (uop_ok u (getr st2 r)) eqn:E2.
    + apply triple_inj in H1 as (<- & <- & _). apply triple_inj in H2 as (<- & <- & _).
      split; [|reflexivity]. apply sim_setr; [exact Hsim|].
      assert (E1 : uop_ok u (getr st1 r) = true) by (rewrite (uop_ok_aeq u _ _ A); exact E2).
      destruct (Hspec _ G1 E1) as [G1' A1]. destruct (Hspec _ G2 E2) as [G2' A2].
      apply (rel_via _ _ _ _ G1' G2' A1 A2). apply a_uop_aeq. exact A.
    + apply triple_inj in H1 as (<- & <- & _). apply triple_inj in H2 as (<- & <- & _).
      split; [exact Hsim | reflexivity].
  - (* Bin *)
    pose proof (covered_b_ok b Hcov) as Hspec.
    pose proof (sim_getr st1 st2 r Hsim) as (Gx1 & Gx2 & Ax).
    pose proof (sim_getr st1 st2 s Hsim) as (Gy1 & Gy2 & Ay).
    rewrite (bop_ok_aeq b _ _ _ _ Ax Ay) in H1.
    destruct (negb (r =? s)%nat && bop_ok b (getr st2 r) (getr st2 s)) eqn:E.
    + apply triple_inj in H1 as (<- & <- & U1). apply triple_inj in H2 as (<- & <- & U2).
      split; [|reflexivity]. apply sim_setr; [exact Hsim|].
      apply andb_true_iff in E as [_ E2].
      assert (E1 : bop_ok b (getr st1 r) (getr st1 s) = true)
        by (rewrite (bop_ok_aeq b _ _ _ _ Ax Ay); exact E2).
      destruct (Hspec _ _ Gx1 Gy1 E1 U1) as [G1' A1]. destruct (Hspec _ _ Gx2 Gy2 E2 U2) as [G2' A2].
      apply (rel_via _ _ _ _ G1' G2' A1 A2). apply a_bop_aeq; assumption.
    + apply triple_inj in H1 as (<- & <- & _). apply triple_inj in H2 as (<- & <- & _).
      split; [exact Hsim | reflexivity].
  - (* Obs1 *)
    pose proof (covered_o1_ok o Hcov) as Hspec.
    pose proof (sim_getr st1 st2 r Hsim) as (G1 & G2 & A).
    rewrite (obs1_ok_aeq o _ _ A) in H1.
    destruct (obs1_ok o (getr st2 r)) eqn:E2.
    + apply triple_inj in H1 as (<- & <- & _). apply triple_inj in H2 as (<- & <- & _).
      split; [exact Hsim|]. f_equal.
      assert (E1 : obs1_ok o (getr st1 r) = true) by (rewrite (obs1_ok_aeq o _ _ A); exact E2).
      rewrite (Hspec _ G1 E1), (Hspec _ G2 E2). apply a_obs1_aeq. exact A.
    + apply triple_inj in H1 as (<- & <- & _). apply triple_inj in H2 as (<- & <- & _).
      split; [exact Hsim | reflexivity].
  - (* Obs2 *)
    pose proof (covered_o2_ok o Hcov) as Hspec.
    pose proof (sim_getr st1 st2 r Hsim) as (Gx1 & Gx2 & Ax).
    pose proof (sim_getr st1 st2 s Hsim) as (Gy1 & Gy2 & Ay).
    rewrite (obs2_ok_aeq o _ _ _ _ Ax Ay) in H1.
    destruct (obs2_ok o (getr st2 r) (getr st2 s)) eqn:E2.
    + apply triple_inj in H1 as (<- & <- & _). apply triple_inj in H2 as (<- & <- & _).
      split; [exact Hsim|]. f_equal.
      assert (E1 : obs2_ok o (getr st1 r) (getr st1 s) = true)
        by (rewrite (obs2_ok_aeq o _ _ _ _ Ax Ay); exact E2).
      rewrite (Hspec _ _ Gx1 Gy1 E1), (Hspec _ _ Gx2 Gy2 E2). apply a_obs2_aeq; assumption.
    + apply triple_inj in H1 as (<- & <- & _). apply triple_inj in H2 as (<- & <- & _).
      split; [exact Hsim | reflexivity].
  - (* Copy *)
    pose proof (covered_copy_ok Hcov) as Hspec.
    pose proof (sim_getr st1 st2 s Hsim) as (G1 & G2 & A).
    apply triple_inj in H1 as (<- & <- & _). apply triple_inj in H2 as (<- & <- & _).
    split; [|reflexivity]. apply sim_setr; [exact Hsim|].
    destruct (Hspec (rho1 r) _ G1) as [G1' A1]. destruct (Hspec (rho2 r) _ G2) as [G2' A2].
    apply (rel_via _ _ _ _ G1' G2' A1 A2). exact A.
  - (* CopySized *)
    pose proof (covered_copy_sized_ok Hcov) as Hspec.
    pose proof (sim_getr st1 st2 s Hsim) as (G1 & G2 & A).
    destruct (1 <=? n)%nat.
    + apply triple_inj in H1 as (<- & <- & U1). apply triple_inj in H2 as (<- & <- & U2).
      split; [|reflexivity]. apply sim_setr; [exact Hsim|].
      destruct (Hspec (rho1 r) n _ G1 U1) as [G1' A1]. destruct (Hspec (rho2 r) n _ G2 U2) as [G2' A2].
      apply (rel_via _ _ _ _ G1' G2' A1 A2). apply a_resize_aeq. exact A.
    + apply triple_inj in H1 as (<- & <- & _). apply triple_inj in H2 as (<- & <- & _).
      split; [exact Hsim | reflexivity].
Qed.

Lemma run_sim : forall rho1 rho2 h st1 st2, forallb covered h = true -> sim st1 st2 ->
  snd (run rho1 st1 h) = false -> snd (run rho2 st2 h) = false -> fst (run rho1 st1 h) = fst (run rho2 st2 h).
Proof.
  intros rho1 rho2 h. induction h as [|o h IH]; intros st1 st2 Hcov Hsim U1 U2.
  - reflexivity.
  - cbn [forallb] in Hcov. apply andb_true_iff in Hcov as [Hco Hch].
    cbn [run] in U1, U2 |- *.
    destruct (step rho1 st1 o) as [[st1' out1] u1] eqn:E1.
    destruct (step rho2 st2 o) as [[st2' out2] u2] eqn:E2.
    destruct (run rho1 st1' h) as [outs1 us1] eqn:R1.
    destruct (run rho2 st2' h) as [outs2 us2] eqn:R2.
    cbn [fst snd] in U1, U2 |- *.
    apply orb_false_iff in U1 as [-> ->]. apply orb_false_iff in U2 as [-> ->].
    destruct (step_sim rho1 rho2 st1 st2 o st1' out1 st2' out2 Hco Hsim E1 E2) as [Hsim' ->].
    specialize (IH st1' st2' Hch Hsim'). rewrite R1, R2 in IH. cbn [fst snd] in IH.
    rewrite (IH eq_refl eq_refl). reflexivity.
Qed.

Theorem dense_sparse_interchangeable_covered : forall rho1 rho2 h, forallb covered h = true ->
  unsafe rho1 h = false -> unsafe rho2 h = false -> outputs rho1 h = outputs rho2 h.
Proof.
  intros rho1 rho2 h Hcov U1 U2. unfold outputs, unsafe in *.
  apply run_sim; [exact Hcov | apply sim_init | exact U1 | exact U2].
Qed.

(* ================================================================== *)
(* PART C.5 -- (formerly: the excluded combinations; both are repaired)   *)
(* ================================================================== *)



(* ================================================================== *)
(* PART C.6                                                            *)
(* ================================================================== *)

Theorem unstored_reads_zero : forall s i, s_mem i (sents s) = false -> s_get i s = 0.
Proof.
  intros s i. unfold s_get. generalize (sents s) as l.
  intro l; induction l as [|[k v] l IH]; intro H; cbn [s_lookup]; [reflexivity|].
  cbn [s_mem] in H. apply orb_false_iff in H as [Hk Hm].
  rewrite Hk. apply IH. exact Hm.
Qed.

(* ================================================================== *)
(* PART C.7 -- every operation is covered: the unconditional theorem    *)
(* ================================================================== *)

Transparent covered_u covered_b covered_o1 covered_o2 covered_copy covered_copy_sized.

Lemma covered_all : forall o, covered o = true.
Proof. intros [r n | r u | r s b | r o | r s o | r s | r s n]; reflexivity. Qed.

Lemma forallb_covered_all : forall h, forallb covered h = true.
Proof.
  intro h; induction h as [|o h IH]; cbn [forallb]; [reflexivity|].
  rewrite covered_all, IH. reflexivity.
Qed.

Theorem dense_sparse_interchangeable : forall rho1 rho2 h,
  unsafe rho1 h = false -> unsafe rho2 h = false -> outputs rho1 h = outputs rho2 h.
Proof.
  intros rho1 rho2 h U1 U2.
  apply dense_sparse_interchangeable_covered; [apply forallb_covered_all | exact U1 | exact U2].
Qed.

(* ================================================================== *)
(* PART C.8 -- no operation is unsafe any more                          *)
(* ================================================================== *)

Lemma step_never_unsafe : forall rho st o, snd (step rho st o) = false.
Proof.
  intros rho st o. destruct o; cbn [step bop_unsafe copy_unsafe];
    repeat match goal with |- context [if ?c then _ else _] => destruct c end; reflexivity.
Qed.
Lemma run_never_unsafe : forall rho h st, snd (run rho st h) = false.
Proof.
  intros rho h. induction h as [|o r IH]; intros st; cbn [run]; [reflexivity|].
  pose proof (step_never_unsafe rho st o) as Hs.
  destruct (step rho st o) as [[st' out] u]. cbn [snd] in Hs. subst u.
  specialize (IH st'). destruct (run rho st' r) as [outs us]. cbn [snd] in IH. subst us. reflexivity.
Qed.
Theorem dense_sparse_interchangeable_all : forall rho1 rho2 h, outputs rho1 h = outputs rho2 h.
Proof.
  intros rho1 rho2 h. apply dense_sparse_interchangeable; unfold unsafe; apply run_never_unsafe.
Qed.
