(* C16 -- specification side of the CO_Tree model: the ordered finite map, the operation language,
   the invariant.  Definitions only (the proofs are in COTreeBase.v / COTreeSearch.v / COTreeUpdate.v). *)
From Coq Require Import ZArith NArith List Lia Bool FMapPositive Sorted.
Import ListNotations.
Require Import PPLV.gen.Facts_COTree PPLV.Rows.COTree.
Local Open Scope N_scope.

(* ---- the ordered finite map: a list of (key, datum) with strictly increasing keys ---- *)
Definition omap := list entry.
Definition key_lt (e1 e2 : entry) : Prop := fst e1 < fst e2.
Definition sorted (m : omap) : Prop := StronglySorted key_lt m.

Fixpoint m_insert (k : N) (v : Z) (m : omap) : omap :=
  match m with
  | [] => [(k, v)]
  | (k', v') :: r => if k <? k' then (k, v) :: m
                     else if k =? k' then (k, v) :: r
                     else (k', v') :: m_insert k v r
  end.
(* insert(key) without datum: an existing datum is kept, a new one is 0 *)
Fixpoint m_insert_key (k : N) (m : omap) : omap :=
  match m with
  | [] => [(k, 0%Z)]
  | (k', v') :: r => if k <? k' then (k, 0%Z) :: m
                     else if k =? k' then m
                     else (k', v') :: m_insert_key k r
  end.
Fixpoint m_erase (k : N) (m : omap) : omap :=
  match m with
  | [] => []
  | (k', v') :: r => if k =? k' then r else (k', v') :: m_erase k r
  end.
Fixpoint m_find (k : N) (m : omap) : option Z :=
  match m with
  | [] => None
  | (k', v') :: r => if k =? k' then Some v' else m_find k r
  end.
Definition m_shift_up (k n : N) (m : omap) : omap :=
  map (fun e => if k <=? fst e then (fst e + n, snd e) else e) m.
Definition m_erase_shift (k : N) (m : omap) : omap :=
  map (fun e => if k <? fst e then (fst e - 1, snd e) else e) (m_erase k m).
(* the first entry with key >= k *)
Fixpoint m_lower_bound (k : N) (m : omap) : option entry :=
  match m with
  | [] => None
  | e :: r => if k <=? fst e then Some e else m_lower_bound k r
  end.

(* ---- operations; hints and positions are raw slot numbers, made valid as the harness does ---- *)
Definition resolve_hint (t : tree) (raw : N) : N :=
  if t_size t =? 0 then t_end t
  else scan_up (fuel_of (t_rsz t)) (t_arr t) (t_rsz t) (N.max 1 (N.min raw (t_end t))).

Inductive top : Type :=
| OpInsert (k : N) (v : Z)                       (* insert(key, data) *)
| OpInsertKey (k : N)                            (* insert(key) *)
| OpInsertHint (raw : N) (k : N) (d : option Z)  (* insert(itr, key [, data]) *)
| OpErase (k : N)                                (* erase(key) *)
| OpErasePos (raw : N)                           (* erase(itr), no-op at end() *)
| OpShiftUp (k n : N)                            (* increase_keys_from(key, n) *)
| OpEraseShift (k : N).                          (* erase_element_and_shift_left(key) *)

Definition step_tree (t : tree) (o : top) : tree :=
  match o with
  | OpInsert k v => fst (insert t k v)
  | OpInsertKey k => fst (insert_key t k)
  | OpInsertHint raw k d => fst (insert_hint t (resolve_hint t raw) k d)
  | OpErase k => fst (erase_key t k)
  | OpErasePos raw => let p := resolve_hint t raw in if p =? t_end t then t else fst (erase_pos t p)
  | OpShiftUp k n => increase_keys_from t k n
  | OpEraseShift k => erase_element_and_shift_left t k
  end.

(* the key stored at a (valid) position of the map, counted through the tree *)
Definition step_map (t : tree) (m : omap) (o : top) : omap :=
  match o with
  | OpInsert k v => m_insert k v m
  | OpInsertKey k => m_insert_key k m
  | OpInsertHint _ k (Some v) => m_insert k v m
  | OpInsertHint _ k None => m_insert_key k m
  | OpErase k => m_erase k m
  | OpErasePos raw => let p := resolve_hint t raw in
                      if p =? t_end t then m else m_erase (key_at (t_arr t) p) m
  | OpShiftUp k n => m_shift_up k n m
  | OpEraseShift k => m_erase_shift k m
  end.

Definition run_tree (ops : list top) : tree := fold_left step_tree ops empty_tree.
(* the map run in lock step (the tree is consulted only to translate an iterator into its key) *)
Fixpoint run_both (ops : list top) (t : tree) (m : omap) : tree * omap :=
  match ops with
  | [] => (t, m)
  | o :: r => run_both r (step_tree t o) (step_map t m o)
  end.
Definition run_map (ops : list top) : omap := snd (run_both ops empty_tree []).

(* precondition of OpShiftUp / OpEraseShift in the code: none; of OpInsert*: key != unused_index (all N are) *)

(* ---- invariant (map level, without densities) ---- *)
Definition in_range (t : tree) : Prop := forall i, aget (t_arr t) i <> None -> 1 <= i <= t_rsz t.
(* an unused node has an unused subtree (go_down_searching_key and erase rely on it) *)
Definition shape (t : tree) : Prop :=
  forall i j, 1 <= i <= t_rsz t -> aget (t_arr t) i = None ->
              i - (lowbit i - 1) <= j <= i + (lowbit i - 1) -> aget (t_arr t) j = None.
Definition inv (t : tree) : Prop :=
  in_range t /\ shape t /\ sorted (abs_tree t) /\ N.of_nat (length (abs_tree t)) = t_size t /\
  ((t_rsz t = 0 /\ t_depth t = 0) \/ (2 <= t_depth t /\ t_rsz t = 2 ^ t_depth t - 1 /\ 0 < t_size t)).

(* densities: what CO_Tree::OK() checks in addition to structure_OK() *)
Definition dens (t : tree) : Prop :=
  t_rsz t = 0 \/
  ((gt_ratio (t_size t) (t_rsz t) max_density_percent = false \/ t_rsz t = 3) /\
   (lt_ratio (t_size t) (t_rsz t) min_density_percent = false
    \/ gt_ratio (t_size t) (t_rsz t / 2) max_density_percent = true)).
Definition inv_full (t : tree) : Prop := inv t /\ dens t.
