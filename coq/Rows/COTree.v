(* C16 -- executable model of PPL's CO_Tree (src/CO_Tree.cc, CO_Tree_inlines.hh, CO_Tree_templates.hh).

   The tree is a complete binary tree stored in DFS in-order layout in two parallel arrays
   indexes[0..reserved_size+1], data[1..reserved_size]; indexes[i] == unused_index marks a free slot,
   indexes[0] and indexes[reserved_size+1] are markers (value 0, i.e. "not unused").
   Here: one finite map  slot -> (key, datum)  (absent = unused_index), reserved_size, max_depth, size_.
   Slots and keys are binary naturals (N); loops of the C++ code are recursion on explicit fuel.
   Every function below follows the C++ function of the same name statement by statement
   (the explicit stacks of redistribute_elements_in_subtree / move_data_from / the iterator constructor
   are written as the in-order recursion they implement).  The density constants come from
   gen/Facts_COTree.v, regenerated from CO_Tree_defs.hh on every run. *)
From Coq Require Import ZArith NArith List Lia Bool FMapPositive.
Import ListNotations.
Require Import PPLV.gen.Facts_COTree.
Local Open Scope N_scope.

Definition entry := (N * Z)%type.
Definition arr := PositiveMap.t entry.

Definition aget (a : arr) (i : N) : option entry :=
  match i with N0 => None | Npos p => PositiveMap.find p a end.
Definition aset (a : arr) (i : N) (e : entry) : arr :=
  match i with N0 => a | Npos p => PositiveMap.add p e a end.
Definition aclr (a : arr) (i : N) : arr :=
  match i with N0 => a | Npos p => PositiveMap.remove p a end.

Record tree := mkT { t_arr : arr; t_rsz : N; t_depth : N; t_size : N }.
Definition empty_tree : tree := mkT (PositiveMap.empty entry) 0 0 0.

(* indexes[i] == unused_index ; the two markers are not unused *)
Definition unused (a : arr) (R i : N) : bool :=
  (1 <=? i) && (i <=? R) && match aget a i with None => true | Some _ => false end.

Definition key_at (a : arr) (i : N) : N := match aget a i with Some (k, _) => k | None => 0 end.
Definition dat_at (a : arr) (i : N) : Z := match aget a i with Some (_, d) => d | None => 0%Z end.

(* while (indexes[i] == unused_index) --i;   /  ++i; *)
Fixpoint scan_down (f : nat) (a : arr) (R i : N) : N :=
  match f with O => i | S f' => if unused a R i then scan_down f' a R (i - 1) else i end.
Fixpoint scan_up (f : nat) (a : arr) (R i : N) : N :=
  match f with O => i | S f' => if unused a R i then scan_up f' a R (i + 1) else i end.

Definition fuel_of (R : N) : nat := N.to_nat (R + 2).

(* least_significant_one_mask *)
Fixpoint lowbit_pos (p : positive) : N := match p with xO q => 2 * lowbit_pos q | _ => 1 end.
Definition lowbit (i : N) : N := match i with N0 => 0 | Npos p => lowbit_pos p end.

(* tree_iterator = (i, offset) *)
Definition titer := (N * N)%type.
Definition it_root (R : N) : titer := (R / 2 + 1, R / 2 + 1).
Definition it_left (it : titer) : titer := let '(i, o) := it in (i - o / 2, o / 2).
Definition it_right (it : titer) : titer := let '(i, o) := it in (i + o / 2, o / 2).
Definition it_parent (it : titer) : titer := let '(i, o) := it in (N.lor (N.ldiff i o) (2 * o), 2 * o).
Definition it_is_root (R : N) (it : titer) : bool := snd it =? R / 2 + 1.
Definition it_is_right_child (R : N) (it : titer) : bool :=
  if it_is_root R it then false else negb (N.land (fst it) (2 * snd it) =? 0).
Definition it_is_leaf (it : titer) : bool := snd it =? 1.
Definition it_depth (R : N) (it : titer) : N := N.log2 ((R + 1) / snd it).
Definition it_of (i : N) : titer := (i, lowbit i).

(* tree_iterator::go_down_searching_key *)
Fixpoint go_down (f : nat) (a : arr) (R : N) (it : titer) (key : N) : titer :=
  match f with
  | O => it
  | S f' =>
    if it_is_leaf it then it else
    let ki := key_at a (fst it) in
    if key =? ki then it else
    let c := if key <? ki then it_left it else it_right it in
    if unused a R (fst c) then it else go_down f' a R c key
  end.

Fixpoint count_used (n : nat) (a : arr) (i : N) : N :=
  match n with
  | O => 0
  | S n' => (match aget a i with Some _ => 1 | None => 0 end) + count_used n' a (i + 1)
  end.
Definition count_used_in_subtree (a : arr) (it : titer) : N :=
  count_used (N.to_nat (2 * snd it - 1)) a (fst it - (snd it - 1)).

Definition gt_ratio (n d r : N) : bool := r * d <? 100 * n.     (* is_greater_than_ratio *)
Definition lt_ratio (n d r : N) : bool := 100 * n <? r * d.     (* is_less_than_ratio *)

(* the loop condition of rebalance *)
Definition reb_cond (ss sres d1 md : N) : bool :=
  gt_ratio ss sres (max_density_percent + (d1 * (100 - max_density_percent)) / (md - 1))
  || lt_ratio ss sres (min_density_percent
                       - (d1 * (min_density_percent - min_leaf_density_percent)) / (md - 1)).

(* the while loop of rebalance: climb until the density of the subtree is acceptable.
   (At the root the C++ asserts the condition is false; the model stops there.) *)
Fixpoint climb (f : nat) (a : arr) (R md : N) (it : titer) (ss sres d1 : N) : titer * N :=
  match f with
  | O => (it, ss)
  | S f' =>
    if reb_cond ss sres d1 md && negb (d1 =? 0) then
      let isr := it_is_right_child R it in
      let p := it_parent it in
      let sib := if isr then it_left p else it_right p in
      climb f' a R md p (ss + count_used_in_subtree a sib + 1) (2 * sres + 1) (d1 - 1)
    else (it, ss)
  end.

Definition move_slot (a : arr) (from to : N) : arr :=
  if from =? to then a else
  match aget a from with Some e => aclr (aset a to e) from | None => a end.

(* second while loop of compact_elements_in_the_rightmost_end *)
Fixpoint compact2 (f fR : nat) (a : arr) (R last fu ss : N) : arr * N :=
  match f with
  | O => (a, fu)
  | S f' =>
    if ss =? 0 then (a, fu) else
    let a' := move_slot a last fu in
    compact2 f' fR a' R (scan_down fR a' R (last - 1)) (fu - 1) (ss - 1)
  end.

(* first while loop (add_element) *)
Fixpoint compact1 (f fR : nat) (a : arr) (R key : N) (val : Z) (last fu ss : N) : arr * N :=
  match f with
  | O => (a, fu)
  | S f' =>
    if ss =? 0 then (a, fu) else
    let ss := ss - 1 in
    if (last =? 0) || (key_at a last <? key) then
      if (last =? 0) || negb (last =? fu)
      then compact2 f' fR (aset a fu (key, val)) R last (fu - 1) ss
      else compact2 f' fR a R last fu ss
    else
      let a' := move_slot a last fu in
      compact1 f' fR a' R key val (scan_down fR a' R (last - 1)) (fu - 1) ss
  end.

Definition compact (fR : nat) (a : arr) (R last_in ss key : N) (val : Z) (add : bool) : arr * N :=
  let last := scan_down fR a R last_in in
  if add then compact1 fR fR a R key val last last_in ss
  else compact2 fR fR a R last last_in ss.

(* one visit "top_n == 1" of redistribute_elements_in_subtree; state = (array, last_used, add_element) *)
Definition redis_one (R key : N) (val : Z) (i : N) (st : arr * N * bool) : arr * N * bool :=
  let '(a, lu, add) := st in
  if add && ((R <? lu) || match aget a lu with None => true | Some (k, _) => key <? k end)
  then (aset a i (key, val), lu, false)
  else (move_slot a lu i, lu + 1, add).

Fixpoint redis (f : nat) (R key : N) (val : Z) (n i : N) (st : arr * N * bool) : arr * N * bool :=
  match f with
  | O => st
  | S f' =>
    if n =? 0 then st else
    if n =? 1 then redis_one R key val i st else
    let off := lowbit i / 2 in
    let half := (n + 1) / 2 in
    let st1 := redis f' R key val (half - 1) (i - off) st in
    let st2 := redis_one R key val i st1 in
    redis f' R key val (n - half) (i + off) st2
  end.

Definition rebalance (fR : nat) (a : arr) (R md : N) (it : titer) (key : N) (val : Z) : arr * titer :=
  if R =? 3 then (a, it_root R) else
  let deleting := match aget a (fst it) with None => true | Some _ => false end in
  let d1 := it_depth R it - 1 in
  let height := md - d1 in
  let '(it', ss) := climb (S (N.to_nat md)) a R md it (if deleting then 0 else 2) (2 ^ height - 1) d1 in
  let last_in := fst it' + snd it' - 1 in
  let '(a1, fu) := compact fR a R last_in ss key val (negb deleting) in
  let '(a2, _, _) := redis fR R key val ss (fst it') (a1, fu + 1, negb (fu =? last_in - ss)) in
  (a2, it').

(* rebuild_bigger_tree: slot i moves to slot 2i *)
Definition rebuild_bigger (t : tree) : tree :=
  if t_rsz t =? 0 then mkT (PositiveMap.empty entry) 3 2 0
  else mkT (PositiveMap.fold (fun p e acc => PositiveMap.add (xO p) e acc) (t_arr t) (PositiveMap.empty entry))
           (2 * t_rsz t + 1) (t_depth t + 1) (t_size t).

Definition insert_precise_aux (t : tree) (key : N) (val : Z) (it : titer) : tree * N :=
  let '(t1, it1) :=
    if gt_ratio (t_size t + 1) (t_rsz t) max_density_percent then
      let t' := rebuild_bigger t in
      (t', go_down (fuel_of (t_rsz t')) (t_arr t') (t_rsz t') (it_root (t_rsz t')) key)
    else (t, it) in
  let R := t_rsz t1 in
  let a := t_arr t1 in
  let fR := fuel_of R in
  let sz := t_size t1 + 1 in
  if negb (it_is_leaf it1) then
    let c := if key <? key_at a (fst it1) then it_left it1 else it_right it1 in
    (mkT (aset a (fst c) (key, val)) R (t_depth t1) sz, fst c)
  else
    let '(a2, it2) := rebalance fR a R (t_depth t1) it1 key val in
    let it3 := go_down fR a2 R it2 key in
    (mkT a2 R (t_depth t1) sz, fst it3).

Definition insert_precise (t : tree) (key : N) (val : Z) (it : titer) : tree * N :=
  if key_at (t_arr t) (fst it) =? key
  then (mkT (aset (t_arr t) (fst it) (key, val)) (t_rsz t) (t_depth t) (t_size t), fst it)
  else insert_precise_aux t key val it.

Definition insert_in_empty (key : N) (val : Z) : tree :=
  let t := rebuild_bigger empty_tree in
  mkT (aset (t_arr t) (fst (it_root (t_rsz t))) (key, val)) (t_rsz t) (t_depth t) 1.

Definition t_begin (t : tree) : N :=
  if t_size t =? 0 then 1 else scan_up (fuel_of (t_rsz t)) (t_arr t) (t_rsz t) 1.
Definition t_end (t : tree) : N := t_rsz t + 1.

Definition root_search (t : tree) (key : N) : titer :=
  go_down (fuel_of (t_rsz t)) (t_arr t) (t_rsz t) (it_root (t_rsz t)) key.

(* CO_Tree::insert(key, data) *)
Definition insert (t : tree) (key : N) (val : Z) : tree * N :=
  if t_size t =? 0 then let t' := insert_in_empty key val in (t', fst (it_root (t_rsz t')))
  else insert_precise t key val (root_search t key).

(* CO_Tree::insert(key): existing datum kept, a new one is zero *)
Definition insert_key (t : tree) (key : N) : tree * N :=
  if t_size t =? 0 then insert t key 0%Z
  else let it := root_search t key in
       if key_at (t_arr t) (fst it) =? key then (t, fst it) else insert_precise t key 0%Z it.

(* init(n) followed by the balanced fill used by CO_Tree(Iterator, n) and move_data_from *)
Definition fill_one (i : N) (st : arr * list entry) : arr * list entry :=
  match snd st with e :: l' => (aset (fst st) i e, l') | [] => st end.
Fixpoint fill (f : nat) (n : N) (it : titer) (st : arr * list entry) : arr * list entry :=
  match f with
  | O => st
  | S f' =>
    if n =? 0 then st else
    if n =? 1 then fill_one (fst it) st else
    let half := (n + 1) / 2 in
    let st1 := fill f' (half - 1) (it_left it) st in
    let st2 := fill_one (fst it) st1 in
    fill f' (n - half) (it_right it) st2
  end.

Definition init_tree (n : N) : tree :=
  if n =? 0 then empty_tree
  else let md := N.log2 n + 1 in mkT (PositiveMap.empty entry) (2 ^ md - 1) md 0.

Definition filled (R : N) (l : list entry) : tree :=
  let t0 := init_tree R in
  let n := N.of_nat (length l) in
  let '(a, _) := fill (fuel_of (t_rsz t0)) n (it_root (t_rsz t0)) (t_arr t0, l) in
  mkT a (t_rsz t0) (t_depth t0) n.

(* CO_Tree(Iterator i, n) *)
Definition of_list (l : list entry) : tree :=
  let n := N.of_nat (length l) in
  if n =? 0 then empty_tree else
  let R := 2 ^ (N.log2 n + 1) - 1 in
  let R := if gt_ratio n R max_density_percent && negb (R =? 3) then 2 * R + 1 else R in
  filled R l.

Fixpoint used_from (f : nat) (a : arr) (i : N) : list entry :=
  match f with
  | O => []
  | S f' => match aget a i with Some e => e :: used_from f' a (i + 1) | None => used_from f' a (i + 1) end
  end.
(* the abstraction: in-order (= array order) list of the used slots *)
Definition abs_tree (t : tree) : list entry := used_from (N.to_nat (t_rsz t)) (t_arr t) 1.

Definition rebuild_smaller (t : tree) : tree := filled (t_rsz t / 2) (abs_tree t).

Definition swap_slots (a : arr) (i j : N) : arr :=
  match aget a i, aget a j with
  | Some ei, Some ej => aset (aset a i ej) j ei
  | _, _ => a
  end.

(* the while(true) loop of erase(tree_iterator): the hole moves down *)
Fixpoint hole_down (f fR : nat) (a : arr) (R : N) (it : titer) : arr * titer :=
  match f with
  | O => (a, it)
  | S f' =>
    if it_is_leaf it then (a, it) else
    let l := it_left it in
    let c := if negb (unused a R (fst l)) then Some (scan_down fR a R (fst l + (snd l - 1)))
             else let r := it_right it in
                  if negb (unused a R (fst r)) then Some (scan_up fR a R (fst r - (snd r - 1)))
                  else None in
    match c with
    | None => (a, it)
    | Some p => hole_down f' fR (swap_slots a (fst it) p) R (it_of p)
    end
  end.

(* CO_Tree::erase(tree_iterator); returns the new tree and the dfs index of the returned iterator *)
Definition erase_it (t : tree) (it : titer) : tree * N :=
  if t_size t =? 1 then (empty_tree, 1) else
  let '(t1, it1) :=
    if lt_ratio (t_size t - 1) (t_rsz t) min_density_percent
       && negb (gt_ratio (t_size t - 1) (t_rsz t / 2) max_density_percent)
    then let key := key_at (t_arr t) (fst it) in
         let t' := rebuild_smaller t in (t', root_search t' key)
    else (t, it) in
  let R := t_rsz t1 in
  let fR := fuel_of R in
  let dkey := key_at (t_arr t1) (fst it1) in
  let '(a2, it2) := hole_down fR fR (t_arr t1) R it1 in
  let a3 := aclr a2 (fst it2) in
  let '(a4, it4) := rebalance fR a3 R (t_depth t1) it2 0 0%Z in
  let it5 := if snd it4 <? snd it1 then it1 else it4 in
  let it6 := go_down fR a4 R it5 dkey in
  let res := if key_at a4 (fst it6) <? dkey then scan_up fR a4 R (fst it6 + 1) else fst it6 in
  (mkT a4 R (t_depth t1) (t_size t1 - 1), res).

(* CO_Tree::erase(key) *)
Definition erase_key (t : tree) (key : N) : tree * N :=
  if t_size t =? 0 then (t, t_end t) else
  let it := root_search t key in
  if key_at (t_arr t) (fst it) =? key then erase_it t it
  else (t, if key_at (t_arr t) (fst it) <? key
           then scan_up (fuel_of (t_rsz t)) (t_arr t) (t_rsz t) (fst it + 1) else fst it).

(* CO_Tree::erase(iterator) *)
Definition erase_pos (t : tree) (p : N) : tree * N := erase_it t (it_of p).

Fixpoint decr_loop (f : nat) (a : arr) (R p : N) : arr :=
  match f with
  | O => a
  | S f' => if R <? p then a else
            decr_loop f' (match aget a p with Some (k, d) => aset a p (k - 1, d) | None => a end) R (p + 1)
  end.

Definition erase_element_and_shift_left (t : tree) (key : N) : tree :=
  let '(t', p) := erase_key t key in
  if p =? t_end t' then t'
  else mkT (decr_loop (fuel_of (t_rsz t')) (t_arr t') (t_rsz t') p) (t_rsz t') (t_depth t') (t_size t').

Fixpoint incr_loop (f fR : nat) (a : arr) (R p key n : N) : arr :=
  match f with
  | O => a
  | S f' =>
    if p =? 0 then a else
    match aget a p with
    | Some (k, d) => if key <=? k then incr_loop f' fR (aset a p (k + n, d)) R (scan_down fR a R (p - 1)) key n
                     else a
    | None => a
    end
  end.

Definition increase_keys_from (t : tree) (key n : N) : tree :=
  if t_size t =? 0 then t else
  let R := t_rsz t in
  let fR := fuel_of R in
  mkT (incr_loop fR fR (t_arr t) R (scan_down fR (t_arr t) R R) key n) R (t_depth t) (t_size t).

(* CO_Tree::fast_shift *)
Definition fast_shift (t : tree) (i p : N) : tree :=
  mkT (aset (t_arr t) p (i, dat_at (t_arr t) p)) (t_rsz t) (t_depth t) (t_size t).

(* CO_Tree::bisect_in(first, last, key) on dfs indexes *)
Fixpoint bisect_in (f fR : nat) (a : arr) (R first last key : N) : N :=
  match f with
  | O => last
  | S f' =>
    if first <? last then
      let half := (first + last) / 2 in
      let nh := scan_up fR a R half in
      let k := key_at a nh in
      if k =? key then nh
      else if key <? k then bisect_in f' fR a R first (scan_down fR a R half) key
      else bisect_in f' fR a R (scan_up fR a R (nh + 1)) last key
    else last
  end.

(* the two while(true) loops of bisect_near; inl = returned directly, inr (hint, new_hint) = break *)
Fixpoint near_before (f fR : nat) (a : arr) (R hint offset key : N) : N + N * N :=
  match f with
  | O => inl hint
  | S f' =>
    if hint <=? offset then
      let h := scan_up fR a R 1 in
      if key <=? key_at a h then inl h else inr (h, hint)
    else
      let nh := scan_up fR a R (hint - offset) in
      if key_at a nh =? key then inl nh
      else if key_at a nh <? key then inr (nh, hint)
      else near_before f' fR a R nh (2 * offset) key
  end.
Fixpoint near_after (f fR : nat) (a : arr) (R hint offset key : N) : N + N * N :=
  match f with
  | O => inl hint
  | S f' =>
    if R <? hint + offset then
      let nh := scan_down fR a R R in
      if key_at a nh <=? key then inl nh else inr (hint, nh)
    else
      let nh := scan_down fR a R (hint + offset) in
      if key_at a nh =? key then inl nh
      else if key <? key_at a nh then inr (hint, nh)
      else near_after f' fR a R nh (2 * offset) key
  end.

Definition bisect_near_idx (a : arr) (R hint key : N) : N :=
  let fR := fuel_of R in
  if key_at a hint =? key then hint else
  let r := if key <? key_at a hint then near_before fR fR a R hint 1 key
           else near_after fR fR a R hint 1 key in
  match r with
  | inl p => p
  | inr (h, nh) =>
    let h := scan_up fR a R (h + 1) in
    if h =? nh then h else
    let nh := scan_down fR a R (nh - 1) in
    bisect_in fR fR a R h nh key
  end.

(* CO_Tree::bisect(key) *)
Definition bisect (t : tree) (key : N) : N :=
  if t_size t =? 0 then t_end t else
  let fR := fuel_of (t_rsz t) in
  bisect_in fR fR (t_arr t) (t_rsz t) (t_begin t) (scan_down fR (t_arr t) (t_rsz t) (t_rsz t)) key.

(* CO_Tree::bisect_near(iterator hint, key) *)
Definition bisect_near (t : tree) (hint key : N) : N :=
  if hint =? t_end t then bisect t key else bisect_near_idx (t_arr t) (t_rsz t) hint key.

(* CO_Tree::insert(iterator itr, key [, data]); dat = None is the overload without data *)
Definition insert_hint (t : tree) (hint key : N) (dat : option Z) : tree * N :=
  let val := match dat with Some d => d | None => 0%Z end in
  if t_size t =? 0 then let t' := insert_in_empty key val in (t', t_begin t') else
  if hint =? t_end t then
    match dat with Some d => insert t key d | None => insert_key t key end
  else
  let a := t_arr t in
  let R := t_rsz t in
  let fR := fuel_of R in
  let c1 := bisect_near_idx a R hint key in
  if key =? key_at a c1 then
    match dat with
    | Some d => (mkT (aset a c1 (key, d)) R (t_depth t) (t_size t), c1)
    | None => (t, c1)
    end
  else
  let c2 := if key <? key_at a c1 then scan_down fR a R (c1 - 1) else scan_up fR a R (c1 + 1) in
  if (c2 =? 0) || (R <? c2) then insert_precise t key val (it_of c1)
  else if lowbit c1 <? lowbit c2 then insert_precise t key val (it_of c1)
  else insert_precise t key val (it_of c2).

(* ---- iterator helpers used by Sparse_Row ---- *)
Definition next_pos (t : tree) (p : N) : N := scan_up (fuel_of (t_rsz t)) (t_arr t) (t_rsz t) (p + 1).
Definition prev_pos (t : tree) (p : N) : N := scan_down (fuel_of (t_rsz t)) (t_arr t) (t_rsz t) (p - 1).

(* Sparse_Row::lower_bound(i) and lower_bound(hint, i) *)
Definition lower_bound (t : tree) (i : N) : N :=
  let p := bisect t i in
  if p =? t_end t then p else if key_at (t_arr t) p <? i then next_pos t p else p.
Definition lower_bound_near (t : tree) (hint i : N) : N :=
  let p := bisect_near t hint i in
  if p =? t_end t then p else if key_at (t_arr t) p <? i then next_pos t p else p.
(* Sparse_Row::find *)
Definition find (t : tree) (i : N) : N :=
  let p := bisect t i in
  if negb (p =? t_end t) && (key_at (t_arr t) p =? i) then p else t_end t.
Definition find_near (t : tree) (hint i : N) : N :=
  let p := bisect_near t hint i in
  if negb (p =? t_end t) && (key_at (t_arr t) p =? i) then p else t_end t.
Definition get (t : tree) (i : N) : Z :=
  if t_size t =? 0 then 0%Z else
  let p := find t i in if p =? t_end t then 0%Z else dat_at (t_arr t) p.

(* structure_OK / OK of CO_Tree.cc as a boolean *)
Fixpoint sorted_keys (l : list entry) : bool :=
  match l with
  | (k1, _) :: ((k2, _) :: _) as r => (k1 <? k2) && sorted_keys r
  | _ => true
  end.
Definition tree_ok (t : tree) : bool :=
  let R := t_rsz t in
  (t_size t <=? R) &&
  (if R =? 0 then (t_depth t =? 0) else
   (3 <=? R) && (R =? 2 ^ t_depth t - 1) && negb (t_depth t =? 0) &&
   (if t_size t =? 0 then unused (t_arr t) R (fst (it_root R))
    else N.of_nat (length (abs_tree t)) =? t_size t) &&
   sorted_keys (abs_tree t) &&
   negb (gt_ratio (t_size t) R max_density_percent && negb (R =? 3)) &&
   negb (lt_ratio (t_size t) R min_density_percent
         && negb (gt_ratio (t_size t) (R / 2) max_density_percent))).

(* the slot array printed slot by slot: None = unused_index *)
Definition layout (t : tree) : list (option entry) :=
  map (fun i => aget (t_arr t) (N.of_nat i)) (seq 1 (N.to_nat (t_rsz t))).
