(* C16 -- Sparse_Row / Linear_Expression_Impl<Sparse_Row> at the level of the ordered map:
   a size and a strictly sorted association list index -> coefficient.  Explicit zeroes may be stored
   (Sparse_Row allows them; Linear_Expression_Impl<Sparse_Row>::OK() forbids them, and several of its
   observers -- all_zeroes, num_zeroes, gcd, first/last_nonzero, iteration -- are only right without them). *)
From Coq Require Import ZArith List Lia Bool Arith Sorted.
Import ListNotations.
Require Import PPLV.Rows.Abs.
Local Open Scope Z_scope.

Definition sent := (nat * Z)%type.
Record srow := mkSR { ssize : nat; sents : list sent }.

Fixpoint s_lookup (i : nat) (l : list sent) : Z :=
  match l with [] => 0 | (k, v) :: r => if (k =? i)%nat then v else s_lookup i r end.
Fixpoint s_mem (i : nat) (l : list sent) : bool :=
  match l with [] => false | (k, _) :: r => (k =? i)%nat || s_mem i r end.
Definition abs_s (s : srow) : arow := mkA (ssize s) (fun i => s_lookup i (sents s)).

Definition s_sorted (l : list sent) : Prop := StronglySorted (fun a b => (fst a < fst b)%nat) l.
Definition s_wf (s : srow) : Prop := s_sorted (sents s) /\ Forall (fun e => (fst e < ssize s)%nat) (sents s).
Definition s_nz (s : srow) : Prop := Forall (fun e => snd e <> 0) (sents s).   (* no stored zero *)

(* tree.insert(i, v) / tree.erase(i) at the map level *)
Fixpoint l_insert (i : nat) (v : Z) (l : list sent) : list sent :=
  match l with
  | [] => [(i, v)]
  | (k, w) :: r => if (i <? k)%nat then (i, v) :: l
                   else if (i =? k)%nat then (i, v) :: r
                   else (k, w) :: l_insert i v r
  end.
Definition l_erase (i : nat) (l : list sent) : list sent := filter (fun e => negb (fst e =? i)%nat) l.

Definition s_zero (n : nat) : srow := mkSR n [].
Definition s_get (i : nat) (s : srow) : Z := s_lookup i (sents s).
(* Linear_Expression_Impl::set: reset when zero, insert otherwise *)
Definition l_set (i : nat) (v : Z) (l : list sent) : list sent :=
  if v =? 0 then l_erase i l else l_insert i v l.
Definition s_set (i : nat) (v : Z) (s : srow) : srow := mkSR (ssize s) (l_set i v (sents s)).
(* itr = row.insert(i); ( *itr ) += v; if zero then row.reset(itr)   (add_mul_assign, +=, -=) *)
Definition s_add (i : nat) (v : Z) (s : srow) : srow :=
  mkSR (ssize s) (l_set i (s_lookup i (sents s) + v) (sents s)).
(* Sparse_Row::swap_coefficients(i, j) *)
Definition s_swap (i j : nat) (s : srow) : srow :=
  let l := sents s in
  if s_mem i l then
    if s_mem j l then mkSR (ssize s) (l_insert j (s_lookup i l) (l_insert i (s_lookup j l) l))
    else mkSR (ssize s) (l_insert j (s_lookup i l) (l_erase i l))
  else
    if s_mem j l then mkSR (ssize s) (l_insert i (s_lookup j l) (l_erase j l))
    else s.
(* add_zeroes_and_shift(n, i) = increase_keys_from(i, n) *)
Definition s_shift (i n : nat) (s : srow) : srow :=
  mkSR (ssize s + n) (map (fun e => if (i <=? fst e)%nat then (fst e + n, snd e)%nat else e) (sents s)).
(* delete_element_and_shift(i) = erase_element_and_shift_left(i) *)
Definition s_delete (i : nat) (s : srow) : srow :=
  mkSR (ssize s - 1) (map (fun e => if (i <? fst e)%nat then (fst e - 1, snd e)%nat else e) (l_erase i (sents s))).
Definition s_resize (n : nat) (s : srow) : srow :=
  mkSR n (if (n <? ssize s)%nat then filter (fun e => (fst e <? n)%nat) (sents s) else sents s).
Definition s_map_range (f : Z -> Z) (first last : nat) (s : srow) : srow :=
  mkSR (ssize s) (map (fun e => if inr first last (fst e) then (fst e, f (snd e)) else e) (sents s)).
Definition s_erase_range (first last : nat) (s : srow) : srow :=
  mkSR (ssize s) (filter (fun e => negb (inr first last (fst e))) (sents s)).
(* mul_assign(c, start, end) *)
Definition s_mul_range (c : Z) (first last : nat) (s : srow) : srow :=
  if c =? 0 then s_erase_range first last s else s_map_range (Z.mul c) first last s.

(* ---- linear_combine(y, c1, c2, start, end), c1 <> 0, c2 <> 0 ---- *)
Definition ys_in (first last : nat) (ys : list sent) : list sent := filter (fun e => inr first last (fst e)) ys.
(* x sparse, y sparse; coeff1 == 1: i = insert(i, j.index()); ( *i ) += ( *j ) * c2; if zero reset *)
Definition lc_one_step (c2 : Z) (l : list sent) (e : sent) : list sent :=
  l_set (fst e) (s_lookup (fst e) l + snd e * c2) l.
(* general case after the stored coefficients of x in the range were multiplied by c1:
   stored in both: sum, reset when zero; stored in y only: inserted (as is, even a stored zero of y) *)
Definition lc_gen_step (c2 : Z) (l : list sent) (e : sent) : list sent :=
  if s_mem (fst e) l then l_set (fst e) (s_lookup (fst e) l + snd e * c2) l
  else l_insert (fst e) (snd e * c2) l.
Definition s_combine_ss (c1 c2 : Z) (first last : nat) (x y : srow) : srow :=
  let ys := ys_in first last (sents y) in
  if c1 =? 1 then mkSR (ssize x) (fold_left (lc_one_step c2) ys (sents x))
  else mkSR (ssize x) (fold_left (lc_gen_step c2) ys (sents (s_map_range (Z.mul c1) first last x))).
(* x sparse, y dense (given as coefficient function): for i in [start,end) ... *)
Definition lc_sd_step (c1 c2 : Z) (y : nat -> Z) (l : list sent) (i : nat) : list sent :=
  if s_mem i l then l_set i (c1 * s_lookup i l + y i * c2) l
  else if y i =? 0 then l else l_insert i (y i * c2) l.
Definition s_combine_sd (c1 c2 : Z) (first last : nat) (x : srow) (y : nat -> Z) : srow :=
  mkSR (ssize x) (fold_left (lc_sd_step c1 c2 y) (seq first (last - first)) (sents x)).

(* ---- linear_combine_lax, the branch c1 == 0, c2 <> 0: the range of x becomes exactly the entries the
   iterator of y visits in the range (every position for a dense y, the stored ones for a sparse y) ---- *)
Definition s_lax0 (c2 : Z) (first last : nat) (x : srow) (visited : list sent) : srow :=
  mkSR (ssize x)
       (fold_left (fun l e => l_insert (fst e) (snd e * c2) l) visited (sents (s_erase_range first last x))).

(* ---- remove_space_dimensions (Sparse specialisation): stored entries of removed columns are reset,
   the others shifted left by the number of removed columns before them ---- *)
Definition s_remove0 (vars : list nat) (s : srow) : srow :=
  mkSR (ssize s - length vars)
       (map (fun e => ((fst e - length (filter (fun v => (v <? fst e)%nat) vars))%nat, snd e))
            (filter (fun e => negb (existsb (Nat.eqb (fst e)) vars)) (sents s))).
(* ... and row.resize(row.size() - num_removed) drops whatever is stored at or beyond the new size
   (nothing, when the row is well formed) *)
Definition s_remove (vars : list nat) (s : srow) : srow :=
  let r := s_remove0 vars s in
  mkSR (ssize r) (filter (fun e => (fst e <? ssize r)%nat) (sents r)).
Definition s_permute (c : list nat) (s : srow) : srow :=
  fold_left (fun r p => s_swap (fst p) (snd p) r) (cycle_swaps c) s.

(* Sparse_Row::normalize *)
Definition s_normalize (s : srow) : srow :=
  let g := fold_left (fun g e => Z.gcd g (snd e)) (sents s) 0 in
  if (g =? 0) || (g =? 1) then s else mkSR (ssize s) (map (fun e => (fst e, snd e / g)) (sents s)).
(* sign_normalize: first stored nonzero with index >= 1 *)
Definition s_sign_normalize (s : srow) : srow :=
  match find (fun e => (1 <=? fst e)%nat && negb (snd e =? 0)) (sents s) with
  | Some e => if snd e <? 0 then mkSR (ssize s) (map (fun e => (fst e, - snd e)) (sents s)) else s
  | None => s
  end.

(* ---- observers, as written in the Sparse specialisations (they look at stored entries only) ---- *)
Definition stored_in (first last : nat) (s : srow) : list sent := ys_in first last (sents s).
Definition s_all_zeroes (first last : nat) (s : srow) : bool :=
  match stored_in first last s with [] => true | _ => false end.
Definition s_num_zeroes (first last : nat) (s : srow) : nat := (last - first) - length (stored_in first last s).
Definition s_gcd (first last : nat) (s : srow) : Z :=
  fold_left (fun g e => Z.gcd g (snd e)) (stored_in first last s) 0.
Definition s_first_nonzero (first last : nat) (s : srow) : nat :=
  match stored_in first last s with e :: _ => fst e | [] => last end.
Definition s_last_nonzero (first last : nat) (s : srow) : nat :=
  match rev (stored_in first last s) with e :: _ => fst e | [] => last end.
Definition s_last_nonzero_all (s : srow) : nat :=
  match rev (sents s) with e :: _ => fst e | [] => 0%nat end.
(* begin() = lower_bound(1), end() = lower_bound(size) *)
Definition s_iter (s : srow) : list sent :=
  filter (fun e => (1 <=? fst e)%nat && (fst e <? ssize s)%nat) (sents s).
