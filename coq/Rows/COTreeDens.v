(* C16 -- the density part of CO_Tree::OK(): `dens` (COTreeSpec.v) depends only on size_ and reserved_size,
   whose evolution under insert / erase is read off the model directly.  The arithmetic uses the actual
   constants of gen/Facts_COTree.v (regenerated from CO_Tree_defs.hh): if they change, this file is re-checked. *)
From Coq Require Import ZArith NArith List Lia Bool FMapPositive.
Import ListNotations.
Require Import PPLV.gen.Facts_COTree PPLV.Rows.COTree PPLV.Rows.COTreeSpec.
Require PPLV.Rows.COTreeStatic.
Local Open Scope N_scope.

(* what the density argument needs from the structural invariant *)
Definition szinv (t : tree) : Prop :=
  (t_rsz t = 0 /\ t_size t = 0) \/
  (exists q, 1 <= q /\ t_rsz t = 2 * q + 1 /\ 1 <= t_size t <= t_rsz t).

Ltac ratio := unfold gt_ratio, lt_ratio, max_density_percent, min_density_percent in *.
Ltac bdestr :=
  repeat match goal with
         | H : (_ <? _) = true |- _ => apply N.ltb_lt in H
         | H : (_ <? _) = false |- _ => apply N.ltb_ge in H
         | H : (_ =? _) = true |- _ => apply N.eqb_eq in H
         | H : (_ =? _) = false |- _ => apply N.eqb_neq in H
         | H : (_ && _) = true |- _ => apply andb_true_iff in H; destruct H
         | H : negb _ = true |- _ => apply negb_true_iff in H
         | H : negb _ = false |- _ => apply negb_false_iff in H
         end.

Lemma half_odd : forall q, (2 * q + 1) / 2 = q.
Proof.
  intros q. symmetry. apply (N.div_unique (2 * q + 1) 2 q 1); lia.
Qed.

(* pure arithmetic: one more element, same capacity *)
Lemma dens_grow_same : forall s q,
  1 <= q -> gt_ratio (s + 1) (2 * q + 1) max_density_percent = false ->
  ((gt_ratio s (2 * q + 1) max_density_percent = false \/ 2 * q + 1 = 3) /\
   (lt_ratio s (2 * q + 1) min_density_percent = false \/ gt_ratio s q max_density_percent = true)) ->
  (gt_ratio (s + 1) (2 * q + 1) max_density_percent = false \/ 2 * q + 1 = 3) /\
  (lt_ratio (s + 1) (2 * q + 1) min_density_percent = false \/ gt_ratio (s + 1) q max_density_percent = true).
Proof.
  intros s q Hq H [_ [Hm | Hm]]; (split; [left; exact H|]); ratio; bdestr.
  - left. apply N.ltb_ge. lia.
  - right. apply N.ltb_lt. lia.
Qed.

(* one more element, capacity doubled because the old one would exceed the maximum density *)
Lemma dens_grow_double : forall s q,
  1 <= q -> s <= 2 * q + 1 ->
  gt_ratio (s + 1) (2 * q + 1) max_density_percent = true ->
  (gt_ratio s (2 * q + 1) max_density_percent = false \/ 2 * q + 1 = 3) ->
  (gt_ratio (s + 1) (2 * (2 * q + 1) + 1) max_density_percent = false \/ 2 * (2 * q + 1) + 1 = 3) /\
  (lt_ratio (s + 1) (2 * (2 * q + 1) + 1) min_density_percent = false
   \/ gt_ratio (s + 1) (2 * q + 1) max_density_percent = true).
Proof.
  intros s q Hq Hs H Hd. split; [left|right; exact H].
  ratio. apply N.ltb_ge. destruct Hd as [Hd|Hd]; bdestr; lia.
Qed.

(* one element fewer, same capacity (the shrink condition was false) *)
Lemma dens_shrink_same : forall s q,
  1 <= q -> 2 <= s ->
  (lt_ratio (s - 1) (2 * q + 1) min_density_percent
   && negb (gt_ratio (s - 1) q max_density_percent)) = false ->
  (gt_ratio s (2 * q + 1) max_density_percent = false \/ 2 * q + 1 = 3) ->
  (gt_ratio (s - 1) (2 * q + 1) max_density_percent = false \/ 2 * q + 1 = 3) /\
  (lt_ratio (s - 1) (2 * q + 1) min_density_percent = false \/ gt_ratio (s - 1) q max_density_percent = true).
Proof.
  intros s q Hq Hs Hc Hd. split.
  - destruct Hd as [Hd|Hd]; [left|right; exact Hd]. ratio. bdestr. apply N.ltb_ge. lia.
  - apply andb_false_iff in Hc. destruct Hc as [Hc|Hc]; [left; exact Hc|right].
    apply negb_false_iff in Hc. exact Hc.
Qed.

(* one element fewer, capacity halved: 2q+1 -> q, where q = 2p+1 *)
Lemma dens_shrink_half : forall s p,
  2 <= s ->
  lt_ratio (s - 1) (2 * (2 * p + 1) + 1) min_density_percent = true ->
  gt_ratio (s - 1) (2 * p + 1) max_density_percent = false ->
  1 <= p /\ s <= 2 * p + 1 /\
  ((lt_ratio s (2 * (2 * p + 1) + 1) min_density_percent = false
    \/ gt_ratio s (2 * p + 1) max_density_percent = true) ->
   (gt_ratio (s - 1) (2 * p + 1) max_density_percent = false \/ 2 * p + 1 = 3) /\
   (lt_ratio (s - 1) (2 * p + 1) min_density_percent = false \/ gt_ratio (s - 1) p max_density_percent = true)).
Proof.
  intros s p Hs H1 H2. ratio. bdestr.
  assert (1 <= p) by lia. split; [assumption|]. split; [lia|].
  intros Hd. split; [left; apply N.ltb_ge; lia|left].
  apply N.ltb_ge. destruct Hd as [Hd|Hd]; bdestr; lia.
Qed.

(* the fresh tree of insert_in_empty: one element, capacity 3 *)
Lemma dens_first : dens (mkT (PositiveMap.empty entry) 3 2 1).
Proof. right. cbn [t_rsz t_size]. split; [right; reflexivity|right]. vm_compute. reflexivity. Qed.

(* ---- size_ / reserved_size after the model's updates ---- *)
Lemma rebuild_bigger_sz : forall t, t_rsz t <> 0 ->
  t_size (rebuild_bigger t) = t_size t /\ t_rsz (rebuild_bigger t) = 2 * t_rsz t + 1.
Proof.
  intros t H. unfold rebuild_bigger. destruct (t_rsz t =? 0) eqn:E; [apply N.eqb_eq in E; contradiction|].
  cbn [t_size t_rsz]. split; reflexivity.
Qed.

Lemma rebalance_it : forall fR a R md it k v a' it', rebalance fR a R md it k v = (a', it') -> True.
Proof. trivial. Qed.

Lemma insert_precise_aux_sz : forall t k v it, t_rsz t <> 0 ->
  let t' := fst (insert_precise_aux t k v it) in
  t_size t' = t_size t + 1 /\
  t_rsz t' = (if gt_ratio (t_size t + 1) (t_rsz t) max_density_percent then 2 * t_rsz t + 1 else t_rsz t).
Proof.
  intros t k v it HR. unfold insert_precise_aux.
  destruct (gt_ratio (t_size t + 1) (t_rsz t) max_density_percent) eqn:G.
  - destruct (rebuild_bigger_sz t HR) as [S1 S2].
    match goal with |- context [go_down ?f ?a ?r ?i ?kk] => generalize (go_down f a r i kk) end.
    intros it1. cbv zeta.
    destruct (negb (it_is_leaf it1)).
    + cbn [fst t_size t_rsz]. rewrite S1, S2. split; reflexivity.
    + destruct (rebalance _ _ _ _ _ _ _) as [a2 it2]. cbn [fst t_size t_rsz]. rewrite S1, S2. split; reflexivity.
  - cbv zeta. destruct (negb (it_is_leaf it)).
    + cbn [fst t_size t_rsz]. split; reflexivity.
    + destruct (rebalance _ _ _ _ _ _ _) as [a2 it2]. cbn [fst t_size t_rsz]. split; reflexivity.
Qed.

Lemma insert_precise_sz : forall t k v it, t_rsz t <> 0 ->
  let t' := fst (insert_precise t k v it) in
  (t_size t' = t_size t /\ t_rsz t' = t_rsz t) \/
  (t_size t' = t_size t + 1 /\
   t_rsz t' = (if gt_ratio (t_size t + 1) (t_rsz t) max_density_percent then 2 * t_rsz t + 1 else t_rsz t)).
Proof.
  intros t k v it HR. unfold insert_precise. destruct (key_at (t_arr t) (fst it) =? k).
  - left. cbn [fst t_size t_rsz]. split; reflexivity.
  - right. apply insert_precise_aux_sz, HR.
Qed.

Lemma dens_after_insert_precise : forall t k v it, szinv t -> t_rsz t <> 0 -> dens t ->
  dens (fst (insert_precise t k v it)) /\ szinv (fst (insert_precise t k v it)).
Proof.
  intros t k v it Hz HR Hd.
  destruct Hz as [[Z _]|[q [Hq [HRq Hs]]]]; [contradiction|].
  destruct Hd as [Z|[Hmax Hmin]]; [contradiction|].
  destruct (insert_precise_sz t k v it HR) as [[S1 S2]|[S1 S2]].
  - split.
    + right. rewrite S1, S2. split; assumption.
    + right. exists q. rewrite S1, S2. repeat split; try assumption; lia.
  - destruct (gt_ratio (t_size t + 1) (t_rsz t) max_density_percent) eqn:G.
    + split.
      * right. rewrite S1, S2, HRq in *. rewrite half_odd.
        apply dens_grow_double; try assumption; lia.
      * right. exists (t_rsz t). rewrite S1, S2. repeat split; lia.
    + split.
      * right. rewrite S1, S2, HRq in *. rewrite half_odd in *.
        apply dens_grow_same; try assumption. split; assumption.
      * right. exists q. rewrite S1, S2. repeat split; try assumption; try lia.
        ratio. bdestr. rewrite HRq in *. lia.
Qed.

Lemma insert_in_empty_eq : forall k v,
  exists a, insert_in_empty k v = mkT a 3 2 1.
Proof. intros k v. unfold insert_in_empty. cbn. eexists. reflexivity. Qed.

Lemma dens_of_first : forall a, dens (mkT a 3 2 1) /\ szinv (mkT a 3 2 1).
Proof.
  intros a. split.
  - right. cbn [t_rsz t_size]. split; [right; reflexivity|right]. vm_compute. reflexivity.
  - right. exists 1. cbn [t_rsz t_size]. repeat split; lia.
Qed.

Theorem insert_dens : forall t k v, szinv t -> dens t ->
  dens (fst (insert t k v)) /\ szinv (fst (insert t k v)).
Proof.
  intros t k v Hz Hd. unfold insert. destruct (t_size t =? 0) eqn:E.
  - cbn [fst]. destruct (insert_in_empty_eq k v) as [a ->]. apply dens_of_first.
  - apply N.eqb_neq in E. apply dens_after_insert_precise; try assumption.
    destruct Hz as [[_ Z]|[q [_ [HR _]]]]; [contradiction|lia].
Qed.

Theorem insert_key_dens : forall t k, szinv t -> dens t ->
  dens (fst (insert_key t k)) /\ szinv (fst (insert_key t k)).
Proof.
  intros t k Hz Hd. unfold insert_key. destruct (t_size t =? 0) eqn:E.
  - apply insert_dens; assumption.
  - destruct (key_at (t_arr t) (fst (root_search t k)) =? k).
    + cbn [fst]. split; assumption.
    + apply N.eqb_neq in E. apply dens_after_insert_precise; try assumption.
      destruct Hz as [[_ Z]|[q [_ [HR _]]]]; [contradiction|lia].
Qed.

Theorem insert_hint_dens : forall t h k d, szinv t -> dens t ->
  dens (fst (insert_hint t h k d)) /\ szinv (fst (insert_hint t h k d)).
Proof.
  intros t h k d Hz Hd. unfold insert_hint. destruct (t_size t =? 0) eqn:E.
  - cbn [fst]. destruct (insert_in_empty_eq k (match d with Some d0 => d0 | None => 0%Z end)) as [a ->].
    apply dens_of_first.
  - assert (HR : t_rsz t <> 0).
    { apply N.eqb_neq in E. destruct Hz as [[_ Z]|[q [_ [HR _]]]]; [contradiction|lia]. }
    destruct (h =? t_end t).
    + destruct d; [apply insert_dens|apply insert_key_dens]; assumption.
    + cbv zeta. destruct (k =? key_at (t_arr t) (bisect_near_idx (t_arr t) (t_rsz t) h k)).
      * destruct d; cbn [fst]; [|split; assumption].
        split.
        -- destruct Hd as [Z|Hd]; [contradiction|]. right. cbn [t_size t_rsz]. exact Hd.
        -- destruct Hz as [Z|Hz']; [left; exact Z|right; exact Hz'].
      * match goal with |- context [if ?c then _ else _] => destruct c end;
          [|match goal with |- context [if ?c then _ else _] => destruct c end];
          apply dens_after_insert_precise; assumption.
Qed.

(* ---- erase ---- *)
Lemma filled_sz : forall R l,
  t_size (filled R l) = N.of_nat (length l) /\ t_rsz (filled R l) = t_rsz (init_tree R).
Proof.
  intros R l. unfold filled.
  match goal with |- context [fill ?f ?n ?i ?st] => destruct (fill f n i st) as [a r] end.
  cbn [t_size t_rsz]. split; reflexivity.
Qed.

Lemma init_tree_rsz_pow : forall d, t_rsz (init_tree (2 ^ N.succ d - 1)) = 2 ^ N.succ d - 1.
Proof. intros d. rewrite COTreeStatic.init_tree_pow2. reflexivity. Qed.

(* the structural part needed for erase: capacity 2^(d+1) - 1 *)
Definition szinv2 (t : tree) : Prop :=
  (t_rsz t = 0 /\ t_size t = 0) \/
  (exists d, 1 <= d /\ t_rsz t = 2 ^ N.succ d - 1 /\ 1 <= t_size t <= t_rsz t
             /\ N.of_nat (length (abs_tree t)) = t_size t).

Lemma szinv2_szinv : forall t, szinv2 t -> szinv t.
Proof.
  intros t [Z|[d [Hd [HR [Hs _]]]]]; [left; exact Z|right].
  exists (2 ^ d - 1). rewrite HR. rewrite N.pow_succ_r'.
  assert (2 <= 2 ^ d).
  { replace 2 with (2 ^ 1) at 1 by reflexivity. apply N.pow_le_mono_r; lia. }
  repeat split; try lia. rewrite HR, N.pow_succ_r' in Hs. lia.
Qed.

Lemma inv_szinv2 : forall t, inv t -> szinv2 t.
Proof.
  intros t [Hr [_ [_ [Hl Hd]]]]. destruct Hd as [[R0 D0]|[D2 [HR Hs]]].
  - left. split; [exact R0|].
    rewrite <- Hl. unfold abs_tree. rewrite R0. reflexivity.
  - right. exists (t_depth t - 1). replace (N.succ (t_depth t - 1)) with (t_depth t) by lia.
    repeat split; try assumption; try lia.
    rewrite <- Hl. unfold abs_tree.
    assert (forall n a i, (length (used_from n a i) <= n)%nat).
    { induction n; intros a i; cbn [used_from length]; [lia|].
      destruct (aget a i); cbn [length]; specialize (IHn a (i + 1)); lia. }
    specialize (H (N.to_nat (t_rsz t)) (t_arr t) 1). lia.
Qed.

Lemma erase_it_sz : forall t it, szinv2 t -> 2 <= t_size t ->
  let t' := fst (erase_it t it) in
  t_size t' = t_size t - 1 /\
  t_rsz t' = (if lt_ratio (t_size t - 1) (t_rsz t) min_density_percent
                 && negb (gt_ratio (t_size t - 1) (t_rsz t / 2) max_density_percent)
              then t_rsz t / 2 else t_rsz t).
Proof.
  intros t it Hz Hs. unfold erase_it.
  destruct (t_size t =? 1) eqn:E1; [apply N.eqb_eq in E1; lia|].
  destruct (lt_ratio (t_size t - 1) (t_rsz t) min_density_percent
            && negb (gt_ratio (t_size t - 1) (t_rsz t / 2) max_density_percent)) eqn:C.
  - match goal with |- context [root_search ?a ?b] => generalize (root_search a b) end. intros it1.
    cbv zeta.
    destruct (hole_down _ _ _ _ _) as [a2 it2]. destruct (rebalance _ _ _ _ _ _ _) as [a4 it4].
    cbn [fst t_size t_rsz].
    unfold rebuild_smaller. destruct (filled_sz (t_rsz t / 2) (abs_tree t)) as [F1 F2]. rewrite F1, F2.
    destruct Hz as [[Z1 Z2]|[d [Hd [HR [_ Hl]]]]]; [lia|].
    rewrite Hl. split; [reflexivity|].
    (* t_rsz t / 2 = 2^d - 1 = 2^(succ (d-1)) - 1 *)
    assert (Hh : t_rsz t / 2 = 2 ^ N.succ (d - 1) - 1).
    { replace (N.succ (d - 1)) with d by lia. rewrite HR, N.pow_succ_r'.
      assert (1 <= 2 ^ d) by (pose proof (N.pow_nonzero 2 d); lia).
      replace (2 * 2 ^ d - 1) with (2 * (2 ^ d - 1) + 1) by lia. apply half_odd. }
    rewrite Hh. apply init_tree_rsz_pow.
  - cbv zeta. destruct (hole_down _ _ _ _ _) as [a2 it2]. destruct (rebalance _ _ _ _ _ _ _) as [a4 it4].
    cbn [fst t_size t_rsz]. split; reflexivity.
Qed.

Theorem erase_it_dens : forall t it, szinv2 t -> dens t -> 1 <= t_size t ->
  dens (fst (erase_it t it)) /\ szinv (fst (erase_it t it)).
Proof.
  intros t it Hz Hd H1.
  destruct (N.eq_dec (t_size t) 1) as [E|E].
  - unfold erase_it. rewrite E. cbn [N.eqb Pos.eqb fst]. split; [left; reflexivity|left; split; reflexivity].
  - assert (Hs : 2 <= t_size t) by lia.
    destruct (erase_it_sz t it Hz Hs) as [S1 S2].
    pose proof (szinv2_szinv t Hz) as Hz1.
    destruct Hz1 as [[Z _]|[q [Hq [HRq Hsz]]]].
    { destruct Hz as [[_ Z2]|[d [_ [HR [Hs2 _]]]]]; lia. }
    destruct Hd as [Z|[Hmax Hmin]]; [lia|].
    rewrite HRq in *. rewrite half_odd in *.
    destruct (lt_ratio (t_size t - 1) (2 * q + 1) min_density_percent
              && negb (gt_ratio (t_size t - 1) q max_density_percent)) eqn:C.
    + apply andb_true_iff in C. destruct C as [C1 C2]. apply negb_true_iff in C2.
      (* q is itself of the form 2p+1 because the capacity is 2^(d+1)-1 with d >= 1 ... q = 2^d - 1 *)
      destruct Hz as [[Z _]|[d [Hd [HR _]]]]; [lia|].
      assert (Hq2 : q = 2 ^ d - 1).
      { rewrite N.pow_succ_r' in HR. assert (1 <= 2 ^ d) by (pose proof (N.pow_nonzero 2 d); lia). lia. }
      assert (exists p, q = 2 * p + 1) as [p Hp].
      { exists (2 ^ (d - 1) - 1). rewrite Hq2. replace d with (N.succ (d - 1)) at 1 by lia.
        rewrite N.pow_succ_r'. assert (1 <= 2 ^ (d - 1)) by (pose proof (N.pow_nonzero 2 (d - 1)); lia). lia. }
      rewrite Hp in C1, C2, Hmin.
      destruct (dens_shrink_half (t_size t) p Hs C1 C2) as [Hp1 [Hle Hk]].
      specialize (Hk Hmin). split.
      * right. rewrite S1, S2, Hp, half_odd. exact Hk.
      * right. exists p. rewrite S1, S2, Hp. repeat split; lia.
    + split.
      * right. rewrite S1, S2, half_odd.
        apply dens_shrink_same; assumption.
      * right. exists q. rewrite S1, S2. repeat split; try assumption; lia.
Qed.

Theorem erase_key_dens : forall t k, szinv2 t -> dens t ->
  dens (fst (erase_key t k)) /\ szinv (fst (erase_key t k)).
Proof.
  intros t k Hz Hd. unfold erase_key. destruct (t_size t =? 0) eqn:E.
  - cbn [fst]. split; [assumption|apply szinv2_szinv; assumption].
  - destruct (key_at (t_arr t) (fst (root_search t k)) =? k).
    + apply N.eqb_neq in E. apply erase_it_dens; try assumption. lia.
    + cbn [fst]. split; [assumption|apply szinv2_szinv; assumption].
Qed.

Theorem erase_pos_dens : forall t p, szinv2 t -> dens t -> 1 <= t_size t ->
  dens (fst (erase_pos t p)) /\ szinv (fst (erase_pos t p)).
Proof. intros t p Hz Hd H1. unfold erase_pos. apply erase_it_dens; assumption. Qed.

Theorem increase_keys_from_dens : forall t k n, dens t -> dens (increase_keys_from t k n).
Proof.
  intros t k n Hd. unfold increase_keys_from. destruct (t_size t =? 0); [assumption|].
  destruct Hd as [Z|Hd]; [left; exact Z|right; exact Hd].
Qed.

Theorem erase_shift_dens : forall t k, szinv2 t -> dens t -> dens (erase_element_and_shift_left t k).
Proof.
  intros t k Hz Hd. unfold erase_element_and_shift_left.
  destruct (erase_key t k) as [t' p] eqn:E.
  assert (Hd' : dens t') by (pose proof (erase_key_dens t k Hz Hd) as [H _]; rewrite E in H; exact H).
  destruct (p =? t_end t'); [assumption|].
  destruct Hd' as [Z|Hd']; [left; exact Z|right; exact Hd'].
Qed.
