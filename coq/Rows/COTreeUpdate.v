(* C16 -- map-level refinement of the structural updates of the CO_Tree model (COTree.v):
   insert / insert_key / insert_precise refine m_insert / m_insert_key, erase_key / erase_pos refine m_erase,
   and preserve the invariant `inv` of COTreeSpec.v.
   Structure: rebuild_bigger (slot i -> 2i); climb (ancestor selection of rebalance);
   hole_down (the hole of erase moves to a node without children); redis (in-order redistribution of a
   contiguous block); compact (compaction to the right end); rebalance = climb; compact; redis;
   insertion; erasure. *)
From Coq Require Import ZArith NArith List Lia Bool FMapPositive Sorted SetoidList.
Import ListNotations.
Require Import PPLV.gen.Facts_COTree PPLV.Rows.COTree PPLV.Rows.COTreeSpec PPLV.Rows.COTreeBase
               PPLV.Rows.COTreeSearch PPLV.Rows.COTreeStatic.
Local Open Scope N_scope.


(* ================= RB ================= *)

(* ---- 1. the fold of rebuild_bigger, pointwise ---- *)
Definition rb_step (a : PositiveMap.t entry) (pe : positive * entry) : PositiveMap.t entry :=
  PositiveMap.add (xO (fst pe)) (snd pe) a.

Lemma rb_fl_other : forall (l : list (positive * entry)) acc q,
  (forall p e, In (p, e) l -> xO p <> q) ->
  PositiveMap.find q (fold_left rb_step l acc) = PositiveMap.find q acc.
Proof.
  induction l as [|[p e] l IH]; intros acc q H; cbn [fold_left]; [reflexivity|].
  rewrite IH.
  - unfold rb_step. cbn [fst snd]. apply PositiveMap.gso.
    intros E. apply (H p e); [left; reflexivity|symmetry; exact E].
  - intros p' e' Hin. apply (H p' e'). right. exact Hin.
Qed.

Lemma rb_fl_in : forall (l : list (positive * entry)) acc p e,
  NoDupA (@PositiveMap.eq_key entry) l -> In (p, e) l ->
  PositiveMap.find (xO p) (fold_left rb_step l acc) = Some e.
Proof.
  induction l as [|[p' e'] l IH]; intros acc p e Hnd Hin; [destruct Hin|].
  inversion Hnd as [|x l' Hnot Hnd']; subst.
  cbn [fold_left]. destruct Hin as [E|Hin].
  - inversion E; subst. rewrite rb_fl_other.
    + unfold rb_step. cbn [fst snd]. apply PositiveMap.gss.
    + intros p1 e1 Hin1 E1. inversion E1; subst. apply Hnot.
      apply InA_alt. exists (p, e1). split; [reflexivity|exact Hin1].
  - apply IH; assumption.
Qed.

Lemma rb_fold_find : forall (m : PositiveMap.t entry) q,
  PositiveMap.find q (PositiveMap.fold (fun p e acc => PositiveMap.add (xO p) e acc) m (PositiveMap.empty entry))
  = match q with xO p => PositiveMap.find p m | _ => None end.
Proof.
  intros m q. rewrite PositiveMap.fold_1.
  change (fun (a : PositiveMap.t entry) (p : positive * entry) => PositiveMap.add (xO (fst p)) (snd p) a)
    with rb_step.
  assert (Hother : forall q', (forall p e, In (p, e) (PositiveMap.elements m) -> xO p <> q') ->
            PositiveMap.find q' (fold_left rb_step (PositiveMap.elements m) (PositiveMap.empty entry)) = None).
  { intros q' H. rewrite rb_fl_other by exact H. apply PositiveMap.gempty. }
  destruct q as [q|p|].
  - apply Hother. intros; discriminate.
  - destruct (PositiveMap.find p m) as [e|] eqn:E.
    + apply rb_fl_in; [apply PositiveMap.elements_3w|apply PositiveMap.elements_correct; exact E].
    + apply Hother. intros p' e' Hin E'. inversion E'; subst.
      apply PositiveMap.elements_complete in Hin. congruence.
  - apply Hother. intros; discriminate.
Qed.

(* ---- 2. aget on the rebuilt array ---- *)
Lemma aget_rebuild_even : forall t i, t_rsz t <> 0 ->
  aget (t_arr (rebuild_bigger t)) (2 * i) = aget (t_arr t) i.
Proof.
  intros t i H. unfold rebuild_bigger.
  destruct (t_rsz t =? 0) eqn:E; [apply N.eqb_eq in E; congruence|].
  cbn [t_arr]. destruct i as [|p]; [reflexivity|].
  change (2 * N.pos p) with (N.pos (xO p)). unfold aget.
  rewrite rb_fold_find. reflexivity.
Qed.

Lemma aget_rebuild_odd : forall t i, aget (t_arr (rebuild_bigger t)) (2 * i + 1) = None.
Proof.
  intros t i. unfold rebuild_bigger.
  destruct (t_rsz t =? 0) eqn:E; cbn [t_arr].
  - apply aget_empty.
  - destruct i as [|p].
    + change (2 * 0 + 1) with (N.pos xH). unfold aget. rewrite rb_fold_find. reflexivity.
    + change (2 * N.pos p + 1) with (N.pos (xI p)). unfold aget. rewrite rb_fold_find. reflexivity.
Qed.

Lemma N_even_odd_cases : forall j : N, exists i, j = 2 * i \/ j = 2 * i + 1.
Proof.
  intros j. exists (j / 2). pose proof (N.div_mod j 2 ltac:(lia)) as H.
  pose proof (N.mod_lt j 2 ltac:(lia)) as H2.
  remember (j / 2) as d. remember (j mod 2) as r. clear Heqd Heqr.
  assert (r = 0 \/ r = 1) as [-> | ->] by lia; [left|right]; lia.
Qed.

(* ---- 3. used_from / abs_tree ---- *)
Lemma used_from_rebuild : forall n t i, t_rsz t <> 0 ->
  used_from (2 * n) (t_arr (rebuild_bigger t)) (2 * i) = used_from n (t_arr t) i.
Proof.
  induction n as [|n IH]; intros t i H; [reflexivity|].
  replace (2 * S n)%nat with (S (S (2 * n))) by lia.
  cbn [used_from].
  rewrite aget_rebuild_even by exact H. rewrite aget_rebuild_odd.
  replace (2 * i + 1 + 1) with (2 * (i + 1)) by lia.
  rewrite IH by exact H. reflexivity.
Qed.

Lemma rbg_fields : forall t, t_rsz t <> 0 ->
  t_rsz (rebuild_bigger t) = 2 * t_rsz t + 1 /\
  t_depth (rebuild_bigger t) = t_depth t + 1 /\
  t_size (rebuild_bigger t) = t_size t.
Proof.
  intros t H. unfold rebuild_bigger.
  destruct (t_rsz t =? 0) eqn:E; [apply N.eqb_eq in E; congruence|].
  cbn [t_rsz t_depth t_size]. repeat split.
Qed.

Lemma used_from_rebuild_from1 : forall n t, t_rsz t <> 0 ->
  used_from (S (2 * n)) (t_arr (rebuild_bigger t)) 1 = used_from n (t_arr t) 1.
Proof.
  intros n t H. cbn [used_from].
  change 1 with (2 * 0 + 1) at 1. rewrite aget_rebuild_odd.
  change (1 + 1) with (2 * 1). apply used_from_rebuild. exact H.
Qed.

Lemma rbg_abs : forall t, t_rsz t <> 0 -> abs_tree (rebuild_bigger t) = abs_tree t.
Proof.
  intros t H. unfold abs_tree.
  destruct (rbg_fields t H) as [HR _]. rewrite HR.
  replace (N.to_nat (2 * t_rsz t + 1)) with (S (2 * N.to_nat (t_rsz t))) by lia.
  apply used_from_rebuild_from1. exact H.
Qed.

(* ---- 4. invariant ---- *)
Lemma rbg_in_range : forall t, t_rsz t <> 0 -> in_range t -> in_range (rebuild_bigger t).
Proof.
  intros t H Hr j Hj. destruct (rbg_fields t H) as [HR _]. rewrite HR.
  destruct (N_even_odd_cases j) as [i [-> | ->]].
  - rewrite aget_rebuild_even in Hj by exact H. apply Hr in Hj. lia.
  - rewrite aget_rebuild_odd in Hj. congruence.
Qed.

Lemma rbg_shape : forall t, t_rsz t <> 0 -> in_range t -> shape t -> shape (rebuild_bigger t).
Proof.
  intros t H Hr Hs i j Hi Ui Hj. destruct (rbg_fields t H) as [HR _]. rewrite HR in Hi.
  destruct (N_even_odd_cases j) as [j' [-> | ->]]; [|apply aget_rebuild_odd].
  rewrite aget_rebuild_even by exact H.
  destruct (N_even_odd_cases i) as [i' [-> | ->]].
  - rewrite aget_rebuild_even in Ui by exact H. rewrite lowbit_double in Hj.
    assert (Hi' : i' <> 0) by lia.
    pose proof (lowbit_bounds i' Hi') as Hb.
    apply (Hs i' j'); [lia|exact Ui|lia].
  - rewrite lowbit_odd in Hj. lia.
Qed.

Lemma rbg_inv : forall t, t_rsz t <> 0 -> inv t -> inv (rebuild_bigger t).
Proof.
  intros t H (Hr & Hs & Hso & Hlen & Hd).
  destruct (rbg_fields t H) as (HR & HD & HS).
  unfold inv. rewrite (rbg_abs t H), HR, HD, HS.
  split; [apply rbg_in_range; assumption|].
  split; [apply rbg_shape; assumption|].
  split; [assumption|]. split; [assumption|].
  right. destruct Hd as [[H0 _]|(Hd1 & Hd2 & Hd3)]; [congruence|].
  split; [lia|]. split; [|assumption].
  replace (t_depth t + 1) with (N.succ (t_depth t)) by lia. rewrite N.pow_succ_r'. pose proof (pow2_pos (t_depth t)). lia.
Qed.


(* ================= Climb ================= *)

(* ------------------------------------------------------------------ *)
(* 1. parent of a node, left/right child test                          *)

Lemma shl_eq : forall m h, 2 ^ h * m = N.shiftl m h.
Proof. intros m h. rewrite N.shiftl_mul_pow2. apply N.mul_comm. Qed.

Lemma it_parent_even : forall h q,
  it_parent (2^h*(2*(2*q)+1), 2^h) = (2^(N.succ h)*(2*q+1), 2^(N.succ h)).
Proof.
  intros h q. unfold it_parent. rewrite N.pow_succ_r'. f_equal.
  replace (2 * 2 ^ h * (2 * q + 1)) with (2 ^ h * (2 * (2 * q + 1))) by lia.
  replace (2 * 2 ^ h) with (2 ^ h * 2) by lia.
  replace (2 ^ h) with (2 ^ h * 1) at 2 by lia.
  rewrite !shl_eq. rewrite <- N.shiftl_ldiff, <- N.shiftl_lor. f_equal.
  destruct q; reflexivity.
Qed.

Lemma it_parent_odd : forall h q,
  it_parent (2^h*(2*(2*q+1)+1), 2^h) = (2^(N.succ h)*(2*q+1), 2^(N.succ h)).
Proof.
  intros h q. unfold it_parent. rewrite N.pow_succ_r'. f_equal.
  replace (2 * 2 ^ h * (2 * q + 1)) with (2 ^ h * (2 * (2 * q + 1))) by lia.
  replace (2 * 2 ^ h) with (2 ^ h * 2) by lia.
  replace (2 ^ h) with (2 ^ h * 1) at 2 by lia.
  rewrite !shl_eq. rewrite <- N.shiftl_ldiff, <- N.shiftl_lor. f_equal.
  destruct q; reflexivity.
Qed.

Lemma land_even : forall h q, N.land (2^h*(2*(2*q)+1)) (2*2^h) = 0.
Proof.
  intros h q. replace (2 * 2 ^ h) with (2 ^ h * 2) by lia.
  rewrite !shl_eq, <- N.shiftl_land.
  replace (N.land (2 * (2 * q) + 1) 2) with 0 by (destruct q; reflexivity).
  apply N.shiftl_0_l.
Qed.

Lemma land_odd : forall h q, N.land (2^h*(2*(2*q+1)+1)) (2*2^h) <> 0.
Proof.
  intros h q. replace (2 * 2 ^ h) with (2 ^ h * 2) by lia.
  rewrite !shl_eq, <- N.shiftl_land.
  replace (N.land (2 * (2 * q + 1) + 1) 2) with 2 by (destruct q; reflexivity).
  rewrite <- shl_eq. pose proof (pow2_pos h). lia.
Qed.

(* ------------------------------------------------------------------ *)
(* 2. counting over a subtree splits at the node                       *)

Lemma count_used_app : forall n m a i,
  count_used (n + m) a i = count_used n a i + count_used m a (i + N.of_nat n).
Proof.
  induction n; intros m a i.
  - cbn [plus count_used N.of_nat]. rewrite N.add_0_r. reflexivity.
  - cbn [plus count_used]. rewrite IHn. rewrite Nat2N.inj_succ.
    replace (i + 1 + N.of_nat n) with (i + N.succ (N.of_nat n)) by lia. lia.
Qed.

Lemma count_subtree_split : forall a h i, node (N.succ h) i ->
  count_used_in_subtree a (i, 2^(N.succ h)) =
    count_used_in_subtree a (i - 2^h, 2^h)
    + (match aget a i with Some _ => 1 | None => 0 end)
    + count_used_in_subtree a (i + 2^h, 2^h).
Proof.
  intros a h i Hn. unfold count_used_in_subtree. cbn [fst snd].
  destruct (subtree_split _ _ Hn) as [S1 [S2 [S3 [S4 [S5 S6]]]]].
  pose proof (pow2_pos h) as Hc.
  set (c := 2 ^ h) in *. set (o := 2 ^ N.succ h) in *.
  replace (N.to_nat (2 * o - 1))
    with (N.to_nat (2 * c - 1) + (1 + N.to_nat (2 * c - 1)))%nat by lia.
  rewrite count_used_app. rewrite count_used_app.
  rewrite S1. rewrite N2Nat.id.
  replace (i - c - (c - 1) + (2 * c - 1)) with i by lia.
  cbn [count_used N.of_nat]. rewrite N.add_0_r.
  replace (i + N.pos (Pos.of_succ_nat 0)) with (i + 1) by reflexivity.
  rewrite S3. lia.
Qed.

(* ------------------------------------------------------------------ *)
(* 3. the climbing loop of rebalance                                   *)

Lemma half_R : forall d, (2 ^ N.succ d - 1) / 2 + 1 = 2 ^ d.
Proof.
  intros d. pose proof (it_root_pow2 d) as H. unfold it_root in H.
  injection H. intros; assumption.
Qed.

(* reb_cond false gives ss <= sres (density at most 100%) *)
Lemma reb_cond_false_le : forall ss sres d1 md,
  2 <= md -> d1 <= md - 1 -> reb_cond ss sres d1 md = false -> ss <= sres.
Proof.
  intros ss sres d1 md Hmd Hd H. unfold reb_cond in H.
  apply orb_false_iff in H. destruct H as [H _].
  unfold gt_ratio in H. apply N.ltb_ge in H.
  unfold max_density_percent in H.
  replace (100 - 91) with 9 in H by reflexivity.
  assert (d1 * 9 / (md - 1) <= 9) as Hq.
  { apply N.div_le_upper_bound; lia. }
  set (r := d1 * 9 / (md - 1)) in *.
  assert ((91 + r) * sres <= 100 * sres) by (apply N.mul_le_mono_r; lia). lia.
Qed.

Lemma not_root_node : forall md h i, 1 <= md -> h < md - 1 ->
  it_is_root (2 ^ md - 1) (i, 2 ^ h) = false.
Proof.
  intros md h i Hmd Hh. unfold it_is_root. cbn [snd].
  replace md with (N.succ (md - 1)) by lia. rewrite half_R.
  apply N.eqb_neq. intros C. apply N.pow_inj_r in C; lia.
Qed.

Lemma even_or_odd : forall j, exists q, j = 2 * q \/ j = 2 * q + 1.
Proof.
  intros j. destruct (N.Even_or_Odd j) as [[q H]|[q H]]; exists q; [left|right]; exact H.
Qed.

(* the parent of a non-root node stays inside [1, R] *)
Lemma parent_even_in_range : forall md h q,
  h + 2 <= md ->
  2 ^ h * (2 * (2 * q) + 1) + (2 ^ h - 1) <= 2 ^ md - 1 ->
  2 ^ N.succ h * (2 * q + 1) + (2 ^ N.succ h - 1) <= 2 ^ md - 1.
Proof.
  intros md h q Hh H.
  replace md with (h + 2 + (md - h - 2)) in * by lia.
  rewrite !N.pow_add_r in *. rewrite N.pow_succ_r'.
  change (2 ^ 2) with 4 in *.
  pose proof (pow2_pos h). pose proof (pow2_pos (md - h - 2)).
  set (T := 2 ^ h) in *. set (K := 2 ^ (md - h - 2)) in *.
  assert (q < K) by nia. nia.
Qed.

Definition climb_post (a : arr) (R md c h i : N) (res : titer * N) : Prop :=
  let '(it', ss') := res in
  exists h' i', it' = (i', 2^h') /\ node h' i' /\ h <= h' < md /\ i' + (2^h'-1) <= R /\ 2^h' <= i' /\
    i' - (2^h'-1) <= i - (2^h-1) /\ i + (2^h-1) <= i' + (2^h'-1) /\
    ss' = count_used_in_subtree a (i', 2^h') + c /\
    (ss' <= 2 * 2^h' - 1 \/ h' = md - 1).

Lemma climb_post_mono : forall a R md c h i h0 i0 res,
  h <= h0 -> i0 - (2^h0-1) <= i - (2^h-1) -> i + (2^h-1) <= i0 + (2^h0-1) ->
  climb_post a R md c h0 i0 res -> climb_post a R md c h i res.
Proof.
  intros a R md c h i h0 i0 [it' ss'] Hh Hl Hr H. unfold climb_post in *.
  destruct H as [h' [i' [E [Hn [Hb [H1 [H2 [H3 [H4 [H5 H6]]]]]]]]]].
  exists h', i'. repeat split; try assumption; lia.
Qed.

Lemma climb_spec_aux : forall f a R md c,
  2 <= md -> R = 2^md - 1 ->
  (forall p, aget a p <> None -> 1 <= p <= R) -> c <= 1 ->
  forall h i ss,
  node h i -> 1 <= i <= R -> (i + (2^h - 1) <= R) -> h < md ->
  (forall h' i', node h' i' -> h < h' -> i' - (2^h'-1) <= i <= i' + (2^h'-1) -> i' <= R ->
     aget a i' <> None) ->
  ss = count_used_in_subtree a (i, 2^h) + c ->
  (N.to_nat (md - 1 - h) <= f)%nat ->
  climb_post a R md c h i (climb f a R md (i, 2^h) ss (2 * 2^h - 1) (md - 1 - h)).
Proof.
  intros f a R md c Hmd HR Hrange Hc.
  induction f as [|f IH]; intros h i ss Hn Hi Hsub Hh Hanc Hss Hf.
  - cbn [climb]. unfold climb_post. exists h, i.
    pose proof (node_ge _ _ Hn).
    repeat split; try assumption; try lia.
  - cbn [climb].
    destruct (reb_cond ss (2 * 2 ^ h - 1) (md - 1 - h) md && negb (md - 1 - h =? 0)) eqn:Econd.
    2:{ unfold climb_post. exists h, i.
        pose proof (node_ge _ _ Hn).
        repeat split; try assumption; try lia.
        apply andb_false_iff in Econd. destruct Econd as [E|E].
        - left. apply (reb_cond_false_le _ _ _ _ Hmd) in E; [assumption|lia].
        - right. apply negb_false_iff, N.eqb_eq in E. lia. }
    apply andb_true_iff in Econd. destruct Econd as [_ Ed].
    apply negb_true_iff, N.eqb_neq in Ed.
    assert (h < md - 1) as Hh1 by lia.
    unfold it_is_right_child.
    assert (it_is_root R (i, 2 ^ h) = false) as Hroot
      by (rewrite HR; apply not_root_node; lia).
    rewrite Hroot.
    cbn [fst snd].
    pose proof (pow2_pos h) as HT.
    assert (2 ^ N.succ h = 2 * 2 ^ h) as HS by apply N.pow_succ_r'.
    destruct Hn as [j Hj]. destruct (even_or_odd j) as [q [Hq|Hq]]; subst j.
    + (* i is the left child of i + 2^h *)
      set (p := 2 ^ N.succ h * (2 * q + 1)).
      assert (N.land i (2 * 2 ^ h) = 0) as El by (rewrite Hj; apply land_even).
      assert (it_parent (i, 2 ^ h) = (p, 2 ^ N.succ h)) as Ep
        by (rewrite Hj; apply it_parent_even).
      rewrite El, Ep. rewrite N.eqb_refl. cbn [negb].
      rewrite it_right_node.
      assert (node (N.succ h) p) as Hnp by (exists q; reflexivity).
      assert (p = i + 2 ^ h) as Hp by (unfold p; rewrite HS, Hj; lia).
      assert (p + (2 ^ N.succ h - 1) <= R) as Hpr.
      { unfold p. rewrite HR. apply parent_even_in_range; [lia|].
        rewrite <- Hj, <- HR. assumption. }
      assert (aget a p <> None) as Hup.
      { apply (Hanc (N.succ h) p Hnp); lia. }
      replace (2 * (2 * 2 ^ h - 1) + 1) with (2 * 2 ^ N.succ h - 1) by lia.
      replace (md - 1 - h - 1) with (md - 1 - N.succ h) by lia.
      apply (climb_post_mono a R md c h i (N.succ h) p); [lia|lia|lia|].
      apply IH; try assumption; try lia.
      * intros h' i' Hn' Hlt Hin Hle.
        apply (Hanc h' i' Hn'); [lia| |assumption].
        destruct (subtree_contains h' i' p Hn' Hin) as [_ [B1 [B2 _]]].
        rewrite (node_lowbit _ _ Hnp) in B1, B2. lia.
      * rewrite (count_subtree_split a h p Hnp).
        replace (p - 2 ^ h) with i by lia.
        rewrite Hss.
        destruct (aget a p); [lia|congruence].
    + (* i is the right child of i - 2^h *)
      set (p := 2 ^ N.succ h * (2 * q + 1)).
      assert (it_parent (i, 2 ^ h) = (p, 2 ^ N.succ h)) as Ep
        by (rewrite Hj; apply it_parent_odd).
      destruct (N.land i (2 * 2 ^ h) =? 0) eqn:El.
      { apply N.eqb_eq in El. rewrite Hj in El. apply land_odd in El. contradiction. }
      cbn [negb]. rewrite Ep.
      rewrite it_left_node.
      assert (node (N.succ h) p) as Hnp by (exists q; reflexivity).
      assert (i = p + 2 ^ h) as Hp by (unfold p; rewrite HS, Hj; lia).
      assert (2 ^ N.succ h <= p) as Hpge by (apply node_ge; assumption).
      assert (aget a p <> None) as Hup.
      { apply (Hanc (N.succ h) p Hnp); lia. }
      replace (2 * (2 * 2 ^ h - 1) + 1) with (2 * 2 ^ N.succ h - 1) by lia.
      replace (md - 1 - h - 1) with (md - 1 - N.succ h) by lia.
      apply (climb_post_mono a R md c h i (N.succ h) p); [lia|lia|lia|].
      apply IH; try assumption; try lia.
      * intros h' i' Hn' Hlt Hin Hle.
        apply (Hanc h' i' Hn'); [lia| |assumption].
        destruct (subtree_contains h' i' p Hn' Hin) as [_ [B1 [B2 _]]].
        rewrite (node_lowbit _ _ Hnp) in B1, B2. lia.
      * rewrite (count_subtree_split a h p Hnp).
        replace (p + 2 ^ h) with i by lia.
        rewrite Hss.
        destruct (aget a p); [lia|congruence].
Qed.

Lemma climb_spec : forall f a R md c h i ss,
  2 <= md -> R = 2^md - 1 -> node h i -> 1 <= i <= R -> (i + (2^h - 1) <= R) -> h < md ->
  (forall p, aget a p <> None -> 1 <= p <= R) ->
  (forall h' i', node h' i' -> h < h' -> i' - (2^h'-1) <= i <= i' + (2^h'-1) -> i' <= R ->
     aget a i' <> None) ->
  ss = count_used_in_subtree a (i, 2^h) + c -> c <= 1 ->
  (N.to_nat (md - 1 - h) <= f)%nat ->
  let '(it', ss') := climb f a R md (i, 2^h) ss (2 * 2^h - 1) (md - 1 - h) in
  exists h' i', it' = (i', 2^h') /\ node h' i' /\ h <= h' < md /\ i' + (2^h'-1) <= R /\ 2^h' <= i' /\
    i' - (2^h'-1) <= i - (2^h-1) /\ i + (2^h-1) <= i' + (2^h'-1) /\
    ss' = count_used_in_subtree a (i', 2^h') + c /\
    (ss' <= 2 * 2^h' - 1 \/ h' = md - 1).
Proof.
  intros f a R md c h i ss Hmd HR Hn Hi Hsub Hh Hrange Hanc Hss Hc Hf.
  exact (climb_spec_aux f a R md c Hmd HR Hrange Hc h i ss Hn Hi Hsub Hh Hanc Hss Hf).
Qed.


(* ================= Hole ================= *)
(* C16 -- the hole_down loop of CO_Tree::erase(tree_iterator). *)

Definition in_range_a (a : arr) (R : N) : Prop := forall i, aget a i <> None -> 1 <= i <= R.
Definition shape_a (a : arr) (R : N) : Prop :=
  forall i j, 1 <= i <= R -> aget a i = None ->
              i - (lowbit i - 1) <= j <= i + (lowbit i - 1) -> aget a j = None.

(* two arrays with the same set of used slots *)
Definition same_used (a b : arr) : Prop := forall j, aget a j = None <-> aget b j = None.

Lemma same_used_in_range : forall a b R, same_used b a -> in_range_a a R -> in_range_a b R.
Proof. intros a b R H Hr i Hi. apply Hr. intros C. apply Hi. apply H. exact C. Qed.

Lemma same_used_shape : forall a b R, same_used b a -> shape_a a R -> shape_a b R.
Proof.
  intros a b R H Hs i j Hi Hn Hj. apply H. apply (Hs i j Hi); [apply H; exact Hn|exact Hj].
Qed.

Lemma swap_same_used : forall a i p, same_used (swap_slots a i p) a.
Proof.
  intros a i p j.
  destruct (aget a i) as [ei|] eqn:Ei; [|rewrite swap_slots_none_l by assumption; tauto].
  destruct (aget a p) as [ep|] eqn:Ep; [|rewrite swap_slots_none_r by assumption; tauto].
  rewrite (aget_swap_slots a i p ei ep j Ei Ep).
  destruct (j =? p) eqn:E1.
  - apply N.eqb_eq in E1. subst j. rewrite Ep. split; discriminate.
  - destruct (j =? i) eqn:E2.
    + apply N.eqb_eq in E2. subst j. rewrite Ei. split; discriminate.
    + tauto.
Qed.

(* a window with exactly one used slot *)
Lemma used_from_one : forall n b s q e, s <= q < s + N.of_nat n -> aget b q = Some e ->
  (forall j, s <= j < s + N.of_nat n -> j <> q -> aget b j = None) -> used_from n b s = [e].
Proof.
  intros n b s q e Hq He Ho. rewrite (used_from_split_at n b s q Hq). rewrite He.
  rewrite used_from_nil by (intros j Hj; apply Ho; lia).
  rewrite used_from_nil by (intros j Hj; apply Ho; lia). reflexivity.
Qed.

(* arrays that agree outside [lo,hi] and hold the same single entry inside it *)
Lemma used_from_window_eq : forall n b b' lo hi e q q',
  1 <= lo -> lo <= q <= hi -> lo <= q' <= hi -> hi <= N.of_nat n ->
  (forall j, j < lo \/ hi < j -> aget b j = aget b' j) ->
  aget b q = Some e -> aget b' q' = Some e ->
  (forall j, lo <= j <= hi -> j <> q -> aget b j = None) ->
  (forall j, lo <= j <= hi -> j <> q' -> aget b' j = None) ->
  used_from n b 1 = used_from n b' 1.
Proof.
  intros n b b' lo hi e q q' Hlo Hq Hq' Hn Hout Eq Eq' Hin Hin'.
  assert (E : n = (N.to_nat (lo - 1) + (N.to_nat (hi + 1 - lo) + N.to_nat (N.of_nat n - hi)))%nat) by lia.
  rewrite E. rewrite !used_from_app.
  f_equal; [apply used_from_ext; intros j Hj; apply Hout; lia|].
  f_equal; [|apply used_from_ext; intros j Hj; apply Hout; lia].
  rewrite (used_from_one _ b _ q e); [|lia|assumption|intros j Hj Hne; apply Hin; [lia|assumption]].
  rewrite (used_from_one _ b' _ q' e); [|lia|assumption|intros j Hj Hne; apply Hin'; [lia|assumption]].
  reflexivity.
Qed.

(* swapping the hole with its neighbour in the used sequence, then deleting the hole *)
Lemma swap_step : forall a i p ei ep lo hi n,
  aget a i = Some ei -> aget a p = Some ep -> p <> i ->
  1 <= lo -> lo <= i <= hi -> lo <= p <= hi -> hi <= N.of_nat n ->
  (forall j, lo <= j <= hi -> j <> i -> j <> p -> aget a j = None) ->
  used_from n (aclr (swap_slots a i p) p) 1 = used_from n (aclr a i) 1.
Proof.
  intros a i p ei ep lo hi n Ei Ep Hne Hlo Hi Hp Hn Hmid.
  assert (Eip : (i =? p) = false) by (apply N.eqb_neq; congruence).
  assert (Epi : (p =? i) = false) by (apply N.eqb_neq; congruence).
  apply (used_from_window_eq n _ _ lo hi ep i p); try assumption.
  - intros j Hj. rewrite !aget_aclr. rewrite (aget_swap_slots a i p ei ep j Ei Ep).
    assert ((j =? p) = false) by (apply N.eqb_neq; lia).
    assert ((j =? i) = false) by (apply N.eqb_neq; lia).
    rewrite H, H0. reflexivity.
  - rewrite aget_aclr, Eip. rewrite (aget_swap_slots a i p ei ep i Ei Ep).
    rewrite Eip, N.eqb_refl. reflexivity.
  - rewrite aget_aclr, Epi. assumption.
  - intros j Hj Hji. rewrite aget_aclr. destruct (j =? p) eqn:E1; [reflexivity|].
    rewrite (aget_swap_slots a i p ei ep j Ei Ep). rewrite E1.
    assert ((j =? i) = false) by (apply N.eqb_neq; assumption). rewrite H.
    apply Hmid; try assumption. apply N.eqb_neq; assumption.
  - intros j Hj Hjp. rewrite aget_aclr. destruct (j =? i) eqn:E1; [reflexivity|].
    apply Hmid; try assumption. apply N.eqb_neq; assumption.
Qed.

(* ------------------------------------------------------------------ *)
(* one iteration of the loop, at an inner node                         *)
(* ------------------------------------------------------------------ *)
Lemma hole_down_S : forall f fR a R i h, 2 ^ N.succ h <= i ->
  hole_down (S f) fR a R (i, 2 ^ N.succ h) =
    if negb (unused a R (i - 2 ^ h))
    then hole_down f fR (swap_slots a i (scan_down fR a R (i - 1))) R (it_of (scan_down fR a R (i - 1)))
    else if negb (unused a R (i + 2 ^ h))
    then hole_down f fR (swap_slots a i (scan_up fR a R (i + 1))) R (it_of (scan_up fR a R (i + 1)))
    else (a, (i, 2 ^ N.succ h)).
Proof.
  intros f fR a R i h Hi. cbn [hole_down].
  rewrite it_is_leaf_node.
  assert (E0 : (N.succ h =? 0) = false) by (apply N.eqb_neq; lia). rewrite E0.
  rewrite it_left_node, it_right_node. cbn [fst snd].
  pose proof (pow2_pos h) as Hc.
  assert (Hd : 2 ^ N.succ h = 2 * 2 ^ h) by apply N.pow_succ_r'.
  replace (i - 2 ^ h + (2 ^ h - 1)) with (i - 1) by lia.
  replace (i + 2 ^ h - (2 ^ h - 1)) with (i + 1) by lia.
  destruct (unused a R (i - 2 ^ h)); cbn [negb]; [|reflexivity].
  destruct (unused a R (i + 2 ^ h)); cbn [negb]; reflexivity.
Qed.

Definition hd_post (a : arr) (h i : N) (a2 : arr) (it2 : titer) : Prop :=
  exists h2 i2, it2 = (i2, 2 ^ h2) /\ node h2 i2 /\ h2 <= h /\
    i - (2 ^ h - 1) <= i2 - (2 ^ h2 - 1) /\ i2 + (2 ^ h2 - 1) <= i + (2 ^ h - 1) /\
    (forall j, aget a2 j = None <-> aget a j = None) /\
    aget a2 i2 = aget a i /\
    (forall j, i2 - (2 ^ h2 - 1) <= j <= i2 + (2 ^ h2 - 1) -> j <> i2 -> aget a2 j = None) /\
    (forall n, i + (2 ^ h - 1) <= N.of_nat n ->
               used_from n (aclr a2 i2) 1 = used_from n (aclr a i) 1) /\
    (forall j, j < i - (2 ^ h - 1) \/ i + (2 ^ h - 1) < j -> aget a2 j = aget a j).

Definition hd_ok (f : nat) : Prop :=
  forall a R h i a2 it2,
    in_range_a a R -> shape_a a R -> node h i -> i + (2 ^ h - 1) <= R -> aget a i <> None ->
    (N.to_nat h <= f)%nat ->
    hole_down f (fuel_of R) a R (i, 2 ^ h) = (a2, it2) -> hd_post a h i a2 it2.

(* the loop stops here *)
Lemma hd_done : forall a h i, node h i ->
  (forall j, i - (2 ^ h - 1) <= j <= i + (2 ^ h - 1) -> j <> i -> aget a j = None) ->
  hd_post a h i a (i, 2 ^ h).
Proof.
  intros a h i Hn Hz. exists h, i.
  split; [reflexivity|]. split; [assumption|]. split; [lia|]. split; [lia|]. split; [lia|].
  split; [tauto|]. split; [reflexivity|]. split; [assumption|]. split; reflexivity.
Qed.

(* the hole moves to slot p of the subtree, its neighbour in the used sequence *)
Lemma hd_step : forall f, hd_ok f ->
  forall a R h' i p a2 it2,
    in_range_a a R -> shape_a a R -> node (N.succ h') i -> i + (2 ^ N.succ h' - 1) <= R ->
    aget a i <> None -> aget a p <> None -> p <> i ->
    i - (2 ^ N.succ h' - 1) <= p <= i + (2 ^ N.succ h' - 1) ->
    (forall j, (p < j < i \/ i < j < p) -> aget a j = None) ->
    (N.to_nat (N.succ h') <= S f)%nat ->
    hole_down f (fuel_of R) (swap_slots a i p) R (it_of p) = (a2, it2) ->
    hd_post a (N.succ h') i a2 it2.
Proof.
  intros f IH a R h' i p a2 it2 Hr Hs Hn Hb Hu Hup Hne Hp Hmid Hf Heq.
  destruct (subtree_contains _ _ p Hn Hp) as [C1 [C2 [C3 C4]]].
  destruct (C4 Hne) as [C5 _]. clear C4.
  assert (Hp0 : p <> 0) by (apply aget_used_pos with a; assumption).
  pose proof (node_of_lowbit p Hp0) as Hnp.
  set (hp := N.log2 (lowbit p)) in *.
  pose proof (node_lowbit _ _ Hnp) as Elb.
  assert (Hhp : hp < N.succ h').
  { apply (N.pow_lt_mono_r_iff 2); [lia|]. rewrite <- Elb. assumption. }
  unfold it_of in Heq. rewrite Elb in Heq, C2, C3.
  destruct (aget a i) as [ei|] eqn:Ei; [|congruence].
  destruct (aget a p) as [ep|] eqn:Ep; [|congruence].
  pose proof (swap_same_used a i p) as Hsu.
  assert (Hpost : hd_post (swap_slots a i p) hp p a2 it2).
  { apply (IH (swap_slots a i p) R hp p a2 it2).
    - apply same_used_in_range with a; assumption.
    - apply same_used_shape with a; assumption.
    - assumption.
    - lia.
    - rewrite (aget_swap_slots a i p ei ep p Ei Ep). rewrite N.eqb_refl. discriminate.
    - lia.
    - assumption. }
  destruct Hpost as [h2 [i2 [P1 [P2 [P3 [P4 [P5 [P6 [P7 [P8 [P9 P10]]]]]]]]]]].
  exists h2, i2.
  split; [assumption|]. split; [assumption|]. split; [lia|]. split; [lia|]. split; [lia|].
  split.
  { intros j. rewrite P6. apply Hsu. }
  split.
  { rewrite P7. rewrite (aget_swap_slots a i p ei ep p Ei Ep). rewrite N.eqb_refl. symmetry. exact Ei. }
  split; [assumption|].
  split.
  { intros n Hn'. rewrite P9 by lia.
    assert (Hi0 : i <> 0) by (apply aget_some_pos with a ei; assumption).
    destruct (N.lt_ge_cases p i) as [L|L].
    - apply (swap_step a i p ei ep p i n); try assumption; try lia.
      intros j Hj Hji Hjp. apply Hmid. lia.
    - apply (swap_step a i p ei ep i p n); try assumption; try lia.
      intros j Hj Hji Hjp. apply Hmid. lia. }
  intros j Hj. rewrite P10 by lia.
  pose proof (node_ge _ _ Hn) as Hgei. pose proof (pow2_pos (N.succ h')) as Hpi.
  rewrite (aget_swap_slots a i p ei ep j Ei Ep).
  destruct (j =? p) eqn:E1; [apply N.eqb_eq in E1; lia|].
  destruct (j =? i) eqn:E2; [apply N.eqb_eq in E2; lia|]. reflexivity.
Qed.

Lemma hd_ok_all : forall f, hd_ok f.
Proof.
  induction f as [|f IH]; intros a R h i a2 it2 Hr Hs Hn Hb Hu Hf Heq.
  - assert (h = 0) by lia. subst h. cbn [hole_down] in Heq. injection Heq as <- <-.
    apply hd_done; [assumption|]. intros j Hj Hne. rewrite N.pow_0_r in Hj. lia.
  - destruct (N.zero_or_succ h) as [->|[h' ->]].
    + cbn [hole_down] in Heq. rewrite it_is_leaf_node in Heq. cbn [N.eqb] in Heq.
      injection Heq as <- <-.
      apply hd_done; [assumption|]. intros j Hj Hne. rewrite N.pow_0_r in Hj. lia.
    + pose proof (node_ge _ _ Hn) as Hge.
      rewrite hole_down_S in Heq by assumption.
      destruct (subtree_split _ _ Hn) as [S1 [S2 [S3 [S4 [S5 S6]]]]].
      pose proof (pow2_pos h') as Hc.
      pose proof (node_lowbit _ _ (node_left _ _ Hn)) as LbL.
      pose proof (node_lowbit _ _ (node_right _ _ Hn)) as LbR.
      destruct (unused a R (i - 2 ^ h')) eqn:EL; cbn [negb] in Heq.
      * destruct (unused a R (i + 2 ^ h')) eqn:ER; cbn [negb] in Heq.
        -- (* both children unused: stop *)
           injection Heq as <- <-.
           apply unused_true_iff in EL. destruct EL as [EL1 EL2].
           apply unused_true_iff in ER. destruct ER as [ER1 ER2].
           apply hd_done; [assumption|]. intros j Hj Hne.
           destruct (N.lt_ge_cases j i) as [L|L].
           ++ apply (Hs (i - 2 ^ h') j EL1 EL2). rewrite LbL. lia.
           ++ apply (Hs (i + 2 ^ h') j ER1 ER2). rewrite LbR. lia.
        -- (* successor *)
           apply unused_false_iff in ER.
           assert (UR : aget a (i + 2 ^ h') <> None) by (destruct ER as [E|[E|E]]; [lia|lia|assumption]).
           pose proof (scan_up_used a R (i + 1)) as HP. cbv zeta in HP.
           set (p := scan_up (fuel_of R) a R (i + 1)) in *.
           destruct HP as [Q1 [Q2 Q3]]; [lia|].
           assert (Hple : p <= i + 2 ^ h').
           { destruct (N.le_gt_cases p (i + 2 ^ h')) as [L|L]; [assumption|].
             exfalso. apply UR. apply Q3; lia. }
           assert (Up : aget a p <> None) by (destruct Q2 as [E|[E|E]]; [lia|lia|assumption]).
           apply (hd_step f IH a R h' i p a2 it2); try assumption; try lia.
           intros j Hj. apply Q3; lia.
      * (* predecessor *)
        apply unused_false_iff in EL.
        assert (UL : aget a (i - 2 ^ h') <> None) by (destruct EL as [E|[E|E]]; [lia|lia|assumption]).
        pose proof (scan_down_used a R (i - 1)) as HP. cbv zeta in HP.
        set (p := scan_down (fuel_of R) a R (i - 1)) in *.
        destruct HP as [Q1 [Q2 Q3]]; [lia|].
        assert (Hpge : i - 2 ^ h' <= p).
        { destruct (N.le_gt_cases (i - 2 ^ h') p) as [L|L]; [assumption|].
          exfalso. apply UL. apply Q3; lia. }
        assert (Up : aget a p <> None) by (destruct Q2 as [E|[E|E]]; [lia|lia|assumption]).
        apply (hd_step f IH a R h' i p a2 it2); try assumption; try lia.
        intros j Hj. apply Q3; lia.
Qed.

(* ------------------------------------------------------------------ *)
(* the specification of the loop                                       *)
(* ------------------------------------------------------------------ *)
(* Note on the last clause: the equality of the used sequences holds for every window [1, n] that
   contains the subtree of i (in particular n = R); for a window that cuts the subtree between the
   old and the new position of the hole it is false. *)
Lemma hole_down_spec : forall f a R h i,
  in_range_a a R -> shape_a a R -> node h i -> i + (2 ^ h - 1) <= R -> aget a i <> None ->
  (N.to_nat h <= f)%nat ->
  let '(a2, it2) := hole_down f (fuel_of R) a R (i, 2 ^ h) in
  exists h2 i2, it2 = (i2, 2 ^ h2) /\ node h2 i2 /\ h2 <= h /\
    i - (2 ^ h - 1) <= i2 - (2 ^ h2 - 1) /\ i2 + (2 ^ h2 - 1) <= i + (2 ^ h - 1) /\
    (forall j, aget a2 j = None <-> aget a j = None) /\
    aget a2 i2 = aget a i /\
    (forall j, i2 - (2 ^ h2 - 1) <= j <= i2 + (2 ^ h2 - 1) -> j <> i2 -> aget a2 j = None) /\
    (forall n, i + (2 ^ h - 1) <= N.of_nat n ->
               used_from n (aclr a2 i2) 1 = used_from n (aclr a i) 1) /\
    (forall j, j < i - (2 ^ h - 1) \/ i + (2 ^ h - 1) < j -> aget a2 j = aget a j).
Proof.
  intros f a R h i Hr Hs Hn Hb Hu Hf.
  destruct (hole_down f (fuel_of R) a R (i, 2 ^ h)) as [a2 it2] eqn:E.
  exact (hd_ok_all f a R h i a2 it2 Hr Hs Hn Hb Hu Hf E).
Qed.

Lemma height_fuel : forall R h i, node h i -> i <= R -> (N.to_nat h <= fuel_of R)%nat.
Proof.
  intros R h i Hn Hi. pose proof (node_ge _ _ Hn) as Hge.
  assert (h < 2 ^ h) by (apply N.pow_gt_lin_r; lia). unfold fuel_of. lia.
Qed.

(* with the fuel used by erase_it, on the whole array *)
Lemma hole_down_fuel_of : forall a R h i,
  in_range_a a R -> shape_a a R -> node h i -> i + (2 ^ h - 1) <= R -> aget a i <> None ->
  let '(a2, it2) := hole_down (fuel_of R) (fuel_of R) a R (i, 2 ^ h) in
  exists h2 i2, it2 = (i2, 2 ^ h2) /\ node h2 i2 /\ h2 <= h /\
    i - (2 ^ h - 1) <= i2 - (2 ^ h2 - 1) /\ i2 + (2 ^ h2 - 1) <= i + (2 ^ h - 1) /\
    (forall j, aget a2 j = None <-> aget a j = None) /\
    aget a2 i2 = aget a i /\
    (forall j, i2 - (2 ^ h2 - 1) <= j <= i2 + (2 ^ h2 - 1) -> j <> i2 -> aget a2 j = None) /\
    used_from (N.to_nat R) (aclr a2 i2) 1 = used_from (N.to_nat R) (aclr a i) 1 /\
    in_range_a a2 R /\ shape_a a2 R /\
    (forall j, j < i - (2 ^ h - 1) \/ i + (2 ^ h - 1) < j -> aget a2 j = aget a j).
Proof.
  intros a R h i Hr Hs Hn Hb Hu.
  assert (Hf : (N.to_nat h <= fuel_of R)%nat) by (apply height_fuel with i; [assumption|lia]).
  pose proof (hole_down_spec (fuel_of R) a R h i Hr Hs Hn Hb Hu Hf) as H.
  destruct (hole_down (fuel_of R) (fuel_of R) a R (i, 2 ^ h)) as [a2 it2].
  destruct H as [h2 [i2 [P1 [P2 [P3 [P4 [P5 [P6 [P7 [P8 [P9 P10]]]]]]]]]]].
  exists h2, i2. repeat (split; [assumption|]).
  split; [apply P9; lia|].
  split; [apply same_used_in_range with a; assumption|].
  split; [apply same_used_shape with a; assumption|exact P10].
Qed.

(* the same, for an iterator given by its slot (erase_pos: it_of p) *)
Lemma hole_down_it_of : forall a R i,
  in_range_a a R -> shape_a a R -> aget a i <> None -> i + (lowbit i - 1) <= R ->
  let '(a2, it2) := hole_down (fuel_of R) (fuel_of R) a R (it_of i) in
  exists i2, it2 = it_of i2 /\ lowbit i2 <= lowbit i /\
    i - (lowbit i - 1) <= i2 - (lowbit i2 - 1) /\ i2 + (lowbit i2 - 1) <= i + (lowbit i - 1) /\
    (forall j, aget a2 j = None <-> aget a j = None) /\
    aget a2 i2 = aget a i /\
    (forall j, i2 - (lowbit i2 - 1) <= j <= i2 + (lowbit i2 - 1) -> j <> i2 -> aget a2 j = None) /\
    used_from (N.to_nat R) (aclr a2 i2) 1 = used_from (N.to_nat R) (aclr a i) 1 /\
    in_range_a a2 R /\ shape_a a2 R /\
    (forall j, j < i - (lowbit i - 1) \/ i + (lowbit i - 1) < j -> aget a2 j = aget a j).
Proof.
  intros a R i Hr Hs Hu Hb.
  assert (Hi0 : i <> 0) by (apply aget_used_pos with a; assumption).
  pose proof (node_of_lowbit i Hi0) as Hn. set (h := N.log2 (lowbit i)) in *.
  pose proof (node_lowbit _ _ Hn) as El. unfold it_of. rewrite El in *.
  pose proof (hole_down_fuel_of a R h i Hr Hs Hn Hb Hu) as H.
  destruct (hole_down (fuel_of R) (fuel_of R) a R (i, 2 ^ h)) as [a2 it2].
  destruct H as [h2 [i2 [P1 [P2 [P3 [P4 [P5 [P6 [P7 [P8 [P9 [P10 [P11 P12]]]]]]]]]]]]].
  pose proof (node_lowbit _ _ P2) as El2.
  exists i2. rewrite El2.
  split; [assumption|]. split; [apply N.pow_le_mono_r; [lia|assumption]|].
  repeat (split; [assumption|]). assumption.
Qed.

(* the array-level invariants are the tree-level ones of COTreeSpec *)
Lemma in_range_a_tree : forall t, in_range t <-> in_range_a (t_arr t) (t_rsz t).
Proof. intros t. reflexivity. Qed.
Lemma shape_a_tree : forall t, shape t <-> shape_a (t_arr t) (t_rsz t).
Proof. intros t. reflexivity. Qed.


(* ================= Redis ================= *)

(* ---------- contiguous blocks ---------- *)
Definition len (l : list entry) : N := N.of_nat (length l).
Lemma len_nil : len [] = 0. Proof. reflexivity. Qed.
Lemma len_cons : forall e l, len (e :: l) = len l + 1.
Proof. intros. unfold len. cbn [length]. lia. Qed.
Lemma len_app : forall l1 l2, len (l1 ++ l2) = len l1 + len l2.
Proof. intros. unfold len. rewrite app_length. lia. Qed.

Fixpoint block (a : arr) (lu : N) (blk : list entry) : Prop :=
  match blk with [] => True | e :: r => aget a lu = Some e /\ block a (lu + 1) r end.

Lemma block_ext : forall blk a b lu,
  (forall j, lu <= j < lu + len blk -> aget a j = aget b j) -> block a lu blk -> block b lu blk.
Proof.
  induction blk as [|e r IH]; intros a b lu H Hb; cbn [block] in *; auto.
  destruct Hb as [H1 H2]. rewrite len_cons in H. split.
  - rewrite <- H by lia. exact H1.
  - apply IH with a; auto. intros j Hj. apply H. lia.
Qed.

Lemma block_used_from : forall blk a lu, block a lu blk -> used_from (length blk) a lu = blk.
Proof.
  induction blk as [|e r IH]; intros a lu Hb; cbn [block length used_from] in *; auto.
  destruct Hb as [H1 H2]. rewrite H1. f_equal. apply IH; auto.
Qed.

Lemma block_used : forall blk a lu j, block a lu blk -> lu <= j < lu + len blk -> aget a j <> None.
Proof.
  induction blk as [|e r IH]; intros a lu j Hb Hj.
  - rewrite len_nil in Hj. lia.
  - cbn [block] in Hb. destruct Hb as [H1 H2]. rewrite len_cons in Hj.
    destruct (N.eq_dec j lu) as [->|Hn]. { rewrite H1. discriminate. }
    apply IH with (lu + 1); auto. lia.
Qed.

(* the key is merged in front of the first greater key *)
Fixpoint ins (k : N) (v : Z) (l : list entry) : list entry :=
  match l with
  | [] => [(k, v)]
  | (k', v') :: r => if k <? k' then (k, v) :: l else (k', v') :: ins k v r
  end.
Definition pend (add : bool) (k : N) (v : Z) (blk : list entry) : list entry :=
  if add then ins k v blk else blk.

Lemma len_ins : forall k v l, len (ins k v l) = len l + 1.
Proof.
  induction l as [|[k' v'] r IH]; cbn [ins]; [reflexivity|].
  destruct (k <? k'); rewrite !len_cons; [reflexivity|]. rewrite IH. reflexivity.
Qed.
Lemma len_pend : forall add k v l, len (pend add k v l) = len l + (if add then 1 else 0).
Proof. intros [|] k v l; cbn [pend]; [apply len_ins|lia]. Qed.

Section Redis.
Variables (R key : N) (val : Z) (hiT : N).
Hypothesis HhiT : hiT <= R.

Definition succ_ok (a : arr) : Prop :=
  R < hiT + 1 \/ match aget a (hiT + 1) with None => True | Some (k', _) => key < k' end.

Definition RI (a : arr) (lu : N) (add : bool) (blk : list entry) (lo : N) : Prop :=
  block a lu blk /\ (forall j, lo <= j < lu -> aget a j = None) /\
  lu + len blk = hiT + 1 /\ (add = true -> succ_ok a).

Lemma RI_weaken : forall a lu add blk lo lo', lo <= lo' -> RI a lu add blk lo -> RI a lu add blk lo'.
Proof.
  intros a lu add blk lo lo' Hle (H1 & H2 & H3 & H4). repeat split; auto.
  intros j Hj. apply H2. lia.
Qed.

Lemma redis_one_spec : forall a lu add blk lo i,
  RI a lu add blk lo -> lo <= i -> 1 <= i ->
  i + len (pend add key val blk) <= hiT + 1 -> 1 <= len (pend add key val blk) ->
  let '(a', lu', add') := redis_one R key val i (a, lu, add) in
  exists e blk', pend add key val blk = e :: pend add' key val blk' /\
    RI a' lu' add' blk' (i + 1) /\ aget a' i = Some e /\
    (forall j, j < i -> aget a' j = aget a j) /\ (forall j, hiT < j -> aget a' j = aget a j).
Proof.
  intros a lu add blk lo i (Hb & Hun & Hlen & Hs) Hlo Hi Hfit Hne.
  rewrite len_pend in Hfit, Hne.
  assert (Hmove : forall e r, blk = e :: r ->
     let a' := move_slot a lu i in
     RI a' (lu + 1) add r (i + 1) /\ aget a' i = Some e /\
     (forall j, j < i -> aget a' j = aget a j) /\ (forall j, hiT < j -> aget a' j = aget a j)).
  { intros e r ->. cbn [block] in Hb. destruct Hb as [Hlu Hb]. rewrite len_cons in *.
    assert (Hil : i <= lu) by (destruct add; lia).
    assert (G : forall j, aget (move_slot a lu i) j =
                if j =? lu then (if lu =? i then Some e else None)
                else if j =? i then Some e else aget a j).
    { intro j. apply aget_move_slot; auto. lia. }
    cbv zeta. repeat split.
    - apply block_ext with a; auto. intros j Hj. rewrite G.
      destruct (j =? lu) eqn:E1; [apply N.eqb_eq in E1; lia|].
      destruct (j =? i) eqn:E2; [apply N.eqb_eq in E2; lia|]. reflexivity.
    - intros j Hj. rewrite G.
      destruct (j =? lu) eqn:E1.
      + apply N.eqb_eq in E1. destruct (lu =? i) eqn:E3; [apply N.eqb_eq in E3; lia|reflexivity].
      + apply N.eqb_neq in E1. destruct (j =? i) eqn:E2; [apply N.eqb_eq in E2; lia|].
        apply Hun. lia.
    - lia.
    - intro Ha. specialize (Hs Ha). unfold succ_ok in *. destruct Hs as [Hs|Hs]; [left; exact Hs|right].
      rewrite G. destruct (hiT + 1 =? lu) eqn:E1; [apply N.eqb_eq in E1; lia|].
      destruct (hiT + 1 =? i) eqn:E2; [apply N.eqb_eq in E2; lia|]. exact Hs.
    - rewrite G. destruct (i =? lu) eqn:E1.
      + apply N.eqb_eq in E1. subst. rewrite N.eqb_refl. reflexivity.
      + rewrite N.eqb_refl. reflexivity.
    - intros j Hj. rewrite G.
      destruct (j =? lu) eqn:E1; [apply N.eqb_eq in E1; lia|].
      destruct (j =? i) eqn:E2; [apply N.eqb_eq in E2; lia|]. reflexivity.
    - intros j Hj. rewrite G.
      destruct (j =? lu) eqn:E1; [apply N.eqb_eq in E1; lia|].
      destruct (j =? i) eqn:E2; [apply N.eqb_eq in E2; lia|]. reflexivity. }
  assert (Hfire : add = true -> i < lu ->
     let a' := aset a i (key, val) in
     RI a' lu false blk (i + 1) /\ aget a' i = Some (key, val) /\
     (forall j, j < i -> aget a' j = aget a j) /\ (forall j, hiT < j -> aget a' j = aget a j)).
  { intros -> Hil. cbv zeta. repeat split.
    - apply block_ext with a; auto. intros j Hj. rewrite aget_aset_other by lia. reflexivity.
    - intros j Hj. rewrite aget_aset_other by lia. apply Hun. lia.
    - exact Hlen.
    - discriminate.
    - apply aget_aset_same. lia.
    - intros j Hj. apply aget_aset_other. lia.
    - intros j Hj. apply aget_aset_other. lia. }
  unfold redis_one.
  destruct add.
  - (* an element is still to be added *)
    cbn [andb pend ins] in *.
    destruct blk as [|[k' v'] r].
    + (* block exhausted: the key goes here *)
      rewrite len_nil in *.
      assert (Hc : (R <? lu) || match aget a lu with None => true | Some (k, _) => key <? k end = true).
      { assert (lu = hiT + 1) by lia. subst lu.
        destruct (Hs eq_refl) as [Hs'|Hs'].
        - apply orb_true_iff. left. apply N.ltb_lt. exact Hs'.
        - apply orb_true_iff. right. destruct (aget a (hiT + 1)) as [[k' v']|]; auto.
          apply N.ltb_lt. exact Hs'. }
      rewrite Hc. destruct Hfire as (F1 & F2 & F3 & F4); auto. { lia. }
      exists (key, val), []. cbn [pend ins]. exact (conj eq_refl (conj F1 (conj F2 (conj F3 F4)))).
    + cbn [block] in Hb. destruct Hb as [Hlu Hb]. rewrite len_cons in *.
      assert (HR : (R <? lu) = false) by (apply N.ltb_ge; lia).
      rewrite HR, Hlu. cbn [orb ins].
      destruct (key <? k') eqn:Ek.
      * destruct Hfire as (F1 & F2 & F3 & F4); auto. { lia. }
        exists (key, val), ((k', v') :: r). cbn [pend]. exact (conj eq_refl (conj F1 (conj F2 (conj F3 F4)))).
      * destruct (Hmove (k', v') r eq_refl) as (F1 & F2 & F3 & F4).
        exists (k', v'), r. cbn [pend]. exact (conj eq_refl (conj F1 (conj F2 (conj F3 F4)))).
  - cbn [andb pend] in *.
    destruct blk as [|e r]. { rewrite len_nil in Hne. lia. }
    destruct (Hmove e r eq_refl) as (F1 & F2 & F3 & F4).
    exists e, r. cbn [pend]. exact (conj eq_refl (conj F1 (conj F2 (conj F3 F4)))).
Qed.


Definition in_sub (h i j : N) : Prop := i - (2 ^ h - 1) <= j <= i + (2 ^ h - 1).

Lemma half_facts : forall n, 2 <= n ->
  let half := (n + 1) / 2 in 1 <= half /\ half < n /\ 2 * half <= n + 1 /\ n <= 2 * half.
Proof.
  intros n Hn. cbv zeta.
  pose proof (N.div_mod (n + 1) 2 ltac:(lia)) as E.
  pose proof (N.mod_lt (n + 1) 2 ltac:(lia)) as L.
  set (q := (n + 1) / 2) in *. set (r := (n + 1) mod 2) in *. clearbody q r. lia.
Qed.

Lemma redis_spec : forall f n h i a lu add blk,
  node h i -> (N.to_nat h < f)%nat -> i + (2 ^ h - 1) <= hiT ->
  n <= 2 * 2 ^ h - 1 -> n <= len (pend add key val blk) ->
  RI a lu add blk (i - (2 ^ h - 1)) ->
  i + (2 ^ h - 1) + len (pend add key val blk) <= hiT + n ->
  let '(a', lu', add') := redis f R key val n i (a, lu, add) in
  exists em blk', pend add key val blk = em ++ pend add' key val blk' /\ len em = n /\
    RI a' lu' add' blk' (i + 2 ^ h) /\
    used_from (N.to_nat (2 * 2 ^ h - 1)) a' (i - (2 ^ h - 1)) = em /\
    (forall j, j < i - (2 ^ h - 1) -> aget a' j = aget a j) /\
    (forall j, hiT < j -> aget a' j = aget a j) /\
    (1 <= n -> aget a' i <> None) /\
    (forall x, in_sub h i x -> aget a' x = None ->
       forall j, x - (lowbit x - 1) <= j <= x + (lowbit x - 1) -> aget a' j = None).
Proof.
  induction f as [|f IH]; intros n h i a lu add blk Hnode Hf Hhi Hn Hnp HRI Hfit; [lia|].
  pose proof (node_ge _ _ Hnode) as Hge. pose proof (pow2_pos h) as Hp.
  cbn [redis].
  destruct (n =? 0) eqn:E0.
  { apply N.eqb_eq in E0. subst n.
    destruct HRI as (Hb & Hun & Hlen & Hs).
    assert (Hlu : i + 2 ^ h <= lu).
    { rewrite len_pend in Hfit. destruct add; lia. }
    assert (Hnone : forall j, in_sub h i j -> aget a j = None).
    { intros j Hj. unfold in_sub in Hj. apply Hun. lia. }
    exists [], blk. split; [reflexivity|]. split; [reflexivity|].
    split. { repeat split; auto. intros j Hj. apply Hun. lia. }
    split. { apply used_from_nil. intros j Hj. apply Hnone. unfold in_sub. lia. }
    split; [auto|]. split; [auto|]. split; [lia|].
    intros x Hx _ j Hj. apply Hnone.
    destruct (subtree_contains h i x Hnode Hx) as (_ & S1 & S2 & _). unfold in_sub. lia. }
  apply N.eqb_neq in E0.
  destruct (n =? 1) eqn:E1.
  { apply N.eqb_eq in E1. subst n.
    pose proof (redis_one_spec a lu add blk (i - (2 ^ h - 1)) i HRI ltac:(lia) ltac:(lia) ltac:(lia) ltac:(lia)) as H1.
    destruct (redis_one R key val i (a, lu, add)) as [[a' lu'] add'].
    destruct H1 as (e & blk' & Hpe & HRI' & Hgi & Hfr1 & Hfr2).
    assert (Hlp : len (pend add key val blk) = len (pend add' key val blk') + 1).
    { rewrite Hpe. apply len_cons. }
    assert (Hlu' : i + 2 ^ h <= lu').
    { destruct HRI' as (_ & _ & Hlen' & _). rewrite len_pend in Hlp. rewrite len_pend in Hfit, Hlp.
      destruct add, add'; lia. }
    assert (Hnone : forall j, in_sub h i j -> j <> i -> aget a' j = None).
    { intros j Hj Hji. unfold in_sub in Hj.
      destruct (N.lt_ge_cases j i) as [Hlt|Hgt].
      - rewrite Hfr1 by exact Hlt. destruct HRI as (_ & Hun & Hlen & _). apply Hun.
        rewrite len_pend in Hfit. destruct add; lia.
      - destruct HRI' as (_ & Hun' & _). apply Hun'. lia. }
    exists [e], blk'. split; [exact Hpe|]. split; [reflexivity|].
    split. { apply RI_weaken with (i + 1); auto. lia. }
    split.
    { rewrite (used_from_split_at _ a' (i - (2 ^ h - 1)) i) by lia.
      rewrite Hgi. rewrite !used_from_nil; [reflexivity| |].
      - intros j Hj. apply Hnone; [unfold in_sub|]; lia.
      - intros j Hj. apply Hnone; [unfold in_sub|]; lia. }
    split. { intros j Hj. apply Hfr1. lia. }
    split; [exact Hfr2|]. split. { intros _. rewrite Hgi. discriminate. }
    intros x Hx Hxn j Hj.
    destruct (subtree_contains h i x Hnode Hx) as (_ & S1 & S2 & S3).
    destruct (N.eq_dec x i) as [->|Hxi]. { rewrite Hgi in Hxn. discriminate. }
    destruct (S3 Hxi) as (_ & S4). apply Hnone; [unfold in_sub|]; lia. }
  apply N.eqb_neq in E1.
  assert (Hn2 : 2 <= n) by lia.
  (* h is a successor *)
  destruct (N.eq_dec h 0) as [->|Hh0]. { cbn in Hn. lia. }
  assert (Hh : h = N.succ (N.pred h)) by lia.
  set (h' := N.pred h) in *. clearbody h'. subst h.
  rewrite (node_lowbit _ _ Hnode), pow2_succ_half.
  pose proof (subtree_split h' i Hnode) as SS. cbv zeta in SS.
  destruct SS as (S1 & S2 & S3 & S4 & S5 & S6).
  pose proof (half_facts n Hn2) as HF. cbv zeta in HF.
  set (half := (n + 1) / 2) in *. clearbody half. destruct HF as (HF1 & HF2 & HF3 & HF4).
  pose proof (pow2_pos h') as Hp'.
  (* left subtree *)
  pose proof (IH (half - 1) h' (i - 2 ^ h') a lu add blk (node_left _ _ Hnode) ltac:(lia) ltac:(lia)
                ltac:(lia) ltac:(lia)) as HL.
  rewrite <- S1 in HL. specialize (HL HRI ltac:(lia)).
  destruct (redis f R key val (half - 1) (i - 2 ^ h') (a, lu, add)) as [[a1 lu1] add1].
  destruct HL as (em1 & blk1 & Hp1 & Hl1 & HRI1 & Hu1 & Hfa1 & Hfb1 & Hr1 & Hsh1).
  assert (Hi1 : i - 2 ^ h' + 2 ^ h' = i) by lia. rewrite Hi1 in HRI1.
  assert (Hlen1 : len (pend add key val blk) = len em1 + len (pend add1 key val blk1)).
  { rewrite Hp1. apply len_app. }
  (* the root of the subtree *)
  pose proof (redis_one_spec a1 lu1 add1 blk1 i i HRI1 ltac:(lia) ltac:(lia) ltac:(lia) ltac:(lia)) as HM.
  destruct (redis_one R key val i (a1, lu1, add1)) as [[a2 lu2] add2].
  destruct HM as (e & blk2 & Hp2 & HRI2 & Hgi & Hfa2 & Hfb2).
  assert (Hlen2 : len (pend add1 key val blk1) = len (pend add2 key val blk2) + 1).
  { rewrite Hp2. apply len_cons. }
  (* right subtree *)
  pose proof (IH (n - half) h' (i + 2 ^ h') a2 lu2 add2 blk2 (node_right _ _ Hnode) ltac:(lia) ltac:(lia)
                ltac:(lia) ltac:(lia)) as HRt.
  rewrite <- S3 in HRt. specialize (HRt HRI2 ltac:(lia)).
  destruct (redis f R key val (n - half) (i + 2 ^ h') (a2, lu2, add2)) as [[a3 lu3] add3].
  destruct HRt as (em3 & blk3 & Hp3 & Hl3 & HRI3 & Hu3 & Hfa3 & Hfb3 & Hr3 & Hsh3).
  exists (em1 ++ e :: em3), blk3.
  split. { rewrite Hp1, Hp2, Hp3. rewrite <- app_assoc. reflexivity. }
  split. { rewrite len_app, len_cons. lia. }
  split. { replace (i + 2 ^ N.succ h') with (i + 2 ^ h' + 2 ^ h') by lia. exact HRI3. }
  assert (Hleft : forall j, j < i -> aget a3 j = aget a1 j).
  { intros j Hj. rewrite Hfa3 by lia. apply Hfa2. exact Hj. }
  assert (Hroot : aget a3 i = Some e).
  { rewrite Hfa3 by lia. exact Hgi. }
  split.
  { rewrite (used_from_split_at _ a3 (i - (2 ^ N.succ h' - 1)) i) by lia.
    rewrite Hroot. f_equal; [|cbn [app]; f_equal].
    - rewrite <- Hu1.
      replace (N.to_nat (i - (i - (2 ^ N.succ h' - 1)))) with (N.to_nat (2 * 2 ^ h' - 1)) by (clear - S5 S6 Hp'; lia).
      apply used_from_ext. intros j Hj. apply Hleft. clear - Hj S5 S6 Hp'. lia.
    - rewrite <- Hu3. f_equal. clear - S5 S6 Hp'. lia. }
  split. { intros j Hj. rewrite Hleft by lia. apply Hfa1. lia. }
  split. { intros j Hj. rewrite Hfb3, Hfb2 by exact Hj. apply Hfb1. exact Hj. }
  split. { intros _. rewrite Hroot. discriminate. }
  intros x Hx Hxn j Hj. unfold in_sub in Hx.
  destruct (N.eq_dec x i) as [->|Hxi]. { rewrite Hroot in Hxn. discriminate. }
  destruct (N.lt_ge_cases x i) as [Hlt|Hgt].
  - assert (Hxl : in_sub h' (i - 2 ^ h') x) by (unfold in_sub; clear - Hx Hlt S1 S2; lia).
    destruct (subtree_contains h' _ x (node_left _ _ Hnode) Hxl) as (_ & T1 & T2 & _).
    rewrite Hleft by (clear - Hj T2 S2; lia). apply (Hsh1 x Hxl); [|exact Hj]. rewrite <- Hleft by exact Hlt. exact Hxn.
  - assert (Hxr : in_sub h' (i + 2 ^ h') x) by (unfold in_sub; clear - Hx Hgt Hxi S3 S4; lia).
    apply (Hsh3 x Hxr Hxn j Hj).
Qed.

End Redis.


(* ================= Compact ================= *)

(* used entries of the slots lo..hi *)
Definition seg (a : arr) (lo hi : N) : list entry := used_from (N.to_nat (hi + 1 - lo)) a lo.

Lemma seg_empty : forall a lo hi, hi < lo -> seg a lo hi = [].
Proof. intros. unfold seg. replace (N.to_nat (hi + 1 - lo)) with O by lia. reflexivity. Qed.
Lemma seg_nil : forall a lo hi, (forall j, lo <= j <= hi -> aget a j = None) -> seg a lo hi = [].
Proof. intros a lo hi H. unfold seg. apply used_from_nil. intros j Hj. apply H. lia. Qed.
Lemma seg_ext : forall a b lo hi, (forall j, lo <= j <= hi -> aget a j = aget b j) -> seg a lo hi = seg b lo hi.
Proof. intros a b lo hi H. unfold seg. apply used_from_ext. intros j Hj. apply H. lia. Qed.
Lemma seg_app : forall a lo mid hi, lo <= mid + 1 -> mid <= hi ->
  seg a lo hi = seg a lo mid ++ seg a (mid + 1) hi.
Proof.
  intros a lo mid hi H1 H2. unfold seg.
  replace (N.to_nat (hi + 1 - lo)) with (N.to_nat (mid + 1 - lo) + N.to_nat (hi + 1 - (mid + 1)))%nat by lia.
  rewrite used_from_app. f_equal. f_equal. lia.
Qed.
Lemma seg_last : forall a lo p e, lo <= p -> aget a p = Some e -> seg a lo p = seg a lo (p - 1) ++ [e].
Proof.
  intros a lo p e H1 H2. unfold seg.
  rewrite (used_from_split_at (N.to_nat (p + 1 - lo)) a lo p) by lia. rewrite H2.
  replace (N.to_nat (lo + N.of_nat (N.to_nat (p + 1 - lo)) - p - 1)) with O by lia.
  pose proof (aget_some_pos _ _ _ H2) as Hp0.
  cbn [used_from]. rewrite app_nil_r. f_equal. f_equal. lia.
Qed.
Lemma seg_shrink : forall a lo p q, p <= q -> (forall j, p < j <= q -> aget a j = None) ->
  seg a lo q = seg a lo p.
Proof.
  intros a lo p q Hpq H.
  destruct (N.le_gt_cases lo (p + 1)) as [Hl|Hl].
  - rewrite (seg_app a lo p q) by lia. rewrite (seg_nil a (p + 1) q). { apply app_nil_r. }
    intros j Hj. apply H. lia.
  - rewrite (seg_empty a lo p) by lia. apply seg_nil. intros j Hj. apply H. lia.
Qed.
Lemma in_seg : forall a lo hi e, In e (seg a lo hi) <-> exists p, lo <= p <= hi /\ aget a p = Some e.
Proof.
  intros a lo hi e. unfold seg. rewrite in_used_from. split; intros (p & Hp & He); exists p; split; auto; lia.
Qed.
Lemma seg_nonempty_last : forall a lo p, lo <= p -> aget a p <> None -> 1 <= len (seg a lo p).
Proof.
  intros a lo p H1 H2. destruct (aget a p) as [e|] eqn:E; [|congruence].
  rewrite (seg_last a lo p e H1 E). rewrite len_app. cbn. lia.
Qed.

Lemma ins_app_lt : forall k v l1 l2, (forall e, In e l1 -> fst e < k) -> ins k v (l1 ++ l2) = l1 ++ ins k v l2.
Proof.
  induction l1 as [|[k' v'] r IH]; intros l2 H; cbn [app ins]; auto.
  assert (E : (k <? k') = false). { apply N.ltb_ge. specialize (H (k', v') (or_introl eq_refl)). cbn in H. lia. }
  rewrite E. f_equal. apply IH. intros e He. apply H. right. exact He.
Qed.
Lemma ins_gt : forall k v l, (forall e, In e l -> k < fst e) -> ins k v l = (k, v) :: l.
Proof.
  intros k v [|[k' v'] r] H; cbn [ins]; auto.
  assert (E : (k <? k') = true). { apply N.ltb_lt. apply (H (k', v')). left. reflexivity. }
  rewrite E. reflexivity.
Qed.

Section Compact.
Variables (R key : N) (val : Z) (lo hiT : N).
Hypothesis Hlo : 1 <= lo.
Hypothesis HhiT : hiT <= R.
Let fR := fuel_of R.

Lemma key_at_ext : forall a b p, aget a p = aget b p -> key_at a p = key_at b p.
Proof. intros a b p H. unfold key_at. rewrite H. reflexivity. Qed.

(* one move of the compaction loops *)
Lemma compact_move : forall a last fu e blk,
  aget a last = Some e -> lo <= last -> last <= fu ->
  block a (fu + 1) blk -> fu + 1 + len blk = hiT + 1 ->
  (forall j, last < j <= fu -> aget a j = None) ->
  let a' := move_slot a last fu in
  let last' := scan_down fR a' R (last - 1) in
  (forall j, j <> last -> j <> fu -> aget a' j = aget a j) /\
  block a' (fu - 1 + 1) (e :: blk) /\ fu - 1 + 1 + len (e :: blk) = hiT + 1 /\
  seg a lo last = seg a' lo last' ++ [e] /\
  (forall j, last' < j <= fu - 1 -> aget a' j = None) /\ last' <= fu - 1 /\ last' < last /\
  (last' = 0 \/ aget a' last' <> None).
Proof.
  intros a last fu e blk He Hl Hlf Hb Hlen Hun. cbv zeta.
  set (a' := move_slot a last fu).
  assert (G : forall j, aget a' j =
                if j =? last then (if last =? fu then Some e else None)
                else if j =? fu then Some e else aget a j).
  { intro j. apply aget_move_slot; auto. lia. }
  assert (Gother : forall j, j <> last -> j <> fu -> aget a' j = aget a j).
  { intros j H1 H2. rewrite G. destruct (j =? last) eqn:E1; [apply N.eqb_eq in E1; lia|].
    destruct (j =? fu) eqn:E2; [apply N.eqb_eq in E2; lia|]. reflexivity. }
  pose proof (scan_down_used a' R (last - 1) ltac:(lia)) as SD. cbv zeta in SD. fold fR in SD.
  set (last' := scan_down fR a' R (last - 1)) in *. clearbody last'.
  destruct SD as (SD1 & SD2 & SD3).
  assert (Hfu : fu - 1 + 1 = fu) by lia.
  split; [exact Gother|]. split.
  { rewrite Hfu. cbn [block]. split.
    - rewrite G. destruct (fu =? last) eqn:E1.
      + apply N.eqb_eq in E1. subst. rewrite N.eqb_refl. reflexivity.
      + rewrite N.eqb_refl. reflexivity.
    - apply block_ext with a; auto. intros j Hj. symmetry. apply Gother; lia. }
  split. { rewrite len_cons. lia. }
  split.
  { rewrite (seg_last a lo last e Hl He). f_equal.
    rewrite (seg_ext a' a lo last'). 2:{ intros j Hj. apply Gother; lia. }
    apply seg_shrink; [lia|]. intros j Hj. rewrite <- Gother by lia. apply SD3. lia. }
  split.
  { intros j Hj. destruct (N.lt_ge_cases j last) as [H1|H1]. { apply SD3. lia. }
    rewrite G. destruct (j =? last) eqn:E1.
    - apply N.eqb_eq in E1. destruct (last =? fu) eqn:E2; [apply N.eqb_eq in E2; lia|reflexivity].
    - apply N.eqb_neq in E1. destruct (j =? fu) eqn:E2; [apply N.eqb_eq in E2; lia|]. apply Hun. lia. }
  split; [lia|]. split; [lia|].
  destruct SD2 as [H|[H|H]]; auto. lia.
Qed.

Lemma compact2_spec : forall f a last fu ss blk,
  (N.to_nat ss <= f)%nat ->
  block a (fu + 1) blk -> fu + 1 + len blk = hiT + 1 ->
  len (seg a lo last) = ss ->
  (forall j, last < j <= fu -> aget a j = None) -> last <= fu ->
  (last = 0 \/ aget a last <> None) -> lo + ss <= fu + 1 ->
  let '(a', fu') := compact2 f fR a R last fu ss in
  block a' (fu' + 1) (seg a lo last ++ blk) /\ fu' + 1 + len (seg a lo last ++ blk) = hiT + 1 /\
  (forall j, lo <= j <= fu' -> aget a' j = None) /\
  (forall j, j < lo \/ hiT < j -> aget a' j = aget a j).
Proof.
  induction f as [|f IH]; intros a last fu ss blk Hf Hb Hlen Hss Hun Hlf Hlast Hroom.
  - assert (Ez : ss = 0) by lia. rewrite Ez in Hss. cbn [compact2].
    assert (Hnil : seg a lo last = []). { destruct (seg a lo last); [reflexivity|]. unfold len in Hss. cbn in Hss. lia. }
    rewrite Hnil. cbn [app]. repeat split; auto.
    intros j Hj. destruct (N.le_gt_cases j last) as [H1|H1]; [|apply Hun; lia].
    unfold seg in Hnil. apply (used_from_nil_inv _ _ _ Hnil). lia.
  - cbn [compact2]. destruct (ss =? 0) eqn:E0.
    + apply N.eqb_eq in E0. rewrite E0 in Hss.
      assert (Hnil : seg a lo last = []). { destruct (seg a lo last); [reflexivity|]. unfold len in Hss. cbn in Hss. lia. }
      rewrite Hnil. cbn [app]. repeat split; auto.
      intros j Hj. destruct (N.le_gt_cases j last) as [H1|H1]; [|apply Hun; lia].
      unfold seg in Hnil. apply (used_from_nil_inv _ _ _ Hnil). lia.
    + apply N.eqb_neq in E0.
      assert (Hll : lo <= last).
      { destruct (N.le_gt_cases lo last); auto. rewrite seg_empty in Hss by lia. cbn in Hss. lia. }
      assert (Hu : aget a last <> None) by (destruct Hlast; [lia|auto]).
      destruct (aget a last) as [e|] eqn:He; [|congruence].
      pose proof (compact_move a last fu e blk He Hll Hlf Hb Hlen Hun) as CM. cbv zeta in CM.
      set (a' := move_slot a last fu) in *.
      set (last' := scan_down fR a' R (last - 1)) in *. clearbody last'.
      destruct CM as (Gother & C1 & C2 & C3 & C4 & C5 & C6 & C7).
      specialize (IH a' last' (fu - 1) (ss - 1) (e :: blk) ltac:(lia) C1 C2).
      assert (Hss' : len (seg a' lo last') = ss - 1).
      { rewrite C3, len_app in Hss. cbn in Hss. lia. }
      specialize (IH Hss' C4 C5 C7 ltac:(lia)).
      destruct (compact2 f fR a' R last' (fu - 1) (ss - 1)) as [a'' fu''].
      destruct IH as (I1 & I2 & I3 & I4).
      rewrite C3, <- app_assoc. cbn [app].
      split; [exact I1|]. split; [exact I2|]. split; [exact I3|].
      intros j Hj. rewrite I4 by exact Hj. apply Gother; lia.
Qed.

Lemma compact1_spec : forall f a last fu ss blk,
  (N.to_nat ss <= f)%nat ->
  block a (fu + 1) blk -> fu + 1 + len blk = hiT + 1 ->
  len (seg a lo last) + 1 = ss ->
  (forall j, last < j <= fu -> aget a j = None) -> last <= fu ->
  (last = 0 \/ aget a last <> None) -> lo + ss <= fu + 1 ->
  (forall p q, lo <= p -> p < q -> q <= last -> aget a p <> None -> aget a q <> None -> key_at a p < key_at a q) ->
  (forall p, lo <= p <= last -> aget a p <> None -> key_at a p <> key) ->
  (forall p, p < lo -> aget a p <> None -> key_at a p < key) ->
  (forall e, In e blk -> key < fst e) ->
  let '(a', fu') := compact1 f fR a R key val last fu ss in
  exists blk' (addf : bool),
    block a' (fu' + 1) blk' /\ fu' + 1 + len blk' = hiT + 1 /\
    (forall j, lo <= j <= fu' -> aget a' j = None) /\
    (forall j, j < lo \/ hiT < j -> aget a' j = aget a j) /\
    pend addf key val blk' = ins key val (seg a lo last ++ blk) /\
    len blk' + (if addf then 1 else 0) = len (seg a lo last) + 1 + len blk.
Proof.
  induction f as [|f IH]; intros a last fu ss blk Hf Hb Hlen Hss Hun Hlf Hlast Hroom Hsort Hnk Hpred Hgt;
    [lia|].
  cbn [compact1]. destruct (ss =? 0) eqn:E0; [apply N.eqb_eq in E0; lia|]. clear E0.
  destruct ((last =? 0) || (key_at a last <? key)) eqn:C1.
  - (* the key is greater than everything left *)
    assert (Hlt : forall e, In e (seg a lo last) -> fst e < key).
    { intros e He. apply in_seg in He. destruct He as (p & Hp & Hpe).
      apply orb_true_iff in C1. destruct C1 as [C1|C1]. { apply N.eqb_eq in C1. lia. }
      apply N.ltb_lt in C1.
      assert (Hul : aget a last <> None) by (destruct Hlast; [lia|auto]).
      replace (fst e) with (key_at a p). 2:{ destruct e as [k d]. apply (key_at_some _ _ _ _ Hpe). }
      destruct (N.eq_dec p last) as [->|Hn]; auto.
      specialize (Hsort p last ltac:(lia) ltac:(lia) ltac:(lia) ltac:(rewrite Hpe; discriminate) Hul). lia. }
    destruct ((last =? 0) || negb (last =? fu)) eqn:C2.
    + (* the key is written at fu *)
      assert (Hlfu : last < fu).
      { apply orb_true_iff in C2. destruct C2 as [C2|C2]. { apply N.eqb_eq in C2. lia. }
        apply negb_true_iff, N.eqb_neq in C2. lia. }
      set (a2 := aset a fu (key, val)).
      assert (G2 : forall j, j <> fu -> aget a2 j = aget a j).
      { intros j Hj. apply aget_aset_other. lia. }
      assert (Hseg2 : seg a2 lo last = seg a lo last).
      { apply seg_ext. intros j Hj. apply G2. lia. }
      pose proof (compact2_spec f a2 last (fu - 1) (ss - 1) ((key, val) :: blk) ltac:(lia)) as H2.
      replace (fu - 1 + 1) with fu in H2 by lia.
      assert (B2 : block a2 fu ((key, val) :: blk)).
      { cbn [block]. split. { apply aget_aset_same. lia. }
        apply block_ext with a; auto. intros j Hj. symmetry. apply G2. lia. }
      specialize (H2 B2 ltac:(rewrite len_cons; lia) ltac:(rewrite Hseg2; lia)).
      assert (U2 : forall j, last < j <= fu - 1 -> aget a2 j = None).
      { intros j Hj. rewrite G2 by lia. apply Hun. lia. }
      assert (L2 : last = 0 \/ aget a2 last <> None).
      { destruct Hlast; [left; auto|right]. rewrite G2 by lia. auto. }
      specialize (H2 U2 ltac:(lia) L2 ltac:(lia)).
      destruct (compact2 f fR a2 R last (fu - 1) (ss - 1)) as [a' fu'].
      destruct H2 as (I1 & I2 & I3 & I4). rewrite Hseg2 in I1, I2.
      exists (seg a lo last ++ (key, val) :: blk), false.
      split; [exact I1|]. split; [exact I2|]. split; [exact I3|].
      split. { intros j Hj. rewrite I4 by exact Hj. apply G2. lia. }
      split. { cbn [pend]. rewrite ins_app_lt by exact Hlt. rewrite ins_gt by exact Hgt. reflexivity. }
      rewrite len_app, len_cons. lia.
    + (* deferred to the redistribution *)
      pose proof (compact2_spec f a last fu (ss - 1) blk ltac:(lia) Hb Hlen ltac:(lia) Hun Hlf Hlast ltac:(lia)) as H2.
      destruct (compact2 f fR a R last fu (ss - 1)) as [a' fu'].
      destruct H2 as (I1 & I2 & I3 & I4).
      exists (seg a lo last ++ blk), true.
      split; [exact I1|]. split; [exact I2|]. split; [exact I3|]. split; [exact I4|].
      split; [reflexivity|]. rewrite len_app. lia.
  - (* the element at last is greater than the key: move it *)
    apply orb_false_iff in C1. destruct C1 as [C1a C1b].
    apply N.eqb_neq in C1a. apply N.ltb_ge in C1b.
    assert (Hu : aget a last <> None) by (destruct Hlast; [lia|auto]).
    assert (Hll : lo <= last).
    { destruct (N.le_gt_cases lo last); auto. specialize (Hpred last ltac:(lia) Hu). lia. }
    assert (Hkl : key < key_at a last). { specialize (Hnk last ltac:(lia) Hu). lia. }
    destruct (aget a last) as [e|] eqn:He; [|congruence].
    pose proof (compact_move a last fu e blk He Hll Hlf Hb Hlen Hun) as CM. cbv zeta in CM.
    set (a' := move_slot a last fu) in *.
    set (last' := scan_down fR a' R (last - 1)) in *. clearbody last'.
    destruct CM as (Gother & M1 & M2 & M3 & M4 & M5 & M6 & M7).
    assert (Hss' : len (seg a' lo last') + 1 = ss - 1).
    { rewrite M3, len_app in Hss. cbn in Hss. lia. }
    assert (Hfe : fst e = key_at a last). { destruct e as [k d]. symmetry. apply (key_at_some _ _ _ _ He). }
    specialize (IH a' last' (fu - 1) (ss - 1) (e :: blk) ltac:(lia) M1 M2 Hss' M4 M5 M7 ltac:(lia)).
    assert (Hsame : forall p, p < last -> aget a' p = aget a p).
    { intros p Hp. apply Gother; lia. }
    assert (S' : forall p q, lo <= p -> p < q -> q <= last' -> aget a' p <> None -> aget a' q <> None ->
                 key_at a' p < key_at a' q).
    { intros p q H1 H2 H3 H4 H5. rewrite (key_at_ext a' a p), (key_at_ext a' a q) by (apply Hsame; lia).
      rewrite Hsame in H4, H5 by lia. apply Hsort; auto; lia. }
    assert (N' : forall p, lo <= p <= last' -> aget a' p <> None -> key_at a' p <> key).
    { intros p H1 H2. rewrite (key_at_ext a' a p) by (apply Hsame; lia). rewrite Hsame in H2 by lia.
      apply Hnk; auto. lia. }
    assert (P' : forall p, p < lo -> aget a' p <> None -> key_at a' p < key).
    { intros p H1 H2. rewrite (key_at_ext a' a p) by (apply Hsame; lia). rewrite Hsame in H2 by lia.
      apply Hpred; auto. }
    assert (G' : forall e0, In e0 (e :: blk) -> key < fst e0).
    { intros e0 [<-|H]; [lia|auto]. }
    specialize (IH S' N' P' G').
    destruct (compact1 f fR a' R key val last' (fu - 1) (ss - 1)) as [a'' fu''].
    destruct IH as (blk' & addf & I1 & I2 & I3 & I4 & I5 & I6).
    exists blk', addf.
    split; [exact I1|]. split; [exact I2|]. split; [exact I3|].
    split. { intros j Hj. rewrite I4 by exact Hj. apply Gother; lia. }
    split. { rewrite I5, M3, <- app_assoc. reflexivity. }
    rewrite I6, M3, len_app, len_cons. cbn. lia.
Qed.

Lemma compact_spec : forall a ss (add : bool),
  lo <= hiT + 1 ->
  ss = len (seg a lo hiT) + (if add then 1 else 0) -> lo + ss <= hiT + 1 ->
  (forall i, aget a i <> None -> 1 <= i <= R) ->
  (add = true ->
     (forall p q, lo <= p -> p < q -> q <= hiT -> aget a p <> None -> aget a q <> None -> key_at a p < key_at a q) /\
     (forall p, lo <= p <= hiT -> aget a p <> None -> key_at a p <> key) /\
     (forall p, p < lo -> aget a p <> None -> key_at a p < key)) ->
  let '(a1, fu) := compact fR a R hiT ss key val add in
  exists blk, block a1 (fu + 1) blk /\ fu + 1 + len blk = hiT + 1 /\
    (forall j, lo <= j <= fu -> aget a1 j = None) /\
    (forall j, j < lo \/ hiT < j -> aget a1 j = aget a j) /\
    pend (negb (fu =? hiT - ss)) key val blk = (if add then ins key val (seg a lo hiT) else seg a lo hiT) /\
    lo <= fu + 1 /\ (add = false -> negb (fu =? hiT - ss) = false).
Proof.
  intros a ss add Hlh Hss Hroom Hrange Hadd.
  unfold compact.
  pose proof (scan_down_used a R hiT ltac:(lia)) as SD. cbv zeta in SD. fold fR in SD.
  set (last := scan_down fR a R hiT) in *. clearbody last.
  destruct SD as (SD1 & SD2 & SD3).
  assert (Hlast : last = 0 \/ aget a last <> None). { destruct SD2 as [H|[H|H]]; auto. lia. }
  assert (Hseg : seg a lo hiT = seg a lo last). { apply seg_shrink; auto. }
  assert (Hfuel : (N.to_nat ss <= fR)%nat).
  { unfold fR, fuel_of. lia. }
  assert (Hb0 : block a (hiT + 1) []) by exact I.
  destruct add.
  - destruct (Hadd eq_refl) as (A1 & A2 & A3).
    pose proof (compact1_spec fR a last hiT ss [] Hfuel Hb0 ltac:(rewrite len_nil; lia)
                  ltac:(rewrite <- Hseg; lia) SD3 SD1 Hlast Hroom) as H1.
    specialize (H1 ltac:(intros; apply A1; auto; lia) ltac:(intros; apply A2; auto; lia) A3
                   (fun e (H : In e []) => match H with end)).
    destruct (compact1 fR fR a R key val last hiT ss) as [a1 fu].
    destruct H1 as (blk' & addf & I1 & I2 & I3 & I4 & I5 & I6).
    rewrite app_nil_r in I5. rewrite <- Hseg in I5, I6. rewrite len_nil in I6.
    exists blk'. split; [exact I1|]. split; [exact I2|]. split; [exact I3|]. split; [exact I4|].
    split; [|split; [destruct addf; lia|discriminate]].
    rewrite <- I5. f_equal.
    destruct addf.
    + apply negb_true_iff, N.eqb_neq. lia.
    + apply negb_false_iff, N.eqb_eq. lia.
  - pose proof (compact2_spec fR a last hiT ss [] Hfuel Hb0 ltac:(rewrite len_nil; lia)
                  ltac:(rewrite <- Hseg; lia) SD3 SD1 Hlast Hroom) as H2.
    destruct (compact2 fR fR a R last hiT ss) as [a1 fu].
    destruct H2 as (I1 & I2 & I3 & I4).
    rewrite app_nil_r, <- Hseg in I1, I2.
    exists (seg a lo hiT). split; [exact I1|]. split; [exact I2|]. split; [exact I3|]. split; [exact I4|].
    assert (Hfl : negb (fu =? hiT - ss) = false) by (apply negb_false_iff, N.eqb_eq; lia).
    split; [|split; [lia|intros _; exact Hfl]].
    rewrite Hfl. reflexivity.
Qed.

End Compact.


(* ================= Rebal ================= *)

Lemma ins_app_gt : forall k v l1 l2, (forall e, In e l2 -> k < fst e) -> ins k v (l1 ++ l2) = ins k v l1 ++ l2.
Proof.
  induction l1 as [|[k' v'] r IH]; intros l2 H; cbn [app ins].
  - apply ins_gt. exact H.
  - destruct (k <? k'); [reflexivity|]. cbn [app]. f_equal. apply IH. exact H.
Qed.

Lemma ins_m_insert : forall k v l, (forall e, In e l -> fst e <> k) -> ins k v l = m_insert k v l.
Proof.
  induction l as [|[k' v'] r IH]; intros H; cbn [ins m_insert]; auto.
  destruct (k <? k'); [reflexivity|].
  assert (E : (k =? k') = false).
  { apply N.eqb_neq. intro. subst. apply (H (k', v')); [left|]; reflexivity. }
  rewrite E. f_equal. apply IH. intros e He. apply H. right. exact He.
Qed.

(* subtree ranges are nested or disjoint *)
Lemma sub_laminar : forall h1 i1 h2 i2 j, node h1 i1 -> node h2 i2 -> h1 <= h2 ->
  in_sub h1 i1 j -> in_sub h2 i2 j ->
  i2 - (2 ^ h2 - 1) <= i1 - (2 ^ h1 - 1) /\ i1 + (2 ^ h1 - 1) <= i2 + (2 ^ h2 - 1).
Proof.
  intros h1 i1 h2 i2 j [j1 E1] [j2 E2] Hh [A1 A2] [B1 B2].
  assert (Hm : 2 ^ h2 = 2 ^ h1 * 2 ^ (h2 - h1)).
  { rewrite <- N.pow_add_r. f_equal. lia. }
  pose proof (pow2_pos h1) as P1. pose proof (pow2_pos (h2 - h1)) as P2.
  set (u := 2 ^ h1) in *. set (m := 2 ^ (h2 - h1)) in *. clearbody u m.
  rewrite Hm in *. subst i1 i2.
  assert (C1 : j1 < m * (j2 + 1)).
  { apply (N.mul_lt_mono_pos_l (2 * u)); nia. }
  assert (C2 : m * j2 < j1 + 1).
  { apply (N.mul_lt_mono_pos_l (2 * u)); nia. }
  assert (C3 : m * j2 <= j1) by lia.
  assert (C4 : j1 + 1 <= m * (j2 + 1)) by lia.
  assert (D1 : 2 * u * (m * j2) <= 2 * u * j1) by (apply N.mul_le_mono_l; exact C3).
  assert (D2 : 2 * u * (j1 + 1) <= 2 * u * (m * (j2 + 1))) by (apply N.mul_le_mono_l; exact C4).
  nia.
Qed.

Lemma it_depth_node : forall md h i, h <= md -> it_depth (2 ^ md - 1) (i, 2 ^ h) = md - h.
Proof.
  intros md h i Hh. unfold it_depth. cbn [snd].
  pose proof (pow2_pos md).
  replace (2 ^ md - 1 + 1) with (2 ^ md) by lia.
  replace md with ((md - h) + h) at 1 by lia.
  rewrite N.pow_add_r, N.div_mul by (apply N.pow_nonzero; lia).
  apply N.log2_pow2. lia.
Qed.

Lemma seg_len_count : forall a h i, 2 ^ h <= i ->
  len (seg a (i - (2 ^ h - 1)) (i + (2 ^ h - 1))) = count_used_in_subtree a (i, 2 ^ h).
Proof.
  intros a h i Hi. unfold len, seg, count_used_in_subtree. cbn [fst snd].
  rewrite used_from_length_count. f_equal. pose proof (pow2_pos h). lia.
Qed.

Section Tail.
Variables (R md key : N) (val : Z).
Hypothesis Hmd : 2 <= md.
Hypothesis HR : R = 2 ^ md - 1.

Lemma height_lt_fuel : forall h, h < md -> (N.to_nat h < fuel_of R)%nat.
Proof.
  intros h Hh. unfold fuel_of. pose proof (N.pow_gt_lin_r 2 md ltac:(lia)). lia.
Qed.

Lemma reb_tail : forall a (add : bool) h' i' ss',
  in_range_a a R -> shape_a a R -> node h' i' -> h' < md -> i' + (2 ^ h' - 1) <= R ->
  ss' = len (seg a (i' - (2 ^ h' - 1)) (i' + (2 ^ h' - 1))) + (if add then 1 else 0) ->
  ss' <= 2 * 2 ^ h' - 1 ->
  (forall hx x, node hx x -> h' < hx -> in_sub hx x i' -> x <= R -> aget a x <> None) ->
  (add = true -> psorted a /\
     (forall p, in_sub h' i' p -> aget a p <> None -> key_at a p <> key) /\
     (forall p, p < i' - (2 ^ h' - 1) -> aget a p <> None -> key_at a p < key) /\
     (forall p, i' + (2 ^ h' - 1) < p -> aget a p <> None -> key < key_at a p)) ->
  let '(a1, fu) := compact (fuel_of R) a R (i' + 2 ^ h' - 1) ss' key val add in
  let '(a2, _, _) := redis (fuel_of R) R key val ss' i'
                       (a1, fu + 1, negb (fu =? i' + 2 ^ h' - 1 - ss')) in
  seg a2 1 R = (if add then ins key val (seg a 1 R) else seg a 1 R) /\
  in_range_a a2 R /\ shape_a a2 R /\
  (forall j, j < i' - (2 ^ h' - 1) \/ i' + (2 ^ h' - 1) < j -> aget a2 j = aget a j) /\
  (aget a2 i' <> None \/ forall j, in_sub h' i' j -> aget a2 j = None).
Proof.
  intros a add h' i' ss' Hrange Hshape Hnode Hh' Hhi Hss Hfit Hanc Hadd.
  pose proof (node_ge _ _ Hnode) as Hge. pose proof (pow2_pos h') as Hp.
  replace (i' + 2 ^ h' - 1) with (i' + (2 ^ h' - 1)) by lia.
  set (lo := i' - (2 ^ h' - 1)) in *. set (hiT := i' + (2 ^ h' - 1)) in *.
  assert (Hlo1 : 1 <= lo) by (unfold lo; lia).
  assert (Hlh : lo <= hiT + 1) by (unfold lo, hiT; lia).
  assert (Hsz : hiT + 1 - lo = 2 * 2 ^ h' - 1) by (unfold lo, hiT; lia).
  pose proof (compact_spec R key val lo hiT Hlo1 Hhi a ss' add Hlh Hss ltac:(lia) Hrange) as CS.
  assert (CA : add = true ->
     (forall p q, lo <= p -> p < q -> q <= hiT -> aget a p <> None -> aget a q <> None -> key_at a p < key_at a q) /\
     (forall p, lo <= p <= hiT -> aget a p <> None -> key_at a p <> key) /\
     (forall p, p < lo -> aget a p <> None -> key_at a p < key)).
  { intro Ha. destruct (Hadd Ha) as (A1 & A2 & A3 & A4). split; [|split]; auto. }
  specialize (CS CA).
  destruct (compact (fuel_of R) a R hiT ss' key val add) as [a1 fu].
  destruct CS as (blk & B1 & B2 & B3 & B4 & B5 & B6 & B7).
  set (flag := negb (fu =? hiT - ss')) in *.
  set (L := seg a lo hiT) in *.
  assert (Hlp : len (pend flag key val blk) = ss').
  { rewrite B5. destruct add; [rewrite len_ins|]; lia. }
  assert (HRI : RI R key hiT a1 (fu + 1) flag blk lo).
  { split; [exact B1|]. split. { intros j Hj. apply B3. lia. }
    split; [exact B2|]. intro Hfl.
    destruct add.
    2:{ rewrite (B7 eq_refl) in Hfl. discriminate. }
    destruct (Hadd eq_refl) as (A1 & A2 & A3 & A4).
    unfold succ_ok. destruct (N.lt_ge_cases R (hiT + 1)) as [Hc|Hc]; [left; exact Hc|right].
    rewrite B4 by lia. destruct (aget a (hiT + 1)) as [[k' v']|] eqn:E; auto.
    rewrite <- (key_at_some _ _ _ _ E). apply A4; [lia|]. rewrite E. discriminate. }
  pose proof (redis_spec R key val hiT Hhi (fuel_of R) ss' h' i' a1 (fu + 1) flag blk Hnode
               (height_lt_fuel h' Hh') ltac:(unfold hiT; lia) Hfit ltac:(lia) HRI ltac:(fold hiT; lia)) as RS.
  destruct (redis (fuel_of R) R key val ss' i' (a1, fu + 1, flag)) as [[a2 lu2] add2].
  destruct RS as (em & blk2 & R1 & R2 & R3 & R4 & R5 & R6 & R7 & R8).
  fold lo in R4, R5. rewrite <- Hsz in R4. fold (seg a2 lo hiT) in R4.
  (* everything was consumed *)
  assert (Hem : em = pend flag key val blk).
  { assert (len (pend add2 key val blk2) = 0).
    { rewrite R1, len_app in Hlp. lia. }
    destruct (pend add2 key val blk2); [|unfold len in H; cbn in H; lia].
    rewrite app_nil_r in R1. auto. }
  assert (Hout : forall j, j < lo \/ hiT < j -> aget a2 j = aget a j).
  { intros j [Hj|Hj].
    - rewrite R5 by exact Hj. apply B4. left. exact Hj.
    - rewrite R6 by exact Hj. apply B4. right. exact Hj. }
  assert (Hsplit : forall b, seg b 1 R = seg b 1 (lo - 1) ++ seg b lo hiT ++ seg b (hiT + 1) R).
  { intro b. rewrite (seg_app b 1 (lo - 1) R) by lia. f_equal.
    replace (lo - 1 + 1) with lo by lia. apply seg_app; lia. }
  assert (Hrootuse : aget a2 i' <> None \/ forall j, in_sub h' i' j -> aget a2 j = None).
  { destruct (N.eq_dec ss' 0) as [Hz|Hnz]; [right|left; apply R7; lia].
    assert (Hemn : em = []). { destruct em; [reflexivity|]. unfold len in R2. cbn in R2. lia. }
    rewrite Hemn in R4. intros j Hj. unfold seg in R4. apply (used_from_nil_inv _ _ _ R4).
    unfold in_sub in Hj. fold lo hiT in Hj. lia. }
  split; [|split; [|split; [|split; [exact Hout|exact Hrootuse]]]].
  - rewrite (Hsplit a2), (Hsplit a).
    rewrite (seg_ext a2 a 1 (lo - 1)) by (intros j Hj; apply Hout; lia).
    rewrite (seg_ext a2 a (hiT + 1) R) by (intros j Hj; apply Hout; lia).
    rewrite R4, Hem, B5.
    destruct add; [|reflexivity].
    destruct (Hadd eq_refl) as (A1 & A2 & A3 & A4).
    rewrite ins_app_lt.
    2:{ intros e He. apply in_seg in He. destruct He as (p & Hpr & Hpe).
        destruct e as [k d]. cbn [fst]. rewrite <- (key_at_some _ _ _ _ Hpe). apply A3; [lia|].
        rewrite Hpe. discriminate. }
    f_equal. rewrite ins_app_gt; [reflexivity|].
    intros e He. apply in_seg in He. destruct He as (p & Hpr & Hpe).
    destruct e as [k d]. cbn [fst]. rewrite <- (key_at_some _ _ _ _ Hpe). apply A4; [lia|].
    rewrite Hpe. discriminate.
  - intros j Hj. destruct (N.lt_ge_cases j lo) as [H1|H1].
    { apply Hrange. rewrite <- Hout by (left; exact H1). exact Hj. }
    destruct (N.lt_ge_cases hiT j) as [H2|H2].
    { apply Hrange. rewrite <- Hout by (right; exact H2). exact Hj. }
    lia.
  - intros x j Hx Hxn Hj.
    destruct (N.lt_ge_cases x lo) as [H1|H1]; [|destruct (N.lt_ge_cases hiT x) as [H2|H2]].
    3:{ apply (R8 x); auto. unfold in_sub. fold lo hiT. lia. }
    all: assert (Hxa : aget a x = None) by (rewrite <- Hout by lia; exact Hxn).
    all: assert (Hx0 : x <> 0) by lia.
    all: pose proof (node_of_lowbit x Hx0) as Nx; set (hx := N.log2 (lowbit x)) in *;
         pose proof (node_lowbit _ _ Nx) as Lx; rewrite Lx in Hj.
    all: assert (Hja : aget a j = None) by (apply (Hshape x j Hx Hxa); rewrite Lx; exact Hj).
    all: destruct (N.lt_ge_cases j lo) as [J1|J1]; [rewrite Hout by lia; exact Hja|].
    all: destruct (N.lt_ge_cases hiT j) as [J2|J2]; [rewrite Hout by lia; exact Hja|].
    all: exfalso.
    all: assert (Jx : in_sub hx x j) by exact Hj.
    all: assert (Ji : in_sub h' i' j) by (unfold in_sub; fold lo hiT; lia).
    all: destruct (N.le_gt_cases hx h') as [Hle|Hgt].
    all: try (pose proof (sub_laminar hx x h' i' j Nx Hnode Hle Jx Ji) as [Q1 Q2];
              pose proof (node_ge _ _ Nx); pose proof (pow2_pos hx); fold lo hiT in Q1, Q2; lia).
    all: pose proof (sub_laminar h' i' hx x j Hnode Nx ltac:(lia) Ji Jx) as [Q1 Q2].
    all: apply (Hanc hx x Nx Hgt); [unfold in_sub; fold lo hiT in Q1, Q2; unfold lo, hiT in *; lia|lia|exact Hxa].
Qed.

End Tail.


(* ================= Rebal2 ================= *)

Lemma rebalance_spec : forall a R md h i key val,
  2 <= md -> R = 2 ^ md - 1 -> R <> 3 ->
  in_range_a a R -> shape_a a R ->
  node h i -> i + (2 ^ h - 1) <= R -> h < md ->
  (forall h' i', node h' i' -> h < h' -> i' - (2 ^ h' - 1) <= i <= i' + (2 ^ h' - 1) -> i' <= R ->
     aget a i' <> None) ->
  (aget a i <> None ->
     h = 0 /\ psorted a /\ key_at a i <> key /\
     (forall p, p < i -> aget a p <> None -> key_at a p < key) /\
     (forall p, i < p -> aget a p <> None -> key < key_at a p) /\
     len (seg a 1 R) + 1 <= R) ->
  let '(a2, it') := rebalance (fuel_of R) a R md (i, 2 ^ h) key val in
  seg a2 1 R = match aget a i with Some _ => ins key val (seg a 1 R) | None => seg a 1 R end /\
  in_range_a a2 R /\ shape_a a2 R /\
  exists h' i', it' = (i', 2 ^ h') /\ node h' i' /\ h <= h' < md /\ i' + (2 ^ h' - 1) <= R /\
    i' - (2 ^ h' - 1) <= i - (2 ^ h - 1) /\ i + (2 ^ h - 1) <= i' + (2 ^ h' - 1) /\
    (forall j, j < i' - (2 ^ h' - 1) \/ i' + (2 ^ h' - 1) < j -> aget a2 j = aget a j) /\
    (aget a2 i' <> None \/ forall j, in_sub h' i' j -> aget a2 j = None).
Proof.
  intros a R md h i key val Hmd HR HR3 Hrange Hshape Hnode Hhi Hh Hanc Hins.
  pose proof (node_ge _ _ Hnode) as Hge. pose proof (pow2_pos h) as Hp.
  unfold rebalance. destruct (R =? 3) eqn:E3; [apply N.eqb_eq in E3; lia|]. clear E3. cbv zeta. cbn [fst snd].
  assert (Hd : it_depth R (i, 2 ^ h) - 1 = md - 1 - h).
  { rewrite HR, it_depth_node by lia. lia. }
  rewrite Hd. replace (md - (md - 1 - h)) with (N.succ h) by lia. rewrite N.pow_succ_r'.
  set (add := match aget a i with Some _ => true | None => false end).
  set (c := if add then 1 else 0).
  assert (Hss0 : (if match aget a i with Some _ => false | None => true end then 0 else 2)
                 = count_used_in_subtree a (i, 2 ^ h) + c).
  { subst c add. destruct (aget a i) as [e|] eqn:E.
    - destruct Hins as (-> & _); [congruence|].
      unfold count_used_in_subtree. cbn [fst snd]. change (2 ^ 0) with 1.
      replace (N.to_nat (2 * 1 - 1)) with 1%nat by lia. cbn [count_used].
      replace (i - (1 - 1)) with i by lia. rewrite E. reflexivity.
    - rewrite <- seg_len_count by lia. rewrite seg_nil; [reflexivity|].
      intros j Hj. apply (Hshape i j); [lia|exact E|].
      rewrite (node_lowbit _ _ Hnode). exact Hj. }
  rewrite Hss0.
  pose proof (climb_spec (S (N.to_nat md)) a R md c h i _ Hmd HR Hnode ltac:(lia) Hhi Hh Hrange Hanc
                eq_refl ltac:(subst c; destruct add; lia) ltac:(lia)) as CS.
  destruct (climb (S (N.to_nat md)) a R md (i, 2 ^ h) (count_used_in_subtree a (i, 2 ^ h) + c)
              (2 * 2 ^ h - 1) (md - 1 - h)) as [it' ss'].
  destruct CS as (h' & i' & -> & Hnode' & Hh' & Hhi' & Hge' & Hlo' & Hhi2 & Hss' & Hfit).
  cbn [fst snd].
  pose proof (pow2_pos h') as Hp'.
  rewrite <- seg_len_count in Hss' by exact Hge'.
  assert (Hadd_eq : negb match aget a i with Some _ => false | None => true end = add).
  { subst add. destruct (aget a i); reflexivity. }
  rewrite Hadd_eq.
  assert (Hfit' : ss' <= 2 * 2 ^ h' - 1).
  { destruct Hfit as [Hfit|Hroot]; [exact Hfit|].
    (* at the root *)
    assert (Hi' : i' = 2 ^ h').
    { subst h'. assert (2 ^ md = 2 * 2 ^ (md - 1)).
      { rewrite <- N.pow_succ_r'. f_equal. lia. } lia. }
    assert (Hsz : 2 * 2 ^ h' - 1 = R).
    { subst h'. rewrite HR. rewrite <- N.pow_succ_r'. f_equal. f_equal. lia. }
    rewrite Hss', Hi'.
    replace (2 ^ h' - (2 ^ h' - 1)) with 1 by (clear - Hp'; lia).
    replace (2 ^ h' + (2 ^ h' - 1)) with R by (clear - Hp' Hsz; lia). rewrite Hsz.
    subst c add. destruct (aget a i) eqn:E.
    - destruct Hins as (_ & _ & _ & _ & _ & Hroom); [congruence|]. exact Hroom.
    - unfold len, seg. pose proof (used_from_length_le (N.to_nat (R + 1 - 1)) a 1). lia. }
  pose proof (reb_tail R md key val Hmd HR a add h' i' ss' Hrange Hshape Hnode' ltac:(lia) Hhi'
                Hss' Hfit') as RT.
  assert (Hanc' : forall hx x, node hx x -> h' < hx -> in_sub hx x i' -> x <= R -> aget a x <> None).
  { intros hx x Nx Hlt Hin HxR. apply (Hanc hx x Nx ltac:(lia)); [|exact HxR].
    destruct (subtree_contains hx x i' Nx Hin) as (_ & S1 & S2 & _).
    rewrite (node_lowbit _ _ Hnode') in S1, S2. clear - S1 S2 Hlo' Hhi2. lia. }
  assert (Hadd' : add = true -> psorted a /\
     (forall p, in_sub h' i' p -> aget a p <> None -> key_at a p <> key) /\
     (forall p, p < i' - (2 ^ h' - 1) -> aget a p <> None -> key_at a p < key) /\
     (forall p, i' + (2 ^ h' - 1) < p -> aget a p <> None -> key < key_at a p)).
  { intro Ha. assert (Hu : aget a i <> None).
    { subst add. destruct (aget a i); [discriminate|congruence]. }
    destruct (Hins Hu) as (_ & A1 & A2 & A3 & A4 & _).
    split; [exact A1|]. split; [|split].
    - intros p _ Hpu. destruct (N.lt_trichotomy p i) as [H|[H|H]].
      + specialize (A3 p H Hpu). clear - A3. lia.
      + subst p. exact A2.
      + specialize (A4 p H Hpu). clear - A4. lia.
    - intros p Hpl Hpu. apply A3; [clear - Hpl Hlo'; lia|exact Hpu].
    - intros p Hpl Hpu. apply A4; [clear - Hpl Hhi2; lia|exact Hpu]. }
  specialize (RT Hanc' Hadd').
  destruct (compact (fuel_of R) a R (i' + 2 ^ h' - 1) ss' key val add) as [a1 fu].
  destruct (redis (fuel_of R) R key val ss' i' (a1, fu + 1, negb (fu =? i' + 2 ^ h' - 1 - ss')))
    as [[a2 lu2] add2].
  destruct RT as (T1 & T2 & T3 & T4 & T5). split; [|split; [assumption|split; [assumption|]]].
  - rewrite T1. subst add. destruct (aget a i); reflexivity.
  - exists h', i'. repeat (split; [first [reflexivity|assumption|lia]|]). exact T5.
Qed.

Lemma rebalance_R3 : forall fR a md it key val, rebalance fR a 3 md it key val = (a, it_root 3).
Proof. reflexivity. Qed.


(* ================= Insert ================= *)

(* ---------- list-level facts on the ordered map ---------- *)
Lemma forall_m_insert : forall (P : entry -> Prop) k v l, Forall P l -> P (k, v) -> Forall P (m_insert k v l).
Proof.
  induction l as [|[k' v'] r IH]; intros Hl Hp; cbn [m_insert].
  - constructor; auto.
  - inversion Hl; subst. destruct (k <? k'); [constructor; auto|].
    destruct (k =? k'); constructor; auto.
Qed.

Lemma m_insert_sorted : forall k v l, sorted l -> sorted (m_insert k v l).
Proof.
  unfold sorted. induction l as [|[k' v'] r IH]; intros Hs; cbn [m_insert].
  - constructor; constructor.
  - inversion Hs as [|x y Hsr Hfa]; subst.
    destruct (k <? k') eqn:E1.
    + apply N.ltb_lt in E1. constructor; [exact Hs|]. constructor; [exact E1|].
      eapply Forall_impl; [|exact Hfa]. intros e He. unfold key_lt in *. cbn [fst] in *. lia.
    + apply N.ltb_ge in E1. destruct (k =? k') eqn:E2.
      * apply N.eqb_eq in E2. subst k'. constructor; auto.
      * apply N.eqb_neq in E2. constructor; [apply IH; exact Hsr|].
        apply forall_m_insert; auto. unfold key_lt. cbn [fst]. lia.
Qed.

Lemma m_insert_app_lt : forall k v l1 l2, (forall e, In e l1 -> fst e < k) ->
  m_insert k v (l1 ++ l2) = l1 ++ m_insert k v l2.
Proof.
  induction l1 as [|[k' v'] r IH]; intros l2 H; cbn [app m_insert]; auto.
  specialize (H (k', v') (or_introl eq_refl)) as Hk. cbn [fst] in Hk.
  assert (E1 : (k <? k') = false) by (apply N.ltb_ge; lia).
  assert (E2 : (k =? k') = false) by (apply N.eqb_neq; lia).
  rewrite E1, E2. f_equal. apply IH. intros e He. apply H. right. exact He.
Qed.

Lemma m_insert_key_present : forall k v l, sorted l -> In (k, v) l -> m_insert_key k l = l.
Proof.
  unfold sorted. induction l as [|[k' v'] r IH]; intros Hs Hin; [destruct Hin|].
  inversion Hs as [|x y Hsr Hfa]; subst. cbn [m_insert_key].
  destruct Hin as [Heq|Hin].
  - inversion Heq; subst. rewrite N.ltb_irrefl, N.eqb_refl. reflexivity.
  - rewrite Forall_forall in Hfa. specialize (Hfa _ Hin). unfold key_lt in Hfa. cbn [fst] in Hfa.
    assert (E1 : (k <? k') = false) by (apply N.ltb_ge; lia).
    assert (E2 : (k =? k') = false) by (apply N.eqb_neq; lia).
    rewrite E1, E2. f_equal. apply IH; auto.
Qed.

Lemma m_insert_key_absent : forall k l, (forall e, In e l -> fst e <> k) -> m_insert_key k l = m_insert k 0%Z l.
Proof.
  induction l as [|[k' v'] r IH]; intros H; cbn [m_insert_key m_insert]; auto.
  destruct (k <? k'); [reflexivity|].
  assert (E2 : (k =? k') = false).
  { apply N.eqb_neq. intro. subst. apply (H (k', v')); [left|]; reflexivity. }
  rewrite E2. f_equal. apply IH. intros e He. apply H. right. exact He.
Qed.

Lemma abs_seg : forall t, abs_tree t = seg (t_arr t) 1 (t_rsz t).
Proof. intro t. unfold abs_tree, seg. f_equal. lia. Qed.

Lemma len_length : forall l, len l = N.of_nat (length l). Proof. reflexivity. Qed.

(* ---------- writing into a slot ---------- *)
(* overwrite the datum of a used slot holding the same key *)
Lemma overwrite_refines : forall t p v,
  inv t -> aget (t_arr t) p <> None ->
  let k := key_at (t_arr t) p in
  let t' := mkT (aset (t_arr t) p (k, v)) (t_rsz t) (t_depth t) (t_size t) in
  abs_tree t' = m_insert k v (abs_tree t) /\ inv t'.
Proof.
  intros t p v (Hrange & Hshape & Hsorted & Hlen & Hdepth) Hu. cbv zeta.
  set (k := key_at (t_arr t) p). set (a := t_arr t) in *. set (R := t_rsz t) in *.
  pose proof (Hrange p Hu) as Hp. fold R in Hp.
  pose proof (sorted_abs_psorted t Hrange Hsorted) as Hps. fold a in Hps.
  assert (Habs : abs_tree (mkT (aset a p (k, v)) R (t_depth t) (t_size t)) = m_insert k v (abs_tree t)).
  { unfold abs_tree. cbn [t_arr t_rsz]. fold a R.
    rewrite used_from_aset by lia.
    rewrite (used_from_split_at (N.to_nat R) a 1 p) by lia.
    pose proof (aget_key_dat a p Hu) as E. fold k in E. rewrite E.
    rewrite m_insert_app_lt.
    2:{ intros e He. apply in_used_from in He. destruct He as (q & Hq & Hqe).
        destruct e as [k0 d0]. cbn [fst]. rewrite <- (key_at_some _ _ _ _ Hqe).
        apply Hps; [lia| |exact Hu]. rewrite Hqe. discriminate. }
    cbn [app m_insert]. rewrite N.ltb_irrefl, N.eqb_refl. reflexivity. }
  split; [exact Habs|].
  assert (Hsame : forall j, aget (aset a p (k, v)) j = None <-> aget a j = None).
  { intro j. rewrite aget_aset by lia. destruct (j =? p) eqn:E.
    - apply N.eqb_eq in E. subst j. split; [discriminate|]. intro. contradiction.
    - reflexivity. }
  unfold inv. cbn [t_arr t_rsz t_depth t_size]. fold a R. rewrite Habs.
  split. { intros j Hj. apply Hrange. fold a. rewrite <- Hsame. exact Hj. }
  split. { intros x j Hx Hxn Hj. cbn [t_arr t_rsz] in *. rewrite Hsame in *. apply (Hshape x j Hx Hxn Hj). }
  split. { apply m_insert_sorted. exact Hsorted. }
  split; [|exact Hdepth].
  rewrite <- Hlen. f_equal.
  unfold abs_tree. fold a R.
  rewrite (used_from_split_at (N.to_nat R) a 1 p) by lia.
  pose proof (aget_key_dat a p Hu) as E. fold k in E. rewrite E.
  rewrite m_insert_app_lt.
  2:{ intros e He. apply in_used_from in He. destruct He as (q & Hq & Hqe).
      destruct e as [k0 d0]. cbn [fst]. rewrite <- (key_at_some _ _ _ _ Hqe).
      apply Hps; [lia| |exact Hu]. rewrite Hqe. discriminate. }
  cbn [app m_insert]. rewrite N.ltb_irrefl, N.eqb_refl. rewrite !app_length. reflexivity.
Qed.

Lemma m_insert_length_absent : forall k v (l : list entry), (forall e, In e l -> fst e <> k) ->
  @length entry (m_insert k v l) = S (@length entry l).
Proof.
  intros k v l H. rewrite <- ins_m_insert by exact H.
  pose proof (len_ins k v l) as E. unfold len in E. apply Nat2N.inj. rewrite Nat2N.inj_succ, <- N.add_1_r. exact E.
Qed.

(* a new entry written into a free slot whose slot-order neighbours bracket the key *)
Lemma free_slot_refines : forall t c k v,
  inv t -> 1 <= c <= t_rsz t -> aget (t_arr t) c = None ->
  (forall p, p < c -> aget (t_arr t) p <> None -> key_at (t_arr t) p < k) ->
  (forall p, c < p -> aget (t_arr t) p <> None -> k < key_at (t_arr t) p) ->
  (forall x, 1 <= x <= t_rsz t -> x <> c -> x - (lowbit x - 1) <= c <= x + (lowbit x - 1) ->
             aget (t_arr t) x <> None) ->
  2 <= t_depth t ->
  let t' := mkT (aset (t_arr t) c (k, v)) (t_rsz t) (t_depth t) (t_size t + 1) in
  abs_tree t' = m_insert k v (abs_tree t) /\ inv t'.
Proof.
  intros t c k v (Hrange & Hshape & Hsorted & Hlen & Hdepth) Hc Hcn Hlt Hgt Hanc Hd2. cbv zeta.
  set (a := t_arr t) in *. set (R := t_rsz t) in *.
  assert (Habsent : forall e, In e (abs_tree t) -> fst e <> k).
  { intros e He. apply in_abs_tree in He. destruct He as (p & Hp & Hpe). fold a in Hpe.
    destruct e as [k0 d0]. cbn [fst]. rewrite <- (key_at_some _ _ _ _ Hpe).
    assert (Hu : aget a p <> None) by (rewrite Hpe; discriminate).
    destruct (N.lt_trichotomy p c) as [H|[H|H]].
    - specialize (Hlt p H Hu). lia.
    - subst p. congruence.
    - specialize (Hgt p H Hu). lia. }
  assert (Habs : abs_tree (mkT (aset a c (k, v)) R (t_depth t) (t_size t + 1)) = m_insert k v (abs_tree t)).
  { unfold abs_tree. cbn [t_arr t_rsz]. fold a R.
    rewrite used_from_aset by lia.
    rewrite (used_from_split_at (N.to_nat R) a 1 c) by lia. rewrite Hcn. cbn [app].
    rewrite m_insert_app_lt.
    2:{ intros e He. apply in_used_from in He. destruct He as (q & Hq & Hqe).
        destruct e as [k0 d0]. cbn [fst]. rewrite <- (key_at_some _ _ _ _ Hqe).
        apply Hlt; [lia|]. rewrite Hqe. discriminate. }
    f_equal. rewrite <- ins_m_insert.
    - symmetry. apply ins_gt. intros e He. apply in_used_from in He. destruct He as (q & Hq & Hqe).
      destruct e as [k0 d0]. cbn [fst]. rewrite <- (key_at_some _ _ _ _ Hqe).
      apply Hgt; [lia|]. rewrite Hqe. discriminate.
    - intros e He. apply in_used_from in He. destruct He as (q & Hq & Hqe).
      destruct e as [k0 d0]. cbn [fst]. rewrite <- (key_at_some _ _ _ _ Hqe).
      assert (k < key_at a q); [|lia]. apply Hgt; [lia|]. rewrite Hqe. discriminate. }
  split; [exact Habs|].
  unfold inv, in_range, shape. cbn [t_arr t_rsz t_depth t_size]. fold a R. rewrite Habs.
  split. { intros j Hj. rewrite aget_aset in Hj by lia. destruct (j =? c) eqn:E.
           - apply N.eqb_eq in E. subst j. exact Hc.
           - apply Hrange. exact Hj. }
  split.
  { intros x j Hx Hxn Hj. cbn [t_arr t_rsz] in *. fold a R in Hx, Hxn |- *.
    rewrite aget_aset in Hxn by lia. destruct (x =? c) eqn:E; [discriminate|]. apply N.eqb_neq in E.
    rewrite aget_aset by lia. destruct (j =? c) eqn:E2.
    - apply N.eqb_eq in E2. subst j. exfalso. apply (Hanc x Hx E Hj). exact Hxn.
    - apply (Hshape x j Hx Hxn Hj). }
  split. { apply m_insert_sorted. exact Hsorted. }
  split. { rewrite m_insert_length_absent by exact Habsent. rewrite Nat2N.inj_succ, Hlen. lia. }
  right. destruct Hdepth as [[H1 H2]|(H1 & H2 & H3)]; [fold R in H1; lia|].
  split; [exact H1|]. split; [exact H2|lia].
Qed.

Lemma child_slot_refines : forall t h' i c key val,
  inv t -> 2 <= t_depth t -> node (N.succ h') i -> i + (2 ^ N.succ h' - 1) <= t_rsz t ->
  aget (t_arr t) i <> None ->
  (c = i - 2 ^ h' \/ c = i + 2 ^ h') -> aget (t_arr t) c = None ->
  (forall p, p < c -> aget (t_arr t) p <> None -> key_at (t_arr t) p < key) ->
  (forall p, c < p -> aget (t_arr t) p <> None -> key < key_at (t_arr t) p) ->
  let t' := mkT (aset (t_arr t) c (key, val)) (t_rsz t) (t_depth t) (t_size t + 1) in
  abs_tree t' = m_insert key val (abs_tree t) /\ inv t'.
Proof.
  intros t h' i c key val Hinv Hmd Hnode Hhi Hu Hc Hcn Hl Hg.
  pose proof (subtree_split h' i Hnode) as SS. cbv zeta in SS.
  destruct SS as (S1 & S2 & S3 & S4 & S5 & S6).
  pose proof (pow2_pos h') as Hp'.
  assert (Hcr : 1 <= c <= t_rsz t) by (destruct Hc as [-> | ->]; lia).
  assert (Hci : in_sub (N.succ h') i c) by (unfold in_sub; destruct Hc as [-> | ->]; lia).
  assert (Nc : node h' c) by (destruct Hc as [-> | ->]; [apply node_left|apply node_right]; exact Hnode).
  clear S1 S2 S3 S4 S5 S6 Hc.
  apply (free_slot_refines t c key val Hinv Hcr Hcn Hl Hg); [|exact Hmd].
  intros x Hx Hxc Hin Hxn.
  destruct Hinv as (_ & Hshape & _).
  assert (Hx0 : x <> 0) by (clear - Hx; lia).
  pose proof (node_of_lowbit x Hx0) as Nx. set (hx := N.log2 (lowbit x)) in *. clearbody hx.
  rewrite (node_lowbit _ _ Nx) in Hin.
  destruct (subtree_contains hx x c Nx Hin) as (_ & _ & _ & T4).
  destruct (T4 (fun E => Hxc (eq_sym E))) as [T5 _]. rewrite (node_lowbit _ _ Nc) in T5.
  assert (Hlt : h' < hx) by (apply N.pow_lt_mono_r_iff with 2; [reflexivity|exact T5]).
  destruct (sub_laminar (N.succ h') i hx x c Hnode Nx (proj2 (N.le_succ_l h' hx) Hlt) Hci Hin) as [Q1 Q2].
  apply Hu. apply (Hshape x i); [exact Hx|exact Hxn|].
  rewrite (node_lowbit _ _ Nx). pose proof (node_ge _ _ Hnode) as Hge.
  clear - Q1 Q2 Hge. pose proof (pow2_pos (N.succ h')). lia.
Qed.

Lemma node_in_tree : forall md h i, 1 <= md -> node h i -> i <= 2 ^ md - 1 ->
  h < md /\ i + (2 ^ h - 1) <= 2 ^ md - 1.
Proof.
  intros md h i Hmd Hn Hi.
  assert (Hm : md = N.succ (md - 1)) by lia.
  pose proof (root_range (md - 1)) as [R1 R2]. rewrite <- Hm in R2.
  pose proof (node_ge _ _ Hn) as Hge.
  destruct (subtree_contains (md - 1) (2 ^ (md - 1)) i (root_node (md - 1))) as (S1 & S2 & S3 & S4).
  { rewrite R1, R2. pose proof (pow2_pos h). lia. }
  rewrite (node_lowbit _ _ Hn) in *. rewrite R2 in S3. split; [|exact S3].
  assert (h <= md - 1); [|lia]. apply N.pow_le_mono_r_iff with 2; [lia|exact S1].
Qed.

(* ---------- the search postcondition (proved in COTreeSearch.v as go_down_spec) ---------- *)
Definition search_post (t : tree) (key : N) (it : titer) : Prop :=
  1 <= fst it <= t_rsz t /\ snd it = lowbit (fst it) /\ aget (t_arr t) (fst it) <> None /\
  (key_at (t_arr t) (fst it) = key
   \/ (key < key_at (t_arr t) (fst it) /\
       (forall p, p < fst it -> aget (t_arr t) p <> None -> key_at (t_arr t) p < key) /\
       (snd it = 1 \/ aget (t_arr t) (fst (it_left it)) = None))
   \/ (key_at (t_arr t) (fst it) < key /\
       (forall p, fst it < p -> aget (t_arr t) p <> None -> key < key_at (t_arr t) p) /\
       (snd it = 1 \/ aget (t_arr t) (fst (it_right it)) = None))).
Definition search_ok : Prop :=
  forall t key, inv t -> t_size t <> 0 -> search_post t key (root_search t key).

(* the part of insert_precise_aux after the decision to rebuild *)
Definition ins_tail (t1 : tree) (key : N) (val : Z) (it1 : titer) : tree * N :=
  let R := t_rsz t1 in
  let a := t_arr t1 in
  let fR := fuel_of R in
  let sz := t_size t1 + 1 in
  if negb (it_is_leaf it1) then
    let c := if key <? key_at a (fst it1) then it_left it1 else it_right it1 in
    (mkT (aset a (fst c) (key, val)) R (t_depth t1) sz, fst c)
  else
    let '(a2, it2) := rebalance fR a R (t_depth t1) it1 key val in
    let it3 := go_down fR a2 R it2 key in
    (mkT a2 R (t_depth t1) sz, fst it3).

Lemma insert_precise_aux_eq : forall t key val it,
  insert_precise_aux t key val it =
  let '(t1, it1) :=
    if gt_ratio (t_size t + 1) (t_rsz t) max_density_percent then
      let t' := rebuild_bigger t in
      (t', go_down (fuel_of (t_rsz t')) (t_arr t') (t_rsz t') (it_root (t_rsz t')) key)
    else (t, it) in
  ins_tail t1 key val it1.
Proof. intros. unfold insert_precise_aux, ins_tail. destruct (gt_ratio _ _ _); reflexivity. Qed.

Lemma inv_nonempty_depth : forall t, inv t -> t_size t <> 0 ->
  2 <= t_depth t /\ t_rsz t = 2 ^ t_depth t - 1.
Proof.
  intros t (Hrange & _ & _ & Hlen & [[H1 H2]|(H1 & H2 & H3)]) Hs; [|auto].
  exfalso. apply Hs. rewrite <- Hlen. unfold abs_tree. rewrite H1. reflexivity.
Qed.

Lemma ins_tail_refines : forall t key val it,
  inv t -> t_size t <> 0 -> search_post t key it -> key_at (t_arr t) (fst it) <> key ->
  t_size t + 1 <= t_rsz t -> (t_rsz t = 3 -> t_size t <= 1) ->
  abs_tree (fst (ins_tail t key val it)) = m_insert key val (abs_tree t) /\
  inv (fst (ins_tail t key val it)).
Proof.
  intros t key val [i o] Hinv Hsz (Hi & Ho & Hu & Hcase) Hne Hroom H3.
  cbn [fst snd] in *.
  destruct (inv_nonempty_depth t Hinv Hsz) as [Hmd HR].
  pose proof Hinv as (Hrange & Hshape & Hsorted & Hlen & Hdepth).
  pose proof (sorted_abs_psorted t Hrange Hsorted) as Hps.
  pose proof (abs_seg t) as Habseg.
  set (a := t_arr t) in *. set (R := t_rsz t) in *. set (md := t_depth t) in *.
  assert (Hi0 : i <> 0) by lia.
  pose proof (node_of_lowbit i Hi0) as Hnode. set (h := N.log2 (lowbit i)) in *.
  pose proof (node_lowbit _ _ Hnode) as Hlb. rewrite Hlb in Ho. subst o. clearbody h.
  destruct (node_in_tree md h i ltac:(lia) Hnode ltac:(lia)) as [Hh Hhi]. rewrite <- HR in Hhi.
  pose proof (node_ge _ _ Hnode) as Hge.
  (* both neighbours bracket the key *)
  assert (Hall : (forall p, p < i -> aget a p <> None -> key_at a p < key) /\
                 (forall p, i < p -> aget a p <> None -> key < key_at a p)).
  { destruct Hcase as [Hc|[(C1 & C2 & _)|(C1 & C2 & _)]]; [congruence| |].
    - split; [exact C2|]. intros p Hp Hpu. specialize (Hps i p Hp Hu Hpu). lia.
    - split; [|exact C2]. intros p Hp Hpu. specialize (Hps p i Hp Hpu Hu). lia. }
  destruct Hall as [Plt Pgt].
  assert (Habsent : forall e, In e (abs_tree t) -> fst e <> key).
  { intros e He. apply in_abs_tree in He. destruct He as (p & Hp & Hpe). fold a in Hpe.
    destruct e as [k0 d0]. cbn [fst]. rewrite <- (key_at_some _ _ _ _ Hpe).
    assert (Hpu : aget a p <> None) by (rewrite Hpe; discriminate).
    destruct (N.lt_trichotomy p i) as [H|[H|H]].
    - specialize (Plt p H Hpu). lia.
    - subst p. exact Hne.
    - specialize (Pgt p H Hpu). lia. }
  unfold ins_tail. fold a R md. cbn [fst snd]. rewrite it_is_leaf_node.
  destruct (h =? 0) eqn:Eh; cbn [negb].
  - (* leaf: rebalance *)
    apply N.eqb_eq in Eh.
    assert (HR3 : R <> 3).
    { intro E3. specialize (H3 E3).
      assert (Hi13 : i = 1 \/ i = 3).
      { rewrite Eh in Hlb. change (2 ^ 0) with 1 in Hlb.
        assert (i = 1 \/ i = 2 \/ i = 3) as [-> | [-> | ->]] by lia; auto. }
      assert (Hroot : aget a 2 <> None).
      { intro Hn. apply Hu. apply (Hshape 2 i); [fold R; lia|exact Hn|].
        change (lowbit 2) with 2. lia. }
      assert (2 <= t_size t); [|lia]. rewrite <- Hlen. unfold abs_tree. fold a R. rewrite E3.
      change (N.to_nat 3) with 3%nat. cbn [used_from]. change (1 + 1) with 2. change (2 + 1) with 3.
      destruct (aget a 2); [|congruence].
      destruct Hi13 as [-> | ->]; destruct (aget a 1), (aget a 3); cbn [length]; try lia; congruence. }
    pose proof (rebalance_spec a R md h i key val Hmd HR HR3 Hrange Hshape Hnode Hhi Hh) as RS.
    assert (Hanc : forall h' i', node h' i' -> h < h' -> i' - (2 ^ h' - 1) <= i <= i' + (2 ^ h' - 1) ->
                     i' <= R -> aget a i' <> None).
    { intros h' i' Hn' Hlt Hin HiR Hnone. apply Hu.
      apply (Hshape i' i); [pose proof (node_pos _ _ Hn'); fold R; lia|exact Hnone|].
      rewrite (node_lowbit _ _ Hn'). exact Hin. }
    specialize (RS Hanc).
    assert (Hins : aget a i <> None ->
       h = 0 /\ psorted a /\ key_at a i <> key /\
       (forall p, p < i -> aget a p <> None -> key_at a p < key) /\
       (forall p, i < p -> aget a p <> None -> key < key_at a p) /\ len (seg a 1 R) + 1 <= R).
    { intros _. repeat split; auto. rewrite <- Habseg. rewrite len_length, Hlen. exact Hroom. }
    specialize (RS Hins).
    destruct (rebalance (fuel_of R) a R md (i, 2 ^ h) key val) as [a2 it2].
    cbn [fst]. destruct RS as (S1 & S2 & S3 & _).
    destruct (aget a i) as [e0|] eqn:Ei; [|congruence].
    rewrite <- Habseg in S1. rewrite ins_m_insert in S1 by exact Habsent.
    assert (Habs : abs_tree (mkT a2 R md (t_size t + 1)) = m_insert key val (abs_tree t)).
    { rewrite abs_seg. cbn [t_arr t_rsz]. exact S1. }
    split; [exact Habs|].
    unfold inv. rewrite Habs. cbn [t_arr t_rsz t_depth t_size].
    split; [exact S2|]. split; [exact S3|].
    split. { apply m_insert_sorted. exact Hsorted. }
    split. { rewrite m_insert_length_absent by exact Habsent. rewrite Nat2N.inj_succ, Hlen. lia. }
    right. split; [exact Hmd|]. split; [exact HR|lia].
  - (* inner node with a free child *)
    apply N.eqb_neq in Eh.
    assert (Hhs : h = N.succ (N.pred h)) by lia. set (h' := N.pred h) in *. clearbody h'.
    subst h.
    pose proof (subtree_split h' i Hnode) as SS. cbv zeta in SS.
    destruct SS as (S1 & S2 & S3 & S4 & S5 & S6).
    pose proof (pow2_pos h') as Hp'.
    rewrite it_left_node, it_right_node.
    assert (Hsub : forall c, (c = i - 2 ^ h' \/ c = i + 2 ^ h') -> aget a c = None ->
              (forall p, p < c -> aget a p <> None -> key_at a p < key) ->
              (forall p, c < p -> aget a p <> None -> key < key_at a p) ->
              let t' := mkT (aset a c (key, val)) R md (t_size t + 1) in
              abs_tree t' = m_insert key val (abs_tree t) /\ inv t').
    { intros c Hc Hcn Hl Hg.
      exact (child_slot_refines t h' i c key val Hinv Hmd Hnode Hhi Hu Hc Hcn Hl Hg). }
    destruct (key <? key_at a i) eqn:Ek; cbn [fst].
    + apply N.ltb_lt in Ek.
      assert (Hcn : aget a (i - 2 ^ h') = None).
      { destruct Hcase as [Hc|[(C1 & C2 & C3)|(C1 & C2 & C3)]]; [congruence| |lia].
        rewrite it_left_node in C3. cbn [fst] in C3. destruct C3 as [C3|C3]; [|exact C3].
        pose proof (pow2_pos (N.succ h')). rewrite N.pow_succ_r' in *. lia. }
      apply (Hsub (i - 2 ^ h') (or_introl eq_refl) Hcn).
      * intros p Hp Hpu. apply Plt; [lia|exact Hpu].
      * intros p Hp Hpu. destruct (N.lt_ge_cases p i) as [H|H].
        -- exfalso. apply Hpu. apply (Hshape (i - 2 ^ h') p); [fold R; lia|exact Hcn|].
           rewrite (node_lowbit _ _ (node_left _ _ Hnode)). lia.
        -- destruct (N.eq_dec p i) as [->|Hn]; [exact Ek|].
           assert (key < key_at a p); [apply Pgt; [lia|exact Hpu]|lia].
    + apply N.ltb_ge in Ek.
      assert (Hcn : aget a (i + 2 ^ h') = None).
      { destruct Hcase as [Hc|[(C1 & C2 & C3)|(C1 & C2 & C3)]]; [congruence|lia|].
        rewrite it_right_node in C3. cbn [fst] in C3. destruct C3 as [C3|C3]; [|exact C3].
        pose proof (pow2_pos (N.succ h')). rewrite N.pow_succ_r' in *. lia. }
      apply (Hsub (i + 2 ^ h') (or_intror eq_refl) Hcn).
      * intros p Hp Hpu. destruct (N.lt_ge_cases i p) as [H|H].
        -- exfalso. apply Hpu. apply (Hshape (i + 2 ^ h') p); [fold R; lia|exact Hcn|].
           rewrite (node_lowbit _ _ (node_right _ _ Hnode)). lia.
        -- destruct (N.eq_dec p i) as [->|Hn]; [lia|].
           apply Plt; [lia|exact Hpu].
      * intros p Hp Hpu. apply Pgt; [lia|exact Hpu].
Qed.


(* ================= Insert2 ================= *)

Lemma gd_post_search_post : forall t key it, in_range t ->
  gd_post (t_arr t) (t_rsz t) key it -> search_post t key it.
Proof.
  intros t key it Hr (U & O & C). split; [apply Hr; exact U|]. split; [exact O|]. split; [exact U|].
  destruct C as [C|[(C1 & C2 & C3)|(C1 & C2 & C3)]]; [left; exact C|right; left|right; right].
  - split; [exact C1|]. split; [exact C2|]. destruct C3 as [C3|[_ C3]]; [left|right; exact C3].
    unfold it_is_leaf in C3. apply N.eqb_eq in C3. exact C3.
  - split; [exact C1|]. split; [exact C2|]. destruct C3 as [C3|[_ C3]]; [left|right; exact C3].
    unfold it_is_leaf in C3. apply N.eqb_eq in C3. exact C3.
Qed.

Lemma search_ok_holds : search_ok.
Proof.
  intros t key Hinv Hs. apply gd_post_search_post; [apply Hinv|].
  apply go_down_spec; [exact Hinv|lia].
Qed.

Lemma search_post_absent : forall t key it, inv t -> search_post t key it ->
  key_at (t_arr t) (fst it) <> key -> forall e, In e (abs_tree t) -> fst e <> key.
Proof.
  intros t key it (Hrange & _ & Hsorted & _) (Hi & Ho & Hu & Hcase) Hne e He.
  pose proof (sorted_abs_psorted t Hrange Hsorted) as Hps.
  apply in_abs_tree in He. destruct He as (p & Hp & Hpe).
  destruct e as [k0 d0]. cbn [fst]. rewrite <- (key_at_some _ _ _ _ Hpe).
  assert (Hpu : aget (t_arr t) p <> None) by (rewrite Hpe; discriminate).
  destruct (N.lt_trichotomy p (fst it)) as [H|[H|H]]; [| subst p; exact Hne |].
  - destruct Hcase as [Hc|[(C1 & C2 & _)|(C1 & C2 & _)]]; [congruence| |].
    + specialize (C2 p H Hpu). lia.
    + specialize (Hps p (fst it) H Hpu Hu). lia.
  - destruct Hcase as [Hc|[(C1 & C2 & _)|(C1 & C2 & _)]]; [congruence| |].
    + specialize (Hps (fst it) p H Hu Hpu). lia.
    + specialize (C2 p H Hpu). lia.
Qed.

Lemma insert_precise_aux_refines : forall t key val it,
  inv t -> t_size t <> 0 -> search_post t key it -> key_at (t_arr t) (fst it) <> key ->
  abs_tree (fst (insert_precise_aux t key val it)) = m_insert key val (abs_tree t) /\
  inv (fst (insert_precise_aux t key val it)).
Proof.
  intros t key val it Hinv Hsz Hsp Hne.
  rewrite insert_precise_aux_eq.
  pose proof (search_post_absent t key it Hinv Hsp Hne) as Habsent.
  destruct (inv_nonempty_depth t Hinv Hsz) as [Hmd HR].
  pose proof Hinv as (Hrange & _ & _ & Hlen & _).
  destruct (gt_ratio (t_size t + 1) (t_rsz t) max_density_percent) eqn:Eg.
  - (* rebuild a bigger tree first *)
    cbv zeta.
    assert (HR0 : t_rsz t <> 0). { pose proof (N.pow_le_mono_r 2 2 (t_depth t) ltac:(lia) Hmd). cbn in H. lia. }
    pose proof (rbg_inv t HR0 Hinv) as Hinv'.
    pose proof (rbg_abs t HR0) as Habs'.
    destruct (rbg_fields t HR0) as (F1 & F2 & F3).
    set (t' := rebuild_bigger t) in *.
    change (go_down (fuel_of (t_rsz t')) (t_arr t') (t_rsz t') (it_root (t_rsz t')) key)
      with (root_search t' key).
    assert (Hsz' : t_size t' <> 0) by lia.
    pose proof (search_ok_holds t' key Hinv' Hsz') as Hsp'.
    assert (Hne' : key_at (t_arr t') (fst (root_search t' key)) <> key).
    { intro E. destruct Hsp' as (_ & _ & U & _).
      apply (Habsent (key_at (t_arr t') (fst (root_search t' key)), dat_at (t_arr t') (fst (root_search t' key)))); [|exact E].
      rewrite <- Habs'. apply in_abs_tree_range; [apply Hinv'|].
      eexists. apply aget_key_dat. exact U. }
    rewrite <- Habs'.
    apply ins_tail_refines; auto.
    + rewrite F1, F3. rewrite <- Hlen.
      pose proof (used_from_length_le (N.to_nat (t_rsz t)) (t_arr t) 1). unfold abs_tree. lia.
    + intro E3. pose proof (N.pow_le_mono_r 2 2 (t_depth t) ltac:(lia) Hmd). cbn in H. lia.
  - apply ins_tail_refines; auto.
    + unfold gt_ratio, max_density_percent in Eg. apply N.ltb_ge in Eg. lia.
    + intro E3. unfold gt_ratio, max_density_percent in Eg. apply N.ltb_ge in Eg. lia.
Qed.

Theorem insert_precise_refines : forall t key val it,
  inv t -> t_size t <> 0 -> search_post t key it ->
  abs_tree (fst (insert_precise t key val it)) = m_insert key val (abs_tree t) /\
  inv (fst (insert_precise t key val it)).
Proof.
  intros t key val it Hinv Hsz Hsp. unfold insert_precise.
  destruct (key_at (t_arr t) (fst it) =? key) eqn:E.
  - apply N.eqb_eq in E. cbn [fst]. destruct Hsp as (_ & _ & U & _).
    pose proof (overwrite_refines t (fst it) val Hinv U) as H. cbv zeta in H. rewrite E in H. exact H.
  - apply N.eqb_neq in E. apply insert_precise_aux_refines; auto.
Qed.

Lemma inv_size0_abs : forall t, inv t -> t_size t = 0 -> abs_tree t = [].
Proof.
  intros t (_ & _ & _ & Hlen & _) Hs. rewrite Hs in Hlen.
  destruct (abs_tree t); [reflexivity|cbn in Hlen; lia].
Qed.

Lemma insert_in_empty_refines : forall key val,
  abs_tree (insert_in_empty key val) = [(key, val)] /\ inv (insert_in_empty key val).
Proof.
  intros key val.
  assert (Habs : abs_tree (insert_in_empty key val) = [(key, val)]) by reflexivity.
  split; [exact Habs|].
  assert (G : forall j, aget (t_arr (insert_in_empty key val)) j = if j =? 2 then Some (key, val) else None).
  { intro j. unfold insert_in_empty. cbn [t_arr]. change (fst (it_root (t_rsz (rebuild_bigger empty_tree)))) with 2.
    rewrite aget_aset by lia. destruct (j =? 2); [reflexivity|].
    change (t_arr (rebuild_bigger empty_tree)) with (PositiveMap.empty entry). apply aget_empty. }
  unfold inv. rewrite Habs. change (t_rsz (insert_in_empty key val)) with 3.
  change (t_depth (insert_in_empty key val)) with 2. change (t_size (insert_in_empty key val)) with 1.
  split. { intros j Hj. rewrite G in Hj. change (t_rsz (insert_in_empty key val)) with 3.
           destruct (j =? 2) eqn:E; [apply N.eqb_eq in E; lia|congruence]. }
  split. { intros x j Hx Hxn Hj. change (t_rsz (insert_in_empty key val)) with 3 in Hx.
           rewrite G in *. destruct (x =? 2) eqn:E; [discriminate|]. apply N.eqb_neq in E.
           assert (x = 1 \/ x = 3) as [-> | ->] by lia; cbn in Hj;
             (destruct (j =? 2) eqn:E2; [apply N.eqb_eq in E2; lia|reflexivity]). }
  split. { constructor; constructor. }
  split; [reflexivity|]. right. cbn. lia.
Qed.

(* (I) *)
Theorem insert_refines : forall t k v, inv t ->
  abs_tree (fst (insert t k v)) = m_insert k v (abs_tree t) /\ inv (fst (insert t k v)).
Proof.
  intros t k v Hinv. unfold insert. destruct (t_size t =? 0) eqn:E.
  - apply N.eqb_eq in E. cbn [fst]. rewrite (inv_size0_abs t Hinv E). cbn [m_insert].
    apply insert_in_empty_refines.
  - apply N.eqb_neq in E. apply insert_precise_refines; auto. apply search_ok_holds; auto.
Qed.

Theorem insert_key_refines : forall t k, inv t ->
  abs_tree (fst (insert_key t k)) = m_insert_key k (abs_tree t) /\ inv (fst (insert_key t k)).
Proof.
  intros t k Hinv. unfold insert_key. destruct (t_size t =? 0) eqn:E.
  - apply N.eqb_eq in E. pose proof (insert_refines t k 0%Z Hinv) as H.
    rewrite (inv_size0_abs t Hinv E) in *. exact H.
  - apply N.eqb_neq in E.
    pose proof (search_ok_holds t k Hinv E) as Hsp.
    destruct (key_at (t_arr t) (fst (root_search t k)) =? k) eqn:Ek.
    + apply N.eqb_eq in Ek. cbn [fst]. split; [|exact Hinv].
      destruct Hsp as (_ & _ & U & _). symmetry.
      apply (m_insert_key_present k (dat_at (t_arr t) (fst (root_search t k)))); [apply Hinv|].
      apply in_abs_tree_range; [apply Hinv|].
      pose proof (aget_key_dat _ _ U) as G. rewrite Ek in G. eexists. exact G.
    + apply N.eqb_neq in Ek.
      rewrite m_insert_key_absent by (apply (search_post_absent t k _ Hinv Hsp Ek)).
      apply insert_precise_refines; auto.
Qed.


(* ================= Erase ================= *)

(* ---------- list-level facts on m_erase ---------- *)
Lemma m_erase_app : forall k v l1 l2, (forall e, In e l1 -> fst e <> k) ->
  m_erase k (l1 ++ (k, v) :: l2) = l1 ++ l2.
Proof.
  induction l1 as [|[k' v'] r IH]; intros l2 H; cbn [app m_erase].
  - rewrite N.eqb_refl. reflexivity.
  - assert (E : (k =? k') = false).
    { apply N.eqb_neq. intro. subst. apply (H (k', v')); [left|]; reflexivity. }
    rewrite E. f_equal. apply IH. intros e He. apply H. right. exact He.
Qed.

Lemma m_erase_absent : forall k l, (forall e, In e l -> fst e <> k) -> m_erase k l = l.
Proof.
  induction l as [|[k' v'] r IH]; intros H; cbn [m_erase]; auto.
  assert (E : (k =? k') = false).
  { apply N.eqb_neq. intro. subst. apply (H (k', v')); [left|]; reflexivity. }
  rewrite E. f_equal. apply IH. intros e He. apply H. right. exact He.
Qed.

Lemma forall_m_erase : forall (P : entry -> Prop) k l, Forall P l -> Forall P (m_erase k l).
Proof.
  induction l as [|[k' v'] r IH]; intros Hl; cbn [m_erase]; auto.
  inversion Hl; subst. destruct (k =? k'); auto.
Qed.

Lemma m_erase_sorted : forall k l, sorted l -> sorted (m_erase k l).
Proof.
  unfold sorted. induction l as [|[k' v'] r IH]; intros Hs; cbn [m_erase]; auto.
  inversion Hs; subst. destruct (k =? k'); auto. constructor; auto. apply forall_m_erase. assumption.
Qed.

(* clearing a used slot erases its key *)
Lemma aclr_refines : forall t p, in_range t -> sorted (abs_tree t) -> aget (t_arr t) p <> None ->
  used_from (N.to_nat (t_rsz t)) (aclr (t_arr t) p) 1 = m_erase (key_at (t_arr t) p) (abs_tree t) /\
  S (length (m_erase (key_at (t_arr t) p) (abs_tree t))) = length (abs_tree t).
Proof.
  intros t p Hrange Hsorted Hu.
  pose proof (sorted_abs_psorted t Hrange Hsorted) as Hps.
  pose proof (Hrange p Hu) as Hp.
  unfold abs_tree. set (a := t_arr t) in *. set (R := t_rsz t) in *.
  rewrite used_from_aclr by lia.
  rewrite (used_from_split_at (N.to_nat R) a 1 p) by lia.
  pose proof (aget_key_dat a p Hu) as E. rewrite E. cbn [app].
  rewrite m_erase_app.
  - split; [reflexivity|]. rewrite !app_length. cbn [length]. rewrite Nat.add_succ_r. reflexivity.
  - intros e He. apply in_used_from in He. destruct He as (q & Hq & Hqe).
    destruct e as [k0 d0]. cbn [fst]. rewrite <- (key_at_some _ _ _ _ Hqe).
    assert (key_at a q < key_at a p); [|lia]. apply Hps; [lia| |exact Hu]. rewrite Hqe. discriminate.
Qed.

(* the part of erase_it after the decision to rebuild *)
Definition erase_tail (t1 : tree) (it1 : titer) : tree * N :=
  let R := t_rsz t1 in
  let fR := fuel_of R in
  let dkey := key_at (t_arr t1) (fst it1) in
  let '(a2, it2) := hole_down fR fR (t_arr t1) R it1 in
  let a3 := aclr a2 (fst it2) in
  let '(a4, it4) := rebalance fR a3 R (t_depth t1) it2 0 0%Z in
  let it5 := if snd it4 <? snd it1 then it1 else it4 in
  let it6 := go_down fR a4 R it5 dkey in
  let res := if key_at a4 (fst it6) <? dkey then scan_up fR a4 R (fst it6 + 1) else fst it6 in
  (mkT a4 R (t_depth t1) (t_size t1 - 1), res).

Lemma erase_it_eq : forall t it,
  erase_it t it =
  if t_size t =? 1 then (empty_tree, 1) else
  let '(t1, it1) :=
    if lt_ratio (t_size t - 1) (t_rsz t) min_density_percent
       && negb (gt_ratio (t_size t - 1) (t_rsz t / 2) max_density_percent)
    then let key := key_at (t_arr t) (fst it) in
         let t' := rebuild_smaller t in (t', root_search t' key)
    else (t, it) in
  erase_tail t1 it1.
Proof.
  intros. unfold erase_it, erase_tail. destruct (t_size t =? 1); [reflexivity|].
  destruct (_ && _); reflexivity.
Qed.

Lemma erase_tail_refines : forall t i,
  inv t -> 2 <= t_size t -> aget (t_arr t) i <> None ->
  abs_tree (fst (erase_tail t (i, lowbit i))) = m_erase (key_at (t_arr t) i) (abs_tree t) /\
  inv (fst (erase_tail t (i, lowbit i))).
Proof.
  intros t i Hinv Hsz Hu.
  destruct (inv_nonempty_depth t Hinv ltac:(lia)) as [Hmd HR].
  pose proof Hinv as (Hrange & Hshape & Hsorted & Hlen & _).
  destruct (aclr_refines t i Hrange Hsorted Hu) as [Hclr Hclen].
  unfold erase_tail. cbn [fst snd].
  set (a := t_arr t) in *. set (R := t_rsz t) in *. set (md := t_depth t) in *.
  pose proof (Hrange i Hu) as Hi. fold R in Hi.
  assert (Hi0 : i <> 0) by lia.
  pose proof (node_of_lowbit i Hi0) as Hnode. set (h := N.log2 (lowbit i)) in *. clearbody h.
  rewrite (node_lowbit _ _ Hnode).
  destruct (node_in_tree md h i ltac:(lia) Hnode ltac:(lia)) as [Hh Hhi]. rewrite <- HR in Hhi.
  pose proof (hole_down_fuel_of a R h i Hrange Hshape Hnode Hhi Hu) as HD.
  destruct (hole_down (fuel_of R) (fuel_of R) a R (i, 2 ^ h)) as [a2 it2].
  destruct HD as (h2 & i2 & -> & Hnode2 & Hh2 & Hlo2 & Hhi2 & Hsame & Hget2 & Hsub2 & Hseq & Hrange2 & Hshape2 & Hframe2).
  cbn [fst snd].
  set (a3 := aclr a2 i2).
  assert (Hu2 : aget a2 i2 <> None) by (rewrite Hget2; exact Hu).
  pose proof (Hrange2 i2 Hu2) as Hi2.
  assert (G3 : forall j, aget a3 j = if j =? i2 then None else aget a2 j) by (intro j; apply aget_aclr).
  assert (Hrange3 : in_range_a a3 R).
  { intros j Hj. rewrite G3 in Hj. destruct (j =? i2); [congruence|]. apply Hrange2. exact Hj. }
  assert (Hshape3 : shape_a a3 R).
  { intros x j Hx Hxn Hj. rewrite G3. destruct (j =? i2) eqn:Ej; [reflexivity|]. apply N.eqb_neq in Ej.
    rewrite G3 in Hxn. destruct (x =? i2) eqn:Ex.
    - apply N.eqb_eq in Ex. subst x. rewrite (node_lowbit _ _ Hnode2) in Hj. apply Hsub2; assumption.
    - apply (Hshape2 x j Hx Hxn Hj). }
  assert (Hn3 : aget a3 i2 = None) by (rewrite G3, N.eqb_refl; reflexivity).
  assert (Hfinal : forall a4, seg a4 1 R = seg a3 1 R -> in_range_a a4 R -> shape_a a4 R ->
            abs_tree (mkT a4 R md (t_size t - 1)) = m_erase (key_at a i) (abs_tree t) /\
            inv (mkT a4 R md (t_size t - 1))).
  { intros a4 E4 R4 S4.
    assert (Habs : abs_tree (mkT a4 R md (t_size t - 1)) = m_erase (key_at a i) (abs_tree t)).
    { rewrite abs_seg. cbn [t_arr t_rsz]. rewrite E4. rewrite <- Hclr, <- Hseq.
      unfold seg. f_equal. lia. }
    split; [exact Habs|]. unfold inv. rewrite Habs. cbn [t_arr t_rsz t_depth t_size].
    split; [exact R4|]. split; [exact S4|].
    split. { apply m_erase_sorted. exact Hsorted. }
    split. { rewrite <- Hlen, <- Hclen. lia. }
    right. split; [exact Hmd|]. split; [exact HR|lia]. }
  destruct (N.eq_dec R 3) as [E3|HR3].
  - (* no rebalancing in the smallest tree *)
    rewrite E3. rewrite rebalance_R3. cbn [fst]. rewrite <- E3.
    apply Hfinal; auto.
  - pose proof (rebalance_spec a3 R md h2 i2 0 0%Z Hmd HR HR3 Hrange3 Hshape3 Hnode2 ltac:(lia) ltac:(lia)) as RS.
    assert (Hanc : forall h' i', node h' i' -> h2 < h' -> i' - (2 ^ h' - 1) <= i2 <= i' + (2 ^ h' - 1) ->
                     i' <= R -> aget a3 i' <> None).
    { intros h' i' Hn' Hlt Hin HiR. rewrite G3.
      destruct (i' =? i2) eqn:E.
      { apply N.eqb_eq in E. subst i'. pose proof (node_unique _ _ _ Hn' Hnode2). lia. }
      intro Hnone. apply Hu2. apply (Hshape2 i' i2); [pose proof (node_pos _ _ Hn'); lia|exact Hnone|].
      rewrite (node_lowbit _ _ Hn'). exact Hin. }
    specialize (RS Hanc ltac:(intro C; congruence)).
    destruct (rebalance (fuel_of R) a3 R md (i2, 2 ^ h2) 0 0%Z) as [a4 it4].
    cbn [fst]. destruct RS as (S1 & S2 & S3 & _). rewrite Hn3 in S1.
    apply Hfinal; auto.
Qed.

Lemma used_in_abs : forall t p, in_range t -> aget (t_arr t) p <> None ->
  In (key_at (t_arr t) p, dat_at (t_arr t) p) (abs_tree t).
Proof.
  intros t p Hr Hu. apply in_abs_tree_range; [exact Hr|]. exists p. apply aget_key_dat. exact Hu.
Qed.

Theorem erase_it_refines : forall t it,
  inv t -> aget (t_arr t) (fst it) <> None -> snd it = lowbit (fst it) ->
  abs_tree (fst (erase_it t it)) = m_erase (key_at (t_arr t) (fst it)) (abs_tree t) /\
  inv (fst (erase_it t it)).
Proof.
  intros t [i o] Hinv Hu Ho. cbn [fst snd] in *. subst o.
  pose proof Hinv as (Hrange & Hshape & Hsorted & Hlen & _).
  pose proof (used_in_abs t i Hrange Hu) as Hin.
  rewrite erase_it_eq.
  destruct (t_size t =? 1) eqn:E1.
  - apply N.eqb_eq in E1. cbn [fst]. rewrite E1 in Hlen.
    destruct (abs_tree t) as [|e [|e' l]]; [destruct Hin| |cbn in Hlen; lia].
    destruct Hin as [Heq|[]]. rewrite Heq. cbn [m_erase]. rewrite N.eqb_refl.
    split; [reflexivity|apply inv_empty_tree].
  - apply N.eqb_neq in E1.
    assert (Hsz : 2 <= t_size t).
    { assert (t_size t <> 0); [|lia]. intro E0. rewrite (inv_size0_abs t Hinv E0) in Hin. destruct Hin. }
    destruct (lt_ratio (t_size t - 1) (t_rsz t) min_density_percent
              && negb (gt_ratio (t_size t - 1) (t_rsz t / 2) max_density_percent)) eqn:Ec.
    + (* rebuild a smaller tree first *)
      cbv beta iota zeta. cbn [fst snd].
      apply andb_true_iff in Ec. destruct Ec as [Ec1 Ec2].
      apply negb_true_iff in Ec2. unfold gt_ratio, max_density_percent in Ec2. apply N.ltb_ge in Ec2.
      unfold lt_ratio, min_density_percent in Ec1. apply N.ltb_lt in Ec1.
      destruct (inv_nonempty_depth t Hinv ltac:(lia)) as [Hmd HR].
      assert (Hmd3 : 3 <= t_depth t).
      { destruct (N.eq_dec (t_depth t) 2) as [E|E]; [|lia]. rewrite E in HR. cbn in HR.
        rewrite HR in Ec1, Ec2. change (3 / 2) with 1 in Ec2. lia. }
      set (d := t_depth t - 2).
      assert (Hd : t_depth t = N.succ (N.succ d)) by (unfold d; lia).
      assert (HR' : t_rsz t = 2 ^ N.succ (N.succ d) - 1) by (rewrite <- Hd; exact HR).
      assert (Hhalf : t_rsz t / 2 = 2 ^ N.succ d - 1).
      { rewrite HR'. rewrite (N.pow_succ_r' 2 (N.succ d)). pose proof (pow2_pos (N.succ d)).
        symmetry. apply (N.div_unique _ 2 _ 1); lia. }
      assert (Hfit : t_size t <= 2 ^ N.succ d - 1).
      { rewrite <- Hhalf. pose proof (pow2_pos (N.succ d)).
        assert (3 <= 2 ^ N.succ d). { rewrite N.pow_succ_r'. pose proof (N.pow_le_mono_r 2 1 d ltac:(lia) ltac:(unfold d; lia)). cbn in H0. lia. }
        lia. }
      destruct (rebuild_smaller_inv t d Hinv ltac:(lia) ltac:(unfold d; lia) HR' Hfit) as [Hinv' Habs'].
      set (t' := rebuild_smaller t) in *.
      set (key := key_at (t_arr t) i) in *.
      assert (Hsz' : t_size t' = t_size t).
      { destruct Hinv' as (_ & _ & _ & Hlen' & _). rewrite <- Hlen', Habs'. exact Hlen. }
      pose proof (search_ok_holds t' key Hinv' ltac:(lia)) as Hsp'.
      assert (Hk' : key_at (t_arr t') (fst (root_search t' key)) = key).
      { destruct (N.eq_dec (key_at (t_arr t') (fst (root_search t' key))) key) as [E|E]; [exact E|].
        exfalso. apply (search_post_absent t' key _ Hinv' Hsp' E _ ltac:(rewrite Habs'; exact Hin)).
        reflexivity. }
      destruct Hsp' as (_ & Ho' & Hu' & _).
      destruct (root_search t' key) as [i' o'] eqn:Ers. cbn [fst snd] in *. subst o'.
      rewrite <- Habs', <- Hk'.
      apply erase_tail_refines; auto. lia.
    + apply erase_tail_refines; auto.
Qed.

(* (E) *)
Theorem erase_key_refines : forall t k, inv t ->
  abs_tree (fst (erase_key t k)) = m_erase k (abs_tree t) /\ inv (fst (erase_key t k)).
Proof.
  intros t k Hinv. unfold erase_key. destruct (t_size t =? 0) eqn:E.
  - apply N.eqb_eq in E. cbn [fst]. rewrite (inv_size0_abs t Hinv E). split; [reflexivity|exact Hinv].
  - apply N.eqb_neq in E.
    pose proof (search_ok_holds t k Hinv E) as Hsp.
    destruct (key_at (t_arr t) (fst (root_search t k)) =? k) eqn:Ek.
    + apply N.eqb_eq in Ek. destruct Hsp as (_ & Ho & Hu & _).
      rewrite <- Ek at 2. apply erase_it_refines; auto.
    + apply N.eqb_neq in Ek. cbn [fst]. split; [|exact Hinv].
      symmetry. apply m_erase_absent. apply (search_post_absent t k _ Hinv Hsp Ek).
Qed.

Theorem erase_pos_refines : forall t p, inv t -> aget (t_arr t) p <> None ->
  abs_tree (fst (erase_pos t p)) = m_erase (key_at (t_arr t) p) (abs_tree t) /\ inv (fst (erase_pos t p)).
Proof.
  intros t p Hinv Hu. unfold erase_pos, it_of. apply (erase_it_refines t (p, lowbit p)); auto.
Qed.
