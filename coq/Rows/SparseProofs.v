(* C16 -- Sparse_Row model refines the abstract rows: every mutator commutes with abs_s (up to aeq)
   and preserves the representation invariants s_wf (sorted keys below the size) and s_nz (no stored zero). *)
From Coq Require Import ZArith List Lia Bool Arith Sorted.
Import ListNotations.
Require Import PPLV.Rows.Abs PPLV.Rows.Dense PPLV.Rows.Sparse PPLV.Rows.Expr PPLV.Rows.DenseProofs.
Local Open Scope Z_scope.

Definition good (e : expr) : Prop := match e with ED _ => True | ES s => s_wf s /\ s_nz s end.

(* ---------- lookup / membership ---------- *)
Lemma mem_false_lookup : forall l i, s_mem i l = false -> s_lookup i l = 0.
Proof.
  induction l as [|[k v] r IH]; intros i H; cbn [s_lookup s_mem] in *; [reflexivity|].
  destruct (k =? i)%nat eqn:E; cbn [orb] in H; [discriminate|]. apply IH, H.
Qed.

Lemma lookup_nz_mem : forall l i, s_lookup i l <> 0 -> s_mem i l = true.
Proof.
  intros l i H. destruct (s_mem i l) eqn:E; [reflexivity|]. apply mem_false_lookup in E. contradiction.
Qed.

Lemma mem_true_in : forall l i, s_mem i l = true -> In (i, s_lookup i l) l.
Proof.
  induction l as [|[k v] r IH]; intros i H; cbn [s_lookup s_mem] in *; [discriminate|].
  destruct (k =? i)%nat eqn:E; cbn [orb] in H.
  - apply Nat.eqb_eq in E. subst. left. reflexivity.
  - right. apply IH, H.
Qed.

Lemma in_mem : forall l k v, In (k, v) l -> s_mem k l = true.
Proof.
  induction l as [|[k' w] r IH]; intros k v H; cbn [s_mem].
  - destruct H.
  - destruct H as [H|H].
    + inversion H; subst. rewrite Nat.eqb_refl. reflexivity.
    + rewrite (IH _ _ H). apply orb_true_r.
Qed.

Lemma mem_true_nz : forall l i, Forall (fun e => snd e <> 0) l -> s_mem i l = true -> s_lookup i l <> 0.
Proof.
  intros l i Hnz Hm. apply mem_true_in in Hm. rewrite Forall_forall in Hnz. apply (Hnz _ Hm).
Qed.

Lemma sorted_inv : forall a l, s_sorted (a :: l) -> s_sorted l /\ Forall (fun b => (fst a < fst b)%nat) l.
Proof. intros a l H. inversion H; subst. split; assumption. Qed.

Lemma in_lookup : forall l k v, s_sorted l -> In (k, v) l -> s_lookup k l = v.
Proof.
  induction l as [|[k' w] r IH]; intros k v Hs H; [destruct H|].
  apply sorted_inv in Hs. destruct Hs as [Hs Hf]. cbn [s_lookup].
  destruct H as [H|H].
  - inversion H; subst. rewrite Nat.eqb_refl. reflexivity.
  - rewrite Forall_forall in Hf. pose proof (Hf _ H) as Hlt. cbn [fst] in Hlt.
    destruct (k' =? k)%nat eqn:E; [apply Nat.eqb_eq in E; lia|]. apply IH; assumption.
Qed.

Lemma lookup_bound : forall l n i, Forall (fun e => (fst e < n)%nat) l -> (n <= i)%nat -> s_lookup i l = 0.
Proof.
  induction l as [|[k v] r IH]; intros n i Hb Hi; cbn [s_lookup]; [reflexivity|].
  inversion Hb; subst. cbn [fst] in *. destruct (k =? i)%nat eqn:E; [apply Nat.eqb_eq in E; lia|].
  eapply IH; eassumption.
Qed.

Lemma abs_s_awf : forall s, s_wf s -> awf (abs_s s).
Proof. intros s [_ Hb] i Hi. cbn [abs_s asize acoef] in *. eapply lookup_bound; eassumption. Qed.

Lemma abs_d_awf' : forall d, awf (abs_d d).
Proof. intros d i Hi. cbn [abs_d asize acoef] in *. apply nth_overflow. exact Hi. Qed.

Lemma good_awf : forall e, good e -> awf (abs_e e).
Proof. intros [d|s] H; cbn [abs_e]. apply abs_d_awf'. apply abs_s_awf, H. Qed.

(* ---------- generic list transformers ---------- *)
Lemma sorted_filter : forall p l, s_sorted l -> s_sorted (filter p l).
Proof.
  intros p l. induction l as [|a r IH]; intros Hs; cbn [filter]; [constructor|].
  apply sorted_inv in Hs. destruct Hs as [Hs Hf]. destruct (p a).
  - constructor; [apply IH, Hs|]. rewrite Forall_forall in *. intros b Hb. apply filter_In in Hb. apply Hf, Hb.
  - apply IH, Hs.
Qed.

Lemma Forall_filter' : forall (P : sent -> Prop) p l, Forall P l -> Forall P (filter p l).
Proof.
  intros P p l H. rewrite Forall_forall in *. intros b Hb. apply filter_In in Hb. apply H, Hb.
Qed.

Lemma lookup_filter_key : forall (p : nat -> bool) l j,
  s_lookup j (filter (fun e => p (fst e)) l) = if p j then s_lookup j l else 0.
Proof.
  intros p l j. induction l as [|[k v] r IH]; cbn [filter s_lookup fst].
  - destruct (p j); reflexivity.
  - destruct (p k) eqn:Ek; cbn [s_lookup].
    + destruct (k =? j)%nat eqn:E; [apply Nat.eqb_eq in E; subst; rewrite Ek; reflexivity|]. exact IH.
    + destruct (k =? j)%nat eqn:E; [apply Nat.eqb_eq in E; subst; rewrite Ek in IH |- *; exact IH|]. exact IH.
Qed.

Lemma sorted_map_mono : forall (h : sent -> sent) l,
  (forall a b, (fst a < fst b)%nat -> (fst (h a) < fst (h b))%nat) -> s_sorted l -> s_sorted (map h l).
Proof.
  intros h l Hm. induction l as [|a r IH]; intros Hs; cbn [map]; [constructor|].
  apply sorted_inv in Hs. destruct Hs as [Hs Hf]. constructor; [apply IH, Hs|].
  rewrite Forall_forall in *. intros b Hb. apply in_map_iff in Hb. destruct Hb as [b' [<- Hb']].
  apply Hm, Hf, Hb'.
Qed.

Lemma Forall_map' : forall (P : sent -> Prop) (h : sent -> sent) l,
  (forall e, In e l -> P (h e)) -> Forall P (map h l).
Proof.
  intros P h l H. rewrite Forall_forall. intros b Hb. apply in_map_iff in Hb.
  destruct Hb as [b' [<- Hb']]. apply H, Hb'.
Qed.

Lemma lookup_map_val : forall (p : nat -> bool) (g : Z -> Z) l j, g 0 = 0 ->
  s_lookup j (map (fun e => if p (fst e) then (fst e, g (snd e)) else e) l)
  = if p j then g (s_lookup j l) else s_lookup j l.
Proof.
  intros p g l j Hg. induction l as [|[k v] r IH]; cbn [map s_lookup fst snd].
  - rewrite Hg. destruct (p j); reflexivity.
  - destruct (p k) eqn:Ek; cbn [s_lookup].
    + destruct (k =? j)%nat eqn:E; [apply Nat.eqb_eq in E; subst; rewrite Ek; reflexivity|]. exact IH.
    + destruct (k =? j)%nat eqn:E; [apply Nat.eqb_eq in E; subst; rewrite Ek; reflexivity|]. exact IH.
Qed.

(* ---------- l_insert / l_erase / l_set ---------- *)
Lemma lookup_insert : forall l i v j, s_lookup j (l_insert i v l) = if (j =? i)%nat then v else s_lookup j l.
Proof.
  induction l as [|[k w] r IH]; intros i v j; cbn [l_insert s_lookup].
  - rewrite (Nat.eqb_sym j i). reflexivity.
  - destruct (i <? k)%nat eqn:E1; [cbn [s_lookup]; rewrite (Nat.eqb_sym j i); reflexivity|].
    destruct (i =? k)%nat eqn:E2; cbn [s_lookup].
    + apply Nat.eqb_eq in E2. subst. rewrite (Nat.eqb_sym j k). destruct (k =? j)%nat; reflexivity.
    + rewrite IH. destruct (k =? j)%nat eqn:E3; [|reflexivity].
      apply Nat.eqb_eq in E3. subst. rewrite Nat.eqb_sym, E2. reflexivity.
Qed.

Lemma Forall_insert : forall (P : sent -> Prop) l i v, P (i, v) -> Forall P l -> Forall P (l_insert i v l).
Proof.
  intros P. induction l as [|[k w] r IH]; intros i v Hp Hl; cbn [l_insert].
  - constructor; [exact Hp|constructor].
  - inversion Hl; subst. destruct (i <? k)%nat; [constructor; assumption|].
    destruct (i =? k)%nat; [constructor; assumption|]. constructor; [assumption|apply IH; assumption].
Qed.

Lemma sorted_insert : forall l i v, s_sorted l -> s_sorted (l_insert i v l).
Proof.
  induction l as [|[k w] r IH]; intros i v Hs; cbn [l_insert].
  - constructor; constructor.
  - pose proof Hs as Hs0. apply sorted_inv in Hs. destruct Hs as [Hs Hf].
    destruct (i <? k)%nat eqn:E1.
    + apply Nat.ltb_lt in E1. constructor; [exact Hs0|]. constructor; [cbn [fst]; exact E1|].
      eapply Forall_impl; [|exact Hf]. cbn [fst]. intros; lia.
    + apply Nat.ltb_ge in E1. destruct (i =? k)%nat eqn:E2.
      * apply Nat.eqb_eq in E2. subst. constructor; [exact Hs|exact Hf].
      * apply Nat.eqb_neq in E2. constructor; [apply IH, Hs|].
        apply Forall_insert; [cbn [fst]; lia|exact Hf].
Qed.

Lemma lookup_erase : forall l i j, s_lookup j (l_erase i l) = if (j =? i)%nat then 0 else s_lookup j l.
Proof.
  intros l i j. unfold l_erase. rewrite (lookup_filter_key (fun k => negb (k =? i)%nat)).
  destruct (j =? i)%nat; reflexivity.
Qed.

Lemma erase_not_mem : forall l i, s_mem i l = false -> l_erase i l = l.
Proof.
  induction l as [|[k w] r IH]; intros i H; [reflexivity|]. cbn [s_mem] in H.
  apply orb_false_iff in H. destruct H as [H1 H2]. unfold l_erase in *. cbn [filter fst].
  rewrite H1. cbn [negb]. f_equal. apply IH, H2.
Qed.

Lemma lookup_set : forall l i v j, s_lookup j (l_set i v l) = if (j =? i)%nat then v else s_lookup j l.
Proof.
  intros l i v j. unfold l_set. destruct (v =? 0) eqn:E.
  - apply Z.eqb_eq in E. subst. apply lookup_erase.
  - apply lookup_insert.
Qed.

Lemma sorted_set : forall l i v, s_sorted l -> s_sorted (l_set i v l).
Proof.
  intros l i v H. unfold l_set. destruct (v =? 0); [apply sorted_filter, H|apply sorted_insert, H].
Qed.

Lemma bound_set : forall n l i v, (i < n)%nat -> Forall (fun e => (fst e < n)%nat) l ->
  Forall (fun e => (fst e < n)%nat) (l_set i v l).
Proof.
  intros n l i v Hi H. unfold l_set. destruct (v =? 0); [apply Forall_filter', H|apply Forall_insert; [exact Hi|exact H]].
Qed.

Lemma nz_set : forall l i v, Forall (fun e => snd e <> 0) l -> Forall (fun e => snd e <> 0) (l_set i v l).
Proof.
  intros l i v H. unfold l_set. destruct (v =? 0) eqn:E; [apply Forall_filter', H|].
  apply Z.eqb_neq in E. apply Forall_insert; [exact E|exact H].
Qed.

(* ---------- zero / set / add ---------- *)
Lemma s_zero_good : forall n, s_wf (s_zero n) /\ s_nz (s_zero n).
Proof. intro n. split; [split|]; cbn; constructor. Qed.
Lemma s_zero_abs : forall n, aeq (abs_s (s_zero n)) (a_zero n).
Proof. intro n. split; [reflexivity|intro i; reflexivity]. Qed.

Lemma s_set_abs : forall i v s, aeq (abs_s (s_set i v s)) (a_set i v (abs_s s)).
Proof. intros i v s. split; [reflexivity|]. intro j. cbn [abs_s acoef a_set s_set sents]. apply lookup_set. Qed.
Lemma s_set_wf : forall i v s, s_wf s -> (i < ssize s)%nat -> s_wf (s_set i v s).
Proof. intros i v s [Hs Hb] Hi. split; cbn [s_set sents ssize]; [apply sorted_set, Hs|apply bound_set; assumption]. Qed.
Lemma s_set_nz : forall i v s, s_nz s -> s_nz (s_set i v s).
Proof. intros i v s H. apply nz_set, H. Qed.

Lemma s_add_abs : forall i v s, aeq (abs_s (s_add i v s)) (a_add i v (abs_s s)).
Proof.
  intros i v s. split; [reflexivity|]. intro j. cbn [abs_s acoef a_add s_add sents]. rewrite lookup_set.
  destruct (j =? i)%nat eqn:E; [apply Nat.eqb_eq in E; subst|]; reflexivity.
Qed.
Lemma s_add_wf : forall i v s, s_wf s -> (i < ssize s)%nat -> s_wf (s_add i v s).
Proof. intros i v s [Hs Hb] Hi. split; cbn [s_add sents ssize]; [apply sorted_set, Hs|apply bound_set; assumption]. Qed.
Lemma s_add_nz : forall i v s, s_nz s -> s_nz (s_add i v s).
Proof. intros i v s H. apply nz_set, H. Qed.

(* ---------- swap ---------- *)
Lemma s_swap_size : forall i j s, ssize (s_swap i j s) = ssize s.
Proof. intros i j s. unfold s_swap. destruct (s_mem i (sents s)), (s_mem j (sents s)); reflexivity. Qed.

Lemma s_swap_abs : forall i j s, aeq (abs_s (s_swap i j s)) (a_swap i j (abs_s s)).
Proof.
  intros i j s. split; [apply s_swap_size|]. intro k. cbn [abs_s acoef a_swap]. unfold s_swap.
  destruct (s_mem i (sents s)) eqn:Ei, (s_mem j (sents s)) eqn:Ej; cbn [sents].
  - rewrite !lookup_insert. destruct (k =? j)%nat eqn:E1, (k =? i)%nat eqn:E2; try reflexivity.
    apply Nat.eqb_eq in E1, E2. subst. reflexivity.
  - rewrite lookup_insert, lookup_erase. apply mem_false_lookup in Ej.
    destruct (k =? j)%nat eqn:E1, (k =? i)%nat eqn:E2; try reflexivity.
    + apply Nat.eqb_eq in E1, E2. subst. reflexivity.
    + symmetry. exact Ej.
  - rewrite lookup_insert, lookup_erase. apply mem_false_lookup in Ei.
    destruct (k =? i)%nat eqn:E2, (k =? j)%nat eqn:E1; try reflexivity.
    symmetry. exact Ei.
  - apply mem_false_lookup in Ei, Ej.
    destruct (k =? i)%nat eqn:E2; [apply Nat.eqb_eq in E2; subst; congruence|].
    destruct (k =? j)%nat eqn:E1; [apply Nat.eqb_eq in E1; subst; congruence|]. reflexivity.
Qed.

Lemma s_swap_wf : forall i j s, s_wf s -> (i < ssize s)%nat -> (j < ssize s)%nat -> s_wf (s_swap i j s).
Proof.
  intros i j s [Hs Hb] Hi Hj. unfold s_swap.
  destruct (s_mem i (sents s)), (s_mem j (sents s)); split; cbn [sents ssize]; try assumption.
  - apply sorted_insert, sorted_insert, Hs.
  - apply Forall_insert; [exact Hj|]. apply Forall_insert; [exact Hi|exact Hb].
  - apply sorted_insert, sorted_filter, Hs.
  - apply Forall_insert; [exact Hj|]. apply Forall_filter', Hb.
  - apply sorted_insert, sorted_filter, Hs.
  - apply Forall_insert; [exact Hi|]. apply Forall_filter', Hb.
Qed.

Lemma s_swap_nz : forall i j s, s_nz s -> s_nz (s_swap i j s).
Proof.
  intros i j s H. unfold s_swap, s_nz in *.
  destruct (s_mem i (sents s)) eqn:Ei, (s_mem j (sents s)) eqn:Ej; cbn [sents]; try assumption.
  - apply Forall_insert; [cbn [snd]; apply mem_true_nz; assumption|].
    apply Forall_insert; [cbn [snd]; apply mem_true_nz; assumption|exact H].
  - apply Forall_insert; [cbn [snd]; apply mem_true_nz; assumption|]. apply Forall_filter', H.
  - apply Forall_insert; [cbn [snd]; apply mem_true_nz; assumption|]. apply Forall_filter', H.
Qed.

(* ---------- shift / resize ---------- *)
Lemma s_shift_abs : forall i n s, aeq (abs_s (s_shift i n s)) (a_shift i n (abs_s s)).
Proof.
  intros i n s. split; [reflexivity|]. intro j. cbn [abs_s acoef a_shift s_shift sents asize].
  induction (sents s) as [|[k v] r IH]; cbn [map s_lookup fst snd].
  - destruct (j <? i)%nat; [reflexivity|]. destruct (j <? i + n)%nat; reflexivity.
  - destruct (i <=? k)%nat eqn:Ek; cbn [s_lookup].
    + apply Nat.leb_le in Ek. destruct (k + n =? j)%nat eqn:E.
      * apply Nat.eqb_eq in E. destruct (j <? i)%nat eqn:E1; [apply Nat.ltb_lt in E1; lia|].
        destruct (j <? i + n)%nat eqn:E2; [apply Nat.ltb_lt in E2; lia|].
        replace (k =? j - n)%nat with true; [reflexivity|]. symmetry. apply Nat.eqb_eq. lia.
      * apply Nat.eqb_neq in E. rewrite IH.
        destruct (j <? i)%nat eqn:E1.
        { apply Nat.ltb_lt in E1. replace (k =? j)%nat with false; [reflexivity|]. symmetry. apply Nat.eqb_neq. lia. }
        destruct (j <? i + n)%nat eqn:E2; [reflexivity|]. apply Nat.ltb_ge in E1, E2.
        replace (k =? j - n)%nat with false; [reflexivity|]. symmetry. apply Nat.eqb_neq. lia.
    + apply Nat.leb_gt in Ek. rewrite IH. destruct (j <? i)%nat eqn:E1; [reflexivity|]. apply Nat.ltb_ge in E1.
      replace (k =? j)%nat with false by (symmetry; apply Nat.eqb_neq; lia).
      destruct (j <? i + n)%nat eqn:E2; [reflexivity|]. apply Nat.ltb_ge in E2.
      replace (k =? j - n)%nat with false; [reflexivity|]. symmetry. apply Nat.eqb_neq. lia.
Qed.

Lemma s_shift_wf : forall i n s, s_wf s -> s_wf (s_shift i n s).
Proof.
  intros i n s [Hs Hb]. split; cbn [s_shift sents ssize].
  - apply sorted_map_mono; [|exact Hs]. intros a b Hab.
    destruct (i <=? fst a)%nat eqn:Ea, (i <=? fst b)%nat eqn:Eb; cbn [fst]; try lia.
    apply Nat.leb_le in Ea. apply Nat.leb_gt in Eb. lia.
  - apply Forall_map'. rewrite Forall_forall in Hb. intros e He. specialize (Hb _ He).
    destruct (i <=? fst e)%nat; cbn [fst]; lia.
Qed.

Lemma s_shift_nz : forall i n s, s_nz s -> s_nz (s_shift i n s).
Proof.
  intros i n s H. unfold s_nz in *. cbn [s_shift sents]. apply Forall_map'. rewrite Forall_forall in H.
  intros e He. specialize (H _ He). destruct (i <=? fst e)%nat; cbn [snd]; exact H.
Qed.

Lemma s_resize_abs : forall n s, s_wf s -> aeq (abs_s (s_resize n s)) (a_resize n (abs_s s)).
Proof.
  intros n s [Hs Hb]. split; [reflexivity|]. intro j. cbn [abs_s acoef a_resize s_resize sents].
  destruct (n <? ssize s)%nat eqn:E.
  - apply (lookup_filter_key (fun k => (k <? n)%nat)).
  - apply Nat.ltb_ge in E. destruct (j <? n)%nat eqn:Ej; [reflexivity|]. apply Nat.ltb_ge in Ej.
    eapply lookup_bound; [exact Hb|lia].
Qed.

Lemma s_resize_wf : forall n s, s_wf s -> s_wf (s_resize n s).
Proof.
  intros n s [Hs Hb]. unfold s_resize. destruct (n <? ssize s)%nat eqn:E; split; cbn [sents ssize].
  - apply sorted_filter, Hs.
  - rewrite Forall_forall. intros e He. apply filter_In in He. destruct He as [_ He]. apply Nat.ltb_lt in He. exact He.
  - exact Hs.
  - apply Nat.ltb_ge in E. eapply Forall_impl; [|exact Hb]. cbn. intros; lia.
Qed.

Lemma s_resize_nz : forall n s, s_nz s -> s_nz (s_resize n s).
Proof.
  intros n s H. unfold s_resize, s_nz in *. destruct (n <? ssize s)%nat; cbn [sents]; [apply Forall_filter', H|exact H].
Qed.

(* ---------- map_range / erase_range / mul_range ---------- *)
Lemma s_map_range_abs : forall g f l s, g 0 = 0 -> aeq (abs_s (s_map_range g f l s)) (a_map_range g f l (abs_s s)).
Proof.
  intros g f l s Hg. split; [reflexivity|]. intro j. cbn [abs_s acoef a_map_range s_map_range sents].
  apply (lookup_map_val (inr f l) g _ _ Hg).
Qed.

Lemma s_map_range_wf : forall g f l s, s_wf s -> s_wf (s_map_range g f l s).
Proof.
  intros g f l s [Hs Hb]. split; cbn [s_map_range sents ssize].
  - apply sorted_map_mono; [|exact Hs]. intros a b Hab.
    destruct (inr f l (fst a)), (inr f l (fst b)); cbn [fst]; exact Hab.
  - apply Forall_map'. rewrite Forall_forall in Hb. intros e He. specialize (Hb _ He).
    destruct (inr f l (fst e)); cbn [fst]; exact Hb.
Qed.

Lemma s_map_range_nz : forall g f l s, s_wf s -> s_nz s ->
  (forall k, inr f l k = true -> s_lookup k (sents s) <> 0 -> g (s_lookup k (sents s)) <> 0) ->
  s_nz (s_map_range g f l s).
Proof.
  intros g f l s [Hs Hb] Hnz Hg. unfold s_nz in *. cbn [s_map_range sents]. apply Forall_map'.
  rewrite Forall_forall in Hnz. intros [k v] He. pose proof (Hnz _ He) as Hv. cbn [fst snd] in *.
  destruct (inr f l k) eqn:E; cbn [snd]; [|exact Hv].
  pose proof (in_lookup _ _ _ Hs He) as Hl. specialize (Hg k E). rewrite Hl in Hg. apply Hg, Hv.
Qed.

Lemma s_map_range_nz_simple : forall g f l s, s_nz s -> (forall v, v <> 0 -> g v <> 0) -> s_nz (s_map_range g f l s).
Proof.
  intros g f l s Hnz Hg. unfold s_nz in *. cbn [s_map_range sents]. apply Forall_map'.
  rewrite Forall_forall in Hnz. intros e He. pose proof (Hnz _ He) as Hv.
  destruct (inr f l (fst e)); cbn [snd]; [apply Hg, Hv|exact Hv].
Qed.

Lemma s_erase_range_abs : forall f l s, aeq (abs_s (s_erase_range f l s)) (a_map_range (Z.mul 0) f l (abs_s s)).
Proof.
  intros f l s. split; [reflexivity|]. intro j. cbn [abs_s acoef a_map_range s_erase_range sents].
  rewrite (lookup_filter_key (fun k => negb (inr f l k))). destruct (inr f l j); reflexivity.
Qed.

Lemma s_erase_range_wf : forall f l s, s_wf s -> s_wf (s_erase_range f l s).
Proof. intros f l s [Hs Hb]. split; cbn [s_erase_range sents ssize]; [apply sorted_filter, Hs|apply Forall_filter', Hb]. Qed.
Lemma s_erase_range_nz : forall f l s, s_nz s -> s_nz (s_erase_range f l s).
Proof. intros f l s H. apply Forall_filter', H. Qed.

Lemma s_mul_range_abs : forall c f l s, aeq (abs_s (s_mul_range c f l s)) (a_map_range (Z.mul c) f l (abs_s s)).
Proof.
  intros c f l s. unfold s_mul_range. destruct (c =? 0) eqn:E.
  - apply Z.eqb_eq in E. subst. apply s_erase_range_abs.
  - apply s_map_range_abs. apply Z.mul_0_r.
Qed.
Lemma s_mul_range_wf : forall c f l s, s_wf s -> s_wf (s_mul_range c f l s).
Proof. intros c f l s H. unfold s_mul_range. destruct (c =? 0); [apply s_erase_range_wf, H|apply s_map_range_wf, H]. Qed.
Lemma s_mul_range_nz : forall c f l s, s_nz s -> s_nz (s_mul_range c f l s).
Proof.
  intros c f l s H. unfold s_mul_range. destruct (c =? 0) eqn:E; [apply s_erase_range_nz, H|].
  apply Z.eqb_neq in E. apply s_map_range_nz_simple; [exact H|]. intros v Hv. lia.
Qed.

(* UMulAll on a sparse row *)
Definition s_mul_all (c : Z) (s : srow) : srow :=
  if c =? 0 then mkSR (ssize s) [] else s_map_range (Z.mul c) 0 (ssize s) s.
Lemma s_mul_all_abs : forall c s, s_wf s -> aeq (abs_s (s_mul_all c s)) (a_map_range (Z.mul c) 0 (ssize s) (abs_s s)).
Proof.
  intros c s Hwf. unfold s_mul_all. destruct (c =? 0) eqn:E.
  - apply Z.eqb_eq in E. subst. split; [reflexivity|]. intro j. cbn [abs_s acoef a_map_range sents s_lookup].
    unfold inr. cbn [Nat.leb andb]. destruct (j <? ssize s)%nat eqn:Ej; [reflexivity|]. apply Nat.ltb_ge in Ej.
    symmetry. destruct Hwf as [_ Hb]. eapply lookup_bound; eassumption.
  - apply s_map_range_abs. apply Z.mul_0_r.
Qed.
Lemma s_mul_all_wf : forall c s, s_wf s -> s_wf (s_mul_all c s).
Proof.
  intros c s H. unfold s_mul_all. destruct (c =? 0); [|apply s_map_range_wf, H]. split; cbn; constructor.
Qed.
Lemma s_mul_all_nz : forall c s, s_nz s -> s_nz (s_mul_all c s).
Proof.
  intros c s H. unfold s_mul_all. destruct (c =? 0) eqn:E; [constructor|].
  apply Z.eqb_neq in E. apply s_map_range_nz_simple; [exact H|]. intros v Hv. lia.
Qed.

(* ---------- exact division ---------- *)
Lemma exact_div_nz : forall c v, c <> 0 -> v mod c = 0 -> v <> 0 -> v / c <> 0.
Proof. intros c v Hc Hm Hv H. apply Z.div_exact in Hm; [|exact Hc]. rewrite H in Hm. lia. Qed.

Lemma inr_in_seq : forall f l k, inr f l k = true -> In k (seq f (l - f)).
Proof.
  intros f l k H. unfold inr in H. apply andb_true_iff in H. destruct H as [H1 H2].
  apply Nat.leb_le in H1. apply Nat.ltb_lt in H2. apply in_seq. lia.
Qed.

Lemma s_exact_div_nz : forall c f l s, s_wf s -> s_nz s -> c <> 0 ->
  divides_range c f l (acoef (abs_s s)) = true -> s_nz (s_map_range (fun v => v / c) f l s).
Proof.
  intros c f l s Hwf Hnz Hc Hd. apply s_map_range_nz; try assumption. intros k Hk Hv.
  unfold divides_range in Hd. rewrite forallb_forall in Hd. specialize (Hd k (inr_in_seq _ _ _ Hk)).
  cbn [abs_s acoef] in Hd. apply Z.eqb_eq in Hd. apply exact_div_nz; assumption.
Qed.

(* ---------- permute ---------- *)
Lemma s_swaps_abs : forall l s,
  aeq (abs_s (fold_left (fun r p => s_swap (fst p) (snd p) r) l s))
      (fold_left (fun r p => a_swap (fst p) (snd p) r) l (abs_s s)).
Proof.
  induction l as [|p l IH]; intros s; cbn [fold_left]; [apply aeq_refl|].
  eapply aeq_trans; [apply IH|]. apply a_swaps_cong. apply s_swap_abs.
Qed.

Lemma s_permute_abs : forall c s, aeq (abs_s (s_permute c s)) (a_permute c (abs_s s)).
Proof. intros c s. apply s_swaps_abs. Qed.

Lemma s_swaps_wf : forall l s, Forall (fun p => (fst p < ssize s)%nat /\ (snd p < ssize s)%nat) l -> s_wf s ->
  s_wf (fold_left (fun r p => s_swap (fst p) (snd p) r) l s).
Proof.
  induction l as [|p l IH]; intros s H Hwf; cbn [fold_left]; [exact Hwf|].
  inversion H as [|p' l' [Hp1 Hp2] Hl]; subst. apply IH.
  - rewrite s_swap_size. exact Hl.
  - apply s_swap_wf; assumption.
Qed.

Lemma s_permute_wf : forall c s, Forall (fun v => (v < ssize s)%nat) c -> s_wf s -> s_wf (s_permute c s).
Proof.
  intros c s H Hwf. apply s_swaps_wf; [|exact Hwf]. apply Forall_forall. intros p Hp.
  apply cycle_swaps_in in Hp. destruct Hp as [H1 H2]. rewrite Forall_forall in H. split; apply H; assumption.
Qed.

Lemma s_permute_nz : forall c s, s_nz s -> s_nz (s_permute c s).
Proof.
  intros c s. unfold s_permute. generalize (cycle_swaps c). intro l. revert s.
  induction l as [|p l IH]; intros s H; cbn [fold_left]; [exact H|]. apply IH, s_swap_nz, H.
Qed.

(* ---------- generic "set the visited positions" folds (linear_combine) ---------- *)
Definition gstep (G : sent -> Z -> Z) (l : list sent) (e : sent) : list sent :=
  l_set (fst e) (G e (s_lookup (fst e) l)) l.

Lemma gfold_sorted : forall G es l, s_sorted l -> s_sorted (fold_left (gstep G) es l).
Proof. intros G es. induction es as [|e es IH]; intros l H; cbn [fold_left]; [exact H|]. apply IH, sorted_set, H. Qed.

Lemma gfold_bound : forall G n es l, Forall (fun e => (fst e < n)%nat) es -> Forall (fun e => (fst e < n)%nat) l ->
  Forall (fun e => (fst e < n)%nat) (fold_left (gstep G) es l).
Proof.
  intros G n es. induction es as [|e es IH]; intros l He H; cbn [fold_left]; [exact H|].
  inversion He; subst. apply IH; [assumption|]. apply bound_set; assumption.
Qed.

Lemma gfold_nz : forall G es l, Forall (fun e => snd e <> 0) l -> Forall (fun e => snd e <> 0) (fold_left (gstep G) es l).
Proof. intros G es. induction es as [|e es IH]; intros l H; cbn [fold_left]; [exact H|]. apply IH, nz_set, H. Qed.

Lemma above_not_mem : forall k r, Forall (fun b : sent => (k < fst b)%nat) r -> s_mem k r = false.
Proof.
  intros k r. induction r as [|[k' w] r IH]; intros H; cbn [s_mem]; [reflexivity|].
  inversion H; subst. cbn [fst] in *. rewrite IH by assumption.
  replace (k' =? k)%nat with false; [reflexivity|]. symmetry. apply Nat.eqb_neq. lia.
Qed.

Lemma gfold_lookup : forall G es l j, s_sorted es ->
  s_lookup j (fold_left (gstep G) es l)
  = if s_mem j es then G (j, s_lookup j es) (s_lookup j l) else s_lookup j l.
Proof.
  intros G es. induction es as [|[k v] es IH]; intros l j Hs; cbn [fold_left s_mem s_lookup]; [reflexivity|].
  apply sorted_inv in Hs. destruct Hs as [Hs Hf]. cbn [fst] in Hf. rewrite IH by exact Hs.
  unfold gstep. cbn [fst]. rewrite lookup_set.
  destruct (k =? j)%nat eqn:E.
  - apply Nat.eqb_eq in E. subst j. rewrite (above_not_mem _ _ Hf). cbn [orb]. rewrite Nat.eqb_refl. reflexivity.
  - cbn [orb]. rewrite (Nat.eqb_sym j k), E. reflexivity.
Qed.

Lemma fold_left_ext_in : forall (A B : Type) (f g : A -> B -> A) l a,
  (forall a b, In b l -> f a b = g a b) -> fold_left f l a = fold_left g l a.
Proof.
  intros A B f g l. induction l as [|b l IH]; intros a H; cbn [fold_left]; [reflexivity|].
  rewrite H by (left; reflexivity). apply IH. intros a' b' Hb. apply H. right. exact Hb.
Qed.

Lemma fold_left_map : forall (A B C : Type) (f : A -> B -> A) (h : C -> B) l a,
  fold_left f (map h l) a = fold_left (fun a c => f a (h c)) l a.
Proof. intros A B C f h l. induction l as [|c l IH]; intros a; cbn [map fold_left]; [reflexivity|]. apply IH. Qed.

Lemma mem_filter_key : forall (p : nat -> bool) l j,
  s_mem j (filter (fun e => p (fst e)) l) = p j && s_mem j l.
Proof.
  intros p l j. induction l as [|[k v] r IH]; cbn [filter s_mem fst].
  - rewrite andb_false_r. reflexivity.
  - destruct (p k) eqn:Ek; cbn [s_mem]; rewrite IH.
    + destruct (k =? j)%nat eqn:E; [apply Nat.eqb_eq in E; subst; rewrite Ek; reflexivity|]. reflexivity.
    + destruct (k =? j)%nat eqn:E; [apply Nat.eqb_eq in E; subst; rewrite Ek; reflexivity|]. reflexivity.
Qed.

Lemma ys_in_bound : forall f l n ys, (l <= n)%nat -> Forall (fun e => (fst e < n)%nat) (ys_in f l ys).
Proof.
  intros f l n ys Hl. unfold ys_in. rewrite Forall_forall. intros e He. apply filter_In in He.
  destruct He as [_ He]. unfold inr in He. apply andb_true_iff in He. destruct He as [_ He].
  apply Nat.ltb_lt in He. lia.
Qed.

(* --- sparse / sparse --- *)
Definition Gadd (c2 : Z) (e : sent) (w : Z) : Z := w + snd e * c2.

Lemma lc_one_step_g : forall c2 l e, lc_one_step c2 l e = gstep (Gadd c2) l e.
Proof. reflexivity. Qed.

Lemma lc_gen_step_g : forall c2 l e, snd e * c2 <> 0 -> lc_gen_step c2 l e = gstep (Gadd c2) l e.
Proof.
  intros c2 l e H. unfold lc_gen_step, gstep, Gadd. destruct (s_mem (fst e) l) eqn:E; [reflexivity|].
  rewrite (mem_false_lookup _ _ E). cbn [Z.add]. unfold l_set.
  destruct (snd e * c2 =? 0) eqn:E0; [apply Z.eqb_eq in E0; contradiction|reflexivity].
Qed.

Lemma gadd_lookup : forall c2 f l ys xs j, s_sorted ys ->
  s_lookup j (fold_left (gstep (Gadd c2)) (ys_in f l ys) xs)
  = if inr f l j then s_lookup j xs + c2 * s_lookup j ys else s_lookup j xs.
Proof.
  intros c2 f l ys xs j Hs. rewrite gfold_lookup by (apply sorted_filter, Hs).
  unfold ys_in. rewrite (mem_filter_key (inr f l)), (lookup_filter_key (inr f l)). unfold Gadd. cbn [snd].
  destruct (inr f l j); cbn [andb]; [|reflexivity].
  destruct (s_mem j ys) eqn:E; [lia|]. rewrite (mem_false_lookup _ _ E). lia.
Qed.

Lemma s_combine_ss_abs : forall c1 c2 f l x y, s_wf y -> s_nz y -> c2 <> 0 ->
  aeq (abs_s (s_combine_ss c1 c2 f l x y)) (a_combine c1 c2 f l (abs_s x) (abs_s y)).
Proof.
  intros c1 c2 f l x y [Hsy _] Hnz Hc2. unfold s_combine_ss. destruct (c1 =? 1) eqn:E1.
  - apply Z.eqb_eq in E1. subst. split; [reflexivity|]. intro j. cbn [abs_s acoef a_combine sents].
    rewrite (fold_left_ext_in _ _ (lc_one_step c2) (gstep (Gadd c2))) by (intros; reflexivity).
    rewrite gadd_lookup by exact Hsy. destruct (inr f l j); lia.
  - split; [reflexivity|]. intro j. cbn [abs_s acoef a_combine sents ssize].
    rewrite (fold_left_ext_in _ _ (lc_gen_step c2) (gstep (Gadd c2))).
    + rewrite gadd_lookup by exact Hsy. cbn [s_map_range sents].
      rewrite (lookup_map_val (inr f l) (Z.mul c1)) by apply Z.mul_0_r. destruct (inr f l j); lia.
    + intros a b Hb. apply lc_gen_step_g. unfold ys_in in Hb. apply filter_In in Hb. destruct Hb as [Hb _].
      unfold s_nz in Hnz. rewrite Forall_forall in Hnz. specialize (Hnz _ Hb). lia.
Qed.

Lemma s_combine_ss_good : forall c1 c2 f l x y, s_wf x -> s_nz x -> s_wf y -> s_nz y -> c1 <> 0 -> c2 <> 0 ->
  (l <= ssize x)%nat -> s_wf (s_combine_ss c1 c2 f l x y) /\ s_nz (s_combine_ss c1 c2 f l x y).
Proof.
  intros c1 c2 f l x y Hwx Hnx [Hsy _] Hny Hc1 Hc2 Hl. unfold s_combine_ss. destruct (c1 =? 1) eqn:E1.
  - rewrite (fold_left_ext_in _ _ (lc_one_step c2) (gstep (Gadd c2))) by (intros; reflexivity).
    destruct Hwx as [Hsx Hbx]. split; [split|]; cbn [sents ssize].
    + apply gfold_sorted, Hsx.
    + apply gfold_bound; [apply ys_in_bound, Hl|exact Hbx].
    + apply gfold_nz, Hnx.
  - rewrite (fold_left_ext_in _ _ (lc_gen_step c2) (gstep (Gadd c2))).
    + pose proof (s_map_range_wf (Z.mul c1) f l x Hwx) as [Hs' Hb'].
      assert (Hn' : s_nz (s_map_range (Z.mul c1) f l x)).
      { apply s_map_range_nz_simple; [exact Hnx|]. intros v Hv. lia. }
      split; [split|]; cbn [sents ssize].
      * apply gfold_sorted, Hs'.
      * apply gfold_bound; [apply ys_in_bound, Hl|exact Hb'].
      * apply gfold_nz, Hn'.
    + intros a b Hb. apply lc_gen_step_g. unfold ys_in in Hb. apply filter_In in Hb. destruct Hb as [Hb _].
      unfold s_nz in Hny. rewrite Forall_forall in Hny. specialize (Hny _ Hb). lia.
Qed.

(* --- sparse / dense --- *)
Definition Gsd (c1 c2 : Z) (e : sent) (w : Z) : Z := c1 * w + snd e * c2.

Lemma lc_sd_step_g : forall c1 c2 y l i, c2 <> 0 -> lc_sd_step c1 c2 y l i = gstep (Gsd c1 c2) l (i, y i).
Proof.
  intros c1 c2 y l i Hc2. unfold lc_sd_step, gstep, Gsd. cbn [fst snd].
  destruct (s_mem i l) eqn:E; [reflexivity|]. rewrite (mem_false_lookup _ _ E).
  replace (c1 * 0 + y i * c2) with (y i * c2) by lia. unfold l_set.
  destruct (y i =? 0) eqn:Ey.
  - apply Z.eqb_eq in Ey. rewrite Ey. cbn [Z.mul Z.eqb]. symmetry. apply erase_not_mem, E.
  - apply Z.eqb_neq in Ey. destruct (y i * c2 =? 0) eqn:E0; [apply Z.eqb_eq in E0; lia|reflexivity].
Qed.

Definition yents (y : nat -> Z) (f n : nat) : list sent := map (fun i => (i, y i)) (seq f n).

Lemma yents_sorted : forall y n f, s_sorted (yents y f n).
Proof.
  intros y n. induction n as [|n IH]; intros f; cbn [yents seq map]; [constructor|].
  constructor; [apply IH|]. rewrite Forall_forall. intros b Hb. apply in_map_iff in Hb.
  destruct Hb as [i [<- Hi]]. apply in_seq in Hi. cbn [fst]. lia.
Qed.

Lemma yents_mem : forall y n f j, s_mem j (yents y f n) = (f <=? j)%nat && (j <? f + n)%nat.
Proof.
  intros y n. induction n as [|n IH]; intros f j; cbn [yents seq map s_mem].
  - destruct (f <=? j)%nat eqn:E1, (j <? f + 0)%nat eqn:E2; try reflexivity.
    apply Nat.leb_le in E1. apply Nat.ltb_lt in E2. lia.
  - fold (yents y (S f) n). rewrite IH.
    destruct (f =? j)%nat eqn:E0, (S f <=? j)%nat eqn:E1, (j <? S f + n)%nat eqn:E2,
             (f <=? j)%nat eqn:E3, (j <? f + S n)%nat eqn:E4; try reflexivity;
    repeat match goal with
    | H : (_ =? _)%nat = true |- _ => apply Nat.eqb_eq in H
    | H : (_ =? _)%nat = false |- _ => apply Nat.eqb_neq in H
    | H : (_ <=? _)%nat = true |- _ => apply Nat.leb_le in H
    | H : (_ <=? _)%nat = false |- _ => apply Nat.leb_gt in H
    | H : (_ <? _)%nat = true |- _ => apply Nat.ltb_lt in H
    | H : (_ <? _)%nat = false |- _ => apply Nat.ltb_ge in H
    end; lia.
Qed.

Lemma yents_lookup : forall y n f j, s_mem j (yents y f n) = true -> s_lookup j (yents y f n) = y j.
Proof.
  intros y n. induction n as [|n IH]; intros f j H; cbn [yents seq map s_mem s_lookup] in *; [discriminate|].
  destruct (f =? j)%nat eqn:E0; [apply Nat.eqb_eq in E0; subst; reflexivity|].
  cbn [orb] in H. apply IH, H.
Qed.

Lemma yents_range : forall y f l j, s_mem j (yents y f (l - f)) = inr f l j.
Proof.
  intros y f l j. rewrite yents_mem. unfold inr.
  destruct (f <=? j)%nat eqn:E1; cbn [andb]; [|reflexivity]. apply Nat.leb_le in E1.
  destruct (j <? f + (l - f))%nat eqn:E2, (j <? l)%nat eqn:E3; try reflexivity.
  - apply Nat.ltb_lt in E2. apply Nat.ltb_ge in E3. lia.
  - apply Nat.ltb_ge in E2. apply Nat.ltb_lt in E3. lia.
Qed.

Lemma s_combine_sd_eq : forall c1 c2 f l x y, c2 <> 0 ->
  s_combine_sd c1 c2 f l x y = mkSR (ssize x) (fold_left (gstep (Gsd c1 c2)) (yents y f (l - f)) (sents x)).
Proof.
  intros c1 c2 f l x y Hc2. unfold s_combine_sd, yents. f_equal. rewrite fold_left_map.
  apply fold_left_ext_in. intros a b _. apply lc_sd_step_g, Hc2.
Qed.

Lemma s_combine_sd_abs : forall c1 c2 f l x y, c2 <> 0 ->
  aeq (abs_s (s_combine_sd c1 c2 f l x (acoef y))) (a_combine c1 c2 f l (abs_s x) y).
Proof.
  intros c1 c2 f l x y Hc2. rewrite s_combine_sd_eq by exact Hc2. split; [reflexivity|]. intro j.
  cbn [abs_s acoef a_combine sents]. rewrite gfold_lookup by apply yents_sorted. rewrite yents_range.
  destruct (inr f l j) eqn:E; [|reflexivity]. unfold Gsd. cbn [snd]. rewrite yents_lookup; [lia|].
  rewrite yents_range. exact E.
Qed.

Lemma s_combine_sd_good : forall c1 c2 f l x y, s_wf x -> s_nz x -> c2 <> 0 -> (l <= ssize x)%nat ->
  s_wf (s_combine_sd c1 c2 f l x y) /\ s_nz (s_combine_sd c1 c2 f l x y).
Proof.
  intros c1 c2 f l x y [Hsx Hbx] Hnx Hc2 Hl. rewrite s_combine_sd_eq by exact Hc2.
  split; [split|]; cbn [sents ssize].
  - apply gfold_sorted, Hsx.
  - apply gfold_bound; [|exact Hbx]. unfold yents. apply Forall_forall. intros e He. apply in_map_iff in He.
    destruct He as [i [<- Hi]]. apply in_seq in Hi. cbn [fst]. lia.
  - apply gfold_nz, Hnx.
Qed.

(* --- linear_combine_lax, c1 = 0, sparse / sparse --- *)
Definition Glax (c2 : Z) (e : sent) (w : Z) : Z := snd e * c2.

Lemma lax_step_g : forall c2 l e, snd e * c2 <> 0 -> l_insert (fst e) (snd e * c2) l = gstep (Glax c2) l e.
Proof.
  intros c2 l e H. unfold gstep, Glax, l_set.
  destruct (snd e * c2 =? 0) eqn:E0; [apply Z.eqb_eq in E0; contradiction|reflexivity].
Qed.

Lemma s_lax0_eq : forall c2 f l x t, s_nz t -> c2 <> 0 ->
  s_lax0 c2 f l x (stored_in f l t)
  = mkSR (ssize x) (fold_left (gstep (Glax c2)) (ys_in f l (sents t)) (sents (s_erase_range f l x))).
Proof.
  intros c2 f l x t Hnz Hc2. unfold s_lax0, stored_in. f_equal. apply fold_left_ext_in.
  intros a b Hb. apply lax_step_g. unfold ys_in in Hb. apply filter_In in Hb. destruct Hb as [Hb _].
  unfold s_nz in Hnz. rewrite Forall_forall in Hnz. specialize (Hnz _ Hb). lia.
Qed.

Lemma s_lax0_abs : forall c2 f l x t, s_wf t -> s_nz t -> c2 <> 0 ->
  aeq (abs_s (s_lax0 c2 f l x (stored_in f l t))) (a_combine 0 c2 f l (abs_s x) (abs_s t)).
Proof.
  intros c2 f l x t [Hst _] Hnz Hc2. rewrite s_lax0_eq by assumption. split; [reflexivity|]. intro j.
  cbn [abs_s acoef a_combine sents]. rewrite gfold_lookup by (apply sorted_filter, Hst).
  unfold ys_in. rewrite (mem_filter_key (inr f l)), (lookup_filter_key (inr f l)).
  cbn [s_erase_range sents]. rewrite (lookup_filter_key (fun k => negb (inr f l k))). unfold Glax. cbn [snd].
  destruct (inr f l j); cbn [andb negb]; [|reflexivity].
  destruct (s_mem j (sents t)) eqn:E; [lia|]. rewrite (mem_false_lookup _ _ E). lia.
Qed.

Lemma s_lax0_good : forall c2 f l x t, s_wf x -> s_nz x -> s_nz t -> c2 <> 0 -> (l <= ssize x)%nat ->
  s_wf (s_lax0 c2 f l x (stored_in f l t)) /\ s_nz (s_lax0 c2 f l x (stored_in f l t)).
Proof.
  intros c2 f l x t Hwx Hnx Hnt Hc2 Hl. rewrite s_lax0_eq by assumption.
  pose proof (s_erase_range_wf f l x Hwx) as [Hs' Hb']. pose proof (s_erase_range_nz f l x Hnx) as Hn'.
  split; [split|]; cbn [sents ssize].
  - apply gfold_sorted, Hs'.
  - apply gfold_bound; [apply ys_in_bound, Hl|exact Hb'].
  - apply gfold_nz, Hn'.
Qed.

(* ---------- conversions ---------- *)
Definition nzp (p : nat * Z) : bool := negb (snd p =? 0).

Lemma combine_seq_range : forall d k, Forall (fun e : sent => (k <= fst e < k + length d)%nat) (combine (seq k (length d)) d).
Proof.
  induction d as [|v r IH]; intros k; cbn [length seq combine]; [constructor|].
  constructor; [cbn [fst]; lia|]. eapply Forall_impl; [|apply (IH (S k))]. cbn. intros; lia.
Qed.

Lemma combine_seq_sorted : forall d k, s_sorted (combine (seq k (length d)) d).
Proof.
  induction d as [|v r IH]; intros k; cbn [length seq combine]; [constructor|].
  constructor; [apply IH|]. eapply Forall_impl; [|apply (combine_seq_range r (S k))]. cbn. intros; lia.
Qed.

Lemma combine_seq_lookup : forall d k j,
  s_lookup j (filter nzp (combine (seq k (length d)) d)) = if (k <=? j)%nat then nth (j - k) d 0 else 0.
Proof.
  induction d as [|v r IH]; intros k j; cbn [length seq combine filter s_lookup].
  - destruct (k <=? j)%nat; [destruct (j - k)%nat|]; reflexivity.
  - unfold nzp at 1. cbn [snd]. destruct (v =? 0) eqn:Ev; cbn [negb s_lookup]; fold nzp.
    + rewrite IH. apply Z.eqb_eq in Ev. subst v.
      destruct (S k <=? j)%nat eqn:E1, (k <=? j)%nat eqn:E2; try reflexivity.
      * apply Nat.leb_le in E1. replace (j - k)%nat with (S (j - S k)) by lia. reflexivity.
      * apply Nat.leb_le in E1. apply Nat.leb_gt in E2. lia.
      * apply Nat.leb_gt in E1. apply Nat.leb_le in E2. replace (j - k)%nat with 0%nat by lia. reflexivity.
    + destruct (k =? j)%nat eqn:E0.
      * apply Nat.eqb_eq in E0. subst j. rewrite Nat.leb_refl, Nat.sub_diag. reflexivity.
      * apply Nat.eqb_neq in E0. rewrite IH.
        destruct (S k <=? j)%nat eqn:E1, (k <=? j)%nat eqn:E2; try reflexivity.
        -- apply Nat.leb_le in E1. replace (j - k)%nat with (S (j - S k)) by lia. reflexivity.
        -- apply Nat.leb_le in E1. apply Nat.leb_gt in E2. lia.
        -- apply Nat.leb_gt in E1. apply Nat.leb_le in E2. lia.
Qed.

Definition d2s (d : drow) : list sent := filter nzp (combine (seq 0 (length d)) d).

Lemma to_sparse_dense : forall d, to_sparse (ED d) = mkSR (length d) (d2s d).
Proof. reflexivity. Qed.

Lemma d2s_lookup : forall d j, s_lookup j (d2s d) = nth j d 0.
Proof. intros d j. unfold d2s. rewrite combine_seq_lookup. cbn [Nat.leb]. rewrite Nat.sub_0_r. reflexivity. Qed.
Lemma d2s_sorted : forall d, s_sorted (d2s d).
Proof. intro d. apply sorted_filter, combine_seq_sorted. Qed.
Lemma d2s_bound : forall d n, (length d <= n)%nat -> Forall (fun e => (fst e < n)%nat) (d2s d).
Proof.
  intros d n H. apply Forall_filter'. eapply Forall_impl; [|apply (combine_seq_range d 0)]. cbn. intros; lia.
Qed.
Lemma d2s_nz : forall d, Forall (fun e => snd e <> 0) (d2s d).
Proof.
  intro d. apply Forall_forall. intros e He. apply filter_In in He. destruct He as [_ He].
  unfold nzp in He. apply negb_true_iff, Z.eqb_neq in He. exact He.
Qed.

Lemma convert_good : forall sp e, good e -> good (convert sp e) /\ aeq (abs_e (convert sp e)) (abs_e e).
Proof.
  intros sp e Hg. destruct sp; cbn [convert].
  - destruct e as [d|s]; [change (to_sparse (ED d)) with (mkSR (length d) (d2s d))|cbn [to_sparse]].
    + split.
      * cbn [good]. split; [split|]; cbn [sents ssize]; [apply d2s_sorted|apply d2s_bound; lia|apply d2s_nz].
      * split; [reflexivity|]. intro j. cbn [abs_e abs_s abs_d acoef sents]. apply d2s_lookup.
    + split; [exact Hg|apply aeq_refl].
  - split; [exact I|]. cbn [abs_e]. unfold to_dense, ecoef, esize. apply to_dense_abs, good_awf, Hg.
Qed.

Lemma copy_sized_good : forall sp n e, good e -> copy_unsafe sp n e = false ->
  good (copy_sized sp n e) /\ aeq (abs_e (copy_sized sp n e)) (a_resize n (abs_e e)).
Proof.
  intros sp n e Hg Hu. destruct sp; cbn [copy_sized].
  - destruct e as [d|s].
    + change (sents (to_sparse (ED d))) with (d2s d). split.
      * cbn [good]. split; [split|]; cbn [sents ssize].
        -- apply sorted_filter, d2s_sorted.
        -- apply Forall_forall. intros b Hb'. apply filter_In in Hb'. destruct Hb' as [_ Hb'].
           apply Nat.ltb_lt in Hb'. lia.
        -- apply Forall_filter', d2s_nz.
      * split; [reflexivity|]. intro j. cbn [abs_e abs_s abs_d acoef sents a_resize].
        rewrite (lookup_filter_key (fun k => (k <? Nat.min (length d) n)%nat)). rewrite d2s_lookup.
        destruct (j <? Nat.min (length d) n)%nat eqn:E1, (j <? n)%nat eqn:E2; try reflexivity.
        -- apply Nat.ltb_lt in E1. apply Nat.ltb_ge in E2. lia.
        -- apply Nat.ltb_ge in E1. apply Nat.ltb_lt in E2. symmetry. apply nth_overflow. lia.
    + destruct Hg as [[Hs Hb] Hnz]. split.
      * cbn [good]. split; [split|]; cbn [sents ssize].
        -- apply sorted_filter, Hs.
        -- apply Forall_forall. intros b Hb'. apply filter_In in Hb'. destruct Hb' as [_ Hb'].
           apply Nat.ltb_lt in Hb'. lia.
        -- apply Forall_filter', Hnz.
      * split; [reflexivity|]. intro j. cbn [abs_e abs_s acoef sents a_resize].
        rewrite (lookup_filter_key (fun k => (k <? Nat.min (ssize s) n)%nat)).
        destruct (j <? Nat.min (ssize s) n)%nat eqn:E1, (j <? n)%nat eqn:E2; try reflexivity.
        -- apply Nat.ltb_lt in E1. apply Nat.ltb_ge in E2. lia.
        -- apply Nat.ltb_ge in E1. apply Nat.ltb_lt in E2. symmetry. eapply lookup_bound; [exact Hb|lia].
  - split; [exact I|]. cbn [abs_e]. unfold ecoef, esize. apply copy_sized_dense_abs, good_awf, Hg.
Qed.

(* ================================================================== *)
(* observers                                                           *)
(* ================================================================== *)
Definition nzlist (f l : nat) (x : arow) : list sent :=
  map (fun i => (i, acoef x i)) (filter (fun i => negb (acoef x i =? 0)) (seq f (l - f))).
Definition a_obs1 (o : obs1) (x : arow) : oval :=
  match o with
  | OGet i => OZ (a_get i x) | OGcd f l => OZ (a_gcd f l x) | OAllZeroes f l => OB (a_all_zeroes f l x)
  | ONumZeroes f l => ON (a_num_zeroes f l x) | OFirstNZ f l => ON (a_first_nonzero f l x)
  | OLastNZ f l => ON (a_last_nonzero f l x) | OLastNZAll => ON (a_last_nonzero_all x)
  | OIter => OL (a_iter x) | OSize => ON (asize x)
  end.
Definition a_obs2 (o : obs2) (x y : arow) : oval :=
  match o with
  | OScalar f l => OZ (a_scalar_product f l x y) | OIsEqual => OB (a_is_equal x y)
  | OIsEqualRange f l => OB (a_is_equal_range f l x y) | OCompare => OZ (a_compare x y)
  end.

(* ------------------------------------------------------------------ *)
(* generic list facts                                                  *)
(* ------------------------------------------------------------------ *)
Lemma ss_ext {A} (R : A -> A -> Prop) :
  (forall a b, R a b -> R b a -> False) ->
  forall l1 l2, StronglySorted R l1 -> StronglySorted R l2 ->
  (forall x, In x l1 <-> In x l2) -> l1 = l2.
Proof.
  intros Has l1. induction l1 as [|a l1 IH]; intros l2 S1 S2 H.
  - destruct l2 as [|b l2]; [reflexivity|]. exfalso.
    exact (proj2 (H b) (or_introl eq_refl)).
  - destruct l2 as [|b l2].
    { exfalso. exact (proj1 (H a) (or_introl eq_refl)). }
    apply StronglySorted_inv in S1. destruct S1 as [S1 F1].
    apply StronglySorted_inv in S2. destruct S2 as [S2 F2].
    rewrite Forall_forall in F1, F2.
    assert (a = b).
    { destruct (proj1 (H a) (or_introl eq_refl)) as [E|E]; [symmetry; exact E|].
      destruct (proj2 (H b) (or_introl eq_refl)) as [E'|E']; [exact E'|].
      exfalso. apply (Has a b); [apply F1; exact E' | apply F2; exact E]. }
    subst b. f_equal. apply IH; try assumption.
    intro x; split; intro Hx.
    + destruct (proj1 (H x) (or_intror Hx)) as [E|E]; [|exact E].
      subst x. exfalso. apply (Has a a); apply F1; exact Hx.
    + destruct (proj2 (H x) (or_intror Hx)) as [E|E]; [|exact E].
      subst x. exfalso. apply (Has a a); apply F2; exact Hx.
Qed.

Lemma ss_seq : forall n f, StronglySorted lt (seq f n).
Proof.
  induction n; intro f; cbn [seq]; constructor.
  - apply IHn.
  - apply Forall_forall. intros x Hx. apply in_seq in Hx. lia.
Qed.

Lemma ss_filter {A} (R : A -> A -> Prop) (p : A -> bool) :
  forall l, StronglySorted R l -> StronglySorted R (filter p l).
Proof.
  induction l as [|a l IH]; intro S; cbn [filter]. { constructor. }
  apply StronglySorted_inv in S. destruct S as [S F].
  destruct (p a).
  - constructor. { apply IH; exact S. }
    rewrite Forall_forall in *. intros x Hx. apply filter_In in Hx. apply F, Hx.
  - apply IH; exact S.
Qed.

Lemma ss_map_key (g : nat -> Z) :
  forall l, StronglySorted lt l -> s_sorted (map (fun i => (i, g i)) l).
Proof.
  unfold s_sorted. induction l as [|a l IH]; intro S; cbn [map]. { constructor. }
  apply StronglySorted_inv in S. destruct S as [S F]. constructor. { apply IH, S. }
  rewrite Forall_forall in *. intros x Hx. apply in_map_iff in Hx.
  destruct Hx as [i [<- Hi]]. cbn [fst]. apply F, Hi.
Qed.

Lemma filter_all {A} (p : A -> bool) :
  forall L, (forall x, In x L -> p x = true) -> filter p L = L.
Proof.
  induction L as [|a L IH]; intro H; cbn [filter]. { reflexivity. }
  rewrite (H a (or_introl eq_refl)). f_equal. apply IH. intros x Hx. apply H. right; exact Hx.
Qed.

Lemma filter_true {A} : forall L : list A, filter (fun _ => true) L = L.
Proof. intro L. apply filter_all. reflexivity. Qed.

Lemma filter_rev' {A} (p : A -> bool) : forall L, filter p (rev L) = rev (filter p L).
Proof.
  induction L as [|a L IH]; cbn [rev filter]. { reflexivity. }
  rewrite filter_app, IH. cbn [filter]. destruct (p a); cbn [rev].
  - reflexivity.
  - rewrite app_nil_r; reflexivity.
Qed.

Lemma find_filter {A} (p q : A -> bool) :
  forall L, (forall i, In i L -> p i = true -> q i = true) -> find p (filter q L) = find p L.
Proof.
  induction L as [|a L IH]; intro H; cbn [filter find]. { reflexivity. }
  assert (IH' : find p (filter q L) = find p L).
  { apply IH. intros i Hi Hp. apply H; [right; exact Hi | exact Hp]. }
  destruct (q a) eqn:Eq.
  - cbn [find]. destruct (p a); [reflexivity | exact IH'].
  - destruct (p a) eqn:Ep.
    + rewrite H in Eq; [discriminate | left; reflexivity | exact Ep].
    + exact IH'.
Qed.

Lemma fold_left_ext' {A B} (f g : A -> B -> A) :
  (forall a b, f a b = g a b) -> forall l a, fold_left f l a = fold_left g l a.
Proof.
  intro H. induction l as [|b l IH]; intro a; cbn [fold_left]. { reflexivity. }
  rewrite H. apply IH.
Qed.
Lemma forallb_ext' {A} (f g : A -> bool) :
  (forall a, f a = g a) -> forall l, forallb f l = forallb g l.
Proof.
  intro H. induction l as [|b l IH]; cbn [forallb]. { reflexivity. }
  rewrite H, IH. reflexivity.
Qed.
Lemma find_ext' {A} (f g : A -> bool) :
  (forall a, f a = g a) -> forall l, find f l = find g l.
Proof.
  intro H. induction l as [|b l IH]; cbn [find]. { reflexivity. }
  rewrite H, IH. reflexivity.
Qed.
Lemma filter_ext' {A} (f g : A -> bool) :
  (forall a, f a = g a) -> forall l, filter f l = filter g l.
Proof.
  intro H. induction l as [|b l IH]; cbn [filter]. { reflexivity. }
  rewrite H, IH. reflexivity.
Qed.

(* ------------------------------------------------------------------ *)
(* lookup in a sorted association list                                 *)
(* ------------------------------------------------------------------ *)
Lemma lookup_notin : forall i L, (forall e, In e L -> fst e <> i) -> s_lookup i L = 0.
Proof.
  induction L as [|[k v] L IH]; intro H; cbn [s_lookup]. { reflexivity. }
  destruct (k =? i)%nat eqn:E.
  - apply Nat.eqb_eq in E. exfalso. apply (H (k, v)); [left; reflexivity | exact E].
  - apply IH. intros e He. apply H. right; exact He.
Qed.

Lemma lookup_in : forall k v L, s_sorted L -> In (k, v) L -> s_lookup k L = v.
Proof.
  induction L as [|[k' v'] L IH]; intros S H. { destruct H. }
  apply StronglySorted_inv in S. destruct S as [S F]. cbn [s_lookup].
  destruct H as [E|H].
  - inversion E; subst. rewrite Nat.eqb_refl. reflexivity.
  - destruct (k' =? k)%nat eqn:E.
    + apply Nat.eqb_eq in E. subst k'. rewrite Forall_forall in F.
      specialize (F _ H). cbn [fst] in F. lia.
    + apply IH; assumption.
Qed.

Lemma lookup_nz_in : forall k L, s_lookup k L <> 0 -> In (k, s_lookup k L) L.
Proof.
  induction L as [|[k' v'] L IH]; cbn [s_lookup]; intro H. { congruence. }
  destruct (k' =? k)%nat eqn:E.
  - apply Nat.eqb_eq in E. subst. left; reflexivity.
  - right. apply IH, H.
Qed.

(* ------------------------------------------------------------------ *)
(* well-formedness                                                     *)
(* ------------------------------------------------------------------ *)
(* ------------------------------------------------------------------ *)
(* KEY lemma: the stored entries of a range are the nonzero coefficients *)
(* ------------------------------------------------------------------ *)
Lemma stored_char : forall f l s, s_wf s -> s_nz s -> stored_in f l s = nzlist f l (abs_s s).
Proof.
  intros f l s [S F] NZ. unfold stored_in, ys_in, nzlist.
  apply (ss_ext (fun a b : sent => (fst a < fst b)%nat)).
  - intros; lia.
  - apply ss_filter; exact S.
  - apply ss_map_key. apply ss_filter. apply ss_seq.
  - intros [k v]. rewrite filter_In, in_map_iff. cbn [fst].
    unfold abs_s; cbn [acoef]. split.
    + intros [Hin Hr]. exists k.
      assert (Hv : s_lookup k (sents s) = v) by (apply lookup_in; assumption).
      split. { rewrite Hv; reflexivity. }
      apply filter_In. split.
      * apply in_seq. unfold inr in Hr. apply andb_true_iff in Hr. destruct Hr as [H1 H2].
        apply Nat.leb_le in H1. apply Nat.ltb_lt in H2. lia.
      * rewrite Hv. unfold s_nz in NZ. rewrite Forall_forall in NZ.
        specialize (NZ _ Hin). cbn [snd] in NZ.
        destruct (v =? 0) eqn:E; [apply Z.eqb_eq in E; contradiction | reflexivity].
    + intros [i [E Hi]]. inversion E; subst. clear E.
      apply filter_In in Hi. destruct Hi as [Hs Hnz]. apply in_seq in Hs. split.
      * apply lookup_nz_in. intro Z0. rewrite Z0 in Hnz. discriminate.
      * unfold inr. apply andb_true_iff. split; [apply Nat.leb_le | apply Nat.ltb_lt]; lia.
Qed.

Lemma sents_char : forall s, s_wf s -> s_nz s -> sents s = nzlist 0 (ssize s) (abs_s s).
Proof.
  intros s W NZ. rewrite <- stored_char by assumption. unfold stored_in, ys_in.
  symmetry. apply filter_all.
  intros e He. destruct W as [_ F]. rewrite Forall_forall in F. specialize (F _ He).
  unfold inr. apply andb_true_iff. split; [apply Nat.leb_le | apply Nat.ltb_lt]; lia.
Qed.

(* ------------------------------------------------------------------ *)
(* facts about the list of nonzero entries                             *)
(* ------------------------------------------------------------------ *)
Lemma nz_all_zeroes (c : nat -> Z) : forall L,
  match map (fun i => (i, c i)) (filter (fun i => negb (c i =? 0)) L) with [] => true | _ => false end
  = forallb (fun i => c i =? 0) L.
Proof.
  induction L as [|a L IH]; cbn [filter map forallb]. { reflexivity. }
  destruct (c a =? 0) eqn:E; cbn [negb andb map]; [exact IH | reflexivity].
Qed.

Lemma nz_count (c : nat -> Z) : forall L,
  (length (filter (fun i => (c i =? 0)%Z) L) + length (filter (fun i => negb (c i =? 0)%Z) L) = length L)%nat.
Proof.
  induction L as [|a L IH]; cbn [filter length]. { reflexivity. }
  destruct (c a =? 0); cbn [negb length]; lia.
Qed.

Lemma nz_first (c : nat -> Z) (d : nat) : forall L,
  match map (fun i => (i, c i)) (filter (fun i => negb (c i =? 0)) L) with e :: _ => fst e | [] => d end
  = match find (fun i => negb (c i =? 0)) L with Some i => i | None => d end.
Proof.
  induction L as [|a L IH]; cbn [filter map find]. { reflexivity. }
  destruct (negb (c a =? 0)); cbn [map fst]; [reflexivity | exact IH].
Qed.

Lemma nz_gcd (c : nat -> Z) : forall L g, 0 <= g ->
  fold_left (fun (g : Z) (e : sent) => Z.gcd g (snd e))
            (map (fun i => (i, c i)) (filter (fun i => negb (c i =? 0)) L)) g
  = fold_left (fun g i => Z.gcd g (c i)) L g.
Proof.
  induction L as [|a L IH]; intros g Hg; cbn [filter map fold_left]. { reflexivity. }
  destruct (c a =? 0) eqn:E; cbn [negb map fold_left snd].
  - apply Z.eqb_eq in E. rewrite E, Z.gcd_0_r, Z.abs_eq by exact Hg. apply IH, Hg.
  - apply IH. apply Z.gcd_nonneg.
Qed.

(* ------------------------------------------------------------------ *)
(* the sparse observers                                                *)
(* ------------------------------------------------------------------ *)
Lemma s_get_abs : forall i s, s_get i s = a_get i (abs_s s).
Proof. reflexivity. Qed.

Lemma s_gcd_abs : forall f l s, s_wf s -> s_nz s -> s_gcd f l s = a_gcd f l (abs_s s).
Proof.
  intros f l s W NZ. unfold s_gcd, a_gcd. rewrite stored_char by assumption. unfold nzlist.
  apply (nz_gcd (acoef (abs_s s))). lia.
Qed.

Lemma s_all_zeroes_abs : forall f l s, s_wf s -> s_nz s -> s_all_zeroes f l s = a_all_zeroes f l (abs_s s).
Proof.
  intros f l s W NZ. unfold s_all_zeroes, a_all_zeroes. rewrite stored_char by assumption.
  unfold nzlist. apply (nz_all_zeroes (acoef (abs_s s))).
Qed.

Lemma s_num_zeroes_abs : forall f l s, s_wf s -> s_nz s -> s_num_zeroes f l s = a_num_zeroes f l (abs_s s).
Proof.
  intros f l s W NZ. unfold s_num_zeroes, a_num_zeroes. rewrite stored_char by assumption.
  unfold nzlist. rewrite map_length.
  pose proof (nz_count (acoef (abs_s s)) (seq f (l - f))) as H. rewrite seq_length in H. lia.
Qed.

Lemma s_first_nonzero_abs : forall f l s, s_wf s -> s_nz s -> s_first_nonzero f l s = a_first_nonzero f l (abs_s s).
Proof.
  intros f l s W NZ. unfold s_first_nonzero, a_first_nonzero. rewrite stored_char by assumption.
  unfold nzlist. apply (nz_first (acoef (abs_s s)) l).
Qed.

Lemma s_last_nonzero_abs : forall f l s, s_wf s -> s_nz s -> s_last_nonzero f l s = a_last_nonzero f l (abs_s s).
Proof.
  intros f l s W NZ. unfold s_last_nonzero, a_last_nonzero. rewrite stored_char by assumption.
  unfold nzlist. rewrite <- map_rev, <- filter_rev'. apply (nz_first (acoef (abs_s s)) l).
Qed.

Lemma s_last_nonzero_all_abs : forall s, s_wf s -> s_nz s -> s_last_nonzero_all s = a_last_nonzero_all (abs_s s).
Proof.
  intros s W NZ. unfold s_last_nonzero_all, a_last_nonzero_all.
  rewrite (sents_char s) by assumption.
  unfold nzlist. rewrite Nat.sub_0_r, <- map_rev, <- filter_rev'.
  apply (nz_first (acoef (abs_s s)) 0%nat).
Qed.

Lemma s_iter_abs : forall s, s_wf s -> s_nz s -> s_iter s = a_iter (abs_s s).
Proof.
  intros s W NZ. transitivity (stored_in 1 (ssize s) s). { reflexivity. }
  rewrite stored_char by assumption. reflexivity.
Qed.

Theorem obs1_refines : forall o e, good e -> apply_obs1 o e = a_obs1 o (abs_e e).
Proof.
  intros o [d|s] G.
  - destruct o; reflexivity.
  - destruct G as [W NZ]. destruct o; cbn [apply_obs1 a_obs1 abs_e]; f_equal.
    + apply s_gcd_abs; assumption.
    + apply s_all_zeroes_abs; assumption.
    + apply s_num_zeroes_abs; assumption.
    + apply s_first_nonzero_abs; assumption.
    + apply s_last_nonzero_abs; assumption.
    + apply s_last_nonzero_all_abs; assumption.
    + apply s_iter_abs; assumption.
Qed.

(* ------------------------------------------------------------------ *)
(* congruence of the abstract observers under aeq                      *)
(* ------------------------------------------------------------------ *)
Lemma a_obs1_aeq : forall o x x', aeq x x' -> a_obs1 o x = a_obs1 o x'.
Proof.
  intros o x x' [Hs Hc].
  assert (Hnz : forall i, negb (acoef x i =? 0) = negb (acoef x' i =? 0))
    by (intro i; rewrite Hc; reflexivity).
  assert (Hz : forall i, (acoef x i =? 0) = (acoef x' i =? 0))
    by (intro i; rewrite Hc; reflexivity).
  destruct o; cbn [a_obs1]; f_equal.
  - unfold a_get. apply Hc.
  - unfold a_gcd. apply fold_left_ext'. intros a b. rewrite Hc. reflexivity.
  - unfold a_all_zeroes. apply forallb_ext'. exact Hz.
  - unfold a_num_zeroes. f_equal. apply filter_ext'. exact Hz.
  - unfold a_first_nonzero. rewrite (find_ext' _ _ Hnz). reflexivity.
  - unfold a_last_nonzero. rewrite (find_ext' _ _ Hnz). reflexivity.
  - unfold a_last_nonzero_all. rewrite Hs, (find_ext' _ _ Hnz). reflexivity.
  - unfold a_iter. rewrite Hs, (filter_ext' _ _ Hnz). apply map_ext. intro i. rewrite Hc. reflexivity.
  - exact Hs.
Qed.

Lemma a_obs2_aeq : forall o x x' y y', aeq x x' -> aeq y y' -> a_obs2 o x y = a_obs2 o x' y'.
Proof.
  intros o x x' y y' [Hsx Hcx] [Hsy Hcy].
  assert (He : forall i, (acoef x i =? acoef y i) = (acoef x' i =? acoef y' i))
    by (intro i; rewrite Hcx, Hcy; reflexivity).
  assert (Hne : forall i, negb (acoef x i =? acoef y i) = negb (acoef x' i =? acoef y' i))
    by (intro i; rewrite He; reflexivity).
  destruct o; cbn [a_obs2]; f_equal.
  - unfold a_scalar_product. apply fold_left_ext'. intros a b. rewrite Hcx, Hcy. reflexivity.
  - unfold a_is_equal. rewrite Hsx, Hsy. f_equal. apply forallb_ext'. exact He.
  - unfold a_is_equal_range. apply forallb_ext'. exact He.
  - unfold a_compare. cbv zeta. rewrite Hsx, Hsy, (find_ext' _ _ Hne).
    destruct (find _ _) as [i|].
    + rewrite (Hcx i), (Hcy i). reflexivity.
    + rewrite (Hcx 0%nat), (Hcy 0%nat). reflexivity.
Qed.

(* ------------------------------------------------------------------ *)
(* binary observers: the entries an iterator visits                    *)
(* ------------------------------------------------------------------ *)
Definition vq (e : expr) : nat -> bool :=
  match e with ED _ => fun _ => true | ES s => fun i => negb (acoef (abs_s s) i =? 0) end.

Lemma vq_false : forall e i, vq e i = false -> ecoef e i = 0.
Proof.
  intros [d|s] i H; cbn [vq] in H. { discriminate. }
  unfold ecoef; cbn [abs_e].
  destruct (acoef (abs_s s) i =? 0) eqn:E; [apply Z.eqb_eq, E | discriminate].
Qed.

Lemma visited_shape : forall f l e, good e ->
  visited f l e = map (fun i => (i, ecoef e i)) (filter (vq e) (seq f (l - f))).
Proof.
  intros f l [d|s] G; cbn [visited vq].
  - rewrite filter_true. reflexivity.
  - destruct G as [W NZ]. rewrite stored_char by assumption. reflexivity.
Qed.

Lemma gen_scalar (cx cy : nat -> Z) (q : nat -> bool) :
  (forall i, q i = false -> cx i = 0) ->
  forall L a,
  fold_left (fun (acc : Z) (e : sent) => acc + snd e * cy (fst e)) (map (fun i => (i, cx i)) (filter q L)) a
  = fold_left (fun s i => s + cx i * cy i) L a.
Proof.
  intros Hq. induction L as [|k L IH]; intro a; cbn [filter map fold_left]. { reflexivity. }
  destruct (q k) eqn:E; cbn [map fold_left fst snd].
  - apply IH.
  - rewrite (Hq _ E), Z.mul_0_l, Z.add_0_r. apply IH.
Qed.

Lemma gen_eq_range (cx cy : nat -> Z) (qx qy : nat -> bool) :
  (forall i, qx i = false -> cx i = 0) -> (forall i, qy i = false -> cy i = 0) ->
  forall L,
  forallb (fun e : sent => snd e =? cy (fst e)) (map (fun i => (i, cx i)) (filter qx L))
  && forallb (fun e : sent => snd e =? cx (fst e)) (map (fun i => (i, cy i)) (filter qy L))
  = forallb (fun i => cx i =? cy i) L.
Proof.
  intros Hx Hy. induction L as [|k L IH]; cbn [filter map forallb]. { reflexivity. }
  rewrite <- IH.
  destruct (qx k) eqn:Ex, (qy k) eqn:Ey; cbn [map forallb fst snd];
    set (A := forallb _ (map _ (filter qx L))); set (B := forallb _ (map _ (filter qy L)));
    clearbody A B.
  - rewrite (Z.eqb_sym (cy k)). destruct (cx k =? cy k), A, B; reflexivity.
  - destruct (cx k =? cy k), A, B; reflexivity.
  - rewrite (Z.eqb_sym (cy k)). destruct (cx k =? cy k), A, B; reflexivity.
  - rewrite (Hx _ Ex), (Hy _ Ey). reflexivity.
Qed.

Lemma vis_in : forall e i, good e -> (1 <= i)%nat -> ecoef e i <> 0 ->
  In (i, ecoef e i) (visited 1 (esize e) e).
Proof.
  intros e i G Hi Hnz. rewrite visited_shape by assumption.
  apply in_map_iff. exists i. split; [reflexivity|]. apply filter_In. split.
  - apply in_seq. destruct (le_lt_dec (esize e) i) as [Hle|Hlt]; [|lia].
    exfalso. apply Hnz. apply (good_awf e G). exact Hle.
  - destruct (vq e i) eqn:E; [reflexivity | apply vq_false in E; contradiction].
Qed.

Theorem obs2_refines : forall o x y, good x -> good y -> apply_obs2 o x y = a_obs2 o (abs_e x) (abs_e y).
Proof.
  intros o x y Gx Gy. destruct o; cbn [apply_obs2 a_obs2]; f_equal.
  - (* OScalar *)
    rewrite visited_shape by assumption. unfold a_scalar_product.
    apply (gen_scalar (ecoef x) (ecoef y) (vq x)). apply vq_false.
  - (* OIsEqual *)
    unfold a_is_equal.
    change (asize (abs_e x)) with (esize x). change (asize (abs_e y)) with (esize y).
    destruct (esize x =? esize y)%nat eqn:E.
    + apply Nat.eqb_eq in E. rewrite <- E. rewrite !visited_shape by assumption.
      cbn [andb]. rewrite Nat.sub_0_r.
      apply (gen_eq_range (ecoef x) (ecoef y) (vq x) (vq y)); apply vq_false.
    + reflexivity.
  - (* OIsEqualRange *)
    rewrite !visited_shape by assumption. unfold a_is_equal_range.
    apply (gen_eq_range (ecoef x) (ecoef y) (vq x) (vq y)); apply vq_false.
  - (* OCompare *)
    unfold a_compare. cbv zeta.
    rewrite find_filter. { reflexivity. }
    intros i Hi Hp. apply in_seq in Hi. apply existsb_exists.
    assert (Hne : ecoef x i <> ecoef y i).
    { intro E. rewrite E, Z.eqb_refl in Hp. discriminate. }
    destruct (Z.eq_dec (ecoef x i) 0) as [Zx|Nx].
    + assert (Ny : ecoef y i <> 0) by congruence.
      exists (i, ecoef y i). split; [|cbn [fst]; apply Nat.eqb_refl].
      apply in_or_app. right. apply vis_in; [assumption | lia | assumption].
    + exists (i, ecoef x i). split; [|cbn [fst]; apply Nat.eqb_refl].
      apply in_or_app. left. apply vis_in; [assumption | lia | assumption].
Qed.

(* ================================================================== *)
(* normalize / sign_normalize                                          *)
(* ================================================================== *)
Lemma stored_all : forall s, s_wf s -> stored_in 0 (ssize s) s = sents s.
Proof.
  intros s [_ Hb]. unfold stored_in, ys_in. apply filter_all. rewrite Forall_forall in Hb.
  intros e He. specialize (Hb _ He). unfold inr. cbn [Nat.leb andb]. apply Nat.ltb_lt. exact Hb.
Qed.

Lemma lookup_map_all : forall (h : Z -> Z) l j, h 0 = 0 ->
  s_lookup j (map (fun e => (fst e, h (snd e))) l) = h (s_lookup j l).
Proof.
  intros h l j Hh. induction l as [|[k v] r IH]; cbn [map s_lookup fst snd]; [symmetry; exact Hh|].
  destruct (k =? j)%nat; [reflexivity|exact IH].
Qed.

Lemma map_val_wf : forall (h : Z -> Z) s, s_wf s -> s_wf (mkSR (ssize s) (map (fun e => (fst e, h (snd e))) (sents s))).
Proof.
  intros h s [Hs Hb]. split; cbn [sents ssize].
  - apply sorted_map_mono; [|exact Hs]. intros a b Hab. cbn [fst]. exact Hab.
  - apply Forall_map'. rewrite Forall_forall in Hb. intros e He. cbn [fst]. apply Hb, He.
Qed.

Lemma fold_gcd_divides : forall (l : list sent) a,
  (fold_left (fun g e => Z.gcd g (snd e)) l a | a) /\
  forall e, In e l -> (fold_left (fun g e => Z.gcd g (snd e)) l a | snd e).
Proof.
  induction l as [|e l IH]; intros a; cbn [fold_left].
  - split; [apply Z.divide_refl|intros e []].
  - destruct (IH (Z.gcd a (snd e))) as [H1 H2]. split.
    + eapply Z.divide_trans; [exact H1|apply Z.gcd_divide_l].
    + intros e' [<-|He']; [|apply H2, He']. eapply Z.divide_trans; [exact H1|apply Z.gcd_divide_r].
Qed.

Lemma s_normalize_abs : forall s, s_wf s -> s_nz s -> aeq (abs_s (s_normalize s)) (a_normalize (abs_s s)).
Proof.
  intros s Hwf Hnz. unfold s_normalize, a_normalize. cbn [abs_s asize].
  change (mkA (ssize s) (fun i => s_lookup i (sents s))) with (abs_s s).
  rewrite <- (s_gcd_abs 0 (ssize s) s Hwf Hnz). unfold s_gcd. rewrite (stored_all s Hwf).
  set (g := fold_left (fun g e => Z.gcd g (snd e)) (sents s) 0).
  destruct ((g =? 0) || (g =? 1)); [apply aeq_refl|].
  split; [reflexivity|]. intro j. cbn [abs_s acoef sents].
  apply (lookup_map_all (fun v => v / g)). apply Zdiv_0_l.
Qed.

Lemma s_normalize_good : forall s, s_wf s -> s_nz s -> s_wf (s_normalize s) /\ s_nz (s_normalize s).
Proof.
  intros s Hwf Hnz. unfold s_normalize.
  set (g := fold_left (fun g e => Z.gcd g (snd e)) (sents s) 0).
  destruct ((g =? 0) || (g =? 1)) eqn:E; [split; assumption|].
  apply orb_false_iff in E. destruct E as [E0 _]. apply Z.eqb_neq in E0.
  split; [apply (map_val_wf (fun v => v / g)), Hwf|].
  unfold s_nz in *. cbn [sents]. apply Forall_map'. rewrite Forall_forall in Hnz. intros e He. cbn [snd].
  pose proof (Hnz _ He) as Hv. destruct (fold_gcd_divides (sents s) 0) as [_ Hd]. specialize (Hd _ He).
  fold g in Hd. destruct Hd as [q Hq]. rewrite Hq. rewrite Z.div_mul by exact E0. intro Hq0. subst q. lia.
Qed.

Lemma find_hd : forall (A : Type) (p : A -> bool) l,
  find p l = match filter p l with e :: _ => Some e | [] => None end.
Proof. intros A p l. induction l as [|a l IH]; cbn [find filter]; [reflexivity|]. destruct (p a); [reflexivity|exact IH]. Qed.

Lemma sign_filter : forall s, s_wf s -> s_nz s ->
  filter (fun e : nat * Z => (1 <=? fst e)%nat && negb (snd e =? 0)) (sents s) = stored_in 1 (ssize s) s.
Proof.
  intros s [_ Hb] Hnz. unfold stored_in, ys_in. apply filter_ext_in. intros e He.
  unfold s_nz in Hnz. rewrite Forall_forall in Hb, Hnz. specialize (Hb _ He). specialize (Hnz _ He).
  unfold inr. apply Nat.ltb_lt in Hb. rewrite Hb. apply Z.eqb_neq in Hnz. rewrite Hnz. reflexivity.
Qed.

Lemma s_sign_normalize_abs : forall s, s_wf s -> s_nz s -> aeq (abs_s (s_sign_normalize s)) (a_sign_normalize (abs_s s)).
Proof.
  intros s Hwf Hnz. unfold s_sign_normalize, a_sign_normalize. cbn [abs_s asize].
  change (mkA (ssize s) (fun i => s_lookup i (sents s))) with (abs_s s).
  rewrite <- (s_first_nonzero_abs 1 (ssize s) s Hwf Hnz). unfold s_first_nonzero.
  rewrite find_hd, (sign_filter s Hwf Hnz).
  destruct (stored_in 1 (ssize s) s) as [|e r] eqn:E.
  - rewrite Nat.ltb_irrefl. cbn [andb]. apply aeq_refl.
  - assert (He : In e (stored_in 1 (ssize s) s)) by (rewrite E; left; reflexivity).
    unfold stored_in, ys_in in He. apply filter_In in He. destruct He as [He Hr].
    unfold inr in Hr. apply andb_true_iff in Hr. destruct Hr as [_ Hr]. rewrite Hr. cbn [andb].
    destruct e as [k v]. cbn [fst snd] in *. cbn [abs_s acoef].
    destruct Hwf as [Hs Hb]. rewrite (in_lookup _ _ _ Hs He).
    destruct (v <? 0); [|apply aeq_refl]. split; [reflexivity|]. intro j. cbn [abs_s acoef sents].
    apply (lookup_map_all Z.opp). reflexivity.
Qed.

Lemma s_sign_normalize_good : forall s, s_wf s -> s_nz s -> s_wf (s_sign_normalize s) /\ s_nz (s_sign_normalize s).
Proof.
  intros s Hwf Hnz. unfold s_sign_normalize.
  match goal with |- context [find ?p ?l] => destruct (find p l) as [e|] end; [|split; assumption].
  destruct (snd e <? 0); [|split; assumption]. split; [apply (map_val_wf Z.opp), Hwf|].
  unfold s_nz in *. cbn [sents]. apply Forall_map'. rewrite Forall_forall in Hnz. intros e' He'. cbn [snd].
  specialize (Hnz _ He'). lia.
Qed.

(* ================================================================== *)
(* remove_space_dimensions (dense and sparse)                          *)
(* ================================================================== *)
Definition vars_ok (vars : list nat) (n : nat) : Prop :=
  sorted_nodup vars = true /\ forallb (fun v => (1 <=? v)%nat && (v <? n)%nat) vars = true.

Local Open Scope nat_scope.

(* ---------- strictly increasing lists ---------- *)
Definition inc (l : list nat) : Prop := StronglySorted lt l.

Fixpoint sn (l : list nat) : bool :=
  match l with a :: ((b :: _) as r) => (a <? b) && sn r | _ => true end.

Lemma sorted_nodup_sn : forall l, sorted_nodup l = sn l.
Proof. reflexivity. Qed.

Lemma sn_inc : forall l, sn l = true -> inc l.
Proof.
  induction l as [|a l IH]; intros H.
  - constructor.
  - destruct l as [|b r].
    + constructor; constructor.
    + cbn [sn] in H. apply andb_true_iff in H. destruct H as [Hab Hr].
      apply Nat.ltb_lt in Hab. specialize (IH Hr).
      constructor; [exact IH|].
      apply StronglySorted_inv in IH. destruct IH as [_ Hb].
      constructor; [exact Hab|].
      eapply Forall_impl; [|exact Hb]. cbn. intros; lia.
Qed.

Lemma vars_ok_inv : forall vars n, vars_ok vars n -> inc vars /\ Forall (fun v => v < n) vars.
Proof.
  intros vars n [H1 H2]. split.
  - apply sn_inc. rewrite <- sorted_nodup_sn. exact H1.
  - apply Forall_forall. intros v Hv.
    rewrite forallb_forall in H2. specialize (H2 v Hv).
    apply andb_true_iff in H2. destruct H2 as [_ H2]. apply Nat.ltb_lt in H2. exact H2.
Qed.

Lemma inc_inv : forall v vs, inc (v :: vs) -> inc vs /\ Forall (lt v) vs.
Proof. intros v vs H. apply StronglySorted_inv in H. exact H. Qed.

Lemma mem_false_above : forall k vs, Forall (lt k) vs -> existsb (Nat.eqb k) vs = false.
Proof.
  induction vs as [|a vs IH]; intros H.
  - reflexivity.
  - inversion H; subst. cbn [existsb]. rewrite IH by assumption.
    destruct (Nat.eqb_spec k a); [lia|reflexivity].
Qed.

(* ---------- cnt / psi ---------- *)
Definition cnt (vars : list nat) (k : nat) : nat := length (filter (fun v => v <? k) vars).
Definition psi (vars : list nat) (k : nat) : nat := k - cnt vars k.

Lemma cnt_cons : forall v vs k, cnt (v :: vs) k = (if v <? k then 1 else 0) + cnt vs k.
Proof. intros. unfold cnt. cbn [filter]. destruct (v <? k); reflexivity. Qed.

Lemma cnt_nil : forall k, cnt [] k = 0.
Proof. reflexivity. Qed.

Lemma cnt_0 : forall vars, cnt vars 0 = 0.
Proof.
  induction vars as [|v vs IH]; [reflexivity|].
  rewrite cnt_cons, IH. destruct (Nat.ltb_spec v 0); lia.
Qed.

Lemma cnt_le_len : forall vars k, cnt vars k <= length vars.
Proof.
  induction vars as [|v vs IH]; intros k; [cbn; lia|].
  rewrite cnt_cons. cbn [length]. specialize (IH k). destruct (v <? k); lia.
Qed.

Lemma cnt_all : forall vars n, Forall (fun v => v < n) vars -> cnt vars n = length vars.
Proof.
  induction vars as [|v vs IH]; intros n H; [reflexivity|].
  inversion H; subst. rewrite cnt_cons, IH by assumption. cbn [length].
  destruct (Nat.ltb_spec v n); lia.
Qed.

Lemma cnt_step : forall vars k, inc vars ->
  cnt vars (S k) = cnt vars k + (if existsb (Nat.eqb k) vars then 1 else 0).
Proof.
  induction vars as [|v vs IH]; intros k H.
  - reflexivity.
  - apply inc_inv in H. destruct H as [Hi Hf].
    rewrite !cnt_cons, IH by assumption. cbn [existsb].
    destruct (Nat.eqb_spec k v) as [->|Hne].
    + rewrite mem_false_above by assumption. cbn [orb].
      destruct (Nat.ltb_spec v (S v)), (Nat.ltb_spec v v); lia.
    + cbn [orb].
      destruct (Nat.ltb_spec v (S k)), (Nat.ltb_spec v k); try lia;
        destruct (existsb (Nat.eqb k) vs); lia.
Qed.

Lemma cnt_le_self : forall vars k, inc vars -> cnt vars k <= k.
Proof.
  intros vars k H. induction k as [|k IH].
  - rewrite cnt_0. lia.
  - rewrite cnt_step by assumption. destruct (existsb (Nat.eqb k) vars); lia.
Qed.

Lemma psi_0 : forall vars, psi vars 0 = 0.
Proof. intros. unfold psi. lia. Qed.

Lemma psi_step : forall vars k, inc vars ->
  psi vars (S k) = psi vars k + (if existsb (Nat.eqb k) vars then 0 else 1).
Proof.
  intros vars k H. unfold psi. rewrite cnt_step by assumption.
  pose proof (cnt_le_self vars k H).
  destruct (existsb (Nat.eqb k) vars); lia.
Qed.

Lemma psi_mono : forall vars k1 k2, inc vars -> k1 <= k2 -> psi vars k1 <= psi vars k2.
Proof.
  intros vars k1 k2 H Hle. induction Hle as [|m Hle IH].
  - lia.
  - rewrite psi_step by assumption. lia.
Qed.

Lemma psi_strict : forall vars k1 k2, inc vars -> existsb (Nat.eqb k1) vars = false ->
  k1 < k2 -> psi vars k1 < psi vars k2.
Proof.
  intros vars k1 k2 H Hn Hlt.
  pose proof (psi_step vars k1 H) as Hs. rewrite Hn in Hs.
  pose proof (psi_mono vars (S k1) k2 H Hlt). lia.
Qed.

Lemma psi_inj : forall vars k1 k2, inc vars ->
  existsb (Nat.eqb k1) vars = false -> existsb (Nat.eqb k2) vars = false ->
  psi vars k1 = psi vars k2 -> k1 = k2.
Proof.
  intros vars k1 k2 H H1 H2 He.
  destruct (Nat.lt_trichotomy k1 k2) as [Hlt|[Heq|Hgt]]; [|exact Heq|].
  - pose proof (psi_strict vars k1 k2 H H1 Hlt). lia.
  - pose proof (psi_strict vars k2 k1 H H2 Hgt). lia.
Qed.

(* ---------- phi ---------- *)
Fixpoint phi (vars : list nat) (j : nat) : nat :=
  match vars with [] => j | v :: vs => phi vs (if j <? v then j else S j) end.

Lemma phi_ge : forall vars j, j <= phi vars j.
Proof.
  induction vars as [|v vs IH]; intros j; cbn [phi]; [lia|].
  destruct (j <? v).
  - apply IH.
  - specialize (IH (S j)). lia.
Qed.

Lemma phi_below : forall vs j, Forall (lt j) vs -> phi vs j = j.
Proof.
  induction vs as [|a vs IH]; intros j H; [reflexivity|].
  inversion H; subst. cbn [phi].
  destruct (Nat.ltb_spec j a); [|lia]. apply IH; assumption.
Qed.

Lemma Forall_lt_trans : forall j v vs, j < v -> Forall (lt v) vs -> Forall (lt j) vs.
Proof. intros j v vs Hjv H. eapply Forall_impl; [|exact H]. cbn. intros; lia. Qed.

Lemma phi_notin : forall vars j, inc vars -> existsb (Nat.eqb (phi vars j)) vars = false.
Proof.
  induction vars as [|v vs IH]; intros j H; [reflexivity|].
  apply inc_inv in H. destruct H as [Hi Hf].
  cbn [phi existsb]. rewrite IH by assumption. rewrite orb_false_r.
  apply Nat.eqb_neq.
  destruct (Nat.ltb_spec j v).
  - rewrite phi_below; [lia|]. eapply Forall_lt_trans; eassumption.
  - pose proof (phi_ge vs (S j)). lia.
Qed.

Lemma phi_psi : forall vars j, inc vars -> psi vars (phi vars j) = j.
Proof.
  induction vars as [|v vs IH]; intros j H.
  - cbn [phi]. unfold psi. rewrite cnt_nil. lia.
  - apply inc_inv in H. destruct H as [Hi Hf].
    cbn [phi]. unfold psi. rewrite cnt_cons.
    destruct (Nat.ltb_spec j v) as [Hlt|Hge].
    + assert (Hp : phi vs j = j) by (apply phi_below; eapply Forall_lt_trans; eassumption).
      specialize (IH j Hi). unfold psi in IH. rewrite Hp in *.
      destruct (Nat.ltb_spec v j); lia.
    + pose proof (phi_ge vs (S j)) as Hg.
      specialize (IH (S j) Hi). unfold psi in IH.
      destruct (Nat.ltb_spec v (phi vs (S j))); lia.
Qed.

(* ---------- abstract remove ---------- *)
Lemma a_remove_cons : forall v vs x, a_remove (v :: vs) x = a_delete v (a_remove vs x).
Proof. intros. unfold a_remove. cbn [rev]. rewrite fold_left_app. reflexivity. Qed.

Lemma a_remove_size : forall vars x, asize (a_remove vars x) = asize x - length vars.
Proof.
  induction vars as [|v vs IH]; intros x.
  - cbn. lia.
  - rewrite a_remove_cons. cbn [a_delete asize length]. rewrite IH. lia.
Qed.

Lemma a_remove_coef : forall vars x j, acoef (a_remove vars x) j = acoef x (phi vars j).
Proof.
  induction vars as [|v vs IH]; intros x j.
  - reflexivity.
  - rewrite a_remove_cons. cbn [a_delete acoef phi].
    destruct (j <? v); apply IH.
Qed.

(* ---------- sparse ---------- *)
Definition skey (vars : list nat) (e : sent) : sent :=
  (fst e - length (filter (fun v => v <? fst e) vars), snd e).
Definition skeep (vars : list nat) (e : sent) : bool :=
  negb (existsb (Nat.eqb (fst e)) vars).

Lemma s_remove0_eq : forall vars s,
  s_remove0 vars s = mkSR (ssize s - length vars) (map (skey vars) (filter (skeep vars) (sents s))).
Proof. reflexivity. Qed.

Lemma skey_psi : forall vars k v, skey vars (k, v) = (psi vars k, v).
Proof. reflexivity. Qed.

Lemma lookup_remove : forall vars l j, inc vars ->
  s_lookup j (map (skey vars) (filter (skeep vars) l)) = s_lookup (phi vars j) l.
Proof.
  intros vars l j H. induction l as [|[k v] r IH]; [reflexivity|].
  cbn [filter]. unfold skeep at 1. cbn [fst].
  destruct (existsb (Nat.eqb k) vars) eqn:E; cbn [negb map s_lookup].
  - rewrite IH. destruct (Nat.eqb_spec k (phi vars j)) as [->|_]; [|reflexivity].
    rewrite phi_notin in E by assumption. discriminate.
  - rewrite skey_psi. cbn [s_lookup].
    destruct (Nat.eqb_spec (psi vars k) j) as [Hp|Hp], (Nat.eqb_spec k (phi vars j)) as [Hk|Hk].
    + reflexivity.
    + exfalso. apply Hk. apply (psi_inj vars); auto.
      * apply phi_notin; assumption.
      * rewrite phi_psi by assumption. exact Hp.
    + exfalso. apply Hp. subst k. apply phi_psi; assumption.
    + exact IH.
Qed.

Lemma s_remove0_abs : forall vars s, s_wf s -> vars_ok vars (ssize s) ->
  aeq (abs_s (s_remove0 vars s)) (a_remove vars (abs_s s)).
Proof.
  intros vars s _ Hok. apply vars_ok_inv in Hok. destruct Hok as [Hi _].
  rewrite s_remove0_eq. unfold aeq, abs_s. cbn [asize acoef ssize sents]. split.
  - rewrite a_remove_size. reflexivity.
  - intros j. rewrite a_remove_coef. cbn [acoef]. apply lookup_remove. exact Hi.
Qed.

Lemma s_remove0_wf : forall vars s, s_wf s -> vars_ok vars (ssize s) -> s_wf (s_remove0 vars s).
Proof.
  intros vars s [Hs Hb] Hok. apply vars_ok_inv in Hok. destruct Hok as [Hi Hv].
  rewrite s_remove0_eq. unfold s_wf. cbn [ssize sents]. split.
  - clear Hb. unfold s_sorted in *. induction Hs as [|[k v] r Hr IH Hf].
    + constructor.
    + cbn [filter]. unfold skeep at 1. cbn [fst].
      destruct (existsb (Nat.eqb k) vars) eqn:E; cbn [negb map]; [exact IH|].
      constructor; [exact IH|].
      apply Forall_forall. intros b Hin.
      apply in_map_iff in Hin. destruct Hin as [[k' v'] [<- Hin]].
      apply filter_In in Hin. destruct Hin as [Hin _].
      rewrite Forall_forall in Hf. specialize (Hf _ Hin). cbn [fst] in Hf.
      rewrite !skey_psi. cbn [fst]. apply psi_strict; assumption.
  - apply Forall_forall. intros b Hin.
    apply in_map_iff in Hin. destruct Hin as [[k v] [<- Hin]].
    apply filter_In in Hin. destruct Hin as [Hin Hk].
    rewrite Forall_forall in Hb. specialize (Hb _ Hin). cbn [fst] in Hb.
    unfold skeep in Hk. cbn [fst] in Hk. apply negb_true_iff in Hk.
    rewrite skey_psi. cbn [fst].
    pose proof (psi_strict vars k (ssize s) Hi Hk Hb) as Hlt.
    unfold psi at 2 in Hlt. rewrite (cnt_all vars (ssize s) Hv) in Hlt. exact Hlt.
Qed.

Lemma s_remove0_nz : forall vars s, s_nz s -> s_nz (s_remove0 vars s).
Proof.
  intros vars s H. rewrite s_remove0_eq. unfold s_nz in *. cbn [sents].
  apply Forall_forall. intros b Hin.
  apply in_map_iff in Hin. destruct Hin as [e [<- Hin]].
  apply filter_In in Hin. destruct Hin as [Hin _].
  rewrite Forall_forall in H. unfold skey. cbn [snd]. apply H. exact Hin.
Qed.

Lemma filter_forall_id : forall (A : Type) (f : A -> bool) (l : list A),
  Forall (fun x => f x = true) l -> filter f l = l.
Proof.
  intros A f l H. induction H as [|x l Hx _ IH]; cbn [filter]; [reflexivity|]. rewrite Hx, IH. reflexivity.
Qed.
Lemma forall_filter : forall (A : Type) (P : A -> Prop) (f : A -> bool) (l : list A),
  Forall P l -> Forall P (filter f l).
Proof.
  intros A P f l H. induction H as [|x l Hx _ IH]; cbn [filter]; [constructor|].
  destruct (f x); [constructor; assumption|assumption].
Qed.
Lemma s_remove_s_remove0 : forall vars s, s_wf s -> vars_ok vars (ssize s) ->
  s_remove vars s = s_remove0 vars s.
Proof.
  intros vars s Hwf Hok. unfold s_remove. cbv zeta.
  destruct (s_remove0_wf vars s Hwf Hok) as [_ Hb].
  rewrite filter_forall_id.
  - destruct (s_remove0 vars s); reflexivity.
  - eapply Forall_impl; [|exact Hb]. intros a Ha. apply Nat.ltb_lt. exact Ha.
Qed.
Lemma s_remove_abs : forall vars s, s_wf s -> vars_ok vars (ssize s) ->
  aeq (abs_s (s_remove vars s)) (a_remove vars (abs_s s)).
Proof. intros vars s Hwf Hok. rewrite s_remove_s_remove0 by assumption. apply s_remove0_abs; assumption. Qed.
Lemma s_remove_wf : forall vars s, s_wf s -> vars_ok vars (ssize s) -> s_wf (s_remove vars s).
Proof. intros vars s Hwf Hok. rewrite s_remove_s_remove0 by assumption. apply s_remove0_wf; assumption. Qed.
Lemma s_remove_nz : forall vars s, s_nz s -> s_nz (s_remove vars s).
Proof.
  intros vars s H. unfold s_remove, s_nz. cbv zeta. cbn [sents]. apply forall_filter. apply s_remove0_nz. exact H.
Qed.

(* ---------- dense ---------- *)
Definition drm (k : nat) (vars : list nat) (d : drow) : drow :=
  map snd (filter (fun p : nat * Z => negb (existsb (Nat.eqb (fst p)) vars)) (combine (seq k (length d)) d)).

Lemma d_remove_drm : forall vars d, d_remove vars d = drm 0 vars d.
Proof. reflexivity. Qed.

Lemma drm_cons : forall k vars x d,
  drm k vars (x :: d) = if existsb (Nat.eqb k) vars then drm (S k) vars d else x :: drm (S k) vars d.
Proof.
  intros. unfold drm. cbn [length seq combine filter fst].
  destruct (existsb (Nat.eqb k) vars); reflexivity.
Qed.

Lemma drm_len : forall vars d k, inc vars ->
  length (drm k vars d) + cnt vars (k + length d) = length d + cnt vars k.
Proof.
  intros vars d k H. revert k. induction d as [|x d IH]; intros k.
  - cbn [length drm]. unfold drm. cbn. rewrite Nat.add_0_r. reflexivity.
  - rewrite drm_cons. cbn [length].
    replace (k + S (length d)) with (S k + length d) by lia.
    specialize (IH (S k)). rewrite (cnt_step vars k H) in IH.
    destruct (existsb (Nat.eqb k) vars); cbn [length]; lia.
Qed.

Lemma drm_nth : forall vars d k i, inc vars -> i < length d ->
  existsb (Nat.eqb (k + i)) vars = false ->
  nth (psi vars (k + i) - psi vars k) (drm k vars d) 0%Z = nth i d 0%Z.
Proof.
  intros vars d k i H. revert k i. induction d as [|x d IH]; intros k i Hi Hn.
  - cbn [length] in Hi. lia.
  - rewrite drm_cons. destruct i as [|i].
    + rewrite Nat.add_0_r in *. rewrite Hn, Nat.sub_diag. reflexivity.
    + cbn [length] in Hi.
      replace (k + S i) with (S k + i) in * by lia.
      assert (Hi' : i < length d) by lia.
      specialize (IH (S k) i Hi' Hn).
      pose proof (psi_step vars k H) as Hs.
      pose proof (psi_mono vars (S k) (S k + i) H ltac:(lia)) as Hm.
      destruct (existsb (Nat.eqb k) vars).
      * replace (psi vars (S k + i) - psi vars k) with (psi vars (S k + i) - psi vars (S k)) by lia.
        exact IH.
      * replace (psi vars (S k + i) - psi vars k) with (S (psi vars (S k + i) - psi vars (S k))) by lia.
        cbn [nth]. exact IH.
Qed.

Lemma d_remove_len : forall vars d, inc vars -> Forall (fun v => v < length d) vars ->
  length (d_remove vars d) = length d - length vars.
Proof.
  intros vars d Hi Hv. rewrite d_remove_drm.
  pose proof (drm_len vars d 0 Hi) as H. cbn [Nat.add] in H.
  rewrite cnt_0, (cnt_all vars (length d) Hv) in H. lia.
Qed.

Lemma d_remove_abs : forall vars d, vars_ok vars (length d) ->
  aeq (abs_d (d_remove vars d)) (a_remove vars (abs_d d)).
Proof.
  intros vars d Hok. apply vars_ok_inv in Hok. destruct Hok as [Hi Hv].
  unfold aeq. split.
  - rewrite a_remove_size. cbn [abs_d asize]. apply d_remove_len; assumption.
  - intros j. rewrite a_remove_coef. cbn [abs_d acoef].
    pose proof (phi_psi vars j Hi) as Hpp.
    pose proof (phi_notin vars j Hi) as Hpn.
    destruct (lt_dec (phi vars j) (length d)) as [Hlt|Hge].
    + pose proof (drm_nth vars d 0 (phi vars j) Hi Hlt Hpn) as Hn.
      cbn [Nat.add] in Hn. rewrite psi_0, Nat.sub_0_r, Hpp in Hn.
      rewrite d_remove_drm. exact Hn.
    + rewrite (nth_overflow d) by lia.
      apply nth_overflow. rewrite d_remove_len by assumption.
      pose proof (cnt_le_len vars (phi vars j)). unfold psi in Hpp. lia.
Qed.
