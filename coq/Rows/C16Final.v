(* C16 -- the final statements with their (short) proofs from the per-file results; Properties_C16.v restates each
   one and proves it by `exact`. *)
From Coq Require Import ZArith NArith List Bool.
Import ListNotations.
Require Import PPLV.gen.Facts_COTree PPLV.Rows.COTree PPLV.Rows.COTreeSpec.
Require Import PPLV.Rows.Abs PPLV.Rows.Dense PPLV.Rows.Sparse PPLV.Rows.Expr PPLV.Rows.RowsFacts.
Require PPLV.Rows.DenseProofs PPLV.Rows.SparseProofs PPLV.Rows.ExprProofs.
Require PPLV.Rows.COTreeBase PPLV.Rows.COTreeSearch PPLV.Rows.COTreeStatic PPLV.Rows.COTreeHint PPLV.Rows.COTreeDens.
Require PPLV.Rows.COTreeIter PPLV.Rows.COTreeUpdate PPLV.Rows.COTreeMain PPLV.Rows.COTreeEraseLb PPLV.Rows.COTreeFull PPLV.Rows.COTreeInorder.

(* unstored entries of a sparse row read as zero *)
Lemma unstored_reads_zero_stmt : forall s i, s_mem i (sents s) = false -> s_get i s = 0%Z.
Proof. exact unstored_reads_zero_s. Qed.

(* linear_combine_lax with a dense operand no longer stores zeroes (finding C16-lax-mixed repaired): the mixed
   linear_combine_lax(y, 0, c2, ...) is a coefficient-wise operation like every other binary operation *)
Lemma lax_mixed_refines_abs_stmt : forall c2 f l x y, SparseProofs.good x -> SparseProofs.good y ->
  bop_ok (BLax0 c2 f l) x y = true ->
  SparseProofs.good (apply_bop (BLax0 c2 f l) x y) /\
  aeq (abs_e (apply_bop (BLax0 c2 f l) x y)) (a_combine 0 c2 f l (abs_e x) (abs_e y)).
Proof. intros c2 f l x y Hx Hy Hok. apply (ExprProofs.bop_spec_all (BLax0 c2 f l) x y Hx Hy Hok). reflexivity. Qed.
(* the sized copy constructor is a resize of the abstract row for every pair of representations
   (finding C16-trunc-copy repaired) *)
Lemma copy_sized_refines_abs_stmt : forall sp n e, SparseProofs.good e ->
  SparseProofs.good (copy_sized sp n e) /\ aeq (abs_e (copy_sized sp n e)) (a_resize n (abs_e e)).
Proof. intros sp n e H. apply SparseProofs.copy_sized_good; [exact H|reflexivity]. Qed.

(* ---- rows: every mutator commutes with the abstraction to (size, nat -> Z), every observer is a
   function of the abstraction (a_uop / a_bop / a_obs1 / a_obs2 map an operation to its a_* counterpart) ---- *)
Lemma dense_refines_abs_stmt : forall u d, uop_ok u (ED d) = true ->
  aeq (abs_e (apply_uop u (ED d))) (ExprProofs.a_uop u (abs_e (ED d))).
Proof. exact ExprProofs.dense_refines_abs. Qed.
Lemma sparse_refines_abs_stmt : forall u s, s_wf s -> s_nz s -> uop_ok u (ES s) = true ->
  (s_wf (match apply_uop u (ES s) with ES t => t | ED _ => s end) /\
   s_nz (match apply_uop u (ES s) with ES t => t | ED _ => s end)) /\
  aeq (abs_e (apply_uop u (ES s))) (ExprProofs.a_uop u (abs_e (ES s))).
Proof. exact ExprProofs.sparse_refines_abs. Qed.
(* binary operations, all four combinations of representations, no exception *)
Lemma mixed_binary_refines_abs_stmt : forall b x y, SparseProofs.good x -> SparseProofs.good y ->
  bop_ok b x y = true ->
  SparseProofs.good (apply_bop b x y) /\ aeq (abs_e (apply_bop b x y)) (ExprProofs.a_bop b (abs_e x) (abs_e y)).
Proof. intros b x y Hx Hy Hok. apply (ExprProofs.bop_spec_all b x y Hx Hy Hok). reflexivity. Qed.
Lemma observers_refine_abs_stmt : forall o e, SparseProofs.good e -> apply_obs1 o e = SparseProofs.a_obs1 o (abs_e e).
Proof. intros o e H. apply SparseProofs.obs1_refines, H. Qed.
Lemma observers2_refine_abs_stmt : forall o x y, SparseProofs.good x -> SparseProofs.good y ->
  apply_obs2 o x y = SparseProofs.a_obs2 o (abs_e x) (abs_e y).
Proof. intros o x y Hx Hy. apply SparseProofs.obs2_refines; assumption. Qed.

(* for every history and any two assignments of representations to the registers (mixed operands
   included) all observations are equal -- unconditionally *)
Lemma dense_sparse_interchangeable_stmt : forall rho1 rho2 h, outputs rho1 h = outputs rho2 h.
Proof. exact ExprProofs.dense_sparse_interchangeable_all. Qed.
(* a history that mixes representations and uses binary operations (sanity: it produces two observations) *)
Example interchangeable_hyp_sat :
  let h := [New 0 4; New 1 4; Un 0 (USet 1 3%Z); Un 1 (USet 2 5%Z); Bin 0 1 (BCombine 2 (-3) 0 4);
            Bin 1 0 (BLaxScale 2 0 3); Obs2 0 1 OCompare; Obs1 0 OIter] in
  unsafe (fun r => Nat.eqb r 0) h = false /\ unsafe (fun _ => false) h = false /\ length (outputs (fun _ => false) h) = 2%nat.
Proof. vm_compute. repeat split. Qed.
Example sparse_refines_hyp_sat :
  let s := mkSR 4 [(1%nat, 3%Z); (3%nat, (-2)%Z)] in s_wf s /\ s_nz s /\ uop_ok (USwap 1 2) (ES s) = true.
Proof.
  cbv zeta. split; [split|split].
  - repeat constructor; cbn; auto.
  - repeat constructor; cbn; auto.
  - repeat constructor; cbn; discriminate.
  - reflexivity.
Qed.

(* ---- the tree: searches, for ANY valid hint (stale or far away), find the map-level answer ---- *)
Local Open Scope N_scope.
(* every hint the histories use is valid (end() or a used slot) *)
Lemma resolve_hint_valid_stmt : forall t raw, COTreeSearch.valid_hint t (resolve_hint t raw).
Proof. exact COTreeSearch.resolve_hint_valid. Qed.
(* go_down_searching_key from the root ends on the key, or on its in-order neighbour with the free child *)
Lemma go_down_spec_stmt : forall t key, inv t -> 0 < t_size t ->
  COTreeSearch.gd_post (t_arr t) (t_rsz t) key (root_search t key).
Proof. exact COTreeSearch.go_down_spec. Qed.
(* bisect_near / bisect_in from any valid hint end on the key or on a neighbour of it *)
Lemma bisect_near_spec_stmt : forall t h key, inv t -> 0 < t_size t -> COTreeSearch.valid_hint t h ->
  COTreeSearch.near_pos (t_arr t) key (bisect_near t h key).
Proof. exact COTreeSearch.bisect_near_spec. Qed.
(* Sparse_Row::lower_bound(hint, i) / find(hint, i) do not depend on the hint ... *)
Lemma lower_bound_hint_irrelevant_stmt : forall t h1 h2 i, inv t ->
  COTreeSearch.valid_hint t h1 -> COTreeSearch.valid_hint t h2 -> lower_bound_near t h1 i = lower_bound_near t h2 i.
Proof. exact COTreeSearch.lower_bound_hint_irrelevant. Qed.
Lemma find_hint_irrelevant_stmt : forall t h1 h2 i, inv t ->
  COTreeSearch.valid_hint t h1 -> COTreeSearch.valid_hint t h2 -> find_near t h1 i = find_near t h2 i.
Proof. exact COTreeSearch.find_hint_irrelevant. Qed.
(* ... and are the map's lower bound / lookup; unstored keys read as zero *)
Lemma lower_bound_refines_stmt : forall t i, inv t ->
  m_lower_bound i (abs_tree t) = (if lower_bound t i =? t_end t then None else aget (t_arr t) (lower_bound t i)).
Proof. exact COTreeSearch.lower_bound_refines. Qed.
Lemma get_refines_stmt : forall t i, inv t ->
  get t i = match m_find i (abs_tree t) with Some v => v | None => 0%Z end.
Proof. exact COTreeSearch.get_refines. Qed.
(* the hinted insertion IS the plain insertion, whatever the hint: same tree, same returned iterator *)
Lemma insert_hint_eq_stmt : forall t h k d, inv t -> COTreeSearch.valid_hint t h ->
  insert_hint t h k d = match d with Some v => insert t k v | None => insert_key t k end.
Proof. exact COTreeHint.insert_hint_eq. Qed.
Lemma hint_irrelevant_stmt : forall t raw1 raw2 k d, inv t ->
  insert_hint t (resolve_hint t raw1) k d = insert_hint t (resolve_hint t raw2) k d.
Proof. exact COTreeHint.insert_hint_irrelevant. Qed.

(* ---- non-rebalancing updates and rebuilds refine the map and keep the invariant ---- *)
Lemma increase_keys_from_refines_stmt : forall t key n, inv t ->
  abs_tree (increase_keys_from t key n) = m_shift_up key n (abs_tree t) /\ inv (increase_keys_from t key n).
Proof. intros t key n H. split; [apply COTreeStatic.increase_keys_from_abs|apply COTreeStatic.increase_keys_from_inv]; exact H. Qed.
Lemma rebuild_bigger_refines_stmt : forall t, inv t -> 0 < t_size t ->
  abs_tree (rebuild_bigger t) = abs_tree t /\ inv (rebuild_bigger t).
Proof. intros t H H0. split; [apply COTreeStatic.rebuild_bigger_abs|apply COTreeStatic.rebuild_bigger_inv; assumption]. Qed.
Lemma rebuild_smaller_refines_stmt : forall t d, inv t -> 0 < t_size t -> 1 <= d ->
  t_rsz t = 2 ^ N.succ (N.succ d) - 1 -> t_size t <= 2 ^ N.succ d - 1 ->
  inv (rebuild_smaller t) /\ abs_tree (rebuild_smaller t) = abs_tree t.
Proof. exact COTreeStatic.rebuild_smaller_inv. Qed.
(* the iterator constructor CO_Tree(Iterator, n) (used by Sparse_Row copies and the bulk linear_combine) *)
Lemma of_list_refines_stmt : forall l, sorted l -> abs_tree (of_list l) = l /\ inv (of_list l).
Proof. intros l H. split; [apply COTreeStatic.of_list_abs|apply COTreeStatic.of_list_inv, H]. Qed.

(* ---- insert and erase through rebalance (compact_elements_in_the_rightmost_end + redistribute_elements_in_subtree,
   rebuild_bigger / rebuild_smaller, the hole moving down in erase) refine the map and keep the invariant ---- *)
Lemma insert_refines_stmt : forall t k v, inv t ->
  abs_tree (fst (insert t k v)) = m_insert k v (abs_tree t) /\ inv (fst (insert t k v)).
Proof. exact COTreeUpdate.insert_refines. Qed.
Lemma insert_key_refines_stmt : forall t k, inv t ->
  abs_tree (fst (insert_key t k)) = m_insert_key k (abs_tree t) /\ inv (fst (insert_key t k)).
Proof. exact COTreeUpdate.insert_key_refines. Qed.
Lemma erase_key_refines_stmt : forall t k, inv t ->
  abs_tree (fst (erase_key t k)) = m_erase k (abs_tree t) /\ inv (fst (erase_key t k)).
Proof. exact COTreeUpdate.erase_key_refines. Qed.
Lemma erase_pos_refines_stmt : forall t p, inv t -> aget (t_arr t) p <> None ->
  abs_tree (fst (erase_pos t p)) = m_erase (key_at (t_arr t) p) (abs_tree t) /\ inv (fst (erase_pos t p)).
Proof. exact COTreeUpdate.erase_pos_refines. Qed.
(* iterating with operator++ from begin() to end() (resp. operator-- from end()) enumerates the map in order *)
Lemma iteration_refines_stmt : forall t, inv t ->
  COTreeIter.iter_from (S (N.to_nat (t_rsz t))) t (t_begin t) = abs_tree t.
Proof. exact COTreeIter.iteration_refines. Qed.
Lemma reverse_iteration_refines_stmt : forall t, inv t -> 0 < t_size t ->
  COTreeIter.riter_from (S (N.to_nat (t_rsz t))) t (prev_pos t (t_end t)) = rev (abs_tree t).
Proof. exact COTreeIter.reverse_iteration_refines. Qed.

(* the in-order traversal of the complete tree through get_left_child / get_right_child visits the slots
   1, 2, ..., reserved_size in increasing order: "array order" below IS the in-order of the tree *)
Lemma inorder_is_array_order_stmt : forall d,
  COTreeInorder.inorder (S (N.to_nat d)) (it_root (2 ^ N.succ d - 1)) =
  map N.of_nat (seq 1 (N.to_nat (2 ^ N.succ d - 1))).
Proof. exact COTreeInorder.inorder_is_array_order. Qed.
(* erase_element_and_shift_left = erase + decrement of the keys from the returned iterator on *)
Lemma erase_shift_refines_stmt : forall t k, inv t ->
  abs_tree (erase_element_and_shift_left t k) = m_erase_shift k (abs_tree t) /\ inv (erase_element_and_shift_left t k).
Proof. exact COTreeEraseLb.erase_element_and_shift_left_refines. Qed.
(* the iterator erase(key) returns is the first element with a key >= key of the new tree (end() if none) *)
Lemma erase_returns_lower_bound_stmt : forall t k, inv t ->
  COTreeSearch.lb_pos (fst (erase_key t k)) k (snd (erase_key t k)).
Proof. exact COTreeEraseLb.erase_key_lb. Qed.

(* ---- whole histories: after ANY sequence of insert(key,data) / insert(key) / insert(itr,key[,data]) with
   arbitrary hints / erase(key) / erase(itr) / increase_keys_from / erase_element_and_shift_left, the used slots
   in array (= in-order) order are the ordered map ... ---- *)
Lemma cotree_refines_map_stmt : forall ops, abs_tree (run_tree ops) = run_map ops.
Proof. exact COTreeFull.cotree_refines_map. Qed.
(* ... and the invariant holds: slots within 1..reserved_size, an unused node has an unused subtree, keys strictly
   increasing in array order, size_ = number of used slots, reserved_size = 2^max_depth - 1 (or the empty tree),
   and the density bounds that CO_Tree::OK() checks *)
Lemma cotree_inv_stmt : forall ops, inv_full (run_tree ops).
Proof. exact COTreeFull.cotree_inv. Qed.
(* in every reachable state hinted insertion and hinted searches do not depend on the hint *)
Lemma hint_irrelevant_reachable_stmt : forall ops raw1 raw2 k d,
  let t := run_tree ops in
  insert_hint t (resolve_hint t raw1) k d = insert_hint t (resolve_hint t raw2) k d.
Proof. exact COTreeFull.hint_irrelevant_reachable. Qed.
Lemma lookup_hint_irrelevant_reachable_stmt : forall ops raw1 raw2 i,
  let t := run_tree ops in
  lower_bound_near t (resolve_hint t raw1) i = lower_bound_near t (resolve_hint t raw2) i /\
  find_near t (resolve_hint t raw1) i = find_near t (resolve_hint t raw2) i.
Proof. exact COTreeFull.lookup_hint_irrelevant_reachable. Qed.

(* ---- densities: what CO_Tree::OK() adds to structure_OK(), preserved by every update
   (szinv2 follows from inv: COTreeDens.inv_szinv2) ---- *)
Lemma insert_dens_stmt : forall t k v, inv t -> dens t -> dens (fst (insert t k v)).
Proof. intros t k v Hi Hd. apply COTreeDens.insert_dens; [apply COTreeDens.szinv2_szinv, COTreeDens.inv_szinv2, Hi|exact Hd]. Qed.
Lemma insert_hint_dens_stmt : forall t h k d, inv t -> dens t -> dens (fst (insert_hint t h k d)).
Proof. intros t h k d Hi Hd. apply COTreeDens.insert_hint_dens; [apply COTreeDens.szinv2_szinv, COTreeDens.inv_szinv2, Hi|exact Hd]. Qed.
Lemma erase_key_dens_stmt : forall t k, inv t -> dens t -> dens (fst (erase_key t k)).
Proof. intros t k Hi Hd. apply COTreeDens.erase_key_dens; [apply COTreeDens.inv_szinv2, Hi|exact Hd]. Qed.
Lemma erase_shift_dens_stmt : forall t k, inv t -> dens t -> dens (erase_element_and_shift_left t k).
Proof. intros t k Hi Hd. apply COTreeDens.erase_shift_dens; [apply COTreeDens.inv_szinv2, Hi|exact Hd]. Qed.
Local Close Scope N_scope.

(* the hypotheses `inv t`, `0 < t_size t`, `dens t` are satisfiable (and hold initially) *)
Example inv_hyp_sat :
  inv empty_tree /\ dens empty_tree /\
  let t := of_list [(1%N, 2%Z); (5%N, 3%Z); (9%N, (-4)%Z)] in inv t /\ (0 < t_size t)%N /\ dens t.
Proof.
  split; [exact COTreeStatic.inv_empty_tree|]. split; [left; reflexivity|]. cbv zeta. split.
  - apply COTreeStatic.of_list_inv. repeat constructor; cbn; reflexivity.
  - split; [vm_compute; reflexivity|]. right. split; [right|left]; vm_compute; reflexivity.
Qed.

