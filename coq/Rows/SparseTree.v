(* C16 -- Sparse_Row (src/Sparse_Row.cc, Sparse_Row_inlines.hh) written over the CO_Tree model:
   iterators are dfs indexes of the slot array, end() is reserved_size + 1 of the *current* tree
   (the code keeps a reference to the cached end iterator for exactly that reason).
   These functions reproduce the sequence of tree operations of the C++ algorithms, hence the slot layout. *)
From Coq Require Import ZArith NArith List Lia Bool FMapPositive.
Import ListNotations.
Require Import PPLV.gen.Facts_COTree PPLV.Rows.COTree.
Local Open Scope N_scope.

Record srow := mkS { s_tree : tree; s_size : N }.

Definition set_dat (t : tree) (p : N) (d : Z) : tree :=
  mkT (aset (t_arr t) p (key_at (t_arr t) p, d)) (t_rsz t) (t_depth t) (t_size t).
Definition dat (t : tree) (p : N) : Z := dat_at (t_arr t) p.
Definition key (t : tree) (p : N) : N := key_at (t_arr t) p.

(* reset(iterator) *)
Definition reset_pos (t : tree) (p : N) : tree * N := erase_pos t p.

(* while (itr != end) itr = reset(itr) *)
Fixpoint reset_all_from (f : nat) (t : tree) (p : N) : tree :=
  match f with
  | O => t
  | S f' => if p =? t_end t then t else let '(t', p') := reset_pos t p in reset_all_from f' t' p'
  end.
Definition sz_fuel (t : tree) : nat := S (N.to_nat (t_size t)).

Definition reset_after (s : srow) (i : N) : srow :=
  mkS (reset_all_from (sz_fuel (s_tree s)) (s_tree s) (lower_bound (s_tree s) i)) (s_size s).
Definition resize (s : srow) (n : N) : srow :=
  if n <? s_size s then mkS (s_tree (reset_after s n)) n else mkS (s_tree s) n.

(* while (i != end && i.index() < last) i = reset(i)  -- mul_assign by zero / linear_combine_lax(0,0) *)
Fixpoint reset_range_loop (f : nat) (t : tree) (p last : N) : tree :=
  match f with
  | O => t
  | S f' => if (p =? t_end t) || negb (key t p <? last) then t
            else let '(t', p') := reset_pos t p in reset_range_loop f' t' p' last
  end.
Definition reset_range (s : srow) (first last : N) : srow :=
  mkS (reset_range_loop (sz_fuel (s_tree s)) (s_tree s) (lower_bound (s_tree s) first) last) (s_size s).

Definition swap_coefficients (s : srow) (i j : N) : srow :=
  let t := s_tree s in
  if t_size t =? 0 then s else
  let pi := bisect t i in
  let pj := bisect t j in
  if key t pi =? i then
    if key t pj =? j then
      mkS (set_dat (set_dat t pi (dat t pj)) pj (dat t pi)) (s_size s)
    else
      let tmp := dat t pi in
      let '(t1, _) := erase_pos t pi in
      let '(t2, p) := insert_key t1 j in
      mkS (set_dat t2 p tmp) (s_size s)
  else
    if key t pj =? j then
      let tmp := dat t pj in
      let '(t1, _) := erase_pos t pj in
      let '(t2, p) := insert_key t1 i in
      mkS (set_dat t2 p tmp) (s_size s)
    else s.

Definition delete_element_and_shift (s : srow) (i : N) : srow :=
  mkS (erase_element_and_shift_left (s_tree s) i) (s_size s - 1).
Definition add_zeroes_and_shift (s : srow) (n i : N) : srow :=
  mkS (increase_keys_from (s_tree s) i n) (s_size s + n).

(* ---- linear_combine(y, c1, c2), whole row ---- *)

(* branch coeff1 == 1 (also the sub-range variants with coeff1 == 1):
   i = end(); for j in ys: i = insert(i, j.index()); ( *i ) += ( *j ) * c2; if ( *i == 0 ) i = reset(i); *)
Fixpoint lc_one (ys : list entry) (c2 : Z) (t : tree) (i : N) : tree :=
  match ys with
  | [] => t
  | (k, d) :: ys' =>
    let '(t1, p) := insert_hint t i k None in
    let v := (dat t1 p + d * c2)%Z in
    let t2 := set_dat t1 p v in
    if (v =? 0)%Z then let '(t3, p3) := reset_pos t2 p in lc_one ys' c2 t3 p3
    else lc_one ys' c2 t2 p
  end.

(* the counting loop *)
Fixpoint lc_count (f : nat) (t : tree) (i : N) (ys : list entry) (cnt : N) : N :=
  match f with
  | O => cnt
  | S f' =>
    match ys with
    | [] => cnt
    | (k, _) :: ys' =>
      if i =? t_end t then cnt + N.of_nat (length ys) else
      let ki := key t i in
      if ki =? k then lc_count f' t (next_pos t i) ys' cnt
      else if ki <? k then lc_count f' t (lower_bound_near t i k) ys cnt
      else lc_count f' t i ys' (cnt + 1)
    end
  end.

(* main merge loop shared by the "few insertions" branch and the sub-range variants:
   while (i != i_end && i.index() < last && j != j_end) ...; then the two tail loops.
   last = None: no upper bound on i (whole-row version). *)
Definition below (t : tree) (i : N) (last : option N) : bool :=
  negb (i =? t_end t) && match last with None => true | Some e => key t i <? e end.

Fixpoint lc_tail_j (ys : list entry) (c2 : Z) (t : tree) (i : N) : tree :=
  match ys with
  | [] => t
  | (k, d) :: ys' =>
    let '(t1, p) := insert_hint t i k (Some d) in
    lc_tail_j ys' c2 (set_dat t1 p (dat t1 p * c2)%Z) p
  end.

Fixpoint lc_tail_i (f : nat) (c1 : Z) (t : tree) (i : N) (last : option N) : tree * N :=
  match f with
  | O => (t, i)
  | S f' => if below t i last then lc_tail_i f' c1 (set_dat t i (dat t i * c1)%Z) (next_pos t i) last
            else (t, i)
  end.

Fixpoint lc_merge (f : nat) (c1 c2 : Z) (t : tree) (i : N) (ys : list entry) (last : option N) : tree :=
  match f with
  | O => t
  | S f' =>
    match ys with
    | [] => fst (lc_tail_i (sz_fuel t) c1 t i last)
    | (k, d) :: ys' =>
      if below t i last then
        let ki := key t i in
        if ki =? k then
          let v := (dat t i * c1 + d * c2)%Z in
          let t1 := set_dat t i v in
          if (v =? 0)%Z then let '(t2, p2) := reset_pos t1 i in lc_merge f' c1 c2 t2 p2 ys' last
          else lc_merge f' c1 c2 t1 (next_pos t1 i) ys' last
        else if ki <? k then
          lc_merge f' c1 c2 (set_dat t i (dat t i * c1)%Z) (next_pos t i) ys last
        else
          let '(t1, p) := insert_hint t i k (Some d) in
          let t2 := set_dat t1 p (dat t1 p * c2)%Z in
          lc_merge f' c1 c2 t2 (next_pos t2 p) ys' last
      else
        let '(t1, i1) := lc_tail_i (sz_fuel t) c1 t i last in
        lc_tail_j ys c2 t1 i1
    end
  end.

(* sparse_row_linear_combine_helper_iterator: the merged sequence *)
Fixpoint lc_zip (f : nat) (xs ys : list entry) (c1 c2 : Z) : list entry :=
  match f with
  | O => []
  | S f' =>
    match xs, ys with
    | [], [] => []
    | [], (k, d) :: ys' => (k, (d * c2)%Z) :: lc_zip f' [] ys' c1 c2
    | (k, d) :: xs', [] => (k, (d * c1)%Z) :: lc_zip f' xs' [] c1 c2
    | (kx, dx) :: xs', (ky, dy) :: ys' =>
      if kx <? ky then (kx, (dx * c1)%Z) :: lc_zip f' xs' ys c1 c2
      else if ky <? kx then (ky, (dy * c2)%Z) :: lc_zip f' xs ys' c1 c2
      else (kx, (dx * c1 + dy * c2)%Z) :: lc_zip f' xs' ys' c1 c2
    end
  end.

(* while (i != end()) if ( *i == 0 ) i = reset(i); else ++i; *)
Fixpoint drop_zeroes (f : nat) (t : tree) (i : N) : tree :=
  match f with
  | O => t
  | S f' => if i =? t_end t then t
            else if (dat t i =? 0)%Z then let '(t', p) := reset_pos t i in drop_zeroes f' t' p
            else drop_zeroes f' t (next_pos t i)
  end.

Definition linear_combine (x y : srow) (c1 c2 : Z) : srow :=
  let t := s_tree x in
  let ys := abs_tree (s_tree y) in
  if (c1 =? 1)%Z then mkS (lc_one ys c2 t (t_end t)) (s_size x) else
  let fl := S (N.to_nat (t_size t) + length ys) in
  let counter :=
      if t_begin t =? t_end t then N.of_nat (length ys)
      else lc_count (fl + fl) t (t_begin t) ys 0 in
  if (counter =? 0) || (counter <? (7 * s_size x) / 64) then
    mkS (lc_merge (fl + fl) c1 c2 t (t_begin t) ys None) (s_size x)
  else
    let l := firstn (N.to_nat (counter + t_size t)) (lc_zip (fl + fl) (abs_tree t) ys c1 c2) in
    let t' := of_list l in
    mkS (drop_zeroes (sz_fuel t') t' (t_begin t')) (s_size x).

(* linear_combine(y, c1, c2, start, end) *)
Definition in_range (first last : N) (e : entry) : bool := (first <=? fst e) && (fst e <? last).
Definition linear_combine_range (x y : srow) (c1 c2 : Z) (first last : N) : srow :=
  let t := s_tree x in
  let ys := filter (in_range first last) (abs_tree (s_tree y)) in
  if (c1 =? 1)%Z then mkS (lc_one ys c2 t (t_end t)) (s_size x) else
  let fl := S (N.to_nat (t_size t) + length ys) in
  mkS (lc_merge (fl + fl) c1 c2 t (lower_bound t first) ys (Some last)) (s_size x).

(* erase during iteration: for (i = begin(); i != end(); ) if (i.index() % m == r) i = reset(i); else ++i; *)
Fixpoint erase_if_mod (f : nat) (t : tree) (i m r : N) : tree :=
  match f with
  | O => t
  | S f' => if i =? t_end t then t
            else if (key t i) mod m =? r then let '(t', p) := reset_pos t i in erase_if_mod f' t' p m r
            else erase_if_mod f' t (next_pos t i) m r
  end.

(* Sparse_Row(const Sparse_Row& y, sz, capacity) *)
Definition copy_resized (y : srow) (sz : N) : srow :=
  let lim := N.min (s_size y) sz in
  mkS (of_list (filter (fun e => fst e <? lim) (abs_tree (s_tree y)))) sz.

(* Sparse_Row::OK together with CO_Tree::OK *)
Definition srow_ok (s : srow) : bool :=
  tree_ok (s_tree s) && forallb (fun e => fst e <? s_size s) (abs_tree (s_tree s)).
