(* C16 -- basic lemma library for the CO_Tree model (COTree.v / COTreeSpec.v):
   slot arrays, used_from / abs_tree, position-wise sortedness, scans, lowbit / node arithmetic. *)
From Coq Require Import ZArith NArith List Lia Bool FMapPositive Sorted.
Import ListNotations.
Require Import PPLV.gen.Facts_COTree PPLV.Rows.COTree PPLV.Rows.COTreeSpec.
Local Open Scope N_scope.

(* ------------------------------------------------------------------ *)
(* aget / aset / aclr                                                  *)
(* ------------------------------------------------------------------ *)
Lemma aget_0 : forall a, aget a 0 = None.
Proof. reflexivity. Qed.

Lemma aget_empty : forall i, aget (PositiveMap.empty entry) i = None.
Proof. intros [|p]; cbn; [reflexivity|apply PositiveMap.gempty]. Qed.

Lemma aget_aset_same : forall a i e, i <> 0 -> aget (aset a i e) i = Some e.
Proof. intros a [|p] e H; [congruence|]. cbn. apply PositiveMap.gss. Qed.

Lemma aget_aset_other : forall a i j e, i <> j -> aget (aset a i e) j = aget a j.
Proof.
  intros a [|p] [|q] e H; cbn; try reflexivity; try congruence.
  apply PositiveMap.gso. congruence.
Qed.

Lemma aget_aset : forall a i j e, i <> 0 ->
  aget (aset a i e) j = if j =? i then Some e else aget a j.
Proof.
  intros a i j e H. destruct (j =? i) eqn:E.
  - apply N.eqb_eq in E. subst. apply aget_aset_same; assumption.
  - apply N.eqb_neq in E. apply aget_aset_other. congruence.
Qed.

Lemma aget_aclr_same : forall a i, aget (aclr a i) i = None.
Proof. intros a [|p]; cbn; [reflexivity|apply PositiveMap.grs]. Qed.

Lemma aget_aclr_other : forall a i j, i <> j -> aget (aclr a i) j = aget a j.
Proof.
  intros a [|p] [|q] H; cbn; try reflexivity; try congruence.
  apply PositiveMap.gro. congruence.
Qed.

Lemma aget_aclr : forall a i j, aget (aclr a i) j = if j =? i then None else aget a j.
Proof.
  intros a i j. destruct (j =? i) eqn:E.
  - apply N.eqb_eq in E. subst. apply aget_aclr_same.
  - apply N.eqb_neq in E. apply aget_aclr_other. congruence.
Qed.

Lemma aget_some_pos : forall a i e, aget a i = Some e -> i <> 0.
Proof. intros a i e H ->. cbn in H. discriminate. Qed.

Lemma aget_used_pos : forall a i, aget a i <> None -> i <> 0.
Proof. intros a i H ->. apply H. reflexivity. Qed.

(* ------------------------------------------------------------------ *)
(* key_at / dat_at / unused                                            *)
(* ------------------------------------------------------------------ *)
Lemma key_at_some : forall a i k d, aget a i = Some (k, d) -> key_at a i = k.
Proof. intros a i k d H. unfold key_at. rewrite H. reflexivity. Qed.

Lemma dat_at_some : forall a i k d, aget a i = Some (k, d) -> dat_at a i = d.
Proof. intros a i k d H. unfold dat_at. rewrite H. reflexivity. Qed.

Lemma aget_key_dat : forall a i, aget a i <> None -> aget a i = Some (key_at a i, dat_at a i).
Proof.
  intros a i H. unfold key_at, dat_at. destruct (aget a i) as [[k d]|]; [reflexivity|congruence].
Qed.

Lemma unused_true_iff : forall a R i,
  unused a R i = true <-> (1 <= i <= R /\ aget a i = None).
Proof.
  intros a R i. unfold unused. rewrite !andb_true_iff, !N.leb_le.
  destruct (aget a i); split; intros H; try tauto; destruct H as [_ H]; discriminate.
Qed.

Lemma unused_false_iff : forall a R i,
  unused a R i = false <-> (i = 0 \/ R < i \/ aget a i <> None).
Proof.
  intros a R i. split.
  - intros H. destruct (aget a i) eqn:E.
    + right; right; congruence.
    + destruct (N.eq_dec i 0) as [->|H0]; [left; reflexivity|].
      destruct (N.lt_ge_cases R i) as [Hl|Hl]; [right; left; assumption|].
      assert (unused a R i = true) by (apply unused_true_iff; split; [lia|assumption]).
      congruence.
  - intros H. destruct (unused a R i) eqn:E; [|reflexivity].
    apply unused_true_iff in E. destruct E as [E1 E2].
    destruct H as [H|[H|H]]; [lia|lia|congruence].
Qed.

Lemma unused_in_range : forall a R i, 1 <= i <= R ->
  unused a R i = match aget a i with None => true | Some _ => false end.
Proof.
  intros a R i [H1 H2]. unfold unused.
  apply N.leb_le in H1. apply N.leb_le in H2. rewrite H1, H2. reflexivity.
Qed.

(* ------------------------------------------------------------------ *)
(* move_slot / swap_slots                                              *)
(* ------------------------------------------------------------------ *)
Lemma aget_move_slot : forall a from to e j,
  aget a from = Some e -> to <> 0 ->
  aget (move_slot a from to) j =
    if j =? from then (if from =? to then Some e else None)
    else if j =? to then Some e else aget a j.
Proof.
  intros a from to e j H Ht. unfold move_slot.
  destruct (from =? to) eqn:E.
  - apply N.eqb_eq in E. subst to.
    destruct (j =? from) eqn:E2; [apply N.eqb_eq in E2; subst; assumption|reflexivity].
  - apply N.eqb_neq in E. rewrite H. rewrite aget_aclr.
    destruct (j =? from) eqn:E2; [reflexivity|].
    rewrite aget_aset by assumption. reflexivity.
Qed.

Lemma move_slot_none : forall a from to, aget a from = None -> move_slot a from to = a.
Proof. intros a from to H. unfold move_slot. rewrite H. destruct (from =? to); reflexivity. Qed.

Lemma move_slot_same : forall a i, move_slot a i i = a.
Proof. intros a i. unfold move_slot. rewrite N.eqb_refl. reflexivity. Qed.

Lemma aget_swap_slots : forall a i j ei ej k,
  aget a i = Some ei -> aget a j = Some ej ->
  aget (swap_slots a i j) k =
    if k =? j then Some ei else if k =? i then Some ej else aget a k.
Proof.
  intros a i j ei ej k Hi Hj. unfold swap_slots. rewrite Hi, Hj.
  pose proof (aget_some_pos _ _ _ Hi). pose proof (aget_some_pos _ _ _ Hj).
  rewrite aget_aset by assumption. destruct (k =? j); [reflexivity|].
  rewrite aget_aset by assumption. reflexivity.
Qed.

Lemma swap_slots_none_l : forall a i j, aget a i = None -> swap_slots a i j = a.
Proof. intros a i j H. unfold swap_slots. rewrite H. reflexivity. Qed.

Lemma swap_slots_none_r : forall a i j, aget a j = None -> swap_slots a i j = a.
Proof. intros a i j H. unfold swap_slots. rewrite H. destruct (aget a i); reflexivity. Qed.

(* ------------------------------------------------------------------ *)
(* used_from                                                           *)
(* ------------------------------------------------------------------ *)
Lemma used_from_app : forall n m a i,
  used_from (n + m) a i = used_from n a i ++ used_from m a (i + N.of_nat n).
Proof.
  induction n; intros m a i.
  - cbn [Nat.add used_from app N.of_nat]. rewrite N.add_0_r. reflexivity.
  - cbn [Nat.add used_from]. rewrite IHn.
    replace (i + 1 + N.of_nat n) with (i + N.of_nat (S n)) by lia.
    destruct (aget a i); reflexivity.
Qed.

Lemma used_from_ext : forall n a b i,
  (forall j, i <= j < i + N.of_nat n -> aget a j = aget b j) ->
  used_from n a i = used_from n b i.
Proof.
  induction n; intros a b i H; [reflexivity|].
  cbn [used_from]. rewrite (H i) by lia.
  rewrite (IHn a b (i + 1)) by (intros; apply H; lia). reflexivity.
Qed.

Lemma used_from_map : forall n a b i (g : entry -> entry),
  (forall j, i <= j < i + N.of_nat n -> aget b j = option_map g (aget a j)) ->
  used_from n b i = map g (used_from n a i).
Proof.
  induction n; intros a b i g H; [reflexivity|].
  cbn [used_from]. rewrite (H i) by lia.
  rewrite (IHn a b (i + 1) g) by (intros; apply H; lia).
  destruct (aget a i); reflexivity.
Qed.

Lemma used_from_nil : forall n a i,
  (forall j, i <= j < i + N.of_nat n -> aget a j = None) -> used_from n a i = [].
Proof.
  induction n; intros a i H; [reflexivity|].
  cbn [used_from]. rewrite (H i) by lia. apply IHn. intros; apply H; lia.
Qed.

Lemma in_used_from : forall n a i e,
  In e (used_from n a i) <-> exists p, i <= p < i + N.of_nat n /\ aget a p = Some e.
Proof.
  induction n; intros a i e.
  - cbn [used_from In]. split; [tauto|]. intros [p [H _]]. lia.
  - cbn [used_from]. split.
    + intros H. destruct (aget a i) eqn:E.
      * destruct H as [H|H].
        -- subst. exists i. split; [lia|assumption].
        -- apply IHn in H. destruct H as [p [H1 H2]]. exists p. split; [lia|assumption].
      * apply IHn in H. destruct H as [p [H1 H2]]. exists p. split; [lia|assumption].
    + intros [p [H1 H2]]. destruct (N.eq_dec p i) as [->|Hne].
      * rewrite H2. left. reflexivity.
      * assert (In e (used_from n a (i + 1))) by (apply IHn; exists p; split; [lia|assumption]).
        destruct (aget a i); [right|]; assumption.
Qed.

Lemma used_from_nil_inv : forall n a i, used_from n a i = [] ->
  forall j, i <= j < i + N.of_nat n -> aget a j = None.
Proof.
  intros n a i H j Hj. destruct (aget a j) eqn:E; [|reflexivity].
  assert (In e (used_from n a i)) by (apply in_used_from; exists j; split; assumption).
  rewrite H in H0. destruct H0.
Qed.

Lemma used_from_split_at : forall n a i p, i <= p < i + N.of_nat n ->
  used_from n a i =
    used_from (N.to_nat (p - i)) a i
    ++ (match aget a p with Some e => [e] | None => [] end)
    ++ used_from (N.to_nat (i + N.of_nat n - p - 1)) a (p + 1).
Proof.
  intros n a i p H.
  replace n with (N.to_nat (p - i) + (1 + N.to_nat (i + N.of_nat n - p - 1)))%nat at 1 by lia.
  rewrite used_from_app.
  replace (i + N.of_nat (N.to_nat (p - i))) with p by lia.
  rewrite used_from_app.
  replace (p + N.of_nat 1) with (p + 1) by lia.
  cbn [used_from]. destruct (aget a p); reflexivity.
Qed.

(* writing slot p (used or not) *)
Lemma used_from_aset : forall n a i p e, i <= p < i + N.of_nat n -> p <> 0 ->
  used_from n (aset a p e) i =
    used_from (N.to_nat (p - i)) a i ++ [e]
    ++ used_from (N.to_nat (i + N.of_nat n - p - 1)) a (p + 1).
Proof.
  intros n a i p e H Hp. rewrite (used_from_split_at n _ i p H).
  rewrite aget_aset_same by assumption. f_equal; [|f_equal].
  - apply used_from_ext. intros j Hj. apply aget_aset_other. lia.
  - apply used_from_ext. intros j Hj. apply aget_aset_other. lia.
Qed.

Lemma used_from_aclr : forall n a i p, i <= p < i + N.of_nat n ->
  used_from n (aclr a p) i =
    used_from (N.to_nat (p - i)) a i
    ++ used_from (N.to_nat (i + N.of_nat n - p - 1)) a (p + 1).
Proof.
  intros n a i p H. rewrite (used_from_split_at n _ i p H).
  rewrite aget_aclr_same. cbn [app]. f_equal.
  - apply used_from_ext. intros j Hj. apply aget_aclr_other. lia.
  - apply used_from_ext. intros j Hj. apply aget_aclr_other. lia.
Qed.

(* writes outside the window do not matter *)
Lemma used_from_aset_outside : forall n a i p e, (p < i \/ i + N.of_nat n <= p) ->
  used_from n (aset a p e) i = used_from n a i.
Proof. intros. apply used_from_ext. intros j Hj. apply aget_aset_other. lia. Qed.

Lemma used_from_aclr_outside : forall n a i p, (p < i \/ i + N.of_nat n <= p) ->
  used_from n (aclr a p) i = used_from n a i.
Proof. intros. apply used_from_ext. intros j Hj. apply aget_aclr_other. lia. Qed.

Lemma used_from_length_le : forall n a i, (length (used_from n a i) <= n)%nat.
Proof.
  induction n; intros a i; cbn [used_from length]; [lia|].
  specialize (IHn a (i + 1)). destruct (aget a i); cbn [length]; lia.
Qed.

Lemma used_from_length_count : forall n a i,
  N.of_nat (length (used_from n a i)) = count_used n a i.
Proof.
  induction n; intros a i; cbn [used_from count_used length]; [reflexivity|].
  specialize (IHn a (i + 1)). destruct (aget a i); cbn [length]; lia.
Qed.

Lemma used_from_full : forall n a i,
  (forall j, i <= j < i + N.of_nat n -> aget a j <> None) -> length (used_from n a i) = n.
Proof.
  induction n; intros a i H; [reflexivity|]. cbn [used_from].
  specialize (H i) as Hi. destruct (aget a i); [|exfalso; apply Hi; [lia|reflexivity]].
  cbn [length]. f_equal. apply IHn. intros; apply H; lia.
Qed.

(* abs_tree-level corollaries *)
Lemma in_abs_tree : forall t e,
  In e (abs_tree t) <-> exists p, 1 <= p <= t_rsz t /\ aget (t_arr t) p = Some e.
Proof.
  intros t e. unfold abs_tree. rewrite in_used_from. split; intros [p [H1 H2]]; exists p; (split; [lia|assumption]).
Qed.

Lemma in_abs_tree_range : forall t e, in_range t ->
  (In e (abs_tree t) <-> exists p, aget (t_arr t) p = Some e).
Proof.
  intros t e Hr. rewrite in_abs_tree. split.
  - intros [p [_ H]]. exists p; assumption.
  - intros [p H]. exists p. split; [apply Hr; congruence|assumption].
Qed.

Lemma abs_tree_ext : forall t1 t2, t_rsz t1 = t_rsz t2 ->
  (forall j, 1 <= j <= t_rsz t1 -> aget (t_arr t1) j = aget (t_arr t2) j) ->
  abs_tree t1 = abs_tree t2.
Proof.
  intros t1 t2 HR H. unfold abs_tree. rewrite <- HR. apply used_from_ext. intros j Hj. apply H. lia.
Qed.

(* ------------------------------------------------------------------ *)
(* position-wise reading of sortedness                                 *)
(* ------------------------------------------------------------------ *)
Definition psorted (a : arr) : Prop :=
  forall p q, p < q -> aget a p <> None -> aget a q <> None -> key_at a p < key_at a q.

Lemma sorted_used_from_iff : forall n a i,
  sorted (used_from n a i) <->
  (forall p q, i <= p -> p < q -> q < i + N.of_nat n ->
     aget a p <> None -> aget a q <> None -> key_at a p < key_at a q).
Proof.
  unfold sorted. induction n; intros a i.
  - cbn [used_from]. split; [intros _ p q; lia|intros _; constructor].
  - cbn [used_from]. split.
    + intros H p q Hp Hpq Hq Up Uq.
      assert (HS : StronglySorted key_lt (used_from n a (i + 1))).
      { destruct (aget a i); [apply StronglySorted_inv in H; tauto|assumption]. }
      destruct (N.eq_dec p i) as [->|Hne].
      * destruct (aget a i) as [e|] eqn:E; [|congruence].
        apply StronglySorted_inv in H. destruct H as [_ HF].
        rewrite Forall_forall in HF.
        destruct (aget a q) as [eq|] eqn:Eq; [|congruence].
        assert (In eq (used_from n a (i + 1))) by (apply in_used_from; exists q; split; [lia|assumption]).
        apply HF in H. unfold key_lt in H. unfold key_at. rewrite E, Eq.
        destruct e, eq. exact H.
      * apply (proj1 (IHn a (i + 1)) HS p q); try assumption; lia.
    + intros H.
      assert (HS : StronglySorted key_lt (used_from n a (i + 1))).
      { apply IHn. intros p q Hp Hpq Hq. apply H; lia. }
      destruct (aget a i) as [e|] eqn:E; [|assumption].
      constructor; [assumption|]. apply Forall_forall. intros x Hx.
      apply in_used_from in Hx. destruct Hx as [q [Hq1 Hq2]].
      assert (key_at a i < key_at a q) by (apply H; try lia; congruence).
      unfold key_at in H0. rewrite E, Hq2 in H0. unfold key_lt. destruct e, x. exact H0.
Qed.

Lemma sorted_abs_psorted : forall t, in_range t -> sorted (abs_tree t) -> psorted (t_arr t).
Proof.
  intros t Hr Hs p q Hpq Up Uq. unfold abs_tree in Hs.
  apply (proj1 (sorted_used_from_iff _ _ _) Hs p q); try assumption.
  - apply Hr; assumption.
  - apply Hr in Uq. lia.
Qed.

Lemma psorted_sorted_abs : forall t, psorted (t_arr t) -> sorted (abs_tree t).
Proof.
  intros t H. unfold abs_tree. apply sorted_used_from_iff. intros p q _ Hpq _. apply H; assumption.
Qed.

Lemma psorted_inj : forall a p q, psorted a -> aget a p <> None -> aget a q <> None ->
  key_at a p = key_at a q -> p = q.
Proof.
  intros a p q H Up Uq E.
  destruct (N.lt_trichotomy p q) as [L|[L|L]]; [|assumption|].
  - specialize (H p q L Up Uq). lia.
  - specialize (H q p L Uq Up). lia.
Qed.

Lemma psorted_le : forall a p q, psorted a -> aget a p <> None -> aget a q <> None ->
  key_at a p <= key_at a q -> p <= q.
Proof.
  intros a p q H Up Uq E. destruct (N.le_gt_cases p q) as [L|L]; [assumption|].
  specialize (H q p L Uq Up). lia.
Qed.

(* ------------------------------------------------------------------ *)
(* m_find on sorted lists, and through the tree                        *)
(* ------------------------------------------------------------------ *)
Lemma m_find_in : forall k v m, m_find k m = Some v -> In (k, v) m.
Proof.
  induction m as [|[k' v'] r IH]; cbn [m_find]; [discriminate|].
  destruct (k =? k') eqn:E.
  - apply N.eqb_eq in E. intros [= ->]. subst. left; reflexivity.
  - intros H. right. apply IH. assumption.
Qed.

Lemma m_find_none : forall k m, m_find k m = None <-> (forall v, ~ In (k, v) m).
Proof.
  induction m as [|[k' v'] r IH]; cbn [m_find].
  - split; [intros _ v []|reflexivity].
  - destruct (k =? k') eqn:E.
    + apply N.eqb_eq in E. subst. split; [discriminate|]. intros H. exfalso. apply (H v'). left; reflexivity.
    + apply N.eqb_neq in E. rewrite IH. split.
      * intros H v [H1|H1]; [congruence|]. apply (H v). assumption.
      * intros H v H1. apply (H v). right; assumption.
Qed.

Lemma in_m_find : forall k v m, sorted m -> In (k, v) m -> m_find k m = Some v.
Proof.
  unfold sorted. induction m as [|[k' v'] r IH]; intros Hs Hin; [destruct Hin|].
  apply StronglySorted_inv in Hs. destruct Hs as [Hs HF]. cbn [m_find].
  destruct Hin as [Hin|Hin].
  - injection Hin as -> ->. rewrite N.eqb_refl. reflexivity.
  - rewrite Forall_forall in HF. specialize (HF _ Hin). unfold key_lt in HF. cbn [fst] in HF.
    destruct (k =? k') eqn:E; [apply N.eqb_eq in E; lia|]. apply IH; assumption.
Qed.

Lemma m_find_abs_some : forall t k v, in_range t -> sorted (abs_tree t) ->
  (m_find k (abs_tree t) = Some v <-> exists p, aget (t_arr t) p = Some (k, v)).
Proof.
  intros t k v Hr Hs. rewrite <- in_abs_tree_range by assumption. split.
  - apply m_find_in.
  - apply in_m_find; assumption.
Qed.

Lemma m_find_abs_none : forall t k, in_range t ->
  (m_find k (abs_tree t) = None <-> forall p, aget (t_arr t) p <> None -> key_at (t_arr t) p <> k).
Proof.
  intros t k Hr. rewrite m_find_none. split.
  - intros H p Up E.
    apply (H (dat_at (t_arr t) p)). apply in_abs_tree_range; [assumption|].
    exists p. rewrite <- E. apply aget_key_dat. assumption.
  - intros H v Hin. apply in_abs_tree_range in Hin; [|assumption]. destruct Hin as [p Hp].
    apply (H p); [congruence|]. apply (key_at_some _ _ _ _ Hp).
Qed.

(* ------------------------------------------------------------------ *)
(* scan_up / scan_down                                                 *)
(* ------------------------------------------------------------------ *)
Lemma scan_up_spec : forall f a R i, i <= R + 1 -> (N.to_nat (R + 2 - i) <= f)%nat ->
  i <= scan_up f a R i <= R + 1 /\
  unused a R (scan_up f a R i) = false /\
  (forall j, i <= j < scan_up f a R i -> unused a R j = true).
Proof.
  induction f; intros a R i Hi Hf; [lia|].
  cbn [scan_up]. destruct (unused a R i) eqn:E.
  - apply unused_true_iff in E as E'. destruct E' as [[E1 E2] _].
    destruct (IHf a R (i + 1)) as [H1 [H2 H3]]; [lia|lia|].
    split; [lia|]. split; [assumption|]. intros j Hj.
    destruct (N.eq_dec j i) as [->|Hne]; [assumption|apply H3; lia].
  - split; [lia|]. split; [assumption|]. intros j Hj; lia.
Qed.

Lemma scan_down_spec : forall f a R i, (N.to_nat i < f)%nat ->
  scan_down f a R i <= i /\
  unused a R (scan_down f a R i) = false /\
  (forall j, scan_down f a R i < j <= i -> unused a R j = true).
Proof.
  induction f; intros a R i Hf; [lia|].
  cbn [scan_down]. destruct (unused a R i) eqn:E.
  - apply unused_true_iff in E as E'. destruct E' as [[E1 E2] _].
    destruct (IHf a R (i - 1)) as [H1 [H2 H3]]; [lia|].
    split; [lia|]. split; [assumption|]. intros j Hj.
    destruct (N.eq_dec j i) as [->|Hne]; [assumption|apply H3; lia].
  - split; [lia|]. split; [assumption|]. intros j Hj; lia.
Qed.

Lemma scan_up_fuel_of : forall a R i, i <= R + 1 ->
  i <= scan_up (fuel_of R) a R i <= R + 1 /\
  unused a R (scan_up (fuel_of R) a R i) = false /\
  (forall j, i <= j < scan_up (fuel_of R) a R i -> unused a R j = true).
Proof. intros a R i H. apply scan_up_spec; [assumption|unfold fuel_of; lia]. Qed.

Lemma scan_down_fuel_of : forall a R i, i <= R + 1 ->
  scan_down (fuel_of R) a R i <= i /\
  unused a R (scan_down (fuel_of R) a R i) = false /\
  (forall j, scan_down (fuel_of R) a R i < j <= i -> unused a R j = true).
Proof. intros a R i H. apply scan_down_spec. unfold fuel_of; lia. Qed.

(* scans stop at once on a slot that is not unused *)
Lemma scan_up_stop : forall f a R i, unused a R i = false -> scan_up f a R i = i.
Proof. intros [|f] a R i H; cbn [scan_up]; [reflexivity|rewrite H; reflexivity]. Qed.
Lemma scan_down_stop : forall f a R i, unused a R i = false -> scan_down f a R i = i.
Proof. intros [|f] a R i H; cbn [scan_down]; [reflexivity|rewrite H; reflexivity]. Qed.

(* reading of the scan results as "next / previous used slot" *)
Lemma scan_up_used : forall a R i, i <= R + 1 ->
  let r := scan_up (fuel_of R) a R i in
  i <= r <= R + 1 /\ (r = 0 \/ r = R + 1 \/ aget a r <> None) /\
  (forall j, i <= j < r -> j <> 0 -> aget a j = None).
Proof.
  intros a R i H r. destruct (scan_up_fuel_of a R i H) as [H1 [H2 H3]]. fold r in H1, H2, H3.
  split; [assumption|]. split.
  - apply unused_false_iff in H2. destruct H2 as [H2|[H2|H2]]; [tauto|right; left; lia|tauto].
  - intros j Hj _. apply H3 in Hj. apply unused_true_iff in Hj. tauto.
Qed.

Lemma scan_down_used : forall a R i, i <= R + 1 ->
  let r := scan_down (fuel_of R) a R i in
  r <= i /\ (r = 0 \/ r = R + 1 \/ aget a r <> None) /\
  (forall j, r < j <= i -> aget a j = None).
Proof.
  intros a R i H r. destruct (scan_down_fuel_of a R i H) as [H1 [H2 H3]]. fold r in H1, H2, H3.
  split; [assumption|]. split.
  - apply unused_false_iff in H2. destruct H2 as [H2|[H2|H2]]; [tauto|right; left; lia|tauto].
  - intros j Hj. apply H3 in Hj. apply unused_true_iff in Hj. tauto.
Qed.

(* ------------------------------------------------------------------ *)
(* lowbit and the node arithmetic of the in-order complete tree         *)
(* ------------------------------------------------------------------ *)
Lemma lowbit_double : forall i, lowbit (2 * i) = 2 * lowbit i.
Proof. intros [|p]; reflexivity. Qed.

Lemma lowbit_odd : forall i, lowbit (2 * i + 1) = 1.
Proof. intros [|p]; reflexivity. Qed.

(* a node of height h: i = 2^h * (odd) *)
Definition node (h i : N) : Prop := exists j, i = 2 ^ h * (2 * j + 1).

Lemma lowbit_node : forall h j, lowbit (2 ^ h * (2 * j + 1)) = 2 ^ h.
Proof.
  induction h using N.peano_ind; intros j.
  - rewrite N.pow_0_r, N.mul_1_l. apply lowbit_odd.
  - rewrite N.pow_succ_r', <- N.mul_assoc, lowbit_double, IHh. reflexivity.
Qed.

Lemma node_lowbit : forall h i, node h i -> lowbit i = 2 ^ h.
Proof. intros h i [j ->]. apply lowbit_node. Qed.

Lemma node_exists : forall i, i <> 0 -> exists h, node h i.
Proof.
  intros [|p] H; [congruence|]. clear H. induction p as [p IH|p IH|].
  - exists 0, (Npos p). rewrite N.pow_0_r. lia.
  - destruct IH as [h [j Hj]]. exists (N.succ h), j. rewrite N.pow_succ_r'.
    change (N.pos p~0) with (2 * N.pos p). rewrite Hj. lia.
  - exists 0, 0. reflexivity.
Qed.

Lemma node_of_lowbit : forall i, i <> 0 -> node (N.log2 (lowbit i)) i.
Proof.
  intros i H. destruct (node_exists i H) as [h Hh].
  rewrite (node_lowbit _ _ Hh). rewrite N.log2_pow2 by lia. assumption.
Qed.

Lemma pow2_pos : forall h, 1 <= 2 ^ h.
Proof. intros h. pose proof (N.pow_nonzero 2 h). lia. Qed.

Lemma node_ge : forall h i, node h i -> 2 ^ h <= i.
Proof. intros h i [j ->]. pose proof (pow2_pos h). nia. Qed.

Lemma node_pos : forall h i, node h i -> i <> 0.
Proof. intros h i H. apply node_ge in H. pose proof (pow2_pos h). lia. Qed.

Lemma lowbit_bounds : forall i, i <> 0 -> 1 <= lowbit i <= i.
Proof.
  intros i H. destruct (node_exists i H) as [h Hh]. rewrite (node_lowbit _ _ Hh).
  split; [apply pow2_pos|apply node_ge; assumption].
Qed.

Lemma node_unique : forall h h' i, node h i -> node h' i -> h = h'.
Proof.
  intros h h' i H H'. apply node_lowbit in H. apply node_lowbit in H'.
  rewrite H in H'. apply N.pow_inj_r in H'; [assumption|lia].
Qed.

Lemma pow2_succ_half : forall h, 2 ^ N.succ h / 2 = 2 ^ h.
Proof. intros h. rewrite N.pow_succ_r', N.mul_comm. apply N.div_mul. lia. Qed.

Lemma it_left_node : forall h i, it_left (i, 2 ^ N.succ h) = (i - 2 ^ h, 2 ^ h).
Proof. intros. unfold it_left. rewrite pow2_succ_half. reflexivity. Qed.

Lemma it_right_node : forall h i, it_right (i, 2 ^ N.succ h) = (i + 2 ^ h, 2 ^ h).
Proof. intros. unfold it_right. rewrite pow2_succ_half. reflexivity. Qed.

Lemma node_left : forall h i, node (N.succ h) i -> node h (i - 2 ^ h).
Proof.
  intros h i [j ->]. exists (2 * j). rewrite N.pow_succ_r'. pose proof (pow2_pos h). nia.
Qed.

Lemma node_right : forall h i, node (N.succ h) i -> node h (i + 2 ^ h).
Proof.
  intros h i [j ->]. exists (2 * j + 1). rewrite N.pow_succ_r'. nia.
Qed.

(* children of a node, given through lowbit *)
Lemma it_left_of : forall h i, node (N.succ h) i -> it_left (it_of i) = it_of (i - 2 ^ h).
Proof.
  intros h i H. unfold it_of. rewrite (node_lowbit _ _ H), (node_lowbit _ _ (node_left _ _ H)).
  apply it_left_node.
Qed.

Lemma it_right_of : forall h i, node (N.succ h) i -> it_right (it_of i) = it_of (i + 2 ^ h).
Proof.
  intros h i H. unfold it_of. rewrite (node_lowbit _ _ H), (node_lowbit _ _ (node_right _ _ H)).
  apply it_right_node.
Qed.

(* the subtree of node (i, o) occupies [i - (o-1), i + (o-1)]; it splits into
   left subtree, i, right subtree *)
Lemma subtree_split : forall h i, node (N.succ h) i ->
  let o := 2 ^ N.succ h in let c := 2 ^ h in
  i - (o - 1) = (i - c) - (c - 1) /\ (i - c) + (c - 1) + 1 = i /\
  i + 1 = (i + c) - (c - 1) /\ (i + c) + (c - 1) = i + (o - 1) /\
  o = 2 * c /\ o <= i.
Proof.
  intros h i H o c. pose proof (node_ge _ _ H) as Hge. fold o in Hge.
  assert (o = 2 * c) by (unfold o, c; apply N.pow_succ_r').
  pose proof (pow2_pos h). fold c in H1. lia.
Qed.

(* a slot inside the subtree of a node is itself a node of smaller height whose subtree is inside *)
Lemma subtree_contains : forall h i p, node h i ->
  i - (2 ^ h - 1) <= p <= i + (2 ^ h - 1) ->
  lowbit p <= 2 ^ h /\ i - (2 ^ h - 1) <= p - (lowbit p - 1) /\ p + (lowbit p - 1) <= i + (2 ^ h - 1)
  /\ (p <> i -> lowbit p < 2 ^ h /\ (p + (lowbit p - 1) < i \/ i < p - (lowbit p - 1))).
Proof.
  induction h using N.peano_ind; intros i p Hn Hp.
  - rewrite N.pow_0_r in *. assert (p = i) by lia. subst p.
    rewrite (node_lowbit _ _ Hn). rewrite N.pow_0_r. lia.
  - destruct (subtree_split _ _ Hn) as [S1 [S2 [S3 [S4 [S5 S6]]]]].
    pose proof (pow2_pos h) as Hc.
    destruct (N.lt_trichotomy p i) as [L|[L|L]].
    + destruct (IHh (i - 2 ^ h) p (node_left _ _ Hn)) as [A1 [A2 [A3 A4]]]; [lia|].
      split; [lia|]. split; [lia|]. split; [lia|]. intros _. split; [lia|]. left. lia.
    + subst p. rewrite (node_lowbit _ _ Hn). split; [lia|]. split; [lia|]. split; [lia|].
      intros C; congruence.
    + destruct (IHh (i + 2 ^ h) p (node_right _ _ Hn)) as [A1 [A2 [A3 A4]]]; [lia|].
      split; [lia|]. split; [lia|]. split; [lia|]. intros _. split; [lia|]. right.
      assert (p <> 0) by lia. pose proof (lowbit_bounds p H). lia.
Qed.

(* root of a tree with R = 2^d - 1 slots *)
Lemma it_root_pow2 : forall d, it_root (2 ^ N.succ d - 1) = (2 ^ d, 2 ^ d).
Proof.
  intros d. unfold it_root.
  assert ((2 ^ N.succ d - 1) / 2 = 2 ^ d - 1).
  { rewrite N.pow_succ_r'. pose proof (pow2_pos d).
    symmetry. apply (N.div_unique _ 2 _ 1); lia. }
  rewrite H. pose proof (pow2_pos d). f_equal; lia.
Qed.

Lemma root_node : forall d, node d (2 ^ d).
Proof. intros d. exists 0. lia. Qed.

Lemma root_range : forall d,
  2 ^ d - (2 ^ d - 1) = 1 /\ 2 ^ d + (2 ^ d - 1) = 2 ^ N.succ d - 1.
Proof. intros d. rewrite N.pow_succ_r'. pose proof (pow2_pos d). lia. Qed.

Lemma it_is_leaf_node : forall h i, it_is_leaf (i, 2 ^ h) = (h =? 0).
Proof.
  intros h i. unfold it_is_leaf. cbn [snd]. destruct (h =? 0) eqn:E.
  - apply N.eqb_eq in E. subst. reflexivity.
  - apply N.eqb_neq in E. apply N.eqb_neq. intros C.
    assert (2 ^ 1 <= 2 ^ h) by (apply N.pow_le_mono_r; lia). rewrite N.pow_1_r in H. lia.
Qed.

(* ------------------------------------------------------------------ *)
(* it_parent / it_is_right_child on nodes (bit level)                  *)
(* ------------------------------------------------------------------ *)
Lemma N_parity_cases : forall j, (exists m, j = 2 * m) \/ (exists m, j = 2 * m + 1).
Proof.
  intros j. destruct (N.Even_or_Odd j) as [[m H]|[m H]]; [left|right]; exists m; assumption.
Qed.

Lemma testbit_node : forall h j n,
  N.testbit (2 ^ h * (2 * j + 1)) (n + h) = N.testbit (2 * j + 1) n.
Proof. intros. rewrite N.mul_comm. apply N.mul_pow2_bits_add. Qed.

Lemma land_pow2 : forall i k, N.land i (2 ^ k) = if N.testbit i k then 2 ^ k else 0.
Proof.
  intros i k. apply N.bits_inj. intros n. rewrite N.land_spec.
  destruct (N.eq_dec n k) as [->|Hne].
  - rewrite N.pow2_bits_true. destruct (N.testbit i k).
    + rewrite N.pow2_bits_true. reflexivity.
    + rewrite N.bits_0. reflexivity.
  - rewrite (N.pow2_bits_false k n) by congruence. rewrite andb_false_r.
    destruct (N.testbit i k); [rewrite N.pow2_bits_false by congruence|rewrite N.bits_0]; reflexivity.
Qed.

Lemma lor_pow2 : forall i k, N.lor i (2 ^ k) = if N.testbit i k then i else i + 2 ^ k.
Proof.
  intros i k. destruct (N.testbit i k) eqn:E.
  - apply N.bits_inj. intros n. rewrite N.lor_spec.
    destruct (N.eq_dec n k) as [->|Hne].
    + rewrite E. reflexivity.
    + rewrite N.pow2_bits_false by congruence. apply orb_false_r.
  - rewrite N.add_nocarry_lxor by (rewrite land_pow2, E; reflexivity).
    apply N.bits_inj. intros n. rewrite N.lor_spec, N.lxor_spec.
    destruct (N.eq_dec n k) as [->|Hne].
    + rewrite E, N.pow2_bits_true. reflexivity.
    + rewrite N.pow2_bits_false by congruence. rewrite orb_false_r, xorb_false_r. reflexivity.
Qed.

Lemma ldiff_pow2 : forall i k, N.ldiff i (2 ^ k) = if N.testbit i k then i - 2 ^ k else i.
Proof.
  intros i k. destruct (N.testbit i k) eqn:E.
  - symmetry. apply N.sub_nocarry_ldiff. apply N.bits_inj_0. intros n. rewrite N.ldiff_spec.
    destruct (N.eq_dec n k) as [->|Hne].
    + rewrite E. apply andb_false_r.
    + rewrite N.pow2_bits_false by congruence. reflexivity.
  - apply N.bits_inj. intros n. rewrite N.ldiff_spec.
    destruct (N.eq_dec n k) as [->|Hne].
    + rewrite E. reflexivity.
    + rewrite N.pow2_bits_false by congruence. apply andb_true_r.
Qed.

Lemma testbit_node_h : forall h j, N.testbit (2 ^ h * (2 * j + 1)) h = true.
Proof.
  intros h j. pose proof (testbit_node h j 0) as H. rewrite N.add_0_l in H. rewrite H.
  apply N.testbit_odd_0.
Qed.

Lemma testbit_node_succ : forall h j, N.testbit (2 ^ h * (2 * j + 1)) (N.succ h) = N.odd j.
Proof.
  intros h j. pose proof (testbit_node h j 1) as H. replace (1 + h) with (N.succ h) in H by lia.
  rewrite H. change 1 with (N.succ 0). rewrite N.testbit_odd_succ by lia. apply N.bit0_odd.
Qed.

(* a left child: i = 2^h (4m+1); its parent is i + 2^h *)
Lemma it_parent_of_left : forall h m, let i := 2 ^ h * (2 * (2 * m) + 1) in
  it_parent (i, 2 ^ h) = (i + 2 ^ h, 2 ^ N.succ h) /\ node (N.succ h) (i + 2 ^ h) /\
  N.land i (2 * 2 ^ h) = 0.
Proof.
  intros h m i. unfold it_parent. rewrite <- N.pow_succ_r'.
  assert (Hnode : i + 2 ^ h = 2 ^ N.succ h * (2 * m + 1)) by (unfold i; rewrite N.pow_succ_r'; lia).
  assert (Hx : N.ldiff i (2 ^ h) = 2 ^ N.succ h * (2 * m)).
  { rewrite ldiff_pow2. unfold i. rewrite testbit_node_h. rewrite N.pow_succ_r'. pose proof (pow2_pos h). nia. }
  split; [|split].
  - f_equal. rewrite Hx. rewrite lor_pow2.
    replace (N.testbit (2 ^ N.succ h * (2 * m)) (N.succ h)) with false.
    + rewrite Hnode. lia.
    + symmetry. pose proof (N.mul_pow2_bits_add (2 * m) (N.succ h) 0) as H. rewrite N.add_0_l in H.
      rewrite N.mul_comm, H. apply N.testbit_even_0.
  - exists m. assumption.
  - rewrite land_pow2. unfold i. rewrite testbit_node_succ.
    rewrite N.odd_mul, N.odd_2. reflexivity.
Qed.

(* a right child: i = 2^h (4m+3); its parent is i - 2^h *)
Lemma it_parent_of_right : forall h m, let i := 2 ^ h * (2 * (2 * m + 1) + 1) in
  it_parent (i, 2 ^ h) = (i - 2 ^ h, 2 ^ N.succ h) /\ node (N.succ h) (i - 2 ^ h) /\
  N.land i (2 * 2 ^ h) = 2 * 2 ^ h.
Proof.
  intros h m i. unfold it_parent. rewrite <- N.pow_succ_r'.
  pose proof (pow2_pos h) as Hp.
  assert (Hnode : i - 2 ^ h = 2 ^ N.succ h * (2 * m + 1)) by (unfold i; rewrite N.pow_succ_r'; nia).
  assert (Hx : N.ldiff i (2 ^ h) = 2 ^ N.succ h * (2 * m + 1)).
  { rewrite ldiff_pow2. unfold i. rewrite testbit_node_h. exact Hnode. }
  split; [|split].
  - f_equal. rewrite Hx. rewrite lor_pow2.
    pose proof (testbit_node_h (N.succ h) m) as H. rewrite H. symmetry. exact Hnode.
  - exists m. assumption.
  - rewrite land_pow2. unfold i. rewrite testbit_node_succ.
    replace (N.odd (2 * m + 1)) with true; [reflexivity|]. symmetry. rewrite N.add_comm, N.odd_add_mul_2. reflexivity.
Qed.

Lemma node_child_cases : forall h i, node h i ->
  (exists m, i = 2 ^ h * (2 * (2 * m) + 1)) \/ (exists m, i = 2 ^ h * (2 * (2 * m + 1) + 1)).
Proof.
  intros h i [j ->]. destruct (N_parity_cases j) as [[m ->]|[m ->]]; [left|right]; exists m; reflexivity.
Qed.

(* parent of a node, both cases at once *)
Lemma it_parent_node : forall h i, node h i ->
  snd (it_parent (i, 2 ^ h)) = 2 ^ N.succ h /\ node (N.succ h) (fst (it_parent (i, 2 ^ h))) /\
  ((fst (it_parent (i, 2 ^ h)) = i + 2 ^ h /\ N.land i (2 * 2 ^ h) = 0) \/
   (fst (it_parent (i, 2 ^ h)) = i - 2 ^ h /\ N.land i (2 * 2 ^ h) <> 0)).
Proof.
  intros h i Hn. destruct (node_child_cases h i Hn) as [[m ->]|[m ->]].
  - destruct (it_parent_of_left h m) as [A [B C]]. rewrite A. cbn [fst snd].
    split; [reflexivity|]. split; [assumption|]. left. split; [reflexivity|assumption].
  - destruct (it_parent_of_right h m) as [A [B C]]. rewrite A. cbn [fst snd].
    split; [reflexivity|]. split; [assumption|]. right. split; [reflexivity|].
    rewrite C. pose proof (pow2_pos h). lia.
Qed.

(* going to the parent and back *)
Lemma it_left_parent : forall h i, node h i -> N.land i (2 * 2 ^ h) = 0 ->
  it_left (it_parent (i, 2 ^ h)) = (i, 2 ^ h).
Proof.
  intros h i Hn Hl. destruct (it_parent_node h i Hn) as [A [B [[C _]|[_ C]]]]; [|congruence].
  destruct (it_parent (i, 2 ^ h)) as [pi po]. cbn [fst snd] in *. subst. rewrite it_left_node.
  f_equal. lia.
Qed.

Lemma it_right_parent : forall h i, node h i -> N.land i (2 * 2 ^ h) <> 0 ->
  it_right (it_parent (i, 2 ^ h)) = (i, 2 ^ h).
Proof.
  intros h i Hn Hl. destruct (it_parent_node h i Hn) as [A [B [[_ C]|[C _]]]]; [congruence|].
  destruct (it_parent (i, 2 ^ h)) as [pi po]. cbn [fst snd] in *. subst. rewrite it_right_node.
  f_equal. pose proof (node_ge _ _ Hn). lia.
Qed.

(* root test and depth for R = 2^(d+1) - 1 *)
Lemma it_is_root_pow2 : forall d h i, it_is_root (2 ^ N.succ d - 1) (i, 2 ^ h) = (h =? d).
Proof.
  intros d h i. unfold it_is_root.
  pose proof (it_root_pow2 d) as H. unfold it_root in H. injection H as _ H. cbn [snd]. rewrite H.
  destruct (h =? d) eqn:E.
  - apply N.eqb_eq in E. subst. apply N.eqb_refl.
  - apply N.eqb_neq in E. apply N.eqb_neq. intros C. apply N.pow_inj_r in C; [congruence|lia].
Qed.

Lemma it_depth_pow2 : forall d h i, h <= d -> it_depth (2 ^ N.succ d - 1) (i, 2 ^ h) = N.succ d - h.
Proof.
  intros d h i Hh. unfold it_depth. cbn [snd]. pose proof (pow2_pos (N.succ d)).
  replace (2 ^ N.succ d - 1 + 1) with (2 ^ N.succ d) by lia.
  replace (N.succ d) with ((N.succ d - h) + h) at 1 by lia.
  rewrite N.pow_add_r, N.div_mul by (apply N.pow_nonzero; lia). apply N.log2_pow2. lia.
Qed.

Lemma it_is_right_child_node : forall d h i, h <> d ->
  it_is_right_child (2 ^ N.succ d - 1) (i, 2 ^ h) = negb (N.land i (2 * 2 ^ h) =? 0).
Proof.
  intros d h i Hne. unfold it_is_right_child. rewrite it_is_root_pow2.
  destruct (h =? d) eqn:E; [apply N.eqb_eq in E; congruence|]. reflexivity.
Qed.

(* count_used_in_subtree is the length of the corresponding window of used_from *)
Lemma count_used_in_subtree_length : forall a it,
  count_used_in_subtree a it =
  N.of_nat (length (used_from (N.to_nat (2 * snd it - 1)) a (fst it - (snd it - 1)))).
Proof. intros a it. unfold count_used_in_subtree. symmetry. apply used_from_length_count. Qed.

Lemma abs_tree_length_count : forall t,
  N.of_nat (length (abs_tree t)) = count_used (N.to_nat (t_rsz t)) (t_arr t) 1.
Proof. intros t. unfold abs_tree. apply used_from_length_count. Qed.
