(* C16 -- abstract rows: a size and a coefficient function nat -> Z (zero outside the size).
   Every operation of Dense_Row / Sparse_Row / Linear_Expression_Impl<Row> modelled in Dense.v and
   Sparse.v is specified here coefficient-wise; observations are functions of the coefficients only. *)
From Coq Require Import ZArith List Lia Bool Arith.
Import ListNotations.
Local Open Scope Z_scope.

Record arow := mkA { asize : nat; acoef : nat -> Z }.

Definition aeq (x y : arow) : Prop := asize x = asize y /\ forall i, acoef x i = acoef y i.
Definition awf (x : arow) : Prop := forall i, (asize x <= i)%nat -> acoef x i = 0.

Definition inr (first last i : nat) : bool := (first <=? i)%nat && (i <? last)%nat.

(* ---- mutators ---- *)
Definition a_zero (n : nat) : arow := mkA n (fun _ => 0).
Definition a_set (i : nat) (v : Z) (x : arow) : arow :=
  mkA (asize x) (fun j => if (j =? i)%nat then v else acoef x j).
Definition a_add (i : nat) (v : Z) (x : arow) : arow :=
  mkA (asize x) (fun j => if (j =? i)%nat then acoef x j + v else acoef x j).
Definition a_swap (i j : nat) (x : arow) : arow :=
  mkA (asize x) (fun k => if (k =? i)%nat then acoef x j else if (k =? j)%nat then acoef x i else acoef x k).
Definition a_shift (i n : nat) (x : arow) : arow :=      (* add_zeroes_and_shift(n, i) *)
  mkA (asize x + n) (fun j => if (j <? i)%nat then acoef x j else if (j <? i + n)%nat then 0 else acoef x (j - n)).
Definition a_delete (i : nat) (x : arow) : arow :=       (* delete_element_and_shift(i) *)
  mkA (asize x - 1) (fun j => if (j <? i)%nat then acoef x j else acoef x (S j)).
Definition a_resize (n : nat) (x : arow) : arow :=
  mkA n (fun j => if (j <? n)%nat then acoef x j else 0).
Definition a_map_range (f : Z -> Z) (first last : nat) (x : arow) : arow :=
  mkA (asize x) (fun j => if inr first last j then f (acoef x j) else acoef x j).
Definition a_combine (c1 c2 : Z) (first last : nat) (x y : arow) : arow :=   (* linear_combine on [first,last) *)
  mkA (asize x) (fun j => if inr first last j then c1 * acoef x j + c2 * acoef y j else acoef x j).
(* remove_space_dimensions: vars = increasing list of row indexes to drop; highest first *)
Definition a_remove (vars : list nat) (x : arow) : arow := fold_left (fun r v => a_delete v r) (rev vars) x.
(* permute_space_dimensions: the code is a sequence of swaps along the cycle *)
Fixpoint cycle_swaps (c : list nat) : list (nat * nat) :=
  match c with
  | a :: ((b :: _) as r) => cycle_swaps r ++ [(b, a)]
  | _ => []
  end.
Definition a_permute (c : list nat) (x : arow) : arow :=
  fold_left (fun r p => a_swap (fst p) (snd p) r) (cycle_swaps c) x.

(* gcd of the coefficients with index in [first,last) (0 if all are zero) *)
Definition a_gcd (first last : nat) (x : arow) : Z :=
  fold_left (fun g i => Z.gcd g (acoef x i)) (seq first (last - first)) 0.
Definition a_normalize (x : arow) : arow :=
  let g := a_gcd 0 (asize x) x in
  if (g =? 0) || (g =? 1) then x else mkA (asize x) (fun j => acoef x j / g).
(* first index in [first,last) with a nonzero coefficient, else last *)
Definition a_first_nonzero (first last : nat) (x : arow) : nat :=
  match find (fun i => negb (acoef x i =? 0)) (seq first (last - first)) with Some i => i | None => last end.
Definition a_last_nonzero (first last : nat) (x : arow) : nat :=
  match find (fun i => negb (acoef x i =? 0)) (rev (seq first (last - first))) with Some i => i | None => last end.
Definition a_sign_normalize (x : arow) : arow :=
  let i := a_first_nonzero 1 (asize x) x in
  if (i <? asize x)%nat && (acoef x i <? 0) then mkA (asize x) (fun j => - acoef x j) else x.

(* ---- observers ---- *)
Definition a_get (i : nat) (x : arow) : Z := acoef x i.
Definition a_all_zeroes (first last : nat) (x : arow) : bool :=
  forallb (fun i => acoef x i =? 0) (seq first (last - first)).
Definition a_num_zeroes (first last : nat) (x : arow) : nat :=
  length (filter (fun i => acoef x i =? 0) (seq first (last - first))).
Definition a_last_nonzero_all (x : arow) : nat :=     (* last_nonzero(): 0 if none *)
  match find (fun i => negb (acoef x i =? 0)) (rev (seq 0 (asize x))) with Some i => i | None => 0%nat end.
Definition a_scalar_product (first last : nat) (x y : arow) : Z :=
  fold_left (fun s i => s + acoef x i * acoef y i) (seq first (last - first)) 0.
Definition a_is_equal (x y : arow) : bool :=
  (asize x =? asize y)%nat && forallb (fun i => acoef x i =? acoef y i) (seq 0 (asize x)).
Definition a_is_equal_range (first last : nat) (x y : arow) : bool :=
  forallb (fun i => acoef x i =? acoef y i) (seq first (last - first)).
(* Linear_Expression_Impl::compare: lexicographic on the homogeneous part (possibly different sizes),
   then the inhomogeneous term; results -2,-1,0,1,2 *)
Definition a_compare (x y : arow) : Z :=
  let n := Nat.max (asize x) (asize y) in
  match find (fun i => negb (acoef x i =? acoef y i)) (seq 1 (n - 1)) with
  | Some i => if acoef x i <? acoef y i then -2 else 2
  | None => match acoef x 0 ?= acoef y 0 with Lt => -1 | Gt => 1 | Eq => 0 end
  end.
(* iteration over the expression: nonzero homogeneous coefficients in increasing index order *)
Definition a_iter (x : arow) : list (nat * Z) :=
  map (fun i => (i, acoef x i)) (filter (fun i => negb (acoef x i =? 0)) (seq 1 (asize x - 1))).
