(* C16 -- the iterator returned by CO_Tree::erase(key) is the lower-bound position of key
   in the new tree (first used slot with a larger-or-equal key, end() if none). *)
From Coq Require Import ZArith NArith List Lia Bool FMapPositive Sorted.
Import ListNotations.
Require Import PPLV.gen.Facts_COTree PPLV.Rows.COTree PPLV.Rows.COTreeSpec PPLV.Rows.COTreeBase
               PPLV.Rows.COTreeSearch PPLV.Rows.COTreeStatic PPLV.Rows.COTreeUpdate.
Local Open Scope N_scope.

(* ------------------------------------------------------------------ *)
(* rebalance in delete mode climbs at least one level from an empty    *)
(* subtree unless it starts at the root                                *)
(* ------------------------------------------------------------------ *)
Lemma climb_snd_ge : forall f a R md it ss sres d1,
  snd it <= snd (fst (climb f a R md it ss sres d1)).
Proof.
  induction f; intros a R md it ss sres d1; cbn [climb]; [cbn [fst]; lia|].
  destruct (reb_cond ss sres d1 md && negb (d1 =? 0)); [|cbn [fst]; lia].
  eapply N.le_trans; [|apply IHf]. destruct it as [i o]. cbn [it_parent snd]. lia.
Qed.

Lemma climb_first_step : forall f a R md it ss sres d1,
  reb_cond ss sres d1 md && negb (d1 =? 0) = true ->
  2 * snd it <= snd (fst (climb (S f) a R md it ss sres d1)).
Proof.
  intros f a R md it ss sres d1 H. cbn [climb]. rewrite H.
  eapply N.le_trans; [|apply climb_snd_ge]. destruct it as [i o]. cbn [it_parent snd]. lia.
Qed.

Lemma climb_no_step : forall f a R md it ss sres d1,
  reb_cond ss sres d1 md && negb (d1 =? 0) = false ->
  climb (S f) a R md it ss sres d1 = (it, ss).
Proof. intros f a R md it ss sres d1 H. cbn [climb]. rewrite H. reflexivity. Qed.

Lemma reb_cond_empty : forall sres d1 md, 2 <= md -> d1 <= md - 1 -> 1 <= sres ->
  reb_cond 0 sres d1 md = true.
Proof.
  intros sres d1 md Hmd Hd Hs. unfold reb_cond.
  destruct density_constants_ok as [_ [_ [C3 C4]]].
  set (m := min_density_percent) in *. set (l := min_leaf_density_percent) in *.
  assert (Hq : d1 * (m - l) / (md - 1) <= m - l).
  { apply N.div_le_upper_bound; [lia|]. apply N.mul_le_mono_r. assumption. }
  apply orb_true_iff. right. unfold lt_ratio. apply N.ltb_lt.
  set (q := d1 * (m - l) / (md - 1)) in *. clearbody q.
  assert (1 <= m - q) by lia. nia.
Qed.

Lemma rebalance_it : forall fR a R md it key val, R <> 3 ->
  snd (rebalance fR a R md it key val) =
  fst (climb (S (N.to_nat md)) a R md it
         (if match aget a (fst it) with None => true | Some _ => false end then 0 else 2)
         (2 ^ (md - (it_depth R it - 1)) - 1) (it_depth R it - 1)).
Proof.
  intros fR a R md it key val H3. unfold rebalance.
  destruct (R =? 3) eqn:E; [apply N.eqb_eq in E; congruence|]. cbv zeta.
  destruct (climb _ _ _ _ _ _ _ _) as [it' ss].
  destruct (compact _ _ _ _ _ _ _ _) as [a1 fu].
  destruct (redis _ _ _ _ _ _ _) as [[a2 x] y]. reflexivity.
Qed.

(* in delete mode, from an empty node: the returned subtree root is strictly higher, or we are at the root *)
Lemma rebalance_delete_climbs : forall fR a md h i key val,
  2 <= md -> 2 ^ md - 1 <> 3 -> h < md -> aget a i = None ->
  snd (snd (rebalance fR a (2 ^ md - 1) md (i, 2 ^ h) key val)) = 2 ^ h -> h = md - 1.
Proof.
  intros fR a md h i key val Hmd H3 Hh Hnone Hsnd.
  rewrite rebalance_it in Hsnd by assumption. cbn [fst] in Hsnd. rewrite Hnone in Hsnd.
  rewrite it_depth_node in Hsnd by lia.
  set (d1 := md - h - 1) in *.
  destruct (reb_cond 0 (2 ^ (md - d1) - 1) d1 md && negb (d1 =? 0)) eqn:E.
  - pose proof (climb_first_step (N.to_nat md) a (2 ^ md - 1) md (i, 2 ^ h) 0 (2 ^ (md - d1) - 1) d1 E) as H.
    rewrite Hsnd in H. cbn [snd] in H. pose proof (pow2_pos h). lia.
  - rewrite reb_cond_empty in E.
    + cbn [andb] in E. apply negb_false_iff in E. apply N.eqb_eq in E. unfold d1 in E. lia.
    + assumption.
    + unfold d1. lia.
    + assert (2 ^ 1 <= 2 ^ (md - d1)) by (apply N.pow_le_mono_r; unfold d1; lia).
      rewrite N.pow_1_r in H. lia.
Qed.

(* ------------------------------------------------------------------ *)
(* rebalance after clearing the hole                                   *)
(* ------------------------------------------------------------------ *)
Lemma rebalance_delete_post : forall a3 R md h2 i2,
  2 <= md -> R = 2 ^ md - 1 -> in_range_a a3 R -> shape_a a3 R ->
  node h2 i2 -> i2 + (2 ^ h2 - 1) <= R -> h2 < md -> aget a3 i2 = None ->
  (forall h' i', node h' i' -> h2 < h' -> i' - (2 ^ h' - 1) <= i2 <= i' + (2 ^ h' - 1) ->
                 i' <= R -> aget a3 i' <> None) ->
  let '(a4, it4) := rebalance (fuel_of R) a3 R md (i2, 2 ^ h2) 0 0%Z in
  seg a4 1 R = seg a3 1 R /\ in_range_a a4 R /\ shape_a a4 R /\
  exists h4 i4, it4 = (i4, 2 ^ h4) /\ node h4 i4 /\ h2 <= h4 < md /\ i4 + (2 ^ h4 - 1) <= R /\
    i4 - (2 ^ h4 - 1) <= i2 - (2 ^ h2 - 1) /\ i2 + (2 ^ h2 - 1) <= i4 + (2 ^ h4 - 1) /\
    (forall j, j < i4 - (2 ^ h4 - 1) \/ i4 + (2 ^ h4 - 1) < j -> aget a4 j = aget a3 j) /\
    (aget a4 i4 <> None \/ forall j, in_sub h4 i4 j -> aget a4 j = None) /\
    (h4 = h2 -> h2 = md - 1).
Proof.
  intros a3 R md h2 i2 Hmd HR Hr3 Hsh3 Hn2 Hhi2 Hh2 Hnone Hanc.
  pose proof (node_ge _ _ Hn2) as Hge2. pose proof (pow2_pos h2) as Hp2.
  destruct (N.eq_dec R 3) as [E3|E3].
  - assert (HR' := HR). rewrite E3 in HR'. clear HR. subst R. rewrite rebalance_R3.
    assert (md = 2).
    { assert (2 ^ md = 2 ^ 2) by (change (2 ^ 2) with 4; pose proof (pow2_pos md); lia).
      apply N.pow_inj_r in H; [assumption|lia]. }
    subst md.
    split; [reflexivity|]. split; [assumption|]. split; [assumption|].
    exists 1, 2. change (it_root 3) with (2, 2 ^ 1). change (2 ^ 1) with 2.
    split; [reflexivity|]. split; [exists 0; reflexivity|]. split; [lia|]. split; [lia|].
    split; [lia|]. split; [lia|]. split; [reflexivity|]. split; [|lia].
    destruct (aget a3 2) eqn:E2; [left; congruence|right].
    intros j Hj. unfold in_sub in Hj. change (2 ^ 1) with 2 in Hj.
    apply (Hsh3 2 j); [lia|assumption|]. change (lowbit 2) with 2. lia.
  - pose proof (rebalance_spec a3 R md h2 i2 0 0%Z Hmd HR E3 Hr3 Hsh3 Hn2 Hhi2 Hh2 Hanc) as RS.
    assert (Hvac : aget a3 i2 <> None ->
              h2 = 0 /\ psorted a3 /\ key_at a3 i2 <> 0 /\
              (forall p, p < i2 -> aget a3 p <> None -> key_at a3 p < 0) /\
              (forall p, i2 < p -> aget a3 p <> None -> 0 < key_at a3 p) /\
              len (seg a3 1 R) + 1 <= R) by (intros C; congruence).
    specialize (RS Hvac).
    destruct (rebalance (fuel_of R) a3 R md (i2, 2 ^ h2) 0 0%Z) as [a4 it4] eqn:Er.
    rewrite Hnone in RS. destruct RS as [A [B [C [h4 [i4 [E [Hn4 [Hh4 [Hhi4 [L1 [L2 [Out D]]]]]]]]]]]].
    split; [assumption|]. split; [assumption|]. split; [assumption|].
    exists h4, i4. split; [exact E|]. split; [exact Hn4|]. split; [exact Hh4|]. split; [exact Hhi4|].
    split; [exact L1|]. split; [exact L2|]. split; [exact Out|]. split; [exact D|].
    intros Eh. subst R.
    apply (rebalance_delete_climbs (fuel_of (2 ^ md - 1)) a3 md h2 i2 0 0%Z); try assumption.
    rewrite Er. cbn [snd]. rewrite E. cbn [snd]. congruence.
Qed.

(* ------------------------------------------------------------------ *)
(* small helpers                                                       *)
(* ------------------------------------------------------------------ *)
Lemma root_node_unique : forall md h i, 1 <= md -> node h i -> h = md - 1 ->
  i + (2 ^ h - 1) <= 2 ^ md - 1 ->
  i - (2 ^ h - 1) = 1 /\ i + (2 ^ h - 1) = 2 ^ md - 1.
Proof.
  intros md h i Hmd [j Hj] Hh Hhi.
  assert (H2 : 2 ^ md = 2 * 2 ^ h) by (replace md with (N.succ h) by lia; apply N.pow_succ_r').
  pose proof (pow2_pos h). assert (j = 0) by nia. subst j. lia.
Qed.

Lemma seg_mid_len : forall a b lo hi R, 1 <= lo -> lo <= hi + 1 -> hi <= R ->
  (forall j, j < lo \/ hi < j -> aget a j = aget b j) ->
  seg a 1 R = seg b 1 R -> len (seg a lo hi) = len (seg b lo hi).
Proof.
  intros a b lo hi R H1 H2 H3 Hout Heq.
  assert (D : forall x, seg x 1 R = seg x 1 (lo - 1) ++ (seg x lo hi ++ seg x (hi + 1) R)).
  { intros x. rewrite (seg_app x 1 (lo - 1) R) by lia. replace (lo - 1 + 1) with lo by lia.
    rewrite (seg_app x lo hi R) by lia. reflexivity. }
  rewrite (D a), (D b) in Heq.
  rewrite (seg_ext a b 1 (lo - 1)) in Heq by (intros j Hj; apply Hout; lia).
  rewrite (seg_ext a b (hi + 1) R) in Heq by (intros j Hj; apply Hout; lia).
  apply (f_equal len) in Heq. rewrite !len_app in Heq. lia.
Qed.

Lemma pow2_lt_inv : forall x y, 2 ^ x < 2 ^ y -> x < y.
Proof. intros x y H. apply (N.pow_lt_mono_r_iff 2); [lia|assumption]. Qed.
Lemma pow2_le_inv : forall x y, 2 ^ x <= 2 ^ y -> x <= y.
Proof. intros x y H. apply (N.pow_le_mono_r_iff 2); [lia|assumption]. Qed.

(* ------------------------------------------------------------------ *)
(* erase_tail returns the lower-bound position of the erased key       *)
(* ------------------------------------------------------------------ *)
Lemma erase_tail_lb : forall t i, inv t -> 2 <= t_size t -> aget (t_arr t) i <> None ->
  lb_pos (fst (erase_tail t (i, lowbit i))) (key_at (t_arr t) i)
         (snd (erase_tail t (i, lowbit i))).
Proof.
  intros t i Hinv Hsz Ui.
  pose proof (erase_tail_refines t i Hinv Hsz Ui) as [_ Hinv'].
  destruct (inv_nonempty_depth t Hinv) as [Hmd HR]; [lia|].
  pose proof Hinv as [Hr [Hsh [Hso _]]].
  pose proof (sorted_abs_psorted t Hr Hso) as Hps.
  destruct (node_exists i (aget_used_pos _ _ Ui)) as [h Hn].
  pose proof (node_lowbit _ _ Hn) as Hlb.
  pose proof (Hr i Ui) as Ri.
  destruct (node_in_tree (t_depth t) h i) as [Hh Hhi]; [lia|assumption|rewrite <- HR; lia|].
  rewrite <- HR in Hhi.
  revert Hinv'. unfold erase_tail. rewrite Hlb. cbn [fst snd].
  set (a := t_arr t) in *. set (R := t_rsz t) in *. set (md := t_depth t) in *.
  assert (Hfuel : forall x, x < md -> (N.to_nat x < fuel_of R)%nat).
  { intros x Hx. unfold fuel_of. rewrite HR. pose proof (N.pow_gt_lin_r 2 md). lia. }
  pose proof (hole_down_fuel_of a R h i Hr Hsh Hn Hhi Ui) as HD.
  destruct (hole_down (fuel_of R) (fuel_of R) a R (i, 2 ^ h)) as [a2 it2].
  destruct HD as [h2 [i2 [E2 [Hn2 [Hh2 [Hlo2 [Hhi2 [Hsame [Hget2 [Hrest2 [Hseg2 [Hr2 [Hsh2 Hout2]]]]]]]]]]]]].
  subst it2. cbn [fst snd].
  set (a3 := aclr a2 i2).
  pose proof (node_ge _ _ Hn) as Hge. pose proof (node_ge _ _ Hn2) as Hge2.
  pose proof (pow2_pos h) as Hp. pose proof (pow2_pos h2) as Hp2.
  assert (Hnone3 : aget a3 i2 = None) by apply aget_aclr_same.
  assert (A3o : forall j, j <> i2 -> aget a3 j = aget a2 j)
    by (intros j Hj; apply aget_aclr_other; congruence).
  assert (Ui2 : aget a2 i2 <> None) by (rewrite Hget2; assumption).
  assert (Hr3 : in_range_a a3 R).
  { intros j Hj. apply Hr2. destruct (N.eq_dec j i2) as [->|Hne]; [congruence|].
    rewrite <- A3o by assumption. assumption. }
  assert (Hsh3 : shape_a a3 R).
  { intros x j Hx Hnx Hj. destruct (N.eq_dec j i2) as [->|Hne]; [assumption|].
    rewrite A3o by assumption. destruct (N.eq_dec x i2) as [->|Hnx2].
    - apply Hrest2; [|assumption]. rewrite (node_lowbit _ _ Hn2) in Hj. assumption.
    - rewrite A3o in Hnx by assumption. apply (Hsh2 x j); assumption. }
  assert (Hanc : forall h' i', node h' i' -> h2 < h' -> i' - (2 ^ h' - 1) <= i2 <= i' + (2 ^ h' - 1) ->
                   i' <= R -> aget a3 i' <> None).
  { intros h' i' Hn' Hlt Hin HiR.
    assert (i' <> i2) by (intros ->; pose proof (node_unique _ _ _ Hn' Hn2); lia).
    rewrite A3o by assumption. intros C. apply Ui2.
    apply (Hsh2 i' i2); [pose proof (node_pos _ _ Hn'); lia|assumption|].
    rewrite (node_lowbit _ _ Hn'). assumption. }
  pose proof (rebalance_delete_post a3 R md h2 i2 Hmd HR Hr3 Hsh3 Hn2 ltac:(lia) ltac:(lia) Hnone3 Hanc) as POST.
  destruct (rebalance (fuel_of R) a3 R md (i2, 2 ^ h2) 0 0%Z) as [a4 it4].
  destruct POST as [Seg4 [Hr4 [Hsh4 [h4 [i4 [E4 [Hn4 [Hh4 [Hhi4 [L1 [L2 [Out4 [D4 Hroot]]]]]]]]]]]]].
  subst it4. cbn [fst snd]. intros Hinv'.
  pose proof Hinv' as [Hr' [_ [Hso' [Hlen' _]]]].
  pose proof (sorted_abs_psorted _ Hr' Hso') as Hps4. cbn [t_arr] in Hps4.
  pose proof (node_ge _ _ Hn4) as Hge4. pose proof (pow2_pos h4) as Hp4.
  (* the root of the rebalanced subtree is used *)
  assert (Used4 : aget a4 i4 <> None).
  { destruct D4 as [D4|D4]; [assumption|]. exfalso.
    destruct (N.eq_dec h4 h2) as [Eh|Eh].
    - specialize (Hroot Eh).
      destruct (root_node_unique md h4 i4) as [Q1 Q2]; [lia|assumption|lia|rewrite <- HR; assumption|].
      cbn [t_size] in Hlen'.
      destruct (abs_tree {| t_arr := a4; t_rsz := R; t_depth := md; t_size := t_size t - 1 |}) as [|e l] eqn:Eabs;
        [cbn in Hlen'; lia|].
      assert (Hin : In e (abs_tree {| t_arr := a4; t_rsz := R; t_depth := md; t_size := t_size t - 1 |}))
        by (rewrite Eabs; left; reflexivity).
      apply in_abs_tree in Hin. cbn [t_arr t_rsz] in Hin. destruct Hin as [p [Hq1 Hq2]].
      rewrite D4 in Hq2; [discriminate|]. unfold in_sub. rewrite Q1, Q2, <- HR. assumption.
    - assert (U3 : aget a3 i4 <> None) by (apply (Hanc h4 i4); [assumption|lia|lia|lia]).
      pose proof (seg_mid_len a4 a3 (i4 - (2 ^ h4 - 1)) (i4 + (2 ^ h4 - 1)) R ltac:(lia) ltac:(lia) Hhi4 Out4 Seg4) as HL.
      rewrite (seg_nil a4) in HL by (intros j Hj; apply D4; exact Hj).
      destruct (aget a3 i4) as [e3|] eqn:E3; [|congruence].
      assert (In e3 (seg a3 (i4 - (2 ^ h4 - 1)) (i4 + (2 ^ h4 - 1))))
        by (apply in_seg; exists i4; split; [lia|assumption]).
      destruct (seg a3 (i4 - (2 ^ h4 - 1)) (i4 + (2 ^ h4 - 1))); [destruct H|].
      rewrite len_nil, len_cons in HL. lia. }
  (* outside both subtrees the final array is the original one *)
  assert (Hold : forall p, p < i - (2 ^ h - 1) \/ i + (2 ^ h - 1) < p ->
                           p < i4 - (2 ^ h4 - 1) \/ i4 + (2 ^ h4 - 1) < p -> aget a4 p = aget a p).
  { intros p H1 H2. rewrite Out4 by assumption. rewrite A3o by lia. apply Hout2. assumption. }
  assert (Hbr : forall p, p < i - (2 ^ h - 1) \/ i + (2 ^ h - 1) < p ->
                          p < i4 - (2 ^ h4 - 1) \/ i4 + (2 ^ h4 - 1) < p -> aget a4 p <> None ->
                          (p < i -> key_at a4 p < key_at a i) /\ (i < p -> key_at a i < key_at a4 p)).
  { intros p H1 H2 Up. pose proof (Hold p H1 H2) as Eq. rewrite (key_at_ext _ _ _ Eq).
    rewrite Eq in Up. split; intros L; apply Hps; assumption. }
  assert (Hin2 : in_sub h4 i4 i2 /\ in_sub h i i2) by (unfold in_sub; lia).
  destruct Hin2 as [Hin24 Hin2].
  assert (G : gd_post a4 R (key_at a i)
                (go_down (fuel_of R) a4 R (if 2 ^ h4 <? 2 ^ h then (i, 2 ^ h) else (i4, 2 ^ h4)) (key_at a i))).
  { destruct (2 ^ h4 <? 2 ^ h) eqn:E5.
    - apply N.ltb_lt in E5. apply pow2_lt_inv in E5.
      destruct (sub_laminar h4 i4 h i i2 Hn4 Hn ltac:(lia) Hin24 Hin2) as [Q1 Q2].
      assert (Inot : i < i4 - (2 ^ h4 - 1) \/ i4 + (2 ^ h4 - 1) < i).
      { destruct (N.lt_ge_cases i (i4 - (2 ^ h4 - 1))) as [L|L]; [left; assumption|].
        destruct (N.lt_ge_cases (i4 + (2 ^ h4 - 1)) i) as [L'|L']; [right; assumption|]. exfalso.
        destruct (subtree_contains h4 i4 i Hn4) as [B1 _]; [lia|]. rewrite Hlb in B1.
        apply pow2_le_inv in B1. lia. }
      apply (go_down_inv a4 R Hsh4 Hps4); [assumption|apply Hfuel; assumption| | | |assumption].
      + rewrite Out4 by assumption. rewrite A3o by (unfold in_sub in Hin24; lia).
        intros C. apply Ui. apply Hsame. assumption.
      + intros p Hp0 Up. apply (Hbr p); [left; assumption|left; lia|assumption|lia].
      + intros p Hp0 Up. apply (Hbr p); [right; assumption|right; lia|assumption|lia].
    - apply N.ltb_ge in E5. apply pow2_le_inv in E5.
      destruct (sub_laminar h i h4 i4 i2 Hn Hn4 E5 Hin2 Hin24) as [Q1 Q2].
      apply (go_down_inv a4 R Hsh4 Hps4); [assumption|apply Hfuel; lia|assumption| | |assumption].
      + intros p Hp0 Up. apply (Hbr p); [left; lia|left; assumption|assumption|lia].
      + intros p Hp0 Up. apply (Hbr p); [right; lia|right; assumption|assumption|lia]. }
  apply gd_post_near in G.
  exact (near_pos_lb {| t_arr := a4; t_rsz := R; t_depth := md; t_size := t_size t - 1 |}
           (key_at a i) _ Hr' Hso' G).
Qed.

(* ------------------------------------------------------------------ *)
(* erase(iterator) and erase(key)                                      *)
(* ------------------------------------------------------------------ *)
Lemma lb_pos_empty_tree : forall k, lb_pos empty_tree k 1.
Proof.
  intros k. split; [left; reflexivity|]. intros q _ U. exfalso. apply U. apply aget_empty.
Qed.

Lemma erase_it_lb : forall t it, inv t -> aget (t_arr t) (fst it) <> None -> snd it = lowbit (fst it) ->
  lb_pos (fst (erase_it t it)) (key_at (t_arr t) (fst it)) (snd (erase_it t it)).
Proof.
  intros t [i o] Hinv Ui Ho. cbn [fst snd] in *. subst o. rewrite erase_it_eq.
  destruct (t_size t =? 1) eqn:E1; [apply lb_pos_empty_tree|]. apply N.eqb_neq in E1.
  assert (Hs0 : t_size t <> 0).
  { intros C. destruct (inv_size0_no_used t Hinv C) as [_ Hn]. apply Ui. apply Hn. }
  assert (Hsz : 2 <= t_size t) by lia.
  destruct (lt_ratio (t_size t - 1) (t_rsz t) min_density_percent &&
            negb (gt_ratio (t_size t - 1) (t_rsz t / 2) max_density_percent)) eqn:Ec.
  - cbv zeta. cbn [fst snd]. set (key := key_at (t_arr t) i).
    apply andb_true_iff in Ec. destruct Ec as [_ Ec]. apply negb_true_iff in Ec.
    unfold gt_ratio, max_density_percent in Ec. apply N.ltb_ge in Ec.
    destruct (inv_nonempty t Hinv) as [d [HR [Hd Hd1]]]; [lia|].
    assert (Hd2 : 2 <= d).
    { destruct (N.eq_dec d 1) as [->|Hne]; [|lia]. exfalso. rewrite HR in Ec.
      change ((2 ^ N.succ 1 - 1) / 2) with 1 in Ec. lia. }
    assert (Hdd : d = N.succ (N.pred d)) by (symmetry; apply N.succ_pred; lia).
    set (d' := N.pred d) in *. assert (Hd' : 1 <= d') by lia. clearbody d'. subst d.
    rewrite HR, half_rsz in Ec. pose proof (pow2_pos (N.succ d')) as Hp.
    assert (2 ^ 1 <= 2 ^ N.succ d') by (apply N.pow_le_mono_r; lia). rewrite N.pow_1_r in H.
    assert (Hle : t_size t <= 2 ^ N.succ d' - 1) by lia.
    destruct (rebuild_smaller_inv t d' Hinv ltac:(lia) Hd' HR Hle) as [Hinv' Habs].
    pose proof Hinv as [Hr [_ [Hso [Hlen _]]]].
    destruct (rebuild_smaller_spec t d' HR) as [_ [_ [_ [Hsz' _]]]]; [rewrite Hlen; assumption|].
    rewrite Hlen in Hsz'.
    set (t' := rebuild_smaller t) in *.
    assert (Hs' : 0 < t_size t') by lia.
    pose proof (go_down_spec t' key Hinv' Hs') as [U1 [S1 _]].
    assert (K1 : key_at (t_arr t') (fst (root_search t' key)) = key).
    { apply (root_search_found_iff t' key Hinv' Hs'). rewrite Habs.
      assert (m_find key (abs_tree t) = Some (dat_at (t_arr t) i)).
      { apply m_find_abs_some; try assumption. exists i. apply aget_key_dat. assumption. }
      congruence. }
    destruct (root_search t' key) as [i1 o1]. cbn [fst snd] in *. subst o1.
    rewrite <- K1. apply erase_tail_lb; [assumption|lia|assumption].
  - apply erase_tail_lb; assumption.
Qed.

Theorem erase_key_lb : forall t k, inv t -> lb_pos (fst (erase_key t k)) k (snd (erase_key t k)).
Proof.
  intros t k Hinv. unfold erase_key. destruct (t_size t =? 0) eqn:E0.
  - apply N.eqb_eq in E0. cbn [fst snd]. destruct (inv_size0_no_used t Hinv E0) as [_ Hn].
    split; [left; reflexivity|]. intros q _ U. rewrite Hn in U. congruence.
  - apply N.eqb_neq in E0. assert (Hs : 0 < t_size t) by lia. cbv zeta.
    destruct (key_at (t_arr t) (fst (root_search t k)) =? k) eqn:Ek.
    + apply N.eqb_eq in Ek. destruct (go_down_spec t k Hinv Hs) as [U [S _]].
      pose proof (erase_it_lb t (root_search t k) Hinv U S) as H. rewrite Ek in H. exact H.
    + cbn [fst snd]. apply root_search_lb; assumption.
Qed.

(* consequence: erase_element_and_shift_left refines m_erase_shift *)
Theorem erase_element_and_shift_left_refines : forall t k, inv t ->
  abs_tree (erase_element_and_shift_left t k) = m_erase_shift k (abs_tree t) /\
  inv (erase_element_and_shift_left t k).
Proof.
  intros t k Hinv. rewrite erase_element_and_shift_left_unfold.
  destruct (erase_key_refines t k Hinv) as [Habs Hinv'].
  pose proof (erase_key_lb t k Hinv) as Hlb.
  assert (Habsent : forall q, aget (t_arr (fst (erase_key t k))) q <> None ->
                              key_at (t_arr (fst (erase_key t k))) q <> k).
  { intros q Uq Kq. pose proof Hinv' as [Hr' _].
    assert (In (key_at (t_arr (fst (erase_key t k))) q, dat_at (t_arr (fst (erase_key t k))) q)
               (abs_tree (fst (erase_key t k)))) by (apply used_in_abs; assumption).
    rewrite Habs, Kq in H. destruct Hinv as [_ [_ [Hso _]]]. clear -H Hso.
    unfold sorted in Hso. induction (abs_tree t) as [|[k' v'] r IH]; [destruct H|].
    apply StronglySorted_inv in Hso. destruct Hso as [Hs HF]. cbn [m_erase] in H.
    destruct (k =? k') eqn:E.
    - apply N.eqb_eq in E. subst k'. rewrite Forall_forall in HF. specialize (HF _ H).
      unfold key_lt in HF. cbn [fst] in HF. lia.
    - apply N.eqb_neq in E. destruct H as [H|H]; [congruence|]. apply IH; assumption. }
  split.
  - rewrite (decr_from_abs _ k _ Hinv' Hlb Habsent), Habs. symmetry. apply m_erase_shift_map.
  - apply (decr_from_inv _ k _ Hinv' Hlb Habsent).
Qed.
