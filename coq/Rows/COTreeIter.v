(* C16 -- iterating over the tree (operator++ from begin() to end(), operator-- from end() down to
   the marker at slot 0) enumerates exactly the ordered map abs_tree, forwards resp. backwards. *)
From Coq Require Import ZArith NArith List Lia Bool FMapPositive Sorted.
Import ListNotations.
Require Import PPLV.gen.Facts_COTree PPLV.Rows.COTree PPLV.Rows.COTreeSpec PPLV.Rows.COTreeBase
               PPLV.Rows.COTreeSearch.
Local Open Scope N_scope.

Fixpoint iter_from (f : nat) (t : tree) (p : N) : list entry :=
  match f with
  | O => []
  | S f' => if p =? t_end t then []
            else (key_at (t_arr t) p, dat_at (t_arr t) p) :: iter_from f' t (next_pos t p)
  end.

Fixpoint riter_from (f : nat) (t : tree) (p : N) : list entry :=
  match f with
  | O => []
  | S f' => if p =? 0 then []
            else (key_at (t_arr t) p, dat_at (t_arr t) p) :: riter_from f' t (prev_pos t p)
  end.

(* forward iteration from a used slot (or end()) lists the used slots from there on *)
Lemma iter_from_spec : forall f t p, 1 <= p <= t_rsz t + 1 ->
  (p = t_rsz t + 1 \/ aget (t_arr t) p <> None) ->
  (N.to_nat (t_rsz t + 1 - p) < f)%nat ->
  iter_from f t p = used_from (N.to_nat (t_rsz t + 1 - p)) (t_arr t) p.
Proof.
  induction f; intros t p Hp Hu Hf; [lia|].
  cbn [iter_from]. unfold t_end. destruct (p =? t_rsz t + 1) eqn:E.
  - apply N.eqb_eq in E. subst p. replace (t_rsz t + 1 - (t_rsz t + 1)) with 0 by lia. reflexivity.
  - apply N.eqb_neq in E. destruct Hu as [Hu|Hu]; [congruence|].
    unfold next_pos.
    destruct (scan_up_used (t_arr t) (t_rsz t) (p + 1)) as [S1 [S2 S3]]; [lia|].
    set (r := scan_up (fuel_of (t_rsz t)) (t_arr t) (t_rsz t) (p + 1)) in *.
    rewrite IHf; [|lia|destruct S2 as [S2|[S2|S2]]; [lia|left; assumption|right; assumption]|lia].
    replace (N.to_nat (t_rsz t + 1 - p))
      with (1 + (N.to_nat (r - p - 1) + N.to_nat (t_rsz t + 1 - r)))%nat by lia.
    rewrite used_from_app. cbn [used_from]. rewrite (aget_key_dat _ _ Hu). cbn [app].
    replace (p + N.of_nat 1) with (p + 1) by lia. f_equal.
    rewrite used_from_app. rewrite (used_from_nil (N.to_nat (r - p - 1))) by (intros j Hj; apply S3; lia). cbn [app].
    f_equal. lia.
Qed.

Theorem iteration_refines : forall t, inv t ->
  iter_from (S (N.to_nat (t_rsz t))) t (t_begin t) = abs_tree t.
Proof.
  intros t Hinv. unfold t_begin. destruct (t_size t =? 0) eqn:E.
  - apply N.eqb_eq in E. destruct (inv_size0_no_used t Hinv E) as [HR _].
    unfold abs_tree. rewrite HR. cbn [N.to_nat iter_from used_from]. unfold t_end. rewrite HR. reflexivity.
  - destruct (scan_up_used (t_arr t) (t_rsz t) 1) as [S1 [S2 S3]]; [lia|].
    set (p := scan_up (fuel_of (t_rsz t)) (t_arr t) (t_rsz t) 1) in *.
    rewrite iter_from_spec; [|lia|destruct S2 as [S2|[S2|S2]]; [lia|left; assumption|right; assumption]|lia].
    unfold abs_tree.
    replace (N.to_nat (t_rsz t)) with (N.to_nat (p - 1) + N.to_nat (t_rsz t + 1 - p))%nat by lia.
    rewrite used_from_app. rewrite (used_from_nil (N.to_nat (p - 1))) by (intros j Hj; apply S3; lia). cbn [app].
    f_equal. lia.
Qed.

(* backward iteration from a used slot (or the marker 0) lists the used slots below it, reversed *)
Lemma riter_from_spec : forall f t p, p <= t_rsz t ->
  (p = 0 \/ aget (t_arr t) p <> None) -> (N.to_nat p < f)%nat ->
  riter_from f t p = rev (used_from (N.to_nat p) (t_arr t) 1).
Proof.
  induction f; intros t p Hp Hu Hf; [lia|].
  cbn [riter_from]. destruct (p =? 0) eqn:E.
  - apply N.eqb_eq in E. subst p. reflexivity.
  - apply N.eqb_neq in E. destruct Hu as [Hu|Hu]; [congruence|].
    unfold prev_pos.
    destruct (scan_down_used (t_arr t) (t_rsz t) (p - 1)) as [S1 [S2 S3]]; [lia|].
    set (r := scan_down (fuel_of (t_rsz t)) (t_arr t) (t_rsz t) (p - 1)) in *.
    rewrite IHf; [|lia|destruct S2 as [S2|[S2|S2]]; [left; assumption|lia|right; assumption]|lia].
    replace (N.to_nat p) with (N.to_nat r + (N.to_nat (p - 1 - r) + 1))%nat by lia.
    rewrite used_from_app, used_from_app.
    rewrite (used_from_nil (N.to_nat (p - 1 - r))) by (intros j Hj; apply S3; lia). cbn [app].
    replace (1 + N.of_nat (N.to_nat r) + N.of_nat (N.to_nat (p - 1 - r))) with p by lia.
    cbn [used_from]. rewrite (aget_key_dat _ _ Hu). rewrite rev_app_distr. reflexivity.
Qed.

(* holds for every tree; the hypotheses of the requested statement are not needed *)
Theorem reverse_iteration_refines_gen : forall t,
  riter_from (S (N.to_nat (t_rsz t))) t (prev_pos t (t_end t)) = rev (abs_tree t).
Proof.
  intros t. unfold prev_pos, t_end. replace (t_rsz t + 1 - 1) with (t_rsz t) by lia.
  destruct (scan_down_used (t_arr t) (t_rsz t) (t_rsz t)) as [S1 [S2 S3]]; [lia|].
  set (p := scan_down (fuel_of (t_rsz t)) (t_arr t) (t_rsz t) (t_rsz t)) in *.
  rewrite riter_from_spec; [|lia|destruct S2 as [S2|[S2|S2]]; [left; assumption|lia|right; assumption]|lia].
  unfold abs_tree. f_equal.
  replace (N.to_nat (t_rsz t)) with (N.to_nat p + N.to_nat (t_rsz t - p))%nat by lia.
  rewrite used_from_app. rewrite (used_from_nil (N.to_nat (t_rsz t - p))) by (intros j Hj; apply S3; lia).
  symmetry. apply app_nil_r.
Qed.

Theorem reverse_iteration_refines : forall t, inv t -> 0 < t_size t ->
  riter_from (S (N.to_nat (t_rsz t))) t (prev_pos t (t_end t)) = rev (abs_tree t).
Proof. intros t _ _. apply reverse_iteration_refines_gen. Qed.

(* the two traversals are mirror images *)
Corollary reverse_iteration_is_rev : forall t, inv t ->
  riter_from (S (N.to_nat (t_rsz t))) t (prev_pos t (t_end t)) =
  rev (iter_from (S (N.to_nat (t_rsz t))) t (t_begin t)).
Proof. intros t Hinv. rewrite iteration_refines by assumption. apply reverse_iteration_refines_gen. Qed.
