(* C16 -- the hinted insertion CO_Tree::insert(iterator, key [, data]) picks exactly the node that
   the root search finds, hence insert_hint = insert / insert_key whatever the (valid) hint. *)
From Coq Require Import ZArith NArith List Lia Bool FMapPositive Sorted.
Import ListNotations.
Require Import PPLV.gen.Facts_COTree PPLV.Rows.COTree PPLV.Rows.COTreeSpec PPLV.Rows.COTreeBase
               PPLV.Rows.COTreeSearch PPLV.Rows.COTreeStatic.
Local Open Scope N_scope.

(* ------------------------------------------------------------------ *)
(* lowbit of 2^k * j                                                   *)
(* ------------------------------------------------------------------ *)
Lemma lowbit_mul_pow2 : forall k j, j <> 0 -> 2 ^ k <= lowbit (2 ^ k * j).
Proof.
  intros k j Hj. destruct (node_exists j Hj) as [h [j' ->]].
  rewrite N.mul_assoc, <- N.pow_add_r, lowbit_node. apply N.pow_le_mono_r; lia.
Qed.

Section Neighbours.
Variables (a : arr) (R : N).
Hypothesis Hrange : a_in_range a R.
Hypothesis Hshape : a_shape a R.

(* the part of the subtree of (i,o) left of i is free as soon as the left child is *)
Lemma left_range_none : forall h i, node h i ->
  (it_is_leaf (i, 2 ^ h) = true \/
   (1 <= fst (it_left (i, 2 ^ h)) <= R /\ aget a (fst (it_left (i, 2 ^ h))) = None)) ->
  forall j, i - (2 ^ h - 1) <= j -> j < i -> aget a j = None.
Proof.
  intros h i Hn H j Hj1 Hj2. rewrite it_is_leaf_node in H.
  destruct (h =? 0) eqn:Eh.
  - apply N.eqb_eq in Eh. subst h. rewrite N.pow_0_r in Hj1. lia.
  - apply N.eqb_neq in Eh. destruct H as [H|[H1 H2]]; [discriminate|].
    assert (Hh : h = N.succ (N.pred h)) by (symmetry; apply N.succ_pred; assumption).
    set (h' := N.pred h) in *. clearbody h'. subst h.
    rewrite it_left_node in H1, H2. cbn [fst] in H1, H2.
    destruct (subtree_split _ _ Hn) as [S1 [S2 [S3 [S4 [S5 S6]]]]].
    pose proof (pow2_pos h').
    apply (Hshape (i - 2 ^ h') j H1 H2). rewrite (node_lowbit _ _ (node_left _ _ Hn)). lia.
Qed.

Lemma right_range_none : forall h i, node h i ->
  (it_is_leaf (i, 2 ^ h) = true \/
   (1 <= fst (it_right (i, 2 ^ h)) <= R /\ aget a (fst (it_right (i, 2 ^ h))) = None)) ->
  forall j, i < j -> j <= i + (2 ^ h - 1) -> aget a j = None.
Proof.
  intros h i Hn H j Hj1 Hj2. rewrite it_is_leaf_node in H.
  destruct (h =? 0) eqn:Eh.
  - apply N.eqb_eq in Eh. subst h. rewrite N.pow_0_r in Hj2. lia.
  - apply N.eqb_neq in Eh. destruct H as [H|[H1 H2]]; [discriminate|].
    assert (Hh : h = N.succ (N.pred h)) by (symmetry; apply N.succ_pred; assumption).
    set (h' := N.pred h) in *. clearbody h'. subst h.
    rewrite it_right_node in H1, H2. cbn [fst] in H1, H2.
    destruct (subtree_split _ _ Hn) as [S1 [S2 [S3 [S4 [S5 S6]]]]].
    pose proof (pow2_pos h').
    apply (Hshape (i + 2 ^ h') j H1 H2). rewrite (node_lowbit _ _ (node_right _ _ Hn)). lia.
Qed.

(* if the left part of the subtree of the used node i is free, the used slot preceding i
   is i - lowbit i, an ancestor of i *)
Lemma pred_lowbit : forall h i P, node h i -> aget a i <> None ->
  (forall j, i - (2 ^ h - 1) <= j -> j < i -> aget a j = None) ->
  aget a P <> None -> P < i -> (forall q, P < q -> q < i -> aget a q = None) ->
  P = i - 2 ^ h /\ lowbit i < lowbit P.
Proof.
  intros h i P Hn Ui Hfree UP HPi Hbetween.
  pose proof (node_lowbit _ _ Hn) as Hlb. pose proof (node_ge _ _ Hn) as Hge.
  pose proof (pow2_pos h) as Ho. pose proof (Hrange i Ui) as Ri. pose proof (Hrange P UP) as RP.
  destruct Hn as [j Hj].
  set (o := 2 ^ h) in *.
  assert (HPle : P <= i - o).
  { destruct (N.le_gt_cases P (i - o)) as [L|L]; [assumption|]. exfalso. apply UP. apply Hfree; lia. }
  assert (Hs : i - o = 2 ^ N.succ h * j).
  { rewrite N.pow_succ_r'. fold o. rewrite Hj. clear. nia. }
  assert (Hj0 : j <> 0) by (intros ->; rewrite N.mul_0_r in Hs; lia).
  pose proof (lowbit_mul_pow2 (N.succ h) j Hj0) as Hls. rewrite <- Hs in Hls.
  rewrite N.pow_succ_r' in Hls. fold o in Hls.
  assert (Us : aget a (i - o) <> None).
  { intros C. apply Ui. apply (Hshape (i - o) i); [lia|assumption|lia]. }
  assert (P = i - o).
  { destruct (N.eq_dec P (i - o)) as [E|E]; [assumption|]. exfalso. apply Us. apply Hbetween; lia. }
  split; [assumption|]. rewrite Hlb, H. lia.
Qed.

Lemma succ_lowbit : forall h i S, node h i -> aget a i <> None ->
  (forall j, i < j -> j <= i + (2 ^ h - 1) -> aget a j = None) ->
  aget a S <> None -> i < S -> (forall q, i < q -> q < S -> aget a q = None) ->
  S = i + 2 ^ h /\ lowbit i < lowbit S.
Proof.
  intros h i S Hn Ui Hfree US HiS Hbetween.
  pose proof (node_lowbit _ _ Hn) as Hlb. pose proof (node_ge _ _ Hn) as Hge.
  pose proof (pow2_pos h) as Ho. pose proof (Hrange i Ui) as Ri. pose proof (Hrange S US) as RS.
  destruct Hn as [j Hj].
  set (o := 2 ^ h) in *.
  assert (HSge : i + o <= S).
  { destruct (N.le_gt_cases (i + o) S) as [L|L]; [assumption|]. exfalso. apply US. apply Hfree; lia. }
  assert (Hs : i + o = 2 ^ N.succ h * (j + 1)).
  { rewrite N.pow_succ_r'. fold o. rewrite Hj. clear. nia. }
  assert (Hj0 : j + 1 <> 0) by lia.
  pose proof (lowbit_mul_pow2 (N.succ h) (j + 1) Hj0) as Hls. rewrite <- Hs in Hls.
  rewrite N.pow_succ_r' in Hls. fold o in Hls.
  assert (Us : aget a (i + o) <> None).
  { intros C. apply Ui. apply (Hshape (i + o) i); [lia|assumption|lia]. }
  assert (S = i + o).
  { destruct (N.eq_dec S (i + o)) as [E|E]; [assumption|]. exfalso. apply Us. apply Hbetween; lia. }
  split; [assumption|]. rewrite Hlb, H. lia.
Qed.

End Neighbours.

(* ------------------------------------------------------------------ *)
(* the node picked by insert(itr, key) when key is absent              *)
(* ------------------------------------------------------------------ *)
Definition hint_pick (t : tree) (hint key : N) : titer :=
  let a := t_arr t in
  let R := t_rsz t in
  let fR := fuel_of R in
  let c1 := bisect_near_idx a R hint key in
  let c2 := if key <? key_at a c1 then scan_down fR a R (c1 - 1) else scan_up fR a R (c1 + 1) in
  if (c2 =? 0) || (R <? c2) then it_of c1
  else if lowbit c1 <? lowbit c2 then it_of c1 else it_of c2.

Lemma insert_hint_pick : forall t hint key dat,
  t_size t <> 0 -> hint <> t_end t ->
  key <> key_at (t_arr t) (bisect_near_idx (t_arr t) (t_rsz t) hint key) ->
  insert_hint t hint key dat =
    insert_precise t key (match dat with Some d => d | None => 0%Z end) (hint_pick t hint key).
Proof.
  intros t hint key dat Hs Hh Hk. unfold insert_hint, hint_pick.
  apply N.eqb_neq in Hs. apply N.eqb_neq in Hh. apply N.eqb_neq in Hk.
  rewrite Hs, Hh. cbv zeta. rewrite Hk.
  destruct ((_ =? 0) || (t_rsz t <? _)); [reflexivity|].
  destruct (lowbit _ <? lowbit _); reflexivity.
Qed.

Theorem hint_pick_root_search : forall t hint key, inv t -> 0 < t_size t ->
  aget (t_arr t) hint <> None ->
  key <> key_at (t_arr t) (bisect_near_idx (t_arr t) (t_rsz t) hint key) ->
  hint_pick t hint key = root_search t key.
Proof.
  intros t hint key Hinv Hs Uh Hk.
  pose proof (go_down_spec t key Hinv Hs) as G.
  destruct Hinv as [Hr [Hsh [Hso _]]]. pose proof (sorted_abs_psorted t Hr Hso) as Hps.
  pose proof (bisect_near_idx_spec (t_arr t) (t_rsz t) Hr Hps hint key Uh) as N1.
  unfold hint_pick. cbv zeta.
  set (a := t_arr t) in *. set (R := t_rsz t) in *.
  set (c1 := bisect_near_idx a R hint key) in *. clearbody c1.
  assert (Hns : forall q, aget a q <> None -> key_at a q <> key).
  { apply (near_pos_no_key a key c1 Hps N1). congruence. }
  destruct (root_search t key) as [i o]. destruct G as [Ui [Ho G]]. cbn [fst snd] in *.
  assert (Hit : it_of i = (i, o)) by (unfold it_of; rewrite Ho; reflexivity).
  pose proof (Hr i Ui) as Ri. destruct N1 as [Uc N1]. pose proof (Hr c1 Uc) as Rc.
  destruct (node_exists i (aget_used_pos _ _ Ui)) as [h Hn].
  pose proof (node_lowbit _ _ Hn) as Hlb. rewrite Hlb in Ho. subst o.
  destruct G as [G|[[Gk [Gb Gc]]|[Gk [Gb Gc]]]]; [exfalso; apply (Hns i Ui G)| |].
  - (* the search stopped at the successor of key *)
    pose proof (left_range_none a R Hsh h i Hn Gc) as Hfree.
    destruct N1 as [N1|[[Nk Nb]|[Nk Nb]]]; [exfalso; apply (Hns c1 Uc N1)| |].
    + (* c1 is the successor too *)
      assert (c1 = i).
      { destruct (N.lt_trichotomy c1 i) as [L|[L|L]]; [|assumption|].
        - specialize (Gb c1 L Uc). lia.
        - specialize (Nb i L Ui). lia. }
      subst c1. replace (key <? key_at a i) with true by (symmetry; apply N.ltb_lt; assumption).
      destruct (scan_down_used a R (i - 1)) as [S1 [S2 S3]]; [lia|].
      set (c2 := scan_down (fuel_of R) a R (i - 1)) in *. clearbody c2.
      destruct S2 as [S2|[S2|S2]]; [subst c2; cbn [N.eqb orb]; assumption|lia|].
      pose proof (Hr c2 S2) as R2.
      replace (c2 =? 0) with false by (symmetry; apply N.eqb_neq; lia).
      replace (R <? c2) with false by (symmetry; apply N.ltb_ge; lia). cbn [orb].
      destruct (pred_lowbit a R Hr Hsh h i c2 Hn Ui Hfree S2) as [_ HL]; [lia|intros; apply S3; lia|].
      replace (lowbit i <? lowbit c2) with true by (symmetry; apply N.ltb_lt; assumption).
      assumption.
    + (* c1 is the predecessor, c2 the successor *)
      assert (Lci : c1 < i).
      { destruct (N.lt_trichotomy c1 i) as [L|[L|L]]; [assumption|subst; lia|].
        assert (key_at a i < key_at a c1) by (apply Hps; assumption). lia. }
      replace (key <? key_at a c1) with false by (symmetry; apply N.ltb_ge; lia).
      destruct (scan_up_to_used a R Hr (c1 + 1) i) as [S1 [S2 S3]]; [lia|lia|assumption|].
      set (c2 := scan_up (fuel_of R) a R (c1 + 1)) in *. clearbody c2.
      assert (c2 = i).
      { destruct (N.eq_dec c2 i) as [E|E]; [assumption|]. exfalso.
        assert (L : c2 < i) by lia. specialize (Gb c2 L S2).
        assert (key < key_at a c2) by (apply Nb; [lia|assumption]). lia. }
      subst c2.
      replace (i =? 0) with false by (symmetry; apply N.eqb_neq; lia).
      replace (R <? i) with false by (symmetry; apply N.ltb_ge; lia). cbn [orb].
      destruct (pred_lowbit a R Hr Hsh h i c1 Hn Ui Hfree Uc Lci) as [_ HL]; [intros; apply S3; lia|].
      replace (lowbit c1 <? lowbit i) with false by (symmetry; apply N.ltb_ge; lia).
      assumption.
  - (* the search stopped at the predecessor of key *)
    pose proof (right_range_none a R Hsh h i Hn Gc) as Hfree.
    destruct N1 as [N1|[[Nk Nb]|[Nk Nb]]]; [exfalso; apply (Hns c1 Uc N1)| |].
    + (* c1 is the successor, c2 the predecessor *)
      assert (Lic : i < c1).
      { destruct (N.lt_trichotomy c1 i) as [L|[L|L]]; [|subst; lia|assumption].
        assert (key_at a c1 < key_at a i) by (apply Hps; assumption). lia. }
      replace (key <? key_at a c1) with true by (symmetry; apply N.ltb_lt; assumption).
      destruct (scan_down_to_used a R Hr (c1 - 1) i) as [S1 [S2 S3]]; [lia|lia|assumption|].
      set (c2 := scan_down (fuel_of R) a R (c1 - 1)) in *. clearbody c2.
      assert (c2 = i).
      { destruct (N.eq_dec c2 i) as [E|E]; [assumption|]. exfalso.
        assert (L : i < c2) by lia. specialize (Gb c2 L S2).
        assert (key_at a c2 < key) by (apply Nb; [lia|assumption]). lia. }
      subst c2.
      replace (i =? 0) with false by (symmetry; apply N.eqb_neq; lia).
      replace (R <? i) with false by (symmetry; apply N.ltb_ge; lia). cbn [orb].
      destruct (succ_lowbit a R Hr Hsh h i c1 Hn Ui Hfree Uc Lic) as [_ HL]; [intros; apply S3; lia|].
      replace (lowbit c1 <? lowbit i) with false by (symmetry; apply N.ltb_ge; lia).
      assumption.
    + (* c1 is the predecessor too *)
      assert (c1 = i).
      { destruct (N.lt_trichotomy c1 i) as [L|[L|L]]; [|assumption|].
        - specialize (Nb i L Ui). lia.
        - specialize (Gb c1 L Uc). lia. }
      subst c1. replace (key <? key_at a i) with false by (symmetry; apply N.ltb_ge; lia).
      destruct (scan_up_used a R (i + 1)) as [S1 [S2 S3]]; [lia|].
      set (c2 := scan_up (fuel_of R) a R (i + 1)) in *. clearbody c2.
      destruct S2 as [S2|[S2|S2]]; [lia| |].
      * subst c2. replace (R <? R + 1) with true by (symmetry; apply N.ltb_lt; lia).
        rewrite orb_true_r. assumption.
      * pose proof (Hr c2 S2) as R2.
        replace (c2 =? 0) with false by (symmetry; apply N.eqb_neq; lia).
        replace (R <? c2) with false by (symmetry; apply N.ltb_ge; lia). cbn [orb].
        destruct (succ_lowbit a R Hr Hsh h i c2 Hn Ui Hfree S2) as [_ HL]; [lia|intros; apply S3; lia|].
        replace (lowbit i <? lowbit c2) with true by (symmetry; apply N.ltb_lt; assumption).
        assumption.
Qed.

(* ------------------------------------------------------------------ *)
(* insert_hint = insert / insert_key                                    *)
(* ------------------------------------------------------------------ *)
Lemma t_begin_insert_in_empty : forall key val,
  t_begin (insert_in_empty key val) = fst (it_root (t_rsz (insert_in_empty key val))).
Proof. intros key val. reflexivity. Qed.

Theorem insert_hint_eq : forall t h k d, inv t -> valid_hint t h ->
  insert_hint t h k d = match d with Some v => insert t k v | None => insert_key t k end.
Proof.
  intros t h k d Hinv Hv.
  destruct (N.eq_dec (t_size t) 0) as [Hs|Hs].
  - unfold insert_hint, insert_key, insert. rewrite Hs. cbn [N.eqb]. cbv zeta.
    rewrite t_begin_insert_in_empty. destruct d; reflexivity.
  - destruct (N.eq_dec h (t_end t)) as [He|He].
    + unfold insert_hint. apply N.eqb_neq in Hs. rewrite Hs. subst h. rewrite N.eqb_refl. reflexivity.
    + destruct Hv as [Hv|Uh]; [congruence|].
      assert (Hs' : 0 < t_size t) by lia.
      pose proof (root_search_near t k Hinv Hs') as Nit.
      pose proof Hinv as [Hr [Hsh [Hso _]]]. pose proof (sorted_abs_psorted t Hr Hso) as Hps.
      pose proof (bisect_near_idx_spec (t_arr t) (t_rsz t) Hr Hps h k Uh) as N1.
      destruct (N.eq_dec k (key_at (t_arr t) (bisect_near_idx (t_arr t) (t_rsz t) h k))) as [Ek|Ek].
      * (* key stored: both replace / return the slot holding it *)
        set (c1 := bisect_near_idx (t_arr t) (t_rsz t) h k) in *.
        assert (Kit : key_at (t_arr t) (fst (root_search t k)) = k).
        { apply (near_pos_stored _ _ _ Hps Nit). exists c1. split; [apply N1|congruence]. }
        assert (Eit : fst (root_search t k) = c1).
        { apply (psorted_inj (t_arr t)); [assumption|apply Nit|apply N1|congruence]. }
        unfold insert_hint, insert_key, insert, insert_precise.
        apply N.eqb_neq in Hs. apply N.eqb_neq in He. rewrite Hs, He. cbv zeta. fold c1.
        apply N.eqb_eq in Kit. rewrite Kit. rewrite Eit.
        replace (k =? key_at (t_arr t) c1) with true by (symmetry; apply N.eqb_eq; assumption).
        destruct d; reflexivity.
      * (* key absent *)
        rewrite (insert_hint_pick t h k d Hs He Ek).
        rewrite (hint_pick_root_search t h k Hinv Hs' Uh Ek).
        assert (Kit : key_at (t_arr t) (fst (root_search t k)) <> k).
        { apply (near_pos_no_key _ _ _ Hps N1); [congruence|apply Nit]. }
        unfold insert_key, insert. apply N.eqb_neq in Hs. rewrite Hs. cbv zeta.
        apply N.eqb_neq in Kit. rewrite Kit. destruct d; reflexivity.
Qed.

Theorem insert_hint_irrelevant : forall t raw1 raw2 k d, inv t ->
  insert_hint t (resolve_hint t raw1) k d = insert_hint t (resolve_hint t raw2) k d.
Proof.
  intros t raw1 raw2 k d Hinv.
  rewrite !insert_hint_eq by (try assumption; apply resolve_hint_valid). reflexivity.
Qed.

(* the step of the operation language does not depend on the raw hint *)
Corollary step_insert_hint_irrelevant : forall t raw k d, inv t ->
  step_tree t (OpInsertHint raw k d) =
    match d with Some v => step_tree t (OpInsert k v) | None => step_tree t (OpInsertKey k) end.
Proof.
  intros t raw k d Hinv. cbn [step_tree].
  rewrite insert_hint_eq by (try assumption; apply resolve_hint_valid). destruct d; reflexivity.
Qed.
