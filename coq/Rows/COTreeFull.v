(* C16 -- the unconditional whole-history statements for the CO_Tree model. *)
From Coq Require Import ZArith NArith List Lia Bool.
Import ListNotations.
Require Import PPLV.gen.Facts_COTree PPLV.Rows.COTree PPLV.Rows.COTreeSpec.
Require Import PPLV.Rows.COTreeSearch PPLV.Rows.COTreeHint PPLV.Rows.COTreeMain.
Require PPLV.Rows.COTreeEraseLb.
Local Open Scope N_scope.

(* after ANY sequence of operations the used slots, read in array (= in-order) order, are the ordered map *)
Theorem cotree_refines_map : forall ops, abs_tree (run_tree ops) = run_map ops.
Proof. exact (cotree_refines_map_S COTreeEraseLb.erase_key_lb). Qed.

(* ... and the invariant holds: slots within 1..reserved_size, an unused node has an unused subtree, keys strictly
   increasing in array order, size_ = number of used slots, reserved_size = 2^max_depth - 1 (or the empty tree),
   and the density bounds CO_Tree::OK() checks *)
Theorem cotree_inv : forall ops, inv_full (run_tree ops).
Proof. exact (cotree_inv_S COTreeEraseLb.erase_key_lb). Qed.

(* in every reachable state the hinted insertion is independent of the hint (tree AND returned iterator) *)
Theorem hint_irrelevant_reachable : forall ops raw1 raw2 k d,
  let t := run_tree ops in
  insert_hint t (resolve_hint t raw1) k d = insert_hint t (resolve_hint t raw2) k d.
Proof.
  intros ops raw1 raw2 k d t. apply insert_hint_irrelevant. destruct (cotree_inv ops) as [I _]. exact I.
Qed.

(* ... and so are the hinted searches *)
Theorem lookup_hint_irrelevant_reachable : forall ops raw1 raw2 i,
  let t := run_tree ops in
  lower_bound_near t (resolve_hint t raw1) i = lower_bound_near t (resolve_hint t raw2) i /\
  find_near t (resolve_hint t raw1) i = find_near t (resolve_hint t raw2) i.
Proof.
  intros ops raw1 raw2 i t. destruct (cotree_inv ops) as [I _]. split.
  - apply lower_bound_hint_irrelevant; [exact I|apply resolve_hint_valid|apply resolve_hint_valid].
  - apply find_hint_irrelevant; [exact I|apply resolve_hint_valid|apply resolve_hint_valid].
Qed.
