(* C16 -- "in-order layout" made formal: the in-order traversal of the complete tree through
   get_left_child / get_right_child visits the slots 1, 2, ..., reserved_size in increasing order. *)
From Coq Require Import ZArith NArith List Lia Bool FMapPositive Sorted.
Import ListNotations.
Require Import PPLV.gen.Facts_COTree PPLV.Rows.COTree PPLV.Rows.COTreeSpec PPLV.Rows.COTreeBase.
Local Open Scope N_scope.

Fixpoint inorder (f : nat) (it : titer) : list N :=
  match f with
  | O => []
  | S f' => if it_is_leaf it then [fst it]
            else inorder f' (it_left it) ++ [fst it] ++ inorder f' (it_right it)
  end.

(* the n consecutive slots lo, lo+1, ... *)
Fixpoint nrange (n : nat) (lo : N) : list N :=
  match n with O => [] | S n' => lo :: nrange n' (lo + 1) end.

Lemma nrange_app : forall n m lo, nrange (n + m) lo = nrange n lo ++ nrange m (lo + N.of_nat n).
Proof.
  induction n; intros m lo.
  - cbn [Nat.add nrange app N.of_nat]. rewrite N.add_0_r. reflexivity.
  - cbn [Nat.add nrange app]. rewrite IHn.
    replace (lo + 1 + N.of_nat n) with (lo + N.of_nat (S n)) by lia. reflexivity.
Qed.

Lemma nrange_seq : forall n lo, nrange n lo = map N.of_nat (seq (N.to_nat lo) n).
Proof.
  induction n; intros lo; [reflexivity|].
  cbn [nrange seq map]. rewrite N2Nat.id. f_equal. rewrite IHn.
  replace (N.to_nat (lo + 1)) with (S (N.to_nat lo)) by lia. reflexivity.
Qed.

Lemma nrange_length : forall n lo, length (nrange n lo) = n.
Proof. induction n; intros lo; cbn [nrange length]; [reflexivity|]. rewrite IHn. reflexivity. Qed.

Lemma in_nrange : forall n lo x, In x (nrange n lo) <-> lo <= x < lo + N.of_nat n.
Proof.
  induction n; intros lo x; cbn [nrange In].
  - lia.
  - rewrite IHn. lia.
Qed.

(* in-order traversal of the subtree of any node (i, 2^h) *)
Theorem inorder_subtree : forall f h i, 2 ^ h <= i -> (N.to_nat h < f)%nat ->
  inorder f (i, 2 ^ h) = nrange (N.to_nat (2 * 2 ^ h - 1)) (i - (2 ^ h - 1)).
Proof.
  induction f; intros h i Hge Hf; [lia|].
  cbn [inorder]. rewrite it_is_leaf_node. cbn [fst].
  destruct (h =? 0) eqn:Eh.
  - apply N.eqb_eq in Eh. subst h. rewrite N.pow_0_r.
    change (N.to_nat (2 * 1 - 1)) with 1%nat. cbn [nrange]. f_equal. lia.
  - apply N.eqb_neq in Eh.
    assert (Hh : h = N.succ (N.pred h)) by (symmetry; apply N.succ_pred; assumption).
    set (h' := N.pred h) in *. clearbody h'. subst h.
    rewrite it_left_node, it_right_node.
    pose proof (pow2_pos h') as Hc. rewrite N.pow_succ_r' in Hge.
    rewrite (IHf h' (i - 2 ^ h')) by lia. rewrite (IHf h' (i + 2 ^ h')) by lia.
    rewrite N.pow_succ_r'. set (c := 2 ^ h') in *.
    replace (N.to_nat (2 * (2 * c) - 1))
      with (N.to_nat (2 * c - 1) + (1 + N.to_nat (2 * c - 1)))%nat by lia.
    rewrite nrange_app. rewrite (nrange_app 1). cbn [nrange app].
    replace (i - c - (c - 1)) with (i - (2 * c - 1)) by lia.
    replace (i - (2 * c - 1) + N.of_nat (N.to_nat (2 * c - 1))) with i by lia.
    replace (i + N.of_nat 1) with (i + c - (c - 1)) by lia. reflexivity.
Qed.

Corollary inorder_subtree_seq : forall h i, 2 ^ h <= i ->
  inorder (S (N.to_nat h)) (i, 2 ^ h) =
  map N.of_nat (seq (N.to_nat (i - (2 ^ h - 1))) (N.to_nat (2 * 2 ^ h - 1))).
Proof. intros h i H. rewrite inorder_subtree by (try assumption; lia). apply nrange_seq. Qed.

Theorem inorder_is_array_order : forall d,
  inorder (S (N.to_nat d)) (it_root (2 ^ N.succ d - 1)) =
  map N.of_nat (seq 1 (N.to_nat (2 ^ N.succ d - 1))).
Proof.
  intros d. rewrite it_root_pow2. rewrite inorder_subtree by lia.
  destruct (root_range d) as [E1 _]. rewrite E1, nrange_seq, <- N.pow_succ_r'. reflexivity.
Qed.
