(* C16 -- whole-history statements for the CO_Tree model, assembled from the per-operation results.
   The refinement of insert / erase through rebalance comes from COTreeUpdate.v. *)
From Coq Require Import ZArith NArith List Lia Bool FMapPositive Sorted.
Import ListNotations.
Require Import PPLV.gen.Facts_COTree PPLV.Rows.COTree PPLV.Rows.COTreeSpec.
Require Import PPLV.Rows.COTreeBase PPLV.Rows.COTreeSearch PPLV.Rows.COTreeStatic PPLV.Rows.COTreeHint PPLV.Rows.COTreeDens.
Require PPLV.Rows.COTreeUpdate.
Local Open Scope N_scope.

Lemma sorted_tail_gt : forall (e : entry) m, sorted (e :: m) -> forall x, In x m -> fst e < fst x.
Proof.
  intros e m H x Hin. inversion H as [|? ? _ Hf]; subst.
  rewrite Forall_forall in Hf. apply Hf, Hin.
Qed.

Lemma m_find_not_in : forall k m, (forall x, In x m -> fst x <> k) -> m_find k m = None.
Proof.
  induction m as [|[k' v'] r IH]; intros H; cbn [m_find]; [reflexivity|].
  destruct (k =? k') eqn:E.
  - apply N.eqb_eq in E. exfalso. apply (H (k', v')); [left; reflexivity|cbn; lia].
  - apply IH. intros x Hx. apply H. right. exact Hx.
Qed.

Lemma m_find_erase : forall k m, sorted m -> m_find k (m_erase k m) = None.
Proof.
  induction m as [|[k' v'] r IH]; intros Hs; cbn [m_erase m_find]; [reflexivity|].
  destruct (k =? k') eqn:E.
  - apply N.eqb_eq in E. subst k'. apply m_find_not_in. intros x Hx.
    pose proof (sorted_tail_gt _ _ Hs x Hx) as Hlt. cbn [fst] in Hlt. lia.
  - cbn [m_find]. rewrite E. apply IH. inversion Hs; assumption.
Qed.

Definition good_pair (t : tree) (m : omap) : Prop := inv t /\ dens t /\ abs_tree t = m.

Lemma inv_sorted : forall t, inv t -> sorted (abs_tree t).
Proof. intros t [_ [_ [H _]]]. exact H. Qed.
Lemma inv_in_range : forall t, inv t -> in_range t.
Proof. intros t [H _]. exact H. Qed.

Definition erase_free (o : top) : bool :=
  match o with OpErase _ | OpErasePos _ | OpEraseShift _ => false | _ => true end.

(* insertions (plain, keyed, hinted with any hint) and index shifts *)
Lemma step_good_ins : forall t m o, erase_free o = true -> good_pair t m ->
  good_pair (step_tree t o) (step_map t m o).
Proof.
  intros t m o Hf [Hi [Hd Ha]]. subst m.
  pose proof (inv_szinv2 t Hi) as Hz2. pose proof (szinv2_szinv t Hz2) as Hz.
  destruct o as [k v|k|raw k d|k|raw|k n|k]; cbn [erase_free] in Hf; try discriminate; cbn [step_tree step_map].
  - destruct (COTreeUpdate.insert_refines t k v Hi) as [A I]. split; [exact I|]. split; [|exact A].
    apply insert_dens; assumption.
  - destruct (COTreeUpdate.insert_key_refines t k Hi) as [A I]. split; [exact I|]. split; [|exact A].
    apply insert_key_dens; assumption.
  - rewrite (insert_hint_eq t (resolve_hint t raw) k d Hi (resolve_hint_valid t raw)).
    destruct d as [v|].
    + destruct (COTreeUpdate.insert_refines t k v Hi) as [A I]. split; [exact I|]. split; [|exact A].
      apply insert_dens; assumption.
    + destruct (COTreeUpdate.insert_key_refines t k Hi) as [A I]. split; [exact I|]. split; [|exact A].
      apply insert_key_dens; assumption.
  - split; [apply increase_keys_from_inv; exact Hi|]. split.
    + apply increase_keys_from_dens; exact Hd.
    + apply increase_keys_from_abs; exact Hi.
Qed.

Lemma good_init : good_pair empty_tree [].
Proof. split; [exact inv_empty_tree|]. split; [left; reflexivity|reflexivity]. Qed.

Lemma run_both_fold : forall ops t m, fst (run_both ops t m) = fold_left step_tree ops t.
Proof. induction ops as [|o r IH]; intros t m; cbn [run_both fold_left fst]; [reflexivity|apply IH]. Qed.

Lemma run_both_good_ins : forall ops t m, forallb erase_free ops = true -> good_pair t m ->
  good_pair (fst (run_both ops t m)) (snd (run_both ops t m)).
Proof.
  induction ops as [|o r IH]; intros t m Hf H; cbn [run_both fst snd]; [exact H|].
  cbn [forallb] in Hf. apply andb_true_iff in Hf. destruct Hf as [Ho Hr].
  apply IH; [exact Hr|]. apply step_good_ins; assumption.
Qed.

(* histories of insertions (any mix of plain / keyed / hinted with arbitrary hints) and key shifts *)
Theorem cotree_refines_map_insertions : forall ops, forallb erase_free ops = true ->
  abs_tree (run_tree ops) = run_map ops /\ inv_full (run_tree ops).
Proof.
  intros ops Hf. destruct (run_both_good_ins ops empty_tree [] Hf good_init) as [I [D A]].
  unfold run_tree, run_map. rewrite <- (run_both_fold ops empty_tree []). split; [exact A|split; assumption].
Qed.

Section Assemble.
  (* the per-operation refinement of the erasures *)
  Hypothesis H_erase : forall t k, inv t ->
    abs_tree (fst (erase_key t k)) = m_erase k (abs_tree t) /\ inv (fst (erase_key t k)) /\
    lb_pos (fst (erase_key t k)) k (snd (erase_key t k)).
  Hypothesis H_erase_pos : forall t p, inv t -> aget (t_arr t) p <> None ->
    abs_tree (fst (erase_pos t p)) = m_erase (key_at (t_arr t) p) (abs_tree t) /\ inv (fst (erase_pos t p)).

  Lemma step_good : forall t m o, good_pair t m -> good_pair (step_tree t o) (step_map t m o).
  Proof.
    intros t m o H. destruct (erase_free o) eqn:Ef; [apply step_good_ins; assumption|].
    destruct H as [Hi [Hd Ha]]. subst m.
    pose proof (inv_szinv2 t Hi) as Hz2. pose proof (szinv2_szinv t Hz2) as Hz.
    destruct o as [k v|k|raw k d|k|raw|k n|k]; cbn [erase_free] in Ef; try discriminate; cbn [step_tree step_map].
    - destruct (H_erase t k Hi) as [A [I _]]. split; [exact I|]. split; [|exact A].
      apply erase_key_dens; assumption.
    - destruct (resolve_hint t raw =? t_end t) eqn:E.
      + split; [exact Hi|]. split; [exact Hd|reflexivity].
      + apply N.eqb_neq in E.
        assert (Hu : aget (t_arr t) (resolve_hint t raw) <> None).
        { destruct (resolve_hint_valid t raw) as [V|V]; [contradiction|exact V]. }
        destruct (H_erase_pos t _ Hi Hu) as [A I]. split; [exact I|]. split; [|exact A].
        apply erase_pos_dens; try assumption.
        destruct (N.eq_dec (t_size t) 0) as [Z|NZ]; [|lia].
        exfalso. apply Hu. destruct (inv_size0_no_used t Hi Z) as [_ Hn]. apply Hn.
    - destruct (H_erase t k Hi) as [A [I L]].
      rewrite erase_element_and_shift_left_unfold.
      assert (Hno : forall q, aget (t_arr (fst (erase_key t k))) q <> None ->
                              key_at (t_arr (fst (erase_key t k))) q <> k).
      { apply (m_find_abs_none _ k (inv_in_range _ I)). rewrite A. apply m_find_erase, inv_sorted, Hi. }
      split; [apply (decr_from_inv _ k); assumption|]. split.
      + rewrite <- erase_element_and_shift_left_unfold. apply erase_shift_dens; assumption.
      + rewrite (decr_from_abs _ k _ I L Hno). rewrite A. symmetry. apply m_erase_shift_map.
  Qed.

  Lemma run_both_good : forall ops t m, good_pair t m ->
    good_pair (fst (run_both ops t m)) (snd (run_both ops t m)).
  Proof.
    induction ops as [|o r IH]; intros t m H; cbn [run_both fst snd]; [exact H|].
    apply IH. apply step_good. exact H.
  Qed.

  Theorem cotree_refines_map_S : forall ops, abs_tree (run_tree ops) = run_map ops.
  Proof.
    intros ops. destruct (run_both_good ops empty_tree [] good_init) as [_ [_ A]].
    unfold run_tree, run_map. rewrite <- (run_both_fold ops empty_tree []). exact A.
  Qed.
  Theorem cotree_inv_S : forall ops, inv_full (run_tree ops).
  Proof.
    intros ops. destruct (run_both_good ops empty_tree [] good_init) as [I [D _]].
    unfold run_tree. rewrite <- (run_both_fold ops empty_tree []). split; assumption.
  Qed.
End Assemble.
