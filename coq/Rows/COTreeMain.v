(* C16 -- whole-history statements for the CO_Tree model, assembled from the per-operation results.
   The refinement of insert / erase through rebalance comes from COTreeUpdate.v. *)
From Coq Require Import ZArith NArith List Lia Bool FMapPositive Sorted.
Import ListNotations.
Require Import PPLV.gen.Facts_COTree PPLV.Rows.COTree PPLV.Rows.COTreeSpec.
Require Import PPLV.Rows.COTreeBase PPLV.Rows.COTreeSearch PPLV.Rows.COTreeStatic PPLV.Rows.COTreeHint PPLV.Rows.COTreeDens.
Require PPLV.Rows.COTreeUpdate.
Local Open Scope N_scope.

Lemma sorted_tail_gt : forall (e : entry) m, sorted (e :: m) -> forall x, In x m -> fst e < fst x.
Proof.
  intros e m H x Hin. inversion H as [|? ? _ Hf]; subst.
  rewrite Forall_forall in Hf. apply Hf, Hin.
Qed.

Lemma m_find_not_in : forall k m, (forall x, In x m -> fst x <> k) -> m_find k m = None.
Proof.
  induction m as [|[k' v'] r IH]; intros H; cbn [m_find]; [reflexivity|].
  destruct (k =? k') eqn:E.
  - apply N.eqb_eq in E. exfalso. apply (H (k', v')); [left; reflexivity|cbn; lia].
  - apply IH. intros x Hx. apply H. right. exact Hx.
Qed.

Lemma m_find_erase : forall k m, sorted m -> m_find k (m_erase k m) = None.
Proof.
  induction m as [|[k' v'] r IH]; intros Hs; cbn [m_erase m_find]; [reflexivity|].
  destruct (k =? k') eqn:E.
  - apply N.eqb_eq in E. subst k'. apply m_find_not_in. intros x Hx.
    pose proof (sorted_tail_gt _ _ Hs x Hx) as Hlt. cbn [fst] in Hlt. lia.
  - cbn [m_find]. rewrite E. apply IH. inversion Hs; assumption.
Qed.

Definition good_pair (t : tree) (m : omap) : Prop := inv t /\ dens t /\ abs_tree t = m.

Lemma inv_sorted : forall t, inv t -> sorted (abs_tree t).
Proof. intros t [_ [_ [H _]]]. exact H. Qed.
Lemma inv_in_range : forall t, inv t -> in_range t.
Proof. intros t [H _]. exact H. Qed.

(* every operation except erase_element_and_shift_left, whose key shift starts at the iterator erase returns *)
Definition no_erase_shift (o : top) : bool := match o with OpEraseShift _ => false | _ => true end.

Lemma step_good_basic : forall t m o, no_erase_shift o = true -> good_pair t m ->
  good_pair (step_tree t o) (step_map t m o).
Proof.
  intros t m o Hf [Hi [Hd Ha]]. subst m.
  pose proof (inv_szinv2 t Hi) as Hz2. pose proof (szinv2_szinv t Hz2) as Hz.
  destruct o as [k v|k|raw k d|k|raw|k n|k]; cbn [no_erase_shift] in Hf; try discriminate; cbn [step_tree step_map].
  - destruct (COTreeUpdate.insert_refines t k v Hi) as [A I]. split; [exact I|]. split; [|exact A].
    apply insert_dens; assumption.
  - destruct (COTreeUpdate.insert_key_refines t k Hi) as [A I]. split; [exact I|]. split; [|exact A].
    apply insert_key_dens; assumption.
  - rewrite (insert_hint_eq t (resolve_hint t raw) k d Hi (resolve_hint_valid t raw)).
    destruct d as [v|].
    + destruct (COTreeUpdate.insert_refines t k v Hi) as [A I]. split; [exact I|]. split; [|exact A].
      apply insert_dens; assumption.
    + destruct (COTreeUpdate.insert_key_refines t k Hi) as [A I]. split; [exact I|]. split; [|exact A].
      apply insert_key_dens; assumption.
  - destruct (COTreeUpdate.erase_key_refines t k Hi) as [A I]. split; [exact I|]. split; [|exact A].
    apply erase_key_dens; assumption.
  - destruct (resolve_hint t raw =? t_end t) eqn:E.
    + split; [exact Hi|]. split; [exact Hd|reflexivity].
    + apply N.eqb_neq in E.
      assert (Hu : aget (t_arr t) (resolve_hint t raw) <> None).
      { destruct (resolve_hint_valid t raw) as [V|V]; [contradiction|exact V]. }
      destruct (COTreeUpdate.erase_pos_refines t _ Hi Hu) as [A I]. split; [exact I|]. split; [|exact A].
      apply erase_pos_dens; try assumption.
      destruct (N.eq_dec (t_size t) 0) as [Z|NZ]; [|lia].
      exfalso. apply Hu. destruct (inv_size0_no_used t Hi Z) as [_ Hn]. apply Hn.
  - split; [apply increase_keys_from_inv; exact Hi|]. split.
    + apply increase_keys_from_dens; exact Hd.
    + apply increase_keys_from_abs; exact Hi.
Qed.

Lemma good_init : good_pair empty_tree [].
Proof. split; [exact inv_empty_tree|]. split; [left; reflexivity|reflexivity]. Qed.

Lemma run_both_fold : forall ops t m, fst (run_both ops t m) = fold_left step_tree ops t.
Proof. induction ops as [|o r IH]; intros t m; cbn [run_both fold_left fst]; [reflexivity|apply IH]. Qed.

Lemma run_both_good_basic : forall ops t m, forallb no_erase_shift ops = true -> good_pair t m ->
  good_pair (fst (run_both ops t m)) (snd (run_both ops t m)).
Proof.
  induction ops as [|o r IH]; intros t m Hf H; cbn [run_both fst snd]; [exact H|].
  cbn [forallb] in Hf. apply andb_true_iff in Hf. destruct Hf as [Ho Hr].
  apply IH; [exact Hr|]. apply step_good_basic; assumption.
Qed.

(* histories of insertions (plain / keyed / hinted with arbitrary hints), erasures by key and by
   iterator, and key shifts: the used slots in array (= in-order) order are the ordered map, the structural
   invariant and the density bounds of OK() hold *)
Theorem cotree_refines_map_basic : forall ops, forallb no_erase_shift ops = true ->
  abs_tree (run_tree ops) = run_map ops /\ inv_full (run_tree ops).
Proof.
  intros ops Hf. destruct (run_both_good_basic ops empty_tree [] Hf good_init) as [I [D A]].
  unfold run_tree, run_map. rewrite <- (run_both_fold ops empty_tree []). split; [exact A|split; assumption].
Qed.

Section Assemble.
  (* the iterator erase(key) returns is the lower bound of the key in the new tree *)
  Hypothesis H_erase_lb : forall t k, inv t -> lb_pos (fst (erase_key t k)) k (snd (erase_key t k)).

  Lemma step_good : forall t m o, good_pair t m -> good_pair (step_tree t o) (step_map t m o).
  Proof.
    intros t m o H. destruct (no_erase_shift o) eqn:Ef; [apply step_good_basic; assumption|].
    destruct H as [Hi [Hd Ha]]. subst m.
    pose proof (inv_szinv2 t Hi) as Hz2.
    destruct o as [k v|k|raw k d|k|raw|k n|k]; cbn [no_erase_shift] in Ef; try discriminate; cbn [step_tree step_map].
    destruct (COTreeUpdate.erase_key_refines t k Hi) as [A I]. pose proof (H_erase_lb t k Hi) as L.
    rewrite erase_element_and_shift_left_unfold.
    assert (Hno : forall q, aget (t_arr (fst (erase_key t k))) q <> None ->
                            key_at (t_arr (fst (erase_key t k))) q <> k).
    { apply (m_find_abs_none _ k (inv_in_range _ I)). rewrite A. apply m_find_erase, inv_sorted, Hi. }
    split; [apply (decr_from_inv _ k); assumption|]. split.
    + rewrite <- erase_element_and_shift_left_unfold. apply erase_shift_dens; assumption.
    + rewrite (decr_from_abs _ k _ I L Hno). rewrite A. symmetry. apply m_erase_shift_map.
  Qed.

  Lemma run_both_good : forall ops t m, good_pair t m ->
    good_pair (fst (run_both ops t m)) (snd (run_both ops t m)).
  Proof.
    induction ops as [|o r IH]; intros t m H; cbn [run_both fst snd]; [exact H|].
    apply IH. apply step_good. exact H.
  Qed.

  Theorem cotree_refines_map_S : forall ops, abs_tree (run_tree ops) = run_map ops.
  Proof.
    intros ops. destruct (run_both_good ops empty_tree [] good_init) as [_ [_ A]].
    unfold run_tree, run_map. rewrite <- (run_both_fold ops empty_tree []). exact A.
  Qed.
  Theorem cotree_inv_S : forall ops, inv_full (run_tree ops).
  Proof.
    intros ops. destruct (run_both_good ops empty_tree [] good_init) as [I [D _]].
    unfold run_tree. rewrite <- (run_both_fold ops empty_tree []). split; assumption.
  Qed.
End Assemble.
