(* C16 -- Linear_Expression with a run-time representation (DENSE or SPARSE), the operation language
   of the histories, and the interpreter.  Binary operations dispatch on both representations exactly as
   Linear_Expression_Impl<Row>::...(const Linear_Expression_Interface&) does. *)
From Coq Require Import ZArith List Lia Bool Arith.
Import ListNotations.
Require Import PPLV.Rows.Abs PPLV.Rows.Dense PPLV.Rows.Sparse.
Local Open Scope Z_scope.

Inductive expr := ED (d : drow) | ES (s : srow).
Definition abs_e (e : expr) : arow := match e with ED d => abs_d d | ES s => abs_s s end.
Definition esize (e : expr) : nat := asize (abs_e e).
Definition ecoef (e : expr) : nat -> Z := acoef (abs_e e).
Definition is_sparse (e : expr) : bool := match e with ES _ => true | ED _ => false end.

(* the entries the const_iterator of the row visits in [first,last) *)
Definition visited (first last : nat) (e : expr) : list sent :=
  match e with
  | ED d => map (fun i => (i, d_get i d)) (seq first (last - first))
  | ES s => stored_in first last s
  end.

(* conversions (copy constructors with a Representation argument) *)
Definition to_dense (e : expr) : drow := map (ecoef e) (seq 0 (esize e)).
Definition to_sparse (e : expr) : srow :=
  match e with
  | ES s => s
  | ED d => mkSR (length d) (filter (fun p => negb (snd p =? 0)) (combine (seq 0 (length d)) d))
  end.
Definition convert (sp : bool) (e : expr) : expr := if sp then ES (to_sparse e) else ED (to_dense e).
(* Linear_Expression(e, space_dim, r): row size n.  Every combination truncates / extends; Sparse from Dense
   copies the nonzero coefficients of e below min(size of e, n)  (finding C16-trunc-copy repaired). *)
Definition copy_sized (sp : bool) (n : nat) (e : expr) : expr :=
  if sp then
    match e with
    | ES s => ES (mkSR n (filter (fun p => (fst p <? Nat.min (ssize s) n)%nat) (sents s)))
    | ED d => ES (mkSR n (filter (fun p => (fst p <? Nat.min (length d) n)%nat) (sents (to_sparse e))))
    end
  else ED (map (ecoef e) (seq 0 (Nat.min n (esize e))) ++ repeat 0 (n - esize e)).

Inductive uop :=
| USet (i : nat) (v : Z) | UAdd (i : nat) (v : Z) | USwap (i j : nat) | UShift (i n : nat) | UResize (n : nat)
| UMulRange (c : Z) (first last : nat) | UNegRange (first last : nat) | UExactDiv (c : Z) (first last : nat)
| URemove (vars : list nat) | UPermute (c : list nat) | UNormalize | USignNormalize | UMulAll (c : Z).
Inductive bop :=
| BCombine (c1 c2 : Z) (first last : nat)     (* linear_combine(y, c1, c2, start, end) *)
| BCombineAll (c1 c2 : Z)                     (* linear_combine(y, c1, c2): grows x to the size of y first *)
| BLaxScale (c1 : Z) (first last : nat)       (* linear_combine_lax(y, c1, 0, start, end), c1 <> 0 *)
| BLaxZero (first last : nat)                 (* linear_combine_lax(y, 0, 0, start, end) *)
| BLax0 (c2 : Z) (first last : nat).          (* linear_combine_lax(y, 0, c2, start, end), c2 <> 0 *)
Inductive obs1 :=
| OGet (i : nat) | OGcd (first last : nat) | OAllZeroes (first last : nat) | ONumZeroes (first last : nat)
| OFirstNZ (first last : nat) | OLastNZ (first last : nat) | OLastNZAll | OIter | OSize.
Inductive obs2 := OScalar (first last : nat) | OIsEqual | OIsEqualRange (first last : nat) | OCompare.
Inductive op :=
| New (r n : nat) | Un (r : nat) (u : uop) | Bin (r s : nat) (b : bop)
| Obs1 (r : nat) (o : obs1) | Obs2 (r s : nat) (o : obs2)
| Copy (r s : nat) | CopySized (r s n : nat).
Inductive oval := OZ (z : Z) | ON (n : nat) | OB (b : bool) | OL (l : list sent).

Definition sorted_nodup (l : list nat) : bool :=
  (fix go (l : list nat) : bool := match l with a :: ((b :: _) as r) => (a <? b)%nat && go r | _ => true end) l.
Definition divides_range (c : Z) (first last : nat) (f : nat -> Z) : bool :=
  forallb (fun i => f i mod c =? 0) (seq first (last - first)).

Fixpoint nodup_b (l : list nat) : bool :=
  match l with [] => true | a :: r => negb (existsb (Nat.eqb a) r) && nodup_b r end.

(* preconditions (PPL_ASSERTs and documented requirements), on sizes and abstract coefficients only *)
Definition uop_ok (u : uop) (e : expr) : bool :=
  let n := esize e in
  match u with
  | USet i _ | UAdd i _ => (i <? n)%nat
  | USwap i j => (i <? n)%nat && (j <? n)%nat
  | UShift i _ => (i <=? n)%nat
  | UResize m => (1 <=? m)%nat
  | UMulRange _ f l | UNegRange f l => (f <=? l)%nat && (l <=? n)%nat
  | UExactDiv c f l => negb (c =? 0) && (f <=? l)%nat && (l <=? n)%nat && divides_range c f l (ecoef e)
  | URemove vars => sorted_nodup vars && forallb (fun v => (1 <=? v)%nat && (v <? n)%nat) vars
  | UPermute c => nodup_b c && forallb (fun v => (1 <=? v)%nat && (v <? n)%nat) c
  | UNormalize | USignNormalize | UMulAll _ => true
  end.

Definition apply_uop (u : uop) (e : expr) : expr :=
  match e with
  | ED d =>
    ED (match u with
        | USet i v => d_set i v d
        | UAdd i v => d_add i v d
        | USwap i j => d_swap i j d
        | UShift i n => d_shift i n d
        | UResize n => d_resize n d
        | UMulRange c f l => d_map_range (Z.mul c) f l d
        | UNegRange f l => d_map_range Z.opp f l d
        | UExactDiv c f l => d_map_range (fun v => v / c) f l d
        | URemove vars => d_remove vars d
        | UPermute c => d_permute c d
        | UNormalize => d_normalize d
        | USignNormalize => d_sign_normalize d
        | UMulAll c => map (Z.mul c) d
        end)
  | ES s =>
    ES (match u with
        | USet i v => s_set i v s
        | UAdd i v => s_add i v s
        | USwap i j => s_swap i j s
        | UShift i n => s_shift i n s
        | UResize n => s_resize n s
        | UMulRange c f l => s_mul_range c f l s
        | UNegRange f l => s_map_range Z.opp f l s
        | UExactDiv c f l => s_map_range (fun v => v / c) f l s
        | URemove vars => s_remove vars s
        | UPermute c => s_permute c s
        | UNormalize => s_normalize s
        | USignNormalize => s_sign_normalize s
        | UMulAll c => if c =? 0 then mkSR (ssize s) [] else s_map_range (Z.mul c) 0 (ssize s) s
        end)
  end.

Definition bop_ok (b : bop) (x y : expr) : bool :=
  let n := esize x in let m := esize y in
  match b with
  | BCombine c1 c2 f l => negb (c1 =? 0) && negb (c2 =? 0) && (f <=? l)%nat && (l <=? n)%nat && (l <=? m)%nat
  | BCombineAll c1 c2 => negb (c1 =? 0) && negb (c2 =? 0)
  | BLaxScale c1 f l => negb (c1 =? 0) && (f <=? l)%nat && (l <=? n)%nat && (l <=? m)%nat
  | BLaxZero f l => (f <=? l)%nat && (l <=? n)%nat && (l <=? m)%nat
  | BLax0 c2 f l => negb (c2 =? 0) && (f <=? l)%nat && (l <=? n)%nat && (l <=? m)%nat
  end.

Definition combine_e (c1 c2 : Z) (f l : nat) (x y : expr) : expr :=
  match x, y with
  | ED d, _ => ED (d_combine c1 c2 f l d (ecoef y))
  | ES s, ES t => ES (s_combine_ss c1 c2 f l s t)
  | ES s, ED _ => ES (s_combine_sd c1 c2 f l s (ecoef y))
  end.

(* linear_combine_lax(y, 0, c2, ...): a zero coefficient visited by the iterator of a dense y is not stored
   (and resets the coefficient of x at that index) *)
Definition nz_entry (e : sent) : bool := negb (snd e =? 0).

Definition apply_bop (b : bop) (x y : expr) : expr :=
  match b with
  | BCombine c1 c2 f l => combine_e c1 c2 f l x y
  | BCombineAll c1 c2 =>
    let x' := if (esize x <? esize y)%nat then apply_uop (UResize (esize y)) x else x in
    combine_e c1 c2 0 (esize y) x' y
  | BLaxScale c1 f l => apply_uop (UMulRange c1 f l) x
  | BLaxZero f l => apply_uop (UMulRange 0 f l) x
  | BLax0 c2 f l =>
    match x with
    | ED d => ED (d_combine 0 c2 f l d (ecoef y))
    | ES s => ES (s_lax0 c2 f l s (filter nz_entry (visited f l y)))
    end
  end.

(* Formerly two combinations of representations broke the invariant of the sparse expression (findings
   C16-lax-mixed, C16-trunc-copy); both are repaired, no operation is unsafe any more (the flags are kept
   so that the interpreter keeps its shape; ExprProofs.run_never_unsafe shows they are never raised). *)
Definition bop_unsafe (b : bop) (x y : expr) : bool := false.
Definition copy_unsafe (sp : bool) (n : nat) (src : expr) : bool := false.

Definition apply_obs1 (o : obs1) (e : expr) : oval :=
  match e with
  | ED d =>
    match o with
    | OGet i => OZ (d_get i d) | OGcd f l => OZ (d_gcd f l d) | OAllZeroes f l => OB (d_all_zeroes f l d)
    | ONumZeroes f l => ON (d_num_zeroes f l d) | OFirstNZ f l => ON (d_first_nonzero f l d)
    | OLastNZ f l => ON (d_last_nonzero f l d) | OLastNZAll => ON (d_last_nonzero_all d)
    | OIter => OL (d_iter d) | OSize => ON (length d)
    end
  | ES s =>
    match o with
    | OGet i => OZ (s_get i s) | OGcd f l => OZ (s_gcd f l s) | OAllZeroes f l => OB (s_all_zeroes f l s)
    | ONumZeroes f l => ON (s_num_zeroes f l s) | OFirstNZ f l => ON (s_first_nonzero f l s)
    | OLastNZ f l => ON (s_last_nonzero f l s) | OLastNZAll => ON (s_last_nonzero_all s)
    | OIter => OL (s_iter s) | OSize => ON (ssize s)
    end
  end.
Definition obs1_ok (o : obs1) (e : expr) : bool :=
  let n := esize e in
  match o with
  | OGet i => (i <? n)%nat
  | OGcd f l | OAllZeroes f l | ONumZeroes f l | OFirstNZ f l | OLastNZ f l => (f <=? l)%nat && (l <=? n)%nat
  | _ => true
  end.

(* scalar_product_assign / is_equal_to / compare walk the two rows through their iterators: on the
   visited entries the result is the coefficient-wise one *)
Definition apply_obs2 (o : obs2) (x y : expr) : oval :=
  match o with
  | OScalar f l => OZ (fold_left (fun acc e => acc + snd e * ecoef y (fst e)) (visited f l x) 0)
  | OIsEqual => OB ((esize x =? esize y)%nat
                    && forallb (fun e => snd e =? ecoef y (fst e)) (visited 0 (esize x) x)
                    && forallb (fun e => snd e =? ecoef x (fst e)) (visited 0 (esize y) y))
  | OIsEqualRange f l => OB (forallb (fun e => snd e =? ecoef y (fst e)) (visited f l x)
                             && forallb (fun e => snd e =? ecoef x (fst e)) (visited f l y))
  | OCompare =>
    let vs := visited 1 (esize x) x ++ visited 1 (esize y) y in
    let ks := filter (fun i => existsb (fun e => (fst e =? i)%nat) vs) (seq 1 (Nat.max (esize x) (esize y) - 1)) in
    OZ (match find (fun i => negb (ecoef x i =? ecoef y i)) ks with
        | Some i => if ecoef x i <? ecoef y i then -2 else 2
        | None => match ecoef x 0 ?= ecoef y 0 with Lt => -1 | Gt => 1 | Eq => 0 end
        end)
  end.
Definition obs2_ok (o : obs2) (x y : expr) : bool :=
  match o with
  | OScalar f l | OIsEqualRange f l => (f <=? l)%nat && (l <=? esize x)%nat && (l <=? esize y)%nat
  | _ => true
  end.

(* ---- interpreter: registers 0..3; rho r = true means register r holds SPARSE expressions ---- *)
Definition nregs := 4%nat.
Definition state := list expr.
Definition init_state (rho : nat -> bool) : state :=
  map (fun r => if rho r then ES (s_zero 1) else ED (d_zero 1)) (seq 0 nregs).
Definition getr (st : state) (r : nat) : expr := nth r st (ED (d_zero 1)).
Fixpoint setr (st : state) (r : nat) (e : expr) : state :=
  match st, r with
  | [], _ => []
  | _ :: t, O => e :: t
  | h :: t, S r' => h :: setr t r' e
  end.

(* one step: new state, optional output, and whether the step was one of the unsafe combinations *)
Definition step (rho : nat -> bool) (st : state) (o : op) : state * option oval * bool :=
  match o with
  | New r n => if (1 <=? n)%nat then (setr st r (if rho r then ES (s_zero n) else ED (d_zero n)), None, false)
               else (st, None, false)
  | Un r u => let e := getr st r in
              if uop_ok u e then (setr st r (apply_uop u e), None, false) else (st, None, false)
  | Bin r s b => let x := getr st r in let y := getr st s in
                 if negb (r =? s)%nat && bop_ok b x y then (setr st r (apply_bop b x y), None, bop_unsafe b x y)
                 else (st, None, false)
  | Obs1 r o => let e := getr st r in
                if obs1_ok o e then (st, Some (apply_obs1 o e), false) else (st, None, false)
  | Obs2 r s o => let x := getr st r in let y := getr st s in
                  if obs2_ok o x y then (st, Some (apply_obs2 o x y), false) else (st, None, false)
  | Copy r s => (setr st r (convert (rho r) (getr st s)), None, false)
  | CopySized r s n => if (1 <=? n)%nat
                       then (setr st r (copy_sized (rho r) n (getr st s)), None, copy_unsafe (rho r) n (getr st s))
                       else (st, None, false)
  end.

Fixpoint run (rho : nat -> bool) (st : state) (h : list op) : list oval * bool :=
  match h with
  | [] => ([], false)
  | o :: h' =>
    let '(st', out, u) := step rho st o in
    let '(outs, us) := run rho st' h' in
    (match out with Some v => v :: outs | None => outs end, u || us)
  end.
Definition outputs (rho : nat -> bool) (h : list op) : list oval := fst (run rho (init_state rho) h).
Definition unsafe (rho : nat -> bool) (h : list op) : bool := snd (run rho (init_state rho) h).
