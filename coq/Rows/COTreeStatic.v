(* C16 -- the non-structural updates of the CO_Tree model:
   increase_keys_from, decr_loop (erase_element_and_shift_left), rebuild_bigger, filled / of_list /
   rebuild_smaller. *)
From Coq Require Import ZArith NArith List Lia Bool FMapPositive FMapFacts Sorted.
Import ListNotations.
Require Import PPLV.gen.Facts_COTree PPLV.Rows.COTree PPLV.Rows.COTreeSpec PPLV.Rows.COTreeBase
               PPLV.Rows.COTreeSearch.
Local Open Scope N_scope.

Lemma key_at_aset_other : forall a i j e, i <> j -> key_at (aset a i e) j = key_at a j.
Proof. intros. unfold key_at. rewrite aget_aset_other by assumption. reflexivity. Qed.

(* an array that is a slot-wise image of another one has the same structure *)
Lemma in_range_map : forall a b R (g : entry -> entry),
  (forall j, aget b j = option_map g (aget a j)) ->
  (forall i, aget a i <> None -> 1 <= i <= R) -> (forall i, aget b i <> None -> 1 <= i <= R).
Proof. intros a b R g H Hr i Hi. apply Hr. rewrite H in Hi. destruct (aget a i); [congruence|exact Hi]. Qed.

Lemma none_map : forall a b (g : entry -> entry),
  (forall j, aget b j = option_map g (aget a j)) -> forall j, aget b j = None <-> aget a j = None.
Proof. intros a b g H j. rewrite H. destruct (aget a j); cbn; split; congruence. Qed.

(* ------------------------------------------------------------------ *)
(* increase_keys_from                                                  *)
(* ------------------------------------------------------------------ *)
Definition shift_e (key n : N) (e : entry) : entry :=
  if key <=? fst e then (fst e + n, snd e) else e.

Lemma m_shift_up_map : forall key n m, m_shift_up key n m = map (shift_e key n) m.
Proof. reflexivity. Qed.

Lemma shift_e_mono : forall key n e1 e2, key_lt e1 e2 -> key_lt (shift_e key n e1) (shift_e key n e2).
Proof.
  intros key n [k1 d1] [k2 d2]. unfold key_lt, shift_e. cbn [fst snd].
  destruct (key <=? k1) eqn:E1; destruct (key <=? k2) eqn:E2; cbn [fst];
    try apply N.leb_le in E1; try apply N.leb_le in E2;
    try apply N.leb_gt in E1; try apply N.leb_gt in E2; lia.
Qed.

Lemma sorted_map_mono : forall (g : entry -> entry) m,
  (forall e1 e2, key_lt e1 e2 -> key_lt (g e1) (g e2)) -> sorted m -> sorted (map g m).
Proof.
  unfold sorted. intros g m Hg. induction m as [|e r IH]; intros Hs; cbn [map]; [constructor|].
  apply StronglySorted_inv in Hs. destruct Hs as [Hs HF]. constructor; [apply IH; assumption|].
  rewrite Forall_forall in *. intros x Hx. apply in_map_iff in Hx. destruct Hx as [y [<- Hy]].
  apply Hg. apply HF. assumption.
Qed.

Lemma sorted_shift_up : forall key n m, sorted m -> sorted (m_shift_up key n m).
Proof. intros. apply sorted_map_mono; [apply shift_e_mono|assumption]. Qed.

Section Incr.
Variables (R key n : N).

Lemma incr_loop_spec : forall f a p,
  (N.to_nat p < f)%nat -> p <= R -> (p = 0 \/ aget a p <> None) ->
  (forall q1 q2, q1 < q2 -> q2 <= p -> aget a q1 <> None -> aget a q2 <> None ->
                 key_at a q1 < key_at a q2) ->
  forall j, aget (incr_loop f (fuel_of R) a R p key n) j =
            if j <=? p then option_map (shift_e key n) (aget a j) else aget a j.
Proof.
  induction f; intros a p Hf HpR Hp Hs j; [lia|].
  cbn [incr_loop]. destruct (p =? 0) eqn:E0.
  - apply N.eqb_eq in E0. subst p. destruct (j <=? 0) eqn:Ej; [|reflexivity].
    apply N.leb_le in Ej. assert (j = 0) by lia. subst. reflexivity.
  - apply N.eqb_neq in E0. destruct Hp as [Hp|Hp]; [congruence|].
    destruct (aget a p) as [[k d]|] eqn:Ep; [|congruence].
    destruct (key <=? k) eqn:Ek.
    + destruct (scan_down_used a R (p - 1)) as [S1 [S2 S3]]; [lia|].
      set (p' := scan_down (fuel_of R) a R (p - 1)) in *.
      rewrite IHf.
      * destruct (j <=? p') eqn:E1; [apply N.leb_le in E1|apply N.leb_gt in E1].
        -- rewrite aget_aset_other by lia.
           destruct (j <=? p) eqn:E2; [reflexivity|apply N.leb_gt in E2; lia].
        -- destruct (N.lt_trichotomy j p) as [L|[L|L]].
           ++ rewrite aget_aset_other by lia. rewrite (S3 j) by lia.
              destruct (j <=? p); reflexivity.
           ++ subst j. rewrite aget_aset_same by assumption. rewrite N.leb_refl, Ep.
              cbn [option_map]. unfold shift_e. cbn [fst snd]. rewrite Ek. reflexivity.
           ++ rewrite aget_aset_other by lia.
              destruct (j <=? p) eqn:E2; [apply N.leb_le in E2; lia|reflexivity].
      * lia.
      * lia.
      * destruct S2 as [S2|[S2|S2]]; [left; assumption|lia|].
        right. rewrite aget_aset_other by lia. assumption.
      * intros q1 q2 H1 H2 U1 U2.
        rewrite aget_aset_other in U1 by lia. rewrite aget_aset_other in U2 by lia.
        rewrite !key_at_aset_other by lia. apply Hs; try assumption; lia.
    + apply N.leb_gt in Ek. destruct (j <=? p) eqn:E2; [|reflexivity]. apply N.leb_le in E2.
      destruct (aget a j) as [e|] eqn:Ej; [|reflexivity]. cbn [option_map]. f_equal.
      unfold shift_e. assert (fst e < key); [|destruct (key <=? fst e) eqn:E3; [apply N.leb_le in E3; lia|reflexivity]].
      assert (Kp : key_at a p = k) by (apply (key_at_some _ _ _ _ Ep)).
      assert (Kj : key_at a j = fst e) by (destruct e; apply (key_at_some _ _ _ _ Ej)).
      destruct (N.eq_dec j p) as [->|Hne]; [lia|].
      assert (key_at a j < key_at a p) by (apply Hs; try lia; congruence). lia.
Qed.

End Incr.

Lemma abs_tree_nil_of_size0 : forall t, inv t -> t_size t = 0 -> abs_tree t = [].
Proof.
  intros t [_ [_ [_ [Hlen _]]]] Hs. rewrite Hs in Hlen. destruct (abs_tree t); [reflexivity|cbn in Hlen; lia].
Qed.

Lemma increase_keys_from_pointwise : forall t key n, inv t -> t_size t <> 0 ->
  forall j, aget (t_arr (increase_keys_from t key n)) j = option_map (shift_e key n) (aget (t_arr t) j).
Proof.
  intros t key n Hinv Hs j. unfold increase_keys_from.
  destruct (t_size t =? 0) eqn:E; [apply N.eqb_eq in E; congruence|]. cbn [t_arr].
  destruct Hinv as [Hr [_ [Hso _]]].
  pose proof (sorted_abs_psorted t Hr Hso) as Hps.
  destruct (scan_down_used (t_arr t) (t_rsz t) (t_rsz t)) as [S1 [S2 S3]]; [lia|].
  set (p := scan_down (fuel_of (t_rsz t)) (t_arr t) (t_rsz t) (t_rsz t)) in *.
  rewrite incr_loop_spec.
  - destruct (j <=? p) eqn:Ej; [reflexivity|]. apply N.leb_gt in Ej.
    destruct (aget (t_arr t) j) eqn:Ea; [|reflexivity]. exfalso.
    assert (1 <= j <= t_rsz t) by (apply Hr; congruence).
    rewrite S3 in Ea by lia. discriminate.
  - unfold fuel_of. lia.
  - assumption.
  - destruct S2 as [S2|[S2|S2]]; [left; assumption|lia|right; assumption].
  - intros q1 q2 H1 _. apply Hps. assumption.
Qed.

Theorem increase_keys_from_abs : forall t key n, inv t ->
  abs_tree (increase_keys_from t key n) = m_shift_up key n (abs_tree t).
Proof.
  intros t key n Hinv. destruct (N.eq_dec (t_size t) 0) as [E|E].
  - unfold increase_keys_from. rewrite E. cbn [N.eqb].
    rewrite (abs_tree_nil_of_size0 t Hinv E). reflexivity.
  - rewrite m_shift_up_map. unfold abs_tree at 1.
    replace (t_rsz (increase_keys_from t key n)) with (t_rsz t)
      by (unfold increase_keys_from; destruct (t_size t =? 0); reflexivity).
    apply used_from_map. intros j _. apply increase_keys_from_pointwise; assumption.
Qed.

Theorem increase_keys_from_inv : forall t key n, inv t -> inv (increase_keys_from t key n).
Proof.
  intros t key n Hinv. destruct (N.eq_dec (t_size t) 0) as [E|E].
  - unfold increase_keys_from. rewrite E. exact Hinv.
  - pose proof (increase_keys_from_abs t key n Hinv) as Habs.
    pose proof (increase_keys_from_pointwise t key n Hinv E) as Hpw.
    assert (HR : t_rsz (increase_keys_from t key n) = t_rsz t)
      by (unfold increase_keys_from; destruct (t_size t =? 0); reflexivity).
    assert (HD : t_depth (increase_keys_from t key n) = t_depth t)
      by (unfold increase_keys_from; destruct (t_size t =? 0); reflexivity).
    assert (HS : t_size (increase_keys_from t key n) = t_size t)
      by (unfold increase_keys_from; destruct (t_size t =? 0); reflexivity).
    destruct Hinv as [Hr [Hsh [Hso [Hlen Hd]]]].
    split; [|split; [|split; [|split]]].
    + unfold in_range. rewrite HR. apply (in_range_map _ _ _ _ Hpw). exact Hr.
    + unfold shape. rewrite HR. intros i j Hi Hn Hj.
      apply (none_map _ _ _ Hpw). apply (none_map _ _ _ Hpw) in Hn. apply (Hsh i j); assumption.
    + rewrite Habs. apply sorted_shift_up. assumption.
    + rewrite Habs, HS. unfold m_shift_up. rewrite map_length. assumption.
    + rewrite HR, HD, HS. assumption.
Qed.

(* ------------------------------------------------------------------ *)
(* decr_loop (the key-decrementing loop of erase_element_and_shift_left) *)
(* ------------------------------------------------------------------ *)
Definition dec_e (e : entry) : entry := (fst e - 1, snd e).

Lemma decr_loop_spec : forall f a R p, (N.to_nat (R + 1 - p) <= f)%nat ->
  forall j, aget (decr_loop f a R p) j =
            if (p <=? j) && (j <=? R) then option_map dec_e (aget a j) else aget a j.
Proof.
  induction f; intros a R p Hf j.
  - cbn [decr_loop]. destruct (p <=? j) eqn:E1; [|reflexivity].
    destruct (j <=? R) eqn:E2; [|reflexivity]. apply N.leb_le in E1, E2. lia.
  - cbn [decr_loop]. destruct (R <? p) eqn:E.
    + apply N.ltb_lt in E. destruct (p <=? j) eqn:E1; [|reflexivity].
      destruct (j <=? R) eqn:E2; [|reflexivity]. apply N.leb_le in E1, E2. lia.
    + apply N.ltb_ge in E. rewrite IHf by lia.
      assert (Hp : forall q, aget (match aget a p with Some (k, d) => aset a p (k - 1, d) | None => a end) q
                       = if q =? p then option_map dec_e (aget a p) else aget a q).
      { intros q. destruct (q =? p) eqn:Eq.
        - apply N.eqb_eq in Eq. subst q. destruct (aget a p) as [[k d]|] eqn:Ep.
          + rewrite aget_aset_same by (apply (aget_some_pos _ _ _ Ep)). reflexivity.
          + rewrite Ep. reflexivity.
        - apply N.eqb_neq in Eq. destruct (aget a p) as [[k d]|]; [|reflexivity].
          apply aget_aset_other. congruence. }
      rewrite Hp. destruct (j =? p) eqn:Ej.
      * apply N.eqb_eq in Ej. subst j.
        replace (p + 1 <=? p) with false by (symmetry; apply N.leb_gt; lia).
        replace (p <=? p) with true by (symmetry; apply N.leb_le; lia).
        replace (p <=? R) with true by (symmetry; apply N.leb_le; lia). reflexivity.
      * apply N.eqb_neq in Ej.
        replace (p + 1 <=? j) with (p <=? j); [reflexivity|].
        destruct (p <=? j) eqn:E1; symmetry; [apply N.leb_le in E1; apply N.leb_le; lia|
                                               apply N.leb_gt in E1; apply N.leb_gt; lia].
Qed.

Theorem decr_loop_abs : forall t p, 1 <= p <= t_rsz t + 1 ->
  abs_tree (mkT (decr_loop (fuel_of (t_rsz t)) (t_arr t) (t_rsz t) p) (t_rsz t) (t_depth t) (t_size t)) =
    used_from (N.to_nat (p - 1)) (t_arr t) 1
    ++ map dec_e (used_from (N.to_nat (t_rsz t + 1 - p)) (t_arr t) p).
Proof.
  intros t p Hp. unfold abs_tree. cbn [t_arr t_rsz].
  replace (N.to_nat (t_rsz t)) with (N.to_nat (p - 1) + N.to_nat (t_rsz t + 1 - p))%nat by lia.
  rewrite used_from_app. replace (1 + N.of_nat (N.to_nat (p - 1))) with p by lia. f_equal.
  - apply used_from_ext. intros j Hj. rewrite decr_loop_spec by (unfold fuel_of; lia).
    replace (p <=? j) with false by (symmetry; apply N.leb_gt; lia). reflexivity.
  - apply used_from_map. intros j Hj. rewrite decr_loop_spec by (unfold fuel_of; lia).
    replace (p <=? j) with true by (symmetry; apply N.leb_le; lia).
    replace (j <=? t_rsz t) with true by (symmetry; apply N.leb_le; lia). reflexivity.
Qed.

(* ------------------------------------------------------------------ *)
(* rebuild_bigger_tree                                                 *)
(* ------------------------------------------------------------------ *)
Module PMP := FMapFacts.Properties PositiveMap.

Definition dbl_arr (a : arr) : arr :=
  PositiveMap.fold (fun p e acc => PositiveMap.add (xO p) e acc) a (PositiveMap.empty entry).

Lemma find_dbl_arr : forall (a : arr) q,
  PositiveMap.find q (dbl_arr a) = match q with xO p => PositiveMap.find p a | _ => None end.
Proof.
  intros a. unfold dbl_arr.
  apply (PMP.fold_rec_bis (P := fun m acc => forall q,
           PositiveMap.find q acc = match q with xO p => PositiveMap.find p m | _ => None end)).
  - intros m m' acc Heq H q. rewrite H. destruct q; try reflexivity. apply Heq.
  - intros q. rewrite PositiveMap.gempty. destruct q; try reflexivity. rewrite PositiveMap.gempty. reflexivity.
  - intros k e acc m' _ _ H q. destruct q as [q|q|].
    + rewrite PositiveMap.gso by discriminate. rewrite H. reflexivity.
    + destruct (Pos.eq_dec q k) as [->|Hne].
      * rewrite !PositiveMap.gss. reflexivity.
      * rewrite !PositiveMap.gso by congruence. rewrite H. reflexivity.
    + rewrite PositiveMap.gso by discriminate. rewrite H. reflexivity.
Qed.

Lemma aget_dbl_even : forall a i, aget (dbl_arr a) (2 * i) = aget a i.
Proof.
  intros a [|p]; [reflexivity|]. change (2 * N.pos p) with (N.pos p~0).
  unfold aget. rewrite find_dbl_arr. reflexivity.
Qed.

Lemma aget_dbl_odd : forall a i, aget (dbl_arr a) (2 * i + 1) = None.
Proof.
  intros a [|p].
  - change (2 * 0 + 1) with (N.pos 1). unfold aget. rewrite find_dbl_arr. reflexivity.
  - change (2 * N.pos p + 1) with (N.pos p~1). unfold aget. rewrite find_dbl_arr. reflexivity.
Qed.

Lemma used_from_dbl : forall n a i,
  used_from (n + n) (dbl_arr a) (2 * i + 1) = used_from n a (i + 1).
Proof.
  induction n; intros a i; [reflexivity|].
  replace (S n + S n)%nat with (S (S (n + n))) by lia. cbn [used_from].
  rewrite aget_dbl_odd. replace (2 * i + 1 + 1) with (2 * (i + 1)) by lia.
  rewrite aget_dbl_even. replace (2 * (i + 1) + 1) with (2 * (i + 1) + 1) by reflexivity.
  rewrite IHn. reflexivity.
Qed.

Lemma used_from_dbl_all : forall n a, used_from (n + n + 1) (dbl_arr a) 1 = used_from n a 1.
Proof.
  intros n a. rewrite used_from_app.
  pose proof (used_from_dbl n a 0) as H. change (2 * 0 + 1) with 1 in H. change (0 + 1) with 1 in H.
  rewrite H. cbn [used_from]. replace (1 + N.of_nat (n + n)) with (2 * N.of_nat n + 1) by lia.
  rewrite aget_dbl_odd. apply app_nil_r.
Qed.

Lemma rebuild_bigger_arr : forall t, t_rsz t <> 0 -> t_arr (rebuild_bigger t) = dbl_arr (t_arr t).
Proof.
  intros t H. unfold rebuild_bigger. destruct (t_rsz t =? 0) eqn:E; [apply N.eqb_eq in E; congruence|].
  reflexivity.
Qed.

Lemma rebuild_bigger_rsz : forall t, t_rsz (rebuild_bigger t) = 2 * t_rsz t + 1 \/
                                     (t_rsz t = 0 /\ t_rsz (rebuild_bigger t) = 3).
Proof.
  intros t. unfold rebuild_bigger. destruct (t_rsz t =? 0) eqn:E.
  - apply N.eqb_eq in E. right. split; [assumption|reflexivity].
  - left. reflexivity.
Qed.

Theorem rebuild_bigger_abs : forall t, abs_tree (rebuild_bigger t) = abs_tree t.
Proof.
  intros t. destruct (N.eq_dec (t_rsz t) 0) as [E|E].
  - unfold rebuild_bigger, abs_tree. rewrite E. cbn [N.eqb t_rsz t_arr].
    rewrite used_from_nil by (intros; apply aget_empty). reflexivity.
  - unfold abs_tree. rewrite (rebuild_bigger_arr t E).
    replace (t_rsz (rebuild_bigger t)) with (2 * t_rsz t + 1)
      by (unfold rebuild_bigger; destruct (t_rsz t =? 0) eqn:E'; [apply N.eqb_eq in E'; congruence|reflexivity]).
    replace (N.to_nat (2 * t_rsz t + 1)) with ((N.to_nat (t_rsz t) + N.to_nat (t_rsz t)) + 1)%nat by lia.
    apply used_from_dbl_all.
Qed.

Lemma parity_cases : forall j, (exists m, j = 2 * m) \/ (exists m, j = 2 * m + 1).
Proof.
  intros j. destruct (N.Even_or_Odd j) as [[m H]|[m H]]; [left|right]; exists m; assumption.
Qed.

Theorem rebuild_bigger_in_range : forall t, in_range t -> in_range (rebuild_bigger t).
Proof.
  intros t Hr i Hi. destruct (N.eq_dec (t_rsz t) 0) as [E|E].
  - exfalso. apply Hi. unfold rebuild_bigger. rewrite E. cbn [N.eqb t_arr]. apply aget_empty.
  - rewrite (rebuild_bigger_arr t E) in Hi.
    replace (t_rsz (rebuild_bigger t)) with (2 * t_rsz t + 1)
      by (unfold rebuild_bigger; destruct (t_rsz t =? 0) eqn:E'; [apply N.eqb_eq in E'; congruence|reflexivity]).
    destruct (parity_cases i) as [[m ->]|[m ->]].
    + rewrite aget_dbl_even in Hi. apply Hr in Hi. lia.
    + rewrite aget_dbl_odd in Hi. congruence.
Qed.

Theorem rebuild_bigger_shape : forall t, shape t -> shape (rebuild_bigger t).
Proof.
  intros t Hsh i j Hi Hn Hj. destruct (N.eq_dec (t_rsz t) 0) as [E|E].
  - unfold rebuild_bigger. rewrite E. cbn [N.eqb t_arr]. apply aget_empty.
  - rewrite (rebuild_bigger_arr t E) in *.
    replace (t_rsz (rebuild_bigger t)) with (2 * t_rsz t + 1) in Hi
      by (unfold rebuild_bigger; destruct (t_rsz t =? 0) eqn:E'; [apply N.eqb_eq in E'; congruence|reflexivity]).
    destruct (parity_cases i) as [[m ->]|[m ->]].
    + rewrite aget_dbl_even in Hn. rewrite lowbit_double in Hj.
      assert (m <> 0) by lia. pose proof (lowbit_bounds m H).
      destruct (parity_cases j) as [[m' ->]|[m' ->]].
      * rewrite aget_dbl_even. apply (Hsh m m'); [lia|assumption|lia].
      * apply aget_dbl_odd.
    + rewrite lowbit_odd in Hj. assert (j = 2 * m + 1) by lia. subst j. apply aget_dbl_odd.
Qed.

Theorem rebuild_bigger_sorted : forall t, sorted (abs_tree t) -> sorted (abs_tree (rebuild_bigger t)).
Proof. intros t H. rewrite rebuild_bigger_abs. assumption. Qed.

Theorem rebuild_bigger_depth : forall t,
  ((t_rsz t = 0 /\ t_depth t = 0) \/ (2 <= t_depth t /\ t_rsz t = 2 ^ t_depth t - 1)) ->
  2 <= t_depth (rebuild_bigger t) /\ t_rsz (rebuild_bigger t) = 2 ^ t_depth (rebuild_bigger t) - 1
  /\ t_size (rebuild_bigger t) = t_size t \/ (t_rsz t = 0 /\ t_size (rebuild_bigger t) = 0
       /\ t_depth (rebuild_bigger t) = 2 /\ t_rsz (rebuild_bigger t) = 3).
Proof.
  intros t [[H1 H2]|[H1 H2]].
  - right. unfold rebuild_bigger. rewrite H1. cbn. tauto.
  - left. unfold rebuild_bigger.
    destruct (t_rsz t =? 0) eqn:E.
    + apply N.eqb_eq in E. pose proof (pow2_pos (t_depth t)).
      assert (2 ^ 2 <= 2 ^ t_depth t) by (apply N.pow_le_mono_r; lia). cbn in H0. lia.
    + cbn [t_depth t_rsz t_size]. split; [lia|]. split; [|reflexivity].
      rewrite H2 at 1. replace (t_depth t + 1) with (N.succ (t_depth t)) by lia.
      rewrite N.pow_succ_r'. pose proof (pow2_pos (t_depth t)). lia.
Qed.

Theorem rebuild_bigger_inv : forall t, inv t -> 0 < t_size t -> inv (rebuild_bigger t).
Proof.
  intros t Hinv Hs. destruct Hinv as [Hr [Hsh [Hso [Hlen Hd]]]].
  split; [apply rebuild_bigger_in_range; assumption|].
  split; [apply rebuild_bigger_shape; assumption|].
  split; [apply rebuild_bigger_sorted; assumption|].
  assert (E : t_rsz t <> 0).
  { intros C. unfold abs_tree in Hlen. rewrite C in Hlen. cbn in Hlen. lia. }
  assert (HS : t_size (rebuild_bigger t) = t_size t)
    by (unfold rebuild_bigger; destruct (t_rsz t =? 0) eqn:E'; [apply N.eqb_eq in E'; congruence|reflexivity]).
  split; [rewrite rebuild_bigger_abs, HS; assumption|].
  right. destruct Hd as [[H1 _]|[H1 [H2 H3]]]; [congruence|].
  destruct (rebuild_bigger_depth t) as [[A [B C]]|[A _]]; [right; tauto| |congruence].
  split; [assumption|]. split; [assumption|]. rewrite HS. assumption.
Qed.

(* ------------------------------------------------------------------ *)
(* fill / filled / of_list / rebuild_smaller                           *)
(* ------------------------------------------------------------------ *)
Definition fill_post (h i n : N) (st st' : arr * list entry) : Prop :=
  let lo := i - (2 ^ h - 1) in
  let hi := i + (2 ^ h - 1) in
  exists l1, snd st = l1 ++ snd st' /\ N.of_nat (length l1) = n /\
    used_from (N.to_nat (2 ^ N.succ h - 1)) (fst st') lo = l1 /\
    (forall j, j < lo \/ hi < j -> aget (fst st') j = aget (fst st) j) /\
    (forall p j, lo <= p <= hi -> aget (fst st') p = None ->
                 p - (lowbit p - 1) <= j <= p + (lowbit p - 1) -> aget (fst st') j = None).

Lemma half_facts : forall n, 2 <= n ->
  let half := (n + 1) / 2 in 1 <= half /\ half <= n /\ 2 * half <= n + 1 /\ n < 2 * half + 1.
Proof.
  intros n Hn half. assert (H2 : 2 <> 0) by lia.
  pose proof (N.div_mod (n + 1) 2 H2) as H. pose proof (N.mod_lt (n + 1) 2 H2) as H0.
  fold half in H. clearbody half. set (r := (n + 1) mod 2) in *. clearbody r. lia.
Qed.

Lemma fill_spec : forall f h i n st, node h i -> (N.to_nat h < f)%nat ->
  n <= 2 ^ N.succ h - 1 -> n <= N.of_nat (length (snd st)) ->
  (forall j, i - (2 ^ h - 1) <= j <= i + (2 ^ h - 1) -> aget (fst st) j = None) ->
  fill_post h i n st (fill f n (i, 2 ^ h) st).
Proof.
  induction f; intros h i n st Hn Hf Hcap Hlen Hemp; [lia|].
  pose proof (pow2_pos h) as Ho. pose proof (node_ge _ _ Hn) as Hge.
  assert (Hw : 2 ^ N.succ h = 2 * 2 ^ h) by apply N.pow_succ_r'.
  cbn [fill]. destruct (n =? 0) eqn:E0.
  { apply N.eqb_eq in E0. subst n. exists []. cbn [app length N.of_nat].
    split; [reflexivity|]. split; [reflexivity|]. split.
    - apply used_from_nil. intros j Hj. apply Hemp. lia.
    - split; [reflexivity|]. intros p j Hp _ Hj.
      destruct (subtree_contains h i p Hn Hp) as [_ [A2 [A3 _]]]. apply Hemp. lia. }
  apply N.eqb_neq in E0.
  destruct (n =? 1) eqn:E1.
  { apply N.eqb_eq in E1. subst n. cbn [fst]. unfold fill_one.
    destruct st as [a l]. cbn [fst snd] in *. destruct l as [|e l']; [cbn in Hlen; lia|].
    unfold fill_post. cbn [fst snd]. exists [e]. split; [reflexivity|]. split; [reflexivity|]. split.
    - rewrite used_from_aset by lia.
      rewrite used_from_nil by (intros j Hj; apply Hemp; lia).
      rewrite used_from_nil by (intros j Hj; apply Hemp; lia). reflexivity.
    - split; [intros j Hj; apply aget_aset_other; lia|].
      intros p j Hp Hnone Hj.
      assert (p <> i) by (intros ->; rewrite aget_aset_same in Hnone by lia; discriminate).
      destruct (subtree_contains h i p Hn Hp) as [_ [A2 [A3 A4]]]. specialize (A4 H).
      rewrite aget_aset_other by lia. apply Hemp. lia. }
  apply N.eqb_neq in E1.
  assert (Hn2 : 2 <= n) by lia.
  assert (Hh : h <> 0) by (intros ->; rewrite N.pow_1_r in Hcap; lia).
  assert (Hhs : h = N.succ (N.pred h)) by (symmetry; apply N.succ_pred; assumption).
  set (h' := N.pred h) in *. clearbody h'. subst h.
  destruct (subtree_split _ _ Hn) as [S1 [S2 [S3 [S4 [S5 S6]]]]].
  pose proof (pow2_pos h') as Hc.
  destruct (half_facts n Hn2) as [F1 [F2 [F3 F4]]]. set (half := (n + 1) / 2) in *.
  rewrite it_left_node, it_right_node. cbn [fst].
  (* left subtree *)
  assert (P1 : fill_post h' (i - 2 ^ h') (half - 1) st (fill f (half - 1) (i - 2 ^ h', 2 ^ h') st)).
  { apply IHf; [apply node_left; assumption|lia| |lia|intros j Hj; apply Hemp; lia].
    lia. }
  set (st1 := fill f (half - 1) (i - 2 ^ h', 2 ^ h') st) in *. clearbody st1.
  destruct P1 as [l1 [L1 [L2 [L3 [L4 L5]]]]].
  (* the node itself *)
  destruct st as [a l]. destruct st1 as [a1 r1]. cbn [fst snd] in *.
  assert (Hr1 : (1 <= length r1)%nat).
  { rewrite L1, app_length in Hlen. lia. }
  destruct r1 as [|e r2]; [cbn in Hr1; lia|]. unfold fill_one at 1. cbn [fst snd].
  (* right subtree *)
  assert (P3 : fill_post h' (i + 2 ^ h') (n - half) (aset a1 i e, r2)
                 (fill f (n - half) (i + 2 ^ h', 2 ^ h') (aset a1 i e, r2))).
  { apply IHf; [apply node_right; assumption|lia| | |].
    - lia.
    - cbn [snd]. rewrite L1, app_length in Hlen. cbn [length] in Hlen. lia.
    - cbn [fst]. intros j Hj. rewrite aget_aset_other by lia. rewrite L4 by lia. apply Hemp. lia. }
  set (st3 := fill f (n - half) (i + 2 ^ h', 2 ^ h') (aset a1 i e, r2)) in *. clearbody st3.
  destruct P3 as [l3 [M1 [M2 [M3 [M4 M5]]]]]. destruct st3 as [a3 r3]. cbn [fst snd] in *.
  assert (A3left : forall j, j < i -> aget a3 j = aget a1 j).
  { intros j Hj. rewrite M4 by lia. apply aget_aset_other. lia. }
  assert (A3i : aget a3 i = Some e).
  { rewrite M4 by lia. apply aget_aset_same. lia. }
  unfold fill_post. cbn [fst snd]. exists (l1 ++ e :: l3). split; [|split; [|split; [|split]]].
  - rewrite L1, M1, <- app_assoc. reflexivity.
  - rewrite app_length. cbn [length]. lia.
  - rewrite (used_from_split_at _ a3 _ i) by lia. rewrite A3i.
    replace (N.to_nat (i - (i - (2 ^ N.succ h' - 1)))) with (N.to_nat (2 ^ N.succ h' - 1)) by lia.
    replace (N.to_nat (i - (2 ^ N.succ h' - 1) + N.of_nat (N.to_nat (2 ^ N.succ (N.succ h') - 1)) - i - 1))
      with (N.to_nat (2 ^ N.succ h' - 1))
      by (rewrite (N.pow_succ_r' 2 (N.succ h')); lia).
    f_equal; [|cbn [app]; f_equal].
    + rewrite <- L3. rewrite S1. apply used_from_ext. intros j Hj. apply A3left. lia.
    + rewrite <- M3. rewrite S3. reflexivity.
  - intros j Hj. rewrite M4 by lia. rewrite aget_aset_other by lia. apply L4. lia.
  - intros p j Hp Hnone Hj.
    destruct (N.lt_trichotomy p i) as [L|[L|L]].
    + rewrite A3left in Hnone by assumption.
      destruct (subtree_contains h' (i - 2 ^ h') p (node_left _ _ Hn)) as [_ [B2 [B3 _]]]; [lia|].
      rewrite A3left by lia. apply (L5 p j); [lia|assumption|assumption].
    + subst p. congruence.
    + apply (M5 p j); [lia|assumption|assumption].
Qed.

Lemma log2_pow2_pred : forall d, N.log2 (2 ^ N.succ d - 1) = d.
Proof.
  intros d. apply N.log2_unique; [lia|]. pose proof (pow2_pos d). pose proof (N.pow_succ_r' 2 d). lia.
Qed.

Lemma fuel_of_depth_ok : forall d, (N.to_nat d < fuel_of (2 ^ N.succ d - 1))%nat.
Proof.
  intros d. unfold fuel_of. pose proof (N.pow_gt_lin_r 2 (N.succ d)). lia.
Qed.

Lemma init_tree_pow2 : forall d,
  init_tree (2 ^ N.succ d - 1) = mkT (PositiveMap.empty entry) (2 ^ N.succ d - 1) (N.succ d) 0.
Proof.
  intros d. unfold init_tree. pose proof (pow2_pos d). pose proof (N.pow_succ_r' 2 d).
  destruct (2 ^ N.succ d - 1 =? 0) eqn:E; [apply N.eqb_eq in E; lia|].
  rewrite log2_pow2_pred, N.add_1_r. reflexivity.
Qed.

Theorem filled_spec : forall d l, N.of_nat (length l) <= 2 ^ N.succ d - 1 ->
  let t := filled (2 ^ N.succ d - 1) l in
  abs_tree t = l /\ t_rsz t = 2 ^ N.succ d - 1 /\ t_depth t = N.succ d /\
  t_size t = N.of_nat (length l) /\ in_range t /\ shape t.
Proof.
  intros d l Hl t. subst t. unfold filled. rewrite init_tree_pow2. cbn [t_rsz t_arr t_depth].
  rewrite it_root_pow2.
  match goal with |- context [fill ?f ?n ?it ?st] =>
    assert (H : fill_post d (2 ^ d) n st (fill f n it st));
    [apply fill_spec; [apply root_node|apply fuel_of_depth_ok|exact Hl|apply N.le_refl|intros; apply aget_empty]|];
    destruct (fill f n it st) as [a' r']
  end.
  destruct H as [l1 [L1 [L2 [L3 [L4 L5]]]]]. cbn [fst snd] in *.
  destruct (root_range d) as [E1 E2]. rewrite E1 in *. rewrite E2 in *.
  assert (r' = []).
  { assert (length l = length l1 + length r')%nat by (rewrite L1 at 1; apply app_length).
    destruct r'; [reflexivity|cbn [length] in H; lia]. }
  subst r'. rewrite app_nil_r in L1. subst l1.
  split; [exact L3|]. split; [reflexivity|]. split; [reflexivity|]. split; [reflexivity|]. split.
  - intros i Hi. cbn [t_arr t_rsz] in *.
    destruct (N.lt_ge_cases i 1) as [C|C]; [exfalso; apply Hi; rewrite L4 by lia; apply aget_empty|].
    destruct (N.lt_ge_cases (2 ^ N.succ d - 1) i) as [C'|C']; [exfalso; apply Hi; rewrite L4 by lia; apply aget_empty|].
    lia.
  - intros i j Hi Hn Hj. cbn [t_arr t_rsz] in *. apply (L5 i j); assumption.
Qed.

Lemma inv_empty_tree : inv empty_tree.
Proof.
  split; [|split; [|split; [|split]]].
  - intros i Hi. exfalso. apply Hi. apply aget_empty.
  - intros i j _ _ _. apply aget_empty.
  - constructor.
  - reflexivity.
  - left. split; reflexivity.
Qed.

Theorem filled_inv : forall d l, 1 <= d -> l <> [] -> sorted l ->
  N.of_nat (length l) <= 2 ^ N.succ d - 1 -> inv (filled (2 ^ N.succ d - 1) l).
Proof.
  intros d l Hd Hne Hs Hl. destruct (filled_spec d l Hl) as [A [B [C [D [E F]]]]].
  split; [assumption|]. split; [assumption|]. split; [rewrite A; assumption|].
  split; [rewrite A, D; reflexivity|]. right. rewrite B, C, D.
  split; [lia|]. split; [reflexivity|]. destruct l; [congruence|cbn [length]; lia].
Qed.

Lemma of_list_filled : forall l, l <> [] ->
  exists d, 1 <= d /\ N.of_nat (length l) <= 2 ^ N.succ d - 1 /\ of_list l = filled (2 ^ N.succ d - 1) l.
Proof.
  intros l Hne. unfold of_list. set (n := N.of_nat (length l)).
  assert (Hn : 0 < n) by (destruct l; [congruence|unfold n; cbn [length]; lia]).
  destruct (n =? 0) eqn:E0; [apply N.eqb_eq in E0; lia|].
  destruct (N.log2_spec n Hn) as [Lo Hi]. replace (N.log2 n + 1) with (N.succ (N.log2 n)) by lia.
  set (R0 := 2 ^ N.succ (N.log2 n) - 1).
  destruct (gt_ratio n R0 max_density_percent && negb (R0 =? 3)) eqn:Eg.
  - exists (N.succ (N.log2 n)). split; [lia|]. 
    assert (2 * R0 + 1 = 2 ^ N.succ (N.succ (N.log2 n)) - 1).
    { unfold R0. rewrite (N.pow_succ_r' 2 (N.succ (N.log2 n))). pose proof (pow2_pos (N.succ (N.log2 n))). lia. }
    rewrite H. split; [|reflexivity]. rewrite <- H. unfold R0. lia.
  - destruct (N.eq_dec (N.log2 n) 0) as [El|El].
    + exfalso. rewrite El in *. assert (n = 1) by (rewrite N.pow_1_r in Hi; lia).
      unfold R0 in Eg. rewrite H in Eg. vm_compute in Eg. discriminate.
    + exists (N.log2 n). split; [lia|]. split; [unfold R0 in *; lia|reflexivity].
Qed.

Theorem of_list_abs : forall l, abs_tree (of_list l) = l.
Proof.
  intros l. destruct l as [|e l]; [reflexivity|].
  destruct (of_list_filled (e :: l)) as [d [Hd [Hl ->]]]; [discriminate|].
  apply (filled_spec d (e :: l) Hl).
Qed.

Theorem of_list_inv : forall l, sorted l -> inv (of_list l).
Proof.
  intros l Hs. destruct l as [|e l]; [apply inv_empty_tree|].
  destruct (of_list_filled (e :: l)) as [d [Hd [Hl ->]]]; [discriminate|].
  apply filled_inv; try assumption. discriminate.
Qed.

Lemma half_rsz : forall d, (2 ^ N.succ (N.succ d) - 1) / 2 = 2 ^ N.succ d - 1.
Proof.
  intros d. pose proof (pow2_pos (N.succ d)). rewrite (N.pow_succ_r' 2 (N.succ d)).
  symmetry. apply (N.div_unique _ 2 _ 1); lia.
Qed.

Theorem rebuild_smaller_spec : forall t d, t_rsz t = 2 ^ N.succ (N.succ d) - 1 ->
  N.of_nat (length (abs_tree t)) <= 2 ^ N.succ d - 1 ->
  let t' := rebuild_smaller t in
  abs_tree t' = abs_tree t /\ t_rsz t' = 2 ^ N.succ d - 1 /\ t_depth t' = N.succ d /\
  t_size t' = N.of_nat (length (abs_tree t)) /\ in_range t' /\ shape t'.
Proof.
  intros t d HR Hl t'. subst t'. unfold rebuild_smaller. rewrite HR, half_rsz.
  apply filled_spec. assumption.
Qed.

Theorem rebuild_smaller_inv : forall t d, inv t -> 0 < t_size t -> 1 <= d ->
  t_rsz t = 2 ^ N.succ (N.succ d) - 1 -> t_size t <= 2 ^ N.succ d - 1 ->
  inv (rebuild_smaller t) /\ abs_tree (rebuild_smaller t) = abs_tree t.
Proof.
  intros t d Hinv Hs Hd HR Hsz. destruct Hinv as [_ [_ [Hso [Hlen _]]]].
  unfold rebuild_smaller. rewrite HR, half_rsz. split.
  - apply filled_inv; try assumption; [|rewrite Hlen; assumption].
    intros C. rewrite C in Hlen. cbn in Hlen. lia.
  - apply filled_spec. rewrite Hlen; assumption.
Qed.

(* ------------------------------------------------------------------ *)
(* the shifting half of erase_element_and_shift_left                   *)
(* ------------------------------------------------------------------ *)
Definition unshift_e (k : N) (e : entry) : entry := if k <? fst e then (fst e - 1, snd e) else e.

Lemma m_erase_shift_map : forall k m, m_erase_shift k m = map (unshift_e k) (m_erase k m).
Proof. reflexivity. Qed.

Lemma sorted_map_mono_in : forall (g : entry -> entry) m,
  (forall e1 e2, In e1 m -> In e2 m -> key_lt e1 e2 -> key_lt (g e1) (g e2)) ->
  sorted m -> sorted (map g m).
Proof.
  unfold sorted. intros g m. induction m as [|e r IH]; intros Hg Hs; cbn [map]; [constructor|].
  apply StronglySorted_inv in Hs. destruct Hs as [Hs HF]. constructor.
  - apply IH; [|assumption]. intros e1 e2 H1 H2. apply Hg; right; assumption.
  - rewrite Forall_forall in *. intros x Hx. apply in_map_iff in Hx. destruct Hx as [y [<- Hy]].
    apply Hg; [left; reflexivity|right; assumption|]. apply HF. assumption.
Qed.

Lemma sorted_unshift : forall k m, sorted m -> (forall e, In e m -> fst e <> k) ->
  sorted (map (unshift_e k) m).
Proof.
  intros k m Hs Hk. apply sorted_map_mono_in; [|assumption].
  intros [k1 d1] [k2 d2] H1 H2. apply Hk in H1. apply Hk in H2. unfold key_lt, unshift_e. cbn [fst snd] in *.
  destruct (k <? k1) eqn:E1; destruct (k <? k2) eqn:E2; cbn [fst];
    try apply N.ltb_lt in E1; try apply N.ltb_lt in E2;
    try apply N.ltb_ge in E1; try apply N.ltb_ge in E2; lia.
Qed.

(* the tree after the key-decrementing loop started at the lower-bound position p of an absent key k *)
Definition decr_from (t : tree) (p : N) : tree :=
  if p =? t_end t then t
  else mkT (decr_loop (fuel_of (t_rsz t)) (t_arr t) (t_rsz t) p) (t_rsz t) (t_depth t) (t_size t).

Lemma decr_from_pointwise : forall t k p, inv t -> lb_pos t k p ->
  (forall q, aget (t_arr t) q <> None -> key_at (t_arr t) q <> k) ->
  forall j, aget (t_arr (decr_from t p)) j = option_map (unshift_e k) (aget (t_arr t) j).
Proof.
  intros t k p Hinv Hlb Habs j. destruct Hinv as [Hr [_ [Hso _]]].
  pose proof (sorted_abs_psorted t Hr Hso) as Hps.
  assert (Hfix : forall e, aget (t_arr t) j = Some e -> j < p -> unshift_e k e = e).
  { intros e He L. assert (U : aget (t_arr t) j <> None) by congruence.
    destruct (lb_pos_split t k p Hr Hps Hlb j U) as [A _]. specialize (A L).
    assert (key_at (t_arr t) j = fst e) by (destruct e; apply (key_at_some _ _ _ _ He)).
    unfold unshift_e. destruct (k <? fst e) eqn:E; [apply N.ltb_lt in E; lia|reflexivity]. }
  assert (Hdec : forall e, aget (t_arr t) j = Some e -> p <= j -> unshift_e k e = dec_e e).
  { intros e He L. assert (U : aget (t_arr t) j <> None) by congruence.
    destruct (lb_pos_split t k p Hr Hps Hlb j U) as [_ A]. specialize (A L).
    pose proof (Habs j U).
    assert (key_at (t_arr t) j = fst e) by (destruct e; apply (key_at_some _ _ _ _ He)).
    unfold unshift_e. destruct (k <? fst e) eqn:E; [reflexivity|apply N.ltb_ge in E; lia]. }
  unfold decr_from. destruct (p =? t_end t) eqn:Ep.
  - apply N.eqb_eq in Ep. destruct (aget (t_arr t) j) as [e|] eqn:Ee; [|reflexivity].
    cbn [option_map]. rewrite (Hfix e eq_refl); [reflexivity|].
    assert (1 <= j <= t_rsz t) by (apply Hr; congruence). unfold t_end in Ep. lia.
  - cbn [t_arr]. rewrite decr_loop_spec by (unfold fuel_of; lia).
    destruct (aget (t_arr t) j) as [e|] eqn:Ee; [|destruct ((p <=? j) && (j <=? t_rsz t)); reflexivity].
    assert (Rj : 1 <= j <= t_rsz t) by (apply Hr; congruence).
    destruct (p <=? j) eqn:E1.
    + apply N.leb_le in E1. replace (j <=? t_rsz t) with true by (symmetry; apply N.leb_le; lia).
      cbn [andb option_map]. rewrite (Hdec e eq_refl E1). reflexivity.
    + apply N.leb_gt in E1. cbn [andb option_map]. rewrite (Hfix e eq_refl E1). reflexivity.
Qed.

Theorem decr_from_abs : forall t k p, inv t -> lb_pos t k p ->
  (forall q, aget (t_arr t) q <> None -> key_at (t_arr t) q <> k) ->
  abs_tree (decr_from t p) = map (unshift_e k) (abs_tree t).
Proof.
  intros t k p Hinv Hlb Habs. unfold abs_tree.
  replace (t_rsz (decr_from t p)) with (t_rsz t) by (unfold decr_from; destruct (p =? t_end t); reflexivity).
  apply used_from_map. intros j _. apply decr_from_pointwise; assumption.
Qed.

Theorem decr_from_inv : forall t k p, inv t -> lb_pos t k p ->
  (forall q, aget (t_arr t) q <> None -> key_at (t_arr t) q <> k) ->
  inv (decr_from t p).
Proof.
  intros t k p Hinv Hlb Habs.
  pose proof (decr_from_abs t k p Hinv Hlb Habs) as HA.
  pose proof (decr_from_pointwise t k p Hinv Hlb Habs) as Hpw.
  assert (HR : t_rsz (decr_from t p) = t_rsz t) by (unfold decr_from; destruct (p =? t_end t); reflexivity).
  assert (HD : t_depth (decr_from t p) = t_depth t) by (unfold decr_from; destruct (p =? t_end t); reflexivity).
  assert (HS : t_size (decr_from t p) = t_size t) by (unfold decr_from; destruct (p =? t_end t); reflexivity).
  destruct Hinv as [Hr [Hsh [Hso [Hlen Hd]]]].
  split; [|split; [|split; [|split]]].
  - unfold in_range. rewrite HR. apply (in_range_map _ _ _ _ Hpw). exact Hr.
  - unfold shape. rewrite HR. intros i j Hi Hn Hj.
    apply (none_map _ _ _ Hpw). apply (none_map _ _ _ Hpw) in Hn. apply (Hsh i j); assumption.
  - rewrite HA. apply sorted_unshift; [assumption|].
    intros e He. apply in_abs_tree_range in He; [|assumption]. destruct He as [q Hq].
    assert (key_at (t_arr t) q = fst e) by (destruct e; apply (key_at_some _ _ _ _ Hq)).
    rewrite <- H. apply Habs. congruence.
  - rewrite HA, HS, map_length. assumption.
  - rewrite HR, HD, HS. assumption.
Qed.

(* erase_element_and_shift_left is erase_key followed by decr_from *)
Lemma erase_element_and_shift_left_unfold : forall t key,
  erase_element_and_shift_left t key = decr_from (fst (erase_key t key)) (snd (erase_key t key)).
Proof.
  intros t key. unfold erase_element_and_shift_left, decr_from.
  destruct (erase_key t key) as [t' p]. reflexivity.
Qed.
