(* C16 -- small facts proved directly: unstored entries read as zero; the two refutations
   (the faithful model, like the code, breaks dense/sparse interchangeability on two mixed operations). *)
From Coq Require Import ZArith List Lia Bool Arith.
Import ListNotations.
Require Import PPLV.Rows.Abs PPLV.Rows.Dense PPLV.Rows.Sparse PPLV.Rows.Expr.
Local Open Scope Z_scope.

Lemma unstored_reads_zero_l : forall l i, s_mem i l = false -> s_lookup i l = 0.
Proof.
  induction l as [|[k v] r IH]; intros i H; cbn [s_lookup s_mem] in *; [reflexivity|].
  destruct (k =? i)%nat eqn:E; cbn [orb] in H; [discriminate|]. apply IH, H.
Qed.

Lemma unstored_reads_zero_s : forall s i, s_mem i (sents s) = false -> s_get i s = 0.
Proof. intros s i H. unfold s_get. apply unstored_reads_zero_l, H. Qed.

Definition all_dense : nat -> bool := fun _ => false.
Definition reg0_sparse : nat -> bool := fun r => (r =? 0)%nat.

(* linear_combine_lax(y, 0, c2, 0, 3) with x sparse and y dense: the former counterexample now agrees *)
Definition lax_witness : list op :=
  [New 0 3; New 1 3; Un 1 (USet 0 2); Bin 0 1 (BLax0 3 0 3); Obs1 0 (OAllZeroes 1 3)].
Lemma lax_witness_agrees : outputs reg0_sparse lax_witness = outputs all_dense lax_witness
                           /\ unsafe reg0_sparse lax_witness = false.
Proof. vm_compute. split; reflexivity. Qed.

(* Linear_Expression(e, space_dim, SPARSE) from a longer dense e: the former counterexample now agrees *)
Definition trunc_witness : list op :=
  [New 1 5; Un 1 (USet 4 6); CopySized 0 1 3; Obs1 0 OLastNZAll].
Lemma trunc_witness_agrees : outputs reg0_sparse trunc_witness = outputs all_dense trunc_witness
                             /\ unsafe reg0_sparse trunc_witness = false.
Proof. vm_compute. split; reflexivity. Qed.
