(* C16 -- every dense-row mutator commutes with the abstraction abs_d. *)
From Coq Require Import ZArith List Lia Bool Arith.
Import ListNotations.
Require Import PPLV.Rows.Abs PPLV.Rows.Dense.
Local Open Scope Z_scope.

Ltac bd :=
  repeat match goal with
  | |- context [(?a =? ?b)%nat] => destruct (Nat.eqb_spec a b)
  | |- context [(?a <? ?b)%nat] => destruct (Nat.ltb_spec a b)
  | |- context [(?a <=? ?b)%nat] => destruct (Nat.leb_spec a b)
  end; cbn [andb orb negb]; subst; try reflexivity; try lia.

(* ---- aeq is an equivalence ---- *)
Lemma aeq_refl : forall x, aeq x x.
Proof. intro x; split; auto. Qed.
Lemma aeq_sym : forall x y, aeq x y -> aeq y x.
Proof. intros x y [H1 H2]; split; auto. Qed.
Lemma aeq_trans : forall x y z, aeq x y -> aeq y z -> aeq x z.
Proof. intros x y z [H1 H2] [H3 H4]; split; [congruence|]. intro i; rewrite H2; apply H4. Qed.

Lemma abs_d_awf : forall d, awf (abs_d d).
Proof. intros d i H. cbn in *. apply nth_overflow; exact H. Qed.

(* ---- observers: definitional ---- *)
Lemma d_get_abs : forall i d, d_get i d = a_get i (abs_d d).
Proof. reflexivity. Qed.
Lemma d_gcd_abs : forall f l d, d_gcd f l d = a_gcd f l (abs_d d).
Proof. reflexivity. Qed.
Lemma d_all_zeroes_abs : forall f l d, d_all_zeroes f l d = a_all_zeroes f l (abs_d d).
Proof. reflexivity. Qed.
Lemma d_num_zeroes_abs : forall f l d, d_num_zeroes f l d = a_num_zeroes f l (abs_d d).
Proof. reflexivity. Qed.
Lemma d_first_nonzero_abs : forall f l d, d_first_nonzero f l d = a_first_nonzero f l (abs_d d).
Proof. reflexivity. Qed.
Lemma d_last_nonzero_abs : forall f l d, d_last_nonzero f l d = a_last_nonzero f l (abs_d d).
Proof. reflexivity. Qed.
Lemma d_last_nonzero_all_abs : forall d, d_last_nonzero_all d = a_last_nonzero_all (abs_d d).
Proof. reflexivity. Qed.
Lemma d_iter_abs : forall d, d_iter d = a_iter (abs_d d).
Proof. reflexivity. Qed.

(* ---- helpers ---- *)
Lemma length_d_upd : forall d i f, length (d_upd i f d) = length d.
Proof. induction d as [|v r IH]; intros [|i] f; cbn; auto. Qed.

Lemma nth_d_upd : forall d i j f,
  nth j (d_upd i f d) 0 =
  if ((j =? i)%nat && (j <? length d)%nat)%bool then f (nth j d 0) else nth j d 0.
Proof.
  induction d as [|v r IH]; intros i j f.
  - assert (E : (j <? length (@nil Z))%nat = false) by (apply Nat.ltb_ge; cbn; lia).
    rewrite E, andb_false_r. destruct i; reflexivity.
  - destruct i as [|i], j as [|j]; cbn [d_upd nth length]; try reflexivity.
    rewrite IH. reflexivity.
Qed.

Lemma length_d_mapi_from : forall d k f, length (d_mapi_from k f d) = length d.
Proof. induction d as [|v r IH]; intros k f; cbn; auto. Qed.

Lemma nth_d_mapi_from : forall d k f j,
  nth j (d_mapi_from k f d) 0 =
  if (j <? length d)%nat then f (k + j)%nat (nth j d 0) else 0.
Proof.
  induction d as [|v r IH]; intros k f j.
  - destruct j; reflexivity.
  - destruct j as [|j]; cbn [d_mapi_from nth length].
    + rewrite Nat.add_0_r. reflexivity.
    + rewrite IH. replace (S k + j)%nat with (k + S j)%nat by lia. reflexivity.
Qed.

Lemma nth_firstn_lt : forall (d : list Z) n j, (j < n)%nat -> nth j (firstn n d) 0 = nth j d 0.
Proof.
  induction d as [|v r IH]; intros n j H.
  - rewrite firstn_nil. reflexivity.
  - destruct n as [|n]; [lia|]. destruct j as [|j]; cbn; [reflexivity|]. apply IH; lia.
Qed.

Lemma nth_skipn_add : forall (d : list Z) n j, nth j (skipn n d) 0 = nth (n + j) d 0.
Proof.
  induction d as [|v r IH]; intros n j.
  - rewrite skipn_nil. destruct j, n; reflexivity.
  - destruct n as [|n]; cbn; [reflexivity|]. apply IH.
Qed.

Lemma nth_repeat0 : forall n j, nth j (repeat 0 n) 0 = 0.
Proof. induction n as [|n IH]; intros [|j]; cbn; auto. Qed.

Lemma nth_map0 : forall (g : Z -> Z) d j, g 0 = 0 -> nth j (map g d) 0 = g (nth j d 0).
Proof. intros g d j H. rewrite <- H at 1. apply map_nth. Qed.

Lemma nth_map_seq : forall (h : nat -> Z) n j,
  nth j (map h (seq 0 n)) 0 = if (j <? n)%nat then h j else 0.
Proof.
  intros h n j. destruct (Nat.ltb_spec j n) as [H|H].
  - rewrite (nth_indep _ 0 (h 0%nat)) by (rewrite map_length, seq_length; exact H).
    rewrite map_nth, seq_nth by exact H. reflexivity.
  - apply nth_overflow. rewrite map_length, seq_length. exact H.
Qed.

(* ---- mutators ---- *)
Lemma d_zero_abs : forall n, aeq (abs_d (d_zero n)) (a_zero n).
Proof.
  intro n; split; cbn [asize acoef abs_d a_zero d_zero].
  - apply repeat_length.
  - intro j; apply nth_repeat0.
Qed.

Lemma d_set_abs : forall i v d, (i < length d)%nat ->
  aeq (abs_d (d_set i v d)) (a_set i v (abs_d d)).
Proof.
  intros i v d H; split; cbn [asize acoef abs_d a_set]; unfold d_set.
  - apply length_d_upd.
  - intro j. rewrite nth_d_upd. bd.
Qed.

Lemma d_add_abs : forall i v d, (i < length d)%nat ->
  aeq (abs_d (d_add i v d)) (a_add i v (abs_d d)).
Proof.
  intros i v d H; split; cbn [asize acoef abs_d a_add]; unfold d_add.
  - apply length_d_upd.
  - intro j. rewrite nth_d_upd. bd.
Qed.

Lemma length_d_swap : forall i j d, length (d_swap i j d) = length d.
Proof. intros; unfold d_swap, d_set. rewrite !length_d_upd. reflexivity. Qed.

Lemma d_swap_abs : forall i j d, (i < length d)%nat -> (j < length d)%nat ->
  aeq (abs_d (d_swap i j d)) (a_swap i j (abs_d d)).
Proof.
  intros i j d Hi Hj; split; cbn [asize acoef abs_d a_swap].
  - apply length_d_swap.
  - intro k. unfold d_swap, d_set, d_get. rewrite !nth_d_upd, !length_d_upd. bd.
Qed.

Lemma d_shift_abs : forall i n d, (i <= length d)%nat ->
  aeq (abs_d (d_shift i n d)) (a_shift i n (abs_d d)).
Proof.
  intros i n d H; split; cbn [asize acoef abs_d a_shift]; unfold d_shift.
  - rewrite !app_length, firstn_length, repeat_length, skipn_length. lia.
  - intro j.
    assert (L : length (firstn i d) = i) by (rewrite firstn_length; lia).
    destruct (Nat.ltb_spec j i) as [H1|H1].
    + rewrite app_nth1 by lia. apply nth_firstn_lt; exact H1.
    + rewrite app_nth2 by lia. rewrite L.
      destruct (Nat.ltb_spec j (i + n)) as [H2|H2].
      * rewrite app_nth1 by (rewrite repeat_length; lia). apply nth_repeat0.
      * rewrite app_nth2 by (rewrite repeat_length; lia). rewrite repeat_length.
        rewrite nth_skipn_add. f_equal. lia.
Qed.

Lemma d_resize_abs : forall n d, aeq (abs_d (d_resize n d)) (a_resize n (abs_d d)).
Proof.
  intros n d; split; cbn [asize acoef abs_d a_resize]; unfold d_resize.
  - rewrite app_length, firstn_length, repeat_length. lia.
  - intro j.
    assert (L : length (firstn n d) = Nat.min n (length d)) by apply firstn_length.
    destruct (Nat.ltb_spec j n) as [H1|H1].
    + destruct (Nat.lt_ge_cases j (length d)) as [H2|H2].
      * rewrite app_nth1 by lia. apply nth_firstn_lt; exact H1.
      * rewrite app_nth2 by lia. rewrite nth_repeat0.
        symmetry; apply nth_overflow; exact H2.
    + apply nth_overflow. rewrite app_length, L, repeat_length. lia.
Qed.

Lemma d_map_range_abs : forall g f l d, (l <= length d)%nat ->
  aeq (abs_d (d_map_range g f l d)) (a_map_range g f l (abs_d d)).
Proof.
  intros g f l d H; split; cbn [asize acoef abs_d a_map_range]; unfold d_map_range.
  - apply length_d_mapi_from.
  - intro j. rewrite nth_d_mapi_from. cbn [Nat.add].
    destruct (Nat.ltb_spec j (length d)) as [H1|H1]; [reflexivity|].
    assert (E : inr f l j = false).
    { unfold inr. apply andb_false_iff; right. apply Nat.ltb_ge; lia. }
    rewrite E. symmetry; apply nth_overflow; exact H1.
Qed.

Lemma d_mul_all_abs : forall c d,
  aeq (abs_d (map (Z.mul c) d)) (a_map_range (Z.mul c) 0 (length d) (abs_d d)).
Proof.
  intros c d; split; cbn [asize acoef abs_d a_map_range].
  - apply map_length.
  - intro j. rewrite nth_map0 by apply Z.mul_0_r.
    unfold inr. cbn [Nat.leb andb].
    destruct (Nat.ltb_spec j (length d)) as [H1|H1]; [reflexivity|].
    rewrite nth_overflow by exact H1. apply Z.mul_0_r.
Qed.

Lemma d_combine_abs : forall c1 c2 f l d y, (l <= length d)%nat ->
  aeq (abs_d (d_combine c1 c2 f l d (acoef y))) (a_combine c1 c2 f l (abs_d d) y).
Proof.
  intros c1 c2 f l d y H; split; cbn [asize acoef abs_d a_combine]; unfold d_combine.
  - apply length_d_mapi_from.
  - intro j. rewrite nth_d_mapi_from. cbn [Nat.add].
    destruct (Nat.ltb_spec j (length d)) as [H1|H1]; [reflexivity|].
    assert (E : inr f l j = false).
    { unfold inr. apply andb_false_iff; right. apply Nat.ltb_ge; lia. }
    rewrite E. symmetry; apply nth_overflow; exact H1.
Qed.

(* ---- permute ---- *)
Lemma a_swap_cong : forall i j x y, aeq x y -> aeq (a_swap i j x) (a_swap i j y).
Proof.
  intros i j x y [H1 H2]; split; cbn [asize acoef a_swap]; [exact H1|].
  intro k. rewrite !H2. reflexivity.
Qed.

Lemma a_swaps_cong : forall l x y, aeq x y ->
  aeq (fold_left (fun r p => a_swap (fst p) (snd p) r) l x)
      (fold_left (fun r p => a_swap (fst p) (snd p) r) l y).
Proof.
  induction l as [|p l IH]; intros x y H; cbn [fold_left]; [exact H|].
  apply IH. apply a_swap_cong; exact H.
Qed.

Lemma cycle_swaps_in : forall c p, In p (cycle_swaps c) -> In (fst p) c /\ In (snd p) c.
Proof.
  induction c as [|a r IH]; intros p H; [destruct H|].
  destruct r as [|b r']; [destruct H|].
  change (cycle_swaps (a :: b :: r')) with (cycle_swaps (b :: r') ++ [(b, a)]) in H.
  apply in_app_or in H. destruct H as [H|H].
  - apply IH in H. destruct H as [H1 H2]. split; right; assumption.
  - destruct H as [H|H]; [|destruct H]. subst p. cbn [fst snd].
    split; [right; left; reflexivity | left; reflexivity].
Qed.

Lemma d_swaps_abs : forall l d,
  Forall (fun p => (fst p < length d)%nat /\ (snd p < length d)%nat) l ->
  aeq (abs_d (fold_left (fun r p => d_swap (fst p) (snd p) r) l d))
      (fold_left (fun r p => a_swap (fst p) (snd p) r) l (abs_d d)).
Proof.
  induction l as [|p l IH]; intros d H; cbn [fold_left]; [apply aeq_refl|].
  inversion H as [|p' l' [Hp1 Hp2] Hl]; subst.
  eapply aeq_trans.
  - apply IH. rewrite length_d_swap. exact Hl.
  - apply a_swaps_cong. apply d_swap_abs; assumption.
Qed.

Lemma d_permute_abs : forall c d, Forall (fun v => (v < length d)%nat) c ->
  aeq (abs_d (d_permute c d)) (a_permute c (abs_d d)).
Proof.
  intros c d H. unfold d_permute, a_permute. apply d_swaps_abs.
  apply Forall_forall. intros p Hp. apply cycle_swaps_in in Hp. destruct Hp as [H1 H2].
  rewrite Forall_forall in H. split; apply H; assumption.
Qed.

(* ---- normalize ---- *)
Lemma map_nth_seq : forall d : list Z, map (fun i => nth i d 0) (seq 0 (length d)) = d.
Proof.
  induction d as [|v r IH]; [reflexivity|].
  cbn [length seq map nth]. f_equal.
  rewrite <- seq_shift, map_map. exact IH.
Qed.

Lemma fold_gcd_map : forall (h : nat -> Z) l a,
  fold_left (fun g i => Z.gcd g (h i)) l a = fold_left Z.gcd (map h l) a.
Proof. induction l as [|i l IH]; intro a; cbn [fold_left map]; [reflexivity|apply IH]. Qed.

Lemma d_gcd_all : forall d, a_gcd 0 (length d) (abs_d d) = fold_left Z.gcd d 0.
Proof.
  intro d. unfold a_gcd. cbn [acoef abs_d]. rewrite Nat.sub_0_r.
  rewrite fold_gcd_map, map_nth_seq. reflexivity.
Qed.

Lemma d_normalize_abs : forall d, aeq (abs_d (d_normalize d)) (a_normalize (abs_d d)).
Proof.
  intro d. unfold d_normalize, a_normalize.
  change (asize (abs_d d)) with (length d). rewrite d_gcd_all.
  destruct ((fold_left Z.gcd d 0 =? 0) || (fold_left Z.gcd d 0 =? 1)); [apply aeq_refl|].
  split; cbn [asize acoef abs_d].
  - apply map_length.
  - intro j. apply (nth_map0 (fun v => v / fold_left Z.gcd d 0)). apply Zdiv_0_l.
Qed.

Lemma d_sign_normalize_abs : forall d,
  aeq (abs_d (d_sign_normalize d)) (a_sign_normalize (abs_d d)).
Proof.
  intro d. unfold d_sign_normalize, a_sign_normalize.
  change (asize (abs_d d)) with (length d).
  change (a_first_nonzero 1 (length d) (abs_d d)) with (d_first_nonzero 1 (length d) d).
  change (acoef (abs_d d) (d_first_nonzero 1 (length d) d))
    with (d_get (d_first_nonzero 1 (length d) d) d).
  destruct ((d_first_nonzero 1 (length d) d <? length d)%nat
            && (d_get (d_first_nonzero 1 (length d) d) d <? 0)); [|apply aeq_refl].
  split; cbn [asize acoef abs_d].
  - apply map_length.
  - intro j. apply (nth_map0 Z.opp). reflexivity.
Qed.

(* ---- conversions ---- *)
Lemma to_dense_abs : forall x, awf x -> aeq (abs_d (map (acoef x) (seq 0 (asize x)))) x.
Proof.
  intros x W; split; cbn [asize acoef abs_d].
  - rewrite map_length, seq_length. reflexivity.
  - intro j. rewrite nth_map_seq.
    destruct (Nat.ltb_spec j (asize x)) as [H|H]; [reflexivity|].
    symmetry; apply W; exact H.
Qed.

Lemma copy_sized_dense_abs : forall n x, awf x ->
  aeq (abs_d (map (acoef x) (seq 0 (Nat.min n (asize x))) ++ repeat 0 (n - asize x)))
      (a_resize n x).
Proof.
  intros n x W; split; cbn [asize acoef abs_d a_resize].
  - rewrite app_length, map_length, seq_length, repeat_length. lia.
  - intro j.
    assert (L : length (map (acoef x) (seq 0 (Nat.min n (asize x)))) = Nat.min n (asize x))
      by (rewrite map_length, seq_length; reflexivity).
    destruct (Nat.ltb_spec j n) as [H1|H1].
    + destruct (Nat.lt_ge_cases j (asize x)) as [H2|H2].
      * rewrite app_nth1 by lia. rewrite nth_map_seq.
        destruct (Nat.ltb_spec j (Nat.min n (asize x))); [reflexivity|lia].
      * rewrite app_nth2 by lia. rewrite nth_repeat0. symmetry; apply W; exact H2.
    + apply nth_overflow. rewrite app_length, L, repeat_length. lia.
Qed.
