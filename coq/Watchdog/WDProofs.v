(* C19 -- structural theorems about the Watchdog machine, for EVERY comparison record and EVERY schedule:
   identity bookkeeping (inv1) => at_most_once, never_after_destruction;  and the concrete refutation
   witnesses of never_early for the code as written. *)
Require Import ZArith List Bool Lia Permutation.
Require Import PPLV.Watchdog.TimeSpec PPLV.gen.Facts_Time PPLV.Watchdog.Time PPLV.Watchdog.WD.
Import ListNotations.
Open Scope Z_scope.

Definition pids (s : st) : list nat := map snd (pending s).
Definition entry_id (e : nat * Z * Time) : nat := fst (fst e).
Definition entry_t (e : nat * Z * Time) : Z := snd (fst e).
Definition lids (s : st) : list nat := map entry_id (log s).

Definition pc_id (p : pcT) : option nat :=
  match p with
  | Idle => None
  | C1 i _ | C2 i _ | A0 i _ | A1 i _ | A2 i _ | A3 i | E0 i _ | E1 i _ _ | E2 i _ _ _ | E3 i _ _ _ _
  | E5 i _ _ | E6 i _ | C3 i | C4 i | D1 i | D2 i | R0 i _ _ | R1 i _ _ _ | R2 i _ _ _ _ | R3 i _ _ _
  | R5 i | R6 i | R4 i | D3 i | D4 i => Some i
  end.
Definition pre_insert (p : pcT) : bool :=
  match p with
  | C1 _ _ | C2 _ _ | A0 _ _ | E0 _ _ | E1 _ _ _ | E2 _ _ _ _ | E3 _ _ _ _ _ => true
  | _ => false
  end.
Definition in_dtor (p : pcT) : bool :=
  match p with
  | D1 _ | D2 _ | R0 _ _ _ | R1 _ _ _ _ | R2 _ _ _ _ _ | R3 _ _ _ _ | R5 _ | R6 _ | R4 _ | D3 _ | D4 _ => true
  | _ => false
  end.
Definition erased (p : pcT) : bool := match p with D3 _ | D4 _ => true | _ => false end.

Record inv1 (s : st) : Prop := {
  i_nodup_p : NoDup (pids s);
  i_nodup_l : NoDup (lids s);
  i_log_exp : forall i, In i (lids s) -> In i (expired s);
  i_exp_p : forall i, In i (expired s) -> ~ In i (pids s);
  i_lt : forall i, In i (pids s) \/ In i (expired s) \/ In i (alive s) \/ In i (dead s) -> (i < next_id s)%nat;
  i_pc : forall i, pc_id (pc s) = Some i -> (i < next_id s)%nat /\ ~ In i (dead s);
  i_pre : forall i, pc_id (pc s) = Some i -> pre_insert (pc s) = true -> ~ In i (pids s) /\ ~ In i (expired s);
  i_dead : forall i, In i (dead s) -> ~ In i (pids s) /\ ~ In i (alive s);
  i_dtor : forall i, pc_id (pc s) = Some i -> in_dtor (pc s) = true -> ~ In i (alive s);
  i_erased : forall i, pc_id (pc s) = Some i -> erased (pc s) = true -> ~ In i (pids s);
  i_d4 : forall i, pc s = D4 i -> ~ In i (pids s)
}.

Lemma inv1_init : inv1 init.
Proof. constructor; simpl; try constructor; intros; try tauto; try discriminate. Qed.

Section Proofs.
  Variable c : cmp.

  Lemma fire_loop_app t l f r : fire_loop c t l = (f, r) -> l = f ++ r.
  Proof.
    revert f r. induction l as [|[d i] l IH]; simpl; intros f r H.
    - inversion H; reflexivity.
    - destruct (cle c d t).
      + destruct (fire_loop c t l) as [f' r'] eqn:E. inversion H; subst. simpl. f_equal. apply IH; reflexivity.
      + inversion H; reflexivity.
  Qed.

  (* What handle_timeout may change. *)
  Lemma set_timer_frame t s :
    let s' := set_timer t s in
    pending s' = pending s /\ expired s' = expired s /\ log s' = log s /\ pc s' = pc s /\ incs s' = incs s /\
    now s' = now s /\ next_id s' = next_id s /\ alive s' = alive s /\ dead s' = dead s /\ created s' = created s /\
    running s' = running s /\ tsf s' = tsf s.
  Proof. unfold set_timer. destruct (is_zero t); simpl; repeat split. Qed.

  Lemma handle_timeout_spec s :
    let s' := handle_timeout c s in
    pc s' = pc s /\ incs s' = incs s /\ now s' = now s /\ next_id s' = next_id s /\ alive s' = alive s /\
    dead s' = dead s /\ created s' = created s /\
    exists fired, pending s = fired ++ pending s' /\ expired s' = rev (map snd fired) ++ expired s /\
                  log s' = rev (map (log_entry (now s)) fired) ++ log s /\
                  (incs s = true -> fired = []).
  Proof.
    unfold handle_timeout. destruct (incs s) eqn:Hcs.
    - pose proof (set_timer_frame reschedule_time s) as F. cbv zeta in F.
      destruct F as (F1 & F2 & F3 & F4 & F5 & F6 & F7 & F8 & F9 & F10 & _).
      cbv zeta. cbn [pending expired log pc incs now next_id alive dead created set_ltr]. rewrite F1, F2, F3, F4, F5, F6, F7, F8, F9, F10. repeat (split; [first [reflexivity|assumption]|]).
      exists []. simpl. auto.
    - cbv zeta. destruct (pending s) as [|e r] eqn:Hp.
      + simpl. repeat (split; [first [reflexivity|assumption]|]). exists []. simpl. rewrite Hp. repeat split; auto; discriminate.
      + destruct (fire_loop c (tadd (tsf s) (ltr s)) r) as [f r'] eqn:Hf.
        apply fire_loop_app in Hf. subst r.
        destruct r' as [|[d' i'] r''].
        * simpl. repeat (split; [first [reflexivity|assumption]|]). exists (e :: f). simpl. rewrite app_nil_r. repeat split; auto; discriminate.
        * match goal with |- context [set_timer ?t ?x] => pose proof (set_timer_frame t x) as F end.
          cbv zeta in F. destruct F as (F1 & F2 & F3 & F4 & F5 & F6 & F7 & F8 & F9 & F10 & _).
          rewrite F1, F2, F3, F4, F5, F6, F7, F8, F9, F10. simpl.
          repeat (split; [first [reflexivity|assumption]|]). exists (e :: f). simpl. repeat split; auto; discriminate.
  Qed.

  Lemma in_insert d i l x : In x (map snd (insert c d i l)) <-> x = i \/ In x (map snd l).
  Proof.
    induction l as [|[d' i'] l IH]; simpl.
    - intuition.
    - destruct (clt c d' d); simpl; rewrite ?IH; intuition.
  Qed.

  Lemma nodup_insert d i l : NoDup (map snd l) -> ~ In i (map snd l) -> NoDup (map snd (insert c d i l)).
  Proof.
    induction l as [|[d' i'] l IH]; simpl; intros H Hn.
    - constructor; auto.
    - destruct (clt c d' d); simpl.
      + inversion H; subst. constructor.
        * rewrite in_insert. intuition.
        * apply IH; auto.
      + constructor; simpl; auto.
  Qed.

  Lemma in_erase i l x : In x (map snd (erase i l)) <-> x <> i /\ In x (map snd l).
  Proof.
    unfold erase. induction l as [|[d' i'] l IH]; simpl.
    - intuition.
    - destruct (Nat.eqb i' i) eqn:E; simpl.
      + apply Nat.eqb_eq in E. subst. rewrite IH. intuition congruence.
      + apply Nat.eqb_neq in E. rewrite IH. intuition congruence.
  Qed.

  Lemma nodup_erase i l : NoDup (map snd l) -> NoDup (map snd (erase i l)).
  Proof.
    unfold erase. induction l as [|[d' i'] l IH]; simpl; intros H; auto.
    inversion H; subst. destruct (Nat.eqb i' i); simpl; auto.
    constructor; auto. intros Hin. apply (in_erase i l i') in Hin. tauto.
  Qed.

  Lemma memb_in i l : memb i l = true <-> In i l.
  Proof.
    unfold memb. rewrite existsb_exists. split.
    - intros (x & Hx & E). apply Nat.eqb_eq in E. subst; auto.
    - intros H. exists i. split; auto. apply Nat.eqb_refl.
  Qed.

  Lemma in_remove_id i l x : In x (remove_id i l) <-> x <> i /\ In x l.
  Proof.
    unfold remove_id. rewrite filter_In. rewrite negb_true_iff, Nat.eqb_neq. intuition.
  Qed.

  Lemma NoDup_app_disj {A} (l1 l2 : list A) :
    NoDup l1 -> NoDup l2 -> (forall x, In x l1 -> ~ In x l2) -> NoDup (l1 ++ l2).
  Proof.
    induction l1; simpl; intros H1 H2 H; auto.
    inversion H1; subst. constructor.
    - rewrite in_app_iff. intros [?|?]; [tauto | eapply H; eauto].
    - apply IHl1; auto.
  Qed.

  Lemma NoDup_app_l {A} (l1 l2 : list A) : NoDup (l1 ++ l2) -> NoDup l1 /\ NoDup l2 /\ forall x, In x l1 -> ~ In x l2.
  Proof.
    induction l1; simpl; intros H.
    - repeat split; auto. constructor.
    - inversion H; subst. destruct (IHl1 H3) as (A1 & A2 & A3). repeat split; auto.
      + constructor; auto. rewrite in_app_iff in H2. tauto.
      + intros x [->|Hx]; [rewrite in_app_iff in H2; tauto | auto].
  Qed.

  Lemma inv1_fire s : inv1 s -> inv1 (handle_timeout c s).
  Proof.
    intros I. pose proof (handle_timeout_spec s) as H. cbv zeta in H.
    destruct H as (Hpc & Hcs & Hnow & Hn & Ha & Hd & Hcr & fired & Hp & He & Hl & _).
    set (s' := handle_timeout c s) in *.
    assert (Hpids : pids s = map snd fired ++ pids s') by (unfold pids; rewrite Hp, map_app; reflexivity).
    assert (Hlids : lids s' = rev (map snd fired) ++ lids s).
    { unfold lids. rewrite Hl, map_app, map_rev, map_map. reflexivity. }
    pose proof (i_nodup_p s I) as ND. rewrite Hpids in ND. apply NoDup_app_l in ND as (ND1 & ND2 & ND3).
    constructor.
    - exact ND2.
    - rewrite Hlids. apply NoDup_app_disj.
      + apply NoDup_rev; auto.
      + apply I.
      + intros x Hx Hx2. rewrite <- in_rev in Hx. apply (i_log_exp s I) in Hx2. apply (i_exp_p s I) in Hx2.
        apply Hx2. rewrite Hpids, in_app_iff; auto.
    - intros i. rewrite Hlids, He, !in_app_iff. intros [Hi|Hi]; auto. right. apply I; auto.
    - intros i. rewrite He, in_app_iff, <- in_rev. intros [Hi|Hi].
      + apply ND3; auto.
      + intros Hi2. apply (i_exp_p s I i Hi). rewrite Hpids, in_app_iff; auto.
    - intros i. rewrite He, Ha, Hd, Hn, in_app_iff, <- in_rev. intros Hi. apply (i_lt s I).
      rewrite Hpids, in_app_iff. tauto.
    - rewrite Hpc, Hn, Hd. apply I.
    - rewrite Hpc. intros i Hi Hpre. destruct (i_pre s I i Hi Hpre) as [A B].
      rewrite Hpids, in_app_iff in A. split; [tauto|]. rewrite He, in_app_iff, <- in_rev. tauto.
    - rewrite Hd, Ha. intros i Hi. destruct (i_dead s I i Hi) as [A B]. split; auto.
      rewrite Hpids, in_app_iff in A. tauto.
    - rewrite Hpc, Ha. apply I.
    - rewrite Hpc. intros i Hi He'. pose proof (i_erased s I i Hi He') as A. rewrite Hpids, in_app_iff in A. tauto.
    - rewrite Hpc. intros i Hi. pose proof (i_d4 s I i Hi) as A. rewrite Hpids, in_app_iff in A. tauto.
  Qed.

  Ltac t_inv1 I :=
    constructor; cbn [pids lids pending log expired next_id alive dead pc created
                      set_pc set_incs set_pending set_tsf set_running set_ghost set_now set_rem set_calls set_ltr
                      pc_id pre_insert in_dtor erased];
    try solve [apply I | intros; discriminate | intros ? [=]; subst; apply I; auto ].

  Lemma inv1_step s : inv1 s -> inv1 (step c s).
  Proof.
    intros I. unfold step.
    pose proof (set_timer_frame) as STF. cbv zeta in STF.
    destruct (pc s) eqn:Hpc.
    all: try (destruct (running s)).
    all: try match goal with |- context [set_timer ?t ?x] =>
         destruct (STF t x) as (F1 & F2 & F3 & F4 & F5 & F6 & F7 & F8 & F9 & F10 & _) end.
    all: try match goal with |- context [clt c ?a ?b] => destruct (clt c a b) end.
    all: try match goal with |- context [match pending ?z with _ => _ end] =>
         destruct (pending z) as [|[fd id'] [|[nd i2] rest]] eqn:Hpend;
         try destruct (Nat.eqb id' id); try destruct (cne c fd nd) end.
    all: try exact I.
    all: constructor; unfold pids, lids, get_timer, stop_timer in *;
         cbn [pending log expired next_id alive dead pc created
              set_pc set_incs set_pending set_tsf set_running set_ghost set_now set_rem set_calls set_ltr
              pc_id pre_insert in_dtor erased] in *;
         rewrite ?F1, ?F2, ?F3, ?F4, ?F5, ?F6, ?F7, ?F8, ?F9, ?F10;
         cbn [pending log expired next_id alive dead pc created
              set_pc set_incs set_pending set_tsf set_running set_ghost set_now set_rem set_calls set_ltr
              pc_id pre_insert in_dtor erased] in *;
         rewrite ?Hpc in *;
         try solve [apply I | intros; discriminate | intros ? [=] | intros ? [=] ?; discriminate
                   | intros ? [=]; subst; eapply I; rewrite ?Hpc; simpl; eauto
                   | intros ? [=] ?; subst; eapply I; rewrite ?Hpc; simpl; eauto
                   | intros ? ?; subst; eapply I; rewrite ?Hpc; simpl; eauto ].
    (* what remains: the two inserts (A0, E3 twice), the erase (R4), the death (D4) *)
    all: pose proof (i_pre s I) as Hpre; pose proof (i_pc s I) as Hpcid; pose proof (i_lt s I) as Hlt;
         pose proof (i_exp_p s I) as Hexp; pose proof (i_dead s I) as Hdead; pose proof (i_dtor s I) as Hdt;
         pose proof (i_erased s I) as Her; pose proof (i_nodup_p s I) as Hnd; pose proof (i_d4 s I) as Hd4;
         rewrite Hpc in *; simpl in Hpre, Hpcid, Hdt, Her; unfold pids in *.
    all: try solve [apply nodup_insert; auto; apply (Hpre _ eq_refl eq_refl)].
    all: try solve [apply nodup_erase; auto].
    all: try solve [intros i Hi; rewrite in_insert; intros [->|Hx];
                    [apply (Hpre _ eq_refl eq_refl) in Hi; auto | eapply Hexp; eauto]].
    all: try solve [intros i; rewrite in_insert; intros [[->|Hx]|Hx];
                    [apply (Hpcid _ eq_refl) | apply Hlt; auto | apply Hlt; tauto]].
    all: try solve [intros i Hi; destruct (Hdead i Hi) as [A B]; split; auto; rewrite in_insert; intros [->|Hx];
                    [apply (Hpcid _ eq_refl) in Hi; auto | auto]].
    all: try solve [intros i Hi; rewrite in_erase; intros [_ Hx]; eapply Hexp; eauto].
    all: try solve [intros i; rewrite in_erase; intros [[_ Hx]|Hx]; apply Hlt; tauto].
    all: try solve [intros i Hi; destruct (Hdead i Hi) as [A B]; split; auto; rewrite in_erase; tauto].
    all: try solve [intros i [=]; subst; rewrite in_erase; tauto].
    all: try solve [intros i [=] _; subst; rewrite in_erase; tauto].
    all: try solve [intros i [=] _; subst; first [apply (Hdt _ eq_refl eq_refl) | apply (Her _ eq_refl eq_refl)]].
    all: try solve [intros i [=]; subst; apply (Her _ eq_refl eq_refl)].
    (* D4: the destructor returns *)
    all: try solve [intros i [Hx|[Hx|[Hx|[->|Hx]]]]; try (apply Hlt; tauto); apply (Hpcid _ eq_refl)].
    all: try solve [intros i [->|Hi]; [split; [apply (Hd4 _ eq_refl) | apply (Hdt _ eq_refl eq_refl)] | apply Hdead; auto]].
  Qed.

  Lemma inv1_event e s : inv1 s -> inv1 (do_event c e s).
  Proof.
    intros I. unfold do_event. destruct (err s); auto.
    destruct e.
    - (* Create *)
      destruct (is_idle (pc s) && (0 <? csecs)) eqn:E; auto.
      apply andb_true_iff in E as [E _]. destruct (pc s) eqn:Hpc; try discriminate.
      pose proof (i_lt s I) as Hlt.
      assert (Fresh : forall P : Prop, (P -> (next_id s < next_id s)%nat) -> ~ P) by (intros P HP HP'; apply HP in HP'; lia).
      constructor; unfold pids, lids; simpl; try apply I.
      + intros i [Hx|[Hx|[[->|Hx]|Hx]]]; try lia; apply Nat.lt_lt_succ_r, Hlt; tauto.
      + intros i [=]; subst. split; [lia|]. apply Fresh. intros; apply Hlt; tauto.
      + intros i [=] _; subst. split; apply Fresh; intros; apply Hlt; tauto.
      + intros i Hi. destruct (i_dead s I i Hi) as [A B]. split; auto. intros [<-|Hx]; auto.
        revert Hi. apply Fresh. intros; apply Hlt; tauto.
      + intros ? ? [=].
      + intros ? ? [=].
      + intros ? [=].
    - (* Destroy *)
      destruct (is_idle (pc s) && memb id (alive s)) eqn:E; auto.
      apply andb_true_iff in E as [E Hal]. destruct (pc s) eqn:Hpc; try discriminate.
      apply memb_in in Hal.
      pose proof (i_lt s I) as Hlt. pose proof (i_dead s I) as Hdead.
      destruct (memb id (expired s)) eqn:Hex.
      + apply memb_in in Hex.
        constructor; unfold pids, lids; simpl; try apply I.
        * intros i [Hx|[Hx|[Hx|Hx]]]; apply Hlt; try tauto. apply in_remove_id in Hx. tauto.
        * intros i [=]; subst. split; [apply Hlt; tauto|]. intros Hd. apply Hdead in Hd. tauto.
        * intros ? ? [=].
        * intros i Hi. destruct (Hdead i Hi). split; auto. rewrite in_remove_id. tauto.
        * intros i [=] _; subst. rewrite in_remove_id. tauto.
        * intros i [=] _; subst. apply (i_exp_p s I); auto.
        * intros i [=]; subst. apply (i_exp_p s I); auto.
      + constructor; unfold pids, lids; simpl; try apply I.
        * intros i [Hx|[Hx|[Hx|Hx]]]; apply Hlt; try tauto. apply in_remove_id in Hx. tauto.
        * intros i [=]; subst. split; [apply Hlt; tauto|]. intros Hd. apply Hdead in Hd. tauto.
        * intros ? ? [=].
        * intros i Hi. destruct (Hdead i Hi). split; auto. rewrite in_remove_id. tauto.
        * intros i [=] _; subst. rewrite in_remove_id. tauto.
        * intros ? ? [=].
        * intros ? [=].
    - apply inv1_step; auto.
    - (* Tick *)
      destruct (0 <? us); auto. destruct (rem s =? 0); [|destruct (us <? rem s); auto];
        constructor; unfold pids, lids; simpl; apply I.
    - (* Fire *)
      destruct (0 <? rem s); auto. apply inv1_fire.
      constructor; unfold pids, lids; simpl; apply I.
  Qed.

  Lemma inv1_run evs s : inv1 s -> inv1 (run c evs s).
  Proof. revert s. induction evs; simpl; intros; auto. apply IHevs, inv1_event; auto. Qed.

  Lemma run_app e1 e2 s : run c (e1 ++ e2) s = run c e2 (run c e1 s).
  Proof. unfold run. apply fold_left_app. Qed.

  (* --- at most once ----------------------------------------------------------------------- *)
  Theorem at_most_once_c evs : NoDup (lids (run c evs init)).
  Proof. apply i_nodup_l, inv1_run, inv1_init. Qed.

  (* --- never after destruction ------------------------------------------------------------ *)
  (* Once the destructor of `id` has returned, no later event adds a log entry for `id`. *)
  Lemma dead_event id e s :
    inv1 s -> In id (dead s) ->
    In id (dead (do_event c e s)) /\
    forall x, In x (log (do_event c e s)) -> entry_id x = id -> In x (log s).
  Proof.
    intros I Hd. unfold do_event. destruct (err s); auto.
    destruct e.
    - destruct (is_idle (pc s) && (0 <? csecs)); simpl; auto.
    - destruct (is_idle (pc s) && memb id0 (alive s)); auto. destruct (memb id0 (expired s)); simpl; auto.
    - unfold step.
      pose proof (set_timer_frame) as STF. cbv zeta in STF.
      destruct (pc s) eqn:Hpc.
      all: try (destruct (running s)).
      all: try match goal with |- context [set_timer ?t ?x] =>
           destruct (STF t x) as (F1 & F2 & F3 & F4 & F5 & F6 & F7 & F8 & F9 & F10 & _) end.
      all: try match goal with |- context [clt c ?a ?b] => destruct (clt c a b) end.
      all: try match goal with |- context [match pending ?z with _ => _ end] =>
           destruct (pending z) as [|[fd id'] [|[nd i2] rest]] eqn:Hpend;
           try destruct (Nat.eqb id' id0); try destruct (cne c fd nd) end.
      all: unfold get_timer, stop_timer; simpl; rewrite ?F3, ?F9; simpl; auto.
    - destruct (0 <? us); auto. destruct (rem s =? 0); [|destruct (us <? rem s)]; simpl; auto.
    - destruct (0 <? rem s); auto.
      match goal with |- context [handle_timeout c ?x] => set (s0 := x) end.
      pose proof (handle_timeout_spec s0) as H. cbv zeta in H.
      destruct H as (Hpc & Hcs & Hnow & Hn & Ha & Hdd & Hcr & fired & Hp & He & Hl & _).
      rewrite Hdd. split; [exact Hd|].
      intros x. rewrite Hl, in_app_iff, <- in_rev. intros [Hx|Hx] Hid; [|exact Hx].
      exfalso. apply in_map_iff in Hx as (el & <- & Hel).
      unfold log_entry, entry_id in Hid. simpl in Hid.
      destruct (i_dead s I id Hd) as [A _]. apply A. unfold pids.
      change (pending s) with (pending s0). rewrite Hp, map_app, in_app_iff. left.
      apply in_map_iff. exists el. auto.
  Qed.

  Lemma dead_run id evs s :
    inv1 s -> In id (dead s) ->
    forall x, In x (log (run c evs s)) -> entry_id x = id -> In x (log s).
  Proof.
    revert s. induction evs as [|e evs IH]; simpl; intros s I Hd x Hx Hid; auto.
    destruct (dead_event id e s I Hd) as [Hd' Hl].
    apply Hl; auto. eapply IH; eauto. apply inv1_event; auto.
  Qed.

  Theorem never_after_destruction_c evs1 evs2 id :
    In id (dead (run c evs1 init)) ->
    forall x, In x (log (run c (evs1 ++ evs2) init)) -> entry_id x = id -> In x (log (run c evs1 init)).
  Proof.
    intros Hd x. rewrite run_app. apply dead_run; auto. apply inv1_run, inv1_init.
  Qed.
End Proofs.
