(* C19 -- never_early, for every comparison record that is the intended one (cmp_ok) and EVERY schedule (expiries may
   be delivered inside critical sections: since /repo 918b3df the deferred branch of handle_timeout only arms the
   retry shot and leaves the bookkeeping untouched): a handler never runs before (timer time at constructor entry) + delay.
   The invariant: with Kp = min (now + rem - time_so_far - last_time_requested) (now - time_so_far), a lower bound of the
   offset between timer time and the program's virtual clock that never decreases under ticks, deferred expiries and
   firings, every pending (deadline, id) satisfies  created_at id + delay id <= deadline + Kp;  the head of the list is
   not after time_so_far + last_time_requested, the virtual time of the next shot;  and a call that has read the timer
   carries an offset k0 fixed at the reading (GetF), which is what it re-arms with. *)
Require Import ZArith List Bool Lia.
Require Import PPLV.Watchdog.TimeSpec PPLV.gen.Facts_Time PPLV.Watchdog.Time PPLV.Watchdog.WD
               PPLV.Watchdog.WDProofs PPLV.Watchdog.WDOrder.
Import ListNotations.
Open Scope Z_scope.

Definition due_ok (cr : list (nat * (Z * Z))) (k : Z) (e : elem) : Prop :=
  exists t0 dl, In (snd e, (t0, dl)) cr /\ t0 + dl <= to_us (fst e) + k.
Definition head_le (l : list elem) (b : Z) : Prop := match l with [] => True | (d, _) :: _ => to_us d <= b end.

Definition Kp (nw rm : Z) (ts lt : Time) : Z := Z.min (nw + rm - to_us ts - to_us lt) (nw - to_us ts).
Definition est (ts lt tts : Time) : Z := to_us ts + Z.max 0 (to_us lt - to_us tts).
Definition StableF (run : bool) (pend : list elem) (rm : Z) (ts lt : Time) (nw : Z) (cr : list (nat * (Z * Z))) : Prop :=
  if run then pend <> [] /\ 0 < rm /\ head_le pend (to_us ts + to_us lt) /\
              Forall (due_ok cr (Kp nw rm ts lt)) pend
  else pend = [] /\ rm = 0.
(* what a reader of the timer knows: every pending deadline is safe w.r.t. an offset k0 that is not after the
   reading (k0 + estimate <= now), and k0 is below the current offset *)
Definition GetF (s : st) (tts : Time) (k0 : Z) : Prop :=
  Forall (due_ok (created s) k0) (pending s) /\ k0 + est (tsf s) (ltr s) tts <= now s /\
  k0 <= Kp (now s) (rem s) (tsf s) (ltr s).
Definition Stable (s : st) : Prop := StableF (running s) (pending s) (rem s) (tsf s) (ltr s) (now s) (created s).

Definition Cr (s : st) (id : nat) (d : Time) (bound : Z) : Prop :=
  exists t0, In (id, (t0, to_us d)) (created s) /\ t0 <= bound.

Definition P3 (s : st) : Prop :=
  match pc s with
  | Idle | C4 _ | D1 _ | D4 _ => incs s = false /\ Stable s
  | C1 id d => incs s = false /\ Stable s /\ Cr s id d (now s) /\ 0 < to_us d
  | C2 id d => incs s = true /\ Stable s /\ Cr s id d (now s) /\ 0 < to_us d
  | C3 _ | D2 _ | D3 _ => incs s = true /\ Stable s
  | A0 id d => incs s = true /\ running s = false /\ pending s = [] /\ rem s = 0 /\ Cr s id d (now s) /\ 0 < to_us d
  | A1 id d => incs s = true /\ running s = false /\ pending s = [(d, id)] /\ rem s = 0 /\ Cr s id d (now s) /\ 0 < to_us d
  | A2 id d => incs s = true /\ running s = false /\ pending s = [(d, id)] /\ rem s = 0 /\ Cr s id d (now s) /\ 0 < to_us d /\
               to_us (tsf s) = 0
  | A3 id => incs s = true /\ running s = false /\
             StableF true (pending s) (rem s) (tsf s) (ltr s) (now s) (created s)
  | E0 id d => incs s = true /\ running s = true /\ Stable s /\ Cr s id d (now s) /\ 0 < to_us d
  | E1 id d tts => incs s = true /\ running s = true /\ Stable s /\ 0 < to_us d /\
                   exists k0 t0, In (id, (t0, to_us d)) (created s) /\ GetF s tts k0 /\
                                 t0 <= k0 + est (tsf s) (ltr s) tts
  | E2 id d tts el => incs s = true /\ running s = true /\ Stable s /\ 0 < to_us d /\ el = ltr s /\
                   exists k0 t0, In (id, (t0, to_us d)) (created s) /\ GetF s tts k0 /\
                                 t0 <= k0 + est (tsf s) (ltr s) tts
  | E3 id d tts cur rd => incs s = true /\ running s = true /\ Stable s /\ 0 < to_us d /\
                          to_us rd = to_us d + to_us cur /\
                          due_ok (created s) (Kp (now s) (rem s) (tsf s) (ltr s)) (rd, id) /\
                          exists k0, Forall (due_ok (created s) k0) (pending s) /\ due_ok (created s) k0 (rd, id) /\
                                     k0 + to_us cur <= now s
  | E5 id d cur => incs s = true /\ running s = true /\ Stable s /\ 0 < to_us d /\
                   head_le (pending s) (to_us d + to_us cur) /\
                   exists k0, Forall (due_ok (created s) k0) (pending s) /\ k0 + to_us cur <= now s
  | E6 id d => incs s = true /\ running s = true /\ pending s <> [] /\ head_le (pending s) (to_us (tsf s) + to_us d) /\
               Forall (due_ok (created s) (now s - to_us (tsf s))) (pending s) /\ 0 < to_us d
  | R0 id fd nd => incs s = true /\ running s = true /\ Stable s /\
                   (exists i2 rest, pending s = (fd, id) :: (nd, i2) :: rest) /\ to_us fd < to_us nd
  | R1 id fd nd tts => incs s = true /\ running s = true /\ Stable s /\
                       (exists i2 rest, pending s = (fd, id) :: (nd, i2) :: rest) /\ to_us fd < to_us nd /\
                       exists k0, GetF s tts k0
  | R2 id fd nd tts el => incs s = true /\ running s = true /\ Stable s /\
                          (exists i2 rest, pending s = (fd, id) :: (nd, i2) :: rest) /\ to_us fd < to_us nd /\
                          el = ltr s /\ exists k0, GetF s tts k0
  | R3 id fd nd tts => incs s = true /\ running s = true /\
                       (exists i2 rest, pending s = (fd, id) :: (nd, i2) :: rest) /\ to_us fd < to_us nd /\
                       Forall (due_ok (created s) (now s - to_us (tsf s))) (pending s) /\
                       to_us fd <= to_us (tsf s) + to_us tts
  | R5 id => incs s = true /\ running s = true /\ Stable s /\ exists fd, pending s = [(fd, id)]
  | R6 id => incs s = true /\ running s = true /\ rem s = 0 /\ exists fd, pending s = [(fd, id)]
  | R4 id => incs s = true /\
             StableF (running s) (erase id (pending s)) (rem s) (tsf s) (ltr s) (now s) (created s)
  end.

Definition LogOK (s : st) : Prop :=
  forall id t d, In (id, t, d) (log s) -> exists t0 dl, In (id, (t0, dl)) (created s) /\ t0 + dl <= t.

Definition CrOK (s : st) : Prop :=
  NoDup (map fst (created s)) /\ forall i, In i (map fst (created s)) -> (i < next_id s)%nat.

Record inv3 (s : st) : Prop := { k_err : err s = false; k_p3 : P3 s; k_log : LogOK s; k_cr : CrOK s }.

Lemma is_zero_false t : OKt t -> 0 < to_us t -> is_zero t = false.
Proof.
  unfold OKt, to_us, is_zero. intros H Hp. pose proof U_pos.
  destruct (secs t =? 0) eqn:E1; simpl; auto. destruct (usecs t =? 0) eqn:E2; auto.
  apply Z.eqb_eq in E1, E2. rewrite E1, E2 in Hp. lia.
Qed.

Lemma due_ok_mono cr k k' e : k <= k' -> due_ok cr k e -> due_ok cr k' e.
Proof. intros Hk (t0 & dl & A & B). exists t0, dl. split; auto. lia. Qed.

Lemma Forall_due_mono cr k k' l : k <= k' -> Forall (due_ok cr k) l -> Forall (due_ok cr k') l.
Proof. intros Hk H. eapply Forall_impl; [|exact H]. intros e. apply due_ok_mono; auto. Qed.

Lemma due_ok_cr cr cr' k e : (forall x, In x cr -> In x cr') -> due_ok cr k e -> due_ok cr' k e.
Proof. intros Hc (t0 & dl & A & B). exists t0, dl. auto. Qed.

Lemma Forall_filter {A} (P : A -> Prop) f l : Forall P l -> Forall P (filter f l).
Proof. rewrite !Forall_forall. intros H x Hx. apply filter_In in Hx. apply H; tauto. Qed.

Section Early.
  Variable c : cmp.
  Hypothesis Hc : cmp_ok c.

  Let Hlt : lt_ok c := proj1 Hc.

  Lemma insert_head_le d i l b : OKt d -> all_ok l -> head_le l b \/ l = [] -> to_us d <= b \/ l <> [] ->
    (forall x, l = x :: tl l -> True) ->
    head_le (insert c d i l) (Z.max b (to_us d)) .
  Proof.
    intros Hd Hl Hh _ _. destruct l as [|[d' i'] l]; simpl.
    - lia.
    - destruct (clt c d' d); simpl; destruct Hh as [Hh|Hh]; try discriminate; simpl in Hh; lia.
  Qed.

  (* the head after an insertion is the smaller of the old head and the new deadline *)
  Lemma insert_head d i l b : OKt d -> all_ok l -> l <> [] -> head_le l b -> head_le (insert c d i l) b.
  Proof.
    intros Hd Hl Hne Hh. destruct l as [|[d' i'] l]; [congruence|]. simpl in *.
    inversion Hl; subst. simpl in *.
    destruct (clt c d' d) eqn:E; simpl; auto.
    assert (~ to_us d' < to_us d) by (intros Hx; apply (Hlt d' d) in Hx; auto; congruence). lia.
  Qed.

  Lemma insert_head_new d i l : head_le (insert c d i l) (to_us d) \/
                                (exists d' i' r, l = (d', i') :: r /\ clt c d' d = true).
  Proof.
    destruct l as [|[d' i'] l]; simpl; [left; lia|].
    destruct (clt c d' d) eqn:E; simpl; [right; eauto | left; lia].
  Qed.

  Lemma insert_head_le_new d i l : OKt d -> all_ok l -> head_le (insert c d i l) (to_us d).
  Proof.
    intros Hd Hl. destruct l as [|[d' i'] l]; simpl; [lia|].
    inversion Hl; subst. simpl in *.
    destruct (clt c d' d) eqn:E; simpl; [|lia]. apply (Hlt d' d) in E; auto. lia.
  Qed.

  Lemma insert_nonempty d i l : insert c d i l <> [].
  Proof. destruct l as [|[d' i'] l]; simpl; [discriminate|]. destruct (clt c d' d); discriminate. Qed.

  Lemma insert_Forall (P : elem -> Prop) d i l : P (d, i) -> Forall P l -> Forall P (insert c d i l).
  Proof.
    intros Hp. induction l as [|[d' i'] l IH]; simpl; intros H.
    - constructor; auto.
    - inversion H; subst. destruct (clt c d' d); constructor; auto.
  Qed.

  Lemma fire_loop_spec t l f r : OKt t -> all_ok l -> fire_loop c t l = (f, r) ->
    l = f ++ r /\ (forall x, In x f -> to_us (fst x) <= to_us t) /\
    (match r with [] => True | (d, _) :: _ => to_us t < to_us d end).
  Proof.
    intros Ht. revert f r. induction l as [|[d i] l IH]; simpl; intros f r Hl H.
    - inversion H; subst. simpl. repeat split; auto. tauto.
    - inversion Hl; subst. simpl in *. destruct (cle c d t) eqn:E.
      + destruct (fire_loop c t l) as [f' r'] eqn:E2. inversion H; subst.
        destruct (IH f' r H3 eq_refl) as (A & B & C).
        apply (proj1 (proj2 Hc) d t) in E; auto. simpl. repeat split; auto.
        * f_equal; auto.
        * intros x [<-|Hx]; simpl; auto.
      + inversion H; subst. simpl. repeat split; auto; try tauto.
        destruct (Z_lt_le_dec (to_us t) (to_us d)); auto.
        apply (proj1 (proj2 Hc) d t) in l0; auto. congruence.
  Qed.

  (* --- the timer expires outside a critical section ------------------------------------------------------- *)
  Lemma fire_stable s :
    inv2 s -> err s = false -> incs s = false -> Stable s -> LogOK s -> 0 < rem s ->
    let s' := handle_timeout c (set_now (now s + rem s) (set_rem 0 s)) in
    err s' = false /\ Stable s' /\ LogOK s' /\ incs s' = false /\ pc s' = pc s /\ created s' = created s /\
    next_id s' = next_id s /\ now s' = now s + rem s.
  Proof.
    intros I2 Herr Hcs Hst Hlog Hrem. unfold handle_timeout. simpl. rewrite Hcs. unfold LogOK in Hlog.
    unfold Stable, StableF in Hst.
    pose proof (j_tsf s I2) as Htsf. pose proof (j_ltr s I2) as Hltr. pose proof (j_pend s I2) as Hpend.
    destruct (tadd_ok (tsf s) (ltr s) Htsf Hltr) as [Hta Htau].
    destruct (running s) eqn:Hrun.
    2:{ destruct Hst as [_ Hz]. lia. }
    destruct Hst as (Hne & Hr & Hhead & Hdue). unfold Kp in Hdue.
    destruct (pending s) as [|[d1 i1] r] eqn:Hp; [congruence|].
    destruct (fire_loop c (tadd (tsf s) (ltr s)) r) as [f r'] eqn:Hf.
    inversion Hpend as [|? ? Hd1 Hr']; subst.
    destruct (fire_loop_spec _ _ _ _ Hta Hr' Hf) as (Happ & Hfl & Hrl).
    assert (Hlog' : forall id t d,
               In (id, t, d) (rev (map (log_entry (now s + rem s)) ((d1, i1) :: f)) ++ log s) ->
               exists t0 dl, In (id, (t0, dl)) (created s) /\ t0 + dl <= t).
    { intros id t d. rewrite in_app_iff, <- in_rev. intros [Hin|Hin]; [|apply (Hlog _ _ _ Hin)].
      apply in_map_iff in Hin as ([dd ii] & [= <- <- <-] & Hin).
      assert (Hd : due_ok (created s) (Z.min (now s + rem s - to_us (tsf s) - to_us (ltr s)) (now s - to_us (tsf s))) (dd, ii)).
      { rewrite Forall_forall in Hdue. apply Hdue. destruct Hin as [<-|Hin]; [left; auto|].
        right. rewrite Happ. apply in_or_app; auto. }
      destruct Hd as (t0 & dl & A & B). exists t0, dl. split; auto. simpl in B.
      assert (to_us dd <= to_us (tsf s) + to_us (ltr s)).
      { destruct Hin as [[= <- <-]|Hin]; [simpl in Hhead; lia|]. rewrite <- Htau. apply (Hfl _ Hin). }
      lia. }
    destruct r' as [|[d' i'] r''].
    - simpl. unfold Stable, StableF, LogOK. simpl. repeat split; auto.
    - assert (Hd' : OKt d').
      { subst r. apply Forall_app in Hr' as [_ Hr']. inversion Hr'; auto. }
      destruct (tsub_ok d' (tadd (tsf s) (ltr s)) Hd' Hta) as [Hso Hsu].
      assert (Hpos : 0 < to_us (tsub d' (tadd (tsf s) (ltr s)))) by lia.
      unfold set_timer. rewrite (is_zero_false _ Hso Hpos). simpl.
      unfold Stable, StableF, LogOK, Kp. simpl. rewrite Hrun. repeat split; auto; try lia; try discriminate.
      (* every remaining element keeps its bound: K is unchanged *)
      rewrite Forall_forall in *. intros x Hx.
      assert (Hx' : In x ((d1, i1) :: r)) by (right; rewrite Happ; apply in_or_app; auto).
      specialize (Hdue x Hx'). eapply due_ok_mono; [|exact Hdue]. lia.
  Qed.

End Early.
