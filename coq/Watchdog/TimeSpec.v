(* C19 -- the carrier of Implementation::Watchdog::Time and the little expression language in
   which tools/translate_time.py re-states, on every run, the bodies of Time's comparison
   operators as they are written in /repo/src/Time_inlines.hh (coq/gen/Facts_Time.v).
   Nothing here depends on the source. *)
Require Import ZArith Bool.
Open Scope Z_scope.

Record Time := mkT { secs : Z; usecs : Z }.

(* `x` / `y`: the two parameters of an operator;  seconds() / microseconds(): the accessors. *)
Inductive side := SX | SY.
Inductive field := FSec | FUsec.
Inductive atom := At (s : side) (f : field).

(* Boolean expressions over the accessors, plus calls to the previously defined operators
   (operator<= is written `x < y || x == y`, operator!= is `!(x == y)`). *)
Inductive bexp :=
| BEq (a b : atom) | BNe (a b : atom) | BLt (a b : atom) | BLe (a b : atom)
| BAnd (p q : bexp) | BOr (p q : bexp) | BNot (p : bexp)
| BCallEq (a b : side) | BCallLt (a b : side).

Definition side_val (x y : Time) (s : side) : Time := match s with SX => x | SY => y end.
Definition atom_val (x y : Time) (a : atom) : Z :=
  match a with At s FSec => secs (side_val x y s) | At s FUsec => usecs (side_val x y s) end.

Section Eval.
  Variables feq flt : Time -> Time -> bool.
  Fixpoint eval (e : bexp) (x y : Time) : bool :=
    match e with
    | BEq a b => atom_val x y a =? atom_val x y b
    | BNe a b => negb (atom_val x y a =? atom_val x y b)
    | BLt a b => atom_val x y a <? atom_val x y b
    | BLe a b => atom_val x y a <=? atom_val x y b
    | BAnd p q => eval p x y && eval q x y
    | BOr p q => eval p x y || eval q x y
    | BNot p => negb (eval p x y)
    | BCallEq a b => feq (side_val x y a) (side_val x y b)
    | BCallLt a b => flt (side_val x y a) (side_val x y b)
    end.
End Eval.

(* Decidable syntactic equality of specs: used to decide which theorem applies to the source. *)
Definition side_eqb (a b : side) := match a, b with SX, SX | SY, SY => true | _, _ => false end.
Definition field_eqb (a b : field) := match a, b with FSec, FSec | FUsec, FUsec => true | _, _ => false end.
Definition atom_eqb (a b : atom) :=
  match a, b with At s f, At s' f' => side_eqb s s' && field_eqb f f' end.
Fixpoint bexp_eqb (p q : bexp) : bool :=
  match p, q with
  | BEq a b, BEq a' b' | BNe a b, BNe a' b' | BLt a b, BLt a' b' | BLe a b, BLe a' b' =>
      atom_eqb a a' && atom_eqb b b'
  | BAnd a b, BAnd a' b' | BOr a b, BOr a' b' => bexp_eqb a a' && bexp_eqb b b'
  | BNot a, BNot a' => bexp_eqb a a'
  | BCallEq a b, BCallEq a' b' | BCallLt a b, BCallLt a' b' => side_eqb a a' && side_eqb b b'
  | _, _ => false
  end.

Lemma side_eqb_eq a b : side_eqb a b = true -> a = b.
Proof. destruct a, b; simpl; congruence. Qed.
Lemma field_eqb_eq a b : field_eqb a b = true -> a = b.
Proof. destruct a, b; simpl; congruence. Qed.
Lemma atom_eqb_eq a b : atom_eqb a b = true -> a = b.
Proof.
  destruct a as [s f], b as [s' f']; simpl; intros H.
  apply andb_true_iff in H as [H1 H2].
  apply side_eqb_eq in H1; apply field_eqb_eq in H2; congruence.
Qed.
Lemma bexp_eqb_eq p : forall q, bexp_eqb p q = true -> p = q.
Proof.
  induction p; destruct q; simpl; try discriminate; intros H;
    try (apply andb_true_iff in H as [H1 H2]);
    try (apply atom_eqb_eq in H1; apply atom_eqb_eq in H2; congruence);
    try (apply side_eqb_eq in H1; apply side_eqb_eq in H2; congruence);
    try (f_equal; auto).
Qed.

(* The intended bodies (what the documentation of Time_defs.hh says the operators compute). *)
Definition intended_eq : bexp :=
  BAnd (BEq (At SX FSec) (At SY FSec)) (BEq (At SX FUsec) (At SY FUsec)).
Definition intended_lt : bexp :=
  BOr (BLt (At SX FSec) (At SY FSec))
      (BAnd (BEq (At SX FSec) (At SY FSec)) (BLt (At SX FUsec) (At SY FUsec))).
Definition intended_le : bexp := BOr (BCallLt SX SY) (BCallEq SX SY).
Definition intended_ne : bexp := BNot (BCallEq SX SY).
