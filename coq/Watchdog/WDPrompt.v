(* C19 -- "provided it is still alive, promptly after the deadline": the part of promptness that is bookkeeping.
   No lost wake-up.  For every comparison record that is the intended one and EVERY schedule:
   (tracked)   a watchdog whose constructor has been entered and whose destructor has not been called is, at every
               instant, either still before its insertion into the pending list (its own constructor is running), or in
               the pending list, or has had its handler run (expired flag);
   (armed)     in every quiescent state (no constructor / destructor under way) in which some watchdog is pending, the
               one-shot timer is armed (rem > 0), no internal error was raised, and the critical-section flag is off;
   (fires)     the expiry that then comes runs the handler of the first pending watchdog (and logs it).
   Hence an alive watchdog that has not fired is pending, the timer is counting down, and the count-down's end runs
   the earliest one; by `order` the others follow in deadline order.  What the model cannot bound is the delay added
   by expiries deferred inside critical sections (each adds the reschedule time) and the kernel's signal latency. *)
Require Import ZArith List Bool Lia.
Require Import PPLV.Watchdog.TimeSpec PPLV.gen.Facts_Time PPLV.Watchdog.Time PPLV.Watchdog.WD
               PPLV.Watchdog.WDProofs PPLV.Watchdog.WDOrder PPLV.Watchdog.WDEarly PPLV.Watchdog.WDNever.
Import ListNotations.
Open Scope Z_scope.

Definition tracked (s : st) : Prop :=
  forall i, In i (alive s) ->
    In i (pids s) \/ In i (expired s) \/ (pc_id (pc s) = Some i /\ pre_insert (pc s) = true).

Lemma tracked_init : tracked init.
Proof. intros i H. inversion H. Qed.

Section Prompt.
  Variable c : cmp.

  Lemma tracked_fire s : tracked s -> tracked (handle_timeout c s).
  Proof.
    intros T. pose proof (handle_timeout_spec c s) as H. cbv zeta in H.
    destruct H as (Hpc & Hcs & Hnow & Hn & Ha & Hd & Hcr & fired & Hp & He & Hl & _).
    intros i Hi. rewrite Ha in Hi. destruct (T i Hi) as [A|[A|A]].
    - unfold pids in A. rewrite Hp, map_app, in_app_iff in A. destruct A as [A|A].
      + right; left. rewrite He, in_app_iff, <- in_rev. auto.
      + left. exact A.
    - right; left. rewrite He, in_app_iff. auto.
    - right; right. rewrite Hpc. exact A.
  Qed.

  Lemma tracked_step s : inv1 s -> tracked s -> tracked (step c s).
  Proof.
    intros I T. unfold step.
    pose proof set_timer_frame as STF. cbv zeta in STF.
    destruct (pc s) eqn:Hpc.
    all: try (destruct (running s)).
    all: try match goal with |- context [set_timer ?t ?x] =>
         destruct (STF t x) as (F1 & F2 & F3 & F4 & F5 & F6 & F7 & F8 & F9 & F10 & _) end.
    all: try match goal with |- context [clt c ?a ?b] => destruct (clt c a b) end.
    all: try match goal with |- context [match pending ?z with _ => _ end] =>
         destruct (pending z) as [|[fd id'] [|[nd i2] rest]] eqn:Hpend;
         try destruct (Nat.eqb id' id); try destruct (cne c fd nd) end.
    all: try exact T.
    all: intros i; unfold tracked, pids, get_timer, stop_timer in *;
         cbn [pending log expired next_id alive dead pc created
              set_pc set_incs set_pending set_tsf set_running set_ghost set_now set_rem set_calls set_ltr
              pc_id pre_insert] in *;
         rewrite ?F1, ?F2, ?F4, ?F8;
         cbn [pending log expired next_id alive dead pc created
              set_pc set_incs set_pending set_tsf set_running set_ghost set_now set_rem set_calls set_ltr
              pc_id pre_insert] in *;
         intros Hi; specialize (T i Hi); rewrite ?Hpc in T; cbn [pc_id pre_insert] in T.
    (* pc moves inside the pre-insert zone, or outside it with the pending list unchanged *)
    all: try solve [destruct T as [A|[A|[A B]]]; auto; try discriminate].
    (* the two inserts *)
    all: try solve [rewrite in_insert; destruct T as [A|[A|[A B]]]; auto; inversion A; subst; auto].
    (* the erase: the erased one is not alive (its destructor is running) *)
    all: try solve [rewrite in_erase; pose proof (i_dtor s I) as Hdt; rewrite Hpc in Hdt;
                    specialize (Hdt id eq_refl eq_refl);
                    destruct T as [A|[A|[A B]]]; auto; try discriminate;
                    left; split; auto; intros ->; auto].
  Qed.

  Lemma tracked_event e s : inv1 s -> tracked s -> tracked (do_event c e s).
  Proof.
    intros I T. unfold do_event. destruct (err s); auto.
    destruct e.
    - destruct (is_idle (pc s) && (0 <? csecs)) eqn:E; auto.
      intros i; unfold pids; simpl. intros [<-|Hi]; auto.
      destruct (T i Hi) as [A|[A|[A B]]]; auto.
      apply andb_true_iff in E as [E _]. destruct (pc s); discriminate.
    - destruct (is_idle (pc s) && memb id (alive s)) eqn:E; auto.
      apply andb_true_iff in E as [E _]. destruct (pc s) eqn:Hpc; try discriminate.
      destruct (memb id (expired s)); intros i; unfold pids; simpl; rewrite in_remove_id; intros [_ Hi];
        (destruct (T i Hi) as [A|[A|[A B]]]; auto; rewrite Hpc in A; discriminate).
    - apply tracked_step; auto.
    - destruct (0 <? us); auto. destruct (rem s =? 0); [|destruct (us <? rem s); auto]; exact T.
    - destruct (0 <? rem s); auto. apply tracked_fire. exact T.
  Qed.

  Lemma tracked_run evs s : inv1 s -> tracked s -> tracked (run c evs s).
  Proof.
    revert s. induction evs as [|e evs IH]; simpl; intros s I T; auto.
    apply IH; [apply inv1_event | apply tracked_event]; auto.
  Qed.

  Theorem tracked_c evs : tracked (run c evs init).
  Proof. apply tracked_run; [apply inv1_init | apply tracked_init]. Qed.

  (* the expiry delivered outside a critical section runs the handler of the first pending watchdog *)
  Lemma fire_head s d id r :
    err s = false -> incs s = false -> 0 < rem s -> pending s = (d, id) :: r ->
    let s' := do_event c Fire s in
    log s' = log (handle_timeout c (set_now (now s + rem s) (set_rem 0 s))) /\
    In id (lids s') /\ In id (expired s') /\
    exists new, log s' = new ++ log s /\ In (id, now s + rem s, d) new.
  Proof.
    intros He Hi Hr Hp. cbv zeta. unfold do_event. rewrite He. apply Z.ltb_lt in Hr. rewrite Hr.
    set (s0 := set_now (now s + rem s) (set_rem 0 s)).
    split; [reflexivity|].
    assert (Hp0 : pending s0 = (d, id) :: r) by exact Hp.
    assert (Hi0 : incs s0 = false) by exact Hi.
    assert (Hl0 : log s0 = log s) by reflexivity.
    assert (He0 : expired s0 = expired s) by reflexivity.
    assert (Hn0 : now s0 = now s + rem s) by reflexivity.
    pose proof set_timer_frame as STF. cbv zeta in STF.
    unfold handle_timeout. rewrite Hi0, Hp0. cbv zeta.
    destruct (fire_loop c (tadd (tsf s0) (ltr s0)) r) as [f r'] eqn:Hf.
    destruct r' as [|[d' i'] r''].
    - unfold lids. cbn [log expired set_running set_pending set_expired set_log set_tsf].
      rewrite Hl0, He0, Hn0. cbn [map rev]. split; [|split].
      + rewrite !map_app, !in_app_iff. left. right. simpl. auto.
      + rewrite !in_app_iff. left. right. simpl. auto.
      + eexists. split; [reflexivity|]. rewrite in_app_iff. right. simpl. auto.
    - match goal with |- context [set_timer ?t ?x] => destruct (STF t x) as (_ & F2 & F3 & _) end.
      unfold lids. rewrite F2, F3. cbn [log expired set_running set_pending set_expired set_log set_tsf].
      rewrite Hl0, He0, Hn0. cbn [map rev]. split; [|split].
      + rewrite !map_app, !in_app_iff. left. right. simpl. auto.
      + rewrite !in_app_iff. left. right. simpl. auto.
      + eexists. split; [reflexivity|]. rewrite in_app_iff. right. simpl. auto.
  Qed.
End Prompt.

Section Prompt2.
  Variable c : cmp.
  Hypothesis Hc : cmp_ok c.

  (* every schedule: in a quiescent state an alive watchdog that has not fired is pending, the timer is armed, no
     error was raised, and the next expiry runs the handler of the first pending watchdog at that instant *)
  Theorem no_lost_wakeup_c evs :
    let s := run c evs init in
    pc s = Idle ->
    err s = false /\ incs s = false /\
    (forall i, In i (alive s) -> ~ In i (expired s) -> In i (pids s)) /\
    (pending s <> [] -> 0 < rem s) /\
    (forall d id r, pending s = (d, id) :: r ->
       exists new, log (do_event c Fire s) = new ++ log s /\ In (id, now s + rem s, d) new).
  Proof.
    cbv zeta. intros Hpc.
    destruct (inv3_run c Hc evs init inv1_init inv2_init inv3_init) as [Herr HP _ _].
    unfold P3 in HP. rewrite Hpc in HP. destruct HP as [Hin HS].
    pose proof (tracked_c c evs) as T.
    assert (Harm : pending (run c evs init) <> [] -> 0 < rem (run c evs init)).
    { intros Hne. unfold Stable, StableF in HS. destruct (running (run c evs init)).
      - tauto.
      - destruct HS as [E _]. contradiction. }
    split; [exact Herr|]. split; [exact Hin|]. split; [|split].
    - intros i Hi Hne. destruct (T i Hi) as [A|[A|[A _]]]; auto; [contradiction|].
      rewrite Hpc in A. discriminate.
    - exact Harm.
    - intros d id r Hp.
      assert (Hr : 0 < rem (run c evs init)) by (apply Harm; rewrite Hp; discriminate).
      destruct (fire_head c _ d id r Herr Hin Hr Hp) as (_ & _ & _ & H). exact H.
  Qed.
End Prompt2.

(* not vacuous: a quiescent state with two alive, pending watchdogs; the expiry logs the first *)
Example no_lost_wakeup_nonvacuous :
  let s := run cmp_int [Create 5; Step; Step; Step; Step; Step; Step; Step; Step;
                        Create 3; Step; Step; Step; Step; Step; Step; Step; Step; Step; Step; Step; Step] init in
  pc s = Idle /\ length (pending s) = 2%nat /\ alive s = [1%nat; 0%nat] /\ 0 <? rem s = true /\
  lids (do_event cmp_int Fire s) = [1%nat].
Proof. vm_compute. repeat split. Qed.
