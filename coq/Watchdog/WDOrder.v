(* C19 -- well-formedness of every Time in the machine and sortedness of the pending list, for every comparison
   record whose `<` is the intended one and EVERY schedule; the order in which handlers run; and the executable
   "fired early" test with the refutation witnesses for the code as written. *)
Require Import ZArith List Bool Lia.
Require Import PPLV.Watchdog.TimeSpec PPLV.gen.Facts_Time PPLV.Watchdog.Time PPLV.Watchdog.WD PPLV.Watchdog.WDProofs.
Import ListNotations.
Open Scope Z_scope.

(* ---- sortedness ------------------------------------------------------------------------------------------ *)

Definition lbound (b : Z) (l : list elem) : Prop := match l with [] => True | (d, _) :: _ => b <= to_us d end.
Fixpoint sorted (l : list elem) : Prop :=
  match l with [] => True | (d, _) :: r => lbound (to_us d) r /\ sorted r end.
Definition all_ok (l : list elem) : Prop := Forall (fun e => OKt (fst e)) l.

Definition pc_ok (p : pcT) : Prop :=
  match p with
  | C1 _ d | C2 _ d | A0 _ d | A1 _ d | A2 _ d | E0 _ d | E6 _ d => OKt d
  | E1 _ d t => OKt d /\ OKt t
  | E2 _ d t e => OKt d /\ OKt t /\ OKt e
  | E3 _ d t cu rd => OKt d /\ OKt t /\ OKt cu /\ OKt rd
  | E5 _ d cu => OKt d /\ OKt cu
  | R0 _ fd nd => OKt fd /\ OKt nd
  | R1 _ fd nd t | R3 _ fd nd t => OKt fd /\ OKt nd /\ OKt t
  | R2 _ fd nd t e => OKt fd /\ OKt nd /\ OKt t /\ OKt e
  | _ => True
  end.

Record inv2 (s : st) : Prop := {
  j_tsf : OKt (tsf s);
  j_ltr : OKt (ltr s);
  j_pend : all_ok (pending s);
  j_rem : 0 <= rem s;
  j_pc : pc_ok (pc s);
  j_sorted : sorted (pending s)
}.

Lemma inv2_init : inv2 init.
Proof. constructor; simpl; [apply OKt_zero | apply OKt_zero | constructor | lia | exact I | exact I]. Qed.

Lemma sorted_all d i r : sorted ((d, i) :: r) -> forall x, In x r -> to_us d <= to_us (fst x).
Proof.
  revert d i. induction r as [|[d' i'] r IH]; simpl; intros d i [Hb Hs] x Hx; [tauto|].
  destruct Hx as [<-|Hx]; simpl; auto.
  etransitivity; [exact Hb|]. exact (IH d' i' Hs x Hx).
Qed.

Lemma sorted_app_r f r : sorted (f ++ r) -> sorted r.
Proof. induction f as [|[d i] f IH]; simpl; auto. intros [_ H]; auto. Qed.

Lemma all_ok_app f r : all_ok (f ++ r) -> all_ok f /\ all_ok r.
Proof. unfold all_ok. rewrite Forall_app. auto. Qed.

Lemma tadd_OK x y : OKt x -> OKt y -> OKt (tadd x y).
Proof. intros; apply tadd_ok; auto. Qed.
Lemma tsub_OK x y : OKt x -> OKt y -> OKt (tsub x y).
Proof. intros; apply tsub_ok; auto. Qed.

Lemma reschedule_ok : OKt reschedule_time /\ 0 < to_us reschedule_time.
Proof.
  destruct (of_csecs_ok reschedule_csecs) as [A B]; [unfold reschedule_csecs; lia|].
  split; [exact A|]. unfold reschedule_time. rewrite B. reflexivity.
Qed.

Lemma timer_value_ok s : 0 <= rem s -> OKt (timer_value s) /\ to_us (timer_value s) = rem s.
Proof. intros H. unfold timer_value. rewrite (mk2_of_us _ H). apply of_us_ok; auto. Qed.

Section Order.
  Variable c : cmp.
  Hypothesis Hlt : lt_ok c.

  Lemma insert_ok d i l : OKt d -> all_ok l -> all_ok (insert c d i l).
  Proof.
    unfold all_ok. induction l as [|[d' i'] l IH]; simpl; intros Hd H.
    - constructor; auto.
    - inversion H; subst. destruct (clt c d' d); constructor; auto.
  Qed.

  Lemma insert_lbound b d i l : b <= to_us d -> lbound b l -> lbound b (insert c d i l).
  Proof. destruct l as [|[d' i'] l]; simpl; auto. destruct (clt c d' d); simpl; auto. Qed.

  Lemma insert_sorted d i l : OKt d -> all_ok l -> sorted l -> sorted (insert c d i l).
  Proof.
    unfold all_ok. induction l as [|[d' i'] l IH]; simpl; intros Hd H Hs.
    - auto.
    - inversion H; subst. simpl in *. destruct Hs as [Hb Hs].
      destruct (clt c d' d) eqn:E; simpl.
      + apply Hlt in E; auto. split; auto. apply insert_lbound; auto. lia.
      + assert (~ to_us d' < to_us d) by (intros Hc; apply (Hlt d' d) in Hc; auto; congruence). split; auto. lia.
  Qed.

  Lemma erase_ok i l : all_ok l -> all_ok (erase i l).
  Proof. unfold all_ok, erase. intros H. rewrite Forall_forall in *. intros x Hx. apply filter_In in Hx. apply H; tauto. Qed.

  Lemma erase_lbound b i l : sorted l -> lbound b l -> lbound b (erase i l).
  Proof.
    unfold erase. revert b. induction l as [|[d' i'] l IH]; simpl; intros b Hs Hb; auto.
    destruct Hs as [Hb' Hs]. destruct (Nat.eqb i' i); simpl; auto.
    apply IH; auto. destruct l as [|[d2 i2] l]; simpl in *; auto. lia.
  Qed.

  Lemma erase_sorted i l : sorted l -> sorted (erase i l).
  Proof.
    induction l as [|[d' i'] l IH]; simpl; intros Hs; auto.
    destruct Hs as [Hb Hs]. unfold erase in *. simpl. destruct (Nat.eqb i' i); simpl; auto.
    split; auto. apply (erase_lbound (to_us d') i l); auto.
  Qed.

  Lemma set_timer_inv2 t s : OKt t -> inv2 s -> inv2 (set_timer t s).
  Proof.
    intros Ht I. unfold set_timer. destruct (is_zero t).
    - constructor; simpl; apply I.
    - constructor; simpl; try apply I; auto. apply to_us_nonneg; auto.
  Qed.

  Lemma inv2_fire s : inv2 s -> inv2 (handle_timeout c s).
  Proof.
    intros I. unfold handle_timeout. destruct (incs s).
    - assert (I' : inv2 (set_timer reschedule_time s)) by (apply set_timer_inv2; auto; apply reschedule_ok).
      constructor; simpl; try apply I'. apply I.
    - assert (Ht : OKt (tadd (tsf s) (ltr s))) by (apply tadd_ok; apply I).
      destruct (pending s) as [|e r] eqn:Hp.
      + constructor; simpl; try apply I; auto.
      + destruct (fire_loop c (tadd (tsf s) (ltr s)) r) as [f r'] eqn:Hf.
        apply fire_loop_app in Hf. subst r.
        pose proof (j_pend s I) as Hok. pose proof (j_sorted s I) as Hs. rewrite Hp in Hok, Hs.
        change (e :: f ++ r') with ((e :: f) ++ r') in Hok, Hs.
        apply all_ok_app in Hok as [_ Hok]. apply sorted_app_r in Hs.
        destruct r' as [|[d' i'] r''].
        * constructor; simpl; try apply I; auto; constructor.
        * apply set_timer_inv2.
          -- apply tsub_ok; auto. inversion Hok; auto.
          -- constructor; simpl; try apply I; auto.
  Qed.

  Opaque OKt.
  Lemma inv2_step s : inv2 s -> inv2 (step c s).
  Proof.
    intros I. unfold step.
    pose proof (j_tsf s I) as Htsf. pose proof (j_ltr s I) as Hltr. pose proof (j_pend s I) as Hpend.
    pose proof (j_rem s I) as Hrem. pose proof (j_pc s I) as Hpcok. pose proof (j_sorted s I) as Hsort.
    destruct (timer_value_ok s Hrem) as [Htv _].
    destruct (pc s) eqn:Hpc; simpl in Hpcok.
    all: try (destruct (running s)).
    all: try match goal with |- context [clt c ?a ?b] => destruct (clt c a b) end.
    all: try match goal with |- context [match pending ?z with _ => _ end] =>
         destruct (pending z) as [|[fd id'] [|[nd i2] rest]] eqn:Hpe;
         try destruct (Nat.eqb id' id); try destruct (cne c fd nd) end.
    all: try exact I.
    all: try match goal with |- inv2 (set_pc ?p (set_timer ?t ?x)) =>
         assert (OKt t) by (repeat first [apply tadd_OK | apply tsub_OK | tauto]);
         assert (I' : inv2 (set_timer t x)) by (apply set_timer_inv2; [assumption|];
             constructor; simpl; try apply I; rewrite ?Hpc; simpl; tauto);
         constructor; simpl; first [apply I' | exact Logic.I] end.
    all: constructor; unfold get_timer, stop_timer; simpl; rewrite ?Hpe in *; auto using OKt_zero; try tauto; try lia.
    all: try solve [apply insert_ok; tauto | apply insert_sorted; tauto | apply erase_ok; auto | apply erase_sorted; auto].
    all: try solve [repeat split; try tauto; repeat first [apply tadd_OK | apply tsub_OK | tauto]].
    all: try solve [inversion Hpend as [|? ? ? Hr]; subst; inversion Hr; subst; simpl in *; tauto].
    all: try solve [destruct Hpcok as (H1 & H2 & H3); refine (conj H1 (conj H2 (conj _ _)));
                    repeat first [apply tadd_OK | apply tsub_OK | assumption]].
    all: try solve [apply tadd_OK; try tauto; apply tsub_OK; tauto].
  Qed.

  Transparent OKt.
  Lemma inv2_event e s : inv2 s -> inv2 (do_event c e s).
  Proof.
    intros I. unfold do_event. destruct (err s); auto. destruct e.
    - destruct (is_idle (pc s) && (0 <? csecs)) eqn:E; auto.
      apply andb_true_iff in E as [_ E]. apply Z.ltb_lt in E.
      constructor; simpl; try apply I. apply of_csecs_ok. lia.
    - destruct (is_idle (pc s) && memb id (alive s)); auto.
      destruct (memb id (expired s)); constructor; simpl; try apply I; exact Logic.I.
    - apply inv2_step; auto.
    - destruct (0 <? us) eqn:E1; auto. destruct (rem s =? 0); [|destruct (us <? rem s) eqn:E2; auto];
        constructor; simpl; try apply I. apply Z.ltb_lt in E2. lia.
    - destruct (0 <? rem s); auto. apply inv2_fire. constructor; simpl; try apply I. lia.
  Qed.

  Lemma inv2_run evs s : inv2 s -> inv2 (run c evs s).
  Proof. revert s. induction evs; simpl; intros; auto. apply IHevs, inv2_event; auto. Qed.

  Theorem pending_sorted_c evs : sorted (pending (run c evs init)).
  Proof. apply j_sorted, inv2_run, inv2_init. Qed.

  (* Handlers run in deadline order: the entries an event adds to the log are in non-decreasing order of stored
     deadline, and nothing that is still pending afterwards has a smaller deadline than an entry just logged. *)
  Fixpoint nondecr (l : list Z) : Prop :=
    match l with [] => True | a :: r => (match r with [] => True | b :: _ => a <= b end) /\ nondecr r end.

  Lemma sorted_nondecr f r : sorted (f ++ r) ->
    nondecr (map (fun e => to_us (fst e)) f) /\
    forall x y, In x f -> In y r -> to_us (fst x) <= to_us (fst y).
  Proof.
    induction f as [|[d i] f IH]; simpl; intros Hs.
    - split; auto. tauto.
    - destruct Hs as [Hb Hs]. destruct (IH Hs) as [A B]. split.
      + split; auto. destruct f as [|[d2 i2] f]; simpl in *; auto.
      + intros x y [<-|Hx] Hy; simpl; auto.
        apply (sorted_all d i (f ++ r)); [simpl; auto | apply in_or_app; auto].
  Qed.

  Theorem order_c evs e :
    let s := run c evs init in
    let s' := do_event c e s in
    exists new, log s' = rev new ++ log s /\
                nondecr (map (fun x => to_us (snd x)) new) /\
                forall x y, In x new -> In y (pending s') -> to_us (snd x) <= to_us (fst y).
  Proof.
    intros s s'. assert (I : inv2 s) by apply inv2_run, inv2_init.
    assert (Triv : log s' = log s -> exists new, log s' = rev new ++ log s /\
                nondecr (map (fun x => to_us (snd x)) new) /\
                forall x y, In x new -> In y (pending s') -> to_us (snd x) <= to_us (fst y)).
    { intros E. exists []. simpl. repeat split; auto. tauto. }
    unfold s', do_event in *. destruct (err s); [apply Triv; reflexivity|]. destruct e.
    - apply Triv. destruct (is_idle (pc s) && (0 <? csecs)); reflexivity.
    - apply Triv. destruct (is_idle (pc s) && memb id (alive s)); [destruct (memb id (expired s))|]; reflexivity.
    - apply Triv. unfold step.
      pose proof (set_timer_frame) as STF. cbv zeta in STF.
      destruct (pc s) eqn:Hpc.
      all: try (destruct (running s)).
      all: try match goal with |- context [set_timer ?t ?x] =>
           destruct (STF t x) as (F1 & F2 & F3 & _) end.
      all: try match goal with |- context [clt c ?a ?b] => destruct (clt c a b) end.
      all: try match goal with |- context [match pending ?z with _ => _ end] =>
           destruct (pending z) as [|[fd id'] [|[nd i2] rest]] eqn:Hpend;
           try destruct (Nat.eqb id' id); try destruct (cne c fd nd) end.
      all: unfold get_timer, stop_timer; simpl; rewrite ?F3; reflexivity.
    - apply Triv. destruct (0 <? us); auto. destruct (rem s =? 0); [|destruct (us <? rem s)]; reflexivity.
    - destruct (0 <? rem s); [|apply Triv; reflexivity].
      match goal with |- context [handle_timeout c ?x] => set (s0 := x) end.
      pose proof (handle_timeout_spec c s0) as H. cbv zeta in H.
      destruct H as (_ & _ & _ & _ & _ & _ & _ & fired & Hp & _ & Hl & _).
      exists (map (log_entry (now s0)) fired). split; [exact Hl|].
      pose proof (j_sorted s I) as Hs. change (pending s) with (pending s0) in Hs. rewrite Hp in Hs.
      destruct (sorted_nondecr _ _ Hs) as [A B]. split.
      + rewrite map_map. simpl. exact A.
      + intros x y Hx Hy. apply in_map_iff in Hx as (el & <- & Hel). simpl. apply B; auto.
  Qed.
End Order.

(* ---- fired early? (executable) ---------------------------------------------------------------------------- *)

Fixpoint lookup (i : nat) (l : list (nat * (Z * Z))) : option (Z * Z) :=
  match l with [] => None | (j, v) :: r => if Nat.eqb i j then Some v else lookup i r end.

Definition early_entry (cr : list (nat * (Z * Z))) (e : nat * Z * Time) : bool :=
  match lookup (entry_id e) cr with Some (t0, dl) => entry_t e <? t0 + dl | None => false end.
Definition early_b (s : st) : bool := existsb (early_entry (created s)) (log s).

(* A handler ran before (time at constructor entry) + delay. *)
Definition Early (s : st) : Prop :=
  exists id t d t0 dl, In (id, t, d) (log s) /\ In (id, (t0, dl)) (created s) /\ t < t0 + dl.

Lemma lookup_in i l v : lookup i l = Some v -> In (i, v) l.
Proof.
  induction l as [|[j w] l IH]; simpl; [discriminate|].
  destruct (Nat.eqb i j) eqn:E; [apply Nat.eqb_eq in E; intros [=]; subst; auto | auto].
Qed.

Lemma early_b_sound s : early_b s = true -> Early s.
Proof.
  unfold early_b, Early. rewrite existsb_exists. intros ([[id t] d] & Hin & H).
  unfold early_entry, entry_id, entry_t in H. simpl in H.
  destruct (lookup id (created s)) as [[t0 dl]|] eqn:E; [|discriminate].
  apply lookup_in in E. apply Z.ltb_lt in H. exists id, t, d, t0, dl. auto.
Qed.

(* No timer expiry is delivered while in_critical_section is set. *)
Fixpoint no_cs_fire (c : cmp) (evs : list event) (s : st) : bool :=
  match evs with
  | [] => true
  | e :: r => (match e with Fire => negb (incs s && (0 <? rem s)) | _ => true end) && no_cs_fire c r (do_event c e s)
  end.

Definition steps (n : nat) : list event := repeat Step n.

(* Two watchdogs of 1 cs and 2 cs constructed at time 0; the timer expires at 1 cs: both handlers run.
   No expiry inside a critical section: this is the `==` typo alone. *)
Definition witness_eq : list event :=
  [Create 1] ++ steps 8 ++ [Create 2] ++ steps 9 ++ [Fire].

(* W0 (10 cs) at 0; the constructor of W1 (7 cs) starts at 50000 us, reads the timer, and the timer then expires
   inside the critical section (reschedule); W1's handler runs at 110000 us < 50000 + 70000. *)
Definition witness_resched : list event :=
  [Create 10] ++ steps 8 ++ [Tick 50000; Create 7; Step; Step; Step; Fire] ++ steps 8 ++ [Fire].

Lemma witness_resched_not_early : early_b (run cmp_int witness_resched init) = false /\ early_b (run cmp_src witness_resched init) = false.
Proof. split; vm_compute; reflexivity. Qed.

(* ---- fact-dependent obligations (re-checked against the regenerated Facts_Time.v on every run) ------------- *)

(* operator< of the source is the intended one: breaks if the source's `<` changes. *)
Lemma src_lt_ok : lt_ok cmp_src.
Proof. apply src_lt_ok_if. vm_compute. reflexivity. Qed.

Theorem pending_sorted_src evs : sorted (pending (run cmp_src evs init)).
Proof. apply pending_sorted_c, src_lt_ok. Qed.

Lemma reschedule_fact : reschedule_csecs = 1 /\ to_us reschedule_time = 10000.
Proof. split; reflexivity. Qed.
