(* C19 -- never_early: preservation of inv3 (WDEarly.v) by every event, and the theorems. *)
Require Import ZArith List Bool Lia.
Require Import PPLV.Watchdog.TimeSpec PPLV.gen.Facts_Time PPLV.Watchdog.Time PPLV.Watchdog.WD
               PPLV.Watchdog.WDProofs PPLV.Watchdog.WDOrder PPLV.Watchdog.WDEarly.
Import ListNotations.
Open Scope Z_scope.

Lemma StableF_env run p rm ts lt nw cr rm' nw' :
  StableF run p rm ts lt nw cr -> (rm = 0 -> rm' = 0) -> (0 < rm -> 0 < rm') ->
  Kp nw rm ts lt <= Kp nw' rm' ts lt -> StableF run p rm' ts lt nw' cr.
Proof.
  unfold StableF. destruct run; intros H H0 H1 HK.
  - destruct H as (A & B & C & D). repeat split; auto. eapply Forall_due_mono; [|exact D]. exact HK.
  - destruct H as [A B]. auto.
Qed.

Lemma Cr_mono s s' id d b b' : created s' = created s -> b <= b' -> Cr s id d b -> Cr s' id d b'.
Proof. unfold Cr. intros E Hb (t0 & A & B). rewrite E. exists t0. split; auto. lia. Qed.

Lemma erase_cons_same id d l : erase id ((d, id) :: l) = erase id l.
Proof. unfold erase. simpl. rewrite Nat.eqb_refl. reflexivity. Qed.
Lemma erase_cons_other id d i l : i <> id -> erase id ((d, i) :: l) = (d, i) :: erase id l.
Proof. unfold erase. simpl. intros H. apply Nat.eqb_neq in H. rewrite H. reflexivity. Qed.

Section Never.
  Variable c : cmp.
  Hypothesis Hc : cmp_ok c.
  Let Hlt : lt_ok c := proj1 Hc.

  Lemma step_frame s : log (step c s) = log s /\ created (step c s) = created s /\ next_id (step c s) = next_id s.
  Proof.
    unfold step. pose proof (set_timer_frame) as STF. cbv zeta in STF.
    destruct (pc s) eqn:Hpc.
    all: try (destruct (running s)).
    all: try match goal with |- context [set_timer ?t ?x] =>
         destruct (STF t x) as (F1 & F2 & F3 & F4 & F5 & F6 & F7 & F8 & F9 & F10 & _) end.
    all: try match goal with |- context [clt c ?a ?b] => destruct (clt c a b) end.
    all: try match goal with |- context [match pending ?z with _ => _ end] =>
         destruct (pending z) as [|[fd id'] [|[nd i2] rest]] eqn:Hpend;
         try destruct (Nat.eqb id' id); try destruct (cne c fd nd) end.
    all: unfold get_timer, stop_timer; simpl; rewrite ?F3, ?F7, ?F10; auto.
  Qed.

  Ltac okt := repeat first [assumption | apply tadd_OK | apply tsub_OK | apply OKt_zero | tauto].

  Lemma set_timer_pos t s : OKt t -> 0 < to_us t ->
    set_timer t s = set_calls (CSet (secs t) (usecs t) :: calls s) (set_rem (to_us t) (set_ltr t s)).
  Proof. intros Ho Hp. unfold set_timer. rewrite (is_zero_false t Ho Hp). reflexivity. Qed.

  Lemma step_p3 s : inv1 s -> inv2 s -> err s = false -> P3 s -> err (step c s) = false /\ P3 (step c s).
  Proof.
    intros I1 I2 Herr HP. unfold P3 in HP. unfold step.
    pose proof (j_tsf s I2) as Htsf. pose proof (j_ltr s I2) as Hltr. pose proof (j_pend s I2) as Hpend.
    pose proof (j_rem s I2) as Hrem. pose proof (j_pc s I2) as Hpcok. pose proof (j_sorted s I2) as Hsort.
    pose proof (i_nodup_p s I1) as Hnd. unfold pids in Hnd.
    destruct (timer_value_ok s Hrem) as [Htv Htvu].
    destruct (pc s) eqn:Hpc; simpl in Hpcok.
    - (* Idle *) split; auto. unfold P3. rewrite Hpc. auto.
    - (* C1 *) split; auto; unfold P3, Stable, StableF, Cr in *; simpl; tauto.
    - (* C2 *) destruct (running s) eqn:Hrun; (split; [auto|]); unfold P3, Stable, StableF, Cr in *; simpl; rewrite ?Hrun in *; tauto.
    - (* A0 *) split; auto. unfold P3, Cr in *; simpl. destruct HP as (A & B & C & D & E & F). rewrite C. simpl. tauto.
    - (* A1 *) split; auto. unfold P3, Cr in *; simpl. intuition.
    - (* A2 *) destruct HP as (A & B & C & D & E & F & G).
      rewrite (set_timer_pos d s Hpcok F). split; auto.
      unfold P3, StableF, Kp; simpl. rewrite C. repeat split; auto; try discriminate; try lia.
      + simpl. lia.
      + constructor; [|constructor]. destruct E as (t0 & E1 & E2). exists t0, (to_us d). simpl. split; auto. lia.
    - (* A3 *) split; auto; unfold P3, Stable, StableF, Cr in *; simpl; tauto.
    - (* E0 *) split; auto. destruct HP as (A & B & C & D & E).
      unfold P3, get_timer, Stable, Cr in *; simpl.
      pose proof C as C'. unfold StableF in C'. rewrite B in C'. destruct C' as (C1 & C2 & C3 & C4).
      destruct D as (t0 & D1 & D2).
      repeat split; auto.
      exists (Kp (now s) (rem s) (tsf s) (ltr s)), t0. unfold GetF, est; simpl. rewrite Htvu.
      repeat split; auto; unfold Kp; lia.
    - (* E1 *) split; auto; unfold P3, Stable, StableF, Cr in *; simpl; tauto.
    - (* E2 *) split; auto. destruct Hpcok as (Od & Ot & Oe).
      destruct HP as (A & B & C & F & G & (k0 & t0 & D1 & (G1 & G2 & G3) & D2)). subst el. unfold est in *.
      assert (Osub : OKt (tsub (ltr s) tts)) by okt.
      destruct (tsub_ok (ltr s) tts Hltr Ot) as [_ Hs1].
      destruct (tadd_ok (tsf s) (tsub (ltr s) tts) Htsf Osub) as [Ocur Hs2].
      destruct (tadd_ok d _ Od Ocur) as [_ Hs3].
      unfold P3, Stable in *; simpl. repeat split; auto; try lia.
      + exists t0, (to_us d). simpl. split; auto. lia.
      + exists k0. repeat split; auto; try lia. exists t0, (to_us d). simpl. split; auto. lia.
    - (* E3 *) destruct Hpcok as (Od & Ot & Ocu & Ord).
      destruct HP as (A & B & C & G & E & F & (k0 & K1 & K2 & K3)).
      assert (Hst : Stable (set_pending (insert c rd id (pending s)) s)).
      { unfold Stable, StableF in *; simpl. rewrite B in *. destruct C as (C1 & C2 & C3 & C4).
        refine (conj _ (conj C2 (conj _ _))).
        - apply insert_nonempty.
        - apply (insert_head c Hc); auto.
        - apply insert_Forall; auto. }
      destruct (clt c d tts); (split; [auto|]); unfold P3; simpl; repeat split; auto.
      + rewrite <- E. apply (insert_head_le_new c Hc); auto.
      + exists k0. split; auto. apply insert_Forall; auto.
    - (* E5 *) split; auto. destruct Hpcok as (Od & Ocu). destruct HP as (A & B & C & F & E & (k0 & K1 & K2)).
      unfold P3, Stable, StableF in *; simpl. rewrite B in C. destruct C as (C1 & C2 & C3 & C4).
      repeat split; auto.
      + destruct (pending s) as [|[d1 i1] r]; simpl in *; auto. lia.
      + eapply Forall_due_mono; [|exact K1]. lia.
    - (* E6 *) destruct HP as (A & B & C & D & E & F).
      rewrite (set_timer_pos d s Hpcok F). split; auto.
      unfold P3, Stable, StableF, Kp; simpl. rewrite B. repeat split; auto; try lia.
      eapply Forall_due_mono; [|exact E]. lia.
    - (* C3 *) split; auto; unfold P3, Stable, StableF, Cr in *; simpl; tauto.
    - (* C4 *) split; auto; unfold P3, Stable, StableF, Cr in *; simpl; tauto.
    - (* D1 *) split; auto; unfold P3, Stable, StableF, Cr in *; simpl; tauto.
    - (* D2 *) destruct HP as (A & B). unfold Stable, StableF in B.
      destruct (pending s) as [|[fd id'] rest] eqn:Hpe.
      + split; auto. unfold P3, StableF; simpl. rewrite Hpe. split; auto.
      + destruct (running s) eqn:Hrun; [|destruct B; discriminate].
        destruct B as (B1 & B2 & B3 & B4).
        inversion Hpend as [|? ? Ofd Orest]; subst. simpl in Ofd.
        destruct (Nat.eqb id' id) eqn:Eid.
        * apply Nat.eqb_eq in Eid. subst id'.
          destruct rest as [|[nd i2] rest].
          -- split; auto. unfold P3, Stable, StableF; simpl. rewrite Hrun, Hpe. repeat split; eauto; lia.
          -- inversion Orest as [|? ? Ond _]; subst. simpl in Ond.
             assert (Hi2 : i2 <> id).
             { simpl in Hnd. inversion Hnd; subst. simpl in *. intuition. }
             simpl in Hsort. destruct Hsort as [Hle _].
             destruct (cne c fd nd) eqn:Ene.
             ++ apply (proj2 (proj2 Hc) fd nd) in Ene; auto.
                split; auto. unfold P3, Stable, StableF; simpl. rewrite Hrun, Hpe.
                repeat split; eauto; try lia.
             ++ assert (to_us fd = to_us nd).
                { destruct (Z.eq_dec (to_us fd) (to_us nd)); auto.
                  apply (proj2 (proj2 Hc) fd nd) in n; auto. congruence. }
                split; auto. unfold P3, StableF; simpl. rewrite Hrun, Hpe.
                rewrite erase_cons_same, erase_cons_other by auto.
                repeat split; auto; try discriminate; try lia.
                ** simpl in *. lia.
                ** inversion B4 as [|? ? _ B4']; subst. inversion B4'; subst. constructor; auto.
                   apply Forall_filter; auto.
        * apply Nat.eqb_neq in Eid.
          split; auto. unfold P3, StableF; simpl. rewrite Hrun, Hpe.
          rewrite erase_cons_other by auto. repeat split; auto; try discriminate; try lia.
          inversion B4; subst. constructor; auto. apply Forall_filter; auto.
    - (* R0 *) split; auto. destruct HP as (A & B & C & D & E).
      unfold P3, get_timer, Stable in *; simpl.
      pose proof C as C'. unfold StableF in C'. rewrite B in C'. destruct C' as (C1 & C2 & C3 & C4).
      repeat split; auto.
      exists (Kp (now s) (rem s) (tsf s) (ltr s)). unfold GetF, est; simpl. rewrite Htvu.
      repeat split; auto; unfold Kp; lia.
    - (* R1 *) split; auto; unfold P3, Stable, StableF, Cr in *; simpl; tauto.
    - (* R2 *) split; auto. destruct Hpcok as (Ofd & Ond & Ot & Oe).
      destruct HP as (A & B & C & D & E & G & (k0 & G1 & G2 & G3)). subst el. unfold est in *.
      assert (Osub : OKt (tsub (ltr s) tts)) by okt.
      destruct (tsub_ok (ltr s) tts Hltr Ot) as [_ Hs1].
      destruct (tadd_ok (tsf s) (tsub (ltr s) tts) Htsf Osub) as [_ Hs2].
      unfold Stable, StableF in C. rewrite B in C. destruct C as (C1 & C2 & C3 & C4).
      unfold P3; simpl. repeat split; auto.
      + eapply Forall_due_mono; [|exact G1]. lia.
      + destruct D as (i2 & rest & D). rewrite D in C3. simpl in C3. lia.
    - (* R3 *) destruct Hpcok as (Ofd & Ond & Ot).
      destruct HP as (A & B & (i2 & rest & C) & D & E & F).
      assert (Osub : OKt (tsub nd fd)) by okt.
      destruct (tsub_ok nd fd Ond Ofd) as [_ Hs1].
      destruct (tadd_ok tts (tsub nd fd) Ot Osub) as [OL Hs2].
      pose proof (to_us_nonneg tts Ot) as Htn.
      rewrite (set_timer_pos _ s OL) by lia. split; auto.
      assert (Hi2 : i2 <> id).
      { rewrite C in Hnd. simpl in Hnd. inversion Hnd; subst. simpl in *. intuition. }
      unfold P3, StableF, Kp; simpl. rewrite B, C.
      rewrite erase_cons_same, erase_cons_other by auto.
      repeat split; auto; try discriminate; try lia.
      + simpl. lia.
      + rewrite C in E. inversion E as [|? ? _ E']; subst. inversion E' as [|? ? E1 E2]; subst.
        constructor.
        * eapply due_ok_mono; [|exact E1]. lia.
        * apply Forall_filter. eapply Forall_due_mono; [|exact E2]. lia.
    - (* R5 *) split; auto. destruct HP as (A & B & C & D).
      unfold P3, stop_timer; simpl. tauto.
    - (* R6 *) split; auto. destruct HP as (A & B & C & (fd & D)).
      unfold P3, StableF; simpl. rewrite D, erase_cons_same. unfold erase. simpl. auto.
    - (* R4 *) split; auto; unfold P3, Stable, StableF, Cr in *; simpl; tauto.
    - (* D3 *) split; auto; unfold P3, Stable, StableF, Cr in *; simpl; tauto.
    - (* D4 *) split; auto; unfold P3, Stable, StableF, Cr in *; simpl; tauto.
  Qed.

  (* P3 only looks at the environment through StableF / GetF: it survives any change of (now, rem) that moves
     time forward, keeps the timer armed iff it was, and does not lower the offset Kp. *)
  Definition env_ok (s : st) (nw' rm' : Z) : Prop :=
    now s <= nw' /\ (rem s = 0 -> rm' = 0) /\ (0 < rem s -> 0 < rm') /\
    Kp (now s) (rem s) (tsf s) (ltr s) <= Kp nw' rm' (tsf s) (ltr s).

  Lemma env_p3 s s' : P3 s -> env_ok s (now s') (rem s') ->
    pc s' = pc s -> incs s' = incs s -> running s' = running s -> pending s' = pending s -> tsf s' = tsf s ->
    ltr s' = ltr s -> created s' = created s -> P3 s'.
  Proof.
    intros HP (E1 & E2 & E3 & E4) Fpc Fcs Frun Fp Fts Flt Fcr. unfold P3 in *. rewrite Fpc.
    assert (St : forall run p cr, StableF run p (rem s) (tsf s) (ltr s) (now s) cr ->
                                  StableF run p (rem s') (tsf s) (ltr s) (now s') cr).
    { intros. eapply StableF_env; eauto. }
    destruct (pc s) eqn:Hpc; unfold Stable, Cr, GetF in *; rewrite ?Fcs, ?Frun, ?Fp, ?Fts, ?Flt, ?Fcr;
      repeat match goal with H : _ /\ _ |- _ => destruct H end;
      repeat match goal with H : exists _, _ |- _ => destruct H end;
      repeat match goal with H : _ /\ _ |- _ => destruct H end;
      repeat split; auto; try lia;
      try solve [eexists; split; [eassumption|lia]];
      try solve [eapply Forall_due_mono; [|eassumption]; lia];
      try solve [eapply due_ok_mono; [|eassumption]; lia];
      try solve [do 2 eexists; repeat split; try eassumption; lia];
      try solve [eexists; repeat split; try eassumption; lia];
      try solve [match goal with H : due_ok _ (Kp _ _ _ _) _ |- _ => eapply due_ok_mono; [|exact H]; lia end];
      try solve [match goal with H : StableF true _ _ _ _ _ _ |- _ => apply St in H; unfold StableF in H; intuition end].
  Qed.
End Never.

Lemma StableF_cr run p rm ts lt nw cr cr' :
  (forall x, In x cr -> In x cr') -> StableF run p rm ts lt nw cr -> StableF run p rm ts lt nw cr'.
Proof.
  unfold StableF. intros Hcr. destruct run; auto. intros (A & B & C & D). repeat split; auto; try lia.
  eapply Forall_impl; [|exact D]. intros e. apply due_ok_cr; auto.
Qed.

Lemma NoDup_fst_unique {A B} (l : list (A * B)) i a b :
  NoDup (map fst l) -> In (i, a) l -> In (i, b) l -> a = b.
Proof.
  induction l as [|[j x] l IH]; simpl; [tauto|]. intros H [E1|H1] [E2|H2]; inversion H; subst.
  - congruence.
  - inversion E1; subst. exfalso. apply H3. apply in_map_iff. exists (i, b). auto.
  - inversion E2; subst. exfalso. apply H3. apply in_map_iff. exists (i, a). auto.
  - auto.
Qed.

Section Never2.
  Variable c : cmp.
  Hypothesis Hc : cmp_ok c.

  Lemma inv3_event e s : inv1 s -> inv2 s -> inv3 s -> inv3 (do_event c e s).
  Proof.
    intros I1 I2 [Herr HP HL [HC1 HC2]]. unfold do_event. rewrite Herr.
    destruct e.
    - (* Create *)
      destruct (is_idle (pc s) && (0 <? csecs)) eqn:E; [|constructor; auto; split; auto].
      apply andb_true_iff in E as [E1 E2]. apply Z.ltb_lt in E2.
      destruct (pc s) eqn:Hpc; try discriminate. unfold P3 in HP. rewrite Hpc in HP. destruct HP as [A B].
      destruct (of_csecs_ok csecs) as [Od Ud]; [lia|]. destruct U_val as (_ & _ & Hq).
      constructor; simpl; auto.
      + unfold P3, Stable, Cr in *; simpl. repeat split; auto.
        * apply (StableF_cr _ _ _ _ _ _ (created s)); [simpl; auto | exact B].
        * exists (now s). rewrite Ud. split; [left; reflexivity | lia].
        * rewrite Ud. nia.
      + unfold LogOK in *; simpl. intros id t d Hin. destruct (HL id t d Hin) as (t0 & dl & X & Y).
        exists t0, dl. auto.
      + split; simpl.
        * constructor; auto. intros Hin. apply HC2 in Hin. lia.
        * intros i [<-|Hi]; [lia|]. apply Nat.lt_lt_succ_r, HC2; auto.
    - (* Destroy *)
      destruct (is_idle (pc s) && memb id (alive s)) eqn:E; [|constructor; auto; split; auto].
      apply andb_true_iff in E as [E1 E2].
      destruct (pc s) eqn:Hpc; try discriminate. unfold P3 in HP. rewrite Hpc in HP.
      destruct (memb id (expired s)); constructor; simpl; auto; try (split; auto);
        unfold P3, Stable in *; simpl; auto.
    - (* Step *)
      destruct (step_p3 c Hc s I1 I2 Herr HP) as [A B].
      destruct (step_frame c s) as (F1 & F2 & F3).
      constructor; auto.
      + unfold LogOK. rewrite F1, F2. exact HL.
      + unfold CrOK. rewrite F2, F3. split; auto.
    - (* Tick *)
      destruct (0 <? us) eqn:E1; [|constructor; auto; split; auto]. apply Z.ltb_lt in E1.
      destruct (rem s =? 0) eqn:E2.
      + apply Z.eqb_eq in E2.
        constructor; [exact Herr | | exact HL | split; auto].
        apply (env_p3 s); auto. unfold env_ok, Kp; simpl. repeat split; lia.
      + apply Z.eqb_neq in E2.
        destruct (us <? rem s) eqn:E3; [|constructor; auto; split; auto]. apply Z.ltb_lt in E3.
        constructor; [exact Herr | | exact HL | split; auto].
        apply (env_p3 s); auto. unfold env_ok, Kp; simpl. repeat split; lia.
    - (* Fire *)
      destruct (0 <? rem s) eqn:E; [|constructor; auto; split; auto].
      apply Z.ltb_lt in E.
      destruct (incs s) eqn:Hf.
      { (* inside a critical section: the retry shot is armed, nothing else changes *)
        unfold handle_timeout. simpl. rewrite Hf.
        destruct reschedule_ok as [Ro Rp].
        unfold set_timer. rewrite (is_zero_false _ Ro Rp).
        constructor; simpl; [exact Herr | | exact HL | split; auto].
        apply (env_p3 s); auto. unfold env_ok, Kp; simpl. repeat split; lia. }
      assert (Hst : Stable s /\ (forall id d, pc s = C1 id d -> Cr s id d (now s) /\ 0 < to_us d) /\
                    (match pc s with Idle | C1 _ _ | C4 _ | D1 _ | D4 _ => True | _ => False end)).
      { unfold P3 in HP. destruct (pc s) eqn:Hpc; try (destruct HP as [X _]; congruence).
        all: split; [tauto|]; split; [|exact Logic.I].
        all: intros id0 d0 Heq; try discriminate.
        inversion Heq; subst. tauto. }
      destruct Hst as (Hst & Hc1 & Hpcs).
      destruct (fire_stable c Hc s I2 Herr Hf Hst HL E) as (A & B & C & D & F & G & H & J).
      constructor; auto.
      + unfold P3. rewrite F. destruct (pc s) eqn:Hpc; try tauto.
        destruct (Hc1 _ _ eq_refl) as [X Y]. repeat split; auto.
        eapply Cr_mono; [exact G | | exact X]. lia.
      + unfold CrOK. rewrite G, H. split; auto.
  Qed.

  Lemma inv3_run evs s : inv1 s -> inv2 s -> inv3 s -> inv3 (run c evs s).
  Proof.
    revert s. induction evs as [|e evs IH]; simpl; intros s I1 I2 I3; auto.
    apply IH; auto.
    - apply inv1_event; auto.
    - apply inv2_event; auto. apply Hc.
    - apply inv3_event; auto.
  Qed.

  Lemma inv3_init : inv3 init.
  Proof.
    constructor; simpl; auto.
    - unfold P3, Stable, StableF; simpl. auto.
    - unfold LogOK; simpl. tauto.
    - split; simpl; [constructor | tauto].
  Qed.

  Theorem never_early_c evs : ~ Early (run c evs init).
  Proof.
    intros (id & t & d & t0 & dl & A & B & C).
    destruct (inv3_run evs init inv1_init inv2_init inv3_init) as [_ _ HL [HC1 _]].
    destruct (HL id t d A) as (t0' & dl' & X & Y).
    pose proof (NoDup_fst_unique _ _ _ _ HC1 B X) as E. inversion E; subst. lia.
  Qed.
End Never2.

(* With the reschedule fix in the model: never_early for the source's comparisons on EVERY schedule (no hypothesis about
   expiries inside critical sections), given that the regenerated facts say the comparisons are the intended ones. *)
Theorem never_early_src_unconditional : src_cmp_intended = true -> forall evs, ~ Early (run cmp_src evs init).
Proof. intros E. rewrite (src_cmp_intended_eq E). apply never_early_c, cmp_int_ok. Qed.

(* The statement that applies to the source's comparisons, decided from the regenerated facts on every run: they are
   the intended ones (today) and never_early holds on every schedule; or they are not, and -- for the one-token slip
   that was once in Time::operator== -- there is a schedule on which a handler runs early (witness_eq), so that a
   re-introduction does not merely break a proof but comes with its failing input. *)
Lemma never_early_src_status :
  if src_cmp_intended
  then forall evs, ~ Early (run cmp_src evs init)
  else exists evs, Early (run cmp_src evs init).
Proof.
  destruct src_cmp_intended eqn:E.
  - apply never_early_src_unconditional. exact E.
  - first [ exfalso; vm_compute in E; discriminate
          | exists witness_eq; apply early_b_sound; vm_compute; reflexivity ].
Qed.

(* never_early is not vacuous: a schedule with an expiry inside a critical section on which handlers do run. *)
Example never_early_nonvacuous :
  cmp_ok cmp_int /\ lids (run cmp_int witness_resched init) = [0%nat] /\ early_b (run cmp_int witness_resched init) = false.
Proof. split; [apply cmp_int_ok|]. split; vm_compute; reflexivity. Qed.
