(* C19 -- small-step model of the bookkeeping of /repo/src/Watchdog.cc + Watchdog_inlines.hh, AS WRITTEN.

   Program state: pending (sorted list of (deadline, id)), time_so_far, last_time_requested,
   alarm_clock_running, in_critical_section, the `expired` flags, and a program counter that sits at the
   PPL_VERIF_YIELD(n) points of the constructor / new_watchdog_event / destructor /
   remove_watchdog_event (the constructor carries the locals that are live at that point).
   Environment: a one-shot count-down timer `rem` (microseconds; 0 = disarmed), the true elapsed timer time
   `now`, the log of handler invocations, the trace of timer system calls.
   Steps: Create / Destroy (a call starts: the statements up to the first yield), Step (the statements up to the
   next yield), Tick d (time passes, strictly less than what is left on the timer), Fire (the rest of the count-down
   passes and handle_timeout runs atomically).  An event that is not enabled leaves the state unchanged, so every
   list of events is a schedule.

   Granularity: set_timer / get_timer / stop_timer / Pending_List::insert / erase are atomic; consecutive
   statements that touch only locals of new_watchdog_event / remove_watchdog_event are grouped with the following
   statement (exactly as the yields are placed in the source). *)
Require Import ZArith List Bool Lia.
Require Import PPLV.Watchdog.TimeSpec PPLV.gen.Facts_Time PPLV.Watchdog.Time.
Import ListNotations.
Open Scope Z_scope.

Definition elem := (Time * nat)%type.

Inductive call := CSet (s us : Z) | CGet (s us : Z) | CStop.

Inductive pcT :=
| Idle
(* Watchdog::Watchdog(csecs, ...) *)
| C1 (id : nat) (d : Time)            (* yield 1 : before in_critical_section = true *)
| C2 (id : nat) (d : Time)            (* yield 2 : before the call of new_watchdog_event *)
| A0 (id : nat) (d : Time)            (* yield 20: !alarm_clock_running; before pending.insert *)
| A1 (id : nat) (d : Time)            (* yield 21: before time_so_far = Time(0) *)
| A2 (id : nat) (d : Time)            (* yield 22: before set_timer(deadline) *)
| A3 (id : nat)                       (* yield 23: before alarm_clock_running = true *)
| E0 (id : nat) (d : Time)            (* yield 30: before get_timer(time_to_shoot) *)
| E1 (id : nat) (d tts : Time)        (* yield 31: before elapsed_time(last_time_requested) *)
| E2 (id : nat) (d tts el : Time)     (* yield 32: before elapsed -= tts; current = time_so_far + elapsed; real_deadline *)
| E3 (id : nat) (d tts cur rd : Time) (* yield 33: before pending.insert(real_deadline); if (deadline < tts) *)
| E5 (id : nat) (d cur : Time)        (* yield 35: before time_so_far = current_time *)
| E6 (id : nat) (d : Time)            (* yield 36: before set_timer(deadline) *)
| C3 (id : nat)                       (* yield 3 : before in_critical_section = false *)
| C4 (id : nat)                       (* yield 4 : before the constructor returns *)
(* Watchdog::~Watchdog() *)
| D1 (id : nat)                       (* yield 10: `!expired` was true; before in_critical_section = true *)
| D2 (id : nat)                       (* yield 11: before the call of remove_watchdog_event *)
| R0 (id : nat) (fd nd : Time)        (* yield 40: first of >= 2, deadlines differ; before get_timer *)
| R1 (id : nat) (fd nd tts : Time)    (* yield 41: before elapsed_time(last_time_requested) *)
| R2 (id : nat) (fd nd tts el : Time) (* yield 42: before elapsed -= tts; time_so_far += elapsed *)
| R3 (id : nat) (fd nd tts : Time)    (* yield 43: before next -= first; tts += next; set_timer(tts) *)
| R5 (id : nat)                       (* yield 45: only element; before stop_timer() *)
| R6 (id : nat)                       (* yield 46: before alarm_clock_running = false *)
| R4 (id : nat)                       (* yield 44: before pending.erase(position) *)
| D3 (id : nat)                       (* yield 12: before in_critical_section = false *)
| D4 (id : nat).                      (* yield 13: before delete &handler; return *)

Definition yield_no (p : pcT) : Z :=
  match p with
  | Idle => 0 | C1 _ _ => 1 | C2 _ _ => 2 | A0 _ _ => 20 | A1 _ _ => 21 | A2 _ _ => 22 | A3 _ => 23
  | E0 _ _ => 30 | E1 _ _ _ => 31 | E2 _ _ _ _ => 32 | E3 _ _ _ _ _ => 33 | E5 _ _ _ => 35 | E6 _ _ => 36
  | C3 _ => 3 | C4 _ => 4 | D1 _ => 10 | D2 _ => 11 | R0 _ _ _ => 40 | R1 _ _ _ _ => 41 | R2 _ _ _ _ _ => 42
  | R3 _ _ _ _ => 43 | R5 _ => 45 | R6 _ => 46 | R4 _ => 44 | D3 _ => 12 | D4 _ => 13
  end.

Record st := mkSt {
  pending : list elem;      (* Watchdog::pending (active list), head = earliest *)
  tsf : Time;               (* time_so_far *)
  ltr : Time;               (* last_time_requested *)
  running : bool;           (* alarm_clock_running *)
  incs : bool;              (* in_critical_section *)
  expired : list nat;       (* watchdogs whose `expired` member is true *)
  pc : pcT;
  err : bool;               (* set_timer threw "PPL internal error" *)
  rem : Z;                  (* environment: what is left on the one-shot timer, 0 = disarmed *)
  now : Z;                  (* environment: true elapsed timer time *)
  log : list (nat * Z * Time);   (* handler invocations (id, now, stored deadline), newest first *)
  calls : list call;        (* timer system calls, newest first *)
  next_id : nat;            (* ghost: identity of the next object *)
  alive : list nat;         (* ghost: constructed, destructor not yet called *)
  dead : list nat;          (* ghost: destructor has returned *)
  created : list (nat * (Z * Z))  (* ghost: id -> (now at constructor entry, delay in microseconds) *)
}.

Definition init : st :=
  mkSt [] tzero tzero false false [] Idle false 0 0 [] [] 0%nat [] [] [].

Definition set_pending v s := mkSt v (tsf s) (ltr s) (running s) (incs s) (expired s) (pc s) (err s) (rem s) (now s) (log s) (calls s) (next_id s) (alive s) (dead s) (created s).
Definition set_tsf v s := mkSt (pending s) v (ltr s) (running s) (incs s) (expired s) (pc s) (err s) (rem s) (now s) (log s) (calls s) (next_id s) (alive s) (dead s) (created s).
Definition set_ltr v s := mkSt (pending s) (tsf s) v (running s) (incs s) (expired s) (pc s) (err s) (rem s) (now s) (log s) (calls s) (next_id s) (alive s) (dead s) (created s).
Definition set_running v s := mkSt (pending s) (tsf s) (ltr s) v (incs s) (expired s) (pc s) (err s) (rem s) (now s) (log s) (calls s) (next_id s) (alive s) (dead s) (created s).
Definition set_incs v s := mkSt (pending s) (tsf s) (ltr s) (running s) v (expired s) (pc s) (err s) (rem s) (now s) (log s) (calls s) (next_id s) (alive s) (dead s) (created s).
Definition set_expired v s := mkSt (pending s) (tsf s) (ltr s) (running s) (incs s) v (pc s) (err s) (rem s) (now s) (log s) (calls s) (next_id s) (alive s) (dead s) (created s).
Definition set_pc v s := mkSt (pending s) (tsf s) (ltr s) (running s) (incs s) (expired s) v (err s) (rem s) (now s) (log s) (calls s) (next_id s) (alive s) (dead s) (created s).
Definition set_err v s := mkSt (pending s) (tsf s) (ltr s) (running s) (incs s) (expired s) (pc s) v (rem s) (now s) (log s) (calls s) (next_id s) (alive s) (dead s) (created s).
Definition set_rem v s := mkSt (pending s) (tsf s) (ltr s) (running s) (incs s) (expired s) (pc s) (err s) v (now s) (log s) (calls s) (next_id s) (alive s) (dead s) (created s).
Definition set_now v s := mkSt (pending s) (tsf s) (ltr s) (running s) (incs s) (expired s) (pc s) (err s) (rem s) v (log s) (calls s) (next_id s) (alive s) (dead s) (created s).
Definition set_log v s := mkSt (pending s) (tsf s) (ltr s) (running s) (incs s) (expired s) (pc s) (err s) (rem s) (now s) v (calls s) (next_id s) (alive s) (dead s) (created s).
Definition set_calls v s := mkSt (pending s) (tsf s) (ltr s) (running s) (incs s) (expired s) (pc s) (err s) (rem s) (now s) (log s) v (next_id s) (alive s) (dead s) (created s).
Definition set_ghost n a d c s := mkSt (pending s) (tsf s) (ltr s) (running s) (incs s) (expired s) (pc s) (err s) (rem s) (now s) (log s) (calls s) n a d c.

Definition memb (i : nat) (l : list nat) : bool := existsb (Nat.eqb i) l.
Definition remove_id (i : nat) (l : list nat) : list nat := filter (fun j => negb (Nat.eqb i j)) l.

Definition reschedule_time : Time := of_csecs reschedule_csecs.

Inductive event := Create (csecs : Z) | Destroy (id : nat) | Step | Tick (us : Z) | Fire.

Section Machine.
  Variable c : cmp.

  (* Pending_List::insert: before the first element whose deadline is not less than `d`. *)
  Fixpoint insert (d : Time) (id : nat) (l : list elem) : list elem :=
    match l with
    | [] => [(d, id)]
    | (d', id') :: r => if clt c d' d then (d', id') :: insert d id r else (d, id) :: l
    end.

  (* Pending_List::erase(position) *)
  Definition erase (id : nat) (l : list elem) : list elem :=
    filter (fun e => negb (Nat.eqb (snd e) id)) l.

  (* Watchdog::set_timer *)
  Definition set_timer (t : Time) (s : st) : st :=
    if is_zero t then set_err true s
    else set_calls (CSet (secs t) (usecs t) :: calls s) (set_rem (to_us t) (set_ltr t s)).

  (* Watchdog::get_timer: getitimer returns (rem / U, rem % U); Time(s, m) normalises *)
  Definition timer_value (s : st) : Time := mk2 (rem s / U) (rem s mod U).
  Definition get_timer (s : st) : st := set_calls (CGet (rem s / U) (rem s mod U) :: calls s) s.

  (* Watchdog::stop_timer *)
  Definition stop_timer (s : st) : st := set_calls (CStop :: calls s) (set_rem 0 s).

  (* the `while (i != pending.end() && i->deadline() <= time_so_far)` part of handle_timeout's do-while *)
  Fixpoint fire_loop (t : Time) (l : list elem) : list elem * list elem :=
    match l with
    | [] => ([], [])
    | (d, id) :: r =>
        if cle c d t then let (f, r') := fire_loop t r in ((d, id) :: f, r') else ([], l)
    end.

  Definition log_entry (t : Z) (e : elem) : nat * Z * Time := (snd e, t, fst e).

  (* Watchdog::handle_timeout *)
  Definition handle_timeout (s : st) : st :=
    if incs s then set_ltr (ltr s) (set_timer reschedule_time s)
    else
      let t := tadd (tsf s) (ltr s) in
      let s1 := set_tsf t s in
      match pending s with
      | [] => set_running false s1
      | e :: r =>
          let (f, r') := fire_loop t r in
          let fired := e :: f in
          let s2 := set_pending r'
                      (set_expired (rev (map snd fired) ++ expired s)
                         (set_log (rev (map (log_entry (now s)) fired) ++ log s) s1)) in
          match r' with
          | [] => set_running false s2
          | (d', _) :: _ => set_timer (tsub d' t) s2
          end
      end.

  (* one block of statements, from the yield where the program counter sits to the next yield *)
  Definition step (s : st) : st :=
    match pc s with
    | Idle => s
    | C1 id d => set_pc (C2 id d) (set_incs true s)
    | C2 id d => if running s then set_pc (E0 id d) s else set_pc (A0 id d) s
    | A0 id d => set_pc (A1 id d) (set_pending (insert d id (pending s)) s)
    | A1 id d => set_pc (A2 id d) (set_tsf tzero s)
    | A2 id d => set_pc (A3 id) (set_timer d s)
    | A3 id => set_pc (C3 id) (set_running true s)
    | E0 id d => set_pc (E1 id d (timer_value s)) (get_timer s)
    | E1 id d tts => set_pc (E2 id d tts (ltr s)) s
    | E2 id d tts el =>
        let cur := tadd (tsf s) (tsub el tts) in
        set_pc (E3 id d tts cur (tadd d cur)) s
    | E3 id d tts cur rd =>
        let s1 := set_pending (insert rd id (pending s)) s in
        if clt c d tts then set_pc (E5 id d cur) s1 else set_pc (C3 id) s1
    | E5 id d cur => set_pc (E6 id d) (set_tsf cur s)
    | E6 id d => set_pc (C3 id) (set_timer d s)
    | C3 id => set_pc (C4 id) (set_incs false s)
    | C4 id => set_pc Idle s
    | D1 id => set_pc (D2 id) (set_incs true s)
    | D2 id =>
        match pending s with
        | (fd, id') :: rest =>
            if Nat.eqb id' id then
              match rest with
              | (nd, _) :: _ => if cne c fd nd then set_pc (R0 id fd nd) s else set_pc (R4 id) s
              | [] => set_pc (R5 id) s
              end
            else set_pc (R4 id) s
        | [] => set_pc (R4 id) s
        end
    | R0 id fd nd => set_pc (R1 id fd nd (timer_value s)) (get_timer s)
    | R1 id fd nd tts => set_pc (R2 id fd nd tts (ltr s)) s
    | R2 id fd nd tts el => set_pc (R3 id fd nd tts) (set_tsf (tadd (tsf s) (tsub el tts)) s)
    | R3 id fd nd tts => set_pc (R4 id) (set_timer (tadd tts (tsub nd fd)) s)
    | R5 id => set_pc (R6 id) (stop_timer s)
    | R6 id => set_pc (R4 id) (set_running false s)
    | R4 id => set_pc (D3 id) (set_pending (erase id (pending s)) s)
    | D3 id => set_pc (D4 id) (set_incs false s)
    | D4 id => set_pc Idle (set_ghost (next_id s) (alive s) (id :: dead s) (created s) s)
    end.

  Definition is_idle (p : pcT) : bool := match p with Idle => true | _ => false end.

  Definition do_event (e : event) (s : st) : st :=
    if err s then s else
    match e with
    | Create cs =>
        if is_idle (pc s) && (0 <? cs) then
          let id := next_id s in
          set_pc (C1 id (of_csecs cs))
            (set_ghost (S id) (id :: alive s) (dead s)
               ((id, (now s, cs * (U / CSECS_PER_SEC))) :: created s) s)
        else s
    | Destroy id =>
        if is_idle (pc s) && memb id (alive s) then
          let s1 := set_ghost (next_id s) (remove_id id (alive s)) (dead s) (created s) s in
          if memb id (expired s) then set_pc (D4 id) s1 else set_pc (D1 id) s1
        else s
    | Step => step s
    | Tick us =>
        if 0 <? us then
          if rem s =? 0 then set_now (now s + us) s
          else if us <? rem s then set_now (now s + us) (set_rem (rem s - us) s)
          else s
        else s
    | Fire =>
        if 0 <? rem s then handle_timeout (set_now (now s + rem s) (set_rem 0 s))
        else s
    end.

  Definition run (evs : list event) (s : st) : st := fold_left (fun s e => do_event e s) evs s.

  (* let a call that is under way run to its end *)
  Fixpoint finish (fuel : nat) (s : st) : st :=
    match fuel with
    | O => s
    | S n => if is_idle (pc s) then s else finish n (do_event Step s)
    end.
End Machine.
