(* C19 -- Implementation::Watchdog::Time as written in /repo/src/Time_inlines.hh.
   Arithmetic is transcribed by hand (`long` modelled by Z: the quantities are sums of a few delays, far from
   LONG_MAX); the comparison operators are NOT transcribed: they are evaluated from the specs that
   tools/translate_time.py regenerates from the source on every run (gen/Facts_Time.v). *)
Require Import ZArith Bool Lia.
Require Import PPLV.Watchdog.TimeSpec PPLV.gen.Facts_Time.
Open Scope Z_scope.

Notation U := USECS_PER_SEC.

(* Time::Time() *)
Definition tzero : Time := mkT 0 0.
(* Time::Time(long centisecs) *)
Definition of_csecs (c : Z) : Time :=
  mkT (c / CSECS_PER_SEC) ((c mod CSECS_PER_SEC) * (U / CSECS_PER_SEC)).
(* Time::Time(long s, long m) *)
Definition mk2 (s m : Z) : Time := if U <=? m then mkT (s + m / U) (m mod U) else mkT s m.
(* operator+= *)
Definition tadd (x y : Time) : Time :=
  let rs := secs x + secs y in
  let rm := usecs x + usecs y in
  if U <=? rm then mkT (rs + 1) (rm mod U) else mkT rs rm.
(* operator-= (saturating at the null interval) *)
Definition tsub (x y : Time) : Time :=
  let rs := secs x - secs y in
  let rm := usecs x - usecs y in
  let rs1 := if rm <? 0 then rs - 1 else rs in
  let rm1 := if rm <? 0 then rm + U else rm in
  if rs1 <? 0 then mkT 0 0 else mkT rs1 rm1.
(* the test at the head of Watchdog::set_timer *)
Definition is_zero (t : Time) : bool := (secs t =? 0) && (usecs t =? 0).

(* The four comparison operators used by Watchdog.cc / Pending_List. *)
Record cmp := mkCmp { ceq : Time -> Time -> bool; cne : Time -> Time -> bool;
                      clt : Time -> Time -> bool; cle : Time -> Time -> bool }.

Definition nocall (_ _ : Time) := false.
Definition cmp_of (e_eq e_ne e_lt e_le : bexp) : cmp :=
  let feq := eval nocall nocall e_eq in
  let flt := eval feq nocall e_lt in
  mkCmp feq (eval feq flt e_ne) flt (eval feq flt e_le).

(* as written in the source *)
Definition cmp_src : cmp := cmp_of time_eq_spec time_ne_spec time_lt_spec time_le_spec.
(* as documented *)
Definition cmp_int : cmp := cmp_of intended_eq intended_ne intended_lt intended_le.

(* Which of the source's operators are the intended ones (decided on every run from the regenerated facts). *)
Definition src_eq_intended : bool := bexp_eqb time_eq_spec intended_eq.
Definition src_lt_intended : bool := bexp_eqb time_lt_spec intended_lt.
Definition src_le_intended : bool := bexp_eqb time_le_spec intended_le.
Definition src_ne_intended : bool := bexp_eqb time_ne_spec intended_ne.
Definition src_cmp_intended : bool :=
  src_eq_intended && src_ne_intended && src_lt_intended && src_le_intended.

Lemma src_cmp_intended_eq : src_cmp_intended = true -> cmp_src = cmp_int.
Proof.
  unfold src_cmp_intended, src_eq_intended, src_ne_intended, src_lt_intended, src_le_intended, cmp_src, cmp_int.
  generalize time_eq_spec time_ne_spec time_lt_spec time_le_spec intended_eq intended_ne intended_lt intended_le.
  intros a b c d a' b' c' d' H.
  apply andb_true_iff in H as [H H4]. apply andb_true_iff in H as [H H3]. apply andb_true_iff in H as [H1 H2].
  apply bexp_eqb_eq in H1, H2, H3, H4. subst. reflexivity.
Qed.

(* ---- meaning in microseconds -------------------------------------------------------------- *)

Definition to_us (t : Time) : Z := secs t * U + usecs t.
Definition of_us (n : Z) : Time := mkT (n / U) (n mod U).
Definition OKt (t : Time) : Prop := 0 <= secs t /\ 0 <= usecs t < U.

Lemma U_pos : 0 < U. Proof. reflexivity. Qed.
Lemma U_val : U = CSECS_PER_SEC * (U / CSECS_PER_SEC) /\ 0 < CSECS_PER_SEC /\ 0 < U / CSECS_PER_SEC.
Proof. repeat split. Qed.

Lemma OKt_zero : OKt tzero.
Proof. unfold OKt, tzero; simpl. pose proof U_pos. lia. Qed.

Lemma to_us_nonneg t : OKt t -> 0 <= to_us t.
Proof. unfold OKt, to_us. pose proof U_pos. nia. Qed.

Lemma OKt_eq x y : OKt x -> OKt y -> to_us x = to_us y -> x = y.
Proof.
  destruct x as [a b], y as [c d]; unfold OKt, to_us; simpl. intros Hx Hy H.
  pose proof U_pos.
  assert (a = c) by nia. subst. f_equal. lia.
Qed.

Lemma of_us_ok n : 0 <= n -> OKt (of_us n) /\ to_us (of_us n) = n.
Proof.
  intros Hn. pose proof U_pos as HU. unfold OKt, to_us, of_us; simpl.
  pose proof (Z.mod_pos_bound n U HU). pose proof (Z.div_pos n U Hn HU).
  pose proof (Z.div_mod n U). lia.
Qed.

Lemma of_us_to_us t : OKt t -> of_us (to_us t) = t.
Proof.
  intros H. apply OKt_eq; auto.
  - apply of_us_ok, to_us_nonneg, H.
  - apply of_us_ok, to_us_nonneg, H.
Qed.

Lemma of_csecs_ok c : 0 <= c -> OKt (of_csecs c) /\ to_us (of_csecs c) = c * (U / CSECS_PER_SEC).
Proof.
  intros Hc. destruct U_val as (HU & HC & HQ).
  unfold OKt, to_us, of_csecs; simpl.
  pose proof (Z.mod_pos_bound c _ HC). pose proof (Z.div_pos c _ Hc HC).
  pose proof (Z.div_mod c CSECS_PER_SEC).
  set (q := c / CSECS_PER_SEC) in *. set (r := c mod CSECS_PER_SEC) in *.
  set (k := U / CSECS_PER_SEC) in *. clearbody k q r.
  rewrite HU. nia.
Qed.

Lemma tadd_ok x y : OKt x -> OKt y -> OKt (tadd x y) /\ to_us (tadd x y) = to_us x + to_us y.
Proof.
  unfold OKt, to_us, tadd. intros Hx Hy. pose proof U_pos as HU.
  destruct (U <=? usecs x + usecs y) eqn:E; simpl.
  - apply Z.leb_le in E.
    assert (Hm : (usecs x + usecs y) mod U = usecs x + usecs y - U).
    { symmetry. apply Z.mod_unique_pos with (q := 1); lia. }
    rewrite Hm. lia.
  - apply Z.leb_gt in E. lia.
Qed.

Lemma tsub_ok x y : OKt x -> OKt y -> OKt (tsub x y) /\ to_us (tsub x y) = Z.max 0 (to_us x - to_us y).
Proof.
  unfold OKt, to_us, tsub. intros Hx Hy. pose proof U_pos as HU.
  destruct (usecs x - usecs y <? 0) eqn:E1;
    [apply Z.ltb_lt in E1 | apply Z.ltb_ge in E1];
    match goal with |- context [?a <? 0] => destruct (a <? 0) eqn:E2 end;
    [apply Z.ltb_lt in E2 | apply Z.ltb_ge in E2 | apply Z.ltb_lt in E2 | apply Z.ltb_ge in E2];
    simpl; nia.
Qed.

Lemma mk2_of_us n : 0 <= n -> mk2 (n / U) (n mod U) = of_us n.
Proof.
  intros Hn. unfold mk2, of_us. pose proof (Z.mod_pos_bound n U U_pos).
  destruct (U <=? n mod U) eqn:E; [apply Z.leb_le in E; lia | reflexivity].
Qed.

(* The intended comparisons mean what they should on well-formed times. *)
Lemma int_lt_spec x y : OKt x -> OKt y -> (clt cmp_int x y = true <-> to_us x < to_us y).
Proof.
  unfold OKt, to_us; intros Hx Hy. pose proof U_pos.
  cbn. rewrite orb_true_iff, andb_true_iff, !Z.ltb_lt, Z.eqb_eq. nia.
Qed.
Lemma int_eq_spec x y : OKt x -> OKt y -> (ceq cmp_int x y = true <-> to_us x = to_us y).
Proof.
  unfold OKt, to_us; intros Hx Hy. pose proof U_pos.
  cbn. rewrite andb_true_iff, !Z.eqb_eq. split.
  - intros [-> ->]. reflexivity.
  - intros E. assert (secs x = secs y) by nia. split; [assumption | nia].
Qed.
Lemma int_le_spec x y : OKt x -> OKt y -> (cle cmp_int x y = true <-> to_us x <= to_us y).
Proof.
  intros Hx Hy.
  change (cle cmp_int x y) with (clt cmp_int x y || ceq cmp_int x y).
  rewrite orb_true_iff, int_lt_spec, int_eq_spec by assumption. lia.
Qed.
Lemma int_ne_spec x y : OKt x -> OKt y -> (cne cmp_int x y = true <-> to_us x <> to_us y).
Proof.
  intros Hx Hy.
  change (cne cmp_int x y) with (negb (ceq cmp_int x y)).
  rewrite negb_true_iff, <- not_true_iff_false, int_eq_spec by assumption. tauto.
Qed.

(* What the theorems need from a comparison record. *)
Definition lt_ok (c : cmp) : Prop := forall x y, OKt x -> OKt y -> (clt c x y = true <-> to_us x < to_us y).
Definition cmp_ok (c : cmp) : Prop :=
  lt_ok c /\
  (forall x y, OKt x -> OKt y -> (cle c x y = true <-> to_us x <= to_us y)) /\
  (forall x y, OKt x -> OKt y -> (cne c x y = true <-> to_us x <> to_us y)).

Lemma cmp_int_ok : cmp_ok cmp_int.
Proof. repeat split; intros; first [apply int_lt_spec | apply int_le_spec | apply int_ne_spec]; auto. Qed.

(* operator< of the source is the intended one: a fact-dependent obligation (breaks if the source's `<` changes). *)
Lemma src_lt_ok_if : src_lt_intended = true -> lt_ok cmp_src.
Proof.
  unfold src_lt_intended. intros H x y Hx Hy.
  rewrite <- (int_lt_spec x y Hx Hy).
  unfold cmp_src, cmp_int, cmp_of; cbn [clt].
  revert H. generalize time_lt_spec. intros e H. apply bexp_eqb_eq in H. subst e.
  (* the body of the intended operator< makes no call, so the callee does not matter *)
  cbn. reflexivity.
Qed.
