(* C19 -- Threshold_Watcher<Traits> (src/Threshold_Watcher_templates.hh / _inlines.hh) with Traits =
   Weightwatch_Traits, AS WRITTEN:  Traits::less_than(a, b) is `b - a < 2^63` on unsigned 64-bit values, i.e.
   "a <= b" as long as the two weights are less than 2^63 apart (modelled on Z by <=?; wrap-around is a named
   limit).  Consequently a watcher triggers at the first check at which the weight EXCEEDS its threshold
   (weight at construction + delta), not when it reaches it.
   add_threshold / remove_threshold / check against a weight that only grows. *)
Require Import ZArith List Bool Lia.
Import ListNotations.
Open Scope Z_scope.

Definition telem := (Z * nat)%type.

Record tw := mkTW {
  tpend : list telem;          (* init.pending, head = smallest threshold *)
  tweight : Z;                 (* Weightwatch_Traits::weight *)
  tcheckfn : bool;             (* Weightwatch_Traits::check_function != nullptr *)
  tlog : list (nat * Z);       (* handler invocations (id, weight at the check), newest first *)
  texp : list nat;             (* `expired` members that are true *)
  tnext : nat;                 (* ghost: next identity *)
  talive : list nat;           (* ghost *)
  tthr : list (nat * Z)        (* ghost: id -> threshold *)
}.

Definition tinit : tw := mkTW [] 0 false [] [] 0%nat [] [].

Inductive top := TAdd (delta : Z) | TRemove (id : nat) | TWeight (inc : Z) | TCheck.

(* Traits::less_than *)
Definition less_than (a b : Z) : bool := a <=? b.

(* Pending_List::insert with Traits::less_than *)
Fixpoint tinsert (t : Z) (id : nat) (l : list telem) : list telem :=
  match l with
  | [] => [(t, id)]
  | (t', i') :: r => if less_than t' t then (t', i') :: tinsert t id r else (t, id) :: l
  end.

Definition terase (id : nat) (l : list telem) : list telem := filter (fun e => negb (Nat.eqb (snd e) id)) l.
Definition tmem (i : nat) (l : list nat) : bool := existsb (Nat.eqb i) l.
Definition is_nil {A} (l : list A) : bool := match l with [] => true | _ => false end.

(* the loop of Threshold_Watcher::check *)
Fixpoint tloop (w : Z) (l : list telem) : list telem * list telem :=
  match l with
  | [] => ([], [])
  | (t, i) :: r => if negb (less_than w t) then let (f, r') := tloop w r in ((t, i) :: f, r') else ([], l)
  end.

Definition tdo (o : top) (s : tw) : tw :=
  match o with
  | TAdd delta =>
      let thr := tweight s + delta in
      if less_than (tweight s) thr then          (* else: the constructor throws std::invalid_argument *)
        mkTW (tinsert thr (tnext s) (tpend s)) (tweight s) true (tlog s) (texp s) (S (tnext s))
             (tnext s :: talive s) ((tnext s, thr) :: tthr s)
      else s
  | TRemove id =>
      if tmem id (talive s) then
        let al := filter (fun j => negb (Nat.eqb id j)) (talive s) in
        if tmem id (texp s) then mkTW (tpend s) (tweight s) (tcheckfn s) (tlog s) (texp s) (tnext s) al (tthr s)
        else let p := terase id (tpend s) in
             mkTW p (tweight s) (if is_nil p then false else tcheckfn s) (tlog s) (texp s) (tnext s) al (tthr s)
      else s
  | TWeight inc => if 0 <=? inc then mkTW (tpend s) (tweight s + inc) (tcheckfn s) (tlog s) (texp s) (tnext s) (talive s) (tthr s) else s
  | TCheck =>
      if tcheckfn s then
        let (f, r) := tloop (tweight s) (tpend s) in
        mkTW r (tweight s) (if is_nil f then tcheckfn s else if is_nil r then false else tcheckfn s)
             (rev (map (fun e => (snd e, tweight s)) f) ++ tlog s) (rev (map snd f) ++ texp s) (tnext s) (talive s) (tthr s)
      else s
  end.

Definition trun (ops : list top) (s : tw) : tw := fold_left (fun s o => tdo o s) ops s.

(* ---- proofs ------------------------------------------------------------------------------------------------ *)

Fixpoint tsorted (l : list telem) : Prop :=
  match l with [] => True | (t, _) :: r => (match r with [] => True | (t', _) :: _ => t <= t' end) /\ tsorted r end.

Record tinv (s : tw) : Prop := {
  t_sorted : tsorted (tpend s);
  t_nodup_p : NoDup (map snd (tpend s));
  t_nodup_l : NoDup (map fst (tlog s));
  t_log_exp : forall i, In i (map fst (tlog s)) -> In i (texp s);
  t_exp_p : forall i, In i (texp s) -> ~ In i (map snd (tpend s));
  t_lt : forall i, In i (map snd (tpend s)) \/ In i (texp s) -> (i < tnext s)%nat;
  t_thr : forall t i, In (t, i) (tpend s) -> In (i, t) (tthr s);
  t_thr_lt : forall i t, In (i, t) (tthr s) -> (i < tnext s)%nat;
  t_thr_nodup : NoDup (map fst (tthr s));
  t_log_ok : forall i w, In (i, w) (tlog s) -> exists t, In (i, t) (tthr s) /\ t < w;
  t_fn : tcheckfn s = negb (is_nil (tpend s))
}.

Lemma tinv_init : tinv tinit.
Proof. constructor; simpl; try constructor; intros; try tauto. Qed.

Lemma tinsert_in t id l x : In x (tinsert t id l) <-> x = (t, id) \/ In x l.
Proof.
  induction l as [|[t' i'] l IH]; simpl; [intuition|].
  destruct (less_than t' t); simpl; rewrite ?IH; intuition.
Qed.

Lemma tinsert_sorted t id l : tsorted l -> tsorted (tinsert t id l).
Proof.
  induction l as [|[t' i'] l IH]; simpl; intros H; auto.
  destruct H as [Hb Hs]. unfold less_than. destruct (t' <=? t) eqn:E; simpl.
  - apply Z.leb_le in E. split; auto.
    destruct l as [|[t2 i2] l]; simpl; auto. unfold less_than. destruct (t2 <=? t) eqn:E2; simpl; auto.
  - apply Z.leb_gt in E. split; auto. lia.
Qed.

Lemma tsorted_all t i r : tsorted ((t, i) :: r) -> forall x, In x r -> t <= fst x.
Proof.
  revert t i. induction r as [|[t' i'] r IH]; simpl; intros t i [Hb Hs] x Hx; [tauto|].
  destruct Hx as [<-|Hx]; simpl; auto. etransitivity; [exact Hb|]. exact (IH t' i' Hs x Hx).
Qed.

Lemma terase_in id l x : In x (terase id l) <-> In x l /\ snd x <> id.
Proof. unfold terase. rewrite filter_In, negb_true_iff, Nat.eqb_neq. tauto. Qed.

Lemma tsorted_filter (f : telem -> bool) l : tsorted l -> tsorted (filter f l).
Proof.
  induction l as [|[t i] l IH]; simpl; intros H; auto.
  destruct (f (t, i)); [|apply IH; apply H].
  simpl. split; [|apply IH; apply H].
  destruct (filter f l) as [|[t2 i2] l2] eqn:E; auto.
  assert (In (t2, i2) l) by (apply (proj1 (filter_In f (t2, i2) l)); rewrite E; simpl; auto).
  apply (tsorted_all t i l H (t2, i2)); auto.
Qed.

Lemma nodup_map_filter (f : telem -> bool) l : NoDup (map snd l) -> NoDup (map snd (filter f l)).
Proof.
  induction l as [|[t i] l IH]; simpl; intros H; auto.
  inversion H; subst. destruct (f (t, i)); simpl; auto. constructor; auto.
  intros Hin. apply H2. apply in_map_iff in Hin as (x & Hx & Hin). apply filter_In in Hin.
  apply in_map_iff. exists x. tauto.
Qed.

Lemma tloop_app w l f r : tloop w l = (f, r) -> l = f ++ r /\ (forall x, In x f -> fst x < w) /\
                          (match r with [] => True | (t, _) :: _ => w <= t end).
Proof.
  revert f r. induction l as [|[t i] l IH]; simpl; intros f r H.
  - inversion H. simpl. repeat split; auto. tauto.
  - unfold less_than in H. destruct (w <=? t) eqn:E; simpl in H.
    + inversion H; subst. simpl. apply Z.leb_le in E. repeat split; auto. tauto.
    + destruct (tloop w l) as [f' r'] eqn:E2. inversion H; subst.
      destruct (IH f' r eq_refl) as (A & B & C). apply Z.leb_gt in E. simpl. repeat split; auto.
      * f_equal; auto.
      * intros x [<-|Hx]; simpl; auto.
Qed.

Lemma tsorted_app_r f r : tsorted (f ++ r) -> tsorted r.
Proof. induction f as [|[t i] f IH]; simpl; auto. intros [_ H]; auto. Qed.

Lemma tmem_in i l : tmem i l = true <-> In i l.
Proof.
  unfold tmem. rewrite existsb_exists. split.
  - intros (x & Hx & E). apply Nat.eqb_eq in E. subst; auto.
  - intros H. exists i. split; auto. apply Nat.eqb_refl.
Qed.

Lemma NoDup_app_split {A} (l1 l2 : list A) : NoDup (l1 ++ l2) -> NoDup l1 /\ NoDup l2 /\ forall x, In x l1 -> ~ In x l2.
Proof.
  induction l1; simpl; intros H.
  - repeat split; auto. constructor.
  - inversion H; subst. destruct (IHl1 H3) as (A1 & A2 & A3). rewrite in_app_iff in H2. repeat split; auto.
    + constructor; auto.
    + intros x [->|Hx]; auto.
Qed.

Lemma NoDup_app_join {A} (l1 l2 : list A) :
  NoDup l1 -> NoDup l2 -> (forall x, In x l1 -> ~ In x l2) -> NoDup (l1 ++ l2).
Proof.
  induction l1; simpl; intros H1 H2 H; auto.
  inversion H1; subst. constructor.
  - rewrite in_app_iff. intros [?|?]; [tauto | eapply H; eauto].
  - apply IHl1; auto.
Qed.

Lemma tinv_do o s : tinv s -> tinv (tdo o s).
Proof.
  intros I. destruct o; simpl.
  - (* TAdd *)
    destruct (less_than (tweight s) (tweight s + delta)); auto.
    pose proof (t_lt s I) as Hlt.
    assert (Hfresh : ~ In (tnext s) (map snd (tpend s))) by (intros H; specialize (Hlt _ (or_introl H)); lia).
    assert (Hsnd : forall i, In i (map snd (tinsert (tweight s + delta) (tnext s) (tpend s))) <-> i = tnext s \/ In i (map snd (tpend s))).
    { intros i. rewrite !in_map_iff. split.
      - intros (x & <- & Hx). apply tinsert_in in Hx as [->|Hx]; simpl; auto. right. exists x; auto.
      - intros [->|(x & <- & Hx)]; [exists (tweight s + delta, tnext s) | exists x]; rewrite tinsert_in; auto. }
    constructor; simpl; try apply I.
    + apply tinsert_sorted, I.
    + (* NoDup after insert *)
      clear Hsnd Hlt. revert Hfresh. pose proof (t_nodup_p s I) as ND. revert ND.
      generalize (tweight s + delta) (tnext s). intros t n.
      induction (tpend s) as [|[t' i'] l IH]; simpl; intros ND Hf.
      * constructor; auto.
      * inversion ND; subst. destruct (less_than t' t); simpl.
        -- constructor; [|apply IH; auto]. intros Hin. apply in_map_iff in Hin as (x & Hx & Hin).
           apply tinsert_in in Hin as [->|Hin]; simpl in *; [intuition congruence|]. apply H1. apply in_map_iff. exists x; auto.
        -- constructor; simpl; auto.
    + intros i Hi. rewrite Hsnd. intros [->|Hx]; [|eapply (t_exp_p s I); eauto].
      specialize (Hlt _ (or_intror Hi)). lia.
    + intros i. rewrite Hsnd. intros [[->|Hx]|Hx]; [lia | |]; apply Nat.lt_lt_succ_r, Hlt; auto.
    + intros t i. rewrite tinsert_in. intros [[= ? ?]|Hx]; [subst; auto|]. right. apply (t_thr s I); auto.
    + intros i t [[= ? ?]|Hx]; [subst; lia|]. apply Nat.lt_lt_succ_r. eapply (t_thr_lt s I); eauto.
    + constructor; [|apply I]. intros Hin. apply in_map_iff in Hin as ([i t] & Hi & Hin). simpl in Hi. subst.
      apply (t_thr_lt s I) in Hin. lia.
    + intros i w Hin. destruct (t_log_ok s I i w Hin) as (t & A & B). exists t; auto.
    + destruct (tpend s) as [|[t' i'] l]; simpl; auto. destruct (less_than t' (tweight s + delta)); auto.
  - (* TRemove *)
    destruct (tmem id (talive s)); auto. destruct (tmem id (texp s)).
    + constructor; simpl; apply I.
    + constructor; simpl; try apply I.
      * apply tsorted_filter, I.
      * apply nodup_map_filter, I.
      * intros i Hi Hin. apply (t_exp_p s I i Hi). apply in_map_iff in Hin as (x & Hx & Hin).
        apply terase_in in Hin. apply in_map_iff. exists x; tauto.
      * intros i [Hin|Hin]; apply (t_lt s I); auto. left. apply in_map_iff in Hin as (x & Hx & Hin).
        apply terase_in in Hin. apply in_map_iff. exists x; tauto.
      * intros t i Hin. apply terase_in in Hin. apply (t_thr s I); tauto.
      * destruct (terase id (tpend s)) eqn:E; simpl; auto. rewrite (t_fn s I).
        destruct (tpend s); [discriminate|reflexivity].
  - (* TWeight *)
    destruct (0 <=? inc); auto. constructor; simpl; apply I.
  - (* TCheck *)
    destruct (tcheckfn s) eqn:Hfn; auto.
    destruct (tloop (tweight s) (tpend s)) as [f r] eqn:E.
    destruct (tloop_app _ _ _ _ E) as (Happ & Hf & Hr).
    pose proof (t_nodup_p s I) as ND. rewrite Happ, map_app in ND. apply NoDup_app_split in ND as (ND1 & ND2 & ND3).
    assert (Hpids : forall i, In i (map snd (tpend s)) <-> In i (map snd f) \/ In i (map snd r)).
    { intros i. rewrite Happ, map_app, in_app_iff. tauto. }
    constructor; simpl.
    + pose proof (t_sorted s I) as Hs. rewrite Happ in Hs. eapply tsorted_app_r; eauto.
    + exact ND2.
    + rewrite map_app, map_rev, map_map. simpl. apply NoDup_app_join.
      * apply NoDup_rev; auto.
      * apply I.
      * intros x Hx Hx2. rewrite <- in_rev in Hx. apply (t_log_exp s I) in Hx2. apply (t_exp_p s I) in Hx2.
        apply Hx2. rewrite Hpids; auto.
    + intros i. rewrite map_app, map_rev, map_map, !in_app_iff, <- !in_rev. simpl. intros [Hi|Hi]; auto.
      right. apply I; auto.
    + intros i. rewrite in_app_iff, <- in_rev. intros [Hi|Hi]; [apply ND3; auto|].
      intros Hi2. apply (t_exp_p s I i Hi). rewrite Hpids; auto.
    + intros i. rewrite in_app_iff, <- in_rev. intros Hi. apply (t_lt s I). rewrite Hpids. tauto.
    + intros t i Hin. apply (t_thr s I). rewrite Happ, in_app_iff; auto.
    + apply I.
    + apply I.
    + intros i w. rewrite in_app_iff, <- in_rev. intros [Hin|Hin]; [|apply (t_log_ok s I); auto].
      apply in_map_iff in Hin as ([t i'] & [= <- <-] & Hin). exists t. split.
      * apply (t_thr s I). rewrite Happ, in_app_iff; auto.
      * apply (Hf _ Hin).
    + pose proof (t_fn s I) as Hq. rewrite Hfn, Happ in Hq.
      destruct f as [|e f]; simpl in *; [exact Hq|].
      destruct r; reflexivity.
Qed.

Lemma tinv_run ops s : tinv s -> tinv (trun ops s).
Proof. revert s. induction ops; simpl; intros; auto. apply IHops, tinv_do; auto. Qed.

(* tw_spec, for every sequence of operations:
   (1) a handler runs at most once;
   (2) only at a check at which the weight exceeds its threshold (not otherwise);
   (3) at the first such check: right after a check, no pending threshold is exceeded;
   (4) the check function is installed exactly while thresholds are pending. *)
Theorem tw_spec_all ops :
  let s := trun ops tinit in
  NoDup (map fst (tlog s)) /\
  (forall i w, In (i, w) (tlog s) -> exists t, In (i, t) (tthr s) /\ t < w) /\
  (forall t i, In (t, i) (tpend (tdo TCheck s)) -> tweight s <= t) /\
  (tcheckfn s = negb (is_nil (tpend s))).
Proof.
  intros s. assert (I : tinv s) by apply tinv_run, tinv_init.
  repeat split; try apply I.
  intros t i. simpl. destruct (tcheckfn s) eqn:Hfn.
  - destruct (tloop (tweight s) (tpend s)) as [f r] eqn:E. simpl.
    destruct (tloop_app _ _ _ _ E) as (Happ & Hf & Hr).
    pose proof (t_sorted s I) as Hs. rewrite Happ in Hs. apply tsorted_app_r in Hs.
    destruct r as [|[t0 i0] r]; simpl; [tauto|]. intros [[= -> ->]|Hin]; auto.
    etransitivity; [exact Hr|]. apply (tsorted_all t0 i0 r Hs (t, i)); auto.
  - rewrite (t_fn s I) in Hfn. destruct (tpend s); [simpl; tauto | discriminate].
Qed.

Example tw_fires : exists ops, tlog (trun ops tinit) = [(0%nat, 6)].
Proof. exists [TAdd 5; TWeight 5; TCheck; TWeight 1; TCheck; TCheck]. reflexivity. Qed.
